/-
C13: lib/internal/racdict — the dictionary the compressor is given (`Saver.Compress`), the dictionary stored in
the file (`Saver.WrapResource`) and the dictionary the reader hands to the decompressor (`Loader.Load`) are the
same bytes.  Core Lean only.
-/
import WuffsVerif.Model.Rac.DictSaver
import WuffsVerif.Proof.RacBytes

namespace WuffsVerif.Rac.DictW
open WuffsVerif.Rac

theorem putU32LE_length (v : Nat) : (putU32LE v).length = 4 := rfl

theorem u32LE_putU32LE (v : Nat) (h : v < 2 ^ 32) : u32LE (putU32LE v) = v := by
  simp only [u32LE, putU32LE, List.getD_cons_zero, List.getD_cons_succ, UInt8.toNat_ofNat',
    Nat.shiftRight_eq_div_pow]
  rw [or_shift_eq_add _ _ 8 (by omega)]
  rw [or_shift_eq_add _ _ 16 (by omega)]
  rw [or_shift_eq_add _ _ 24 (by omega)]
  omega

theorem lastN_length_le (n : Nat) (b : Bytes) : (lastN n b).length ≤ n ∨ lastN n b = b := by
  unfold lastN
  split
  · left; simp; omega
  · right; rfl

/-- `refine` keeps a suffix -/
theorem lastN_suffix (n : Nat) (b : Bytes) : ∃ pre, b = pre ++ lastN n b := by
  unfold lastN
  split
  · exact ⟨b.take (b.length - n), (List.take_append_drop _ _).symm⟩
  · exact ⟨[], rfl⟩

theorem refineZlib_length (b : Bytes) : (refineZlib b).length = min b.length 32768 := by
  unfold refineZlib lastN
  split
  · simp; omega
  · omega

/-- **`Loader.Load` inverts `Saver.WrapResource`**: the bytes the reader's `Loader` extracts from a
secondary CRange that starts with a wrapped resource (and may continue with unrelated bytes: a CRange's length
has 1 KiB granularity) are exactly the refined dictionary — length prefix, reserved bits and CRC-32 all pass. -/
theorem load_wrapResource (refine : Bytes → Bytes) (raw wrapped : Bytes)
    (h : wrapResource refine raw = .ok wrapped) (extra : Bytes) :
    load (wrapped ++ extra) false 0xFF = .ok (refine raw) := by
  unfold wrapResource at h
  simp only at h
  split at h
  · exact absurd h (by simp)
  · rename_i hlen
    have hlen' : (refine raw).length ≤ maxInclLength := by omega
    have hw : wrapped = putU32LE (refine raw).length ++ refine raw ++ putU32LE (crc32 (refine raw)).toNat := by
      simpa using h.symm
    have hmax : maxInclLength = 2 ^ 30 - 1 := rfl
    generalize hr : refine raw = refined at *
    have hn32 : refined.length < 2 ^ 32 := by omega
    have hc32 : (crc32 refined).toNat < 2 ^ 32 := (crc32 refined).toNat_lt
    have hwl : (wrapped ++ extra).length = refined.length + 8 + extra.length := by
      rw [hw]; simp [putU32LE_length]; omega
    have htake : (wrapped ++ extra).take 4 = putU32LE refined.length := by
      rw [hw, List.append_assoc, List.append_assoc,
        List.take_append_of_le_length (by simp [putU32LE_length]),
        List.take_of_length_le (by simp [putU32LE_length])]
    have hbuf : ((wrapped ++ extra).drop 4).take (refined.length + 4) =
        refined ++ putU32LE (crc32 refined).toNat := by
      rw [hw, List.append_assoc, List.append_assoc]
      have : (putU32LE refined.length).length = 4 := rfl
      rw [List.drop_append_of_le_length (by omega), List.drop_of_length_le (by omega), List.nil_append,
        ← List.append_assoc, List.take_append_of_le_length (by simp [putU32LE_length]),
        List.take_of_length_le (by simp [putU32LE_length])]
    unfold load
    simp only [Bool.false_eq_true, ↓reduceIte, htake, u32LE_putU32LE _ hn32, hbuf]
    have hL : (wrapped ++ extra).length ≥ 8 := by omega
    generalize (wrapped ++ extra).length = L at hL hwl ⊢
    rw [if_neg (by simp; omega)]
    rw [if_neg (by simp; omega)]
    have hsh : refined.length >>> 30 = 0 := by
      rw [Nat.shiftRight_eq_div_pow]; omega
    rw [if_neg (by simp [hsh])]
    rw [if_neg (by omega)]
    rw [List.take_append_of_le_length (Nat.le_refl _), List.take_of_length_le (Nat.le_refl _),
      List.drop_append_of_le_length (Nat.le_refl _), List.drop_of_length_le (Nat.le_refl _), List.nil_append,
      u32LE_putU32LE _ hc32]
    simp

/-- what the loop of `Saver.Compress` returns: either the state it started from, or the candidate compressed
against the *refined* form of the resource it names -/
theorem compressLoop_spec (compress : Bytes → Bytes → Bytes → Except DErr Bytes) (refine : Bytes → Bytes)
    (p q : Bytes) (threshold : Nat) :
    ∀ (rs : List Bytes) (i : Nat) (best : Bytes) (sec : Int) (out : Bytes) (sec' : Int),
      compressLoop compress refine p q threshold rs i best sec = .ok (out, sec') →
      (out = best ∧ sec' = sec) ∨
      (∃ j, j < rs.length ∧ sec' = ((i + j : Nat) : Int) ∧ compress p q (refine (rs.getD j [])) = .ok out ∧
        (refine (rs.getD j [])).length ≤ maxInclLength ∧ out.length < threshold ∧ out.length < best.length) := by
  intro rs
  induction rs with
  | nil =>
    intro i best sec out sec' h
    simp only [compressLoop, Except.ok.injEq, Prod.mk.injEq] at h
    exact Or.inl ⟨h.1.symm, h.2.symm⟩
  | cons r rs ih =>
    intro i best sec out sec' h
    unfold compressLoop at h
    simp only at h
    split at h
    · exact absurd h (by simp)
    · rename_i hlen
      split at h
      · exact absurd h (by simp)
      · rename_i candidate hcand
        split at h
        · rcases ih (i + 1) best sec out sec' h with h1 | ⟨j, hj, h2, h3, h4, h5, h6⟩
          · exact Or.inl h1
          · refine Or.inr ⟨j + 1, by simp; omega, ?_, by simpa using h3, by simpa using h4, h5, h6⟩
            rw [h2]; congr 1; omega
        · rename_i hwin
          have hwin' : candidate.length < threshold ∧ candidate.length < best.length := by
            simp only [ge_iff_le, Bool.or_eq_true, decide_eq_true_eq, not_or, Nat.not_le] at hwin
            exact hwin
          rcases ih (i + 1) candidate (i : Int) out sec' h with ⟨h1, h2⟩ | ⟨j, hj, h2, h3, h4, h5, h6⟩
          · refine Or.inr ⟨0, by simp, by simpa using h2, ?_, by simpa using Nat.le_of_not_gt hlen, ?_, ?_⟩
            · rw [h1]; simpa using hcand
            · rw [h1]; exact hwin'.1
            · rw [h1]; exact hwin'.2
          · refine Or.inr ⟨j + 1, by simp; omega, ?_, by simpa using h3, by simpa using h4, h5, by omega⟩
            rw [h2]; congr 1; omega

/-- **`racdict_dictionaries_agree`**: whatever the codec's `compress` and `refine` are, if
`Saver.Compress(p, q, resourcesData, …)` succeeds then
* either it names no resource and returns `compress(p, q, nil)`,
* or it names `resourcesData[j]`, returns `compress(p, q, refine(resourcesData[j]))`, and the bytes that
  `Saver.WrapResource(resourcesData[j])` stores in the file are bytes from which the reader's `Loader.Load`
  (on a secondary CRange that starts with them, TTag `0xFF`, no tertiary) returns exactly
  `refine(resourcesData[j])`: the compressor and the decompressor are given the same dictionary. -/
theorem saverCompress_spec (compress : Bytes → Bytes → Bytes → Except DErr Bytes) (refine : Bytes → Bytes)
    (p q : Bytes) (rs : List Bytes) (out : Bytes) (sec : Int)
    (h : saverCompress compress refine p q rs = .ok (out, sec)) :
    (sec = -1 ∧ compress p q [] = .ok out) ∨
    (∃ j, j < rs.length ∧ sec = (j : Int) ∧ compress p q (refine (rs.getD j [])) = .ok out ∧
      ∃ wrapped, wrapResource refine (rs.getD j []) = .ok wrapped ∧
        ∀ extra, load (wrapped ++ extra) false 0xFF = .ok (refine (rs.getD j []))) := by
  unfold saverCompress at h
  split at h
  · exact absurd h (by simp)
  · rename_i baseline hb
    split at h
    · simp only [Except.ok.injEq, Prod.mk.injEq] at h
      exact Or.inl ⟨h.2.symm, by rw [← h.1]; exact hb⟩
    · rcases compressLoop_spec compress refine p q _ rs 0 baseline (-1) out sec h with ⟨h1, h2⟩ | ⟨j, hj, h2, h3, h4, _, _⟩
      · exact Or.inl ⟨h2, by rw [h1]; exact hb⟩
      · refine Or.inr ⟨j, hj, by simpa using h2, h3, ?_⟩
        have hw : wrapResource refine (rs.getD j []) =
            .ok (putU32LE (refine (rs.getD j [])).length ++ refine (rs.getD j []) ++
              putU32LE (crc32 (refine (rs.getD j []))).toNat) := by
          unfold wrapResource
          simp only
          rw [if_neg (by omega)]
        exact ⟨_, hw, fun extra => load_wrapResource refine _ _ hw extra⟩

end WuffsVerif.Rac.DictW
