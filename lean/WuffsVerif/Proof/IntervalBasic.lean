/-
Helper lemmas for C06 (lib/interval): membership, emptiness, `biggerIntPair`
(`BIP`) semantics, `split3Ways` specification.
-/
import WuffsVerif.Model.Interval

namespace WuffsVerif.Interval

/-! ### membership / emptiness -/

theorem mem_def (X : IR) (v : Int) : X.mem v ↔ loLe X.lo v ∧ leHi v X.hi := Iff.rfl

@[simp] theorem loLe_none (v : Int) : loLe none v ↔ True := Iff.rfl
@[simp] theorem loLe_some (a v : Int) : loLe (some a) v ↔ a ≤ v := Iff.rfl
@[simp] theorem leHi_none (v : Int) : leHi v none ↔ True := Iff.rfl
@[simp] theorem leHi_some (b v : Int) : leHi v (some b) ↔ v ≤ b := Iff.rfl

theorem mem_mk (a b : Option Int) (v : Int) : (IR.mk a b).mem v ↔ loLe a v ∧ leHi v b := Iff.rfl

theorem empty_mk_some (a b : Int) : (IR.mk (some a) (some b)).empty = decide (a > b) := rfl

theorem empty_eq_true_iff (X : IR) :
    X.empty = true ↔ ∃ a b, X.lo = some a ∧ X.hi = some b ∧ b < a := by
  obtain ⟨lo, hi⟩ := X
  cases lo <;> cases hi <;> simp [IR.empty]

theorem not_empty_of_mem {X : IR} {x : Int} (h : X.mem x) : X.empty = false := by
  obtain ⟨lo, hi⟩ := X
  obtain ⟨h1, h2⟩ := h
  cases lo <;> cases hi <;> simp_all [IR.empty]
  omega

theorem not_mem_of_empty {X : IR} (h : X.empty = true) (x : Int) : ¬ X.mem x := by
  intro hm
  have := not_empty_of_mem hm
  simp_all

/-- a non-empty interval has a member -/
theorem exists_mem_of_not_empty {X : IR} (h : X.empty = false) : ∃ x, X.mem x := by
  obtain ⟨lo, hi⟩ := X
  cases lo with
  | none =>
    cases hi with
    | none => exact ⟨0, trivial, trivial⟩
    | some b => exact ⟨b, trivial, Int.le_refl b⟩
  | some a =>
    cases hi with
    | none => exact ⟨a, Int.le_refl a, trivial⟩
    | some b =>
      refine ⟨a, Int.le_refl a, ?_⟩
      simp [IR.empty] at h
      simpa using h

theorem empty_iff_no_mem (X : IR) : X.empty = true ↔ ∀ x, ¬ X.mem x := by
  constructor
  · exact fun h x => not_mem_of_empty h x
  · intro h
    cases he : X.empty with
    | true => rfl
    | false =>
      obtain ⟨x, hx⟩ := exists_mem_of_not_empty he
      exact absurd hx (h x)

theorem mkEmpty_empty : mkEmpty.empty = true := by decide

theorem not_mem_mkEmpty (v : Int) : ¬ mkEmpty.mem v := not_mem_of_empty mkEmpty_empty v

/-- the lower bound of a non-empty interval with finite lower bound is a member -/
theorem lo_mem {X : IR} {a : Int} (h : X.empty = false) (hl : X.lo = some a) : X.mem a := by
  obtain ⟨lo, hi⟩ := X
  simp only at hl; subst hl
  cases hi with
  | none => exact ⟨Int.le_refl a, trivial⟩
  | some b =>
    refine ⟨Int.le_refl a, ?_⟩
    simp [IR.empty] at h
    simpa using h

theorem hi_mem {X : IR} {b : Int} (h : X.empty = false) (hh : X.hi = some b) : X.mem b := by
  obtain ⟨lo, hi⟩ := X
  simp only at hh; subst hh
  cases lo with
  | none => exact ⟨trivial, Int.le_refl b⟩
  | some a =>
    refine ⟨?_, Int.le_refl b⟩
    simp [IR.empty] at h
    simpa using h

theorem containsNegative_iff (X : IR) : X.containsNegative = true ↔ ∃ v, X.mem v ∧ v < 0 := by
  obtain ⟨lo, hi⟩ := X
  cases lo with
  | none =>
    cases hi with
    | none => simp only [IR.containsNegative, true_iff]; exact ⟨-1, ⟨trivial, trivial⟩, by decide⟩
    | some b =>
      simp only [IR.containsNegative, true_iff]
      refine ⟨min b (-1), ⟨trivial, ?_⟩, ?_⟩
      · simp only [leHi_some]; omega
      · omega
  | some a =>
    cases hi with
    | none =>
      simp only [IR.containsNegative, mem_mk, loLe_some, leHi_none, and_true]
      by_cases h : a ≥ 0
      · simp only [h, if_true]; constructor
        · intro h; cases h
        · rintro ⟨v, h1, h2⟩; omega
      · simp only [h, if_false, true_iff]; exact ⟨a, Int.le_refl a, by omega⟩
    | some b =>
      simp only [IR.containsNegative, mem_mk, loLe_some, leHi_some]
      by_cases h : a ≥ 0
      · simp only [h, if_true]; constructor
        · intro h; cases h
        · rintro ⟨v, h1, h2⟩; omega
      · simp only [h, if_false, decide_eq_true_eq]
        constructor
        · intro hab; exact ⟨a, ⟨Int.le_refl a, hab⟩, by omega⟩
        · rintro ⟨v, ⟨h1, h2⟩, _⟩; omega

theorem containsZero_iff (X : IR) : X.containsZero = true ↔ X.mem 0 := by
  obtain ⟨lo, hi⟩ := X
  cases lo <;> cases hi <;> simp [IR.containsZero, mem_mk]

theorem justZero_iff (X : IR) : X.justZero = true ↔ X.lo = some 0 ∧ X.hi = some 0 := by
  obtain ⟨lo, hi⟩ := X
  cases lo <;> cases hi <;> simp [IR.justZero]

theorem mem_justZero {X : IR} (h : X.justZero = true) {v : Int} (hv : X.mem v) : v = 0 := by
  obtain ⟨h1, h2⟩ := (justZero_iff X).1 h
  obtain ⟨a, b⟩ := hv
  rw [h1] at a; rw [h2] at b
  simp at a b; omega

/-- the set of concrete results `{f x y | x ∈ X, y ∈ Y}` -/
def Img (f : Int → Int → Int) (X Y : IR) (v : Int) : Prop :=
  ∃ x y, X.mem x ∧ Y.mem y ∧ f x y = v

/-- `Z` is a finite interval whose two bounds are concrete results (with soundness: `Z` is
exactly the hull of the concrete results) -/
def TightHull (f : Int → Int → Int) (X Y Z : IR) : Prop :=
  ∃ l h, Z = ⟨some l, some h⟩ ∧ Img f X Y l ∧ Img f X Y h

/-! ### `biggerInt` / `biggerIntPair` semantics -/

/-- `a ≤ v` for an extended lower bound (`+∞` = nothing yet) -/
def BI.le (a : BI) (v : Int) : Prop :=
  match a with | .negInf => True | .fin i => i ≤ v | .posInf => False

/-- `v ≤ a` for an extended upper bound -/
def BI.ge (a : BI) (v : Int) : Prop :=
  match a with | .posInf => True | .fin i => v ≤ i | .negInf => False

/-- `v` lies between the pair's bounds -/
def BIP.covers (p : BIP) (v : Int) : Prop := p.lo.le v ∧ p.hi.ge v

@[simp] theorem lowerMin_hi (p : BIP) (y : BI) : (p.lowerMin y).hi = p.hi := by
  simp only [BIP.lowerMin]; split <;> (try split) <;> rfl

@[simp] theorem raiseMax_lo (p : BIP) (y : BI) : (p.raiseMax y).lo = p.lo := by
  simp only [BIP.raiseMax]; split <;> (try split) <;> rfl

theorem lowerMin_lo_le (p : BIP) (y : BI) (v : Int) :
    (p.lowerMin y).lo.le v ↔ p.lo.le v ∨ y.le v := by
  obtain ⟨lo, hi⟩ := p
  cases lo <;> cases y <;> simp [BIP.lowerMin, BI.le]
  rename_i a b
  by_cases h : b < a <;> simp [h] <;> omega

theorem raiseMax_hi_ge (p : BIP) (y : BI) (v : Int) :
    (p.raiseMax y).hi.ge v ↔ p.hi.ge v ∨ y.ge v := by
  obtain ⟨lo, hi⟩ := p
  cases hi <;> cases y <;> simp [BIP.raiseMax, BI.ge]
  rename_i a b
  by_cases h : a < b <;> simp [h] <;> omega

theorem lowerMin_lo_cases (p : BIP) (y : BI) :
    (p.lowerMin y).lo = p.lo ∨ (p.lowerMin y).lo = y := by
  simp only [BIP.lowerMin]; split <;> (try split) <;> simp

theorem raiseMax_hi_cases (p : BIP) (y : BI) :
    (p.raiseMax y).hi = p.hi ∨ (p.raiseMax y).hi = y := by
  simp only [BIP.raiseMax]; split <;> (try split) <;> simp

theorem covers_lowerMin {p : BIP} {v : Int} (y : BI) (h : p.covers v) :
    (p.lowerMin y).covers v :=
  ⟨(lowerMin_lo_le p y v).2 (Or.inl h.1), by simpa using h.2⟩

theorem covers_raiseMax {p : BIP} {v : Int} (y : BI) (h : p.covers v) :
    (p.raiseMax y).covers v :=
  ⟨by simpa using h.1, (raiseMax_hi_ge p y v).2 (Or.inl h.2)⟩

/-- whatever `p` was, after `lowerMin l` and `raiseMax h` (in either order) every `v`
between `l` and `h` is covered. -/
theorem covers_lowerMin_raiseMax (p : BIP) {l h : BI} {v : Int} (hl : l.le v) (hh : h.ge v) :
    ((p.lowerMin l).raiseMax h).covers v :=
  ⟨by simpa using (lowerMin_lo_le p l v).2 (Or.inr hl), (raiseMax_hi_ge _ h v).2 (Or.inr hh)⟩

theorem covers_raiseMax_lowerMin (p : BIP) {l h : BI} {v : Int} (hl : l.le v) (hh : h.ge v) :
    ((p.raiseMax h).lowerMin l).covers v :=
  ⟨(lowerMin_lo_le _ l v).2 (Or.inr hl), by simpa using (raiseMax_hi_ge p h v).2 (Or.inr hh)⟩

theorem toIR_mem_iff (p : BIP) (v : Int) : p.toIR.mem v ↔ p.covers v := by
  obtain ⟨lo, hi⟩ := p
  cases lo <;> cases hi <;>
    simp [BIP.toIR, BIP.covers, BI.le, BI.ge, mem_mk, mkEmpty] <;> omega

theorem covers_fromIR (X : IR) (v : Int) : (BIP.fromIR X).covers v ↔ X.mem v := by
  obtain ⟨lo, hi⟩ := X
  cases lo <;> cases hi <;> simp [BIP.fromIR, BIP.covers, BI.le, BI.ge, mem_mk]

theorem covers_zero : (BIP.mk (.fin 0) (.fin 0)).covers 0 := by
  simp [BIP.covers, BI.le, BI.ge]

theorem covers_ite {c : Bool} {p q : BIP} {v : Int} (h1 : p.covers v)
    (h2 : p.covers v → q.covers v) : (if c then q else p).covers v := by
  cases c <;> simp [h1, h2]

/-! attainment (for tightness): a finite bound is a value of the operation -/

/-- lower bound is still the initial `+∞`, or a value satisfying `S` -/
def BI.attLo (S : Int → Prop) (b : BI) : Prop := b = .posInf ∨ ∃ i, b = .fin i ∧ S i
/-- upper bound is still the initial `-∞`, or a value satisfying `S` -/
def BI.attHi (S : Int → Prop) (b : BI) : Prop := b = .negInf ∨ ∃ i, b = .fin i ∧ S i

def BIP.att (S : Int → Prop) (p : BIP) : Prop := p.lo.attLo S ∧ p.hi.attHi S

theorem att_new (S : Int → Prop) : BIP.new.att S := ⟨Or.inl rfl, Or.inl rfl⟩

theorem att_fin {S : Int → Prop} {a b : Int} (ha : S a) (hb : S b) :
    (BIP.mk (.fin a) (.fin b)).att S := ⟨Or.inr ⟨a, rfl, ha⟩, Or.inr ⟨b, rfl, hb⟩⟩

theorem att_lowerMin {S : Int → Prop} {p : BIP} {i : Int} (h : p.att S) (hi : S i) :
    (p.lowerMin (.fin i)).att S := by
  refine ⟨?_, by simpa using h.2⟩
  rcases lowerMin_lo_cases p (.fin i) with e | e <;> rw [e]
  · exact h.1
  · exact Or.inr ⟨i, rfl, hi⟩

theorem att_raiseMax {S : Int → Prop} {p : BIP} {i : Int} (h : p.att S) (hi : S i) :
    (p.raiseMax (.fin i)).att S := by
  refine ⟨by simpa using h.1, ?_⟩
  rcases raiseMax_hi_cases p (.fin i) with e | e <;> rw [e]
  · exact h.2
  · exact Or.inr ⟨i, rfl, hi⟩

theorem att_ite {S : Int → Prop} {c : Bool} {p q : BIP} (h1 : p.att S)
    (h2 : c = true → q.att S) : (if c then q else p).att S := by
  cases c <;> simp [h1, h2]

/-- a pair that covers something and whose finite bounds are attained is a finite
interval with attained bounds -/
theorem toIR_of_att_covers {S : Int → Prop} {p : BIP} {v : Int} (ha : p.att S)
    (hc : p.covers v) : ∃ l h, p.toIR = ⟨some l, some h⟩ ∧ S l ∧ S h := by
  obtain ⟨lo, hi⟩ := p
  obtain ⟨h1, h2⟩ := ha
  obtain ⟨c1, c2⟩ := hc
  rcases h1 with h1 | ⟨l, h1, sl⟩
  · simp only at h1; subst h1; exact absurd c1 (by simp [BI.le])
  rcases h2 with h2 | ⟨h, h2, sh⟩
  · simp only at h2; subst h2; exact absurd c2 (by simp [BI.ge])
  simp only at h1 h2; subst h1; subst h2
  exact ⟨l, h, rfl, sl, sh⟩

/-! ### `split3Ways` -/

structure Split3Spec (x neg pos : IR) (hn hz hp : Bool) : Prop where
  neg_of_mem : ∀ v, x.mem v → v < 0 → hn = true ∧ neg.mem v
  pos_of_mem : ∀ v, x.mem v → 0 < v → hp = true ∧ pos.mem v
  zero_iff : hz = true ↔ x.mem 0
  neg_shape : hn = true → neg.lo = x.lo ∧ ∃ h, neg.hi = some h ∧ h < 0 ∧ x.mem h
  pos_shape : hp = true → pos.hi = x.hi ∧ ∃ l, pos.lo = some l ∧ 0 < l ∧ x.mem l

theorem split3_spec (x : IR) (hne : x.empty = false) (neg pos : IR) (hn hz hp : Bool)
    (h : x.split3 = (neg, pos, hn, hz, hp)) : Split3Spec x neg pos hn hz hp := by
  obtain ⟨lo, hi⟩ := x
  unfold IR.split3 at h
  simp only [hne, Bool.false_eq_true, if_false] at h
  cases lo with
  | none =>
    cases hi with
    | none =>
      simp only [Bool.false_eq_true, if_false, Prod.mk.injEq] at h
      obtain ⟨rfl, rfl, rfl, rfl, rfl⟩ := h
      constructor <;> simp [mem_mk, IR.empty, IR.containsZero] <;> omega
    | some b =>
      by_cases hb : b < 0
      · simp only [hb, decide_true, Bool.false_eq_true, if_false, if_true, Prod.mk.injEq] at h
        obtain ⟨rfl, rfl, rfl, rfl, rfl⟩ := h
        constructor <;> simp [mem_mk] <;> omega
      · simp only [hb, decide_false, Bool.false_eq_true, if_false, Prod.mk.injEq] at h
        obtain ⟨rfl, rfl, rfl, rfl, rfl⟩ := h
        constructor <;> simp [mem_mk, IR.empty, IR.containsZero] <;> omega
  | some a =>
    by_cases ha : a > 0
    · simp only [ha, decide_true, if_true, Prod.mk.injEq] at h
      obtain ⟨rfl, rfl, rfl, rfl, rfl⟩ := h
      cases hi with
      | none => constructor <;> simp [mem_mk] <;> omega
      | some b =>
        simp [IR.empty] at hne
        constructor <;> simp [mem_mk] <;> omega
    · cases hi with
      | none =>
        simp only [ha, decide_false, Bool.false_eq_true, if_false, Prod.mk.injEq] at h
        obtain ⟨rfl, rfl, rfl, rfl, rfl⟩ := h
        constructor <;> simp [mem_mk, IR.empty, IR.containsZero] <;> omega
      | some b =>
        simp [IR.empty] at hne
        by_cases hb : b < 0
        · simp only [ha, hb, decide_true, decide_false, Bool.false_eq_true, if_false, if_true,
            Prod.mk.injEq] at h
          obtain ⟨rfl, rfl, rfl, rfl, rfl⟩ := h
          constructor <;> simp [mem_mk] <;> omega
        · simp only [ha, hb, decide_false, Bool.false_eq_true, if_false, Prod.mk.injEq] at h
          obtain ⟨rfl, rfl, rfl, rfl, rfl⟩ := h
          constructor <;> simp [mem_mk, IR.empty, IR.containsZero] <;> omega

/-- projection form of `split3_spec` -/
theorem split3_spec' (x : IR) (hne : x.empty = false) :
    Split3Spec x x.split3.1 x.split3.2.1 x.split3.2.2.1 x.split3.2.2.2.1 x.split3.2.2.2.2 :=
  split3_spec x hne x.split3.1 x.split3.2.1 x.split3.2.2.1 x.split3.2.2.2.1 x.split3.2.2.2.2 rfl

end WuffsVerif.Interval
