/-
C02 facts half, basic lemmas: which storage an expression depends on (`anyName`),
`invert`, `appendFactA`, `assumeAll`, `simplifyE`, `unify`, the two kill sets.
-/
import WuffsVerif.Model.Flow
import WuffsVerif.Proof.WCoreStmt

namespace WuffsVerif.Proof.Flow
open WuffsVerif.Interval WuffsVerif.WCore WuffsVerif.WFlow
open WuffsVerif.Proof.WCoreBounds WuffsVerif.Proof.WCoreStmt

/-! ## dependence on the store -/

/-- an expression that reads no variable / array whose name satisfies `p` has the same
value in two stores that agree outside `p` -/
theorem evalI_agree {p : String → Bool} {env env' : Env}
    (hag : ∀ key : Key, p key.name = false → env' key = env key) :
    ∀ e, anyName p e = false → evalI env' e = evalI env e := by
  intro e
  induction e with
  | const c => intro _; rfl
  | var n t =>
    intro h
    simp only [anyName] at h
    simp only [evalI]
    exact hag (.sc n) h
  | unary op e ih =>
    intro h
    simp only [anyName] at h
    cases op <;> simp only [evalI, ih h]
  | binary op l r ihl ihr =>
    intro h
    simp only [anyName, Bool.or_eq_false_iff] at h
    simp only [evalI, ihl h.1, ihr h.2]
  | «as» t e ih =>
    intro h
    simp only [anyName] at h
    simp only [evalI, ih h]
  | assoc op pre l r ihl ihr =>
    intro h
    simp only [anyName, Bool.or_eq_false_iff] at h
    simp only [evalI, ihl h.1, ihr h.2]
  | index a len ety i ih =>
    intro h
    simp only [anyName, Bool.or_eq_false_iff] at h
    simp only [evalI, ih h.2]
    exact hag (.cell a _) h.1

/-- what a suspension / an impure call may do to the store: anything to the locations
whose name satisfies `p`, within the declared types; nothing to the others -/
structure Havoc (p : String → Bool) (Γ : Ctx) (env env' : Env) : Prop where
  envOk' : EnvOk Γ env'
  same : ∀ key : Key, p key.name = false → env' key = env key

theorem havoc_keeps {p : String → Bool} {Γ : Ctx} {env env' : Env} {fs : List Expr}
    (S : Situation Γ env fs) (H : Havoc p Γ env env') :
    Situation Γ env' (fs.filter (fun f => !anyName p f)) := by
  refine ⟨H.envOk', ?_, ?_, ?_⟩
  · intro f hf
    simp only [List.mem_filter, Bool.not_eq_true'] at hf
    rw [evalI_agree H.same f hf.2]
    exact S.holds f hf.1
  · intro f hf
    simp only [List.mem_filter] at hf
    exact S.wtF f hf.1
  · intro f hf
    simp only [List.mem_filter] at hf
    exact S.cmpF f hf.1

/-! ## boolean conditions -/

theorem goodFact_of_goodCond {e : Expr} (h : goodCond e = true) : GoodFact e := by
  intro op l r he
  subst he
  simp only [goodCond, Bool.or_eq_true, Bool.and_eq_true] at h
  rcases h with h | h
  · exact Or.inl h
  · right
    have := h.1.2
    simpa [boolTyped] using this

theorem b2i_ne_zero' {b : Bool} : b2i b ≠ 0 ↔ b = true := by
  cases b <;> simp [b2i]

theorem b2i_eq_zero {b : Bool} : b2i b = 0 ↔ b = false := by
  cases b <;> simp [b2i]

theorem or_ne_zero (tb : Base) (x y : Int) : binSem .or tb x y ≠ 0 ↔ (x ≠ 0 ∨ y ≠ 0) := by
  unfold binSem b2i
  by_cases hx : x = 0 <;> by_cases hy : y = 0 <;> simp [hx, hy]

theorem and_ne_zero (tb : Base) (x y : Int) : binSem .and tb x y ≠ 0 ↔ (x ≠ 0 ∧ y ≠ 0) := by
  unfold binSem b2i
  by_cases hx : x = 0 <;> by_cases hy : y = 0 <;> simp [hx, hy]

theorem and_eq_zero (tb : Base) (x y : Int) : binSem .and tb x y = 0 ↔ (x = 0 ∨ y = 0) := by
  unfold binSem b2i
  by_cases hx : x = 0 <;> by_cases hy : y = 0 <;> simp [hx, hy]

theorem or_eq_zero (tb : Base) (x y : Int) : binSem .or tb x y = 0 ↔ (x = 0 ∧ y = 0) := by
  unfold binSem b2i
  by_cases hx : x = 0 <;> by_cases hy : y = 0 <;> simp [hx, hy]

/-- `invert`: the result is true exactly when the condition is false; it is again a
well-typed condition of boolean type -/
theorem invert_spec {Γ : Ctx} {env : Env} :
    ∀ (e e' : Expr), invert e = some e' → wt Γ e → goodCond e = true → boolTyped e = true →
      ((evalI env e' ≠ 0 ↔ evalI env e = 0) ∧ wt Γ e' ∧ goodCond e' = true ∧ boolTyped e' = true) := by
  intro e
  induction e with
  | const c => intro e' h; simp [invert] at h
  | var n t =>
    intro e' h hw hg hb
    simp only [invert] at h
    split at h
    · cases h
      refine ⟨?_, hw, ?_, ?_⟩
      · simp only [evalI, ne_eq, b2i_eq_zero, beq_eq_false_iff_ne, not_not]
      · simpa [goodCond] using hb
      · simp [boolTyped, typeOf]
    · cases h
  | unary op e ih =>
    intro e' h hw hg hb
    cases op with
    | not =>
      simp only [invert] at h
      cases h
      simp only [goodCond, Bool.and_eq_true] at hg
      refine ⟨?_, hw, hg.1, hg.2⟩
      simp only [evalI, b2i_eq_zero, beq_eq_false_iff_ne]
    | pos => simp [invert] at h
    | neg => simp [invert] at h
  | binary op l r ihl ihr =>
    intro e' h hw hg hb
    have cmpCase : ∀ (op' : BOp), op.isCmp = true → op'.isCmp = true →
        (∀ x y : Int, cmpRel op' x y ↔ ¬ cmpRel op x y) → e' = .binary op' l r →
        ((evalI env e' ≠ 0 ↔ evalI env (.binary op l r) = 0) ∧ wt Γ e' ∧ goodCond e' = true ∧
          boolTyped e' = true) := by
      intro op' hc hc' hrel he
      subst he
      refine ⟨?_, hw, ?_, ?_⟩
      · rw [evalI_binary_cmp hc', hrel]
        have := evalI_binary_cmp (env := env) hc l r
        constructor
        · intro hn; exact Classical.not_not.1 (fun h0 => hn (this.1 h0))
        · intro h0 hrel'; exact (this.2 hrel') h0
      · simp [goodCond, hc']
      · simp [boolTyped, typeOf, hc']
    simp only [wt] at hw
    cases op <;> simp only [invert] at h
    case ne => exact cmpCase .eq rfl rfl (by intro x y; simp [cmpRel]) (Option.some.inj h).symm
    case lt => exact cmpCase .ge rfl rfl (by intro x y; simp only [cmpRel]; omega) (Option.some.inj h).symm
    case le => exact cmpCase .gt rfl rfl (by intro x y; simp only [cmpRel]; omega) (Option.some.inj h).symm
    case eq => exact cmpCase .ne rfl rfl (by intro x y; simp [cmpRel]) (Option.some.inj h).symm
    case ge => exact cmpCase .lt rfl rfl (by intro x y; simp only [cmpRel]; omega) (Option.some.inj h).symm
    case gt => exact cmpCase .le rfl rfl (by intro x y; simp only [cmpRel]; omega) (Option.some.inj h).symm
    case and =>
      simp only [goodCond, BOp.isCmp, Bool.false_or, Bool.and_eq_true, beq_self_eq_true,
        Bool.true_or, true_and] at hg
      split at h
      · rename_i l' r' hl hr
        cases h
        obtain ⟨il, wl, gl, bl⟩ := ihl l' hl hw.1 hg.1.1.1 hg.1.2
        obtain ⟨ir, wr, gr, br⟩ := ihr r' hr hw.2 hg.1.1.2 hg.2
        refine ⟨?_, ⟨wl, wr⟩, ?_, ?_⟩
        · simp only [evalI]
          rw [or_ne_zero, and_eq_zero, il, ir]
        · simp [goodCond, BOp.isCmp, gl, gr, bl, br]
        · simp [boolTyped, typeOf, BOp.isCmp, BOp.isLogic]
      · cases h
    case or =>
      simp only [goodCond, BOp.isCmp, Bool.false_or, Bool.and_eq_true, beq_self_eq_true,
        Bool.or_true, true_and] at hg
      split at h
      · rename_i l' r' hl hr
        cases h
        obtain ⟨il, wl, gl, bl⟩ := ihl l' hl hw.1 hg.1.1.1 hg.1.2
        obtain ⟨ir, wr, gr, br⟩ := ihr r' hr hw.2 hg.1.1.2 hg.2
        refine ⟨?_, ⟨wl, wr⟩, ?_, ?_⟩
        · simp only [evalI]
          rw [and_ne_zero, or_eq_zero, il, ir]
        · simp [goodCond, BOp.isCmp, gl, gr, bl, br]
        · simp [boolTyped, typeOf, BOp.isCmp, BOp.isLogic]
      · cases h
    all_goals cases h
  | «as» t e ih => intro e' h; simp [invert] at h
  | assoc op pre l r ihl ihr =>
    intro e' h hw hg hb
    simp only [wt] at hw
    cases op <;> simp only [invert] at h
    case and =>
      simp only [goodCond, Bool.and_eq_true, beq_self_eq_true, Bool.true_or, true_and] at hg
      split at h
      · rename_i l' r' hl hr
        cases h
        obtain ⟨il, wl, gl, bl⟩ := ihl l' hl hw.1 hg.1.1.1 hg.1.2
        obtain ⟨ir, wr, gr, br⟩ := ihr r' hr hw.2 hg.1.1.2 hg.2
        refine ⟨?_, ⟨wl, wr⟩, ?_, ?_⟩
        · simp only [evalI]
          rw [or_ne_zero, and_eq_zero, il, ir]
        · simp [goodCond, gl, gr, bl, br]
        · simp [boolTyped, typeOf, BOp.isLogic]
      · cases h
    case or =>
      simp only [goodCond, Bool.and_eq_true, beq_self_eq_true, Bool.or_true, true_and] at hg
      split at h
      · rename_i l' r' hl hr
        cases h
        obtain ⟨il, wl, gl, bl⟩ := ihl l' hl hw.1 hg.1.1.1 hg.1.2
        obtain ⟨ir, wr, gr, br⟩ := ihr r' hr hw.2 hg.1.1.2 hg.2
        refine ⟨?_, ⟨wl, wr⟩, ?_, ?_⟩
        · simp only [evalI]
          rw [and_ne_zero, or_eq_zero, il, ir]
        · simp [goodCond, gl, gr, bl, br]
        · simp [boolTyped, typeOf, BOp.isLogic]
      · cases h
    all_goals cases h
  | index a len ety i ih =>
    intro e' h hw hg hb
    simp only [invert] at h
    split at h
    · cases h
      refine ⟨?_, hw, ?_, ?_⟩
      · simp only [evalI, ne_eq, b2i_eq_zero, beq_eq_false_iff_ne, not_not]
      · simpa [goodCond] using hb
      · simp [boolTyped, typeOf]
    · cases h

/-! ## `appendFactA` -/

/-- a property of facts that is inherited by the conjuncts of a conjunction -/
def SplitClosed (Q : Expr → Prop) : Prop :=
  (∀ l r, Q (.binary .and l r) → Q l ∧ Q r) ∧ (∀ pre l r, Q (.assoc .and pre l r) → Q l ∧ Q r)

/-- every fact in the list after `appendFact(f)` was there before, or is (a conjunct
of) `f` -/
theorem mem_appendFactA {Q : Expr → Prop} (hQ : SplitClosed Q) :
    ∀ (f : Expr) (fs : List Expr) (b : Bool), Q f → ∀ g ∈ appendFactA fs b f, g ∈ fs ∨ Q g := by
  intro f
  induction f with
  | binary op l r ihl ihr =>
    intro fs b hf g hg
    by_cases hop : op = .and
    · subst hop
      simp only [appendFactA] at hg
      split at hg
      · exact Or.inl hg
      · obtain ⟨ql, qr⟩ := hQ.1 l r hf
        rcases ihr _ false qr g hg with h | h
        · rcases ihl fs false ql g h with h' | h'
          · exact Or.inl h'
          · exact Or.inr h'
        · exact Or.inr h
    · have : appendFactA fs b (.binary op l r) =
          if fs.contains (.binary op l r) then fs else fs ++ [.binary op l r] := by
        cases op <;> first | exact absurd rfl hop | simp [appendFactA]
      rw [this] at hg
      split at hg
      · exact Or.inl hg
      · simp only [List.mem_append, List.mem_singleton] at hg
        rcases hg with h | h
        · exact Or.inl h
        · subst h; exact Or.inr hf
  | assoc op pre l r ihl ihr =>
    intro fs b hf g hg
    by_cases hop : op = .and
    · subst hop
      simp only [appendFactA] at hg
      split at hg
      · exact Or.inl hg
      · obtain ⟨ql, qr⟩ := hQ.2 pre l r hf
        rcases ihr _ false qr g hg with h | h
        · rcases ihl fs pre ql g h with h' | h'
          · exact Or.inl h'
          · exact Or.inr h'
        · exact Or.inr h
    · have : appendFactA fs b (.assoc op pre l r) =
          if fs.contains (.assoc op pre l r) then fs else fs ++ [.assoc op pre l r] := by
        cases op <;> first | exact absurd rfl hop | simp [appendFactA]
      rw [this] at hg
      split at hg
      · exact Or.inl hg
      · simp only [List.mem_append, List.mem_singleton] at hg
        rcases hg with h | h
        · exact Or.inl h
        · subst h; exact Or.inr hf
  | const c =>
    intro fs b hf g hg
    simp only [appendFactA] at hg
    split at hg
    · exact Or.inl hg
    · simp only [List.mem_append, List.mem_singleton] at hg
      rcases hg with h | h
      · exact Or.inl h
      · subst h; exact Or.inr hf
  | var n t =>
    intro fs b hf g hg
    simp only [appendFactA] at hg
    split at hg
    · exact Or.inl hg
    · simp only [List.mem_append, List.mem_singleton] at hg
      rcases hg with h | h
      · exact Or.inl h
      · subst h; exact Or.inr hf
  | unary op e ih =>
    intro fs b hf g hg
    simp only [appendFactA] at hg
    split at hg
    · exact Or.inl hg
    · simp only [List.mem_append, List.mem_singleton] at hg
      rcases hg with h | h
      · exact Or.inl h
      · subst h; exact Or.inr hf
  | «as» t e ih =>
    intro fs b hf g hg
    simp only [appendFactA] at hg
    split at hg
    · exact Or.inl hg
    · simp only [List.mem_append, List.mem_singleton] at hg
      rcases hg with h | h
      · exact Or.inl h
      · subst h; exact Or.inr hf
  | index a len ety i ih =>
    intro fs b hf g hg
    simp only [appendFactA] at hg
    split at hg
    · exact Or.inl hg
    · simp only [List.mem_append, List.mem_singleton] at hg
      rcases hg with h | h
      · exact Or.inl h
      · subst h; exact Or.inr hf

theorem splitClosed_true (env : Env) : SplitClosed (fun g => evalI env g ≠ 0) := by
  constructor
  · intro l r h
    simp only [evalI, binSem, ne_eq, b2i_ne_zero', Bool.and_eq_true, bne_iff_ne] at h
    exact h
  · intro pre l r h
    simp only [evalI, binSem, ne_eq, b2i_ne_zero', Bool.and_eq_true, bne_iff_ne] at h
    exact h

theorem splitClosed_wt (Γ : Ctx) : SplitClosed (wt Γ) :=
  ⟨fun _ _ h => h, fun _ _ _ h => h⟩

theorem splitClosed_good : SplitClosed (fun g => goodCond g = true) := by
  constructor
  · intro l r h
    simp only [goodCond, BOp.isCmp, Bool.false_or, Bool.and_eq_true] at h
    exact ⟨h.1.1.1.2, h.1.1.2⟩
  · intro pre l r h
    simp only [goodCond, Bool.and_eq_true] at h
    exact ⟨h.1.1.1.2, h.1.1.2⟩

/-- appending a true, well-typed condition keeps the situation -/
theorem situation_appendFactA {Γ : Ctx} {env : Env} {fs : List Expr} {f : Expr} (b : Bool)
    (S : Situation Γ env fs) (ht : evalI env f ≠ 0) (hw : wt Γ f) (hg : goodCond f = true) :
    Situation Γ env (appendFactA fs b f) := by
  refine ⟨S.envOk, ?_, ?_, ?_⟩
  · intro g hgm
    rcases mem_appendFactA (splitClosed_true env) f fs b ht g hgm with h | h
    · exact S.holds g h
    · exact h
  · intro g hgm
    rcases mem_appendFactA (splitClosed_wt Γ) f fs b hw g hgm with h | h
    · exact S.wtF g h
    · exact h
  · intro g hgm
    rcases mem_appendFactA splitClosed_good f fs b hg g hgm with h | h
    · exact S.cmpF g h
    · exact goodFact_of_goodCond h

/-- the situation made of a list of true conditions (`assumeAll`) -/
theorem situation_assumeAll {Γ : Ctx} {env : Env} :
    ∀ (cs : List Expr) (fs : List Expr), Situation Γ env fs →
      (∀ c ∈ cs, evalI env c ≠ 0 ∧ wt Γ c ∧ goodCond c = true) →
      Situation Γ env (cs.foldl (fun fs c => appendFactA fs false c) fs) := by
  intro cs
  induction cs with
  | nil => intro fs S _; exact S
  | cons c cs ih =>
    intro fs S h
    simp only [List.foldl_cons]
    obtain ⟨h1, h2, h3⟩ := h c List.mem_cons_self
    exact ih _ (situation_appendFactA false S h1 h2 h3)
      (fun d hd => h d (List.mem_cons_of_mem _ hd))

theorem situation_nil {Γ : Ctx} {env : Env} (he : EnvOk Γ env) : Situation Γ env [] := by
  refine ⟨he, ?_, ?_, ?_⟩ <;> intro f hf <;> cases hf

/-! ## `unify` -/

theorem mem_unify {bs : List (List Expr)} {f : Expr} (h : f ∈ unify bs) :
    ∀ b ∈ bs, f ∈ b := by
  match bs, h with
  | [], h => intro b hb; cases hb
  | [b0], h =>
    intro b hb
    simp only [List.mem_singleton] at hb
    subst hb
    simpa [unify] using h
  | b0 :: b1 :: rest, h =>
    intro b hb
    simp only [unify, List.mem_filter, List.all_eq_true, List.contains_iff_mem] at h
    rcases List.mem_cons.1 hb with hb | hb
    · subst hb; exact h.1
    · exact h.2 b hb

/-- the reconciled situation holds in a store in which the situation of one of the
reconciled branches holds -/
theorem situation_unify {Γ : Ctx} {env : Env} {bs : List (List Expr)} {b : List Expr}
    (hb : b ∈ bs) (S : Situation Γ env b) : Situation Γ env (unify bs) :=
  ⟨S.envOk, fun f hf => S.holds f (mem_unify hf b hb), fun f hf => S.wtF f (mem_unify hf b hb),
    fun f hf => S.cmpF f (mem_unify hf b hb)⟩

/-! ## `simplify` -/

theorem simplifyE_spec {Γ : Ctx} {env : Env} :
    ∀ e, wt Γ e → (evalI env (simplifyE e) = evalI env e ∧ wt Γ (simplifyE e)) := by
  intro e
  induction e with
  | binary op l r ihl ihr =>
    intro hw
    simp only [wt] at hw
    obtain ⟨el, wl⟩ := ihl hw.1
    obtain ⟨er, wr⟩ := ihr hw.2
    simp only [simplifyE]
    split
    · rename_i hc
      split
      · refine ⟨?_, ⟨wl, wr⟩⟩
        have h1 := evalI_binary_cmp (env := env) hc (simplifyE l) (simplifyE r)
        have h2 := evalI_binary_cmp (env := env) hc l r
        cases op <;> simp [BOp.isCmp] at hc <;> simp only [evalI, binSem, el, er]
      · exact ⟨rfl, hw⟩
    · split
      · rename_i hpm
        simp only [Bool.or_eq_true, beq_iff_eq] at hpm
        refine ⟨?_, wt_simplifyBin hw.1 hw.2⟩
        rw [evalI_simplifyBin hpm]
        rcases hpm with rfl | rfl <;> simp [evalI, binSem]
      · exact ⟨rfl, hw⟩
  | const c => intro hw; exact ⟨rfl, hw⟩
  | var n t => intro hw; exact ⟨rfl, hw⟩
  | unary op e ih => intro hw; exact ⟨rfl, hw⟩
  | «as» t e ih => intro hw; exact ⟨rfl, hw⟩
  | assoc op pre l r ihl ihr => intro hw; exact ⟨rfl, hw⟩
  | index a len ety i ih => intro hw; exact ⟨rfl, hw⟩

theorem goodCond_simplifyE {e : Expr} (h : goodCond e = true) : goodCond (simplifyE e) = true := by
  cases e with
  | binary op l r =>
    simp only [simplifyE]
    split
    · rename_i hc
      split
      · simp [goodCond, hc]
      · exact h
    · rename_i hc
      -- a non-comparison condition is an `and` / `or`: untouched
      have h0 := h
      simp only [goodCond, Bool.or_eq_true, Bool.and_eq_true] at h
      rcases h with h | h
      · exact absurd h hc
      · have hop := h.1.1.1.1
        have : ¬ ((op == BOp.plus || op == BOp.minus) = true) := by
          simp only [Bool.or_eq_true, beq_iff_eq] at hop ⊢
          rcases hop with rfl | rfl <;> simp
        simp only [this]
        exact h0
  | const c => exact h
  | var n t => exact h
  | unary op e => exact h
  | «as» t e => exact h
  | assoc op pre l r => exact h
  | index a len ety i => exact h

end WuffsVerif.Proof.Flow
