/-
C20 — lang/token/list.go: t.ID is uint32, t.QQID is [3]ID, and
    func (x QQID) LessThan(y QQID) bool
compares the triples lexicographically.  Model/Det.lean treats a QQID as ONE natural
number (`Key`) ordered by `<`; `qqidKey` is that number.
-/
import WuffsVerif.Model.Det

namespace WuffsVerif.Det

/-- the key of the QQID {a, b, c} (each component a uint32) -/
def qqidKey (a b c : Nat) : Nat := a * 18446744073709551616 + b * 4294967296 + c

/-- list.go (QQID).LessThan, statement by statement -/
def qqidLess (x0 x1 x2 y0 y1 y2 : Nat) : Bool :=
  if x0 != y0 then decide (x0 < y0)
  else if x1 != y1 then decide (x1 < y1)
  else decide (x2 < y2)

end WuffsVerif.Det
