/-
C05 — an abstract store semantics for the statement language of `Model/Liveness.lean`, to say
what "saving only the resumable variables" means: `run R` executes a body where, at every
suspension, the variables in `R` keep their value and all others restart at 0 (the generated C
re-declares its locals `= 0` on every entry and restores only `self->private_data.s_<func>.v_x`
for the resumable ones, var.go `writeResumeSuspend1`); `run (fun _ => true)` is the language's
meaning (all locals persist).

Everything the abstraction forgot is a parameter (`Cfg W`), threaded through a world `w : W`
(everything outside the locals: the I/O streams, `this.…` fields, the suspension state of
callees; `W = Nat` with `next = (· + 1)` makes it a step counter): the value of each expression
occurrence as a function of the world and of the values of the variables it mentions, what it
does to the world, how often a coroutine call suspends, the compound-assignment operator.
Conditions branch on the parity of their value. Fuel bounds the number of nested steps; running
out of it stops at a block start or loop head.
-/
import WuffsVerif.Model.LivenessSem

namespace WuffsVerif.Liveness

structure Cfg (W : Type) where
  /-- value of expression occurrence `e` evaluated in world `w` when the variables it mentions
  have these values -/
  val : Ex → W → List Nat → Nat
  /-- the world after that evaluation -/
  next : Ex → W → List Nat → W
  /-- number of times the coroutine call `e`, entered in world `w` with these argument values,
  suspends before completing -/
  nsusp : Ex → W → List Nat → Nat
  /-- `x op= v`, for the assignment whose right-hand side is the occurrence `e` -/
  comb : Ex → Nat → Nat → Nat

abbrev Store := Nat → Nat

structure RState (W : Type) where
  store : Store
  w : W
  log : List Nat

/-- What a suspension does to the locals. -/
def resetStore (R : Nat → Bool) (s : Store) : Store := fun v => if R v then s v else 0

def suspendK (R : Nat → Bool) (k : Nat) (s : Store) : Store := if k = 0 then s else resetStore R s

structure Res (W : Type) where
  out : Out
  st : RState W
  evs : List Ev

variable {W : Type}

/-- An expression where `doExpr` is applied: returns its value. -/
def evalEx (R : Nat → Bool) (cfg : Cfg W) (e : Ex) (st : RState W) : Nat × RState W × List Ev :=
  if e.coro then
    let k := cfg.nsusp e st.w (e.vars.map st.store)
    let store' := suspendK R k st.store
    if e.ioRecv then
      -- arguments are evaluated once (into the scratch word) before the suspension point
      let v := cfg.val e st.w (e.vars.map st.store)
      (v, ⟨store', cfg.next e st.w (e.vars.map st.store), st.log ++ [v]⟩,
        exReads e ++ List.replicate k Ev.susp)
    else
      -- the call is issued again after every suspension, with the locals as they are then
      let v := cfg.val e st.w (e.vars.map store')
      (v, ⟨store', cfg.next e st.w (e.vars.map store'), st.log ++ [v]⟩,
        exReads e ++ (List.replicate k (Ev.susp :: exReads e)).flatten)
  else
    let v := cfg.val e st.w (e.vars.map st.store)
    (v, ⟨st.store, cfg.next e st.w (e.vars.map st.store), st.log ++ [v]⟩, exReads e)

def evalExOpt (R : Nat → Bool) (cfg : Cfg W) : Option Ex → RState W → RState W × List Ev
  | none, st => (st, [])
  | some e, st => let r := evalEx R cfg e st; (r.2.1, r.2.2)

def setStore (s : Store) (i v : Nat) : Store := fun j => if j = i then v else s j

/-- `doAssign`'s statement. -/
def evalAssign (R : Nat → Bool) (cfg : Cfg W) (op : AOp) (lhs : Lhs) (rhs : Ex) (st : RState W) :
    RState W × List Ev :=
  -- RHS; `=?` does not suspend the caller
  let r1 : Nat × RState W × List Ev :=
    if op = AOp.eqQuestion then
      let v := cfg.val rhs st.w (rhs.vars.map st.store)
      (v, ⟨st.store, cfg.next rhs st.w (rhs.vars.map st.store), st.log ++ [v]⟩, exReads rhs)
    else evalEx R cfg rhs st
  match lhs with
  | Lhs.none => (r1.2.1, r1.2.2)
  | Lhs.expr e => let r2 := evalEx R cfg e r1.2.1; (r2.2.1, r1.2.2 ++ r2.2.2)
  | Lhs.var i =>
    if op ≠ AOp.eq ∧ op ≠ AOp.eqQuestion then
      let nv := cfg.comb rhs (r1.2.1.store i) r1.1
      ({ r1.2.1 with store := setStore r1.2.1.store i nv }, r1.2.2 ++ ([Ev.rd i] ++ [Ev.wr i]))
    else
      ({ r1.2.1 with store := setStore r1.2.1.store i r1.1 }, r1.2.2 ++ ([] ++ [Ev.wr i]))

/-- What to run. -/
inductive Task where
  | stmt (s : Stmt)
  | block (b : List Stmt)
  | loop (wt : Bool) (c : Ex) (body : List Stmt)

/-- The interpreter, by recursion on fuel. -/
def run (R : Nat → Bool) (cfg : Cfg W) : Nat → Task → RState W → Res W
  | 0, _, st => ⟨Out.stop, st, []⟩
  | f + 1, Task.stmt s, st =>
    match s with
    | .assign op lhs rhs => let r := evalAssign R cfg op lhs rhs st; ⟨Out.norm, r.1, r.2⟩
    | .expr e => let r := evalEx R cfg e st; ⟨Out.norm, r.2.1, r.2.2⟩
    | .iomanip io a1 hp body =>
      let r1 := evalEx R cfg io st
      let r2 := evalExOpt R cfg a1 r1.2.1
      let r3 := evalExOpt R cfg hp r2.1
      let r4 := run R cfg f (Task.block body) r3.1
      ⟨r4.out, r4.st, r1.2.2 ++ r2.2 ++ r3.2 ++ r4.evs⟩
    | .ite c thn els =>
      let r1 := evalEx R cfg c st
      let r2 := run R cfg f (Task.block (if r1.1 % 2 = 1 then thn else els)) r1.2.1
      ⟨r2.out, r2.st, r1.2.2 ++ r2.evs⟩
    | .jump isBreak k => ⟨if isBreak then Out.brk k else Out.cont k, st, []⟩
    | .ret isYield e =>
      let r1 := evalEx R cfg e st
      if isYield then
        ⟨Out.norm, { r1.2.1 with store := resetStore R r1.2.1.store }, r1.2.2 ++ [Ev.susp]⟩
      else ⟨Out.ret, r1.2.1, r1.2.2⟩
    | .var i => ⟨Out.norm, { st with store := setStore st.store i 0 }, [Ev.wr i]⟩
    | .while wt c body => run R cfg f (Task.loop wt c body) st
  | _ + 1, Task.block [], st => ⟨Out.norm, st, []⟩
  | f + 1, Task.block (s :: rest), st =>
    let r1 := run R cfg f (Task.stmt s) st
    match r1.out with
    | Out.norm =>
      let r2 := run R cfg f (Task.block rest) r1.st
      ⟨r2.out, r2.st, r1.evs ++ r2.evs⟩
    | _ => r1
  | f + 1, Task.loop wt c body, st =>
    let r1 := evalEx R cfg c st
    if wt = false ∧ r1.1 % 2 = 0 then ⟨Out.norm, r1.2.1, r1.2.2⟩
    else
      let r2 := run R cfg f (Task.block body) r1.2.1
      match r2.out.exitLoop with
      | none =>
        let r3 := run R cfg f (Task.loop wt c body) r2.st
        ⟨r3.out, r3.st, r1.2.2 ++ r2.evs ++ r3.evs⟩
      | some o' => ⟨o', r2.st, r1.2.2 ++ r2.evs⟩

end WuffsVerif.Liveness
