/-
C09 — model of the storage protocol of a generated coroutine function.

Source: /repo/internal/cgen/func.go (`writeFuncImplPrologue`, `writeFuncImplBodyResume`,
`writeFuncImplBodySuspend`, `writeFuncImplEpilogue`), /repo/internal/cgen/var.go
(`writeResumeSuspend`, `writeResumeSuspend1`, `writeVars`: every local starts as 0 / false / {0}),
/repo/internal/cgen/base/fundamental-private.h (`WUFFS_BASE__COROUTINE_SUSPENSION_POINT*`).
For a coroutine `f` of a struct the generated C is

```
  uint32_t v_x = 0; …                                   // locals zero-initialised
  uint32_t coro_susp_point = self->private_impl.p_f;    // FIRST part (zeroed by initialize)
  if (coro_susp_point) {                                // resume: load the saved locals
    v_x = self->private_data.s_f.v_x; …                 // SECOND part (never zeroed under
  }                                                     //   LEAVE_INTERNAL_BUFFERS_UNINITIALIZED)
  switch (coro_susp_point) { case 0: … body … }
  ok:      self->private_impl.p_f = 0;  goto exit;
  suspend: self->private_impl.p_f = is_suspension(status) ? coro_susp_point : 0;
           self->private_data.s_f.v_x = v_x; …
  exit:    return status;                               // errors `goto exit`: nothing is stored
```

`Prog` is an arbitrary computation (a tree with function-valued continuations, so it can
branch on everything it is given) that touches the frames of the object's coroutines ONLY
through these operations; `σ` stands for all the object state that is not a coroutine frame.
Several frames may be open at once (a coroutine calling another one), in any nesting.
Core Lean only.
-/
namespace WuffsVerif.CoroFrame

/-- storage of one coroutine function inside the object -/
structure Frame (L : Type) where
  /-- `private_impl.p_f`: the suspension point to resume at, 0 = start from the top -/
  p : Nat
  /-- `private_data.s_f`: the saved resumable locals (`scratch` included) -/
  s : L

structure Obj (L σ : Type) where
  frames : Nat → Frame L
  rest : σ

def setFrame {L σ : Type} (o : Obj L σ) (f : Nat) (fr : Frame L) : Obj L σ :=
  { o with frames := fun g => if g = f then fr else o.frames g }

inductive Prog (L σ Out : Type) where
  /-- the computation is over, `o` is everything observable (status, bytes written, indices) -/
  | ret (o : Out)
  /-- function prologue of coroutine `f`: the continuation receives `coro_susp_point` and the
  values of the locals (see `run`: the saved ones only if `coro_susp_point ≠ 0`) -/
  | enter (f : Nat) (k : Nat → L → Prog L σ Out)
  /-- `ok:` exit of coroutine `f` -/
  | leaveOk (f : Nat) (k : Prog L σ Out)
  /-- `suspend:` exit of coroutine `f` with the current `coro_susp_point` and locals -/
  | leaveSuspend (f : Nat) (isSuspension : Bool) (csp : Nat) (locals : L) (k : Prog L σ Out)
  /-- read / write of the non-frame state (an error exit `goto exit` stores nothing: no operation) -/
  | get (k : σ → Prog L σ Out)
  | put (v : σ) (k : Prog L σ Out)

/-- `zero` = the zero-initialised locals of `writeVars`. -/
def run {L σ Out : Type} (zero : L) : Prog L σ Out → Obj L σ → Obj L σ × Out
  | .ret o, st => (st, o)
  | .enter f k, st =>
    let fr := st.frames f
    run zero (k fr.p (if fr.p ≠ 0 then fr.s else zero)) st
  | .leaveOk f k, st => run zero k (setFrame st f ⟨0, (st.frames f).s⟩)
  | .leaveSuspend f b n loc k, st => run zero k (setFrame st f ⟨if b then n else 0, loc⟩)
  | .get k, st => run zero (k st.rest) st
  | .put v k, st => run zero k { st with rest := v }

/-- a history of calls on one object: the outputs, in order -/
def runAll {L σ Out : Type} (zero : L) : List (Prog L σ Out) → Obj L σ → List Out
  | [], _ => []
  | p :: rest, st =>
    let r := run zero p st
    r.2 :: runAll zero rest r.1

/-! ### when is a generated function an instance of the protocol?

Facts the harness extracts from the C text `cgen` emits for one coroutine function
(harness/cmd/c09/coro.go); `shapeViolation` lists the side conditions under which that text is
an instance of `enter … leaveOk / leaveSuspend`:
* `guarded`: the saved locals are loaded only inside `if (coro_susp_point) { … }` directly
  after `coro_susp_point = self->private_impl.p_f`, followed by `switch (coro_susp_point)`;
* `atSuspend`: they are stored only after the `suspend:` label;
* `sameVars`: the loaded and the stored locals are the same set;
* `pwrites`: `p_f` is written only as `p_f = 0` right after `ok:` and as
  `p_f = is_suspension(status) ? coro_susp_point : 0` right after `suspend:`;
* `scratch`: the frame's `scratch` field is assigned immediately before the suspension point
  after which it is read (an eagerly saved local). -/
structure ShapeFacts where
  loads : Nat
  saves : Nat
  sameVars : Bool
  guarded : Bool
  atSuspend : Bool
  pwrites : Bool
  scratch : Bool

def shapeViolation (s : ShapeFacts) : Option String :=
  if !s.guarded then some "resume-not-guarded"
  else if !s.atSuspend then some "saved-local-touched-outside-suspend-exit"
  else if !s.sameVars || s.loads != s.saves then some "loaded-and-saved-locals-differ"
  else if !s.pwrites then some "suspension-point-written-outside-protocol"
  else if !s.scratch then some "scratch-read-before-written"
  else none

end WuffsVerif.CoroFrame
