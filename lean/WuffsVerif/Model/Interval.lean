/-
Model of /repo/lib/interval/interval.go (C06), written function by function.
Core Lean only.  `none` as a bound = infinite (nil *big.Int); `lo > hi` = empty
(several empty representations exist, exactly as in the Go code, and the model
tracks which one is returned).
`Gen/C06_Tables.lean` (regenerated on every check from the working tree) supplies the
`smallBitMasks` table that `bitMask` looks up.
-/
import WuffsVerif.Gen.C06_Tables
namespace WuffsVerif.Interval

structure IR where
  lo : Option Int
  hi : Option Int
deriving DecidableEq, Repr, Inhabited

/-- `IntRange.Empty` -/
def IR.empty (x : IR) : Bool :=
  match x.lo, x.hi with
  | some a, some b => decide (a > b)
  | _, _ => false

/-- `a ≤ i` for a possibly infinite lower bound -/
def loLe (a : Option Int) (i : Int) : Prop :=
  match a with | none => True | some a => a ≤ i

/-- `i ≤ b` for a possibly infinite upper bound -/
def leHi (i : Int) (b : Option Int) : Prop :=
  match b with | none => True | some b => i ≤ b

instance (a : Option Int) (i : Int) : Decidable (loLe a i) :=
  match a with
  | none => isTrue trivial
  | some a => inferInstanceAs (Decidable (a ≤ i))

instance (i : Int) (b : Option Int) : Decidable (leHi i b) :=
  match b with
  | none => isTrue trivial
  | some b => inferInstanceAs (Decidable (i ≤ b))

/-- membership of a concrete integer (the meaning of an interval) -/
def IR.mem (x : IR) (i : Int) : Prop := loLe x.lo i ∧ leHi i x.hi

instance (x : IR) (i : Int) : Decidable (x.mem i) :=
  inferInstanceAs (Decidable (loLe x.lo i ∧ leHi i x.hi))

/-- `makeEmptyRange` / `sharedEmptyRange` -/
def mkEmpty : IR := ⟨some 1, some (-1)⟩

/-- `ContainsNegative` -/
def IR.containsNegative (x : IR) : Bool :=
  match x.lo with
  | none => true
  | some a =>
    if a ≥ 0 then false else
    match x.hi with
    | none => true
    | some b => decide (a ≤ b)

/-- `ContainsNonNegative` -/
def IR.containsNonNegative (x : IR) : Bool :=
  match x.hi with
  | none => true
  | some b =>
    if b < 0 then false else
    match x.lo with
    | none => true
    | some a => decide (a ≤ b)

/-- `ContainsZero` -/
def IR.containsZero (x : IR) : Bool :=
  (match x.lo with | none => true | some a => decide (a ≤ 0)) &&
  (match x.hi with | none => true | some b => decide (b ≥ 0))

/-- `ContainsInt` -/
def IR.containsInt (x : IR) (i : Int) : Bool :=
  (match x.lo with | none => true | some a => decide (a ≤ i)) &&
  (match x.hi with | none => true | some b => decide (b ≥ i))

/-- `ContainsPositive` -/
def IR.containsPositive (x : IR) : Bool :=
  match x.hi with
  | none => true
  | some b =>
    if b ≤ 0 then false else
    match x.lo with
    | none => true
    | some a => decide (a ≤ b)

/-- `ContainsIntRange` -/
def IR.containsIntRange (x y : IR) : Bool :=
  if y.empty then true
  else if (match x.lo with
      | some a => (match y.lo with | none => true | some c => decide (a > c))
      | none => false) then false
  else if (match x.hi with
      | some b => (match y.hi with | none => true | some d => decide (b < d))
      | none => false) then false
  else true

/-- `Eq` -/
def IR.eq (x y : IR) : Bool :=
  if x.empty || y.empty then x.empty == y.empty
  else
    (match x.lo, y.lo with
      | some a, some c => decide (a = c)
      | none, none => true
      | _, _ => false) &&
    (match x.hi, y.hi with
      | some b, some d => decide (b = d)
      | none, none => true
      | _, _ => false)

/-- `String` -/
def IR.str (x : IR) : String :=
  if x.empty then "[empty]"
  else
    (match x.lo with | none => "[-∞ ..= " | some a => "[" ++ toString a ++ " ..= ") ++
    (match x.hi with | none => "+∞]" | some b => toString b ++ "]")

/-- `justZero` -/
def IR.justZero (x : IR) : Bool :=
  match x.lo, x.hi with
  | some a, some b => decide (a = 0) && decide (b = 0)
  | _, _ => false

/-- `split2Ways` : (neg, nonNeg, hasNeg, hasNonNeg) -/
def IR.split2 (x : IR) : IR × IR × Bool × Bool :=
  if x.empty then (mkEmpty, mkEmpty, false, false)
  else if (match x.lo with | some a => decide (a ≥ 0) | none => false) then
    (mkEmpty, x, false, true)
  else if (match x.hi with | some b => decide (b < 0) | none => false) then
    (x, mkEmpty, true, false)
  else
    let negHi : Int := match x.hi with
      | some b => if b < -1 then b else -1
      | none => -1
    let nonLo : Int := match x.lo with
      | some a => if a > 0 then a else 0
      | none => 0
    (⟨x.lo, some negHi⟩, ⟨some nonLo, x.hi⟩, true, true)

/-- `split3Ways` : (neg, pos, hasNeg, hasZero, hasPos) -/
def IR.split3 (x : IR) : IR × IR × Bool × Bool × Bool :=
  if x.empty then (mkEmpty, mkEmpty, false, false, false)
  else if (match x.lo with | some a => decide (a > 0) | none => false) then
    (mkEmpty, x, false, false, true)
  else if (match x.hi with | some b => decide (b < 0) | none => false) then
    (x, mkEmpty, true, false, false)
  else
    let negHi : Int := match x.hi with
      | some b => if b < -1 then b else -1
      | none => -1
    let posLo : Int := match x.lo with
      | some a => if a > 1 then a else 1
      | none => 1
    let neg : IR := ⟨x.lo, some negHi⟩
    let pos : IR := ⟨some posLo, x.hi⟩
    (neg, pos, !neg.empty, x.containsZero, !pos.empty)

/-- `Unite` -/
def unite (x y : IR) : IR :=
  if x.empty then y
  else if y.empty then x
  else
    ⟨(match x.lo, y.lo with
      | some a, some b => some (if a < b then a else b)
      | _, _ => none),
     (match x.hi, y.hi with
      | some a, some b => some (if a > b then a else b)
      | _, _ => none)⟩

/-- `inPlaceUnite` (returns the new value of the receiver) -/
def inPlaceUnite (x y : IR) : IR :=
  if y.empty then x
  else
    let x1 : IR := if x.empty then y else x
    let lo := match x1.lo with
      | none => none
      | some a => match y.lo with
        | none => none
        | some b => some (if a > b then b else a)
    let hi := match x1.hi with
      | none => none
      | some a => match y.hi with
        | none => none
        | some b => some (if a < b then b else a)
    ⟨lo, hi⟩

/-- `Intersect` -/
def intersect (x y : IR) : IR :=
  if x.empty || y.empty then mkEmpty
  else
    ⟨(match x.lo, y.lo with
      | none, b => b
      | a, none => a
      | some a, some b => some (if a < b then b else a)),
     (match x.hi, y.hi with
      | none, b => b
      | a, none => a
      | some a, some b => some (if a < b then a else b))⟩

/-- `Add` -/
def add (x y : IR) : IR :=
  if x.empty || y.empty then mkEmpty
  else
    ⟨(match x.lo, y.lo with | some a, some b => some (a + b) | _, _ => none),
     (match x.hi, y.hi with | some a, some b => some (a + b) | _, _ => none)⟩

/-- `Sub` -/
def sub (x y : IR) : IR :=
  if x.empty || y.empty then mkEmpty
  else
    ⟨(match x.lo, y.hi with
      | some a, some b => if x.hi.isSome || y.lo.isSome then some (a - b) else none
      | _, _ => none),
     (match x.hi, y.lo with
      | some a, some b => if x.lo.isSome || y.hi.isSome then some (a - b) else none
      | _, _ => none)⟩

/-- `biggerInt` -/
inductive BI where
  | negInf | fin (i : Int) | posInf
deriving DecidableEq, Repr, Inhabited

/-- `biggerIntPair`; `newBiggerIntPair` = (+∞, -∞) -/
structure BIP where
  lo : BI
  hi : BI
deriving DecidableEq, Repr, Inhabited

def BIP.new : BIP := ⟨.posInf, .negInf⟩

/-- `lowerMin` -/
def BIP.lowerMin (p : BIP) (y : BI) : BIP :=
  let take : Bool := match p.lo, y with
    | .posInf, _ => true
    | _, .negInf => true
    | .fin a, .fin b => decide (a > b)
    | _, _ => false
  if take then { p with lo := y } else p

/-- `raiseMax` -/
def BIP.raiseMax (p : BIP) (y : BI) : BIP :=
  let take : Bool := match p.hi, y with
    | .negInf, _ => true
    | _, .posInf => true
    | .fin a, .fin b => decide (a < b)
    | _, _ => false
  if take then { p with hi := y } else p

/-- `toIntRange`.  (`extra < 0` on x[0] or `extra > 0` on x[1] give a nil pointer,
which is how the Go code represents the infinite bound.) -/
def BIP.toIR (p : BIP) : IR :=
  match p.lo, p.hi with
  | .posInf, _ => mkEmpty
  | _, .negInf => mkEmpty
  | l, h =>
    ⟨(match l with | .fin a => some a | _ => none),
     (match h with | .fin b => some b | _ => none)⟩

/-- `fromIntRange` -/
def BIP.fromIR (y : IR) : BIP :=
  ⟨(match y.lo with | some a => .fin a | none => .negInf),
   (match y.hi with | some b => .fin b | none => .posInf)⟩

/-- `bigIntLsh` : i * 2^j (both code paths compute this for j ≥ 0). -/
def bigLsh (i j : Int) : Int := i * (2 : Int) ^ j.toNat

/-- `bigIntRsh` : floor (i / 2^j) (`Rsh` and the `Div` fallback agree). -/
def bigRsh (i j : Int) : Int := i / ((2 : Int) ^ j.toNat)

/-- `BitLen` of the absolute value -/
def bitLen (i : Int) : Nat := if i.natAbs = 0 then 0 else Nat.log2 i.natAbs + 1

/-- Executable shortcut for `bigRsh` (same function, proved below and installed with `@[csimp]`
so that the compiled driver does not build `2^j` for a huge count `j`): once
`j ≥ BitLen(|i|)` the floor quotient is `-1` (negative `i`) or `0`. -/
def bigRshFast (i j : Int) : Int :=
  if bitLen i ≤ j.toNat then (if i < 0 then -1 else 0) else i / ((2 : Int) ^ j.toNat)

theorem natAbs_lt_two_pow_bitLen (i : Int) : i.natAbs < 2 ^ bitLen i := by
  unfold bitLen
  split
  · omega
  · exact Nat.lt_log2_self

@[csimp] theorem bigRsh_eq_fast : @bigRsh = @bigRshFast := by
  funext i j
  unfold bigRsh bigRshFast
  split
  · rename_i hle
    have h1 := natAbs_lt_two_pow_bitLen i
    have h2 : 2 ^ bitLen i ≤ 2 ^ j.toNat := Nat.pow_le_pow_right (by decide) hle
    have e : ((2 ^ j.toNat : Nat) : Int) = (2 : Int) ^ j.toNat := Int.natCast_pow 2 _
    rw [← e]
    generalize hd : ((2 ^ j.toNat : Nat) : Int) = d
    have hd1 : (i.natAbs : Int) < d := by omega
    split
    · rename_i hneg
      exact ((Int.ediv_emod_unique (a := i) (b := d) (q := -1) (r := i + d) (by omega)).2
        ⟨by omega, by omega, by omega⟩).1
    · exact Int.ediv_eq_zero_of_lt (by omega) (by omega)
  · rfl

/-- `bigIntQuo` : truncated quotient (`big.Int.Quo`) -/
def bigQuo (i j : Int) : Int := Int.tdiv i j

/-- `bigIntQuo` as executed: `big.Int.Quo` panics on a zero divisor (`none`). -/
def bigQuoP (i j : Int) : Option Int := if j = 0 then none else some (bigQuo i j)

/-- `bigIntMul` -/
def bigMul (i j : Int) : Int := i * j

/-- `bigIntNewSet` / `bigIntNewNot` on a possibly nil pointer -/
def bigNewSet (i : Option Int) : Option Int := i

/-! The four sign-definite blocks of `mulLsh` (inline in the Go code):
`x` negative/positive times `y` negative/positive. -/

/-- `mulLsh`, `if hasNegX { if hasNegY { … } }` -/
def mulNN (combine : Int → Int → Int) (negX negY : IR) (ret : BIP) : BIP :=
  let ret := ret.lowerMin (.fin (combine (negX.hi.getD 0) (negY.hi.getD 0)))
  match negX.lo, negY.lo with
  | some a, some b => ret.raiseMax (.fin (combine a b))
  | _, _ => ret.raiseMax .posInf

/-- `mulLsh`, `if hasNegX { if hasPosY { … } }` -/
def mulNP (combine : Int → Int → Int) (negX posY : IR) (ret : BIP) : BIP :=
  let ret := match negX.lo, posY.hi with
    | some a, some b => ret.lowerMin (.fin (combine a b))
    | _, _ => ret.lowerMin .negInf
  ret.raiseMax (.fin (combine (negX.hi.getD 0) (posY.lo.getD 0)))

/-- `mulLsh`, `if hasPosX { if hasNegY { … } }` -/
def mulPN (combine : Int → Int → Int) (posX negY : IR) (ret : BIP) : BIP :=
  let ret := match posX.hi, negY.lo with
    | some a, some b => ret.lowerMin (.fin (combine a b))
    | _, _ => ret.lowerMin .negInf
  ret.raiseMax (.fin (combine (posX.lo.getD 0) (negY.hi.getD 0)))

/-- `mulLsh`, `if hasPosX { if hasPosY { … } }` -/
def mulPP (combine : Int → Int → Int) (posX posY : IR) (ret : BIP) : BIP :=
  let ret := ret.lowerMin (.fin (combine (posX.lo.getD 0) (posY.lo.getD 0)))
  match posX.hi, posY.hi with
  | some a, some b => ret.raiseMax (.fin (combine a b))
  | _, _ => ret.raiseMax .posInf

/-- `mulLsh` -/
def mulLsh (x y : IR) (shift : Bool) : IR :=
  if x.empty || y.empty then mkEmpty
  else if x.justZero || (!shift && y.justZero) then ⟨some 0, some 0⟩
  else
    let combine : Int → Int → Int := if shift then bigLsh else (· * ·)
    let (negX, posX, hasNegX, hasZeroX, hasPosX) := x.split3
    let (negY, posY, hasNegY, hasZeroY, hasPosY) := y.split3
    let ret : BIP :=
      if hasZeroY && shift then BIP.fromIR x
      else if (hasZeroY && !shift) || hasZeroX then ⟨.fin 0, .fin 0⟩
      else BIP.new
    let ret :=
      if hasNegX then
        let ret := if hasNegY then mulNN combine negX negY ret else ret
        if hasPosY then mulNP combine negX posY ret else ret
      else ret
    let ret :=
      if hasPosX then
        let ret := if hasNegY then mulPN combine posX negY ret else ret
        if hasPosY then mulPP combine posX posY ret else ret
      else ret
    ret.toIR

def mul (x y : IR) : IR := mulLsh x y false

/-- `TryLsh`; `none` = (IntRange{}, false) -/
def tryLsh (x y : IR) : Option IR :=
  if !x.empty && y.containsNegative then none else some (mulLsh x y true)

/-! The four sign-definite blocks of `TryQuo`. -/

def quoNN (negX negY : IR) (ret : BIP) : BIP :=
  let ret := match negX.lo with
    | none => ret.raiseMax .posInf
    | some a => ret.raiseMax (.fin (bigQuo a (negY.hi.getD 0)))
  match negY.lo with
  | none => ret.lowerMin (.fin 0)
  | some b => ret.lowerMin (.fin (bigQuo (negX.hi.getD 0) b))

def quoNP (negX posY : IR) (ret : BIP) : BIP :=
  let ret := match negX.lo with
    | none => ret.lowerMin .negInf
    | some a => ret.lowerMin (.fin (bigQuo a (posY.lo.getD 0)))
  match posY.hi with
  | none => ret.raiseMax (.fin 0)
  | some b => ret.raiseMax (.fin (bigQuo (negX.hi.getD 0) b))

def quoPN (posX negY : IR) (ret : BIP) : BIP :=
  let ret := match posX.hi with
    | none => ret.lowerMin .negInf
    | some a => ret.lowerMin (.fin (bigQuo a (negY.hi.getD 0)))
  match negY.lo with
  | none => ret.raiseMax (.fin 0)
  | some b => ret.raiseMax (.fin (bigQuo (posX.lo.getD 0) b))

def quoPP (posX posY : IR) (ret : BIP) : BIP :=
  let ret := match posX.hi with
    | none => ret.raiseMax .posInf
    | some a => ret.raiseMax (.fin (bigQuo a (posY.lo.getD 0)))
  match posY.hi with
  | none => ret.lowerMin (.fin 0)
  | some b => ret.lowerMin (.fin (bigQuo (posX.lo.getD 0) b))

/-- `TryQuo` -/
def tryQuo (x y : IR) : Option IR :=
  if x.empty || y.empty then some mkEmpty
  else if y.containsZero then none
  else if x.justZero then some ⟨some 0, some 0⟩
  else
    let (negX, posX, hasNegX, hasZeroX, hasPosX) := x.split3
    let (negY, posY, hasNegY, _, hasPosY) := y.split3
    let ret : BIP := if hasZeroX then ⟨.fin 0, .fin 0⟩ else BIP.new
    let ret :=
      if hasNegX then
        let ret := if hasNegY then quoNN negX negY ret else ret
        if hasPosY then quoNP negX posY ret else ret
      else ret
    let ret :=
      if hasPosX then
        let ret := if hasNegY then quoPN posX negY ret else ret
        if hasPosY then quoPP posX posY ret else ret
      else ret
    some ret.toIR

/-! The two blocks of `TryRsh` (`y` is the whole, non-negative, shift range). -/

def rshN (negX y : IR) (ret : BIP) : BIP :=
  let ret := match negX.lo with
    | none => ret.lowerMin .negInf
    | some a => ret.lowerMin (.fin (bigRsh a (y.lo.getD 0)))
  match y.hi with
  | none => ret.raiseMax (.fin (-1))
  | some b => ret.raiseMax (.fin (bigRsh (negX.hi.getD 0) b))

def rshP (posX y : IR) (ret : BIP) : BIP :=
  let ret := match y.hi with
    | none => ret.lowerMin (.fin 0)
    | some b => ret.lowerMin (.fin (bigRsh (posX.lo.getD 0) b))
  match posX.hi with
  | none => ret.raiseMax .posInf
  | some a => ret.raiseMax (.fin (bigRsh a (y.lo.getD 0)))

/-- `TryRsh` -/
def tryRsh (x y : IR) : Option IR :=
  if x.empty || y.empty then some mkEmpty
  else if y.containsNegative then none
  else if x.justZero then some ⟨some 0, some 0⟩
  else
    let (negX, posX, hasNegX, hasZeroX, hasPosX) := x.split3
    let ret : BIP := if hasZeroX then ⟨.fin 0, .fin 0⟩ else BIP.new
    let ret := if hasNegX then rshN negX y ret else ret
    let ret := if hasPosX then rshP posX y ret else ret
    some ret.toIR

/-! ### Two's-complement bit operations on `Int` (core Lean has none).
`Int.negSucc n` is `-(n+1)`, i.e. `^n`. -/

/-- clear in `a` the bits set in `b` (non-negative operands) -/
def natAndNot (a b : Nat) : Nat := a ^^^ (a &&& b)

/-- `bigIntNewNot` / `big.Int.Not` : ^i = -i - 1 -/
def inot (i : Int) : Int := -i - 1

/-- `big.Int.And` -/
def iand : Int → Int → Int
  | .ofNat m, .ofNat n => Int.ofNat (m &&& n)
  | .ofNat m, .negSucc n => Int.ofNat (natAndNot m n)
  | .negSucc m, .ofNat n => Int.ofNat (natAndNot n m)
  | .negSucc m, .negSucc n => Int.negSucc (m ||| n)

/-- `big.Int.Or` -/
def ior : Int → Int → Int
  | .ofNat m, .ofNat n => Int.ofNat (m ||| n)
  | .ofNat m, .negSucc n => Int.negSucc (natAndNot n m)
  | .negSucc m, .ofNat n => Int.negSucc (natAndNot m n)
  | .negSucc m, .negSucc n => Int.negSucc (m &&& n)

/-- `big.Int.AndNot` -/
def iandNot (a b : Int) : Int := iand a (inot b)

/-- `bitFillRight` on its domain (non-negative argument; 0xFFFF-bit size panic out of scope).
Outside the domain the value is irrelevant (see `bitFillRightP`); the argument is returned. -/
def bitFillRight (i : Int) : Int := if i ≤ 0 then i else (2 : Int) ^ (bitLen i) - 1

/-- `bitFillRight` with the `panic("pre-condition failure")` on a negative argument (`none`). -/
def bitFillRightP (i : Int) : Option Int := if i < 0 then none else some (bitFillRight i)

/-- `bitMask(n0, n1)`: `smallBitMasks[n]` when `n = max(n0,n1)` is inside the table (the table
is regenerated from the code, `Gen/C06_Tables.lean`), otherwise `(1 << n) - 1`.
`Proof/IntervalTables.lean` proves `bitMask n0 n1 = 2^max(n0,n1) - 1` from the obligation that
table entry `n` is `2^n - 1`.  (The `n > 1<<30` size panic is out of scope.) -/
def bitMask (n0 n1 : Nat) : Int :=
  let n := if n0 < n1 then n1 else n0
  match Gen.C06.smallBitMasks[n]? with
  | some m => m
  | none => (2 : Int) ^ n - 1

/-- does `bitMask` return a pointer into the package-level table? (identity, for the tie) -/
def bitMaskShared (n0 n1 : Nat) : Bool :=
  (Gen.C06.smallBitMasks[if n0 < n1 then n1 else n0]?).isSome

/-- `andMax` (receiver x = [xlo, xhi], argument y = [ylo, yhi]); all finite.
Pure version (what is computed when no `bitFillRight` panics). -/
def andMax (xlo xhi ylo yhi : Int) : Int :=
  if yhi ≥ xlo && xhi ≥ ylo then
    (if xhi > yhi then yhi else xhi)
  else
    let j := bitFillRight (iandNot xhi xlo)
    let j := bitFillRight (iandNot (iand j xhi) yhi)
    let i := iandNot xhi j
    let j := iand (ior (j >>> 1) i) yhi
    let k := bitFillRight (iandNot yhi ylo)
    let k := bitFillRight (iandNot (iand k yhi) xhi)
    let i := iandNot yhi k
    let k := iand (ior (k >>> 1) i) xhi
    if j < k then k else j

/-- `andMax` as executed: `none` = a `bitFillRight` panic. -/
def andMaxP (xlo xhi ylo yhi : Int) : Option Int :=
  if yhi ≥ xlo && xhi ≥ ylo then
    some (if xhi > yhi then yhi else xhi)
  else do
    let j ← bitFillRightP (iandNot xhi xlo)
    let j ← bitFillRightP (iandNot (iand j xhi) yhi)
    let i := iandNot xhi j
    let j := iand (ior (j >>> 1) i) yhi
    let k ← bitFillRightP (iandNot yhi ylo)
    let k ← bitFillRightP (iandNot (iand k yhi) xhi)
    let i := iandNot yhi k
    let k := iand (ior (k >>> 1) i) xhi
    pure (if j < k then k else j)

/-- `orMax`, pure version. -/
def orMax (xlo xhi ylo yhi : Int) : Int :=
  if xlo = 0 && ylo = 0 then
    ior (ior ((bitFillRight (iand xhi yhi)) >>> 1) xhi) yhi
  else
    let i := iandNot xhi xlo
    let j := iandNot yhi ylo
    let j := bitFillRight (ior j i)
    let j := iand (iand j xhi) yhi
    let j := (bitFillRight j) >>> 1
    ior (ior j xhi) yhi

/-- `orMax` as executed: `none` = a `bitFillRight` panic. -/
def orMaxP (xlo xhi ylo yhi : Int) : Option Int :=
  if xlo = 0 && ylo = 0 then do
    let i ← bitFillRightP (iand xhi yhi)
    pure (ior (ior (i >>> 1) xhi) yhi)
  else do
    let i := iandNot xhi xlo
    let j := iandNot yhi ylo
    let j ← bitFillRightP (ior j i)
    let j := iand (iand j xhi) yhi
    let j ← bitFillRightP j
    let j := j >>> 1
    pure (ior (ior j xhi) yhi)

/-- `andBothNonNeg`; `none` = the pre-condition-failure / unreachable panic. -/
def andBothNonNeg (x y : IR) : Option IR :=
  if x.empty || x.containsNegative || y.empty || y.containsNegative then none
  else
    match x.lo, y.lo with
    | some xlo, some ylo =>
      (match x.hi, y.hi with
      | some xhi, some yhi =>
        (andMaxP xlo xhi ylo yhi).bind fun zMax =>
        (orMaxP (inot xhi) (inot xlo) (inot yhi) (inot ylo)).map fun m =>
        ⟨some (inot m), some zMax⟩
      | some xhi, none => some ⟨some 0, some xhi⟩
      | none, some yhi => some ⟨some 0, some yhi⟩
      | none, none => some ⟨some 0, none⟩)
    | _, _ => none

/-- `orBothNonNeg` -/
def orBothNonNeg (x y : IR) : Option IR :=
  if x.empty || x.containsNegative || y.empty || y.containsNegative then none
  else
    match x.lo, y.lo with
    | some xlo, some ylo =>
      let fin (xlo xhi ylo yhi : Int) (zMax : Option Int) : Option IR :=
        (andMaxP (inot xhi) (inot xlo) (inot yhi) (inot ylo)).map fun m =>
        ⟨some (inot m), zMax⟩
      (match x.hi, y.hi with
      | some xhi, some yhi =>
        (orMaxP xlo xhi ylo yhi).bind fun zMax => fin xlo xhi ylo yhi (some zMax)
      | xhi?, yhi? =>
        if x.containsInt ylo then some ⟨some ylo, none⟩
        else if y.containsInt xlo then some ⟨some xlo, none⟩
        else
          match xhi?, yhi? with
          | none, none => none   -- panic("unreachable")
          | some xhi, _ =>
            -- y is the half-infinite one
            if xhi ≥ ylo then none else
            (bitFillRightP ylo).bind fun f => fin xlo xhi ylo f none
          | none, some yhi =>
            -- swap: x, y = y, x
            if yhi ≥ xlo then none else
            (bitFillRightP xlo).bind fun f => fin ylo yhi xlo f none)
    | _, _ => none

/-- `andOneNegOneNonNeg` -/
def andOneNegOneNonNeg (neg non : IR) : Option IR :=
  if neg.empty || neg.containsNonNegative || non.empty || non.containsNegative then none
  else
    match neg.lo with
    | none => some ⟨some 0, non.hi⟩
    | some nlo =>
      match neg.hi, non.lo with
      | some nhi, some olo =>
        (match non.hi with
        | none =>
          let mask := bitMask (bitLen nlo) (bitLen olo)
          let biased : IR := ⟨some (iand mask nlo), some (iand mask nhi)⟩
          (andBothNonNeg biased ⟨some olo, some mask⟩).map (fun w => ⟨w.lo, none⟩)
        | some ohi =>
          let mask := bitMask (bitLen nlo) (bitLen ohi)
          let biased : IR := ⟨some (iand mask nlo), some (iand mask nhi)⟩
          andBothNonNeg biased non)
      | _, _ => none

/-- `bigIntNewNot` on a possibly nil pointer -/
def bigNewNot (i : Option Int) : Option Int := i.map inot

/-- the `IntRange{bigIntNewNot(r[1]), bigIntNewNot(r[0])}` idiom -/
def IR.notSwap (r : IR) : IR := ⟨r.hi.map inot, r.lo.map inot⟩

/-- `orOneNegOneNonNeg` -/
def orOneNegOneNonNeg (neg non : IR) : Option IR :=
  (andOneNegOneNonNeg non.notSwap neg.notSwap).map IR.notSwap

/-- `And`; `none` = a panic inside a helper (unreachable on the unchanged code). -/
def and (x y : IR) : Option IR :=
  if x.empty || y.empty then some mkEmpty
  else if !x.containsNegative && !y.containsNegative then andBothNonNeg x y
  else
    let (negX, nonX, hasNegX, hasNonX) := x.split2
    let (negY, nonY, hasNegY, hasNonY) := y.split2
    let z : Option IR := some mkEmpty
    let z := if hasNegX && hasNegY then
        z.bind fun z => (orBothNonNeg negX.notSwap negY.notSwap).map fun w =>
          inPlaceUnite z w.notSwap
      else z
    let z := if hasNegX && hasNonY then
        z.bind fun z => (andOneNegOneNonNeg negX nonY).map (inPlaceUnite z)
      else z
    let z := if hasNonX && hasNegY then
        z.bind fun z => (andOneNegOneNonNeg negY nonX).map (inPlaceUnite z)
      else z
    let z := if hasNonX && hasNonY then
        z.bind fun z => (andBothNonNeg nonX nonY).map (inPlaceUnite z)
      else z
    z

/-- `Or` -/
def or (x y : IR) : Option IR :=
  if x.empty || y.empty then some mkEmpty
  else if !x.containsNegative && !y.containsNegative then orBothNonNeg x y
  else
    let (negX, nonX, hasNegX, hasNonX) := x.split2
    let (negY, nonY, hasNegY, hasNonY) := y.split2
    let z : Option IR := some mkEmpty
    let z := if hasNegX && hasNegY then
        z.bind fun z => (andBothNonNeg negX.notSwap negY.notSwap).map fun w =>
          inPlaceUnite z w.notSwap
      else z
    let z := if hasNegX && hasNonY then
        z.bind fun z => (orOneNegOneNonNeg negX nonY).map (inPlaceUnite z)
      else z
    let z := if hasNonX && hasNegY then
        z.bind fun z => (orOneNegOneNonNeg negY nonX).map (inPlaceUnite z)
      else z
    let z := if hasNonX && hasNonY then
        z.bind fun z => (orBothNonNeg nonX nonY).map (inPlaceUnite z)
      else z
    z

end WuffsVerif.Interval
