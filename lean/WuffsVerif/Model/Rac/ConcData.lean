/-
C14 — the concurrent RAC reader (lib/rac/conc_reader.go + the Concurrency > 1 paths of
lib/rac/reader.go) WITH DATA: the manager/worker protocol of Model/Rac/Conc.lean decorated
with the ranges, bytes, positions and API results that the protocol model abstracts to epochs.

* a work item carries its `dRange` `[lo, hi)` and, for a result, the bytes `buffer[0:j]`;
* the Manager carries the region of interest `[rlo, rhi)`, the ChunkReader cursor `cur` and
  the dRange of the request in its hand; `mgrMake` is one iteration of its `NextChunk` loop
  over the abstract chunk list of Model/Rac/Reader.lean (`findChunk`, as in `nextChunk` there);
* every Worker owns a sequential Reader `rd : R` (the `racReader.clone()` with Concurrency 0):
  `wRecv` is `racReader.SeekRange(dRange[0], dRange[1])`, `wMake` is
  `racReader.Read(buffer[:])` with a 65536-byte buffer — literally the sequential model;
* `main` is `Reader.Read / Seek / SeekRange / Close` for Concurrency > 1: the sticky error,
  `concReader.seek` (pos / posLimit / seekResolved), `concReader.Read` (cancel, send the region
  of interest, then the copy loop over `currWork` / `nextWork`), `close`;
* a ghost log: the calls that have returned (`hist`) and what they returned (`results`,
  canonicalised as in `R.run`).

Error paths that a valid file never takes (a chunk lookup that fails, a Worker's SeekRange /
Read error, an empty request, two results with the same start offset) set `fault`; the fault
flag stops the system.  `Props/C14Data.lean` proves that no reachable state has it set.

The projection `abs` forgets the decorations; every step of this model is a step of the
protocol model or leaves `abs` unchanged (`Proof/RacConcDataSim.lean`), so the protocol
invariants of Props/C14Conc.lean hold here too.

CORE LEAN ONLY.
-/
import WuffsVerif.Model.Rac.Reader
import WuffsVerif.Model.Rac.Conc

set_option linter.unusedVariables false

namespace WuffsVerif.Rac.ConcD
open WuffsVerif.Rac WuffsVerif.Rac.Conc

/-- `rBufferSize` -/
def bufSize : Nat := 65536

/-- an `rWork` in a channel, in `completedWorks` or in `currWork` -/
structure DItem where
  it : Item                  -- protocol part: epoch (ghost), owner of the buffer
  lo : Nat                   -- dRange[0]
  hi : Nat                   -- dRange[1]
  data : List UInt8 := []    -- buffer[0:j]  (requests: empty)
  deriving Repr, Inhabited

/-- `runRWorker` locals -/
structure DW where
  w : W := {}                -- protocol part
  dlo : Nat := 0             -- dRange (meaningful while `w.dr ≠ none`)
  dhi : Nat := 0
  olo : Nat := 0             -- outWork.dRange, outWork.buffer[0:j] (meaningful while `w.out ≠ none`)
  ohi : Nat := 0
  odata : List UInt8 := []
  rd : R                     -- racReader: a sequential Reader of its own
  deriving Repr, Inhabited

/-- `runRManager` locals -/
structure DM where
  m : M := {}                -- protocol part
  rlo : Nat := 0             -- roi
  rhi : Nat := 0
  cur : Nat := 0             -- chunkReader cursor (the DSpace offset NextChunk continues from)
  wlo : Nat := 0             -- work.dRange (meaningful while `m.work ≠ none`)
  whi : Nat := 0
  deriving Repr, Inhabited

structure DSt where
  main : MainPc := .idle
  seenRead : Bool := false
  epoch : Nat := 0
  mgr : DM := {}
  ws : List DW
  reqc : List DItem := []
  resc : List DItem := []
  completed : List DItem := []       -- completedWorks (keyed by `lo`)
  curr : Option DItem := none        -- currWork (when it holds a buffer)
  ci : Nat := 0                      -- currWork.i
  pos : Nat := 0                     -- concReader.pos
  lim : Nat                          -- concReader.posLimit
  seekResolved : Bool := false
  err : Option Err := none           -- Reader.err (sticky)
  closed : Bool := false             -- Reader.closed
  pend : Option Op := none           -- the API call in progress (a Read or a Close)
  want : Nat := 0                    -- len(p) still to fill
  got : List UInt8 := []             -- what the Read in progress has copied to p so far
  fault : Bool := false
  hist : List Op := []               -- ghost: calls that have returned …
  results : List Res := []           -- … and their (canonicalised) results
  deriving Repr, Inhabited

def DSt.init (F : File) (n : Nat) : DSt :=
  { ws := List.replicate n { rd := R.init F }, lim := F.size }

/-- forget the data -/
def abs (s : DSt) : St :=
  { repaired := true, main := s.main, seenRead := s.seenRead, epoch := s.epoch, mgr := s.mgr.m,
    ws := s.ws.map (·.w), reqc := s.reqc.map (·.it), resc := s.resc.map (·.it),
    completed := s.completed.map (·.it), curr := s.curr.map (·.it) }

inductive DLabel where
  | call (op : Op)            -- `main` is between calls: the next API call begins
  | stopMgr | stopW (i : Nat)
  | recycle
  | ackMgr | ackW (i : Nat)
  | ackDone
  | roi
  | mgrMake                   -- one iteration of the Manager's NextChunk loop
  | mgrSend
  | wRecv (i : Nat)
  | wMake (i : Nat)
  | wSend (i : Nat)
  | wRecycle (i : Nat)
  | recvRes
  | take (j : Nat)
  | recycleCurr
  | copy                      -- `n := copy(p, c.currWork.buffer[i:j])`
  | readDone
  deriving Repr, Inhabited

/-- an API call returns: log it -/
def DSt.ret (s : DSt) (op : Op) (res : Res) : DSt :=
  { s with hist := s.hist ++ [op], results := s.results ++ [res.canon], pend := none, want := 0, got := [] }

/-- `concReader.seek` under `Reader.seek` (Concurrency > 1: every error becomes `r.err`) -/
def seekD (F : File) (s : DSt) (off wh limit : Int) : DSt × Int × Option Err :=
  match seekTarget s.pos F.size off wh with
  | none => ({ s with err := some .whence }, 0, some .whence)
  | some p =>
    if p ≠ (s.pos : Int) ∧ p < 0 then ({ s with err := some .negPos }, 0, some .negPos)
    else
      let s1 : DSt := if p ≠ (s.pos : Int) then { s with pos := p.toNat, seekResolved := false } else s
      let lim := (if limit > (F.size : Int) then (F.size : Int) else limit).toNat
      let s2 : DSt := if s1.lim ≠ lim then { s1 with lim := lim, seekResolved := false } else s1
      (s2, p, none)

/-- the Read loop of `concReader.Read` has reached one of its two `return`s -/
def DSt.readOver (s : DSt) : Prop := s.pos ≥ s.lim ∨ s.want = 0

instance (s : DSt) : Decidable s.readOver := by unfold DSt.readOver; infer_instance

/-- everything `main` holds or could drain goes back to its worker's `recyclec` -/
def recycleAllD (s : DSt) : List DW :=
  s.ws.mapIdx (fun i w =>
    let k := countOwner i (s.resc.map (·.it)) + countOwner i (s.completed.map (·.it)) + ownerIs i (s.curr.map (·.it))
    { w with w := { w.w with recyc := w.w.recyc + k } })

/-- an API call, `main` idle (or closed) -/
def callD (F : File) (s : DSt) (op : Op) : Option DSt :=
  if s.main = .idle ∨ s.main = .closed then
    match op with
    | .read n =>
      match s.err with
      | some e => some (s.ret op (.read [] (some e)))                 -- initialize(): sticky error
      | none =>
        if s.main = .closed then some { s with fault := true }        -- (closed has set the sticky error)
        else if s.pos ≥ s.lim then some (s.ret op (.read [] (some .eof)))
        else if s.seekResolved then
          if s.seenRead then some { s with main := .reading, pend := some op, want := n, got := [] }
          else some { s with fault := true }
        else if s.seenRead then
          some { s with main := .stopping 0 true, seekResolved := true, pend := some op, want := n, got := [] }
        else
          some { s with main := .sendRoi, seenRead := true, seekResolved := true, pend := some op, want := n, got := [] }
    | .seek off wh =>
      match s.err with
      | some e => some (s.ret op (.seek 0 (some e)))
      | none =>
        if s.main = .closed then some { s with fault := true }
        else
          let (s', p, e) := seekD F s off wh maxInt64
          some (s'.ret op (.seek p e))
    | .seekRange lo hi =>
      match s.err with
      | some e => some (s.ret op (.err (some e)))
      | none =>
        if s.main = .closed then some { s with fault := true }
        else if lo > hi then some ({ s with err := some .negRange }.ret op (.err (some .negRange)))
        else
          let (s', _, e) := seekD F s lo 0 hi
          some (s'.ret op (.err e))
    | .close =>
      if s.closed then some (s.ret op (.err s.err))
      else if s.main = .closed then some { s with fault := true }
      else some { s with main := .stopping 0 false, pend := some op }   -- concReader.Close
  else none

def stepD (F : File) (s : DSt) (l : DLabel) : Option DSt :=
  if s.fault then none else
  match l with
  | .call op => callD F s op
  | .stopMgr =>
    match s.main with
    | .stopping k keep =>
      if k < s.ws.length + 1 ∧ s.mgr.m.pc = .run then
        some { s with main := .stopping (k + 1) keep, mgr := { s.mgr with m := { s.mgr.m with pc := .stopped keep } } }
      else none
    | _ => none
  | .stopW i =>
    match s.main, s.ws[i]? with
    | .stopping k keep, some w =>
      if k < s.ws.length + 1 ∧ w.w.pc = .run then
        some { s with main := .stopping (k + 1) keep, ws := s.ws.set i { w with w := { w.w with pc := .stopped keep } } }
      else none
    | _, _ => none
  | .recycle =>
    match s.main with
    | .stopping k keep =>
      if k = s.ws.length + 1 then
        if keep then
          some { s with main := .acking 0 true, ws := recycleAllD s, reqc := [], resc := [], completed := [],
                        curr := none, ci := 0 }
        else some { s with main := .acking 0 false }
      else none
    | _ => none
  | .ackMgr =>
    match s.main, s.mgr.m.pc with
    | .acking k kk, .stopped keep =>
      if k < s.ws.length + 1 then
        some { s with main := .acking (k + 1) kk,
                      mgr := { s.mgr with m := if keep then s.mgr.m.resume true else { s.mgr.m with pc := .done } } }
      else none
    | _, _ => none
  | .ackW i =>
    match s.main, s.ws[i]? with
    | .acking k kk, some w =>
      match w.w.pc with
      | .stopped keep =>
        if k < s.ws.length + 1 then
          some { s with main := .acking (k + 1) kk,
                        ws := s.ws.set i { w with w := if keep then w.w.resume true else { w.w with pc := .done } } }
        else none
      | _ => none
    | _, _ => none
  | .ackDone =>
    match s.main with
    | .acking k keep =>
      if k = s.ws.length + 1 then
        if keep then some { s with main := .sendRoi, epoch := s.epoch + 1 }
        else
          -- `Reader.close`: concReader.Close() has returned
          match s.err with
          | none => some ({ s with main := .closed, closed := true, err := some .closed }.ret .close (.err none))
          | some e => some ({ s with main := .closed, closed := true }.ret .close (.err (some e)))
      else none
    | _ => none
  | .roi =>
    if s.main = .sendRoi ∧ s.mgr.m.pc = .run ∧ s.mgr.m.inputOn = true then
      -- `c.roic <- Range{c.pos, c.posLimit}`; the Manager: SeekToChunkContaining(roi[0])
      some { s with main := .reading,
                    mgr := { s.mgr with m := { s.mgr.m with inputOn := false, roi := some s.epoch, work := none },
                                        rlo := s.pos, rhi := s.lim, cur := s.pos } }
    else none
  | .mgrMake =>
    match s.mgr.m.roi with
    | some e =>
      if s.mgr.m.pc = .run ∧ s.mgr.m.inputOn = false ∧ s.mgr.m.work = none then
        if s.mgr.cur ≥ F.size then
          some { s with mgr := { s.mgr with m := { s.mgr.m with inputOn := true } } }       -- NextChunk: io.EOF
        else match findChunk F.chunks s.mgr.cur with
          | none => some { s with fault := true }
          | some c =>
            if c.lo ≥ s.mgr.rhi then
              some { s with mgr := { s.mgr with m := { s.mgr.m with inputOn := true }, cur := c.hi } }
            else
              let lo := max c.lo s.mgr.rlo                                                  -- DRange.Intersect(roi)
              let hi := min c.hi s.mgr.rhi
              if lo < hi then
                some { s with mgr := { s.mgr with m := { s.mgr.m with work := some { epoch := e, owner := none } },
                                                  cur := c.hi, wlo := lo, whi := hi } }
              else some { s with mgr := { s.mgr with cur := c.hi } }
      else none
    | none => none
  | .mgrSend =>
    match s.mgr.m.work with
    | some it =>
      if s.mgr.m.pc = .run ∧ s.mgr.m.inputOn = false ∧ s.reqc.length < s.ws.length then
        some { s with reqc := s.reqc ++ [{ it := it, lo := s.mgr.wlo, hi := s.mgr.whi }],
                      mgr := { s.mgr with m := { s.mgr.m with work := none } } }
      else none
    | none => none
  | .wRecv i =>
    match s.ws[i]?, s.reqc with
    | some w, it :: rest =>
      if w.w.pc = .run ∧ w.w.out = none ∧ w.w.dr = none then
        if it.lo ≥ it.hi then some { s with fault := true }                                 -- errInternalEmptyDRange
        else
          match w.rd.SeekRange F it.lo it.hi with
          | (rd', none) =>
            some { s with reqc := rest,
                          ws := s.ws.set i { w with w := { w.w with dr := some it.it.epoch }, dlo := it.lo, dhi := it.hi, rd := rd' } }
          | (_, some _) => some { s with fault := true }
      else none
    | _, _ => none
  | .wMake i =>
    match s.ws[i]? with
    | some w =>
      match w.w.dr with
      | some e =>
        if w.w.pc = .run ∧ w.w.out = none ∧ (w.w.held > 0 ∨ w.w.canAlloc > 0) then
          match w.rd.read F bufSize with
          | (rd', bs, er) =>
            if er = none ∨ er = some .eof then
              let dlo' := w.dlo + bs.length
              let dr' := if dlo' ≥ w.dhi then none else some e                               -- dRange.Empty()
              let it : Item := { epoch := e, owner := some i }
              let w' : W := if w.w.held > 0 then { w.w with held := w.w.held - 1, out := some it, dr := dr' }
                            else { w.w with canAlloc := w.w.canAlloc - 1, out := some it, dr := dr' }
              some { s with ws := s.ws.set i { w with w := w', dlo := dlo', olo := w.dlo, ohi := dlo', odata := bs, rd := rd' } }
            else some { s with fault := true }
        else none
      | none => none
    | none => none
  | .wSend i =>
    match s.ws[i]? with
    | some w =>
      match w.w.out with
      | some it =>
        if w.w.pc = .run ∧ s.resc.length < 2 * s.ws.length then
          some { s with resc := s.resc ++ [{ it := it, lo := w.olo, hi := w.ohi, data := w.odata }],
                        ws := s.ws.set i { w with w := { w.w with out := none } } }
        else none
      | none => none
    | none => none
  | .wRecycle i =>
    match s.ws[i]? with
    | some w =>
      if w.w.pc = .run ∧ w.w.recyc > 0 then
        some { s with ws := s.ws.set i { w with w := { w.w with recyc := w.w.recyc - 1, held := w.w.held + 1 } } }
      else none
    | none => none
  | .recvRes =>
    -- nextWork: nothing in completedWorks for `pos`: `work := <-c.resc`
    match s.resc with
    | it :: rest =>
      if s.main = .reading ∧ ¬ s.readOver ∧ s.curr = none ∧ s.completed.all (fun c => c.lo != s.pos) then
        if s.completed.all (fun c => c.lo != it.lo) then some { s with resc := rest, completed := it :: s.completed }
        else some { s with fault := true }                                                  -- would overwrite a map entry
      else none
    | [] => none
  | .take j =>
    match s.completed[j]? with
    | some it =>
      if s.main = .reading ∧ ¬ s.readOver ∧ s.curr = none ∧ it.lo = s.pos then
        some { s with completed := s.completed.eraseIdx j, curr := some it, ci := 0 }
      else none
    | none => none
  | .recycleCurr =>
    match s.curr with
    | some it =>
      match it.it.owner with
      | some i =>
        match s.ws[i]? with
        | some w =>
          if s.main = .reading ∧ ¬ s.readOver ∧ s.ci ≥ it.data.length ∧ w.w.recyc < 2 then
            some { s with curr := none, ci := 0, ws := s.ws.set i { w with w := { w.w with recyc := w.w.recyc + 1 } } }
          else none
        | none => none
      | none => none
    | none => none
  | .copy =>
    match s.curr with
    | some it =>
      if s.main = .reading ∧ ¬ s.readOver ∧ s.ci < it.data.length then
        let n := min s.want (it.data.length - s.ci)
        some { s with got := s.got ++ (it.data.drop s.ci).take n, pos := s.pos + n, ci := s.ci + n, want := s.want - n }
      else none
    | none => none
  | .readDone =>
    if s.main = .reading ∧ s.readOver then
      match s.pend with
      | some op => some ({ s with main := .idle }.ret op (.read s.got (if s.pos ≥ s.lim then some .eof else none)))
      | none => some { s with fault := true }
    else none

def execD (F : File) : DSt → List DLabel → Option DSt
  | s, [] => some s
  | s, l :: ls => match stepD F s l with
    | some s' => execD F s' ls
    | none => none

end WuffsVerif.Rac.ConcD
