/-
C15 — byte-level model of `rac.Reader` (lib/rac/reader.go, Concurrency = 0) over the REAL
`ChunkReader` model (Model/Rac/ChunkReader.lean, hostile index data included) and an ABSTRACT
deterministic codec.

C14's sequential Reader model (Model/Rac/Reader.lean, imported, not edited) is reused
literally for everything that does not touch the chunk reader: the state record `Rac.R`,
`discard` / `readExplicit` (readExplicitData), `readZeroes` (readImplicitZeroes), `R.seek`
(the Reader's own part of `seek`), `seekTarget`, `R.Close`.  What C14 abstracts — the
`ChunkReader` as `findChunk` on a well-formed chunk list — is replaced here by the real
thing: `nextChunk` calls `ChunkReader.Reader.next` (NextChunk), `seek` calls
`ChunkReader.Reader.seek` (SeekToChunkContaining), `openS` runs `initialize` on arbitrary
bytes, and every way these can fail is kept.

The codec (`Reader.CodecReaders`, e.g. raczlib + racdict) is a parameter:
* `accepts c` : some CodecReader accepts Codec `c`;
* `make f c`  : `MakeDecompressor(racFile, chunk)` and the whole behaviour of the
  decompressor it returns, as a function of the file bytes and the chunk: `none` = it
  fails; `some (data, trunc)` = it produces `data` and then `io.EOF` (`trunc = false`) or a
  non-EOF error (`trunc = true`; C14's model names the class `truncated`/`ueof`).
  Being a Lean function it is deterministic: that is the assumption "the codec is a
  function of the compressed bytes".  The read granularity convention is C14's.
The Zeroes codecs are served by the Reader itself (`zeroesReader`).

Error classes: `Rac.Err` (C14) has no constructor for chunk-reader or codec failures; the
Reader's sticky error is then `.badIndex` and `S.cause` records which Go error it is.

Loops are structural on fuel; `none` / `ReadOut.spin` mean "the Go loop would still be
running".  Props/C15Bytes proves they never happen.  CORE LEAN ONLY.
-/
import WuffsVerif.Model.Rac.ChunkReader
import WuffsVerif.Model.Rac.Reader

namespace WuffsVerif.Rac.ByteReader
open WuffsVerif.Rac

abbrev CFile := ChunkReader.File
abbrev CChunk := ChunkReader.Chunk

/-- the codecs a `rac.Reader` was given (`CodecReaders`), abstractly -/
structure Codec where
  accepts : Nat → Bool
  make : CFile → CChunk → Option (List UInt8 × Bool)

/-- why the Reader's sticky error is `.badIndex` -/
inductive Cause where
  | cr (e : ChunkReader.Err)   -- an error of the ChunkReader (initialize / NextChunk / Seek)
  | crSpin                     -- the ChunkReader model ran out of fuel (never: next_value)
  | invalidChunk               -- errInvalidChunk: NextChunk returned an empty DRange (never)
  | noCodec                    -- "rac: no matching CodecReader for Codec …"
  | makeFail                   -- MakeDecompressor returned an error
  deriving DecidableEq, Repr

/-- `rac.Reader`: the embedded `chunkReader`, the Reader's own fields (C14's record), the
Go error behind `.badIndex`, and a ghost counter of `NextChunk` calls. -/
structure S where
  cr : ChunkReader.Reader
  r : R
  cause : Option Cause := none
  /-- number of `ChunkReader.NextChunk` calls made so far (not part of the Go state) -/
  fetches : Nat := 0

/-- C14's `File` record is only used for its `size` (= `chunkReader.decompressedSize`) -/
def S.F (s : S) : Rac.File := { chunks := [], size := s.cr.dsize }

def S.fail (s : S) (c : Cause) : S :=
  { s with r := { s.r with err := some .badIndex }, cause := some c }

/-- `CodecZeroes` / `codecLongZeroes` -/
def isZeroesCodec (c : Nat) : Bool := c == 0 || c == 2 ^ 63

/-- `Reader.initialize` on the bytes `f` with `CompressedSize = claimed` -/
def openS (f : CFile) (claimed : Int) : S :=
  let cr := ChunkReader.openReader f claimed
  match cr.err with
  | some e => { cr := cr, r := { err := some .badIndex }, cause := some (.cr e) }
  | none => { cr := cr, r := R.init { chunks := [], size := cr.dsize } }

/-- what the decompressor of chunk `c` produces: the Zeroes codecs are built in -/
def decoded (k : Codec) (f : CFile) (c : CChunk) : Except Cause (List UInt8 × Bool) :=
  if isZeroesCodec c.codec then .ok (zeros (c.dHi - c.dLo), false)
  else if !k.accepts c.codec then .error .noCodec
  else match k.make f c with
    | none => .error .makeFail
    | some d => .ok d

/-- `Reader.nextChunk`: "State A" → "State B" -/
def nextChunk (k : Codec) (s : S) : S × Option Err :=
  let out := s.cr.next
  let s := { s with cr := out.1, fetches := s.fetches + 1 }
  match out.2 with
  | .eof => (s, some .eof)
  | .err e => (s.fail (.cr e), some .badIndex)
  | .spin => (s.fail .crSpin, some .badIndex)
  | .chunk c =>
    if c.dLo == c.dHi then (s.fail .invalidChunk, some .badIndex)
    else match decoded k s.cr.file c with
      | .error why => (s.fail why, some .badIndex)
      | .ok (data, trunc) =>
        ({ s with r := { s.r with phase := .B, dec := data, decTrunc := trunc,
                                   dlo := c.dLo, dhi := c.dHi, crPos := c.dHi } }, none)

/-- the `for numRead := 0; ; { … }` loop of `Reader.Read` (C14's `readLoop` with the real
`nextChunk`); `none` = out of fuel -/
def readLoop (k : Codec) : Nat → S → Nat → Option (S × List UInt8 × Option Err)
  | 0, _, _ => none
  | fuel + 1, s, n =>
    if s.r.pos ≥ s.r.posLimit then some (s, [], some .eof)
    else if n = 0 then some (s, [], none)
    else if s.r.pos < s.r.dlo ∨ s.r.dhi < s.r.pos then
      some ({ s with r := { s.r with err := some .inconsistent } }, [], some .inconsistent)
    else
      match s.r.phase with
      | .A =>
        match nextChunk k s with
        | (s', some e) => some (s', [], some e)
        | (s', none) => readLoop k fuel s' n
      | .B =>
        match readExplicit s.r n with
        | (r', bs, some e) => some ({ s with r := r' }, bs, some e)
        | (r', bs, none) =>
          match readLoop k fuel { s with r := r' } (n - bs.length) with
          | none => none
          | some (s'', rest, e) => some (s'', bs ++ rest, e)
      | .C =>
        match readZeroes s.r n with
        | (r', z) =>
          match readLoop k fuel { s with r := r' } (n - z) with
          | none => none
          | some (s'', rest, e) => some (s'', zeros z ++ rest, e)

inductive ReadOut where
  | ret (bs : List UInt8) (e : Option Err)
  | spin
  deriving DecidableEq, Repr

/-- iterations of the `Read` loop that `n` requested bytes can need (`read_terminates`) -/
def readFuel (n : Nat) : Nat := 4 * n + 8

/-- `Reader.Read(p)` with `len(p) = n` -/
def S.read (k : Codec) (s : S) (n : Nat) : S × ReadOut :=
  match s.r.err with
  | some e => (s, .ret [] (some e))
  | none =>
    if s.r.pos ≥ s.r.posLimit then (s, .ret [] (some .eof))
    else
      let m := min n (s.r.posLimit - s.r.pos)
      match readLoop k (readFuel m) s m with
      | none => (s, .spin)
      | some (s', bs, e) => (s', .ret bs e)

/-- `Reader.seek(offset, whence, limit)`: the chunk reader is told first, then C14's `R.seek`
does the Reader's own bookkeeping -/
def S.seek (s : S) (off whence limit : Int) : S × Int × Option Err :=
  match seekTarget s.r.pos s.cr.dsize off whence with
  | some p =>
    if p ≠ (s.r.pos : Int) ∧ 0 ≤ p then
      match s.cr.seek p with
      | (cr', some e) => ({ s with cr := cr' }.fail (.cr e), 0, some .badIndex)
      | (cr', none) =>
        let out := s.r.seek s.F off whence limit
        ({ s with cr := cr', r := out.1 }, out.2)
    else
      let out := s.r.seek s.F off whence limit
      ({ s with r := out.1 }, out.2)
  | none =>
    let out := s.r.seek s.F off whence limit
    ({ s with r := out.1 }, out.2)

/-- `Reader.Seek` -/
def S.Seek (s : S) (off whence : Int) : S × Int × Option Err :=
  match s.r.err with
  | some e => (s, 0, some e)
  | none => s.seek off whence maxInt64

/-- `Reader.SeekRange` -/
def S.SeekRange (s : S) (lo hi : Int) : S × Option Err :=
  match s.r.err with
  | some e => (s, some e)
  | none =>
    if lo > hi then ({ s with r := { s.r with err := some .negRange } }, some .negRange)
    else let out := s.seek lo 0 hi; (out.1, out.2.2)

/-- `Reader.Close` -/
def S.Close (s : S) : S × Option Err :=
  let out := s.r.Close
  ({ s with r := out.1 }, out.2)

/-! ## operations (C14's `Op`), for call sequences and the driver -/

inductive Out where
  | read (o : ReadOut)
  | seek (pos : Int) (e : Option Err)
  | err (e : Option Err)
  deriving DecidableEq, Repr

def S.step (k : Codec) (s : S) : Op → S × Out
  | .read n => let o := s.read k n; (o.1, .read o.2)
  | .seek off wh => let o := s.Seek off wh; (o.1, .seek o.2.1 o.2.2)
  | .seekRange lo hi => let o := s.SeekRange lo hi; (o.1, .err o.2)
  | .close => let o := s.Close; (o.1, .err o.2)

def S.run (k : Codec) : S → List Op → List Out
  | _, [] => []
  | s, op :: ops => let o := s.step k op; o.2 :: S.run k o.1 ops

/-- the Go error word behind a Reader error -/
def errWord (s : S) : Err → String
  | .badIndex =>
    match s.cause with
    | some (.cr e) => e.word
    | some .crSpin => "spin"
    | some .invalidChunk => "invalid-chunk"
    | some .noCodec => "no-codec"
    | some .makeFail => "codec-make"
    | none => "badindex"
  | e => e.word

/-! ## a concrete toy codec, for the differential tie with the real `rac.Reader`
(harness/cmd/c15/toycodec.go implements the same as a Go `rac.CodecReader`) -/

def fileBytes (f : CFile) (lo hi : Nat) : List UInt8 :=
  (List.range (hi - lo)).map (fun i => UInt8.ofNat (f.at (lo + i)))

/-- accepts every Codec except Zstandard (0x03 << 56).  `MakeDecompressor` reads all of
CPrimary (and fails when it cannot); its first byte `h` is a header: the decompressed data are
the next `h % 32` bytes (as far as CPrimary reaches), `h / 32 = 7` makes MakeDecompressor fail,
`h / 32 = 6` makes the stream end in an error instead of `io.EOF`.  An empty CPrimary decodes
to nothing. -/
def toyCodec : Codec where
  accepts c := c != 3 * 2 ^ 56
  make f c :=
    if c.cpLo ≤ c.cpHi ∧ c.cpHi ≤ f.size then
      if c.cpLo = c.cpHi then some ([], false)
      else
        let h := f.at c.cpLo
        if h / 32 = 7 then none
        else some (fileBytes f (c.cpLo + 1) (min (c.cpLo + 1 + h % 32) c.cpHi), h / 32 == 6)
    else none

end WuffsVerif.Rac.ByteReader
