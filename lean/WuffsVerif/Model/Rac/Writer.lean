/-
Model of `rac.Writer` in /repo/lib/rac/writer.go (C13), function by function.
Core Lean only.  The `CodecWriter` is an abstract parameter (`CodecW`); its
contract appears as hypotheses of the theorems in `Props/C13.lean`.

Written for the REPAIRED code: `advancePastLeadingZeroes`
(fixes/C13-advance-past-zeroes.patch), `useResource`'s bound
(fixes/C13-useresource-bound.patch) and `Close` with a nil `CodecWriter`
(fixes/C13-nil-codecwriter-close.patch).
-/
import WuffsVerif.Model.Rac.ChunkWriter

namespace WuffsVerif.Rac

/-- result of `CodecWriter.Compress` -/
structure CompressOut where
  codec : Nat
  compressed : Bytes
  secondaryResource : Int
  tertiaryResource : Int
deriving Repr, Inhabited

/-- `rac.CodecWriter` as a record of pure functions -/
structure CodecW where
  /-- `Compress(p, q, resourcesData)` -/
  compress : Bytes → Bytes → List Bytes → Except Err CompressOut
  /-- `CanCut()` -/
  canCut : Bool
  /-- `Cut(codec, encoded, maxEncodedLen)`: the (possibly modified) `encoded`, `encodedLen`, `decodedLen` -/
  cut : Nat → Bytes → Nat → Except Err (Bytes × Nat × Nat)
  /-- `WrapResource(raw)` -/
  wrapResource : Bytes → Except Err Bytes
  /-- `Close()` of the CodecWriter -/
  close : Option Err

def defaultDChunkSize : Nat := 65536
def maxCChunkSize : Nat := 2 ^ 30
def maxTargetDChunkSize : Nat := 2 ^ 31
def startingTargetDChunkSize (cChunkSize : Nat) : Nat := 2 * cChunkSize

structure Writer where
  -- exported fields (configuration)
  nilWriter : Bool := false
  /-- `w.CodecWriter == nil` -/
  nilCodecWriter : Bool := false
  indexAtStart : Bool := false
  tempKind : Nat := 0
  cPageSize : Nat := 0
  cChunkSizeCfg : Nat := 0
  dChunkSizeCfg : Nat := 0
  resourcesData : List Bytes := []
  -- state
  /-- `w.chunkWriter.Writer != nil` -/
  inited : Bool := false
  resourcesIDs : List Nat := []
  cChunkSize : Nat := 0
  dChunkSize : Nat := 0
  err : Option Err := none
  chunkWriter : CW := {}
  uncompressed : WBuf := {}
  closed : Bool := false
deriving Inhabited

namespace Writer

/-- `initialize` -/
def init (cw : CodecW) (w : Writer) : Writer × Option Err :=
  match w.err with
  | some e => (w, some e)
  | none =>
  if w.inited then (w, none) else
  if w.nilWriter then ({ w with err := some .invalidWriter }, some .invalidWriter) else
  if w.nilCodecWriter then ({ w with err := some .invalidCodecWriter }, some .invalidCodecWriter) else
  let w := { w with resourcesIDs := List.replicate w.resourcesData.length 0 }
  let (w, e) : Writer × Option Err :=
    if w.dChunkSizeCfg > 0 then ({ w with dChunkSize := w.dChunkSizeCfg }, none)
    else if w.cChunkSizeCfg > 0 then
      if !cw.canCut then
        ({ w with err := some .codecWriterDoesNotSupportCChunkSize }, some .codecWriterDoesNotSupportCChunkSize)
      else
        ({ w with cChunkSize := if w.cChunkSizeCfg > maxCChunkSize then maxCChunkSize else w.cChunkSizeCfg }, none)
    else ({ w with dChunkSize := defaultDChunkSize }, none)
  if e.isSome then (w, e) else
  ({ w with inited := true,
            chunkWriter := { w.chunkWriter with
              nilWriter := false, indexAtStart := w.indexAtStart,
              tempKind := w.tempKind, cPageSize := w.cPageSize } }, none)

/-- `useResource` (REPAIRED bound: `len(w.resourcesIDs) <= i`) -/
def useResource (cw : CodecW) (w : Writer) (i : Int) : Writer × Nat × Option Err :=
  if i < 0 || (w.resourcesIDs.length : Int) ≤ i then (w, 0, none) else
  let i := i.toNat
  let id := w.resourcesIDs.getD i 0
  if id != 0 then (w, id, none) else
  match cw.wrapResource (w.resourcesData.getD i []) with
  | .error e => ({ w with err := some e }, 0, some e)
  | .ok wrapped =>
    let (c, id, e) := w.chunkWriter.addResource wrapped
    let w := { w with chunkWriter := c }
    match e with
    | some e => ({ w with err := some e }, 0, some e)
    | none => ({ w with resourcesIDs := w.resourcesIDs.set i id }, id, none)

/-- `Compress` + the two `useResource` calls, shared by `writeDChunks` and `tryCChunk` -/
def compressAndUse (cw : CodecW) (w : Writer) (peek0 peek1 : Bytes) :
    Writer × Except Err (CompressOut × Nat × Nat) :=
  match cw.compress peek0 peek1 w.resourcesData with
  | .error e => (w, .error e)
  | .ok out =>
    let (w, res2, e) := useResource cw w out.secondaryResource
    match e with
    | some e => (w, .error e)
    | none =>
      let (w, res3, e) := useResource cw w out.tertiaryResource
      match e with
      | some e => (w, .error e)
      | none => (w, .ok (out, res2, res3))

/-- `writeDChunks` (fuel: one unit per loop iteration; `length + 1` suffices) -/
def writeDChunks (cw : CodecW) (eof : Bool) : Nat → Writer → Writer × Option Err
  | 0, w => (w, some .fuel)
  | fuel + 1, w =>
    let (peek0, peek1) := w.uncompressed.peek w.dChunkSize
    let dSize := peek0.length + peek1.length
    if dSize == 0 then (w, none) else
    if !eof && dSize < w.dChunkSize then (w, none) else
    let peek1 := stripTrailingZeroes peek1
    let peek0 := if peek1.length == 0 then stripTrailingZeroes peek0 else peek0
    match compressAndUse cw w peek0 peek1 with
    | (w, .error e) => (w, some e)
    | (w, .ok (out, res2, res3)) =>
      let (c, e) := w.chunkWriter.addChunk dSize out.codec out.compressed res2 res3
      let w := { w with chunkWriter := c }
      match e with
      | some e => ({ w with err := some e }, some e)
      | none => writeDChunks cw eof fuel { w with uncompressed := w.uncompressed.advance dSize }

/-- result of `tryCChunk`: `nil`, `errInternalShortCSize` (an unexported sentinel that only
`tryCChunk` itself can produce, compared by identity in `writeCChunks`), or a real error -/
inductive TryResult where
  | ok
  | short
  | err (e : Err)

/-- `tryCChunk` -/
def tryCChunk (cw : CodecW) (w : Writer) (targetDChunkSize : Nat) (force : Bool) : Writer × TryResult :=
  let (peek0, peek1) := w.uncompressed.peek targetDChunkSize
  let dSize := peek0.length + peek1.length
  match compressAndUse cw w peek0 peek1 with
  | (w, .error e) => (w, .err e)
  | (w, .ok (out, res2, res3)) =>
    let cBytes := out.compressed
    if cBytes.length < w.cChunkSize && !force then (w, .short) else
    if cBytes.length ≤ w.cChunkSize then
      let u := w.uncompressed.advance dSize
      let (u, z) := u.advancePastLeadingZeroes
      let dSize := dSize + z
      let (c, e) := w.chunkWriter.addChunk dSize out.codec cBytes res2 res3
      let w := { w with chunkWriter := c, uncompressed := u }
      match e with
      | some e => ({ w with err := some e }, .err e)
      | none => (w, .ok)
    else
    match cw.cut out.codec cBytes w.cChunkSize with
    | .error e => ({ w with err := some e }, .err e)
    | .ok (cBytes, eLen, dLen) =>
      if dLen == 0 then ({ w with err := some .cChunkSizeIsTooSmall }, .err .cChunkSizeIsTooSmall) else
      let dSize := dLen
      let cBytes := cBytes.take eLen
      let u := w.uncompressed.advance dSize
      let (u, z) := u.advancePastLeadingZeroes
      let dSize := dSize + z
      let (c, e) := w.chunkWriter.addChunk dSize out.codec cBytes res2 res3
      let w := { w with chunkWriter := c, uncompressed := u }
      match e with
      | some e => ({ w with err := some e }, .err e)
      | none => (w, .ok)

/-- outcome of the inner `for` of `writeCChunks` -/
inductive InnerResult where
  | continueOuter
  | ret (e : Option Err)

/-- inner loop of `writeCChunks`: keeps doubling `targetDChunkSize` -/
def cChunkInner (cw : CodecW) : Nat → Writer → Nat → Writer × InnerResult
  | 0, w, _ => (w, .ret (some .fuel))
  | fuel + 1, w, targetDChunkSize =>
    let next := targetDChunkSize * 2
    let next := if next > maxTargetDChunkSize then maxTargetDChunkSize else next
    let force := decide (next ≤ targetDChunkSize)
    match tryCChunk cw w targetDChunkSize force with
    | (w, .ok) => (w, .continueOuter)
    | (w, .err e) => (w, .ret (some e))
    | (w, .short) =>
      if w.uncompressed.length ≤ targetDChunkSize then (w, .ret none) else
      cChunkInner cw fuel w next

/-- `writeCChunks` (fuel: one unit per chunk written; `length + 1` suffices) -/
def writeCChunks (cw : CodecW) (eof : Bool) : Nat → Writer → Writer × Option Err
  | 0, w => (w, some .fuel)
  | fuel + 1, w =>
    let targetDChunkSize := if !eof then startingTargetDChunkSize w.cChunkSize else maxTargetDChunkSize
    let n := w.uncompressed.length
    if n == 0 then (w, none) else
    if !eof && n < targetDChunkSize then (w, none) else
    match cChunkInner cw 64 w targetDChunkSize with
    | (w, .continueOuter) => writeCChunks cw eof fuel w
    | (w, .ret e) => (w, e)

/-- `write(eof)` -/
def write (cw : CodecW) (w : Writer) (eof : Bool) : Writer × Option Err :=
  if w.dChunkSize > 0 then writeDChunks cw eof (w.uncompressed.length + 1) w
  else writeCChunks cw eof (w.uncompressed.length + 1) w

/-- `Write(p)`: returns `(n, err)` -/
def Write (cw : CodecW) (w : Writer) (p : Bytes) : Writer × Nat × Option Err :=
  let (w, e) := w.init cw
  if e.isSome then (w, 0, e) else
  let n := p.length
  if n > maxSize || w.uncompressed.length > maxSize - n then
    ({ w with err := some .tooMuchInput }, 0, some .tooMuchInput) else
  match w.uncompressed.extend p with
  | none => (w, 0, some .fuel)   -- Go: panic("inconsistent writeBuffer state"); unreachable (curr is empty between calls)
  | some u =>
    let w := { w with uncompressed := u }
    let (w, e) := w.write cw false
    let w := { w with uncompressed := w.uncompressed.compact }
    match e with
    | some e => (w, 0, some e)
    | none => (w, n, none)

/-- `if err := w.initialize(); w.err == nil { w.err = err }` -/
def closeStep1 (cw : CodecW) (w : Writer) : Writer :=
  let (w, e) := w.init cw
  if w.err.isNone then { w with err := e } else w

/-- `if w.err == nil { w.err = w.write(true) }` -/
def closeStep2 (cw : CodecW) (w : Writer) : Writer :=
  if w.err.isNone then
    let (w, e) := w.write cw true
    { w with err := e }
  else w

/-- `if w.err == nil { w.err = w.chunkWriter.Close() }` -/
def closeStep3 (w : Writer) : Writer :=
  if w.err.isNone then
    let (c, e) := w.chunkWriter.close
    { w with chunkWriter := c, err := e }
  else w

/-- `if w.CodecWriter == nil {} else if err := w.CodecWriter.Close(); w.err == nil { w.err = err }`
(REPAIRED, fixes/C13-nil-codecwriter-close.patch: the pinned code called `Close` on the nil
interface and panicked, although `initialize` had just recorded `errInvalidCodecWriter`). -/
def closeStep4 (cw : CodecW) (w : Writer) : Writer :=
  if w.nilCodecWriter then w else
  if w.err.isNone then { w with err := cw.close } else w

/-- `Close()` -/
def Close (cw : CodecW) (w : Writer) : Writer × Option Err :=
  if w.closed then (w, w.err) else
  let w := closeStep4 cw (closeStep3 (closeStep2 cw (closeStep1 cw { w with closed := true })))
  if w.err.isNone then ({ w with err := some .alreadyClosed }, none)
  else (w, w.err)

end Writer
end WuffsVerif.Rac
