/-
The HARNESS codec: a deterministic, cuttable toy codec used to instantiate the
abstract `CodecW` in the driver, implemented identically in Go
(/verif/harness/cmd/c13/hcodec.go) as a `rac.CodecWriter`/`rac.CodecReader`, so
that whole-writer outputs of the real `rac.Writer` are byte-identical to the
model's.  Core Lean only.

Chunk format:  `u32le n`  then `n` bytes of tokens, where a token is either a
non-zero literal byte, or `00 k` standing for `k+1` zero bytes (run-length
coding of zeroes only, so that zero-heavy payloads compress and the
`targetDChunkSize` doubling of `writeCChunks` is exercised).
Resource wrapper:  `u32le len`  then the raw bytes.
-/
import WuffsVerif.Model.Rac.Writer

namespace WuffsVerif.Rac.HCodec

def u32le (n : Nat) : Bytes :=
  [UInt8.ofNat n, UInt8.ofNat (n >>> 8), UInt8.ofNat (n >>> 16), UInt8.ofNat (n >>> 24)]

def getU32le (b : Bytes) : Nat :=
  (b.getD 0 0).toNat + (b.getD 1 0).toNat * 256 + (b.getD 2 0).toNat * 65536 + (b.getD 3 0).toNat * 16777216

/-- tokens for a run of `z` zeroes, pushed in reverse onto `acc` -/
def zeroRunRev : Nat → Nat → Bytes → Bytes
  | 0, _, acc => acc
  | fuel + 1, z, acc =>
    if z == 0 then acc else
    let k := if z > 256 then 256 else z
    zeroRunRev fuel (z - k) (UInt8.ofNat (k - 1) :: 0 :: acc)

/-- encoder (tail recursive; `acc` is the reversed output, `z` the number of pending zeroes) -/
def encodeAux : Bytes → Nat → Bytes → Bytes
  | [], z, acc => (zeroRunRev z z acc).reverse
  | x :: xs, z, acc =>
    if x == 0 then encodeAux xs (z + 1) acc
    else encodeAux xs 0 (x :: zeroRunRev z z acc)

def encodeTokens (data : Bytes) : Bytes := encodeAux data 0 []

/-- decoder of a token string (tail recursive; `acc` is the reversed output);
`none` on a truncated `00 k` token -/
def decodeAux : Bytes → Bytes → Option Bytes
  | [], acc => some acc.reverse
  | x :: xs, acc =>
    if x != 0 then decodeAux xs (x :: acc)
    else match xs with
      | [] => none
      | k :: rest => decodeAux rest (List.replicate (k.toNat + 1) 0 ++ acc)

def decodeTokens (toks : Bytes) : Option Bytes := decodeAux toks []

/-- full chunk decoder: header then tokens; trailing bytes are ignored -/
def decompress (chunk : Bytes) : Option Bytes :=
  if chunk.length < 4 then none else
  let n := getU32le chunk
  let body := chunk.drop 4
  if body.length < n then none else decodeTokens (body.take n)

/-- walk whole tokens while they fit in `budget` bytes: (encoded bytes used, decoded bytes) -/
def cutWalk : Bytes → Nat → Nat → Nat → Nat × Nat
  | [], _, e, d => (e, d)
  | x :: xs, budget, e, d =>
    if x != 0 then
      if budget ≥ 1 then cutWalk xs (budget - 1) (e + 1) (d + 1) else (e, d)
    else match xs with
      | [] => (e, d)
      | k :: rest =>
        if budget ≥ 2 then cutWalk rest (budget - 2) (e + 2) (d + k.toNat + 1) else (e, d)

structure Variant where
  codec : Nat
  /-- may return the out-of-range resource index `len(resourcesData)` ("no resource" by the interface's doc) -/
  oob : Bool
  canCut : Bool := true
  /-- the CodecWriter's `Close` fails -/
  failClose : Bool := false

def resIndex (v : Variant) (b : UInt8) (nres : Nat) : Int :=
  let m := if v.oob then nres + 2 else nres + 1
  ((b.toNat % m : Nat) : Int) - 1

/-- `Compress` -/
def compress (v : Variant) (p q : Bytes) (resources : List Bytes) : Except Err CompressOut :=
  let data := p ++ q
  let toks := encodeTokens data
  let idx2 : Int := match data.head? with
    | none => -1
    | some b => resIndex v b resources.length
  let idx3 : Int := match data.head? with
    | none => -1
    | some b => resIndex v (b >>> 4) resources.length
  .ok { codec := v.codec, compressed := u32le toks.length ++ toks, secondaryResource := idx2, tertiaryResource := idx3 }

/-- `Cut` -/
def cut (v : Variant) (codec : Nat) (encoded : Bytes) (maxEncodedLen : Nat) : Except Err (Bytes × Nat × Nat) :=
  if codec != v.codec then .error (.codec 2) else
  if maxEncodedLen < 4 || encoded.length < 4 then .error (.codec 1) else
  let n := getU32le encoded
  let (e, d) := cutWalk ((encoded.drop 4).take n) (maxEncodedLen - 4) 0 0
  .ok (u32le e ++ encoded.drop 4, 4 + e, d)

/-- `WrapResource` -/
def wrapResource (raw : Bytes) : Except Err Bytes := .ok (u32le raw.length ++ raw)

def codecW (v : Variant) : CodecW :=
  { compress := compress v, canCut := v.canCut, cut := cut v, wrapResource := wrapResource,
    close := if v.failClose then some (.codec 3) else none }

end WuffsVerif.Rac.HCodec
