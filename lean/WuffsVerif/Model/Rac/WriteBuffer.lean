/-
Model of `writeBuffer` in /repo/lib/rac/writer.go (C13), function by function.
Core Lean only.

A `writeBuffer` is the byte queue `prev[p:] ++ curr`.  The model is written for
the REPAIRED `advancePastLeadingZeroes` (fixes/C13-advance-past-zeroes.patch);
the code as found in the pinned tree is kept as `advancePastLeadingZeroesOrig`
so that the defect can be stated (`Props/C13.lean`, `orig_apz_witness`).
-/
namespace WuffsVerif.Rac

abbrev Bytes := List UInt8

/-- `stripTrailingZeroes` (writer.go): `b[:n]` for the least `n` such that `b[n:]` is all zero. -/
def stripTrailingZeroes (b : Bytes) : Bytes :=
  (b.reverse.dropWhile (· == 0)).reverse

/-- number of leading `0x00` bytes (the `for ; i < len && b[i] == 0; i++` loops) -/
def countLeadingZeroes (b : Bytes) : Nat := (b.takeWhile (· == 0)).length

/-- `type writeBuffer struct { prev, curr []byte; p int }` -/
structure WBuf where
  prev : Bytes := []
  curr : Bytes := []
  p : Nat := 0
deriving Repr, DecidableEq, Inhabited

namespace WBuf

/-- the byte queue a `writeBuffer` stands for: `prev[p:] ++ curr` -/
def abs (b : WBuf) : Bytes := b.prev.drop b.p ++ b.curr

/-- representation invariant (`b.p` is a valid slice index of `b.prev`) -/
def WF (b : WBuf) : Prop := b.p ≤ b.prev.length

instance (b : WBuf) : Decidable b.WF := inferInstanceAs (Decidable (b.p ≤ b.prev.length))

/-- `extend`: `none` models `panic("inconsistent writeBuffer state")`. -/
def extend (b : WBuf) (curr : Bytes) : Option WBuf :=
  if b.curr.length != 0 then none else some { b with curr := curr }

/-- `length` -/
def length (b : WBuf) : Nat := (b.prev.length - b.p) + b.curr.length

/-- `peek` -/
def peek (b : WBuf) (n : Nat) : Bytes × Bytes :=
  let available := b.prev.length - b.p
  if n ≤ available then
    ((b.prev.drop b.p).take n, [])
  else
    let n := n - available
    if n ≤ b.curr.length then
      (b.prev.drop b.p, b.curr.take n)
    else
      (b.prev.drop b.p, b.curr)

/-- Go's `advance` panics (slice bounds) when `n > b.length()`. -/
def advanceOk (b : WBuf) (n : Nat) : Bool := decide (n ≤ b.length)

/-- `advance` (meaningful when `advanceOk b n`) -/
def advance (b : WBuf) (n : Nat) : WBuf :=
  let available := b.prev.length - b.p
  if n ≤ available then
    { b with p := b.p + n }
  else
    let n := n - available
    { b with curr := b.curr.drop n, p := b.prev.length }

/-- `advancePastLeadingZeroes`, REPAIRED: after the scan of `prev`, go on to
`curr` only if `prev` is exhausted (and do so also when `prev[p:]` was empty). -/
def advancePastLeadingZeroes (b : WBuf) : WBuf × Nat :=
  -- Consume zeroes from b.prev.
  let k := countLeadingZeroes (b.prev.drop b.p)
  let i := b.p + k
  if i < b.prev.length then
    ({ b with p := i }, k)
  else
    -- Consume zeroes from b.curr.
    let j := countLeadingZeroes b.curr
    ({ b with p := i, curr := b.curr.drop j }, k + j)

/-- `advancePastLeadingZeroes` as found in the pinned tree (defective):
returns 0 when `prev[p:]` has no leading zero, otherwise scans `curr` too even
when non-zero bytes remain in `prev`. -/
def advancePastLeadingZeroesOrig (b : WBuf) : WBuf × Nat :=
  let k := countLeadingZeroes (b.prev.drop b.p)
  let i := b.p + k
  if i == b.p then
    (b, 0)
  else
    let j := countLeadingZeroes b.curr
    ({ b with p := i, curr := b.curr.drop j }, k + j)

/-- `compact` -/
def compact (b : WBuf) : WBuf :=
  { prev := b.prev.drop b.p ++ b.curr, curr := [], p := 0 }

end WBuf
end WuffsVerif.Rac
