/-
Model of /repo/lib/internal/racdict/racdict.go (the RAC "common dictionary format": `Saver.WrapResource`,
`Saver.Compress`, `Loader.Load`) and of the `refine` steps of lib/raczlib/raczlib.go and lib/raczstd/raczstd.go
(C13: the "shared resources" dimension with the real codecs; writer side plus a cache-free `Loader.Load` over the
bytes of the secondary CRange — C15's `Model/Rac/Dict.lean` models the reader's Loader with its cache).  Core Lean only.

The codec's own `compress(p, q, dict)` is a parameter: what is modelled is *which dictionary bytes* the
compressor is given, which bytes are stored in the RAC file, and which bytes the reader's `Loader` hands to the
decompressor.  `Saver.stash` (the copy that protects the best candidate from being clobbered by the next
`compress` call) is value semantics here; the harness drives the real `Saver.Compress` with a `compress`
function that reuses one buffer, so a missing copy shows as a difference.
-/
import WuffsVerif.Model.Rac.ChunkWriter

namespace WuffsVerif.Rac.DictW

/-- `racdict.MaxInclLength` -/
def maxInclLength : Nat := 2 ^ 30 - 1

/-- `lastN n b`: `b[len(b)-n:]` if `len(b) > n`, else `b` -/
def lastN (n : Nat) (b : Bytes) : Bytes := if b.length > n then b.drop (b.length - n) else b

/-- `raczlib.refine`: the last 32 KiB -/
def refineZlib (b : Bytes) : Bytes := lastN 32768 b
/-- `raczstd.refine`: the last `MaxInclLength` bytes -/
def refineZstd (b : Bytes) : Bytes := lastN maxInclLength b

inductive DErr where
  | dictionaryIsTooLong
  | invalidDictionary
  /-- an error of the codec's own `compress` -/
  | codec
deriving DecidableEq, Repr, Inhabited

/-- 4 bytes little-endian (`wrapped[0..3] = uint8(len >> 0) …`) -/
def putU32LE (v : Nat) : Bytes :=
  [UInt8.ofNat v, UInt8.ofNat (v >>> 8), UInt8.ofNat (v >>> 16), UInt8.ofNat (v >>> 24)]

/-- `u32LE` -/
def u32LE (b : Bytes) : Nat :=
  (b.getD 0 0).toNat ||| ((b.getD 1 0).toNat <<< 8) ||| ((b.getD 2 0).toNat <<< 16) ||| ((b.getD 3 0).toNat <<< 24)

/-- `Saver.WrapResource(raw, refineResourceData)` -/
def wrapResource (refine : Bytes → Bytes) (raw : Bytes) : Except DErr Bytes :=
  let refined := refine raw
  if refined.length > maxInclLength then .error .dictionaryIsTooLong else
  .ok (putU32LE refined.length ++ refined ++ putU32LE (crc32 refined).toNat)

/-- `Loader.Load(rs, chunk)` without the MRU cache, on the bytes of `chunk.CSecondary` (a range inside the
file, so no read error): `terNonEmpty` is `!chunk.CTertiary.Empty()`, `ttag` is `chunk.TTag`.
`.ok []` is Go's `nil, nil`: no dictionary. -/
def load (sec : Bytes) (terNonEmpty : Bool) (ttag : Nat) : Except DErr Bytes :=
  if terNonEmpty then .error .invalidDictionary else
  if sec.length == 0 then .ok [] else
  if sec.length < 8 || ttag != 0xFF then .error .invalidDictionary else
  let dictSize := u32LE (sec.take 4)
  if dictSize >>> 30 != 0 then .error .invalidDictionary else
  if dictSize + 8 > sec.length then .error .invalidDictionary else
  let buffer := (sec.drop 4).take (dictSize + 4)
  let dict := buffer.take dictSize
  let checksum := buffer.drop dictSize
  if u32LE checksum != (crc32 dict).toNat then .error .invalidDictionary else
  .ok dict

/-- the `for i, resourceData := range resourcesData` loop of `Saver.Compress`: `i` is the index of the head
of the list, `best` is `compressed`, `sec` is `secondaryResource` -/
def compressLoop (compress : Bytes → Bytes → Bytes → Except DErr Bytes) (refine : Bytes → Bytes)
    (p q : Bytes) (threshold : Nat) : List Bytes → Nat → Bytes → Int → Except DErr (Bytes × Int)
  | [], _, best, sec => .ok (best, sec)
  | r :: rs, i, best, sec =>
    let refined := refine r
    if refined.length > maxInclLength then .error .dictionaryIsTooLong else
    match compress p q refined with
    | .error e => .error e
    | .ok candidate =>
      if candidate.length ≥ threshold || candidate.length ≥ best.length then
        compressLoop compress refine p q threshold rs (i + 1) best sec
      else
        compressLoop compress refine p q threshold rs (i + 1) candidate i

/-- `Saver.Compress(p, q, resourcesData, codec, compress, refineResourceData)`: the compressed bytes and
`secondaryResource` (`-1` = `rac.NoResourceUsed`); `tertiaryResource` is always `NoResourceUsed` and the codec
is passed through. -/
def saverCompress (compress : Bytes → Bytes → Bytes → Except DErr Bytes) (refine : Bytes → Bytes)
    (p q : Bytes) (resourcesData : List Bytes) : Except DErr (Bytes × Int) :=
  match compress p q [] with
  | .error e => .error e
  | .ok baseline =>
    if resourcesData.length == 0 || baseline.length < 256 then .ok (baseline, -1) else
    compressLoop compress refine p q ((baseline.length / 64) * 63) resourcesData 0 baseline (-1)

end WuffsVerif.Rac.DictW
