/-
C15 — executable model of `lib/rac/chunk_reader.go` (the REPAIRED code: see
/verif/fixes/C15-*.patch), function by function.  Core Lean only.

Conventions
* A RAC file is a `File`: the number of bytes that really exist (`size`) and a byte
  function.  The *claimed* size (`ChunkReader.CompressedSize`) is a separate input.
  A `ReadFull` of `n` bytes at offset `off` succeeds iff `off + n ≤ size`; otherwise it
  is `io.ErrUnexpectedEOF` (`readFull` in the repaired code maps `io.EOF` to that).
* The Go reader copies a node into `currNode [4096]byte`; only the first `size` bytes
  are fresh, the rest is stale data of earlier loads.  A `Node` is a *view* of the
  (immutable) file, `size` bytes at `off`, plus `stale`: what a read at an index
  `≥ size` returns.  The model driver uses `stale = 0`; Props/C15 proves that no
  result depends on `stale` (and that every index is `< 4096`).
* Go `int64`/`uint64` values are `Nat` here.  Props/C15 proves that every value stays
  `< 2^63` and that no subtraction below goes negative on nodes that passed `valid`.
* Loops are structural on a fuel argument.  `Outcome.fuel` / `NextResult.spin` mean "the
  Go loop would still be running"; Props/C15 proves they never happen.
-/
namespace WuffsVerif.Rac.ChunkReader

/-! ## Files and nodes -/

structure File where
  size : Nat
  byte : Nat → Nat

/-- The byte at offset `i` (meaningful when `i < size`). -/
def File.at (f : File) (i : Nat) : Nat := f.byte i % 256

def File.ofByteArray (b : ByteArray) : File :=
  { size := b.size, byte := fun i => (b.get! i).toNat }

def File.ofList (l : List Nat) : File :=
  { size := l.length, byte := fun i => l.getD i 0 }

/-- `nodeSize(arity)` -/
def nodeSize (arity : Nat) : Nat := 16 * arity + 16

/-- `rNode`: `size` fresh bytes of `file` at `off`; `stale i` beyond. -/
structure Node where
  file : File
  off : Nat
  size : Nat
  stale : Nat → Nat := fun _ => 0

/-- `b[i]` -/
def Node.rd (n : Node) (i : Nat) : Nat :=
  if i < n.size then n.file.at (n.off + i) else n.stale i % 256

/-- `u48LE(b[i:])` (reads 8 bytes in Go; the top two are masked off). -/
def Node.u48 (n : Node) (i : Nat) : Nat :=
  n.rd i + 256 * (n.rd (i + 1) + 256 * (n.rd (i + 2) + 256 * (n.rd (i + 3) +
    256 * (n.rd (i + 4) + 256 * n.rd (i + 5)))))

/-- low 56 bits of `u64LE(b[i:])` -/
def Node.u56 (n : Node) (i : Nat) : Nat :=
  n.u48 i + 2 ^ 48 * n.rd (i + 6)

/-- `arity()` = `int(b[3])` -/
def Node.arity (n : Node) : Nat := n.rd 3

def Node.codecByte (n : Node) : Nat := n.rd (8 * n.arity + 7)
/-- `codecHasMixBit()` -/
def Node.codecHasMixBit (n : Node) : Bool := n.codecByte &&& 0x40 != 0
/-- `cPtrMax()` -/
def Node.cPtrMax (n : Node) : Nat := n.u48 (16 * n.arity + 8)
/-- `dPtrMax()` -/
def Node.dPtrMax (n : Node) : Nat := n.u48 (8 * n.arity)
/-- `version()` -/
def Node.version (n : Node) : Nat := n.rd (16 * n.arity + 14)
/-- `tTag(i)` -/
def Node.tTag (n : Node) (i : Nat) : Nat := n.rd (8 * i + 7)
/-- `sTag(i)` -/
def Node.sTag (n : Node) (i : Nat) : Nat := n.rd (8 * n.arity + 15 + 8 * i)
/-- `cLen(i)` -/
def Node.cLen (n : Node) (i : Nat) : Nat := n.rd (8 * n.arity + 14 + 8 * i)
/-- `CPtr[i]`: `cOff(i, cBias) = cBias + cPtr i` -/
def Node.cPtr (n : Node) (i : Nat) : Nat := n.u48 (8 * n.arity + 8 + 8 * i)
/-- `DPtr[i]`: `dOff(i, dBias) = dBias + dPtr i`; `DPtr[0]` is implicitly zero. -/
def Node.dPtr (n : Node) (i : Nat) : Nat := if i = 0 then 0 else n.u48 (8 * i)
/-- `dSize(i)` -/
def Node.dSize (n : Node) (i : Nat) : Nat := n.u48 (8 * i + 8) - n.dPtr i
/-- `isLeaf(i)` -/
def Node.isLeaf (n : Node) (i : Nat) : Bool := n.tTag i != 0xFE

/-! ## Codec (rac.go, chunk_reader.go `codec`) -/

def codecInvalid : Nat := 2 ^ 64 - 1

/-- `Codec.Valid` -/
def codecValid (c : Nat) : Bool :=
  if c >>> 63 = 0 then ((c <<< 8) % 2 ^ 64 == 0) && (c >>> 62 == 0)
  else c >>> 56 == 0x80

/-- the `for j := uint8(0); j < 4; j++` loop of `codec`, from `j` on -/
def Node.longCodecFrom (n : Node) (c64 : Nat) : Nat → Nat → Nat
  | 0, _ => codecInvalid
  | fuel + 1, j =>
    let i := c64 ||| (j <<< 6)
    if i < n.arity && n.tTag i == 0xFD then
      n.u56 (8 * n.arity + 8 + 8 * i) + 2 ^ 63
    else n.longCodecFrom c64 fuel (j + 1)

/-- `codec()` -/
def Node.codec (n : Node) : Nat :=
  let cByte := n.codecByte
  if cByte &&& 0x80 = 0 then (cByte &&& 0x3F) * 2 ^ 56
  else n.longCodecFrom (cByte &&& 0x3F) 4 0

/-- `parentChildCodecsValid` -/
def parentChildCodecsValid (parent child : Nat) (parentHasMixBit : Bool) : Bool :=
  parent == child || parentHasMixBit

/-! ## CRC-32/IEEE (hash/crc32.ChecksumIEEE), bit-serial, on `Nat` -/

def crcBits : Nat → Nat → Nat
  | 0, c => c
  | k + 1, c => crcBits k (if c % 2 = 1 then (c >>> 1) ^^^ 0xEDB88320 else c >>> 1)

def crcStep (c b : Nat) : Nat := crcBits 8 (c ^^^ b)

/-- CRC register after the bytes `rd lo .. rd (lo+len-1)` -/
def crcRange (rd : Nat → Nat) : Nat → Nat → Nat → Nat
  | 0, _, c => c
  | len + 1, lo, c => crcRange rd len (lo + 1) (crcStep c (rd lo))

/-- `crc32.ChecksumIEEE(b[lo:hi])` -/
def Node.crc32 (n : Node) (lo hi : Nat) : Nat :=
  (crcRange n.rd (hi - lo) lo 0xFFFFFFFF) ^^^ 0xFFFFFFFF

/-! ## `valid` -/

/-- clause: reserved bytes are zero and TTags avoid `[0xC0, 0xFD)` -/
def Node.reservedOk (n : Node) (i : Nat) : Bool :=
  n.rd (8 * i + 6) == 0 && !(0xC0 ≤ n.tTag i && n.tTag i < 0xFD)

/-- clause (repaired: C15-codec-element-drange): `DPtr[i] ≤ DPtr[i+1]`, and a non-empty
element is not a `0xFD` Codec Element.  Go iterates `i+1` over `1 ..= arity`. -/
def Node.dPtrOk (n : Node) (i : Nat) : Bool :=
  n.dPtr i ≤ n.dPtr (i + 1) && (n.dPtr i == n.dPtr (i + 1) || n.tTag i != 0xFD)

/-- clause: `CPtr[i] ≤ CPtrMax` unless a `0xFD` Codec Element -/
def Node.cPtrOk (n : Node) (i : Nat) : Bool :=
  n.cPtr i ≤ n.cPtrMax || n.tTag i == 0xFD

def Node.checksumOk (n : Node) : Bool :=
  let c := n.crc32 6 (nodeSize n.arity)
  let c := c ^^^ (c >>> 16)
  n.rd 4 == c % 256 && n.rd 5 == (c >>> 8) % 256

/-- `rNode.valid` -/
def Node.valid (n : Node) : Bool :=
  let a := n.arity
  n.rd 0 == 0x72 && n.rd 1 == 0xC3 && n.rd 2 == 0x63 && a != 0 &&
  n.rd 3 == n.rd (nodeSize a - 1) &&
  (List.range a).all n.reservedOk &&
  (List.range a).any (fun i => n.tTag i != 0xFD) &&
  n.rd (8 * a + 6) == 0 &&
  (List.range a).all n.dPtrOk &&
  (List.range a).all n.cPtrOk &&
  n.version != 0 &&
  n.checksumOk &&
  codecValid n.codec

/-! ## Chunks -/

structure Chunk where
  dLo : Nat
  dHi : Nat
  cpLo : Nat
  cpHi : Nat
  csLo : Nat
  csHi : Nat
  ctLo : Nat
  ctHi : Nat
  sTag : Nat
  tTag : Nat
  codec : Nat
deriving DecidableEq, Repr

/-- `cOffRange(i, cBias)` -/
def Node.cOffRange (n : Node) (i cBias : Nat) : Nat × Nat :=
  let m := cBias + n.cPtrMax
  if i ≥ n.arity then (m, m)
  else
    let cOff := cBias + n.cPtr i
    let m := if n.cLen i != 0 then (if m > cOff + n.cLen i * 1024 then cOff + n.cLen i * 1024 else m) else m
    (cOff, m)

/-- `chunk(i, cBias, dBias)` -/
def Node.chunk (n : Node) (i cBias dBias : Nat) : Chunk :=
  let s := n.sTag i
  let t := n.tTag i
  let p := n.cOffRange i cBias
  let q := n.cOffRange s cBias
  let r := n.cOffRange t cBias
  { dLo := dBias + n.dPtr i, dHi := dBias + n.dPtr (i + 1),
    cpLo := p.1, cpHi := p.2, csLo := q.1, csHi := q.2, ctLo := r.1, ctHi := r.2,
    sTag := s, tTag := t, codec := n.codec }

/-! ## `findChunkContaining` -/

/-- the binary-search loop; returns the final `lo` -/
def Node.bsearch (n : Node) (dOff dBias : Nat) : Nat → Nat → Nat → Nat
  | 0, lo, _ => lo
  | fuel + 1, lo, hi =>
    if lo < hi then
      let mid := (lo + hi) / 2
      if dBias + n.dPtr mid ≤ dOff then n.bsearch dOff dBias fuel (mid + 1) hi
      else n.bsearch dOff dBias fuel lo mid
    else lo

/-- `findChunkContaining(dOff, dBias)`; `none` = the Go code panics. -/
def Node.findChunkContaining (n : Node) (dOff dBias : Nat) : Option Nat :=
  let lo := n.bsearch dOff dBias (n.arity + 1) 0 n.arity
  if lo ≤ 0 then none else some (lo - 1)

/-! ## Errors, reader state -/

inductive Err
  | badCSize      -- errInvalidCompressedSize
  | noMagic       -- errInvalidInputMissingMagicBytes
  | noRoot        -- errInvalidInputMissingRootNode
  | badNode       -- errInvalidIndexNode
  | badVersion    -- errUnsupportedRACFileVersion
  | negSeek       -- errSeekToNegativePosition
  | ueof          -- io.ErrUnexpectedEOF (short underlying file)
  | internalArity -- errInternalInconsistentArity
  | panic         -- a Go run-time panic
deriving DecidableEq, Repr

def Err.word : Err → String
  | .badCSize => "bad-csize" | .noMagic => "no-magic" | .noRoot => "no-root"
  | .badNode => "bad-node" | .badVersion => "bad-version" | .negSeek => "neg-seek"
  | .ueof => "ueof" | .internalArity => "internal-arity" | .panic => "panic"

/-- `Seek(off); readFull(n bytes)` -/
def File.canRead (f : File) (off n : Nat) : Bool := off + n ≤ f.size

/-- `load(cOffset, arity)`: the node is not checked. -/
def load (f : File) (cOffset arity : Nat) : Except Err Node :=
  if arity = 0 then .error .internalArity
  else if f.canRead cOffset (nodeSize arity) then
    .ok { file := f, off := cOffset, size := nodeSize arity }
  else .error .ueof

/-- `ChunkReader` (the fields that matter after `initialize`). -/
structure Reader where
  file : File
  csize : Nat
  err : Option Err
  rootOff : Nat
  rootArity : Nat
  dsize : Nat
  needResolve : Bool
  seekPos : Nat
  nextChunk : Nat
  cBias : Nat
  dBias : Nat
  node : Node

def Reader.failed (f : File) (e : Err) : Reader :=
  { file := f, csize := 0, err := some e, rootOff := 0, rootArity := 0, dsize := 0,
    needResolve := false, seekPos := 0, nextChunk := 0, cBias := 0, dBias := 0,
    node := { file := f, off := 0, size := 0 } }

/-- `tryRootNode(arity, fromEnd)`: `ok none` = not found here. -/
def tryRootNode (f : File) (csize arity : Nat) (fromEnd : Bool) : Except Err (Option (Nat × Node)) :=
  if arity = 0 then .ok none
  else if csize < nodeSize arity then .ok none
  else
    let cOffset := if fromEnd then csize - nodeSize arity else 0
    match load f cOffset arity with
    | .error e => .error e
    | .ok n =>
      -- repaired (C15-stale-root-arity): `currNode[3] != arity`
      if n.rd 3 != arity || !n.valid then .ok none
      else if n.cPtrMax != csize then .ok none
      else .ok (some (cOffset, n))

/-- `findRootNode` -/
def findRootNode (f : File) (csize : Nat) : Except Err (Nat × Node) :=
  if !f.canRead 0 4 then .error .ueof
  else if f.at 0 != 0x72 || f.at 1 != 0xC3 || f.at 2 != 0x63 then .error .noMagic
  else
    match tryRootNode f csize (f.at 3) false with
    | .error e => .error e
    | .ok (some r) => .ok r
    | .ok none =>
      if !f.canRead (csize - 1) 1 then .error .ueof
      else
        match tryRootNode f csize (f.at (csize - 1)) true with
        | .error e => .error e
        | .ok (some r) => .ok r
        | .ok none => .error .noRoot   -- repaired (C15-sticky-missing-root): sticky

/-- `initialize` (with `checkParameters`); `claimed` is the `CompressedSize` field. -/
def openReader (f : File) (claimed : Int) : Reader :=
  if claimed < 32 then Reader.failed f .badCSize
  else
    let csize := claimed.toNat
    match findRootNode f csize with
    | .error e => Reader.failed f e
    | .ok (off, n) =>
      if n.version != 1 then Reader.failed f .badVersion
      else
        { file := f, csize := csize, err := none, rootOff := off, rootArity := n.arity,
          dsize := n.dPtrMax, needResolve := true, seekPos := 0, nextChunk := 0,
          cBias := 0, dBias := 0, node := n }

/-- `DecompressedSize` -/
def Reader.decompressedSize (r : Reader) : Except Err Nat :=
  match r.err with
  | some e => .error e
  | none => .ok r.dsize

/-- `loadAndValidate` -/
def loadAndValidate (f : File) (csize cOffset parentCodec : Nat) (parentMix : Bool)
    (parentVersion parentCOffMax childCBias childDSize : Nat) : Except Err Node :=
  if csize - 4 < cOffset then .error .badNode   -- csize ≥ 32
  else if !f.canRead cOffset 4 then .error .ueof
  else
    let arity := f.at (cOffset + 3)
    if arity = 0 then .error .badNode
    else if csize < nodeSize arity || csize - nodeSize arity < cOffset then .error .badNode
    else
      match load f cOffset arity with
      | .error e => .error e
      | .ok n =>
        if !n.valid then .error .badNode
        else if !parentChildCodecsValid parentCodec n.codec parentMix
            || parentVersion < n.version
            || parentCOffMax < childCBias + n.cPtrMax
            || childDSize != n.dPtrMax then .error .badNode
        else .ok n

/-- where `resolveSeekPosition` ends -/
structure Landing where
  node : Node
  nextChunk : Nat
  cBias : Nat
  dBias : Nat
  /-- number of `loadAndValidate` calls made (not part of the Go state) -/
  loads : Nat

inductive Outcome (α : Type)
  | ok (a : α)
  | err (e : Err)
  | fuel

/-- the `for` loop of `resolveSeekPosition`, `node` at `cOffset` being `currNode` -/
def resolveLoop (f : File) (csize seekPos : Nat) :
    Nat → Node → Nat → Nat → Nat → Nat → Outcome Landing
  | 0, _, _, _, _, _ => .fuel
  | fuel + 1, node, cOffset, cBias, dBias, loads =>
    match node.findChunkContaining seekPos dBias with
    | none => .err .panic
    | some i =>
      if node.isLeaf i then .ok ⟨node, i, cBias, dBias, loads⟩
      else
        let parentCOffMax := cBias + node.cPtrMax
        let childCOffset := cBias + node.cPtr i
        let childCBias := if node.sTag i < node.arity then cBias + node.cPtr (node.sTag i) else cBias
        let childDBias := dBias + node.dPtr i
        let childDSize := node.dSize i
        -- repaired (C15-antiloop): the spec's "Search Within a Branch Node" rule
        if childCOffset ≥ cOffset && childDSize ≥ node.dPtrMax then .err .badNode
        else
          match loadAndValidate f csize childCOffset node.codec node.codecHasMixBit
              node.version parentCOffMax childCBias childDSize with
          | .error e => .err e
          | .ok child => resolveLoop f csize seekPos fuel child childCOffset childCBias childDBias (loads + 1)

/-- `resolveSeekPosition`.  Fuel `csize`: see `Props.C15.resolve_terminates`. -/
def Reader.resolve (r : Reader) : Outcome Landing :=
  match load r.file r.rootOff r.rootArity with
  | .error e => .err e
  | .ok root => resolveLoop r.file r.csize r.seekPos r.csize root r.rootOff 0 0 0

inductive Scan
  | found (r : Reader) (c : Chunk)
  | done (r : Reader)

/-- the inner `for n := arity; r.nextChunk < n;` loop of `NextChunk`
(repaired: C15-branch-as-chunk) -/
def scan : Nat → Reader → Scan
  | 0, r => .done r
  | fuel + 1, r =>
    if r.nextChunk < r.node.arity then
      let i := r.nextChunk
      if !r.node.isLeaf i && r.node.dSize i != 0 then
        .done { r with seekPos := r.dBias + r.node.dPtr i }
      else
        let c := r.node.chunk i r.cBias r.dBias
        let r' := { r with nextChunk := i + 1, seekPos := c.dHi }
        if c.dLo != c.dHi then .found r' c else scan fuel r'
    else .done r

inductive NextResult
  | chunk (c : Chunk)
  | eof
  | err (e : Err)
  | spin
deriving DecidableEq, Repr

/-- the `if r.needToResolveSeekPosition { … }` block at the top of the outer loop;
`error` = `NextChunk` returns here -/
def nextPre (r : Reader) : Except (Reader × NextResult) Reader :=
  if r.needResolve then
    if r.seekPos ≥ r.dsize then .error (r, .eof)
    else
      match { r with needResolve := false }.resolve with
      | .fuel => .error (r, .spin)
      | .err e => .error ({ r with needResolve := false, err := some e }, .err e)
      | .ok l =>
        .ok { r with needResolve := false, node := l.node, nextChunk := l.nextChunk,
                     cBias := l.cBias, dBias := l.dBias }
  else .ok r

/-- the outer `for` loop of `NextChunk` -/
def nextLoop : Nat → Reader → Reader × NextResult
  | 0, r => (r, .spin)
  | fuel + 1, r =>
    match nextPre r with
    | .error out => out
    | .ok r1 =>
      match scan (r1.node.arity + 1) r1 with
      | .found r' c => (r', .chunk c)
      | .done r' => nextLoop fuel { r' with needResolve := true }

/-- `NextChunk`.  Three rounds of the outer loop are enough (`Props.C15.next_terminates`). -/
def Reader.next (r : Reader) : Reader × NextResult :=
  match r.err with
  | some e => (r, .err e)
  | none => nextLoop 3 r

/-- `SeekToChunkContaining` -/
def Reader.seek (r : Reader) (d : Int) : Reader × Option Err :=
  match r.err with
  | some e => (r, some e)
  | none =>
    if d < 0 then ({ r with err := some .negSeek }, some .negSeek)
    else ({ r with needResolve := true, seekPos := d.toNat }, none)

end WuffsVerif.Rac.ChunkReader
