/-
An INDEPENDENT reader of RAC files, written from /repo/doc/spec/rac-spec.md
(section names are quoted below), not from lib/rac/chunk_reader.go.  It is the
"specification's structural validation" of property C13: it locates the root
node, validates every branch node it visits (all per-node and parent/child
rules, including the rule that rules out infinite loops), walks the tree depth
first and lists the leaf chunks with their DRange and three CRanges.
Core Lean only.
-/
import WuffsVerif.Model.Rac.WriteBuffer

namespace WuffsVerif.Rac.Spec

/-- which rule of the specification rejected the file -/
inductive Bad where
  | tooShort | magic | arityZero | arityMismatch | size | checksum | version | reserved
  | reservedTTag | noChild | longCodecMissing | dptrOrder | codecElementDRange | coffExceedsMax
  | rootCPtrMax | childCodec | childVersion | childCOffMax | childDOffMax | cRemaining | antiLoop
  | cRange | fuel | decompress | tooManyBytes
deriving DecidableEq, Repr, Inhabited

def Bad.word : Bad → String
  | .tooShort => "too-short" | .magic => "magic" | .arityZero => "arity-zero"
  | .arityMismatch => "arity-mismatch" | .size => "size" | .checksum => "checksum"
  | .version => "version" | .reserved => "reserved-byte" | .reservedTTag => "reserved-ttag"
  | .noChild => "no-child" | .longCodecMissing => "long-codec-missing" | .dptrOrder => "dptr-order"
  | .codecElementDRange => "codec-element-drange" | .coffExceedsMax => "coff-exceeds-max"
  | .rootCPtrMax => "root-cptrmax" | .childCodec => "child-codec" | .childVersion => "child-version"
  | .childCOffMax => "child-coffmax" | .childDOffMax => "child-doffmax" | .cRemaining => "c-remaining"
  | .antiLoop => "anti-loop" | .cRange => "crange" | .fuel => "fuel" | .decompress => "decompress"
  | .tooManyBytes => "too-many-bytes"

/-- little-endian `uint64_t` at byte offset `off` of `b` -/
def u64At (b : Bytes) (off : Nat) : Nat :=
  ((b.drop off).take 8).foldr (fun x acc => x.toNat + 256 * acc) 0

def low48 (v : Nat) : Nat := v % 2 ^ 48
def byte6 (v : Nat) : Nat := (v >>> 48) % 256
def byte7 (v : Nat) : Nat := (v >>> 56) % 256

/-- CRC-32 IEEE, written here independently of the writer model (bitwise, reflected 0xEDB88320). -/
def crcByte (crc : Nat) (b : UInt8) : Nat :=
  let step (c : Nat) : Nat := if c % 2 == 1 then (c / 2) ^^^ 0xEDB88320 else c / 2
  step (step (step (step (step (step (step (step (crc ^^^ b.toNat))))))))
def crc32 (bs : Bytes) : Nat := (bs.foldl crcByte 0xFFFFFFFF) ^^^ 0xFFFFFFFF

/-- a parsed and (per-node) validated Branch Node -/
structure Branch where
  cOffset : Nat          -- Branch COffset
  cBias : Nat
  dBias : Nat
  arity : Nat
  dptr : Array Nat       -- DPtr[0 .. Arity], DPtr[0] = 0
  ttag : Array Nat       -- TTag[0 .. Arity)
  cptr : Array Nat       -- CPtr[0 .. Arity]
  clen : Array Nat       -- CLen[0 .. Arity)
  stag : Array Nat       -- STag[0 .. Arity)
  codecByte : Nat
  version : Nat
  /-- `Codec`: Short: the low 6 bits of the Codec Byte, `<<< 56`; Long: 2^63 + the 7 bytes of the Codec Element -/
  codec : Nat
deriving Repr, Inhabited

def Branch.mixBit (b : Branch) : Bool := b.codecByte &&& 0x40 != 0
def Branch.dPtrMax (b : Branch) : Nat := b.dptr.getD b.arity 0
def Branch.cOffMax (b : Branch) : Nat := b.cBias + b.cptr.getD b.arity 0
def Branch.cOff (b : Branch) (i : Nat) : Nat := b.cBias + b.cptr.getD i 0
def Branch.dOff (b : Branch) (i : Nat) : Nat := b.dBias + b.dptr.getD i 0

/-- "Branch Nodes" + "Branch Node Validation": parse the `((Arity * 16) + 16)` bytes `node`
of a branch whose first byte is at `cOffset`. -/
def parseNode (node : Bytes) (cOffset cBias dBias : Nat) : Except Bad Branch := do
  if node.length < 32 then throw .tooShort
  if node.take 3 != [0x72, 0xC3, 0x63] then throw .magic
  let arity := (node.getD 3 0).toNat
  if arity == 0 then throw .arityZero
  let size := arity * 16 + 16
  if node.length != size then throw .size
  if (node.getD (size - 1) 0).toNat != arity then throw .arityMismatch
  -- Checksum: of the ((Arity * 16) + 10) bytes immediately after the Checksum.
  let ck := crc32 (node.drop 6)
  let ck16 := (ck % 65536) ^^^ (ck / 65536)
  if (node.getD 4 0).toNat + 256 * (node.getD 5 0).toNat != ck16 then throw .checksum
  let dseg (i : Nat) : Nat := u64At node (8 * i)
  let cseg (i : Nat) : Nat := u64At node (8 * (arity + 1) + 8 * i)
  let idx := List.range arity
  let dptr : Array Nat := ((0 :: (List.range' 1 arity).map fun i => low48 (dseg i))).toArray
  let ttag : Array Nat := (idx.map fun i => byte7 (dseg i)).toArray
  let cptr : Array Nat := ((List.range (arity + 1)).map fun i => low48 (cseg i)).toArray
  let clen : Array Nat := (idx.map fun i => byte6 (cseg i)).toArray
  let stag : Array Nat := (idx.map fun i => byte7 (cseg i)).toArray
  -- Reserved (0) bytes.
  if (List.range (arity + 1)).any (fun i => byte6 (dseg i) != 0) then throw .reserved
  let codecByte := byte7 (dseg arity)
  let version := byte6 (cseg arity)
  -- "Version must have the value 0x01"
  if version != 1 then throw .version
  -- TTags: reserved zone; at least one child Node (not just Codec Element attributes).
  if ttag.any (fun t => 0xC0 ≤ t && t < 0xFD) then throw .reservedTTag
  if ttag.all (fun t => t == 0xFD) then throw .noChild
  -- Codec.
  let codec ← (
    if codecByte &&& 0x80 == 0 then pure ((codecByte &&& 0x3F) <<< 56)
    else
      let c64 := codecByte &&& 0x3F
      match [c64, c64 + 64, c64 + 128, c64 + 192].find? (fun i => i < arity && ttag.getD i 0 == 0xFD) with
      | none => throw Bad.longCodecMissing
      | some i => pure (2 ^ 63 + cseg i % 2 ^ 56))
  -- DOff values are sorted; a Codec Element's DRange is empty.
  if idx.any (fun a => dptr.getD a 0 > dptr.getD (a + 1) 0) then throw .dptrOrder
  if idx.any (fun a => ttag.getD a 0 == 0xFD && dptr.getD a 0 != dptr.getD (a + 1) 0) then
    throw .codecElementDRange
  -- Other than Codec Element attributes, COff values do not exceed COffMax.
  if idx.any (fun a => ttag.getD a 0 != 0xFD && cptr.getD a 0 > cptr.getD arity 0) then throw .coffExceedsMax
  return { cOffset, cBias, dBias, arity, dptr, ttag, cptr, clen, stag, codecByte, version, codec }

/-- `file[off .. off+len)` if in range -/
def slice (file : Array UInt8) (off len : Nat) : Option Bytes :=
  if off + len ≤ file.size then some (file.extract off (off + len)).toList else none

/-- load the branch node at `cOffset` -/
def loadBranch (file : Array UInt8) (cOffset cBias dBias : Nat) : Except Bad Branch :=
  if cOffset + 4 > file.size then .error .tooShort else
  let arity := (file.getD (cOffset + 3) 0).toNat
  match slice file cOffset (arity * 16 + 16) with
  | none => .error .size
  | some node => parseNode node cOffset cBias dBias

/-- "Root Node": first at the CFile start, and only if that fails at the CFile end. -/
def findRoot (file : Array UInt8) : Except Bad Branch :=
  let cFileSize := file.size
  if cFileSize < 32 then .error .tooShort else
  if file.extract 0 3 != #[0x72, 0xC3, 0x63] then .error .magic else
  let atStart : Except Bad Branch :=
    if (file.getD 3 0).toNat == 0 then .error .arityZero else
    match loadBranch file 0 0 0 with
    | .error e => .error e
    | .ok b => if b.cptr.getD b.arity 0 == cFileSize then .ok b else .error .rootCPtrMax
  match atStart with
  | .ok b => .ok b
  | .error _ =>
    let arity := (file.getD (cFileSize - 1) 0).toNat
    let size := arity * 16 + 16
    if arity == 0 then .error .arityZero else
    if cFileSize < size then .error .size else
    match loadBranch file (cFileSize - size) 0 0 with
    | .error e => .error e
    | .ok b => if b.cptr.getD b.arity 0 == cFileSize then .ok b else .error .rootCPtrMax

/-- a half-open range -/
structure Rng where
  lo : Nat
  hi : Nat
deriving DecidableEq, Repr, Inhabited

/-- a Leaf Node with a non-empty DRange -/
structure Chunk where
  dRange : Rng
  cPrimary : Rng
  cSecondary : Rng
  cTertiary : Rng
  stag : Nat
  ttag : Nat
  codec : Nat
deriving DecidableEq, Repr, Inhabited

/-- `MakeCRange(i)` -/
def makeCRange (b : Branch) (i : Nat) : Except Bad Rng :=
  if i ≥ b.arity then .ok ⟨b.cOffMax, b.cOffMax⟩ else
  let lo := b.cOff i
  let hi := if b.clen.getD i 0 == 0 then b.cOffMax else min b.cOffMax (lo + b.clen.getD i 0 * 1024)
  if lo > hi then .error .cRange else .ok ⟨lo, hi⟩

/-- "Search Within a Branch Node", for a Branch Node child `a` of `parent`:
load and validate the child against its parent. -/
def loadChild (file : Array UInt8) (parent : Branch) (a : Nat) : Except Bad Branch := do
  let subCOffset := parent.cOff a
  let st := parent.stag.getD a 0xFF
  let subCBias := if st < parent.arity then parent.cOff st else parent.cBias
  let subDBias := parent.dOff a
  let subDOffMax := parent.dOff (a + 1)
  -- CRemaining
  if parent.cOffMax < subCOffset + 4 then throw .cRemaining
  let cRemaining := parent.cOffMax - subCOffset
  let childArity := (file.getD (subCOffset + 3) 0).toNat
  if cRemaining < childArity * 16 + 16 then throw .cRemaining
  let child ← loadBranch file subCOffset subCBias subDBias
  -- "Branch Node Validation", child rules
  if !parent.mixBit && child.codec != parent.codec then throw .childCodec
  if child.version > parent.version then throw .childVersion
  if child.cOffMax > parent.cOffMax then throw .childCOffMax
  if child.dBias + child.dPtrMax != subDOffMax then throw .childDOffMax
  -- "In order to rule out infinite loops, at least one of these two conditions must hold"
  if !(child.cOffset < parent.cOffset || child.dPtrMax < parent.dPtrMax) then throw .antiLoop
  return child

/-- depth-first walk: the chunks of `b`'s elements `a, a+1, …`, appended in reverse onto `acc`.
`fuel` bounds the nesting depth. -/
def walk (file : Array UInt8) : Nat → Branch → Nat → List Chunk → Except Bad (List Chunk)
  | 0, _, _, _ => .error .fuel
  | fuel + 1, b, a, acc =>
    if a ≥ b.arity then .ok acc else
    let dlo := b.dOff a
    let dhi := b.dOff (a + 1)
    let t := b.ttag.getD a 0
    -- Nodes with an empty DRange are skipped, even if they are Branch Nodes; so are Codec Elements.
    if dlo == dhi || t == 0xFD then walk file fuel b (a + 1) acc else
    if t == 0xFE then
      match loadChild file b a with
      | .error e => .error e
      | .ok child =>
        match walk file fuel child 0 acc with
        | .error e => .error e
        | .ok acc => walk file fuel b (a + 1) acc
    else
      match makeCRange b a, makeCRange b (b.stag.getD a 0xFF), makeCRange b t with
      | .ok p, .ok s, .ok tr =>
        walk file fuel b (a + 1) (⟨⟨dlo, dhi⟩, p, s, tr, b.stag.getD a 0xFF, t, b.codec⟩ :: acc)
      | _, _, _ => .error .cRange

/-- fuel for `walk`: every step either descends (depth) or moves to a sibling (< 256 per level) -/
def walkFuel (file : Array UInt8) : Nat := 256 * 64 + file.size

/-- validate the file and list its chunks in DSpace order; also the DFileSize -/
def chunks (file : Array UInt8) : Except Bad (Nat × List Chunk) :=
  match findRoot file with
  | .error e => .error e
  | .ok root =>
    match walk file (walkFuel file) root 0 [] with
    | .error e => .error e
    | .ok acc => .ok (root.dPtrMax, acc.reverse)

/-- the chunks tile `[0, DFileSize)` -/
def tiles : Nat → List Chunk → Nat → Bool
  | pos, [], dFileSize => pos == dFileSize
  | pos, c :: cs, dFileSize => c.dRange.lo == pos && c.dRange.lo < c.dRange.hi && tiles c.dRange.hi cs dFileSize

/-- structural validity -/
def validate (file : Array UInt8) : Bool :=
  match chunks file with
  | .error _ => false
  | .ok (d, cs) => tiles 0 cs d

/-- "Decompressing a Leaf Node": the Codec may produce fewer bytes than the DRange size
(the rest is NUL), never more.  `decompress codec primary secondary tertiary`. -/
def decodeChunks (file : Array UInt8)
    (decompress : Nat → Bytes → Bytes → Bytes → Option Bytes) :
    List Chunk → List Bytes → Except Bad (List Bytes)
  | [], acc => .ok acc
  | c :: cs, acc =>
    let get (r : Rng) : Bytes := (file.extract r.lo r.hi).toList
    let size := c.dRange.hi - c.dRange.lo
    if c.codec == 0 || c.codec == 2 ^ 63 then decodeChunks file decompress cs (List.replicate size 0 :: acc) else
    match decompress c.codec (get c.cPrimary) (get c.cSecondary) (get c.cTertiary) with
    | none => .error .decompress
    | some d =>
      if d.length > size then .error .tooManyBytes
      else decodeChunks file decompress cs ((d ++ List.replicate (size - d.length) 0) :: acc)

/-- the DFile -/
def decode (file : Array UInt8) (decompress : Nat → Bytes → Bytes → Bytes → Option Bytes) :
    Except Bad Bytes :=
  match chunks file with
  | .error e => .error e
  | .ok (d, cs) =>
    if !tiles 0 cs d then .error .dptrOrder else
    match decodeChunks file decompress cs [] with
    | .error e => .error e
    | .ok acc => .ok acc.reverse.flatten

end WuffsVerif.Rac.Spec
