/-
C15 — model of `lib/internal/racdict.Loader.Load` (the shared-dictionary loader behind
`raczlib.CodecReader.MakeDecompressor`), including its one-entry MRU cache and the re-use of
the cached buffer, as repaired by fixes/C15-dict-cache-ttag.patch.  Core Lean only.

* The RAC file is read through `readerat.ReadSeeker{ReaderAt, Size: CompressedSize}` as the
  ChunkReader sets it up: `io.ReadFull` of `n` bytes at `off` succeeds iff `off + n` is within
  both the real bytes and the claimed size; otherwise it is `io.EOF` (nothing could be read)
  or `io.ErrUnexpectedEOF` (`readFull`).
* Go `int64` range bounds are `Nat` here (Props/C15: every chunk bound is `< 2^49`), except
  that `Range.Size()` may be negative for `hi < lo`, which the `< 8` test rejects.
* `cap` is the capacity of `cachedBytes`: whether the buffer is re-used decides whether a
  failing load invalidates the cache.  Props/C15Dict proves that no result depends on it.
-/
import WuffsVerif.Model.Rac.ChunkReader

namespace WuffsVerif.Rac.Dict
open WuffsVerif.Rac

abbrev CFile := ChunkReader.File
abbrev CChunk := ChunkReader.Chunk

inductive DErr where
  | invalid   -- errInvalidDictionary
  | eof       -- io.EOF
  | ueof      -- io.ErrUnexpectedEOF
  deriving DecidableEq, Repr

deriving instance DecidableEq for Except

def DErr.word : DErr → String
  | .invalid => "invalid" | .eof => "eof" | .ueof => "ueof"

def fileBytes (f : CFile) (lo n : Nat) : List UInt8 :=
  (List.range n).map (fun i => UInt8.ofNat (f.at (lo + i)))

/-- `rs.Seek(off); io.ReadFull(rs, buf[:n])` through `readerat.ReadSeeker{Size: limit}` -/
def readFull (f : CFile) (limit off n : Nat) : Except DErr (List UInt8) :=
  let avail := min f.size limit - off
  if n = 0 then .ok []
  else if n ≤ avail then .ok (fileBytes f off n)
  else if avail = 0 then .error .eof
  else .error .ueof

/-- `u32LE` -/
def u32LE (b : List UInt8) : Nat :=
  (b.getD 0 0).toNat + 256 * ((b.getD 1 0).toNat + 256 * ((b.getD 2 0).toNat + 256 * (b.getD 3 0).toNat))

/-- `crc32.ChecksumIEEE` of a byte list -/
def crc32 (b : List UInt8) : Nat :=
  (b.foldl (fun c x => ChunkReader.crcStep c x.toNat) 0xFFFFFFFF) ^^^ 0xFFFFFFFF

/-- `racdict.Loader`: `cachedRange`, `cachedBytes` (contents and capacity) -/
structure Loader where
  lo : Nat := 0
  hi : Nat := 0
  bytes : List UInt8 := []
  cap : Nat := 0
  deriving Repr

/-- `Loader.Load(rs, chunk)`: new loader state and `(dictionary, err)`; `ok none` is the
`nil, nil` answer for a chunk without a secondary range -/
def Loader.load (f : CFile) (limit : Nat) (l : Loader) (c : CChunk) :
    Loader × Except DErr (Option (List UInt8)) :=
  if c.ctLo ≠ c.ctHi then (l, .error .invalid)
  else if c.csLo = c.csHi then (l, .ok none)
  -- repaired (C15-dict-cache-ttag): the size / TTag check comes before the cache lookup
  else if c.csHi < c.csLo + 8 ∨ c.tTag ≠ 0xFF then (l, .error .invalid)
  else if c.csLo = l.lo ∧ c.csHi = l.hi ∧ l.lo ≠ l.hi then (l, .ok (some l.bytes))
  else
    match readFull f limit c.csLo 4 with
    | .error e => (l, .error e)
    | .ok b4 =>
      let dictSize := u32LE b4
      if dictSize >>> 30 ≠ 0 then (l, .error .invalid)
      else if dictSize + 8 > c.csHi - c.csLo then (l, .error .invalid)
      else
        let n := dictSize + 4
        -- re-using the cached buffer invalidates the cached dictionary
        let reuse := decide (l.cap ≥ n)
        let l1 : Loader := if reuse then { l with lo := 0, hi := 0 } else l
        match readFull f limit (c.csLo + 4) n with
        | .error e => (l1, .error e)
        | .ok buffer =>
          let dict := buffer.take dictSize
          let checksum := buffer.drop dictSize
          if u32LE checksum ≠ crc32 dict then (l1, .error .invalid)
          else
            ({ lo := c.csLo, hi := c.csHi, bytes := dict, cap := if reuse then l.cap else n },
              .ok (some dict))

/-- what a loader without history answers -/
def loadFresh (f : CFile) (limit : Nat) (c : CChunk) : Except DErr (Option (List UInt8)) :=
  (Loader.load f limit {} c).2

end WuffsVerif.Rac.Dict
