/-
C14 — model of the sequential `rac.Reader` (lib/rac/reader.go) over an ABSTRACT
chunk list, and the specification it is compared with (an in-memory reader over
the concatenation of the decoded chunks).

What is abstracted (trusted / tied by differential execution only):
* `ChunkReader` (lib/rac/chunk_reader.go, property C15) is replaced by `findChunk`
  on a list of chunks with contiguous DRanges: `SeekToChunkContaining p` sets the
  cursor `crPos := p`; `NextChunk` returns the chunk whose DRange contains `crPos`
  (or io.EOF when `crPos ≥ decompressedSize`) and moves `crPos` to its end.
* a chunk's decompressor (raczlib/zlib, or the `zeroesReader`) is the list of its
  decoded bytes: `Read(p)` hands out `min (len p) remaining` bytes and reports
  io.EOF (or io.ErrUnexpectedEOF for a truncated stream) together with the read
  that exhausts it.  (A decompressor that reports EOF one call later drives the
  Reader through the same states; only this convention is modelled.)
* positions are `Nat` (the code keeps them non-negative), seek arguments are `Int`
  with int64 wrap-around on the two additions of `seek`.

CORE LEAN ONLY.
-/
set_option linter.unusedVariables false

namespace WuffsVerif.Rac

/-- error classes (the harness canonicalises Go errors to these words) -/
inductive Err where
  | eof            -- io.EOF
  | whence         -- errSeekToInvalidWhence
  | negPos         -- errSeekToNegativePosition
  | negRange       -- errSeekToNegativeRange
  | closed         -- errAlreadyClosed
  | tooLarge       -- errInvalidChunkTooLarge
  | truncated      -- errInvalidChunkTruncated
  | ueof           -- io.ErrUnexpectedEOF (from the discard loop)
  | inconsistent   -- errInternalInconsistentPosition
  | badIndex       -- the abstract chunk list has no chunk containing the cursor
  deriving DecidableEq, Repr, Inhabited

def Err.word : Err → String
  | .eof => "eof" | .whence => "whence" | .negPos => "negpos" | .negRange => "negrange"
  | .closed => "closed" | .tooLarge => "toolarge" | .truncated => "truncated" | .ueof => "ueof"
  | .inconsistent => "inconsistent" | .badIndex => "badindex"

/-- One leaf chunk: DRange `[lo, hi)`, the bytes its codec produces, and whether the
    compressed stream ends early (`io.ErrUnexpectedEOF` instead of `io.EOF`). Bytes
    `data.length .. hi-lo` of the chunk are implicit zeroes. -/
structure Chunk where
  lo : Nat
  hi : Nat
  data : List UInt8
  trunc : Bool := false
  deriving Repr, Inhabited

/-- The RAC file as the Reader sees it through the ChunkReader. -/
structure File where
  chunks : List Chunk
  size : Nat          -- ChunkReader.decompressedSize
  deriving Repr, Inhabited

def zeros (n : Nat) : List UInt8 := List.replicate n 0

/-- decoded contents of one chunk: explicit data, then implicit zeroes -/
def Chunk.block (c : Chunk) : List UInt8 := c.data ++ zeros (c.hi - c.lo - c.data.length)

def bytesOf : List Chunk → List UInt8
  | [] => []
  | c :: cs => c.block ++ bytesOf cs

/-- the fully decoded file -/
def File.bytes (F : File) : List UInt8 := bytesOf F.chunks

/-- `chain a cs b`: the DRanges of `cs` tile `[a, b)` in order, every chunk is
    non-empty, its explicit data fits its DRange and its stream is complete. -/
def chain (a : Nat) : List Chunk → Nat → Bool
  | [], b => a == b
  | c :: cs, b => c.lo == a && decide (c.lo < c.hi) && decide (c.data.length ≤ c.hi - c.lo)
                  && !c.trunc && chain c.hi cs b

/-- a valid RAC file, as far as the Reader is concerned -/
def File.valid (F : File) : Bool := chain 0 F.chunks F.size

/-- `ChunkReader.NextChunk` after `SeekToChunkContaining p`, abstractly. -/
def findChunk : List Chunk → Nat → Option Chunk
  | [], _ => none
  | c :: cs, p => if c.lo ≤ p ∧ p < c.hi then some c else findChunk cs p

inductive Phase where
  | A   -- no chunk loaded
  | B   -- decompressor live
  | C   -- implicit zeroes
  deriving DecidableEq, Repr, Inhabited

/-- `rac.Reader` state (the fields that matter once `initialize` has succeeded). -/
structure R where
  err : Option Err := none      -- sticky error
  closed : Bool := false
  phase : Phase := .A
  dec : List UInt8 := []        -- what the live decompressor has not produced yet
  decTrunc : Bool := false
  pos : Nat := 0
  posLimit : Nat := 0
  dlo : Nat := 0                -- dRange[0]
  dhi : Nat := 0                -- dRange[1]
  crPos : Nat := 0              -- ChunkReader cursor (seekPosition)
  conc : Bool := false          -- Concurrency > 1: `Reader.seek` stores every concReader.seek error in r.err
  deriving Repr, Inhabited

/-- state after the first `initialize()` on a well-formed file -/
def R.init (F : File) (conc : Bool := false) : R := { posLimit := F.size, conc := conc }

/-- `transitionFromStateBToStateC` (the decompressor's Close is assumed to succeed) -/
def R.toC (r : R) : R := { r with phase := .C, dec := [] }

/-- `nextChunk`: "State A" → "State B". `some e` is the returned error. -/
def nextChunk (F : File) (r : R) : R × Option Err :=
  if r.crPos ≥ F.size then (r, some .eof)
  else match findChunk F.chunks r.crPos with
    | none => ({ r with err := some .badIndex }, some .badIndex)
    | some c =>
      ({ r with phase := .B, dec := c.data, decTrunc := c.trunc, dlo := c.lo, dhi := c.hi, crPos := c.hi }, none)

/-- outcome of the discard loop of `readExplicitData` -/
inductive Discard where
  | goOn (r : R)                      -- loop finished, delegate to the decompressor
  | ret (r : R) (e : Option Err)      -- `return 0, e`

/-- the `for r.pos > r.dRange[0]` loop of `readExplicitData`; `n = len(p) > 0`. -/
def discard (r : R) (n : Nat) : Discard :=
  if h : r.pos > r.dlo then
    let want := min n (r.pos - r.dlo)
    let got := (r.dec.take want).length     -- = min want r.dec.length, without walking the whole list
    let r1 : R := { r with dec := r.dec.drop got, dlo := r.dlo + got }
    if r1.dec.isEmpty then
      -- this read reported io.EOF / io.ErrUnexpectedEOF
      if r.decTrunc then .ret { r1 with err := some .ueof } (some .ueof)
      else .ret r1.toC none
    else if hg : got = 0 then .ret { r1 with err := some .inconsistent } (some .inconsistent) -- n = 0: not reachable
    else discard r1 n
  else .goOn r
termination_by r.pos - r.dlo
decreasing_by
  show r.pos - (r.dlo + (r.dec.take (min n (r.pos - r.dlo))).length) < r.pos - r.dlo
  have : (r.dec.take (min n (r.pos - r.dlo))).length ≠ 0 := hg
  have := List.length_take (i := min n (r.pos - r.dlo)) (l := r.dec)
  omega

/-- `readExplicitData` with `len(p) = n > 0`: bytes handed out, returned error. -/
def readExplicit (r : R) (n : Nat) : R × List UInt8 × Option Err :=
  match discard r n with
  | .ret r' e => (r', [], e)
  | .goOn r =>
    let got := (r.dec.take n).length        -- = min n r.dec.length
    let dec' := r.dec.drop got
    let size := r.dhi - r.dlo
    if got > size then
      let r1 : R := { r with dec := dec', pos := r.pos + size, dlo := r.dlo + size, err := some .tooLarge }
      (r1, r.dec.take size, some .tooLarge)
    else
      let r1 : R := { r with dec := dec', pos := r.pos + got, dlo := r.dlo + got }
      if dec'.isEmpty then
        if r.decTrunc then ({ r1 with err := some .truncated }, r.dec.take got, some .truncated)
        else (r1.toC, r.dec.take got, none)
      else (r1, r.dec.take got, none)

/-- `readImplicitZeroes` with `len(p) = n`: new state and the number of NULs written. -/
def readZeroes (r : R) (n : Nat) : R × Nat :=
  let dlo := if r.dlo < r.pos then r.pos else r.dlo
  let k := min n (r.dhi - dlo)
  ({ r with pos := r.pos + k, dlo := dlo + k, phase := if dlo + k = r.dhi then .A else .C }, k)

def phaseRank : Phase → Nat
  | .A => 0 | .C => 1 | .B => 2

theorem findChunk_some {cs : List Chunk} {p : Nat} {c : Chunk} (h : findChunk cs p = some c) :
    c.lo ≤ p ∧ p < c.hi := by
  induction cs with
  | nil => simp [findChunk] at h
  | cons d ds ih =>
    unfold findChunk at h
    split at h
    · cases h; assumption
    · exact ih h

theorem discard_ret_measure (r : R) (n : Nat) (r' : R) (e : Option Err) (h : discard r n = .ret r' e) :
    r'.crPos = r.crPos ∧ (e = none → r'.phase = .C) := by
  fun_induction discard r n with
  | case1 r h want got r1 hemp htr => cases h; simp [r1]
  | case2 r h want got r1 hemp htr => cases h; simp [r1, R.toC]
  | case3 r h want got r1 hemp hg => cases h; simp [r1]
  | case4 r h want got r1 hemp hg ih => have := ih h; simpa [r1] using this
  | case5 r h => cases h

theorem discard_goOn (r : R) (n : Nat) (r' : R) (h : discard r n = .goOn r') :
    r'.crPos = r.crPos ∧ r'.phase = r.phase := by
  fun_induction discard r n with
  | case1 r h want got r1 hemp htr => cases h
  | case2 r h want got r1 hemp htr => cases h
  | case3 r h want got r1 hemp hg => cases h
  | case4 r h want got r1 hemp hg ih => have := ih h; simpa [r1] using this
  | case5 r h => cases h; simp

/-- facts about `readExplicit` that make the Read loop terminate: the chunk cursor
    is untouched; without an error either the phase drops to C or bytes were produced -/
theorem readExplicit_measure (r : R) (n : Nat) (hn : 0 < n) (hB : r.phase = .B) :
    (readExplicit r n).1.crPos = r.crPos ∧
    ((readExplicit r n).2.2 = none →
      (readExplicit r n).1.phase = .C ∨
      ((readExplicit r n).1.phase = .B ∧ 0 < (readExplicit r n).2.1.length)) := by
  unfold readExplicit
  split
  · next r' e h =>
    have := discard_ret_measure r n r' e h
    refine ⟨this.1, ?_⟩
    intro he; left; exact this.2 he
  · next r' h =>
    have hg := discard_goOn r n r' h
    simp only
    split
    · simp [hg.1]
    · split
      · split
        · simp [hg.1]
        · simp [hg.1, R.toC]
      · next hgt hne =>
        refine ⟨by simp [hg.1], ?_⟩
        intro _; right
        refine ⟨by simp [hg.2, hB], ?_⟩
        have : r'.dec ≠ [] := by
          intro h0; simp [h0] at hne
        have : 0 < r'.dec.length := List.length_pos_iff.mpr this
        simp only [List.length_take]
        omega

/-- The `for numRead := 0; ; { … }` loop of `Reader.Read`; `n = len(p)` still to fill.
    Returns the final state, the bytes appended to the caller's buffer and the error. -/
def readLoop (F : File) (r : R) (n : Nat) : R × List UInt8 × Option Err :=
  if r.pos ≥ r.posLimit then (r, [], some .eof)
  else if hn : n = 0 then (r, [], none)
  else if r.pos < r.dlo ∨ r.dhi < r.pos then ({ r with err := some .inconsistent }, [], some .inconsistent)
  else
    match hp : r.phase with
    | .A =>
      match hc : nextChunk F r with
      | (r', some e) => (r', [], some e)
      | (r', none) => readLoop F r' n
    | .B =>
      match hx : readExplicit r n with
      | (r', bs, some e) => (r', bs, some e)
      | (r', bs, none) =>
        let (r'', rest, e) := readLoop F r' (n - bs.length)
        (r'', bs ++ rest, e)
    | .C =>
      match hz : readZeroes r n with
      | (r', k) =>
        let (r'', rest, e) := readLoop F r' (n - k)
        (r'', zeros k ++ rest, e)
termination_by (F.size - r.crPos, phaseRank r.phase, n)
decreasing_by
  · -- A → B: the chunk cursor moved forward
    unfold nextChunk at hc
    split at hc
    · cases hc
    · next hlt =>
      split at hc
      · cases hc
      · next c hf =>
        have := findChunk_some hf
        cases hc
        apply Prod.Lex.left
        simp only
        omega
  · -- B → B / C
    have hm := readExplicit_measure r n (Nat.pos_of_ne_zero hn) hp
    rw [hx] at hm
    simp only at hm
    rcases hm with ⟨hcr, hph⟩
    rw [hcr]
    apply Prod.Lex.right
    rcases hph trivial with h | ⟨h1, h2⟩
    · rw [h, hp]; apply Prod.Lex.left; simp [phaseRank]
    · rw [h1, hp]; apply Prod.Lex.right; omega
  · -- C → C / A
    unfold readZeroes at hz
    cases hz
    simp only
    apply Prod.Lex.right
    generalize hd : (if r.dlo < r.pos then r.pos else r.dlo) = d
    have hd' : d ≤ r.dhi := by subst hd; split <;> omega
    by_cases he : d + min n (r.dhi - d) = r.dhi
    · rw [if_pos he, hp]; apply Prod.Lex.left; simp [phaseRank]
    · rw [if_neg he, hp]; apply Prod.Lex.right; omega

/-- int64 wrap-around of a sum of two int64 values -/
def wrap64 (x : Int) : Int := (x + 9223372036854775808) % 18446744073709551616 - 9223372036854775808

/-- `Reader.Read(p)` with `len(p) = n`. -/
def R.read (F : File) (r : R) (n : Nat) : R × List UInt8 × Option Err :=
  match r.err with
  | some e => (r, [], some e)                       -- initialize()
  | none =>
    if r.pos ≥ r.posLimit then (r, [], some .eof)
    else readLoop F r (min n (r.posLimit - r.pos))

/-- the `switch whence` of `seek`: the requested absolute position (`none`: invalid whence).
    `pos += offset` and `decompressedSize + offset` are int64 additions. -/
def seekTarget (pos size : Nat) (off whence : Int) : Option Int :=
  if whence = 0 then some off
  else if whence = 1 then some (wrap64 (pos + off))
  else if whence = 2 then some (wrap64 (size + off))
  else none

/-- `Reader.seek(offset, whence, limit)` (after `initialize`). -/
def R.seek (F : File) (r : R) (off whence limit : Int) : R × Int × Option Err :=
  match seekTarget r.pos F.size off whence with
  | none => ((if r.conc then { r with err := some .whence } else r), 0, some .whence)
  | some pos =>
    if pos ≠ (r.pos : Int) ∧ pos < 0 then ({ r with err := some .negPos }, 0, some .negPos)
    else
      let r1 : R :=
        if pos ≠ (r.pos : Int) then
          { r with pos := pos.toNat, crPos := pos.toNat, dlo := pos.toNat, dhi := pos.toNat,
                   phase := .A, dec := [], decTrunc := false }
        else r
      let lim := if limit > (F.size : Int) then (F.size : Int) else limit
      ({ r1 with posLimit := lim.toNat }, (r1.pos : Int), none)

def maxInt64 : Int := 9223372036854775807

/-- `Reader.Seek` -/
def R.Seek (F : File) (r : R) (off whence : Int) : R × Int × Option Err :=
  match r.err with
  | some e => (r, 0, some e)
  | none => r.seek F off whence maxInt64

/-- `Reader.SeekRange` -/
def R.SeekRange (F : File) (r : R) (lo hi : Int) : R × Option Err :=
  match r.err with
  | some e => (r, some e)
  | none =>
    if lo > hi then ({ r with err := some .negRange }, some .negRange)
    else let (r', _, e) := r.seek F lo 0 hi; (r', e)

/-- `Reader.Close` (CodecReader.Close and concReader.Close return nil) -/
def R.Close (r : R) : R × Option Err :=
  if r.closed then (r, r.err)
  else
    match r.err with
    | none => ({ r with closed := true, err := some .closed }, none)
    | some e => ({ r with closed := true }, some e)

/-! ## Operations and results (shared by the model, the spec and the driver) -/

inductive Op where
  | read (n : Nat)
  | seek (off whence : Int)
  | seekRange (lo hi : Int)
  | close
  deriving Repr, Inhabited

inductive Res where
  | read (bs : List UInt8) (e : Option Err)
  | seek (pos : Int) (e : Option Err)
  | err (e : Option Err)
  deriving DecidableEq, Repr, Inhabited

/-- Go's `(n > 0, io.EOF)` is identified with `(n, nil)` (the next call returns `(0, io.EOF)`). -/
def Res.canon : Res → Res
  | .read bs (some .eof) => if bs.isEmpty then .read bs (some .eof) else .read bs none
  | x => x

def R.step (F : File) (r : R) : Op → R × Res
  | .read n => let (r', bs, e) := r.read F n; (r', .read bs e)
  | .seek off wh => let (r', p, e) := r.Seek F off wh; (r', .seek p e)
  | .seekRange lo hi => let (r', e) := r.SeekRange F lo hi; (r', .err e)
  | .close => let (r', e) := r.Close; (r', .err e)

def R.run (F : File) : R → List Op → List Res
  | _, [] => []
  | r, op :: ops => let (r', res) := r.step F op; res.canon :: R.run F r' ops

/-! ## Specification: an in-memory reader over the decoded bytes

`bytes.Reader` semantics for Read/Seek, `Seek(lo) + io.LimitedReader(hi-lo)` for
SeekRange, wrapped in the documented conventions of `rac.Reader`: the first
non-EOF error is sticky, and after `Close` every call fails. -/

structure Spec where
  data : List UInt8
  pos : Nat := 0
  lim : Nat                    -- ≤ data.length
  err : Option Err := none
  closed : Bool := false
  stickyWhence : Bool := false -- is an invalid `whence` a sticky error (true for Concurrency > 1)
  deriving Repr

def Spec.init (data : List UInt8) (stickyWhence : Bool := false) : Spec :=
  { data := data, lim := data.length, stickyWhence := stickyWhence }

def Spec.step (s : Spec) : Op → Spec × Res
  | .read n =>
    match s.err with
    | some e => (s, .read [] (some e))
    | none =>
      if s.pos ≥ s.lim then (s, .read [] (some .eof))
      else
        let k := min n (s.lim - s.pos)
        ({ s with pos := s.pos + k }, .read ((s.data.drop s.pos).take k) none)   -- bytes.Reader: EOF only with 0 bytes
  | .seek off wh =>
    match s.err with
    | some e => (s, .seek 0 (some e))
    | none =>
      match seekTarget s.pos s.data.length off wh with
      | none => ((if s.stickyWhence then { s with err := some .whence } else s), .seek 0 (some .whence))
      | some p =>
        if p < 0 then ({ s with err := some .negPos }, .seek 0 (some .negPos))
        else ({ s with pos := p.toNat, lim := s.data.length }, .seek p none)
  | .seekRange lo hi =>
    match s.err with
    | some e => (s, .err (some e))
    | none =>
      if lo > hi then ({ s with err := some .negRange }, .err (some .negRange))
      else if lo < 0 then ({ s with err := some .negPos }, .err (some .negPos))
      else ({ s with pos := lo.toNat, lim := (min hi s.data.length).toNat }, .err none)
  | .close =>
    if s.closed then (s, .err s.err)
    else match s.err with
      | none => ({ s with closed := true, err := some .closed }, .err none)
      | some e => ({ s with closed := true }, .err (some e))

def Spec.run : Spec → List Op → List Res
  | _, [] => []
  | s, op :: ops => let (s', res) := s.step op; res :: Spec.run s' ops

end WuffsVerif.Rac
