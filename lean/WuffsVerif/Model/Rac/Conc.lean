/-
C14 — the manager/worker protocol of the concurrent RAC reader
(lib/rac/conc_reader.go) as a labelled transition system, parameterised by the
number of workers `N = ws.length`.

Processes: `main` (the goroutine calling Read/Seek/Close: concReader.Read, nextWork,
stopAnyWorkInProgress, recycleBuffers, Close), the Manager (`runRManager`) and the
Workers (`runRWorker`).  Channels: `roic` (unbuffered; the `roi` step is the rendezvous),
`reqc` (cap N), `resc` (cap 2N), `stopc`/`ackc` (unbuffered; `stopMgr/stopW/ackMgr/ackW`
are the rendezvous), `recyclec i` (cap 2, the `recyc` counter of worker i).

Data are abstracted: a work item carries the *epoch* of the region of interest it was
made for (a ghost counter that `main` bumps after every completed cancel) and the worker
whose buffer travels with it.  Buffers are tokens: `held` (the non-nil entries of a
worker's `buffers` array), `canAlloc`, `recyc`, the `out` item in the worker's hand, and
the items in `resc`, `completedWorks`, `currWork`.

`repaired = true` models the code with fixes/C14-conc-stale-work.patch (a cancel resets
the Manager's and the Workers' loop state when it is acknowledged); `repaired = false`
models the original code, which resumes with its old `input/output/work/dRange`.

A local computation that follows a channel operation is merged with it (it touches only
the process's own variables).  `recycleBuffers` is one step: every other process is
blocked on `ackc` while it runs; that its sends on `recyclec` cannot block is the
`recyc ≤ 2` part of the conservation invariant.

CORE LEAN ONLY.
-/
namespace WuffsVerif.Rac.Conc

structure Item where
  epoch : Nat
  owner : Option Nat      -- worker whose buffer travels with the item (`none`: a request)
  deriving DecidableEq, Repr, Inhabited

/-- program counter shared by Manager and Workers -/
inductive PPc where
  | run
  | stopped (keep : Bool)   -- received a stopWork, blocked on `<-stop.ackc`
  | done                    -- returned
  deriving DecidableEq, Repr, Inhabited

def PPc.isStopped : PPc → Bool
  | .stopped _ => true
  | _ => false

/-- `runRWorker` locals. `input == reqc` iff `out = none ∧ dr = none`. -/
structure W where
  pc : PPc := .run
  dr : Option Nat := none       -- dRange not yet fully read (epoch of the request it came from)
  out : Option Item := none     -- outWork waiting on `output <- outWork`
  held : Nat := 0               -- buffers in `buffers[]`
  canAlloc : Nat := 2
  recyc : Nat := 0              -- len(recyclec)
  deriving DecidableEq, Repr, Inhabited

/-- `runRManager` locals -/
structure M where
  pc : PPc := .run
  inputOn : Bool := true        -- input == roic (otherwise output == reqc)
  roi : Option Nat := none      -- epoch of the region of interest being served
  work : Option Item := none    -- the rWork waiting on `output <- work`
  deriving DecidableEq, Repr, Inhabited

inductive MainPc where
  | idle                               -- between API calls
  | stopping (k : Nat) (keep : Bool)   -- stopAnyWorkInProgress: k stopWorks sent
  | acking (k : Nat) (keep : Bool)     -- … k acks sent
  | sendRoi                            -- `c.roic <- Range{…}`
  | reading                            -- the Read loop / nextWork
  | closed
  deriving DecidableEq, Repr, Inhabited

structure St where
  repaired : Bool := true
  main : MainPc := .idle
  seenRead : Bool := false
  epoch : Nat := 0
  mgr : M := {}
  ws : List W
  reqc : List Item := []
  resc : List Item := []
  completed : List Item := []       -- completedWorks
  curr : Option Item := none        -- currWork (when it holds a buffer)
  deriving DecidableEq, Repr, Inhabited

def St.init (n : Nat) (repaired : Bool := true) : St :=
  { repaired := repaired, ws := List.replicate n {} }

inductive Label where
  | firstRead                 -- first Read: no stop, send the region of interest
  | readAgain                 -- a further Read without a Seek in between
  | cancel                    -- Read after a Seek: stopAnyWorkInProgress(true)
  | close                     -- Close: stopAnyWorkInProgress(false)
  | stopMgr | stopW (i : Nat) -- `c.stopc <- stopWork{…}` received by that process
  | recycle                   -- all stops sent: recycleBuffers (keep) / nothing (close)
  | ackMgr | ackW (i : Nat)   -- `c.ackc <- struct{}{}` received by that process
  | ackDone
  | roi                       -- `c.roic <- …` received by the Manager
  | mgrMake (more : Bool)     -- NextChunk: next request, or end of the region
  | mgrSend                   -- `output <- work`
  | wRecv (i : Nat)           -- `inWork := <-input`
  | wMake (i : Nat) (last : Bool)   -- racReader.Read into a buffer; `last`: dRange now empty
  | wSend (i : Nat)           -- `output <- outWork`
  | wRecycle (i : Nat)        -- `recycledBuffer := <-recyclec`
  | recvRes                   -- nextWork: `work := <-c.resc`
  | take (j : Nat)            -- nextWork: completedWorks[c.pos] found
  | recycleCurr               -- `c.currWork.recycle()`
  | readDone
  deriving DecidableEq, Repr, Inhabited

def countOwner (i : Nat) (l : List Item) : Nat := l.countP (fun it => it.owner == some i)

def ownerIs (i : Nat) : Option Item → Nat
  | some it => if it.owner == some i then 1 else 0
  | none => 0

/-- everything `main` holds or could drain goes back to its worker's `recyclec` -/
def recycleAll (s : St) : List W :=
  s.ws.mapIdx (fun i w => { w with recyc := w.recyc + countOwner i s.resc + countOwner i s.completed + ownerIs i s.curr })

/-- acknowledged cancel in a Worker: the repaired code drops the request in progress and
    takes the buffer of the unsent outWork back; the original code changes nothing -/
def W.resume (w : W) (repaired : Bool) : W :=
  if repaired then
    { w with pc := .run, dr := none, out := none, held := w.held + (if w.out.isSome then 1 else 0) }
  else { w with pc := .run }

def M.resume (m : M) (repaired : Bool) : M :=
  if repaired then { m with pc := .run, inputOn := true, roi := none, work := none }
  else { m with pc := .run }

def step (s : St) : Label → Option St
  | .firstRead =>
    if s.main = .idle ∧ s.seenRead = false then some { s with main := .sendRoi, seenRead := true } else none
  | .readAgain =>
    if s.main = .idle ∧ s.seenRead = true then some { s with main := .reading } else none
  | .cancel =>
    if s.main = .idle ∧ s.seenRead = true then some { s with main := .stopping 0 true } else none
  | .close =>
    if s.main = .idle then some { s with main := .stopping 0 false } else none
  | .stopMgr =>
    match s.main with
    | .stopping k keep =>
      if k < s.ws.length + 1 ∧ s.mgr.pc = .run then
        some { s with main := .stopping (k + 1) keep, mgr := { s.mgr with pc := .stopped keep } }
      else none
    | _ => none
  | .stopW i =>
    match s.main, s.ws[i]? with
    | .stopping k keep, some w =>
      if k < s.ws.length + 1 ∧ w.pc = .run then
        some { s with main := .stopping (k + 1) keep, ws := s.ws.set i { w with pc := .stopped keep } }
      else none
    | _, _ => none
  | .recycle =>
    match s.main with
    | .stopping k keep =>
      if k = s.ws.length + 1 then
        if keep then
          some { s with main := .acking 0 true, ws := recycleAll s, reqc := [], resc := [], completed := [], curr := none }
        else some { s with main := .acking 0 false }
      else none
    | _ => none
  | .ackMgr =>
    match s.main, s.mgr.pc with
    | .acking k kk, .stopped keep =>
      if k < s.ws.length + 1 then
        some { s with main := .acking (k + 1) kk,
                      mgr := if keep then s.mgr.resume s.repaired else { s.mgr with pc := .done } }
      else none
    | _, _ => none
  | .ackW i =>
    match s.main, s.ws[i]? with
    | .acking k kk, some w =>
      match w.pc with
      | .stopped keep =>
        if k < s.ws.length + 1 then
          some { s with main := .acking (k + 1) kk,
                        ws := s.ws.set i (if keep then w.resume s.repaired else { w with pc := .done }) }
        else none
      | _ => none
    | _, _ => none
  | .ackDone =>
    match s.main with
    | .acking k keep =>
      if k = s.ws.length + 1 then
        if keep then some { s with main := .sendRoi, epoch := s.epoch + 1 }
        else some { s with main := .closed }
      else none
    | _ => none
  | .roi =>
    if s.main = .sendRoi ∧ s.mgr.pc = .run ∧ s.mgr.inputOn = true then
      some { s with main := .reading, mgr := { s.mgr with inputOn := false, roi := some s.epoch, work := none } }
    else none
  | .mgrMake more =>
    match s.mgr.roi with
    | some e =>
      if s.mgr.pc = .run ∧ s.mgr.inputOn = false ∧ s.mgr.work = none then
        if more then some { s with mgr := { s.mgr with work := some { epoch := e, owner := none } } }
        else some { s with mgr := { s.mgr with inputOn := true } }
      else none
    | none => none
  | .mgrSend =>
    match s.mgr.work with
    | some it =>
      if s.mgr.pc = .run ∧ s.mgr.inputOn = false ∧ s.reqc.length < s.ws.length then
        some { s with reqc := s.reqc ++ [it], mgr := { s.mgr with work := none } }
      else none
    | none => none
  | .wRecv i =>
    match s.ws[i]?, s.reqc with
    | some w, it :: rest =>
      if w.pc = .run ∧ w.out = none ∧ w.dr = none then
        some { s with reqc := rest, ws := s.ws.set i { w with dr := some it.epoch } }
      else none
    | _, _ => none
  | .wMake i last =>
    match s.ws[i]? with
    | some w =>
      match w.dr with
      | some e =>
        if w.pc = .run ∧ w.out = none then
          let dr' := if last then none else some e
          let it : Item := { epoch := e, owner := some i }
          if w.held > 0 then
            some { s with ws := s.ws.set i { w with held := w.held - 1, out := some it, dr := dr' } }
          else if w.canAlloc > 0 then
            some { s with ws := s.ws.set i { w with canAlloc := w.canAlloc - 1, out := some it, dr := dr' } }
          else none
        else none
      | none => none
    | none => none
  | .wSend i =>
    match s.ws[i]? with
    | some w =>
      match w.out with
      | some it =>
        if w.pc = .run ∧ s.resc.length < 2 * s.ws.length then
          some { s with resc := s.resc ++ [it], ws := s.ws.set i { w with out := none } }
        else none
      | none => none
    | none => none
  | .wRecycle i =>
    match s.ws[i]? with
    | some w =>
      if w.pc = .run ∧ w.recyc > 0 then
        some { s with ws := s.ws.set i { w with recyc := w.recyc - 1, held := w.held + 1 } }
      else none
    | none => none
  | .recvRes =>
    match s.resc with
    | it :: rest =>
      if s.main = .reading then some { s with resc := rest, completed := it :: s.completed } else none
    | [] => none
  | .take j =>
    match s.completed[j]? with
    | some it =>
      if s.main = .reading ∧ s.curr = none then
        some { s with completed := s.completed.eraseIdx j, curr := some it }
      else none
    | none => none
  | .recycleCurr =>
    match s.curr with
    | some it =>
      match it.owner with
      | some i =>
        match s.ws[i]? with
        | some w =>
          if s.main = .reading ∧ w.recyc < 2 then
            some { s with curr := none, ws := s.ws.set i { w with recyc := w.recyc + 1 } }
          else none
        | none => none
      | none => none
    | none => none
  | .readDone =>
    if s.main = .reading then some { s with main := .idle } else none

/-- run a sequence of labels; `none` when some step is not enabled -/
def exec : St → List Label → Option St
  | s, [] => some s
  | s, l :: ls => match step s l with
    | some s' => exec s' ls
    | none => none

/-- every work item that exists anywhere in the system -/
def St.items (s : St) : List Item :=
  s.reqc ++ s.resc ++ s.completed ++ s.curr.toList ++ s.mgr.work.toList ++
    s.ws.flatMap (fun w => w.out.toList)

/-! ### trace validation (driver op `trace n=<N> <event>*`) -/

def parseLabel (t : String) : Option Label :=
  match t.splitOn ":" with
  | ["firstRead"] => some .firstRead
  | ["readAgain"] => some .readAgain
  | ["cancel"] => some .cancel
  | ["close"] => some .close
  | ["stopMgr"] => some .stopMgr
  | ["stopW", i] => i.toNat?.map .stopW
  | ["recycle"] => some .recycle
  | ["ackMgr"] => some .ackMgr
  | ["ackW", i] => i.toNat?.map .ackW
  | ["ackDone"] => some .ackDone
  | ["roi"] => some .roi
  | ["mgrMake", b] => some (.mgrMake (b == "1"))
  | ["mgrSend"] => some .mgrSend
  | ["wRecv", i] => i.toNat?.map .wRecv
  | ["wMake", i, b] => i.toNat?.map (fun i => .wMake i (b == "1"))
  | ["wSend", i] => i.toNat?.map .wSend
  | ["wRecycle", i] => i.toNat?.map .wRecycle
  | ["recvRes"] => some .recvRes
  | ["take", j] => j.toNat?.map .take
  | ["recycleCurr"] => some .recycleCurr
  | ["readDone"] => some .readDone
  | _ => none

def traceGo (s : St) (k : Nat) : List String → String
  | [] => "accepted"
  | t :: ts =>
    match parseLabel t with
    | none => s!"rejected at {k} {t} (unknown event)"
    | some l =>
      match step s l with
      | some s' => traceGo s' (k + 1) ts
      | none => s!"rejected at {k} {t}"

def traceLine (n : Nat) (evs : List String) : String := traceGo (St.init n) 0 evs

end WuffsVerif.Rac.Conc
