/-
Model of /repo/lib/rac/chunk_writer.go (C13), function by function.  Core Lean only.

* Go `uint64` quantities are `Nat` here.  Every size/offset is guarded in the Go
  code by a `> MaxSize` (2^48-1) check before it is combined with others, so no
  uint64 wrap-around is reachable; `putU64LE` reduces mod 2^64 like the Go code.
* The underlying `io.Writer` / TempFile is `IOSt`: two byte logs plus a call
  counter; the `failAt`-th underlying call (Write / Read / Seek, on either)
  fails once with the error `Err.fault` and has no effect.
* `gather` is written for the REPAIRED code (fixes/C13-gather-lone-branch.patch):
  a lone trailing branch node is not wrapped in a single-child branch; so is
  `resourceToTag` (fixes/C13-long-codec-resource-tag.patch).
-/
import WuffsVerif.Model.Rac.WriteBuffer

namespace WuffsVerif.Rac

/-- the package's error values (rac.go), plus the injected fault -/
inductive Err where
  | fault                       -- error returned by the failing underlying call
  | alreadyClosed
  | cChunkSizeIsTooSmall
  | codecWriterDoesNotSupportCChunkSize
  | ilaEndTempFile
  | ilaStartTempFile
  | inconsistentCompressedSize
  | invalidCPageSize
  | invalidCodec
  | invalidCodecWriter
  | invalidWriter
  | tooManyChunks
  | tooManyResources
  | tooMuchInput
  | multipleCodecs              -- "rac: TODO: support writing multiple Codecs"
  | internalArityIsTooLarge
  | internalShortCSize
  | codec (n : Nat)             -- an error made by the CodecWriter
  | fuel                        -- model only: a loop ran out of fuel (proved unreachable)
deriving DecidableEq, Repr, Inhabited

def Err.word : Err → String
  | .fault => "fault"
  | .alreadyClosed => "already-closed"
  | .cChunkSizeIsTooSmall => "cchunksize-too-small"
  | .codecWriterDoesNotSupportCChunkSize => "no-cchunksize-support"
  | .ilaEndTempFile => "ila-end-tempfile"
  | .ilaStartTempFile => "ila-start-tempfile"
  | .inconsistentCompressedSize => "inconsistent-compressed-size"
  | .invalidCPageSize => "invalid-cpagesize"
  | .invalidCodec => "invalid-codec"
  | .invalidCodecWriter => "invalid-codecwriter"
  | .invalidWriter => "invalid-writer"
  | .tooManyChunks => "too-many-chunks"
  | .tooManyResources => "too-many-resources"
  | .tooMuchInput => "too-much-input"
  | .multipleCodecs => "multiple-codecs"
  | .internalArityIsTooLarge => "internal-arity-too-large"
  | .internalShortCSize => "internal-short-csize"
  | .codec n => s!"codec-error-{n}"
  | .fuel => "model-fuel"

/-- `MaxSize` (rac.go) -/
def maxSize : Nat := 2 ^ 48 - 1
/-- `invalidCOffsetCLength` -/
def invalidCOffsetCLength : Nat := 2 ^ 64 - 1

/-! ### Codec values (rac.go) -/
def codecIsLong (c : Nat) : Bool := decide (c ≥ 2 ^ 63)
/-- `Codec.Valid` -/
def codecValid (c : Nat) : Bool :=
  if c >>> 63 == 0 then (c <<< 8) % 2 ^ 64 == 0 && c >>> 62 == 0
  else c >>> 56 == 0x80
def codecZeroes : Nat := 0
def codecMixBit : Nat := 2 ^ 62

/-! ### CRC-32 (IEEE), table-free -/
def crc32Bit (c : UInt32) : UInt32 :=
  if c &&& 1 != 0 then (c >>> 1) ^^^ 0xEDB88320 else c >>> 1
def crc32Step (crc : UInt32) (b : UInt8) : UInt32 :=
  let c := crc ^^^ b.toUInt32
  crc32Bit (crc32Bit (crc32Bit (crc32Bit (crc32Bit (crc32Bit (crc32Bit (crc32Bit c)))))))
/-- `crc32.ChecksumIEEE` -/
def crc32 (bs : Bytes) : UInt32 := (bs.foldl crc32Step 0xFFFFFFFF) ^^^ 0xFFFFFFFF

/-- `putU64LE` -/
def putU64LE (v : Nat) : Bytes :=
  [UInt8.ofNat v, UInt8.ofNat (v >>> 8), UInt8.ofNat (v >>> 16), UInt8.ofNat (v >>> 24),
   UInt8.ofNat (v >>> 32), UInt8.ofNat (v >>> 40), UInt8.ofNat (v >>> 48), UInt8.ofNat (v >>> 56)]

/-- `isZeroOrAPowerOf2` -/
def isZeroOrAPowerOf2 (x : Nat) : Bool := x == 0 || x &&& (x - 1) == 0

/-- `calcCLength` -/
def calcCLength (primarySize : Nat) : Nat :=
  if primarySize == 0 then 1 else
  let n := ((primarySize - 1) >>> 10) + 1
  if n > 255 then 0 else n

/-! ### underlying io.Writer / TempFile -/
structure IOSt where
  /-- pieces written to `Writer`, newest first -/
  wRev : List Bytes := []
  /-- pieces written to `TempFile`, newest first -/
  tRev : List Bytes := []
  /-- `wRev.length`, `tRev.length` (kept so that the driver can report per-call deltas cheaply) -/
  wN : Nat := 0
  tN : Nat := 0
  /-- number of underlying calls made so far -/
  calls : Nat := 0
  /-- the `failAt`-th underlying call fails (0: none does) -/
  failAt : Nat := 0
  /-- ghost: some underlying call has failed -/
  faulted : Bool := false
deriving Repr, Inhabited

/-- all bytes received by `Writer`, in order -/
def IOSt.wBytes (io : IOSt) : Bytes := io.wRev.reverse.flatten
/-- all bytes received by `TempFile`, in order -/
def IOSt.tBytes (io : IOSt) : Bytes := io.tRev.reverse.flatten

/-- one underlying call: returns the new state and whether the call succeeds -/
def IOSt.tick (io : IOSt) : IOSt × Bool :=
  let c := io.calls + 1
  if c == io.failAt then ({ io with calls := c, faulted := true }, false)
  else ({ io with calls := c }, true)

/-- `ioWriter.Write(data)` on `TempFile` (`toTemp`) or `Writer` -/
def IOSt.write (io : IOSt) (toTemp : Bool) (data : Bytes) : IOSt × Bool :=
  let (io, ok) := io.tick
  if !ok then (io, false)
  else if toTemp then ({ io with tRev := data :: io.tRev, tN := io.tN + 1 }, true)
  else ({ io with wRev := data :: io.wRev, wN := io.wN + 1 }, true)

/-! ### wNode -/
inductive WNode where
  | mk (dRangeSize : Nat) (children : List WNode) (resources : List Nat)
       (cOffsetCLength : Nat) (secondary tertiary : Nat) (codec : Nat) : WNode
deriving Repr, Inhabited

namespace WNode
def dRangeSize : WNode → Nat | .mk d _ _ _ _ _ _ => d
def children : WNode → List WNode | .mk _ c _ _ _ _ _ => c
def resources : WNode → List Nat | .mk _ _ r _ _ _ _ => r
def cOffsetCLength : WNode → Nat | .mk _ _ _ x _ _ _ => x
def secondary : WNode → Nat | .mk _ _ _ _ s _ _ => s
def tertiary : WNode → Nat | .mk _ _ _ _ _ t _ => t
def codec : WNode → Nat | .mk _ _ _ _ _ _ c => c
def isBranch (n : WNode) : Bool := !n.children.isEmpty
def leaf (dRangeSize cOffsetCLength secondary tertiary codec : Nat) : WNode :=
  .mk dRangeSize [] [] cOffsetCLength secondary tertiary codec
end WNode

/-- `resourceToTag` (the tag byte, before `<< 56`).  REPAIRED
(fixes/C13-long-codec-resource-tag.patch): a resource's tag is the index of its
*element*; with a Long Codec the Codec Element is element 0, so `tagBase = 1`.
The pinned code returned the index within `resources` (i.e. `tagBase = 0` always). -/
def resourceToTagByte (resources : List Nat) (r : Nat) (tagBase : Nat) : Nat :=
  if r != 0 then
    match resources.idxOf? r with
    | some i => i + tagBase
    | none => 0xFF
  else 0xFF

/-- `resourceToTag` -/
def resourceToTag (resources : List Nat) (r : Nat) (tagBase : Nat) : Nat :=
  resourceToTagByte resources r tagBase <<< 56

/-! ### gather / makeBranch -/

/-- `sort.Ints` on the (duplicate-free) resource set -/
def insertSorted (x : Nat) : List Nat → List Nat
  | [] => [x]
  | y :: ys => if x ≤ y then x :: y :: ys else y :: insertSorted x ys
def sortNats (l : List Nat) : List Nat := l.foldr insertSorted []

/-- `resources[r] = true` on the Go map, as a duplicate-free list -/
def setInsert (s : List Nat) (r : Nat) : List Nat := if s.contains r then s else r :: s

/-- the codec loop of `makeBranch` -/
def branchCodec : List WNode → Nat
  | [] => 0
  | c :: cs => cs.foldl (fun codec c => if codec != c.codec then codecMixBit ||| codecZeroes else codec) c.codec

/-- `makeBranch` -/
def makeBranch (children : List WNode) (resMap : List Nat) : WNode :=
  let dRangeSize := (children.map WNode.dRangeSize).sum
  .mk dRangeSize children (sortNats resMap) invalidCOffsetCLength 0 0 (branchCodec children)

/-- loop state of one level of `gather`: `cur` is `nodes[i:j]` reversed,
`newNodes` is reversed, `first` is `i == 0`. -/
structure GState where
  cur : List WNode := []
  arity : Nat := 0
  resources : List Nat := []
  newNodes : List WNode := []
  first : Bool := true
deriving Inhabited

/-- body of `for ; j < len(nodes); j++` in `gather` -/
def gatherStep (arityBudget : Nat) (st : GState) (o : WNode) : GState :=
  let new2 := o.secondary != 0 && !st.resources.contains o.secondary
  let new3 := o.tertiary != 0 && !st.resources.contains o.tertiary
  let arity := st.arity + 1 + new2.toNat + new3.toNat
  if arity ≤ arityBudget then
    let rs := if new2 then setInsert st.resources o.secondary else st.resources
    let rs := if new3 then setInsert rs o.tertiary else rs
    { st with cur := o :: st.cur, arity := arity, resources := rs }
  else
    let nn := makeBranch st.cur.reverse st.resources :: st.newNodes
    let rs : List Nat := []
    let arity := 1
    let (rs, arity) := if o.secondary != 0 then (setInsert rs o.secondary, arity + 1) else (rs, arity)
    let (rs, arity) := if o.tertiary != 0 then (setInsert rs o.tertiary, arity + 1) else (rs, arity)
    { cur := [o], arity := arity, resources := rs, newNodes := nn, first := false }

/-- one pass of the outer `for` of `gather`: either the root (`Sum.inl`) or the next level -/
def gatherLevel (arityBudget : Nat) (nodes : List WNode) : Sum WNode (List WNode) :=
  let st := nodes.foldl (gatherStep arityBudget) {}
  if st.first then
    .inl (makeBranch nodes st.resources)
  else
    let rest := st.cur.reverse
    let nn := match rest with
      | [x] => if x.isBranch then x :: st.newNodes else makeBranch rest st.resources :: st.newNodes
      | _ => makeBranch rest st.resources :: st.newNodes
    .inr nn.reverse

/-- `gather` (fuel = number of levels; `nodes.length` always suffices) -/
def gatherFuel (arityBudget : Nat) : Nat → List WNode → WNode
  | 0, nodes => makeBranch nodes []
  | fuel + 1, nodes =>
    match gatherLevel arityBudget nodes with
    | .inl root => root
    | .inr next => gatherFuel arityBudget fuel next

/-- `gather(nodes, codecIsLong)`; Go panics on an empty list, callers never pass one. -/
def gather (nodes : List WNode) (codecIsLong : Bool) : WNode :=
  gatherFuel (if codecIsLong then 0xFE else 0xFF) (nodes.length + 1) nodes

/-! ### calcEncodedSize -/
mutual
/-- `(*wNode).calcEncodedSize`; returns the node with `cOffsetCLength` set on branches -/
def WNode.calcEncodedSize : WNode → Nat → Bool → WNode × Nat
  | .mk d cs rs col s t c, accumulator, rootAndIsAtEnd =>
    let arity := cs.length + rs.length
    if arity == 0 then (.mk d cs rs col s t c, accumulator) else
    let arity := if codecIsLong c then arity + 1 else arity
    let size := arity * 16 + 16
    let cLength := calcCLength size
    if rootAndIsAtEnd then
      let (cs', accumulator) := calcEncodedSizeList cs accumulator
      (.mk d cs' rs (accumulator ||| (cLength <<< 48)) s t c, accumulator + size)
    else
      let col' := accumulator ||| (cLength <<< 48)
      let (cs', accumulator) := calcEncodedSizeList cs (accumulator + size)
      (.mk d cs' rs col' s t c, accumulator)
/-- `for i := range n.children { accumulator = n.children[i].calcEncodedSize(accumulator, false) }` -/
def calcEncodedSizeList : List WNode → Nat → List WNode × Nat
  | [], accumulator => ([], accumulator)
  | n :: ns, accumulator =>
    let (n', accumulator) := n.calcEncodedSize accumulator false
    let (ns', accumulator) := calcEncodedSizeList ns accumulator
    (n' :: ns', accumulator)
end

/-! ### nodeWriter.writeIndex -/
structure NodeWriter where
  cFileSize : Nat := 0
  dataCOffset : Nat := 0
  indexCOffset : Nat := 0
  resourcesCOffCLens : Array Nat := #[]
deriving Repr, Inhabited

def tagFF : Nat := 0xFF <<< 56

/-- the `DPtr|0|TTag` segments of the non-resource children, and the final `dPtr` -/
def dptrSegments (resources : List Nat) (tagBase : Nat) : List WNode → Nat → List Bytes × Nat
  | [], dPtr => ([], dPtr)
  | o :: os, dPtr =>
    let tag := if o.isBranch then 0xFE <<< 56 else resourceToTag resources o.tertiary tagBase
    let (rest, dMax) := dptrSegments resources tagBase os (dPtr + o.dRangeSize)
    (putU64LE (dPtr ||| tag) :: rest, dMax)

/-- the `CPtr|CLen|STag` segments of the non-resource children -/
def cptrSegments (nw : NodeWriter) (resources : List Nat) (tagBase : Nat) (children : List WNode) : List Bytes :=
  children.map fun o =>
    let col := if o.isBranch then o.cOffsetCLength + nw.indexCOffset else o.cOffsetCLength + nw.dataCOffset
    putU64LE (col ||| resourceToTag resources o.secondary tagBase)

/-- the bytes of one branch node, as `writeIndex` lays them out in `w.buffer[:size]` -/
def encodeNode (nw : NodeWriter) (n : WNode) : Except Err Bytes :=
  if !codecValid n.codec then .error .multipleCodecs else
  let long := codecIsLong n.codec
  let arity := n.children.length + n.resources.length + long.toNat
  if arity > 0xFF then .error .internalArityIsTooLarge else
  let seg0 : List Bytes := if long then [putU64LE 0xFD00000000000000] else []
  let segR : List Bytes := n.resources.map fun _ => putU64LE (0 ||| tagFF)
  let tagBase := long.toNat
  let (segC, dPtr) := dptrSegments n.resources tagBase n.children 0
  let codecHighByte := n.codec &&& 0xFF00000000000000
  let segDMax := putU64LE (dPtr ||| codecHighByte)
  let seg1 : List Bytes := if long then [putU64LE (n.codec &&& 0x00FFFFFFFFFFFFFF)] else []
  let segCR : List Bytes := n.resources.map fun res =>
    putU64LE ((nw.resourcesCOffCLens.getD res 0 + nw.dataCOffset) ||| tagFF)
  let segCC := cptrSegments nw n.resources tagBase n.children
  let segCMax := putU64LE (nw.cFileSize ||| (0x01 <<< 48) ||| (arity <<< 56))
  let buf : Bytes := (seg0 ++ segR ++ segC ++ [segDMax] ++ seg1 ++ segCR ++ segCC ++ [segCMax]).flatten
  let body := buf.drop 6
  let checksum := crc32 body
  let checksum := checksum ^^^ (checksum >>> 16)
  .ok ([0x72, 0xC3, 0x63, UInt8.ofNat arity, checksum.toUInt8, (checksum >>> 8).toUInt8] ++ body)

/-- the part of `writeIndex` that encodes one node and hands it to `w.w.Write` -/
def writeNode (nw : NodeWriter) (n : WNode) (io : IOSt) : IOSt × Option Err :=
  match encodeNode nw n with
  | .error e => (io, some e)
  | .ok bytes =>
    let (io, ok) := io.write false bytes
    if ok then (io, none) else (io, some .fault)

mutual
/-- `(*nodeWriter).writeIndex`: one `Write` call per branch node; children before
the node iff `rootAndIsAtEnd`. -/
def writeIndex (nw : NodeWriter) : WNode → Bool → IOSt → IOSt × Option Err
  | .mk d cs rs col s t c, rootAndIsAtEnd, io =>
    if rootAndIsAtEnd then
      match writeIndexList nw cs io with
      | (io, some e) => (io, some e)
      | (io, none) => writeNode nw (.mk d cs rs col s t c) io
    else
      match writeNode nw (.mk d cs rs col s t c) io with
      | (io, some e) => (io, some e)
      | (io, none) => writeIndexList nw cs io
/-- `for i, o := range n.children { if len(o.children) != 0 { writeIndex(&n.children[i], false) } }` -/
def writeIndexList (nw : NodeWriter) : List WNode → IOSt → IOSt × Option Err
  | [], io => (io, none)
  | o :: os, io =>
    match o with
    | .mk _ [] _ _ _ _ _ => writeIndexList nw os io
    | .mk d (c0 :: cs) rs col s t c =>
      match writeIndex nw (.mk d (c0 :: cs) rs col s t c) false io with
      | (io, some e) => (io, some e)
      | (io, none) => writeIndexList nw os io
end

/-! ### ChunkWriter -/

/-- one `AddChunk` that was accepted (ghost record, newest first in `CW.log`) -/
structure ChunkRec where
  dRangeSize : Nat
  codec : Nat
  primary : Bytes
  secondary : Nat
  tertiary : Nat
deriving Repr, Inhabited

structure CW where
  -- exported fields (configuration)
  nilWriter : Bool := false
  indexAtStart : Bool := false
  /-- 0: nil TempFile; 1: an io.ReadWriter that is not an io.Seeker; 2: also an io.Seeker -/
  tempKind : Nat := 0
  cPageSize : Nat := 0
  -- state
  initialized : Bool := false
  codec : Nat := 0
  err : Option Err := none
  dataSize : Nat := 0
  dFileSize : Nat := 0
  resourcesCOffCLens : Array Nat := #[]
  leafNodes : Array WNode := #[]
  log2CPageSize : Nat := 0
  io : IOSt := {}
  /-- ghost: accepted chunks and resources, newest first -/
  log : List ChunkRec := []
  resLog : List Bytes := []
deriving Inhabited

namespace CW

def fail (w : CW) (e : Err) : CW × Option Err := ({ w with err := some e }, some e)

/-- `checkParameters`.  The Go loop `for log2 = 1; CPageSize != 1<<log2; log2++`
ends with `log2 = Nat.log2 CPageSize` for a power of two (for `CPageSize = 1`
only after the `uint32` counter wraps around, ~2^32 iterations). -/
def checkParameters (w : CW) : CW × Option Err :=
  if w.nilWriter then w.fail .invalidWriter
  else if !isZeroOrAPowerOf2 w.cPageSize || w.cPageSize > maxSize then w.fail .invalidCPageSize
  else if w.cPageSize > 0 then ({ w with log2CPageSize := Nat.log2 w.cPageSize }, none)
  else (w, none)

/-- `padToPageSize` loop: pieces of at most `padLen` bytes, one `Write` each. -/
def padLoop (toTemp : Bool) (padLen : Nat) : Nat → Nat → CW → CW × Option Err
  | 0, _, w => (w, none)
  | fuel + 1, remaining, w =>
    if remaining == 0 then (w, none) else
    let n := if remaining < padLen then remaining else padLen
    let (io, ok) := w.io.write toTemp (List.replicate n 0)
    if !ok then ({ w with io := io, err := some .fault }, some .fault) else
    let w := { w with io := io, dataSize := w.dataSize + n }
    if w.dataSize > maxSize then w.fail .tooMuchInput
    else padLoop toTemp padLen fuel (remaining - n) w

/-- `padToPageSize(ioWriter, offset)` -/
def padToPageSize (w : CW) (toTemp : Bool) (offset : Nat) : CW × Option Err :=
  if w.cPageSize == 0 then (w, none) else
  let offset := offset &&& (w.cPageSize - 1)
  if offset == 0 then (w, none) else
  let padLen := if w.cPageSize > 4096 then 4096 else w.cPageSize
  let remaining := w.cPageSize - offset
  padLoop toTemp padLen remaining remaining w

/-- `writePadding(ioWriter, lenData)` (called only when `CPageSize > 0`) -/
def writePadding (w : CW) (toTemp : Bool) (lenData : Nat) : CW × Option Err :=
  if lenData == 0 then (w, none) else
  let offset0 := w.dataSize &&& (w.cPageSize - 1)
  let offset1WithPadding := lenData
  let offset1SansPadding := offset0 + lenData
  let numPagesWithPadding := (offset1WithPadding + (w.cPageSize - 1)) >>> w.log2CPageSize
  let numPagesSansPadding := (offset1SansPadding + (w.cPageSize - 1)) >>> w.log2CPageSize
  if numPagesSansPadding == numPagesWithPadding then (w, none)
  else w.padToPageSize toTemp w.dataSize

/-- `(*ChunkWriter).write(data)` -/
def write (w : CW) (data : Bytes) : CW × Option Err :=
  let toTemp := w.tempKind != 0
  if data.length > maxSize then w.fail .tooMuchInput else
  let (w, e) := if w.cPageSize > 0 then w.writePadding toTemp data.length else (w, none)
  if e.isSome then (w, e) else
  let (io, ok) := w.io.write toTemp data
  if !ok then ({ w with io := io, err := some .fault }, some .fault) else
  let w := { w with io := io, dataSize := w.dataSize + data.length }
  if w.dataSize > maxSize then w.fail .tooMuchInput else (w, none)

/-- `indexLocationAtEndMagic` -/
def indexLocationAtEndMagic : Bytes := [0x72, 0xC3, 0x63, 0x00]

/-- `s.Seek(…)` on a TempFile that is an `io.Seeker` (no-op otherwise) -/
def seekTemp (w : CW) : CW × Option Err :=
  if w.tempKind == 2 then
    let (io, ok) := w.io.tick
    if ok then ({ w with io := io }, none) else ({ w with io := io, err := some .fault }, some .fault)
  else (w, none)

/-- `initialize` -/
def init (w : CW) : CW × Option Err :=
  match w.err with
  | some e => (w, some e)
  | none =>
  if w.initialized then (w, none) else
  let w := { w with initialized := true }
  let (w, e) := w.checkParameters
  if e.isSome then (w, e) else
  -- `if s, ok := w.TempFile.(io.Seeker); ok { s.Seek(0, io.SeekCurrent) }`
  let (w, e) := w.seekTemp
  if e.isSome then (w, e) else
  if !w.indexAtStart then
    if w.tempKind != 0 then w.fail .ilaEndTempFile
    else w.write indexLocationAtEndMagic
  else
    if w.tempKind == 0 then w.fail .ilaStartTempFile else (w, none)

/-- `AddResource`: returns the OptResource id (0 on error) -/
def addResource (w : CW) (resource : Bytes) : CW × Nat × Option Err :=
  if w.resourcesCOffCLens.size ≥ 2 ^ 30 then
    ({ w with err := some .tooManyResources }, 0, some .tooManyResources) else
  let (w, e) := w.init
  if e.isSome then (w, 0, e) else
  let (w, e) := w.write resource
  if e.isSome then (w, 0, e) else
  let rs := if w.resourcesCOffCLens.size == 0 then #[0] else w.resourcesCOffCLens
  let id := rs.size
  let cOffset := w.dataSize - resource.length
  let cLength := calcCLength resource.length
  ({ w with resourcesCOffCLens := rs.push (cOffset ||| (cLength <<< 48)), resLog := resource :: w.resLog }, id, none)

/-- `AddChunk` -/
def addChunk (w : CW) (dRangeSize codec : Nat) (primary : Bytes) (secondary tertiary : Nat) :
    CW × Option Err :=
  match w.err with
  | some e => (w, some e)
  | none =>
  if dRangeSize == 0 then (w, none) else
  if dRangeSize > maxSize || w.dFileSize + dRangeSize > maxSize then w.fail .tooMuchInput else
  if w.leafNodes.size ≥ 2 ^ 30 then w.fail .tooManyChunks else
  let (w, e) := w.init
  if e.isSome then (w, e) else
  let (w, e) : CW × Option Err :=
    if w.leafNodes.size == 0 then
      if !codecValid codec then (w, some .invalidCodec) else ({ w with codec := codec }, none)
    else if w.codec != codec then w.fail .multipleCodecs
    else (w, none)
  if e.isSome then (w, e) else
  let (w, e) := w.write primary
  if e.isSome then (w, e) else
  let cOffset := w.dataSize - primary.length
  let cLength := calcCLength primary.length
  ({ w with
      dFileSize := w.dFileSize + dRangeSize,
      leafNodes := w.leafNodes.push (WNode.leaf dRangeSize (cOffset ||| (cLength <<< 48)) secondary tertiary codec),
      log := ⟨dRangeSize, codec, primary, secondary, tertiary⟩ :: w.log }, none)

/-- `emptyRACFile` -/
def emptyRACFile : Bytes :=
  [0x72, 0xC3, 0x63, 0x01, 0x0D, 0xF8, 0x00, 0xFF,
   0x00, 0x00, 0x00, 0x00, 0x00, 0x00, 0x00, 0x00,
   0x20, 0x00, 0x00, 0x00, 0x00, 0x00, 0x01, 0xFF,
   0x20, 0x00, 0x00, 0x00, 0x00, 0x00, 0x01, 0x01]

/-- `roundUpToCPageBoundary` -/
def roundUpToCPageBoundary (w : CW) (x : Nat) : Nat :=
  if w.cPageSize == 0 then x
  else ((x + w.cPageSize - 1) / w.cPageSize) * w.cPageSize

/-- block size of `io.Copy`'s internal buffer -/
def copyBlock : Nat := 32768

/-- `io.Copy(w.Writer, w.TempFile)` for a TempFile that is neither an
`io.WriterTo` nor wrapped: `Read` up to 32 KiB, `Write` it, until `Read` says EOF.
Returns the number of bytes copied. -/
def copyLoop : Nat → Bytes → Nat → IOSt → IOSt × Nat × Option Err
  | 0, _, n, io => (io, n, some .fuel)
  | fuel + 1, rest, n, io =>
    let (io, ok) := io.tick                     -- src.Read
    if !ok then (io, n, some .fault) else
    if rest.isEmpty then (io, n, none) else     -- (0, io.EOF)
    let blk := rest.take copyBlock
    let (io, ok) := io.write false blk          -- dst.Write
    if !ok then (io, n, some .fault) else
    copyLoop fuel (rest.drop copyBlock) (n + blk.length) io

/-- `Close`, `IndexLocationAtEnd` part: padding, then the index -/
def closeAtEnd (w : CW) (nw : NodeWriter) (rootNode : WNode) : CW × Option Err :=
  -- Write the align-to-CPageSize padding.
  let (w, e) := if w.cPageSize > 0 then w.padToPageSize false w.dataSize else (w, none)
  if e.isSome then (w, e) else
  -- Write the index. The compressed data has already been written.
  match writeIndex nw rootNode true w.io with
  | (io, some e) => ({ w with io := io, err := some e }, some e)
  | (io, none) => ({ w with io := io, err := some .alreadyClosed }, none)

/-- `Close`, `IndexLocationAtStart` part: the index, padding, then the TempFile's content -/
def closeAtStart (w : CW) (nw : NodeWriter) (rootNode : WNode) (indexSize : Nat) : CW × Option Err :=
  let expectedTempFileSize := w.dataSize
  -- Write the index.
  match writeIndex nw rootNode false w.io with
  | (io, some e) => ({ w with io := io, err := some e }, some e)
  | (io, none) =>
  let w := { w with io := io }
  -- Write the align-to-CPageSize padding.
  let (w, e) := if w.cPageSize > 0 then w.padToPageSize false indexSize else (w, none)
  if e.isSome then (w, e) else
  -- Write the compressed data.
  let (w, e) := w.seekTemp           -- s.Seek(w.tempFileSeekStart, io.SeekStart)
  if e.isSome then (w, e) else
  let t := w.io.tBytes
  match copyLoop (t.length + 2) t 0 w.io with
  | (io, _, some e) => ({ w with io := io, err := some e }, some e)
  | (io, n, none) =>
    if n != expectedTempFileSize then { w with io := io }.fail .inconsistentCompressedSize
    else ({ w with io := io, err := some .alreadyClosed }, none)

/-- the `nodeWriter` that `Close` sets up -/
def mkNodeWriter (w : CW) (indexSize : Nat) : NodeWriter :=
  if !w.indexAtStart then
    let ico := w.roundUpToCPageBoundary w.dataSize
    { resourcesCOffCLens := w.resourcesCOffCLens, indexCOffset := ico, cFileSize := ico + indexSize }
  else
    let dco := w.roundUpToCPageBoundary indexSize
    { resourcesCOffCLens := w.resourcesCOffCLens, dataCOffset := dco, cFileSize := dco + w.dataSize }

/-- `Close` -/
def close (w : CW) : CW × Option Err :=
  match w.err with
  | some e => (w, some e)
  | none =>
  let (w, e) := if !w.initialized then w.checkParameters else (w, none)
  if e.isSome then (w, e) else
  if w.leafNodes.size == 0 then
    let (io, ok) := w.io.write false emptyRACFile
    ({ w with io := io }, if ok then none else some .fault)
  else
  let rootNode := gather w.leafNodes.toList (codecIsLong w.codec)
  let (rootNode, indexSize) := rootNode.calcEncodedSize 0 (!w.indexAtStart)
  let nw := w.mkNodeWriter indexSize
  if nw.cFileSize > maxSize then w.fail .tooMuchInput else
  if !w.indexAtStart then w.closeAtEnd nw rootNode
  else w.closeAtStart nw rootNode indexSize

end CW
end WuffsVerif.Rac
