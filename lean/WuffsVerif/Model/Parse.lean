/-
Model of /repo/lang/parse/parse.go (with the C11 repairs: an `iterate` assignment without
`=` is an ordinary error; choosy functions and coroutines need a receiver; the parser counts
its own recursion against `ast.MaxExprDepth`, `ast.MaxTypeExprDepth`, `ast.MaxBodyDepth`, and
the length of a postfix chain `a.b[c](d)…` against `ast.MaxExprDepth`).

Every Go function that takes part in a recursion cycle is in the `mutual` block below; the
cycle-free helpers (`parseList`, `parseArgNode`, `parseBracket`, `parseAssertNode`, …) are
combinators that take the recursive parser they need as an argument.  The mutual block is
defined by well-founded recursion on

      (exprBudget + typeBudget + bodyBudget,  rank of the function,  loop fuel)

so Lean's termination checker certifies that every cycle of calls passes through one of the
depth guards (the budgets are `Max…Depth + 1 - depth`), i.e. that the parser's recursion
depth is bounded by the three constants whatever the input is.

The AST is the generic `Node` (kind, flags, id0–id2, line, lhs/mhs/rhs, list0–list2), dumped
in the same pre-order as harness/cmd/c11/tie.go `dumpNode`.
-/
import WuffsVerif.Model.Token

namespace WuffsVerif.Parse
open WuffsVerif.Token WuffsVerif.Gen.C11

/-! ## AST (lang/ast/ast.go `Node`) -/

inductive Node where
  | nil : Node
  | mk (kind flags id0 id1 id2 line : Nat) (lhs mhs rhs : Node) (l0 l1 l2 : List Node) : Node
  deriving Inhabited

namespace Node
def kind : Node → Nat | nil => 0 | mk k .. => k
def flags : Node → Nat | nil => 0 | mk _ f .. => f
def id0 : Node → Nat | nil => 0 | mk _ _ a .. => a
def id1 : Node → Nat | nil => 0 | mk _ _ _ a .. => a
def id2 : Node → Nat | nil => 0 | mk _ _ _ _ a .. => a
def lhs : Node → Node | nil => nil | mk _ _ _ _ _ _ a .. => a
def mhs : Node → Node | nil => nil | mk _ _ _ _ _ _ _ a .. => a
def rhs : Node → Node | nil => nil | mk _ _ _ _ _ _ _ _ a .. => a
def l0 : Node → List Node | nil => [] | mk _ _ _ _ _ _ _ _ _ a .. => a
def l1 : Node → List Node | nil => [] | mk _ _ _ _ _ _ _ _ _ _ a _ => a
def l2 : Node → List Node | nil => [] | mk _ _ _ _ _ _ _ _ _ _ _ a => a
def isNil : Node → Bool | nil => true | _ => false
def setLine (l : Nat) : Node → Node
  | nil => nil
  | mk k f a b c _ x y z p q r => mk k f a b c l x y z p q r
def setRhs : Node → Node → Node
  | nil, _ => nil
  | mk k f a b c l x y _ p q r, n => mk k f a b c l x y n p q r
def setL0 (v : List Node) : Node → Node
  | nil => nil
  | mk k f a b c l x y z _ q r => mk k f a b c l x y z v q r
end Node

def KArg := 1
def KAssert := 2
def KAssign := 3
def KChoose := 4
def KConst := 5
def KExpr := 6
def KField := 7
def KFile := 8
def KFunc := 9
def KIOManip := 10
def KIf := 11
def KIterate := 12
def KJump := 13
def KRet := 14
def KStatus := 15
def KStruct := 16
def KTypeExpr := 17
def KUse := 18
def KVar := 19
def KWhile := 20

def FlagsPublic := 0x100
def FlagsHasBreak := 0x200
def FlagsHasContinue := 0x400
def FlagsHasDeepBreak := 0x800
def FlagsHasDeepContinue := 0x1000
def FlagsClassy := 0x4000
def FlagsSubExprHasEffect := 0x8000
def FlagsPrivateData := 0x20000
def FlagsChoosy := 0x40000
def FlagsHasChooseCPUArch := 0x80000

def EffectImpure := 1
def EffectImpureCoroutine := 3

def MaxExprDepth := 255
def MaxTypeExprDepth := 63
def MaxBodyDepth := 255
def MaxImplements := 63

def effectOf (n : Node) : Nat := n.flags % 256
def effImpure (e : Nat) : Bool := e % 2 == 1
def effCoroutine (e : Nat) : Bool := (e / 2) % 2 == 1
def hasFlag (f bit : Nat) : Bool := (f / bit) % 2 == 1

/-- `ast.NewExpr`. -/
def newExpr (flags op ident : Nat) (lhs mhs rhs : Node) (args : List Node) : Node :=
  let sub := [lhs, mhs, rhs].foldl (fun acc n => acc ||| effectOf n) 0
  let sub := args.foldl (fun acc n => acc ||| effectOf n) sub
  let flags := if sub != 0 then flags ||| sub ||| FlagsSubExprHasEffect else flags
  .mk KExpr flags op 0 ident 0 lhs mhs rhs args [] []

def newTypeExpr (decorator pkg name : Nat) (alenRecvMin max inner : Node) : Node :=
  .mk KTypeExpr 0 decorator pkg name 0 alenRecvMin max inner [] [] []

def isArgsDotFoo (n : Node) : Nat :=
  if n.id0 == IDDot && n.lhs.id0 == 0 && n.lhs.id2 == IDArgs then n.id2 else 0

/-! ## parser state -/

structure Opts where
  allowBuiltInNames : Bool := false
  allowDoubleUnderscoreNames : Bool := false

structure LoopEnt where
  label : Nat
  flags : Nat := 0

structure PState where
  src : List Tok
  lastLine : Nat := 0
  funcEffect : Nat := 0
  loops : List LoopEnt := []     -- head = `p.loops.Top()`
  allowVar : Bool := false

inductive PErr where
  | at (line : Nat)    -- `parse: … at filename:line`
  | internal           -- the `internal error: no … form` messages (no line)
  | stuck              -- a model loop ran out of fuel (proved / observed impossible)
  deriving Repr, DecidableEq, Inhabited

structure Env where
  tm : TMap
  opts : Opts

abbrev P := StateT PState (Except PErr)

def curLine : P Nat := do
  let s ← get
  match s.src with
  | t :: _ => pure t.line
  | [] => pure s.lastLine

def peek1 : P Nat := do
  match (← get).src with
  | t :: _ => pure t.id
  | [] => pure 0

def skip : P Unit := modify fun s => { s with src := s.src.drop 1 }

def failHere {α : Type} : P α := do
  let l ← curLine
  throw (.at l)

def expect (id : Nat) : P Unit := do
  if (← peek1) == id then skip else failHere

def remaining : P Nat := do pure (← get).src.length

/-- `parseIdent`. -/
def parseIdent (env : Env) : P Nat := do
  match (← get).src with
  | [] => failHere
  | t :: _ =>
    if !isIdent env.tm t.id then failHere
    else do skip; pure t.id

/-- `parseQualifiedIdent`: "foo.bar" or "bar". -/
def parseQualifiedIdent (env : Env) : P (Nat × Nat) := do
  let x ← parseIdent env
  if (← peek1) != IDDot then pure (0, x)
  else do
    skip
    let y ← parseIdent env
    pure (x, y)

def parseLabel (env : Env) : P Nat := do
  if (← peek1) == IDDot then do skip; parseIdent env else pure 0

/-- `parseEffect`. -/
def parseEffect : P Nat := do
  let x ← peek1
  if x == IDExclam then do skip; pure EffectImpure
  else if x == IDQuestion then do skip; pure EffectImpureCoroutine
  else pure 0

/-- `parseList(stop, parseElem)`; `fuel` bounds the iterations (each consumes a token). -/
def parseListLoop (env : Env) (stop : Nat) (elem : P Node) : Nat → List Node → P (List Node)
  | 0, _ => throw .stuck
  | fuel + 1, acc => do
    match (← get).src with
    | [] => failHere
    | t :: _ =>
      if t.id == stop then do
        if stop == IDCloseParen || stop == IDCloseBracket then skip
        pure acc.reverse
      else if stop == IDOpenDoubleCurly && t.id == IDOpenCurly then pure acc.reverse
      else do
        let e ← elem
        let acc := e :: acc
        let x ← peek1
        if x == stop then do
          if stop == IDCloseParen || stop == IDCloseBracket then skip
          pure acc.reverse
        else if x == IDComma then do
          skip
          parseListLoop env stop elem fuel acc
        else failHere

def parseList (env : Env) (stop : Nat) (elem : P Node) : P (List Node) := do
  (if stop == IDCloseParen then expect IDOpenParen else pure ())
  let n ← remaining
  parseListLoop env stop elem (n + 2) []

/-- `parseArgNode`, given the expression parser. -/
def parseArgNode (env : Env) (pe : P Node) : P Node := do
  let name ← parseIdent env
  expect IDColon
  let value ← pe
  if effectOf value != 0 then failHere
  pure (.mk KArg 0 0 0 name 0 .nil .nil value [] [] [])

/-- `parseBracket(sep)`: returns (op, ei, ej). -/
def parseBracket (sep : Nat) (pe : P Node) : P (Nat × Node × Node) := do
  expect IDOpenBracket
  let ei ← if (← peek1) != sep then pe else pure .nil
  let x ← peek1
  if x == sep then skip
  else if x == IDCloseBracket && sep == IDDotDot then do
    skip
    return (IDOpenBracket, .nil, ei)
  else failHere
  let ej ← if (← peek1) != IDCloseBracket then pe else pure .nil
  expect IDCloseBracket
  pure (sep, ei, ej)

/-- `parseAssertNode`. -/
def parseAssertNode (env : Env) (pe : P Node) : P Node := do
  let x ← peek1
  if x == IDAssert || x == IDChoose || x == IDPre || x == IDInv || x == IDPost then do
    skip
    let condition ← pe
    if effectOf condition != 0 then failHere
    if (← peek1) == IDVia then do
      skip
      let reason ← peek1
      if !isDQStrLiteral env.tm reason then failHere
      skip
      let args ← parseList env IDCloseParen (parseArgNode env pe)
      pure (.mk KAssert 0 x 0 reason 0 .nil .nil condition args [] [])
    else pure (.mk KAssert 0 x 0 0 0 .nil .nil condition [] [] [])
  else failHere

/-- `assertsSorted` as a pure check (the Go function returns an error or nil). -/
def assertsSortedOK (allowChoose : Bool) : List Node → Bool × Bool × Bool → Bool
  | [], _ => true
  | o :: rest, (seenPre, seenInv, seenPost) =>
    let k := o.id0
    if k == IDAssert then false
    else if k == IDChoose then
      if !allowChoose then false
      else if seenPre || seenPost || seenInv then false
      else assertsSortedOK allowChoose rest (seenPre, seenInv, seenPost)
    else if k == IDPre then
      if seenPost || seenInv then false else assertsSortedOK allowChoose rest (true, seenInv, seenPost)
    else if k == IDInv then
      if seenPost then false else assertsSortedOK allowChoose rest (seenPre, true, seenPost)
    else assertsSortedOK allowChoose rest (seenPre, seenInv, true)

def assertsSorted (asserts : List Node) (allowChoose : Bool) : P Unit :=
  if assertsSortedOK allowChoose asserts (false, false, false) then pure () else failHere

/-- `parseAsserts` (while / iterate). -/
def parseAsserts (env : Env) (pe : P Node) : P (List Node) := do
  if (← peek1) == IDComma then do
    skip
    let asserts ← parseList env IDOpenDoubleCurly (parseAssertNode env pe)
    assertsSorted asserts false
    pure asserts
  else pure []

def isChooseCPUArch (n : Node) : Bool :=
  if n.id0 != IDChoose then false
  else
    let cond := n.rhs
    let ge := binaryForm ((builtInsByName.getD ">=" 0))
    if cond.id0 != ge then false
    else
      let l := cond.lhs
      let r := cond.rhs
      if l.id0 != 0 || l.id2 != IDCPUArch || r.id0 != 0 then false
      else r.id2 == IDARMCRC32 || r.id2 == IDARMNeon || r.id2 == IDX86SSE42 ||
        r.id2 == IDX86AVX2 || r.id2 == IDX86BMI2

/-- `asSmallPositiveInt256`. -/
def asSmallPositiveInt256 (tm : TMap) (id : Nat) : Nat :=
  if !isNumLiteral tm id then 0
  else
    let s := (tm.byIDStr id).toList
    match s with
    | [] => 0
    | c :: rest =>
      if s.length > 3 || c < '1' || '9' < c then 0
      else
        let r := rest.foldl (fun (acc : Option Nat) d =>
          match acc with
          | none => none
          | some n => if d < '0' || '9' < d then none else some (10 * n + (d.toNat - 48)))
          (some (c.toNat - 48))
        match r with
        | none => 0
        | some n => if n > 256 then 0 else n

/-! ## loops stack (ast.LoopStack) -/

def loopsPush (label : Nat) : P Bool := do
  let s ← get
  if label != 0 && s.loops.any (fun o => o.label == label) then pure false
  else do
    modify fun st => { st with loops := ⟨label, 0⟩ :: st.loops }
    pure true

def loopsPop : P LoopEnt := do
  let s ← get
  match s.loops with
  | [] => pure ⟨0, 0⟩
  | l :: _ => do
    modify fun st => { st with loops := st.loops.drop 1 }
    pure l

/-- `break` / `continue`: find the target loop and set its flags. -/
def parseJump (env : Env) (x : Nat) : P Node := do
  skip
  let label ← parseLabel env
  let s ← get
  -- index (from the top) of the target loop
  let target : Option Nat :=
    match s.loops with
    | [] => none
    | top :: _ =>
      if label == 0 then (if top.label != 0 then some s.loops.length /- marker: error -/ else some 0)
      else s.loops.findIdx? (fun o => o.label == label)
  match target with
  | none => failHere
  | some idx =>
    if idx ≥ s.loops.length then failHere
    else do
      let deep := idx != 0
      let bits :=
        if x == IDBreak then (if deep then FlagsHasBreak ||| FlagsHasDeepBreak else FlagsHasBreak)
        else (if deep then FlagsHasContinue ||| FlagsHasDeepContinue else FlagsHasContinue)
      modify fun st => { st with
        loops := st.loops.mapIdx (fun i o => if i == idx then { o with flags := o.flags ||| bits } else o) }
      pure (.mk KJump 0 x label 0 0 .nil .nil .nil [] [] [])

/-! ## `ast.Terminates` -/

mutual
def terminatesNode (fuel : Nat) (n : Node) : Bool :=
  match fuel with
  | 0 => false
  | fuel + 1 =>
    if n.kind == KIf then terminatesIf fuel n
    else if n.kind == KJump then true
    else if n.kind == KRet then n.id0 == IDReturn
    else if n.kind == KWhile then
      (n.mhs.id0 == 0 && n.mhs.id2 == IDTrue) && !hasFlag n.flags FlagsHasBreak
    else false
def terminatesIf (fuel : Nat) (n : Node) : Bool :=
  match fuel with
  | 0 => false
  | fuel + 1 =>
    if !terminatesList fuel n.l2 then false
    else
      let bodyF := n.l1
      if bodyF.length > 0 && !terminatesList fuel bodyF then false
      else if n.rhs.isNil then bodyF.length > 0
      else terminatesIf fuel n.rhs
def terminatesList (fuel : Nat) (body : List Node) : Bool :=
  match fuel with
  | 0 => false
  | fuel + 1 =>
    match body.getLast? with
    | none => false
    | some n => terminatesNode fuel n
end

/-! ## names -/

def validConstName (s : String) : Bool :=
  let l := s.toList
  !(l.length ≥ 2 && l[0]! == '_' && l[1]! == '_') &&
    l.all (fun c => c == '_' || ('0' ≤ c && c ≤ '9') || ('A' ≤ c && c ≤ 'Z'))

def containsDoubleUnderscore (s : String) : Bool :=
  let l := s.toList
  (l.zip (l.drop 1)).any (fun p => p.1 == '_' && p.2 == '_')

/-- `isStatusMessage(Unescape(s))` for a `"`-string token spelling. -/
def isStatusMessageTok (s : String) : Bool :=
  let l := s.toList
  l.length ≥ 2 && l.getLast? == some '"' &&
    (match l.drop 1 with
     | c :: _ :: _ => c == '@' || c == '#' || c == '$'
     | _ => false)

/-! ## the recursive core -/

def typeInnermost (fuel : Nat) (n : Node) : Node :=
  match fuel with
  | 0 => n
  | fuel + 1 => if n.isNil || n.rhs.isNil then n else typeInnermost fuel n.rhs

def typeIsNumType (n : Node) : Bool := n.id0 == 0 && n.id1 == IDBase && isNumType n.id2
def typeIsRefined (n : Node) : Bool := typeIsNumType n && (!n.lhs.isNil || !n.mhs.isNil)

/-- the `for p.peek1() == x` loop of `parseExpr1` (accumulator reversed). -/
def assocLoop (pOperand : P Node) (x : Nat) : Nat → List Node → P (List Node)
  | 0, _ => throw .stuck
  | fuel + 1, acc => do
    if (← peek1) == x then do
      skip
      let arg ← pOperand
      assocLoop pOperand x fuel (arg :: acc)
    else pure acc.reverse

/-- the postfix loop of `parseOperand` (calls, indexes/slices, selectors); `cnt` is Go's
`chainLength`: the chain builds a tree as deep as it is long, so its length is bounded too. -/
def operandLoop (env : Env) (pe : P Node) : Nat → Nat → Bool → Node → P Node
  | 0, _, _, _ => throw .stuck
  | fuel + 1, cnt, first, lhs => do
    if cnt > MaxExprDepth then failHere
    let x ← peek1
    if x == IDExclam || x == IDQuestion || x == IDOpenParen then do
      let flags ← (if x == IDOpenParen then pure 0 else parseEffect : P Nat)
      let args ← parseList env IDCloseParen (parseArgNode env pe)
      operandLoop env pe fuel (cnt + 1) false (newExpr flags IDOpenParen 0 lhs .nil .nil args)
    else if x == IDOpenBracket then do
      let (id0, mhs, rhs) ← parseBracket IDDotDot pe
      operandLoop env pe fuel (cnt + 1) false (newExpr 0 id0 0 lhs mhs rhs [])
    else if x == IDDot then do
      skip
      let sel ← peek1
      let selector ← (if first && isDQStrLiteral env.tm sel then (do skip; pure sel : P Nat)
        else parseIdent env)
      operandLoop env pe fuel (cnt + 1) false (newExpr 0 IDDot selector lhs .nil .nil [])
    else pure lhs

/-- the loops, started with one unit of fuel more than there are tokens left. -/
def assocAll (pOperand : P Node) (x : Nat) (acc : List Node) : P (List Node) := do
  let n ← remaining
  assocLoop pOperand x (n + 1) acc

def operandAll (env : Env) (pe : P Node) (lhs : Node) : P Node := do
  let n ← remaining
  operandLoop env pe (n + 1) 0 true lhs

/-! The expression / type-expression cycle.  Measure: `8 * (e + t + b) + rank` where `e t b`
are the remaining depth budgets and `rank` orders the unguarded calls
(`expr1 > operand > possibleList > expr = typeExpr`). -/
mutual

/-- `parseExpr` (guarded by `exprDepth`). -/
def pExpr (env : Env) (e t b : Nat) : P Node :=
  match e with
  | 0 => failHere
  | e' + 1 => do
    let x ← pExpr1 env e' t b
    if hasFlag x.flags FlagsSubExprHasEffect then failHere
    pure x
termination_by 8 * (e + t + b)
decreasing_by all_goals omega

/-- `parseExpr1`. -/
def pExpr1 (env : Env) (e t b : Nat) : P Node := do
  let lhs ← pOperand env e t b
  let x ← peek1
  if isBinaryOp x then do
    skip
    let rhs ← (if x == IDAs then pTypeExpr env e t b else pOperand env e t b)
    if !isAssociativeOp x || x != (← peek1) then
      let op := binaryForm x
      if op == 0 then throw .internal
      pure (newExpr 0 op 0 lhs .nil rhs [])
    else do
      let args ← assocAll (pOperand env e t b) x [rhs, lhs]
      let op := associativeForm x
      if op == 0 then throw .internal
      pure (newExpr 0 op 0 .nil .nil .nil args)
  else pure lhs
termination_by 8 * (e + t + b) + 7
decreasing_by all_goals omega

/-- `parseOperand`. -/
def pOperand (env : Env) (e t b : Nat) : P Node := do
  let x ← peek1
  if isUnaryOp x then do
    skip
    match e with
    | 0 => failHere
    | e' + 1 => do
      let rhs ← pOperand env e' t b
      let op := unaryForm x
      if op == 0 then throw .internal
      pure (newExpr 0 op 0 .nil .nil rhs [])
  else if isLiteral env.tm x then do
    skip
    pure (newExpr 0 0 x .nil .nil .nil [])
  else if x == IDOpenParen then do
    skip
    let expr ← pExpr env e t b
    expect IDCloseParen
    pure expr
  else do
    let id ← parseIdent env
    let lhs := newExpr 0 0 id .nil .nil .nil []
    operandAll env (pExpr env e t b) lhs
termination_by 8 * (e + t + b) + 5
decreasing_by all_goals omega

/-- `parseTypeExpr` (guarded by `typeExprDepth`). -/
def pTypeExpr (env : Env) (e t b : Nat) : P Node :=
  match t with
  | 0 => failHere
  | t' + 1 => do
    let x ← peek1
    if x == IDNptr || x == IDPtr then do
      skip
      let rhs ← pTypeExpr env e t' b
      pure (newTypeExpr x 0 0 .nil .nil rhs)
    else if x == IDArray || x == IDRoarray then do
      skip
      expect IDOpenBracket
      let alen ← pExpr env e t' b
      expect IDCloseBracket
      let rhs ← pTypeExpr env e t' b
      pure (newTypeExpr x 0 0 alen .nil rhs)
    else if x == IDRoslice || x == IDRotable || x == IDSlice || x == IDTable then do
      skip
      let rhs ← pTypeExpr env e t' b
      pure (newTypeExpr x 0 0 .nil .nil rhs)
    else do
      let (pkg, name) ← parseQualifiedIdent env
      if (← peek1) == IDOpenBracket then do
        let (_, lhs, mhs) ← parseBracket IDDotDotEq (pExpr env e t' b)
        if isNumType name && (pkg == IDBase || (pkg == 0 && env.opts.allowBuiltInNames)) then
          pure (newTypeExpr 0 pkg name lhs mhs .nil)
        else failHere
      else pure (newTypeExpr 0 pkg name .nil .nil .nil)
termination_by 8 * (e + t + b)
decreasing_by all_goals omega

/-- `parsePossibleListExpr`. -/
def pPossibleList (env : Env) (e t b : Nat) : P Node := do
  if (← peek1) != IDOpenBracket then pExpr env e t b
  else
    match e with
    | 0 => failHere
    | e' + 1 => do
      skip
      let args ← parseList env IDCloseBracket (pPossibleList env e' t b)
      pure (newExpr 0 IDComma 0 .nil .nil .nil args)
termination_by 8 * (e + t + b) + 1
decreasing_by all_goals omega

end

/-! ## statements -/

def newAssign (op : Nat) (lhs rhs : Node) : Node := .mk KAssign 0 op 0 0 0 lhs .nil rhs [] [] []

/-- The LHS walk of `parseAssignNode` (`for l := lhs; l != nil; l = l.LHS()`); the
`l == lhs` (root) case of a cannot-assign-to name is checked by the caller. -/
def checkAssignLHS (env : Env) (funcEffect : Nat) : Nat → Node → Bool
  | 0, _ => true
  | fuel + 1, l =>
    if l.isNil then true
    else if l.id0 == 0 then
      if isLiteral env.tm l.id2 then false
      else if isCannotAssignTo l.id2 && !effImpure funcEffect then false
      else checkAssignLHS env funcEffect fuel l.lhs
    else if l.id0 == IDDot || l.id0 == IDOpenBracket then checkAssignLHS env funcEffect fuel l.lhs
    else false

/-- `parseAssignNode`. -/
def parseAssignNode (env : Env) (pe : P Node) : P Node := do
  let rhs0 ← pe
  let op ← peek1
  if isAssign op then do
    skip
    let lhs := rhs0
    if effectOf lhs != 0 then failHere
    let fe := (← get).funcEffect
    -- the root: a literal, or a cannot-assign-to name, is rejected outright
    if lhs.id0 == 0 && !isLiteral env.tm lhs.id2 && isCannotAssignTo lhs.id2 then failHere
    if !checkAssignLHS env fe 100000000 lhs then failHere
    let rhs ← pe
    if op == IDEqQuestion then
      if rhs.id0 != IDOpenParen || !effCoroutine (effectOf rhs) then failHere
    if fe < effectOf rhs then failHere
    pure (newAssign op lhs rhs)
  else do
    let fe := (← get).funcEffect
    if fe < effectOf rhs0 then failHere
    pure (newAssign IDEq .nil rhs0)

/-- `parseIterateAssignNode`. -/
def parseIterateAssignNode (env : Env) (pe : P Node) : P Node := do
  let n ← parseAssignNode env pe
  if n.id0 != IDEq then failHere
  if n.lhs.isNil then failHere
  if n.lhs.id0 != 0 then failHere
  if effectOf n.rhs != 0 then failHere
  pure n

def parseVarNode (env : Env) (pt : P Node) : P Node := do
  let id ← parseIdent env
  expect IDColon
  let typ ← pt
  pure (.mk KVar 0 0 0 id 0 typ .nil .nil [] [] [])

/-- the three `name: number` triples of `parseIterateBlock`'s header. -/
def parseIterateHeader (env : Env) : P (Nat × Nat × Nat) := do
  expect IDOpenParen
  expect IDLength
  expect IDColon
  let length ← peek1
  let lengthInt := asSmallPositiveInt256 env.tm length
  if lengthInt == 0 then failHere
  skip
  expect IDComma
  expect IDAdvance
  expect IDColon
  let advance ← peek1
  let advanceInt := asSmallPositiveInt256 env.tm advance
  if advanceInt == 0 then failHere
  if advanceInt > lengthInt then failHere
  skip
  expect IDComma
  expect IDUnroll
  expect IDColon
  let unroll ← peek1
  if asSmallPositiveInt256 env.tm unroll == 0 then failHere
  skip
  expect IDCloseParen
  pure (length, advance, unroll)

/-- the `choose` statement of `parseStatement1` (the keyword is at the front). -/
def parseChooseStmt (env : Env) : P Node := do
  skip
  if (← get).funcEffect == 0 then failHere
  let name ← parseIdent env
  expect IDEq
  expect IDOpenBracket
  let args ← parseList env IDCloseBracket (do
    let id ← parseIdent env
    pure (newExpr 0 0 id .nil .nil .nil []))
  pure (.mk KChoose 0 0 0 name 0 .nil .nil .nil args [] [])

/-- one `, name: expr` argument of an io_bind / io_limit header. -/
def parseIOManipArg (name : Nat) (pe : P Node) : P Node := do
  expect IDComma
  expect name
  expect IDColon
  let a ← pe
  if effectOf a != 0 then failHere
  pure a

/-- `parseIOManipNode` (`x` is the keyword at the front). -/
def parseIOManipNode (x : Nat) (pe : P Node) (pblock : P (List Node)) : P Node := do
  skip
  expect IDOpenParen
  expect IDIO
  expect IDColon
  let io ← pe
  if effectOf io != 0 then failHere
  if x == IDIOBind && io.id0 != 0 then failHere
  if x == IDIOLimit && io.id0 != 0 && isArgsDotFoo io == 0 then failHere
  let arg1 ← (if x == IDIOBind then parseIOManipArg IDData pe
    else if x == IDIOLimit then parseIOManipArg IDLimit pe else pure .nil)
  let histPos ← (if x == IDIOBind then parseIOManipArg IDHistoryPosition pe else pure .nil)
  expect IDCloseParen
  let body ← pblock
  pure (.mk KIOManip 0 x 0 0 0 io arg1 histPos [] [] body)

/-- `return` / `yield?`. -/
def parseRetNode (env : Env) (x : Nat) (pe : P Node) : P Node := do
  skip
  (if x == IDYield then do
      if !effCoroutine (← get).funcEffect then failHere
      if (← peek1) != IDQuestion then failHere
      skip
    else pure ())
  let value ← pe
  if effImpure (effectOf value) then failHere
  if x == IDReturn && value.id0 == 0 &&
      (match (env.tm.byIDStr value.id2).toList with
       | '"' :: '$' :: _ => true
       | _ => false) then failHere
  pure (.mk KRet 0 x 0 0 0 value .nil .nil [] [] [])

/-- the `.label` that closes a labelled while loop. -/
def parseEndLabel (label : Nat) : P Unit := do
  if label != 0 then
    if (← peek1) == IDDot then do
      skip
      if (← peek1) == label then skip else failHere
    else failHere

/-- `while`. -/
def parseWhileNode (env : Env) (pe : P Node) (pblock : Bool → P (List Node)) : P Node := do
  skip
  let label ← parseLabel env
  let condition ← pe
  if effectOf condition != 0 then failHere
  let asserts ← parseAsserts env pe
  if !(← loopsPush label) then failHere
  let doubleCurly := (← peek1) == IDOpenDoubleCurly
  let isWhileTrue := condition.id0 == 0 && condition.id2 == IDTrue
  if doubleCurly && !isWhileTrue then failHere
  let body ← pblock doubleCurly
  let ent ← loopsPop
  parseEndLabel label
  if doubleCurly && (hasFlag ent.flags FlagsHasContinue || !terminatesList 1000000 body) then failHere
  pure (.mk KWhile ent.flags 0 label 0 0 .nil condition .nil [] asserts body)

/-- `parseIterateNode`. -/
def parseIterateNode (env : Env) (pe : P Node) (piter : Nat → List Node → P Node) : P Node := do
  if effCoroutine (← get).funcEffect then failHere
  skip
  let label ← parseLabel env
  let assigns ← parseList env IDCloseParen (parseIterateAssignNode env pe)
  piter label assigns

def closerOf (doubleCurly : Bool) : Nat := if doubleCurly then IDCloseDoubleCurly else IDCloseCurly

/-- the statement loop of `parseBlock`. -/
def blockLoop (pStmt : P Node) (doubleCurly : Bool) : Nat → List Node → P (List Node)
  | 0, _ => throw .stuck
  | fuel + 1, acc => do
    match (← get).src with
    | [] => failHere
    | tk :: _ =>
      if tk.id == closerOf doubleCurly then do
        skip
        pure acc.reverse
      else do
        let s ← pStmt
        expect IDSemicolon
        blockLoop pStmt doubleCurly fuel (s :: acc)

def blockAll (pStmt : P Node) (doubleCurly : Bool) : P (List Node) := do
  let n ← remaining
  blockLoop pStmt doubleCurly (n + 1) []

/-! The statement / block cycle.  Measure: `16 * b + rank`
(`statement > statement1 > if = iterateBlock > block`). -/
mutual

/-- `parseBlock` (guarded by `bodyDepth`). -/
def pBlock (env : Env) (e t b : Nat) (doubleCurly : Bool) : P (List Node) :=
  match b with
  | 0 => failHere
  | b' + 1 => do
    expect (if doubleCurly then IDOpenDoubleCurly else IDOpenCurly)
    blockAll (pStatement env e t b') doubleCurly
termination_by 16 * b
decreasing_by all_goals omega

/-- `parseStatement`: sets the line of the statement (and of an iterate's assigns). -/
def pStatement (env : Env) (e t b : Nat) : P Node := do
  let line := match (← get).src with
    | tk :: _ => tk.line
    | [] => 0
  let n ← pStatement1 env e t b
  let n := n.setLine line
  if n.kind == KIterate then pure (n.setL0 (n.l0.map (Node.setLine line))) else pure n
termination_by 16 * b + 14
decreasing_by all_goals omega

/-- `parseStatement1`. -/
def pStatement1 (env : Env) (e t b : Nat) : P Node := do
  let x ← peek1
  if x == IDVar then do
    if !(← get).allowVar then failHere
    skip
    parseVarNode env (pTypeExpr env e t b)
  else do
    modify fun s => { s with allowVar := false }
    if x == IDAssert then parseAssertNode env (pExpr env e t b)
    else if x == IDBreak || x == IDContinue then parseJump env x
    else if x == IDChoose then parseChooseStmt env
    else if x == IDIOBind || x == IDIOForgetHistory || x == IDIOLimit then
      parseIOManipNode x (pExpr env e t b) (pBlock env e t b false)
    else if x == IDIf then pIf env e t b
    else if x == IDIterate then
      parseIterateNode env (pExpr env e t b) (fun label assigns => pIterateBlock env e t b label assigns)
    else if x == IDReturn || x == IDYield then parseRetNode env x (pExpr env e t b)
    else if x == IDWhile then parseWhileNode env (pExpr env e t b) (fun dc => pBlock env e t b dc)
    else parseAssignNode env (pExpr env e t b)
termination_by 16 * b + 13
decreasing_by all_goals omega

/-- `parseIf`. -/
def pIf (env : Env) (e t b : Nat) : P Node := do
  expect IDIf
  let likelihood ← parseLabel env
  if !(likelihood == 0 || likelihood == IDLikely || likelihood == IDUnlikely) then failHere
  let condition ← pExpr env e t b
  if effectOf condition != 0 then failHere
  let bodyIfTrue ← pBlock env e t b false
  if (← peek1) == IDElse then do
    skip
    if (← peek1) == IDIf then
      match b with
      | 0 => failHere
      | b' + 1 => do
        let elseIf ← pIf env e t b'
        pure (.mk KIf 0 0 likelihood 0 0 .nil condition elseIf [] [] bodyIfTrue)
    else do
      let bodyIfFalse ← pBlock env e t b false
      pure (.mk KIf 0 0 likelihood 0 0 .nil condition .nil [] bodyIfFalse bodyIfTrue)
  else pure (.mk KIf 0 0 likelihood 0 0 .nil condition .nil [] [] bodyIfTrue)
termination_by 16 * b + 11
decreasing_by all_goals omega

/-- `parseIterateBlock`. -/
def pIterateBlock (env : Env) (e t b : Nat) (label : Nat) (assigns : List Node) : P Node := do
  let (length, advance, unroll) ← parseIterateHeader env
  let asserts ← parseAsserts env (pExpr env e t b)
  if !(← loopsPush label) then failHere
  let body ← pBlock env e t b false
  let ent ← loopsPop
  let unrollNode := newExpr 0 0 unroll .nil .nil .nil []
  let n := Node.mk KIterate ent.flags advance label length 0 unrollNode .nil .nil assigns asserts body
  if (← peek1) == IDElse then do
    skip
    match b with
    | 0 => failHere
    | b' + 1 => do
      let els ← pIterateBlock env e t b' 0 []
      pure (n.setRhs els)
  else pure n
termination_by 16 * b + 11
decreasing_by all_goals omega

end

/-! ## top-level declarations -/

def parseFieldNode1 (env : Env) (e t b : Nat) (flags : Nat) : P Node := do
  let name ← parseIdent env
  expect IDColon
  let typ ← pTypeExpr env e t b
  let pkg := (typeInnermost 1000 typ).id1
  let flags := if pkg != 0 && pkg != IDBase then flags ||| FlagsPrivateData else flags
  pure (.mk KField flags 0 0 name 0 typ .nil .nil [] [] [])

def stripArrays (fuel : Nat) (n : Node) : Node :=
  match fuel with
  | 0 => n
  | fuel + 1 => if n.id0 == IDArray then stripArrays fuel n.rhs else n

def parseExtraFieldNode (env : Env) (e t b : Nat) : P Node := do
  let n ← parseFieldNode1 env e t b FlagsPrivateData
  let typ := stripArrays 1000 n.lhs
  if typ.id0 != 0 || (typ.id1 == IDBase && (!typeIsNumType typ || typeIsRefined typ)) then failHere
  pure n

def semicolon : P Unit := expect IDSemicolon

/-- `use "path"` (after the keyword). -/
def parseUseDecl (env : Env) (line : Nat) : P Node := do
  let path ← peek1
  if !isDQStrLiteral env.tm path then failHere
  skip
  semicolon
  pure (.mk KUse 0 0 0 path line .nil .nil .nil [] [] [])

/-- `const NAME : type = value` (after the keyword). -/
def parseConstDecl (env : Env) (e t b : Nat) (flags0 line : Nat) : P Node := do
  let id ← parseIdent env
  if !validConstName (env.tm.byIDStr id) then failHere
  expect IDColon
  let typ ← pTypeExpr env e t b
  if (← peek1) != IDEq then failHere
  skip
  let value ← pPossibleList env e t b
  semicolon
  pure (.mk KConst flags0 0 0 id line typ .nil value [] [] [])

/-- the `, choosy` / assertion-chain part of a func declaration: returns (flags, asserts). -/
def parseFuncAsserts (env : Env) (pe : P Node) (flags eff id0 : Nat) : P (Nat × List Node) := do
  if (← peek1) == IDComma then do
    skip
    let flags ← (if (← peek1) == IDChoosy then do
        skip
        if hasFlag flags FlagsPublic then failHere
        if effCoroutine eff then failHere
        if id0 == 0 then failHere
        (if (← peek1) != IDOpenCurly then expect IDComma else pure ())
        pure (flags ||| FlagsChoosy)
      else pure flags : P Nat)
    let asserts ← parseList env IDOpenCurly (parseAssertNode env pe)
    assertsSorted asserts true
    -- every `choose` in the chain must be a `choose cpu_arch >= …`
    if asserts.any (fun o => o.id0 == IDChoose && !isChooseCPUArch o) then failHere
    let fl := if asserts.any (fun o => o.id0 == IDChoose) then flags ||| FlagsHasChooseCPUArch else flags
    pure (fl, asserts)
  else pure (flags, [])

/-- `func recv.name!(args) out, asserts { body }` (after the keyword). -/
def parseFuncDecl (env : Env) (e t b : Nat) (flags0 line : Nat) : P Node := do
  let (id0, id1) ← parseQualifiedIdent env
  if !env.opts.allowBuiltInNames && (id1 == IDInitialize || id1 == IDReset) then failHere
  if !env.opts.allowDoubleUnderscoreNames && containsDoubleUnderscore (env.tm.byIDStr id1) then failHere
  let eff ← parseEffect
  modify fun s => { s with funcEffect := eff }
  if effCoroutine eff && id0 == 0 then failHere
  let argFields ← parseList env IDCloseParen (parseFieldNode1 env e t b 0)
  let x ← peek1
  let out ← (if x != IDOpenCurly && x != IDComma then pTypeExpr env e t b else pure .nil)
  let (flags, asserts) ← parseFuncAsserts env (pExpr env e t b) (flags0 ||| eff) eff id0
  modify fun s => { s with allowVar := true }
  let body ← pBlock env e t b false
  modify fun s => { s with allowVar := false }
  semicolon
  if hasFlag flags FlagsHasChooseCPUArch && (hasFlag flags FlagsPublic || hasFlag flags FlagsChoosy) then failHere
  modify fun s => { s with funcEffect := 0 }
  let inn := Node.mk KStruct 0 0 0 IDArgs line .nil .nil .nil [] argFields []
  pure (.mk KFunc flags id1 0 id0 line inn .nil out [] asserts body)

/-- `status "#message"` (after the keyword). -/
def parseStatusDecl (env : Env) (flags0 line : Nat) : P Node := do
  let message ← peek1
  if !isDQStrLiteral env.tm message then failHere
  if !isStatusMessageTok (env.tm.byIDStr message) then failHere
  skip
  semicolon
  pure (.mk KStatus flags0 0 0 message line .nil .nil .nil [] [] [])

/-- `struct name? implements … (fields) + (extra fields)` (after the keyword). -/
def parseStructDecl (env : Env) (e t b : Nat) (flags0 line : Nat) : P Node := do
  let name ← parseIdent env
  if !env.opts.allowDoubleUnderscoreNames && containsDoubleUnderscore (env.tm.byIDStr name) then failHere
  let flags ← (if (← peek1) == IDQuestion then do skip; pure (flags0 ||| FlagsClassy) else pure flags0 : P Nat)
  let implements ← (if (← peek1) == IDImplements then do
      skip
      let l ← parseList env IDOpenParen (do
        let (pkg, nm) ← parseQualifiedIdent env
        pure (newTypeExpr 0 pkg nm .nil .nil .nil))
      if l.length > MaxImplements then failHere
      pure l
    else pure [] : P (List Node))
  let fields ← parseList env IDCloseParen (parseFieldNode1 env e t b 0)
  let fields ← (if (← peek1) == IDPlus then do
      skip
      if (← peek1) != IDOpenParen then failHere
      let extra ← parseList env IDCloseParen (parseExtraFieldNode env e t b)
      pure (fields ++ extra)
    else pure fields : P (List Node))
  semicolon
  pure (.mk KStruct flags 0 0 name line .nil .nil .nil implements fields [])

/-- what follows `pub` / `pri`. -/
def parseVisibleDecl (env : Env) (e t b : Nat) (flags0 line : Nat) : P Node := do
  let k2 ← peek1
  if k2 == IDConst then do skip; parseConstDecl env e t b flags0 line
  else if k2 == IDFunc then do skip; parseFuncDecl env e t b flags0 line
  else if k2 == IDStatus then do skip; parseStatusDecl env flags0 line
  else if k2 == IDStruct then do skip; parseStructDecl env e t b flags0 line
  else throw (.at line)

/-- `parseTopLevelDecl` (the caller guarantees a non-empty source). -/
def parseTopLevelDecl (env : Env) (e t b : Nat) : P Node := do
  let line ← curLine
  let k ← peek1
  if k == IDUse then do skip; parseUseDecl env line
  else if k == IDPub then do skip; parseVisibleDecl env e t b FlagsPublic line
  else if k == IDPri then do skip; parseVisibleDecl env e t b 0 line
  else throw (.at line)

def parseFileLoop (env : Env) : Nat → List Node → P (List Node)
  | 0, _ => throw .stuck
  | fuel + 1, acc => do
    if (← get).src.isEmpty then pure acc.reverse
    else do
      let d ← parseTopLevelDecl env (MaxExprDepth + 1) (MaxTypeExprDepth + 1) (MaxBodyDepth + 1)
      parseFileLoop env fuel (d :: acc)

/-- `parse.Parse(tm, filename, src, opts)`. -/
def parseFile (env : Env) (toks : List Tok) : Except PErr Node :=
  let st : PState := { src := toks, lastLine := (toks.getLast?.map (·.line)).getD 0 }
  match (parseFileLoop env (toks.length + 1) []).run st with
  | .error e => .error e
  | .ok (decls, _) => .ok (.mk KFile 0 0 0 0 0 .nil .nil .nil decls [] [])

/-! ## dump (harness/cmd/c11/tie.go `dumpNode`) -/

mutual
def dumpNode (fuel : Nat) (n : Node) (acc : Array Nat) : Array Nat :=
  match fuel with
  | 0 => acc
  | fuel + 1 =>
    match n with
    | .nil => acc.push 0
    | .mk k f a b c l x y z p q r =>
      let acc := ((((((acc.push 1).push k).push f).push a).push b).push c).push l
      let acc := dumpNode fuel x acc
      let acc := dumpNode fuel y acc
      let acc := dumpNode fuel z acc
      let acc := dumpList fuel p (acc.push p.length)
      let acc := dumpList fuel q (acc.push q.length)
      dumpList fuel r (acc.push r.length)
def dumpList (fuel : Nat) (l : List Node) (acc : Array Nat) : Array Nat :=
  match fuel with
  | 0 => acc
  | fuel + 1 =>
    match l with
    | [] => acc
    | n :: rest => dumpList fuel rest (dumpNode fuel n acc)
end

end WuffsVerif.Parse
