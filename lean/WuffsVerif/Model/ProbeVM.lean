/-
C08 — the probe package's bytecode interpreter `thing.vm?` (harness/cmd/c08/probe.go, const
`probeWuffs`) expressed over `Model/IOBuf.lean`: every reader/writer operation of the Wuffs source is one
or two `IOBuf.exec` steps, suspension and resumption follow the coroutine code wuffs-c generates
(`coro_susp_point`, the `scratch` field of `skip_u32?` / `write_u8?`). Core Lean only.

The harness compiles the real generated C of that Wuffs source and compares, call by call, status,
`ri/wi/len/closed` of both buffers, the destination bytes, `pc`, `p_vm` and `scratch` with `callVM`.
This is the executable tie between `IOBuf.exec`/`load`/`finalSave` and the code generator.
-/
import WuffsVerif.Model.IOBuf
import WuffsVerif.Model.ObjProto

namespace WuffsVerif.ProbeVM
open WuffsVerif.IOBuf WuffsVerif.ObjProto

/-- The fields of the probe object the interpreter keeps between calls: `f_pc`, `p_vm`
(`coro_susp_point` of the last suspension) and `private_data.s_vm.scratch`. -/
structure VM where
  pc : Nat
  p : Nat
  scratch : Nat
  deriving Repr, DecidableEq, Inhabited

/-- Statuses of the probe: `k` of `Status.err (.user k)`, `.note k`, `.susp k`. -/
def kProbeError : Nat := 1
def kProbeNote : Nat := 1
def kProbeSuspension : Nat := 1
def kShortRead : Nat := 2
def kShortWrite : Nat := 3

structure Run where
  src : St
  dst : St
  pc : Nat
  scratch : Nat
  deriving Repr, Inhabited

/-- How the body is left. -/
inductive Exit where
  /-- the loop ended (`break`, or `pc` past the program): `this.pc = 0`, then `ok:` -/
  | fallOut
  /-- `return "@probe note"`: `goto ok` (skips `this.pc = 0`) -/
  | note
  /-- `yield?` or a built-in's `$short read` / `$short write`: `goto suspend` -/
  | suspend (k : Nat) (point : Nat)
  /-- `return "#probe error"`: `goto exit` -/
  | error
  deriving Repr, DecidableEq, Inhabited

/-- `args.src.read_u8?()` at suspension point 2. -/
def readU8 (r : Run) : Run × Option Exit :=
  if r.src.iop == r.src.io2 then (r, some (.suspend kShortRead 2))
  else ({ r with src := exec r.src (.rd 1) }, none)

/-- The resumable part of `args.src.skip_u32?(n: 3)` at suspension point 3 (`scratch` holds what is
left to skip). -/
def skipScratch (r : Run) : Run × Option Exit :=
  let avail := r.src.io2 - r.src.iop
  if r.scratch > avail then
    ({ r with scratch := r.scratch - avail, src := exec r.src (.skip avail) }, some (.suspend kShortRead 3))
  else ({ r with src := exec r.src (.rd r.scratch) }, none)

/-- The resumable part of `args.dst.write_u8?(a: 0xA7)` at suspension point 4. -/
def writeScratch (r : Run) : Run × Option Exit :=
  if r.dst.iop == r.dst.io2 then (r, some (.suspend kShortWrite 4))
  else ({ r with dst := exec r.dst (.wr [UInt8.ofNat (r.scratch % 256)]) }, none)

/-- `args.dst.limited_copy_u32_from_reader!(up_to: n, r: args.src)`. -/
def copyFromReader (n : Nat) (r : Run) : Run :=
  let k := min n (min (r.src.io2 - r.src.iop) (r.dst.io2 - r.dst.iop))
  let bytes := (r.src.b.mem.drop r.src.iop).take k
  if k == 0 then r
  else { r with dst := exec r.dst (.wr bytes), src := exec r.src (.rd k) }

/-- `k = this.helper!(dst: args.dst, src: args.src)`: wuffs-c saves both `iop`s into the callers'
buffer structs (`writeSaveExprDerivedVars`), the private helper loads its own derived pointers from those
structs, copies up to 2 bytes (`limited_copy_u32_from_reader`), saves, returns, and the caller reloads
both `iop`s (`writeLoadExprDerivedVars`); `io0 io1 io2` of the caller are not reloaded. -/
def helperCall (r : Run) : Run :=
  let sb := saveForCall r.src
  let db := saveForCall r.dst
  let inner := copyFromReader 2 { r with src := load false sb, dst := load true db }
  { r with src := loadAfterCall r.src (finalSave inner.src),
           dst := loadAfterCall r.dst (finalSave inner.dst) }

/-- One bytecode operation (after `op = args.prog[this.pc]; this.pc += 1`). -/
def stepOp (op : Nat) (r : Run) : Run × Option Exit :=
  match op with
  | 0 => (r, some .fallOut)
  | 1 => (r, some .error)
  | 2 => (r, some .note)
  | 3 => (r, some (.suspend kProbeSuspension 1))
  | 4 => readU8 r
  | 5 => skipScratch { r with scratch := 3 }
  | 6 => ({ r with src := exec r.src .undo }, none)
  | 7 => writeScratch { r with scratch := 167 }
  | 9 => ({ r with dst := exec r.dst (.copyHist 5 2) }, none)
  | 10 => ({ r with dst := exec r.dst .undo }, none)
  | 11 =>
    let r1 := { r with src := exec r.src (.limitBegin 2) }
    let r2 := copyFromReader 4 r1
    ({ r2 with src := exec r2.src .limitEnd }, none)
  | 12 =>
    let r1 := { r with src := exec r.src (.limitBegin 1) }
    let r2 := if r1.src.io2 - r1.src.iop ≥ 1 then { r1 with src := exec r1.src (.rd 1) } else r1
    -- the `return "#probe error"` follows the block: lang/check rejects a return inside one
    -- (fixes/C08-check-io-block-escapes.patch)
    ({ r2 with src := exec r2.src .limitEnd }, some .error)
  | 13 =>
    let r1 := { r with dst := exec r.dst (.limitBegin 3) }
    let r2 := copyFromReader 8 r1
    ({ r2 with dst := exec r2.dst .limitEnd }, none)
  | 14 => (copyFromReader 3 r, none)
  | 15 => (helperCall r, none)
  | 16 =>
    let r1 := { r with src := exec r.src (.limitBegin 1) }
    let r2 := helperCall r1
    ({ r2 with src := exec r2.src .limitEnd }, none)
  | _ => (r, none)

/-- `while true { if this.pc >= args.prog.length() { break } … }`. -/
def loop (prog : List UInt8) : Nat → Run → Run × Exit
  | 0, r => (r, .fallOut)
  | fuel + 1, r =>
    match prog[r.pc]? with
    | none => (r, .fallOut)
    | some op =>
      match stepOp op.toNat { r with pc := r.pc + 1 } with
      | (r', some e) => (r', e)
      | (r', none) => loop prog fuel r'

structure Result where
  body : BodyRes
  vm : VM
  src : Buf
  dst : Buf
  deriving Repr, Inhabited

/-- The coroutine switch: continue at the suspension point the previous call stopped at. -/
def resumeStage (p : Nat) (r0 : Run) : Run × Option Exit :=
  match p with
  | 2 => readU8 r0
  | 3 => skipScratch r0
  | 4 => writeScratch r0
  | _ => (r0, none)

/-- … then the interpreter loop, unless the resumed operation suspended again. -/
def bodyStage (prog : List UInt8) (x : Run × Option Exit) : Run × Exit :=
  match x.2 with
  | some e => (x.1, e)
  | none => loop prog (prog.length + 1) x.1

/-- The exit labels: what is stored in `f_pc` / `p_vm`, and the status. -/
def finishStage (vm : VM) (x : Run × Exit) : Result :=
  let r2 := x.1
  let srcB' := finalSave r2.src
  let dstB' := finalSave r2.dst
  match x.2 with
  | .fallOut =>
    { body := ⟨.ok, .ok, 0⟩, vm := { pc := 0, p := 0, scratch := r2.scratch }, src := srcB', dst := dstB' }
  | .note =>
    { body := ⟨.ok, .note kProbeNote, 0⟩, vm := { pc := r2.pc, p := 0, scratch := r2.scratch },
      src := srcB', dst := dstB' }
  | .suspend k point =>
    { body := ⟨.suspend, .susp k, point⟩, vm := { pc := r2.pc, p := point, scratch := r2.scratch },
      src := srcB', dst := dstB' }
  | .error =>
    { body := ⟨.exit, .err (.user kProbeError), 0⟩,
      vm := { pc := r2.pc, p := vm.p, scratch := r2.scratch }, src := srcB', dst := dstB' }

/-- One call of `vm?` whose prologue checks passed. -/
def callVM (prog : List UInt8) (vm : VM) (srcB dstB : Buf) : Result :=
  let r0 : Run := { src := load false srcB, dst := load true dstB, pc := vm.pc, scratch := vm.scratch }
  finishStage vm (bodyStage prog (resumeStage vm.p r0))

end WuffsVerif.ProbeVM
