/-
C20 — the build tool (`wuffs gen`): which compiler invocations are made, in which
order, with which ordered file lists, given a file system whose directories are
enumerated in an ARBITRARY order (`os.File.Readdir(-1)` makes no promise).

Mirrors (cited per definition):
  cmd/wuffs/main.go      findFiles / findFiles1 (recursive discovery, sorted at the end)
  cmd/wuffs/gen.go       doGenGenlib (argument loop), genHelper.gen (seen set, listDir,
                         sub-directories), genHelper.genDir + genDirDependencies
                         (dependencies first: the `use`d packages in file order, then base)
  cmd/wuffs/release.go   genreleaseLang (findFiles over gen/c, the list given to
                         `wuffs-c genrelease`)

Core Lean only.  A file system is a function from a directory path to the
enumeration `Readdir(-1)` returned for it (`none`: the directory cannot be opened).
-/
import WuffsVerif.Model.Det

namespace WuffsVerif.Det

/-- the file system as the build tool reads it -/
abbrev FS := Name → Option (List DirEntry)

/-! ## cmd/wuffs/main.go findFiles -/

/-- main.go findFiles1: `appendDir(dstQF, dir, suffix, true)`, then recurse into the
sub-directories in the order appendDir returned them (enumeration order).  `none`
is an error (a directory that cannot be opened) or exhausted fuel (the model's
only addition: Go recurses as deep as the tree is). -/
def findFiles1 (fs : FS) (suffix : Name) : Nat → List Name → Name → Option (List Name)
  | 0, _, _ => none
  | fuel + 1, dst, dir =>
    match fs dir with
    | none => none
    | some infos =>
      let r := appendDir dst dir suffix true infos
      r.2.foldl (fun (acc : Option (List Name)) d =>
        acc.bind (fun dst => findFiles1 fs suffix fuel dst (joinPath dir d))) (some r.1)

/-- main.go findFiles: findFiles1 from nil, then `sort.Strings`. -/
def findFiles (fs : FS) (fuel : Nat) (dir suffix : Name) : Option (List Name) :=
  (findFiles1 fs suffix fuel [] dir).map sortNames

/-! ## cmd/wuffs/gen.go -/

/-- "base" -/
def baseName : Name := [98, 97, 115, 101]
/-- ".wuffs" -/
def dotWuffs : Name := [46, 119, 117, 102, 102, 115]
/-- ".c" -/
def dotC : Name := [46, 99]

/-- gen.go gen: `for len(dirname) > 0 && dirname[len(dirname)-1] == '/' { dirname = dirname[:len(dirname)-1] }` -/
def stripSlashes (d : Name) : Name := (d.reverse.dropWhile (· == 47)).reverse

/-- the build tool's state: the `seen` set and (the model's observable) the list of
`wuffs-c gen` invocations made so far: (package directory, ordered file list). -/
structure GenSt where
  seen : List Name
  plan : List (Name × List Name)
  deriving Repr, DecidableEq

/-- gen.go genHelper.gen + genDir + genDirDependencies, with the directory listing
function `ld dir recursive` (= listDir of the real file system) and the `use`
paths of a source file `usesOf file` (what generate.ParseFiles finds, in
declaration order) as parameters.

    strip trailing slashes; already seen → nothing; mark seen
    "base" → one invocation without files
    listDir(root/dirname, ".wuffs", recursive)          (error → none)
    files present → genDir: every `use`d package (non-recursively), in file order and
                    declaration order, then base, THEN the package itself
    then every sub-directory returned by listDir, in that order (recursive only) -/
def genWith (ld : Name → Bool → Option (List Name × List Name)) (usesOf : Name → List Name) (root : Name) :
    Nat → GenSt → Name → Bool → Option GenSt
  | 0, _, _, _ => none
  | fuel + 1, st, dirname, recursive =>
    let dirname := stripSlashes dirname
    if st.seen.contains dirname then some st else
    let st : GenSt := { st with seen := dirname :: st.seen }
    if dirname == baseName then some { st with plan := st.plan ++ [(dirname, [])] } else
    match ld (joinPath root dirname) recursive with
    | none => none
    | some (files, dirs) =>
      let st1 : Option GenSt :=
        if files.isEmpty then some st else
          match (files.flatMap usesOf ++ [baseName]).foldl (fun (acc : Option GenSt) u =>
              acc.bind (fun s => genWith ld usesOf root fuel s u false)) (some st) with
          | none => none
          | some s => some { s with plan := s.plan ++ [(dirname, files)] }
      dirs.foldl (fun (acc : Option GenSt) d =>
        acc.bind (fun s => genWith ld usesOf root fuel s (dirname ++ [47] ++ d) recursive)) st1

/-- the listing function of a concrete file system: main.go listDir on the
enumeration the OS returned -/
def ldOf (fs : FS) (dir : Name) (recursive : Bool) : Option (List Name × List Name) :=
  (fs dir).map (listDir dir dotWuffs recursive)

/-- gen.go doGenGenlib: the argument loop (arguments already split into directory and
the `/...` flag).  Result: the ordered list of compiler invocations. -/
def genPlan (fs : FS) (usesOf : Name → List Name) (root : Name) (fuel : Nat) (args : List (Name × Bool)) :
    Option (List (Name × List Name)) :=
  (args.foldl (fun (acc : Option GenSt) a =>
    acc.bind (fun s => genWith (ldOf fs) usesOf root fuel s a.1 a.2)) (some ⟨[], []⟩)).map (·.plan)

/-! ## cmd/wuffs/release.go -/

/-- root/gen/c -/
def gencDir (root : Name) : Name := joinPath (joinPath root [103, 101, 110]) [99]

/-- gen.go genDir + genFile: the output of package `dirname` is written to
`root/gen/c/wuffs-<dirname with "/" replaced by "-">.c`; this is the entry name. -/
def flatC (dirname : Name) : Name :=
  [119, 117, 102, 102, 115, 45] ++ dirname.map (fun b => if b == 47 then 45 else b) ++ dotC

/-- release.go genreleaseLang: the file list handed to `wuffs-c genrelease` is
`findFiles(root/gen/c, ".c")` on a file system `fs` (after the invocations of the
plan wrote their outputs). -/
def releaseArgs (fs : FS) (fuel : Nat) (root : Name) : Option (List Name) :=
  findFiles fs fuel (gencDir root) dotC

/-- the file system that holds, under root/gen/c, exactly the outputs of a plan,
enumerated in plan order (any other enumeration gives the same `releaseArgs`:
`findFiles_perm_invariant`).  main.go writeFile creates gen/c with the first output:
after an empty plan the directory does not exist and genrelease fails. -/
def fsOfPlan (root : Name) (plan : List (Name × List Name)) : FS :=
  fun p => if p == gencDir root && !plan.isEmpty then some (plan.map (fun e => ⟨flatC e.1, false⟩)) else none

end WuffsVerif.Det
