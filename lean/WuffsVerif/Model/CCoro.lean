/-
C04 — the C that internal/cgen/builtin.go (`writeBuiltinQuestionCall`,
`writeReadUxxAsUyy`) and internal/cgen/expr.go (`writeExprUserDefinedCall` for a
coroutine callee) write for a SUSPENDING call inside a coroutine, as a syntax
tree `Tm`, one node per emitted C statement:

  args.src.read_u8?() …_as_u64?()      `read8Tmpl`
  args.src.read_u16be?() … read_u64le?()  `readTmpl n be`   (n = bytes taken, 2 … 8)
  args.src.skip?(n: 1) / skip_u32?(n: 1)  `skip1Tmpl`
  args.src.skip?(n: e) / skip_u32?(n: e)  `skipTmpl`
  args.dst.write_u8?(a: e)                `writeTmpl`
  this.f?(…) with j I/O arguments         `callTmpl j`

`WUFFS_BASE__COROUTINE_SUSPENSION_POINT(k)` is `case k:;` of the resume switch
(`switch (coro_susp_point) {` around the whole body, base/fundamental-private.h)
plus `coro_susp_point = k`: a later call with `p_f = k` enters the body THERE —
possibly in the middle of an `else` branch, as in the slow path of the
multi-byte reads, whose partial value waits in `self->private_data.s_f.scratch`.

`Tm.show` is the control skeleton in the token language of
harness/cmd/c04/skel.go (`P` = suspension point, `G:s` = `goto suspend;`); the
driver op `skel` prints it for every suspending statement of every coroutine
the harness runs, to be compared with the emitted text.  The SAME trees are
given a semantics in the second half of this file (`exec`, with the resume
switch as "seek the point"), which Props/C04Coro.lean is about.
Core Lean only.
-/
namespace WuffsVerif.CCoro

/-- the conditions the templates test -/
inductive Cond where
  /-- `io2 - iop >= n` -/
  | availGE (n : Nat)
  /-- `iop == io2` (reader: no byte left; writer: no room left) -/
  | empty
  /-- `num_bits == k` -/
  | nbEq (k : Nat)
  /-- `scratch > (uint64_t)(io2 - iop)` -/
  | scratchGtAvail
  /-- `a_src` / `a_src && a_src->data.ptr`, `status.repr`: the call templates (not interpreted) -/
  | opaque
  deriving Repr, DecidableEq, Inhabited

/-- the straight-line C statements of the templates; `be`: big-endian variant -/
inductive Atom where
  /-- `uintYY_t t_k;` -/
  | declT
  /-- `t_k = (uintYY_t)(wuffs_base__peek_uXXxe__no_bounds_check(iop));` (XX = 8n) -/
  | peekT (n yy : Nat) (be : Bool)
  /-- `iop += n;` -/
  | adv (n : Nat)
  /-- `uintYY_t t_k = *iop++;` -/
  | loadByteT
  /-- `iop++;` -/
  | inc
  /-- `scratch = 0;` -/
  | scratch0
  /-- `uint64_t* scratch = &self->private_data.s_f.scratch;` -/
  | scratchPtr
  /-- `uint32_t num_bits = (uint32_t)(*scratch >> 56);` (LE) / `… (*scratch & 0xFFu);` (BE) -/
  | nbLoad (be : Bool)
  /-- `*scratch <<= 8;` -/
  | shl8
  /-- `*scratch >>= 8;` -/
  | shr8
  /-- `*scratch |= ((uint64_t)(*iop++)) << num_bits;` (LE) / `… << (56 - num_bits);` (BE) -/
  | orByte (be : Bool)
  /-- `t_k = (uintYY_t)(*scratch);` (LE) / `… (*scratch >> (64 - 8n));` (BE) -/
  | setT (n yy : Nat) (be : Bool)
  /-- `num_bits += 8u;` -/
  | nbInc
  /-- `*scratch |= ((uint64_t)(num_bits)) << 56;` (LE) / `*scratch |= (uint64_t)(num_bits);` (BE) -/
  | orNb (be : Bool)
  /-- `lhs = t_k;` (or `lhs op= t_k;`) — the assignment the call is the right-hand side of -/
  | store
  /-- `status = wuffs_base__make_status(wuffs_base__suspension__short_read);` -/
  | setShortRead
  /-- `status = wuffs_base__make_status(wuffs_base__suspension__short_write);` -/
  | setShortWrite
  /-- `scratch = <n>;` (skip) / `scratch = <a>;` (write_u8): the argument is evaluated ONCE, before the point -/
  | scratchSetArg
  /-- `scratch -= (uint64_t)(io2 - iop);` -/
  | scratchSubAvail
  /-- `iop = io2;` -/
  | iopToEnd
  /-- `iop += scratch;` -/
  | advScratch
  /-- `*iop++ = (uint8_t)(scratch);` -/
  | storeByte
  /-- `a_src->meta.ri = (size_t)(iop_a_src - a_src->data.ptr);` -/
  | saveRi
  /-- `status = wuffs_pkg__s__f(self, a_src);` -/
  | callStatus
  /-- `iop_a_src = a_src->data.ptr + a_src->meta.ri;` -/
  | loadIop
  deriving Repr, DecidableEq, Inhabited

inductive Tm where
  | atom (a : Atom)
  /-- `WUFFS_BASE__COROUTINE_SUSPENSION_POINT(k);` — `k` is assigned by `number` -/
  | point (k : Nat)
  | ifThen (c : Cond) (t : List Tm)
  | ifElse (c : Cond) (t e : List Tm)
  | whileTrue (b : List Tm)
  | brk
  | gotoSuspend
  /-- `{ … }` -/
  | block (b : List Tm)
  deriving Repr, Inhabited

open Tm Atom in
/-- writeReadUxxAsUyy (behind the suspension point that writeBuiltinQuestionCall
writes first), inside the braces of the assignment; points `k`, `k + 1` -/
def readTmpl (n yy : Nat) (be : Bool) (k : Nat) : Tm :=
  block [
    point k,
    atom declT,
    ifElse (.availGE n)
      [atom (peekT n yy be), atom (adv n)]
      [atom scratch0,
       point (k + 1),
       whileTrue [
         ifThen .empty [atom setShortRead, gotoSuspend],
         atom scratchPtr,
         atom (nbLoad be),
         atom (if be then shr8 else shl8),
         atom (if be then shl8 else shr8),
         atom (orByte be),
         ifThen (.nbEq (8 * n - 8)) [atom (setT n yy be), brk],
         atom nbInc,
         atom (orNb be)]],
    atom store]

open Tm Atom in
/-- read_u8?, read_u8_as_uNN?: one point -/
def read8Tmpl (k : Nat) : Tm :=
  block [
    point k,
    ifThen .empty [atom setShortRead, gotoSuspend],
    atom loadByteT,
    atom store]

open Tm Atom in
/-- skip?(n: 1), skip_u32?(n: 1) (the argument has ConstValue 1) -/
def skip1Tmpl (k : Nat) : List Tm :=
  [point k, ifThen .empty [atom setShortRead, gotoSuspend], atom inc]

open Tm Atom in
def skipTmpl (k : Nat) : List Tm :=
  [atom scratchSetArg,
   point k,
   ifThen .scratchGtAvail [atom scratchSubAvail, atom iopToEnd, atom setShortRead, gotoSuspend],
   atom advScratch]

open Tm Atom in
def writeTmpl (k : Nat) : List Tm :=
  [atom scratchSetArg,
   point k,
   ifThen .empty [atom setShortWrite, gotoSuspend],
   atom storeByte]

open Tm Atom in
/-- a call of a coroutine of the same struct, `j` of whose arguments are I/O
arguments of the caller (their position is saved before and reloaded after) -/
def callTmpl (j : Nat) (k : Nat) : List Tm :=
  List.replicate j (ifThen .opaque [atom saveRi]) ++
  [point k, atom callStatus] ++
  List.replicate j (ifThen .opaque [atom loadIop]) ++
  [ifThen .opaque [gotoSuspend]]

/-- seeded/C04-m3: `scratch = 0;` moved behind the suspension point — what the
resumed call then does to the partial value is `read_m3_loses_partial_value`
in Props/C04Coro.lean -/
def readTmplM3 (n yy : Nat) (be : Bool) (k : Nat) : Tm :=
  open Tm Atom in
  block [
    point k,
    atom declT,
    ifElse (.availGE n)
      [atom (peekT n yy be), atom (adv n)]
      [point (k + 1),
       atom scratch0,
       whileTrue [
         ifThen .empty [atom setShortRead, gotoSuspend],
         atom scratchPtr,
         atom (nbLoad be),
         atom (if be then shr8 else shl8),
         atom (if be then shl8 else shr8),
         atom (orByte be),
         ifThen (.nbEq (8 * n - 8)) [atom (setT n yy be), brk],
         atom nbInc,
         atom (orNb be)]],
    atom store]

/-! ## Skeleton text -/

mutual
def Tm.show : Tm → List String
  | .atom _ => ["A"]
  | .point _ => ["P"]
  | .ifThen _ t => ["I{"] ++ showTms t ++ ["}"]
  | .ifElse _ t e => ["I{"] ++ showTms t ++ ["}E{"] ++ showTms e ++ ["}"]
  | .whileTrue b => ["W{"] ++ showTms b ++ ["}"]
  | .brk => ["B"]
  | .gotoSuspend => ["G:s"]
  | .block b => ["{"] ++ showTms b ++ ["}"]
def showTms : List Tm → List String
  | [] => []
  | t :: r => t.show ++ showTms r
end

/-! ## Codes: how Model/CStmtAst.lean names the template of an atomic statement
(`WStmt.act code`; 0 = a statement without a suspending call) -/

inductive Kind where
  | plain
  | read8
  | read (n : Nat) (be : Bool)
  | skip1
  | skip
  | write
  | call (j : Nat)
  deriving Repr, DecidableEq, Inhabited

def Kind.code : Kind → Nat
  | .plain => 0
  | .read8 => 1
  | .skip1 => 2
  | .skip => 3
  | .write => 4
  | .read n be => 100 + 2 * n + (if be then 1 else 0)
  | .call j => 200 + j

def Kind.ofCode (c : Nat) : Kind :=
  if c == 0 then .plain
  else if c == 1 then .read8
  else if c == 2 then .skip1
  else if c == 3 then .skip
  else if c == 4 then .write
  else if 100 ≤ c && c < 200 then .read ((c - 100) / 2) ((c - 100) % 2 == 1)
  else .call (c - 200)

/-- number of suspension points of the template -/
def Kind.points : Kind → Nat
  | .plain => 0
  | .read _ _ => 2
  | _ => 1

/-- the template, its first point being `k` -/
def Kind.tmpl (kd : Kind) (k : Nat) : List Tm :=
  match kd with
  | .plain => [.atom .store]
  | .read8 => [read8Tmpl k]
  | .read n be => [readTmpl n 64 be k]
  | .skip1 => skip1Tmpl k
  | .skip => skipTmpl k
  | .write => writeTmpl k
  | .call j => callTmpl j k

/-- tokens of the atomic statement with code `c` -/
def actTokens (c : Nat) : List String :=
  match Kind.ofCode c with
  | .plain => ["A"]
  | kd => showTms (kd.tmpl 0)

/-! ## Semantics

What one call of the coroutine's C function does to the things the templates
touch.  `buf` is the reader's buffer `data.ptr[0 .. meta.wi)` of THIS call
(`io2 = buf.length`), `iop` the read position in it; `scratch` is
`self->private_data.s_f.scratch` — it lives in the object, so it is what a
later call finds; `pt` is `coro_susp_point`.  Arithmetic is that of `uint64_t`
(explicit `% 2^64`); a load beyond `io2` or a shift by 64 or more is undefined
(`none`).

Resuming: the function starts with `coro_susp_point = self->private_impl.p_f`
and `switch (coro_susp_point) {` — control goes to `case pt:` wherever that
label is, skipping everything before it and entering the blocks that contain
it.  `seek = true` is that state: atoms do nothing, an `if` / `else` / loop is
entered exactly when it contains the label, and `point pt` ends the search. -/

structure CSt where
  buf : List Nat
  iop : Nat
  scratch : Nat
  t : Nat := 0
  nb : Nat := 0
  pt : Nat := 0
  seek : Bool := false
  /-- the values assigned by `store`, in order -/
  dest : List Nat := []
  /-- the value of the argument expression of skip / write_u8 -/
  arg : Nat := 0
  /-- `status.repr` is a suspension -/
  short : Bool := false
  deriving Repr, DecidableEq, Inhabited

def valLE : List Nat → Nat
  | [] => 0
  | b :: r => b + 256 * valLE r

def valBE (bs : List Nat) : Nat := bs.foldl (fun acc b => acc * 256 + b) 0

/-- `wuffs_base__peek_uXXxe__no_bounds_check` on the next `n` bytes -/
def peek (be : Bool) (bs : List Nat) : Nat := if be then valBE bs else valLE bs

def u64 (x : Nat) : Nat := x % 2 ^ 64

def Atom.exec : Atom → CSt → Option CSt
  | .declT, s => some s
  | .peekT n yy be, s =>
    if s.iop + n ≤ s.buf.length then some { s with t := peek be ((s.buf.drop s.iop).take n) % 2 ^ yy } else none
  | .adv n, s => some { s with iop := s.iop + n }
  | .loadByteT, s =>
    match s.buf[s.iop]? with
    | some b => some { s with t := b, iop := s.iop + 1 }
    | none => none
  | .inc, s => some { s with iop := s.iop + 1 }
  | .scratch0, s => some { s with scratch := 0 }
  | .scratchPtr, s => some s
  | .nbLoad be, s => some { s with nb := if be then s.scratch % 256 else s.scratch >>> 56 }
  | .shl8, s => some { s with scratch := u64 (s.scratch <<< 8) }
  | .shr8, s => some { s with scratch := s.scratch >>> 8 }
  | .orByte be, s =>
    match s.buf[s.iop]? with
    | some b =>
      -- the shift count is `num_bits` / `56 - num_bits` in uint32_t arithmetic
      if s.nb ≤ 56 then
        some { s with scratch := s.scratch ||| (b <<< (if be then 56 - s.nb else s.nb)), iop := s.iop + 1 }
      else none
    | none => none
  | .setT n yy be, s => some { s with t := (if be then s.scratch >>> (64 - 8 * n) else s.scratch) % 2 ^ yy }
  | .nbInc, s => some { s with nb := s.nb + 8 }
  | .orNb be, s => some { s with scratch := u64 (s.scratch ||| (if be then s.nb else s.nb <<< 56)) }
  | .store, s => some { s with dest := s.dest ++ [s.t] }
  | .setShortRead, s => some { s with short := true }
  | .scratchSetArg, s => some { s with scratch := u64 s.arg }
  | .scratchSubAvail, s => some { s with scratch := s.scratch - (s.buf.length - s.iop) }
  | .iopToEnd, s => some { s with iop := s.buf.length }
  | .advScratch, s => some { s with iop := s.iop + s.scratch }
  -- the writer and call templates are not interpreted here
  | .setShortWrite, _ | .storeByte, _ | .saveRi, _ | .callStatus, _ | .loadIop, _ => none

def Cond.eval : Cond → CSt → Option Bool
  | .availGE n, s => some (decide (n ≤ s.buf.length - s.iop))
  | .empty, s => some (s.iop == s.buf.length)
  | .nbEq k, s => some (s.nb == k)
  | .scratchGtAvail, s => some (decide (s.buf.length - s.iop < s.scratch))
  | .opaque, _ => none

inductive Out where
  | normal (s : CSt)
  | brk (s : CSt)
  /-- `goto suspend;` — the epilogue stores `s.pt` in `p_f` -/
  | susp (s : CSt)
  deriving Repr, DecidableEq, Inhabited

mutual
def Tm.hasPoint (k : Nat) : Tm → Bool
  | .atom _ => false
  | .point j => j == k
  | .ifThen _ t => hasPointL k t
  | .ifElse _ t e => hasPointL k t || hasPointL k e
  | .whileTrue b => hasPointL k b
  | .brk => false
  | .gotoSuspend => false
  | .block b => hasPointL k b
def hasPointL (k : Nat) : List Tm → Bool
  | [] => false
  | t :: r => t.hasPoint k || hasPointL k r
end

/-- `while (true) { body }`, at most `fuel` rounds -/
def whileIter : Nat → (CSt → Option Out) → CSt → Option Out
  | 0, _, _ => none
  | fuel + 1, body, s =>
    match body s with
    | some (.normal s') => whileIter fuel body s'
    | some (.brk s') => some (.normal s')
    | o => o

mutual
/-- one statement; `fuel` bounds the rounds of every loop -/
def Tm.exec (fuel : Nat) : Tm → CSt → Option Out
  | .atom a, s => if s.seek then some (.normal s) else (a.exec s).map .normal
  | .point k, s =>
    if s.seek then (if s.pt == k then some (.normal { s with seek := false }) else some (.normal s))
    else some (.normal { s with pt := k })
  | .ifThen c t, s =>
    if s.seek then (if hasPointL s.pt t then execL fuel t s else some (.normal s))
    else
      match c.eval s with
      | some true => execL fuel t s
      | some false => some (.normal s)
      | none => none
  | .ifElse c t e, s =>
    if s.seek then
      (if hasPointL s.pt t then execL fuel t s
       else if hasPointL s.pt e then execL fuel e s
       else some (.normal s))
    else
      match c.eval s with
      | some true => execL fuel t s
      | some false => execL fuel e s
      | none => none
  | .whileTrue b, s =>
    if s.seek && !hasPointL s.pt b then some (.normal s)
    else whileIter fuel (fun s' => execL fuel b s') s
  | .brk, s => if s.seek then some (.normal s) else some (.brk s)
  | .gotoSuspend, s => if s.seek then some (.normal s) else some (.susp s)
  | .block b, s => execL fuel b s
def execL (fuel : Nat) : List Tm → CSt → Option Out
  | [], s => some (.normal s)
  | t :: r, s =>
    match t.exec fuel s with
    | some (.normal s') => execL fuel r s'
    | o => o
end

/-- what survives between two calls of the coroutine: `p_f` and the scratch
word in the object, the reader's position, and the values stored so far -/
structure Frame where
  p : Nat := 0
  scratch : Nat := 0
  ri : Nat := 0
  dest : List Nat := []
  deriving Repr, DecidableEq, Inhabited

/-- One call of the C function whose body is `body`, the reader's buffer
holding `buf` (all the bytes of the stream so far): `true` = returned ok
(`p_f = 0`), `false` = returned the suspension (`p_f = coro_susp_point`). -/
def call (fuel : Nat) (body : List Tm) (buf : List Nat) (arg : Nat) (f : Frame) : Option (Bool × Frame) :=
  let s0 : CSt := { buf := buf, iop := f.ri, scratch := f.scratch, pt := f.p, seek := f.p != 0,
                    dest := f.dest, arg := arg }
  match execL fuel body s0 with
  | some (.normal s) => if s.seek then none else some (true, { p := 0, scratch := s.scratch, ri := s.iop, dest := s.dest })
  | some (.susp s) => some (false, { p := s.pt, scratch := s.scratch, ri := s.iop, dest := s.dest })
  | _ => none

/-- drive the coroutine over a growing input: `avails` are the numbers of
stream bytes available in the successive calls; stops at the first `ok` -/
def drive (fuel : Nat) (body : List Tm) (stream : List Nat) (arg : Nat) : List Nat → Frame → Option (Bool × Frame)
  | [], f => some (false, f)
  | a :: r, f =>
    match call fuel body (stream.take a) arg f with
    | some (true, f') => some (true, f')
    | some (false, f') => drive fuel body stream arg r f'
    | none => none

end WuffsVerif.CCoro
