/-
C04 — the C that internal/cgen/builtin.go (`writeBuiltinQuestionCall`,
`writeReadUxxAsUyy`) and internal/cgen/expr.go (`writeExprUserDefinedCall` for a
coroutine callee) write for a SUSPENDING call inside a coroutine, as a syntax
tree `Tm`, one node per emitted C statement:

  args.src.read_u8?() …_as_u64?()      `read8Tmpl`
  args.src.read_u16be?() … read_u64le?()  `readTmpl n be`   (n = bytes taken, 2 … 8)
  args.src.skip?(n: 1) / skip_u32?(n: 1)  `skip1Tmpl`
  args.src.skip?(n: e) / skip_u32?(n: e)  `skipTmpl`
  args.dst.write_u8?(a: e)                `writeTmpl`
  this.f?(…) with j I/O arguments         `callTmpl j`

`WUFFS_BASE__COROUTINE_SUSPENSION_POINT(k)` is `case k:;` of the resume switch
(`switch (coro_susp_point) {` around the whole body, base/fundamental-private.h)
plus `coro_susp_point = k`: a later call with `p_f = k` enters the body THERE —
possibly in the middle of an `else` branch, as in the slow path of the
multi-byte reads, whose partial value waits in `self->private_data.s_f.scratch`.

`Tm.show` is the control skeleton in the token language of
harness/cmd/c04/skel.go (`P` = suspension point, `G:s` = `goto suspend;`); the
driver op `skel` prints it for every suspending statement of every coroutine
the harness runs, to be compared with the emitted text.  The SAME trees are
given a semantics in the second half of this file (`exec`, with the resume
switch as "seek the point"), which Props/C04Coro.lean is about.
Core Lean only.
-/
namespace WuffsVerif.CCoro

/-- the conditions the templates test -/
inductive Cond where
  /-- `io2 - iop >= n` -/
  | availGE (n : Nat)
  /-- `iop == io2` (reader: no byte left; writer: no room left) -/
  | empty
  /-- `num_bits == k` -/
  | nbEq (k : Nat)
  /-- `scratch > (uint64_t)(io2 - iop)` -/
  | scratchGtAvail
  /-- `a_src` / `a_src && a_src->data.ptr`, `status.repr`: the call templates (not interpreted) -/
  | opaque
  deriving Repr, DecidableEq, Inhabited

/-- the straight-line C statements of the templates; `be`: big-endian variant -/
inductive Atom where
  /-- `uintYY_t t_k;` -/
  | declT
  /-- `t_k = (uintYY_t)(wuffs_base__peek_uXXxe__no_bounds_check(iop));` -/
  | peekT (n : Nat) (be : Bool)
  /-- `iop += n;` -/
  | adv (n : Nat)
  /-- `uintYY_t t_k = *iop++;` -/
  | loadByteT
  /-- `iop++;` -/
  | inc
  /-- `scratch = 0;` -/
  | scratch0
  /-- `uint64_t* scratch = &self->private_data.s_f.scratch;` -/
  | scratchPtr
  /-- `uint32_t num_bits = (uint32_t)(*scratch >> 56);` (LE) / `… (*scratch & 0xFFu);` (BE) -/
  | nbLoad (be : Bool)
  /-- `*scratch <<= 8;` -/
  | shl8
  /-- `*scratch >>= 8;` -/
  | shr8
  /-- `*scratch |= ((uint64_t)(*iop++)) << num_bits;` (LE) / `… << (56 - num_bits);` (BE) -/
  | orByte (be : Bool)
  /-- `t_k = (uintYY_t)(*scratch);` (LE) / `… (*scratch >> (64 - 8n));` (BE) -/
  | setT (n : Nat) (be : Bool)
  /-- `num_bits += 8u;` -/
  | nbInc
  /-- `*scratch |= ((uint64_t)(num_bits)) << 56;` (LE) / `*scratch |= (uint64_t)(num_bits);` (BE) -/
  | orNb (be : Bool)
  /-- `lhs = t_k;` (or `lhs op= t_k;`) — the assignment the call is the right-hand side of -/
  | store
  /-- `status = wuffs_base__make_status(wuffs_base__suspension__short_read);` -/
  | setShortRead
  /-- `status = wuffs_base__make_status(wuffs_base__suspension__short_write);` -/
  | setShortWrite
  /-- `scratch = <n>;` (skip) / `scratch = <a>;` (write_u8): the argument is evaluated ONCE, before the point -/
  | scratchSetArg
  /-- `scratch -= (uint64_t)(io2 - iop);` -/
  | scratchSubAvail
  /-- `iop = io2;` -/
  | iopToEnd
  /-- `iop += scratch;` -/
  | advScratch
  /-- `*iop++ = (uint8_t)(scratch);` -/
  | storeByte
  /-- `a_src->meta.ri = (size_t)(iop_a_src - a_src->data.ptr);` -/
  | saveRi
  /-- `status = wuffs_pkg__s__f(self, a_src);` -/
  | callStatus
  /-- `iop_a_src = a_src->data.ptr + a_src->meta.ri;` -/
  | loadIop
  deriving Repr, DecidableEq, Inhabited

inductive Tm where
  | atom (a : Atom)
  /-- `WUFFS_BASE__COROUTINE_SUSPENSION_POINT(k);` — `k` is assigned by `number` -/
  | point (k : Nat)
  | ifThen (c : Cond) (t : List Tm)
  | ifElse (c : Cond) (t e : List Tm)
  | whileTrue (b : List Tm)
  | brk
  | gotoSuspend
  /-- `{ … }` -/
  | block (b : List Tm)
  deriving Repr, Inhabited

open Tm Atom in
/-- writeReadUxxAsUyy (behind the suspension point that writeBuiltinQuestionCall
writes first), inside the braces of the assignment; points `k`, `k + 1` -/
def readTmpl (n : Nat) (be : Bool) (k : Nat) : Tm :=
  block [
    point k,
    atom declT,
    ifElse (.availGE n)
      [atom (peekT n be), atom (adv n)]
      [atom scratch0,
       point (k + 1),
       whileTrue [
         ifThen .empty [atom setShortRead, gotoSuspend],
         atom scratchPtr,
         atom (nbLoad be),
         atom (if be then shr8 else shl8),
         atom (if be then shl8 else shr8),
         atom (orByte be),
         ifThen (.nbEq (8 * n - 8)) [atom (setT n be), brk],
         atom nbInc,
         atom (orNb be)]],
    atom store]

open Tm Atom in
/-- read_u8?, read_u8_as_uNN?: one point -/
def read8Tmpl (k : Nat) : Tm :=
  block [
    point k,
    ifThen .empty [atom setShortRead, gotoSuspend],
    atom loadByteT,
    atom store]

open Tm Atom in
/-- skip?(n: 1), skip_u32?(n: 1) (the argument has ConstValue 1) -/
def skip1Tmpl (k : Nat) : List Tm :=
  [point k, ifThen .empty [atom setShortRead, gotoSuspend], atom inc]

open Tm Atom in
def skipTmpl (k : Nat) : List Tm :=
  [atom scratchSetArg,
   point k,
   ifThen .scratchGtAvail [atom scratchSubAvail, atom iopToEnd, atom setShortRead, gotoSuspend],
   atom advScratch]

open Tm Atom in
def writeTmpl (k : Nat) : List Tm :=
  [atom scratchSetArg,
   point k,
   ifThen .empty [atom setShortWrite, gotoSuspend],
   atom storeByte]

open Tm Atom in
/-- a call of a coroutine of the same struct, `j` of whose arguments are I/O
arguments of the caller (their position is saved before and reloaded after) -/
def callTmpl (j : Nat) (k : Nat) : List Tm :=
  List.replicate j (ifThen .opaque [atom saveRi]) ++
  [point k, atom callStatus] ++
  List.replicate j (ifThen .opaque [atom loadIop]) ++
  [ifThen .opaque [gotoSuspend]]

/-! ## Skeleton text -/

mutual
def Tm.show : Tm → List String
  | .atom _ => ["A"]
  | .point _ => ["P"]
  | .ifThen _ t => ["I{"] ++ showTms t ++ ["}"]
  | .ifElse _ t e => ["I{"] ++ showTms t ++ ["}E{"] ++ showTms e ++ ["}"]
  | .whileTrue b => ["W{"] ++ showTms b ++ ["}"]
  | .brk => ["B"]
  | .gotoSuspend => ["G:s"]
  | .block b => ["{"] ++ showTms b ++ ["}"]
def showTms : List Tm → List String
  | [] => []
  | t :: r => t.show ++ showTms r
end

/-! ## Codes: how Model/CStmtAst.lean names the template of an atomic statement
(`WStmt.act code`; 0 = a statement without a suspending call) -/

inductive Kind where
  | plain
  | read8
  | read (n : Nat) (be : Bool)
  | skip1
  | skip
  | write
  | call (j : Nat)
  deriving Repr, DecidableEq, Inhabited

def Kind.code : Kind → Nat
  | .plain => 0
  | .read8 => 1
  | .skip1 => 2
  | .skip => 3
  | .write => 4
  | .read n be => 100 + 2 * n + (if be then 1 else 0)
  | .call j => 200 + j

def Kind.ofCode (c : Nat) : Kind :=
  if c == 0 then .plain
  else if c == 1 then .read8
  else if c == 2 then .skip1
  else if c == 3 then .skip
  else if c == 4 then .write
  else if 100 ≤ c && c < 200 then .read ((c - 100) / 2) ((c - 100) % 2 == 1)
  else .call (c - 200)

/-- number of suspension points of the template -/
def Kind.points : Kind → Nat
  | .plain => 0
  | .read _ _ => 2
  | _ => 1

/-- the template, its first point being `k` -/
def Kind.tmpl (kd : Kind) (k : Nat) : List Tm :=
  match kd with
  | .plain => [.atom .store]
  | .read8 => [read8Tmpl k]
  | .read n be => [readTmpl n be k]
  | .skip1 => skip1Tmpl k
  | .skip => skipTmpl k
  | .write => writeTmpl k
  | .call j => callTmpl j k

/-- tokens of the atomic statement with code `c` -/
def actTokens (c : Nat) : List String :=
  match Kind.ofCode c with
  | .plain => ["A"]
  | kd => showTms (kd.tmpl 0)

end WuffsVerif.CCoro
