/-
C04 — the `iterate` expansion of internal/cgen/statement.go
(writeStatementIterate / writeIterateRound) as a list transformer.

A Wuffs `iterate (c = s)(length: L, advance: A, unroll: U) { body }` means
(doc/note/iterate-loops.md; unrolling "affects performance but not
semantics"): starting at offset p in the slice of length n, while a chunk of
length L still fits, run the body on `s[p .. p+L]` and advance by A.

The generated C runs, per iterate block, one round with the given unroll count
and — if that count is not 1 — a second round with unroll 1:

```
v_c.len = L;
const uint8_t* end = v_c.ptr + END;     // see `roundEnd`
while (v_c.ptr < end) {
  body; v_c.ptr += A;                   // U times
}
```

where END is `slice.len` (as an absolute end) when L = A = U = 1,
`((len - off) / (L*U)) * (L*U)` when L = A, and otherwise
`wuffs_private_impl__iterate_total_advance(len - off, L + A*(U-1), A*U)`
(base/fundamental-private.h).  A visit is (offset, length).  Core Lean only.
-/
namespace WuffsVerif.Iterate

abbrev Visit := Nat × Nat

/-- The meaning: the plain loop.  `fuel` bounds the iterations (n + 1 suffices). -/
def plainLoop (n L A : Nat) : Nat → Nat → List Visit × Nat
  | 0, p => ([], p)
  | fuel + 1, p =>
    if p + L ≤ n then
      let r := plainLoop n L A fuel (p + A)
      ((p, L) :: r.1, r.2)
    else ([], p)

/-- base/fundamental-private.h wuffs_private_impl__iterate_total_advance -/
def totalAdvance (totalLen iterLen iterAdvance : Nat) : Nat :=
  if totalLen ≥ iterLen then ((totalLen - iterLen) / iterAdvance) * iterAdvance + iterAdvance else 0

/-- the `end` pointer of writeIterateRound, as an offset into the slice -/
def roundEnd (n p L A U : Nat) : Nat :=
  if L = 1 ∧ A = 1 ∧ U = 1 then n
  else if L = A then p + ((n - p) / (L * U)) * (L * U)
  else p + totalAdvance (n - p) (L + A * (U - 1)) (A * U)

/-- the U body copies of one trip through the unrolled loop -/
def unrolledBody (p L A U : Nat) : List Visit := (List.range U).map (fun i => (p + i * A, L))

/-- `while (ptr < end) { U × (body; ptr += A) }` -/
def cRound (L A U endp : Nat) : Nat → Nat → List Visit × Nat
  | 0, p => ([], p)
  | fuel + 1, p =>
    if p < endp then
      let r := cRound L A U endp fuel (p + U * A)
      (unrolledBody p L A U ++ r.1, r.2)
    else ([], p)

/-- one iterate block as emitted: the unrolled round, then (if U ≠ 1) the
remainder round with unroll 1 -/
def cBlock (n L A U p : Nat) : List Visit × Nat :=
  let r1 := cRound L A U (roundEnd n p L A U) (n + 1) p
  if U = 1 then r1
  else
    let r2 := cRound L A 1 (roundEnd n r1.2 L A 1) (n + 1) r1.2
    (r1.1 ++ r2.1, r2.2)

/-- the plain meaning of one block -/
def plainBlock (n L A p : Nat) : List Visit × Nat := plainLoop n L A (n + 1) p

/-- an `iterate … else …` chain: blocks run one after the other on the rest -/
def cChain (n : Nat) : List (Nat × Nat × Nat) → Nat → List Visit × Nat
  | [], p => ([], p)
  | (L, A, U) :: rest, p =>
    let r := cBlock n L A U p
    let r' := cChain n rest r.2
    (r.1 ++ r'.1, r'.2)

def plainChain (n : Nat) : List (Nat × Nat × Nat) → Nat → List Visit × Nat
  | [], p => ([], p)
  | (L, A, _) :: rest, p =>
    let r := plainBlock n L A p
    let r' := plainChain n rest r.2
    (r.1 ++ r'.1, r'.2)

end WuffsVerif.Iterate
