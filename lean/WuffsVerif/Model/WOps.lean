/-
C04 — the MEANING of the Wuffs operators, as the language defines it
(/repo/doc/wuffs-the-language.md "Operators", doc/note/bounds-checking.md
"Overflow Checking", doc/glossary.md modular/saturating arithmetic):

* values are ideal integers;
* a plain arithmetic operator is only accepted when the checker can prove that
  the ideal result lies inside the range of the node's type
  (lang/check/bounds.go bcheckExpr: "expression … bounds … is not within
  bounds …"), shifts additionally need the shift amount inside
  `numShiftBounds` (0 ..= bits-1), `/` and `%` a positive divisor;
* the `~mod` forms wrap modulo 2^bits, the `~sat` forms clamp to the type.

`WOp.defined` is the side condition the checker guarantees for a node,
`WOp.ideal` the value.  Both the reference interpreter (Model/WSem.lean) and
the lowering theorems (Props/C04.lean) use these definitions.  Core Lean only.
-/
namespace WuffsVerif.WOps

/-- Binary operators of the language (token.IDXBinary*, minus `as`). -/
inductive WOp where
  | add | sub | mul | div | shl | shr | band | bor | bxor | rem
  | modAdd | modSub | modMul | modShl | satAdd | satSub
  | ne | lt | le | eq | ge | gt | land | lor
  deriving DecidableEq, Repr, Inhabited

/-- Unary operators (token.IDXUnary*). -/
inductive WUn where
  | pos | neg | lnot
  deriving DecidableEq, Repr, Inhabited

/-- The unsigned numeric types of the fragment. -/
inductive WTy where
  | u8 | u16 | u32 | u64
  deriving DecidableEq, Repr, Inhabited

def WTy.bits : WTy → Nat
  | .u8 => 8 | .u16 => 16 | .u32 => 32 | .u64 => 64

/-- largest value of the type, `numTypeBounds[…][1]` -/
def WTy.max (t : WTy) : Int := 2 ^ t.bits - 1

def WTy.ofBits? : Nat → Option WTy
  | 8 => some .u8 | 16 => some .u16 | 32 => some .u32 | 64 => some .u64 | _ => none

/-- a value of the type -/
def WTy.has (t : WTy) (v : Int) : Prop := 0 ≤ v ∧ v ≤ t.max

instance (t : WTy) (v : Int) : Decidable (t.has v) := by unfold WTy.has; exact inferInstance

def b2i (b : Bool) : Int := if b then 1 else 0

/-- bitwise operators on non-negative ideal integers -/
def iand (a b : Int) : Int := Int.ofNat (a.toNat &&& b.toNat)
def ior (a b : Int) : Int := Int.ofNat (a.toNat ||| b.toNat)
def ixor (a b : Int) : Int := Int.ofNat (a.toNat ^^^ b.toNat)

def WOp.isComparison : WOp → Bool
  | .ne | .lt | .le | .eq | .ge | .gt => true
  | _ => false

def WOp.isLogical : WOp → Bool
  | .land | .lor => true
  | _ => false

/-- The ideal-integer value of `a op b`; `t` is the type of the node (for
comparisons: of the operands).  For the shifts `b` is the shift amount. -/
def WOp.ideal (op : WOp) (t : WTy) (a b : Int) : Int :=
  match op with
  | .add => a + b
  | .sub => a - b
  | .mul => a * b
  | .div => a / b
  | .rem => a % b
  | .shl => a * 2 ^ b.toNat
  | .shr => a / 2 ^ b.toNat
  | .band => iand a b
  | .bor => ior a b
  | .bxor => ixor a b
  | .modAdd => (a + b) % 2 ^ t.bits
  | .modSub => (a - b) % 2 ^ t.bits
  | .modMul => (a * b) % 2 ^ t.bits
  | .modShl => (a * 2 ^ b.toNat) % 2 ^ t.bits
  | .satAdd => if a + b > t.max then t.max else a + b
  | .satSub => if a - b < 0 then 0 else a - b
  | .ne => b2i (a != b)
  | .lt => b2i (a < b)
  | .le => b2i (a ≤ b)
  | .eq => b2i (a == b)
  | .ge => b2i (a ≥ b)
  | .gt => b2i (a > b)
  | .land => b2i (a != 0 && b != 0)
  | .lor => b2i (a != 0 || b != 0)

/-- What the checker guarantees about a node `a op b` of type `t` whose
operands are values of their types: shift amounts inside numShiftBounds,
positive divisors, and the ideal result inside the node's type. -/
def WOp.defined (op : WOp) (t : WTy) (a b : Int) : Prop :=
  match op with
  | .div | .rem => 0 < b
  | .shl => b < t.bits ∧ a * 2 ^ b.toNat ≤ t.max
  | .shr | .modShl => b < t.bits
  | .add => a + b ≤ t.max
  | .sub => 0 ≤ a - b
  | .mul => a * b ≤ t.max
  | _ => True

instance (op : WOp) (t : WTy) (a b : Int) : Decidable (op.defined t a b) := by
  unfold WOp.defined; cases op <;> exact inferInstance

/-- The Wuffs meaning of `a op b` at type `t`: `none` when the checker's
guarantee does not hold (such a program is not accepted). -/
def wmeaning (op : WOp) (t : WTy) (a b : Int) : Option Int :=
  if op.defined t a b then some (op.ideal t a b) else none

/-- `x as T`: defined when the value fits the target type. -/
def wAs (t : WTy) (a : Int) : Option Int := if t.has a then some a else none

end WuffsVerif.WOps
