/-
C09 — lane model of the SSE4.2 Adler-32 update loop `hasher.up_x86_sse42` of
/repo/std/adler32/common_up_x86_sse42.wuffs (the portable twin is Model/Adler32Up.lean).

Per outer iteration (a chunk of at most 5536 bytes):
```
num_iterate_bytes = len & ~31;   s2 ~mod+= s1 ~mod* num_iterate_bytes
v1 = v2j = v2k = 0                                                 // u32×4 each
iterate 32 bytes p at a time {
    v2j = _mm_add_epi32(v2j, v1)
    v1  = _mm_add_epi32(v1, _mm_sad_epu8(p[0..16], 0));  v1 = _mm_add_epi32(v1, _mm_sad_epu8(p[16..32], 0))
    v2k = _mm_add_epi32(v2k, _mm_madd_epi16(ones, _mm_maddubs_epi16(p[0..16],  32..17)))
    v2k = _mm_add_epi32(v2k, _mm_madd_epi16(ones, _mm_maddubs_epi16(p[16..32], 16..1)))
}
s1 ~mod+= hsum(v1);   s2 ~mod+= hsum(v2k + (v2j << 5))              // two shuffle/add rounds, lane 0
tail (< 32 bytes): s1 ~mod+= p[0]; s2 ~mod+= s1
s1 %= 65521; s2 %= 65521
```
Lane semantics are Intel's documented ones: `_mm_add_epi32` / `_mm_slli_epi32` wrap at 2^32 (explicit
`% W`), `_mm_sad_epu8(q, 0)` = [u64×2: sum of bytes 0..7, sum of bytes 8..15] (read as u32×4: lanes 1 and
3 are zero), `_mm_maddubs_epi16` multiplies unsigned bytes by signed bytes and adds adjacent pairs with
SIGNED SATURATION to i16 (`sat16`, explicit), `_mm_madd_epi16(ones, ·)` adds adjacent i16 pairs into
i32.  Like the JPEG IDCT lane model this is an emulation: the SIMD built-ins have no Wuffs-level
semantics.  Core Lean only.
-/
import WuffsVerif.Model.Adler32Up

namespace WuffsVerif.Adler32Sse
open WuffsVerif.Adler32Up

/-- u32×4 -/
structure V4 where
  a : Nat
  b : Nat
  c : Nat
  d : Nat
deriving Repr, DecidableEq

def zero4 : V4 := ⟨0, 0, 0, 0⟩

/-- `_mm_add_epi32` -/
def V4.add (x y : V4) : V4 := ⟨(x.a + y.a) % W, (x.b + y.b) % W, (x.c + y.c) % W, (x.d + y.d) % W⟩

/-- `_mm_slli_epi32(imm8: 5)` -/
def V4.shl5 (x : V4) : V4 := ⟨(x.a * 32) % W, (x.b * 32) % W, (x.c * 32) % W, (x.d * 32) % W⟩

/-- `v = v + shuffle(v, 0b10110001); v = v + shuffle(v, 0b01001110); v.truncate_u32()` -/
def V4.hsum (x : V4) : Nat := ((x.a + x.b) % W + (x.c + x.d) % W) % W

def byteAt (p : List UInt8) (i : Nat) : Nat := (p.getD i 0).toNat

/-- one u64 lane of `_mm_sad_epu8(q, zeroes)`: the sum of 8 consecutive bytes -/
def sum8 (p : List UInt8) (o : Nat) : Nat :=
  byteAt p o + byteAt p (o + 1) + byteAt p (o + 2) + byteAt p (o + 3) +
  byteAt p (o + 4) + byteAt p (o + 5) + byteAt p (o + 6) + byteAt p (o + 7)

/-- signed saturation to i16 of a non-negative value -/
def sat16 (v : Nat) : Nat := if v ≤ 32767 then v else 32767

/-- one i32 lane of `ones._mm_madd_epi16(q._mm_maddubs_epi16(weights))`: 4 consecutive bytes, their 4 weights -/
def wlane (p : List UInt8) (o w0 w1 w2 w3 : Nat) : Nat :=
  sat16 (byteAt p o * w0 + byteAt p (o + 1) * w1) + sat16 (byteAt p (o + 2) * w2 + byteAt p (o + 3) * w3)

structure Acc where
  v1 : V4
  v2j : V4
  v2k : V4

/-- the body of the 32-byte `iterate` loop -/
def sseIter (acc : Acc) (p : List UInt8) : Acc :=
  let v2j := acc.v2j.add acc.v1
  let v1 := (acc.v1.add ⟨sum8 p 0, 0, sum8 p 8, 0⟩).add ⟨sum8 p 16, 0, sum8 p 24, 0⟩
  let v2k := (acc.v2k.add ⟨wlane p 0 32 31 30 29, wlane p 4 28 27 26 25, wlane p 8 24 23 22 21, wlane p 12 20 19 18 17⟩).add
    ⟨wlane p 16 16 15 14 13, wlane p 20 12 11 10 9, wlane p 24 8 7 6 5, wlane p 28 4 3 2 1⟩
  ⟨v1, v2j, v2k⟩

/-- `n` iterations over the front of `bs` -/
def sseLoop : Nat → List UInt8 → Acc → Acc
  | 0, _, acc => acc
  | n + 1, bs, acc => sseLoop n (bs.drop 32) (sseIter acc (bs.take 32))

/-- one pass of the outer loop body of `up_x86_sse42` over `chunk` -/
def sseChunk (st : Nat × Nat) (chunk : List UInt8) : Nat × Nat :=
  let n := chunk.length / 32
  let s2a := (st.2 + (st.1 * (32 * n)) % W) % W
  let acc := sseLoop n chunk ⟨zero4, zero4, zero4⟩
  let s1 := (st.1 + acc.v1.hsum) % W
  let s2 := (s2a + (acc.v2k.add acc.v2j.shl5).hsum) % W
  let r := (chunk.drop (32 * n)).foldl innerStep (s1, s2)
  (r.1 % 65521, r.2 % 65521)

/-- the outer loop with chunk size `c` (5536 in the source) -/
def upSse (c : Nat) : Nat → Nat × Nat → List UInt8 → Nat × Nat
  | 0, st, _ => st
  | f + 1, st, bs => if bs.isEmpty then st else upSse c f (sseChunk st (bs.take c)) (bs.drop c)

def hashSse (c : Nat) (bs : List UInt8) : Nat :=
  let st := upSse c bs.length (1, 0) bs
  st.2 * 65536 + st.1

end WuffsVerif.Adler32Sse
