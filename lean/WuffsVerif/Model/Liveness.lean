/-
C05 — model of `/repo/internal/cgen/liveness.go`: the none/weak/strong
liveness analysis that decides which local variables of a coroutine are saved
in `self->private_data.s_<func>` across a suspension (`varResumables`).

The analysis is run over an abstract statement language that keeps exactly what
`liveness.go` looks at: which local variables an expression mentions, whether
the expression is a coroutine call (a CSP, coroutine suspension point) and, if
so, whether its receiver is an I/O or token type; assignments to plain locals;
`if`, `while`, `break`/`continue` (by loop depth), `return`/`yield`, I/O
manipulation blocks and `var`.  The serialiser that produces this language from
the real AST is `/repo/internal/cgen/verif_export_c05.go`.

Core Lean only.  Every function cites the Go function it mirrors.
-/
namespace WuffsVerif.Liveness

/-- `type liveness uint32`: `livenessNone = 0`, `livenessWeak = 1`, `livenessStrong = 2`. -/
inductive Lness where
  | none | weak | strong
  deriving DecidableEq, Repr, Inhabited

namespace Lness

def toNat : Lness → Nat
  | none => 0 | weak => 1 | strong => 2

/-- One element of `livenesses.reconcile`: `if r[i] < s[i] { r[i] = s[i] }`. -/
def join (a b : Lness) : Lness := if a.toNat < b.toNat then b else a

/-- `lowerWeakToNone` on one element. -/
def lowerWeakToNone : Lness → Lness
  | weak => none | x => x

/-- `raiseWeakToStrong` on one element. -/
def raiseWeakToStrong : Lness → Lness
  | weak => strong | x => x

/-- `raiseNoneToWeak` on one element. -/
def raiseNoneToWeak : Lness → Lness
  | none => weak | x => x

end Lness

/-- `type livenesses []liveness`, one entry per local variable; all the slices
of one analysis have the same length `n = len(h.vars)`. -/
abbrev Lv (n : Nat) := Vector Lness n

namespace Lv
variable {n : Nat}

/-- `r.clear()` (also `make(livenesses, n)`). -/
def clear : Lv n := Vector.replicate n Lness.none

/-- `r[i]`, `none` when `i` is not a variable index. -/
def get (r : Lv n) (i : Nat) : Lness := if h : i < n then r[i] else Lness.none

/-- `r[i] = f(r[i])`; identifiers that are not local variables are ignored
(`if i, ok := h.vars[n.Ident()]; ok`). -/
def modify (r : Lv n) (i : Nat) (f : Lness → Lness) : Lv n :=
  if h : i < n then r.set i (f r[i]) else r

/-- `r.reconcile(s)` (the `changed` result is recomputed by comparison where needed). -/
def reconcile (r s : Lv n) : Lv n := Vector.zipWith Lness.join r s

def lowerWeakToNone (r : Lv n) (i : Nat) : Lv n := r.modify i Lness.lowerWeakToNone
def raiseToStrong (r : Lv n) (i : Nat) : Lv n := r.modify i (fun _ => Lness.strong)
def raiseWeakToStrong (r : Lv n) (i : Nat) : Lv n := r.modify i Lness.raiseWeakToStrong
def raiseNoneToWeak (r : Lv n) : Lv n := r.map Lness.raiseNoneToWeak

/-- Sum of the levels: the quantity that grows with every effective `reconcile`. -/
def rank (r : Lv n) : Nat := (r.toList.map Lness.toNat).sum

end Lv

/-- What the analysis looks at in an `*a.Expr`: `n.Effect().Coroutine()`, whether the
receiver of that coroutine call `IsIOTokenType()`, and the local variables mentioned
anywhere inside (`doExpr1`'s walk). -/
structure Ex where
  coro : Bool
  ioRecv : Bool
  vars : List Nat
  /-- Which occurrence this is. The analysis never looks at it (it is 0 in everything the
  serialiser writes); an interpretation of the abstract language (`Model/LivenessRun.lean`,
  `Model/SplitRun.lean`) uses it to give each expression occurrence its own meaning. -/
  tag : Nat
  deriving Repr, DecidableEq, Inhabited

/-- Assignment operators as `doAssign` distinguishes them. -/
inductive AOp where
  | eq          -- `=`
  | eqQuestion  -- `=?`
  | other       -- `+=`, `~mod+=`, …
  deriving Repr, DecidableEq, Inhabited

/-- `n.LHS()`: nil, a plain local variable (`lhs.Operator() == 0`), or any other expression. -/
inductive Lhs where
  | none
  | var (i : Nat)
  | expr (e : Ex)
  deriving Repr, DecidableEq, Inhabited

/-- The statement kinds `doBlock` switches on. An `else if` chain is an else block holding
exactly one `ite` (same computation as `doIf`'s `n = ei; continue`). `assert` and `choose`
statements are not looked at by the analysis and are not represented. -/
inductive Stmt where
  | assign (op : AOp) (lhs : Lhs) (rhs : Ex)
  | expr (e : Ex)
  | iomanip (io : Ex) (arg1 : Option Ex) (hist : Option Ex) (body : List Stmt)
  | ite (cond : Ex) (thn : List Stmt) (els : List Stmt)
  | jump (isBreak : Bool) (depth : Nat)
  | ret (isYield : Bool) (e : Ex)
  | var (i : Nat)
  | while (wt : Bool) (cond : Ex) (body : List Stmt)
  deriving Repr, Inhabited

abbrev Block := List Stmt

/-- `loopLivenesses` (without the `changed` flag, see `fixLoop`). -/
structure Loop (n : Nat) where
  before : Lv n
  after : Lv n
  deriving DecidableEq

namespace Loop
variable {n : Nat}
def join (l m : Loop n) : Loop n := ⟨l.before.reconcile m.before, l.after.reconcile m.after⟩
def rank (l : Loop n) : Nat := l.before.rank + l.after.rank
end Loop

/-- The mutable part of `livenessHelper`: the `loopLivenesses` of the enclosing loops
(`h.loops[n.JumpTarget()]`, innermost first) and `h.final`. -/
structure St (n : Nat) where
  loops : List (Loop n)
  final : Lv n

variable {n : Nat}

/-- `doExpr1`: every mentioned local is raised (to strong if `allToStrong`, else weak→strong). -/
def doExpr1 (r : Lv n) (e : Ex) (allToStrong : Bool) : Lv n :=
  e.vars.foldl (fun r i => if allToStrong then r.raiseToStrong i else r.raiseWeakToStrong i) r

/-- `allToStrong` of `doExpr`: a coroutine call whose receiver is not an I/O or token type
is re-issued with the same arguments on resumption. -/
def Ex.allToStrong (e : Ex) : Bool := e.coro && !e.ioRecv

/-- `doExpr`. -/
def doExpr (r : Lv n) (e : Ex) : Lv n :=
  let r := doExpr1 r e e.allToStrong
  if e.coro then r.raiseNoneToWeak else r

def doExprOpt (r : Lv n) : Option Ex → Lv n
  | none => r
  | some e => doExpr r e

/-- `doAssign`. -/
def doAssign (r : Lv n) (op : AOp) (lhs : Lhs) (rhs : Ex) : Lv n :=
  let r := if op = AOp.eqQuestion then doExpr1 r rhs false else doExpr r rhs
  match lhs with
  | Lhs.none => r
  | Lhs.expr e => doExpr r e                 -- `n.LHS().Operator() != 0`: walk the LHS
  | Lhs.var i =>
    -- the LHS is implicitly also on the RHS for `+=` etc.
    let r := if op ≠ AOp.eq ∧ op ≠ AOp.eqQuestion then doExpr r ⟨false, false, [i], 0⟩ else r
    r.lowerWeakToNone i

/-- `doJump`: reconcile into the target loop's `after` (break) or `before` (continue),
then `r.clear()`. A depth that is not an enclosing loop does not occur (the Go code would
dereference a nil `*loopLivenesses`; the serialiser rejects such a body); to stay total the
model then reconciles into `final`. -/
def doJump (r : Lv n) (σ : St n) (isBreak : Bool) (depth : Nat) : Lv n × St n :=
  match σ.loops[depth]? with
  | some l =>
    let l' : Loop n :=
      if isBreak then { l with after := l.after.reconcile r } else { l with before := l.before.reconcile r }
    (Lv.clear, { σ with loops := σ.loops.set depth l' })
  | none => (Lv.clear, { σ with final := σ.final.reconcile r })

/-- `doRet`. -/
def doRet (r : Lv n) (σ : St n) (isYield : Bool) (e : Ex) : Lv n × St n :=
  let r := doExpr r e
  if isYield then (r.raiseNoneToWeak, σ)
  else (Lv.clear, { σ with final := σ.final.reconcile r })

/-- The number of further effective `reconcile`s a loop's two slices can absorb. -/
def Loop.height (l : Loop n) : Nat := 4 * n - l.rank

theorem Lness.toNat_le_two (a : Lness) : a.toNat ≤ 2 := by cases a <;> decide

theorem Lness.toNat_join (a b : Lness) : (a.join b).toNat = max a.toNat b.toNat := by
  cases a <;> cases b <;> decide

theorem Lness.toNat_inj {a b : Lness} (h : a.toNat = b.toNat) : a = b := by
  cases a <;> cases b <;> simp_all [Lness.toNat]

private theorem list_rank_le : ∀ (a : List Lness), (a.map Lness.toNat).sum ≤ 2 * a.length
  | [] => by simp
  | x :: a => by
    have := list_rank_le a
    have := Lness.toNat_le_two x
    simp only [List.map_cons, List.sum_cons, List.length_cons]; omega

private theorem list_rank_zipWith : ∀ (a b : List Lness), a.length = b.length →
    (a.map Lness.toNat).sum ≤ ((List.zipWith Lness.join a b).map Lness.toNat).sum ∧
    (List.zipWith Lness.join a b ≠ a →
      (a.map Lness.toNat).sum < ((List.zipWith Lness.join a b).map Lness.toNat).sum)
  | [], [], _ => by simp
  | x :: a, y :: b, h => by
    have hl : a.length = b.length := by simpa using h
    have ⟨h1, h2⟩ := list_rank_zipWith a b hl
    have hj := Lness.toNat_join x y
    simp only [List.zipWith_cons_cons, List.map_cons, List.sum_cons, ne_eq, List.cons.injEq, not_and]
    constructor
    · omega
    · intro hne
      by_cases hx : x.join y = x
      · have := h2 (hne hx); omega
      · have : x.toNat < (x.join y).toNat := by
          rcases Nat.lt_or_ge x.toNat (x.join y).toNat with h | h
          · exact h
          · exact absurd (Lness.toNat_inj (by omega)) hx
        omega

theorem Lv.rank_le (r : Lv n) : r.rank ≤ 2 * n := by
  have := list_rank_le r.toList
  simpa [Lv.rank] using this

theorem Lv.rank_reconcile (r s : Lv n) :
    r.rank ≤ (r.reconcile s).rank ∧ (r.reconcile s ≠ r → r.rank < (r.reconcile s).rank) := by
  have h := list_rank_zipWith r.toList s.toList (by simp)
  simp only [Lv.rank, Lv.reconcile, Vector.toList_zipWith]
  refine ⟨h.1, fun hne => h.2 ?_⟩
  intro heq
  apply hne
  apply Vector.toList_inj.mp
  simpa using heq

/-- An effective `reconcile` strictly lowers the height: the lattice-height argument. -/
theorem Loop.height_join_lt (l m : Loop n) (h : l.join m ≠ l) : (l.join m).height < l.height := by
  have hb := Lv.rank_reconcile l.before m.before
  have ha := Lv.rank_reconcile l.after m.after
  have hb2 := Lv.rank_le (l.before.reconcile m.before)
  have ha2 := Lv.rank_le (l.after.reconcile m.after)
  have : l.before.reconcile m.before ≠ l.before ∨ l.after.reconcile m.after ≠ l.after := by
    by_cases h1 : l.before.reconcile m.before = l.before
    · right
      intro h2
      apply h
      cases l
      simp_all [Loop.join]
    · exact Or.inl h1
  simp only [Loop.height, Loop.rank, Loop.join]
  rcases this with h1 | h1
  · have := hb.2 h1; omega
  · have := ha.2 h1; omega

/-- The iteration of `doWhile`: `for l.changed = true; l.changed; { l.changed = false; … }`.
`step` is one pass over condition and body, started from `l.before`; it returns the loop's
slices as the pass left them. `l.changed` is "some `l.before.reconcile`/`l.after.reconcile`
of this pass changed something", i.e. the slices differ from those the pass started with;
slices only ever grow, the `join` with the previous value makes that explicit.
Accepted by Lean's termination checker: each further pass strictly lowers `Loop.height`. -/
def fixLoopWF (step : Loop n → St n → Loop n × St n) (l : Loop n) (σ : St n) : Loop n × St n :=
  let p := step l σ
  let l2 := l.join p.1
  if h : l2 = l then (l, p.2) else fixLoopWF step l2 p.2
termination_by l.height
decreasing_by exact Loop.height_join_lt l _ h

/-- The same iteration with an explicit bound on the number of passes (structural recursion, so
that the kernel can evaluate the analysis on concrete programs). -/
def fixLoopN (step : Loop n → St n → Loop n × St n) : Nat → Loop n → St n → Loop n × St n
  | 0, l, σ => (l, (step l σ).2)
  | k + 1, l, σ =>
    let p := step l σ
    let l2 := l.join p.1
    if l2 = l then (l, p.2) else fixLoopN step k l2 p.2

/-- `doWhile`'s iteration: `Loop.height l + 1 ≤ 4·n + 1` passes always suffice — `fixLoop` IS the
unbounded iteration `fixLoopWF` (`Proof/LivenessMain.lean`, `fixLoop_eq_wf`). -/
def fixLoop (step : Loop n → St n → Loop n × St n) (l : Loop n) (σ : St n) : Loop n × St n :=
  fixLoopN step (l.height + 1) l σ

/-- One pass of `doWhile`'s `for` loop over condition and body, started from `l.before`, with
the loop's own `loopLivenesses` pushed for the body (`h.loops[n] = l`); returns the loop's
slices as the pass left them. `body` is `doBlock · · n.Body()`. -/
def whileStep (wt : Bool) (cond : Ex) (body : Lv n → St n → Lv n × St n) (l : Loop n) (σ : St n) :
    Loop n × St n :=
  let r := doExpr l.before cond             -- `copy(r, l.before)`; condition
  -- `else if !n.IsWhileTrue() { l.changed = l.after.reconcile(r) || l.changed }`
  let l := if wt then l else { l with after := l.after.reconcile r }
  let p := body r { σ with loops := l :: σ.loops }
  match p.2.loops with
  | l' :: outer =>
    -- `l.changed = l.before.reconcile(r) || l.changed`
    ({ l' with before := l'.before.reconcile p.1 }, { p.2 with loops := outer })
  | [] => (l, p.2)

mutual
/-- One statement of `doBlock`'s switch (`doAssign`, `doExpr`, `doIOManip`, `doIf`, `doVar`,
`doWhile`; in a block, jumps and returns also end the block, see `doBlock`). -/
def doStmt (r : Lv n) (σ : St n) : Stmt → Lv n × St n
  | .assign op lhs rhs => (doAssign r op lhs rhs, σ)
  | .expr e => (doExpr r e, σ)
  | .iomanip io arg1 hist body =>
    -- `doIOManip`
    doBlock (doExprOpt (doExprOpt (doExpr r io) arg1) hist) σ body
  | .ite cond thn els =>
    -- `doIf`: `result` starts all-none; each branch starts from a copy of `r`
    let r := doExpr r cond
    let p1 := doBlock r σ thn
    let p2 := doBlock r p1.2 els
    (((Lv.clear : Lv n).reconcile p1.1).reconcile p2.1, p2.2)
  | .jump isBreak depth => doJump r σ isBreak depth
  | .ret isYield e => doRet r σ isYield e
  | .var i => (r.lowerWeakToNone i, σ)      -- `doVar`
  | .while wt cond body =>
    -- `doWhile`; `l.before = copy of r`, `l.after = all none`
    let p := fixLoop (whileStep wt cond (fun r σ => doBlock r σ body)) ⟨r, Lv.clear⟩ σ
    -- `copy(r, l.after)`; plus the repair fixes/C05-liveness-dead-end-loop.patch:
    -- `h.final.reconcile(l.before)`, so that a strong that reached the loop is not
    -- forgotten when the loop has no exit.
    (p.1.after, { p.2 with final := p.2.final.reconcile p.1.before })

/-- `doBlock`: statements in order; a jump or a `return` ends the block (`break loop`). -/
def doBlock (r : Lv n) (σ : St n) : List Stmt → Lv n × St n
  | [] => (r, σ)
  | s :: rest =>
    match s with
    | .jump isBreak depth => doJump r σ isBreak depth
    | .ret false e => doRet r σ false e
    | s =>
      let p := doStmt r σ s
      doBlock p.1 p.2 rest
end

/-- `findVars` for a coroutine: `h.final[i] == livenessStrong` per variable. -/
def findVars (n : Nat) (body : List Stmt) : Lv n :=
  let p := doBlock (Lv.clear : Lv n) ⟨[], Lv.clear⟩ body
  p.2.final.reconcile p.1

/-- `varResumables` as the sorted list of variable indexes. -/
def resumables (n : Nat) (body : List Stmt) : List Nat :=
  (List.range n).filter (fun i => (findVars n body).get i == Lness.strong)

end WuffsVerif.Liveness
