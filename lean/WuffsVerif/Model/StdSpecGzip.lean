/-
C07 — specification decoder for gzip (RFC 1952) on top of the RFC 1951 specification
decoder of `Model/Flate/Spec.lean` (written by the C16 builder from the RFC) and the
bit-serial CRC-32 specification of `Model/StdHash.lean`.  Core Lean only.
-/
import WuffsVerif.Model.Flate.Spec
import WuffsVerif.Model.StdHash

namespace WuffsVerif.StdSpec.Gzip
open WuffsVerif.Flate.Spec

def le16 (s : Bytes) (i : Nat) : Nat := (s.getD i 0).toNat + 256 * (s.getD (i + 1) 0).toNat
def le32 (s : Bytes) (i : Nat) : Nat := le16 s i + 65536 * le16 s (i + 2)

/-- index just after the next zero byte at or after `i` (`none`: there is none) -/
def skipZ (s : Bytes) : (fuel : Nat) → (i : Nat) → Option Nat
  | 0, _ => none
  | fuel + 1, i => if i ≥ s.size then none else if s.getD i 0 = 0 then some (i + 1) else skipZ s fuel (i + 1)

def crc32Of (s : Bytes) : Nat := (WuffsVerif.StdHash.crc32Spec s.toList).toNat

/-- One member starting at `s[0]`: the decompressed data and the member's length in bytes. -/
def member (s : Bytes) : Option (Bytes × Nat) := do
  if s.size < 10 then none
  if s.getD 0 0 ≠ 0x1F ∨ s.getD 1 0 ≠ 0x8B ∨ s.getD 2 0 ≠ 8 then none
  let flg := (s.getD 3 0).toNat
  if flg / 32 ≠ 0 then none                       -- reserved bits
  let mut i := 10
  if (flg / 4) % 2 = 1 then                       -- FEXTRA
    if s.size < i + 2 then none
    i := i + 2 + le16 s i
    if s.size < i then none
  if (flg / 8) % 2 = 1 then i ← skipZ s s.size i   -- FNAME
  if (flg / 16) % 2 = 1 then i ← skipZ s s.size i  -- FCOMMENT
  if (flg / 2) % 2 = 1 then                       -- FHCRC
    if s.size < i + 2 then none
    if le16 s i ≠ crc32Of (s.extract 0 i) % 65536 then none
    i := i + 2
  let (out, n) ← inflate (s.extract i s.size)
  let j := i + n
  if s.size < j + 8 then none
  if le32 s j ≠ crc32Of out then none
  if le32 s (j + 4) ≠ out.size % 4294967296 then none
  pure (out, j + 8)

/-- A gzip file: one or more members (RFC 1952 §2.2), concatenated output. -/
def membersLoop (s : Bytes) : (fuel : Nat) → (pos : Nat) → (acc : Bytes) → Option Bytes
  | 0, _, _ => none
  | fuel + 1, pos, acc =>
    match member (s.extract pos s.size) with
    | none => none
    | some (out, n) =>
      let acc := acc ++ out
      if pos + n ≥ s.size then some acc else membersLoop s fuel (pos + n) acc

def decode (s : Bytes) : Option Bytes := membersLoop s (s.size + 1) 0 #[]

end WuffsVerif.StdSpec.Gzip
