/-
C09 — model of the `choose f = [a, b, c]` statement.

Source: /repo/internal/cgen/statement.go `writeStatementChoose` + `cpuArchCNames`
emit
```
self->private_impl.choosy_f = (
#if defined(WUFFS_PRIVATE_IMPL__CPU_ARCH__<MACRO(a)>)
    wuffs_base__cpu_arch__have_<NAME(a)>() ? &a :
#endif
    …                                   // one such arm per alternative with a cpu_arch precondition
    &c            // the first alternative WITHOUT a `choose cpu_arch >= …` precondition ends the list
  | self->private_impl.choosy_f);       // … or, if there is none: keep the current value
```
(an empty alternative list emits nothing).  The macros come from
/repo/internal/cgen/base/fundamental-public.h: none is defined under
`WUFFS_CONFIG__AVOID_CPU_ARCH`; with gcc/clang on x86_64 `X86_64`, `X86_64_V2`,
`X86_64_V3` are all defined and `have_x86_*()` ask cpuid at run time.
`lang/check/type.go tcheckChoose` only checks that every alternative exists and has a
compatible signature.  Core Lean only.
-/
namespace WuffsVerif.Choose

/-- the `choose cpu_arch >= X` precondition of an alternative (`none`: no precondition) -/
inductive Arch where
  | none | armCrc32 | armNeon | x86Sse42 | x86Avx2 | x86Bmi2
deriving DecidableEq, Repr

/-- the `WUFFS_PRIVATE_IMPL__CPU_ARCH__…` macro families of fundamental-public.h -/
inductive Macro where
  | armCrc32 | armNeon | x86_64_v2 | x86_64_v3
deriving DecidableEq, Repr

/-- `cpuArchCNames`: which macro guards the arm of an alternative with precondition `a`. -/
def Arch.macro : Arch → Option Macro
  | .none => Option.none
  | .armCrc32 => some .armCrc32
  | .armNeon => some .armNeon
  | .x86Sse42 => some .x86_64_v2
  | .x86Avx2 => some .x86_64_v3
  | .x86Bmi2 => some .x86_64_v3

/-- Build + machine: which macros the preprocessor saw, and what the
`wuffs_base__cpu_arch__have_*()` functions return on this CPU. -/
structure Cpu where
  defined : Macro → Bool
  has : Arch → Bool

/-- an alternative: function name and its cpu_arch precondition -/
structure Alt where
  name : String
  arch : Arch
deriving Repr, DecidableEq

/-- The value assigned to `choosy_f` by the emitted conditional expression;
`cur` is the current value of the field. -/
def choose (cpu : Cpu) : List Alt → String → String
  | [], cur => cur
  | a :: rest, cur =>
    match a.arch.macro with
    | Option.none => a.name                         -- conclusive: `&a);`, the rest is not emitted
    | some mac =>
      if cpu.defined mac && cpu.has a.arch then a.name   -- `#if defined(M) have() ? &a :`
      else choose cpu rest cur

/-- `-DWUFFS_CONFIG__AVOID_CPU_ARCH`: no macro defined (the `have` functions then
return false as well, unless the compiler itself targets the extension). -/
def Cpu.avoidCpuArch (has : Arch → Bool) : Cpu := ⟨fun _ => false, has⟩

/-- the first alternative without precondition, if any -/
def firstPortable : List Alt → Option String
  | [] => Option.none
  | a :: rest => if a.arch = .none then some a.name else firstPortable rest

end WuffsVerif.Choose
