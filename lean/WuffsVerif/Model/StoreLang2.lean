/-
C09 — a second, larger store language for the "never read a second-part element before
writing it" discipline (`Model/StoreLang.lean` is the loop-free core).  Added here, because the
second part of every std struct consists of ARRAYS indexed by decoded data inside LOOPS:

* fields are arrays: `cell f i` (static index) and `cellAt f idx` (data-dependent index);
* `fill f e` — a whole-array write (bulk_memset, table initialisation);
* `while` loops (fuel-bounded: the theorem holds for every fuel, i.e. every finite prefix of a
  run), `ret` (early exit; `halted` also models running out of fuel);
* operators are UNINTERPRETED (`interp`), arguments / input bytes are `arg k`: the theorem
  holds for every meaning of the operators, so a translator only has to preserve the data flow
  from second-part cells, not the arithmetic.

Like StoreLang this is a fragment model; it is not generated from std code.  Core Lean only.
-/
namespace WuffsVerif.StoreLang2

inductive Expr where
  | const (n : Nat)
  | loc (r : Nat)
  | arg (k : Nat)
  | cell (f i : Nat)
  | cellAt (f : Nat) (idx : Expr)
  | op (name : Nat) (a b : Expr)
deriving Repr

inductive Stmt where
  | skip
  | seq (s t : Stmt)
  | setLoc (r : Nat) (e : Expr)
  | setCell (f i : Nat) (e : Expr)
  | setCellAt (f : Nat) (idx e : Expr)
  | fill (f : Nat) (e : Expr)
  | out (e : Expr)
  | ite (c : Expr) (s t : Stmt)
  | while (c : Expr) (body : Stmt)
  | ret
deriving Repr

structure State where
  cells : Nat → Nat → Nat
  locs : Nat → Nat
  output : List Nat
  halted : Bool

/-- the world outside the second part: operator meanings and the arguments / input -/
structure Env where
  interp : Nat → Nat → Nat → Nat
  args : Nat → Nat

def eval (env : Env) (st : State) : Expr → Nat
  | .const n => n
  | .loc r => st.locs r
  | .arg k => env.args k
  | .cell f i => st.cells f i
  | .cellAt f idx => st.cells f (eval env st idx)
  | .op name a b => env.interp name (eval env st a) (eval env st b)

/-- fuel-bounded execution; running out of fuel halts (both runs of a comparison get the same fuel) -/
def exec (env : Env) : Nat → Stmt → State → State
  | 0, _, st => { st with halted := true }
  | n + 1, s, st =>
    if st.halted then st else
    match s with
    | .skip => st
    | .seq s t => exec env n t (exec env n s st)
    | .setLoc r e => { st with locs := fun x => if x = r then eval env st e else st.locs x }
    | .setCell f i e =>
      { st with cells := fun g j => if g = f ∧ j = i then eval env st e else st.cells g j }
    | .setCellAt f idx e =>
      { st with cells := fun g j => if g = f ∧ j = eval env st idx then eval env st e else st.cells g j }
    | .fill f e => { st with cells := fun g j => if g = f then eval env st e else st.cells g j }
    | .out e => { st with output := st.output ++ [eval env st e] }
    | .ite c s t => if eval env st c ≠ 0 then exec env n s st else exec env n t st
    | .while c body =>
      if eval env st c ≠ 0 then exec env n (.while c body) (exec env n body st) else st
    | .ret => { st with halted := true }

/-- must-written facts: single elements, and whole arrays -/
structure Written where
  elems : List (Nat × Nat)
  full : List Nat

def Written.empty : Written := ⟨[], []⟩

def Written.has (w : Written) (f i : Nat) : Bool := w.elems.contains (f, i) || w.full.contains f

def Written.meet (a b : Written) : Written :=
  ⟨a.elems.filter (fun x => b.elems.contains x), a.full.filter (fun f => b.full.contains f)⟩

/-- every second-part read of `e` is covered by `w`; a data-dependent index needs the whole array -/
def readsOK (w : Written) : Expr → Bool
  | .const _ => true
  | .loc _ => true
  | .arg _ => true
  | .cell f i => w.has f i
  | .cellAt f idx => w.full.contains f && readsOK w idx
  | .op _ a b => readsOK w a && readsOK w b

/-- must-written analysis; `none` = some read is not dominated by a write of that element
(or, for data-dependent indices, of the whole array) -/
def analyse (w : Written) : Stmt → Option Written
  | .skip => some w
  | .seq s t => (analyse w s).bind (fun w' => analyse w' t)
  | .setLoc _ e => if readsOK w e then some w else none
  | .setCell f i e => if readsOK w e then some ⟨(f, i) :: w.elems, w.full⟩ else none
  | .setCellAt _ idx e => if readsOK w idx && readsOK w e then some w else none
  | .fill f e => if readsOK w e then some ⟨w.elems, f :: w.full⟩ else none
  | .out e => if readsOK w e then some w else none
  | .ite c s t =>
    if readsOK w c then
      match analyse w s, analyse w t with
      | some ws, some wt => some (ws.meet wt)
      | _, _ => none
    else none
  | .while c body =>
    -- the body may run zero times: nothing is gained; it must be fine on entry facts alone
    if readsOK w c then (analyse w body).map (fun _ => w) else none
  | .ret => some w

def writesBeforeReads (p : Stmt) : Bool := (analyse Written.empty p).isSome

/-- a call: second part from the oracle, locals zero, nothing output yet -/
def run (env : Env) (fuel : Nat) (oracle : Nat → Nat → Nat) (p : Stmt) : State :=
  exec env fuel p ⟨oracle, fun _ => 0, [], false⟩

end WuffsVerif.StoreLang2
