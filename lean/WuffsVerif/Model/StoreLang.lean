/-
C09 — a small store language for the "never read a second-part element before writing it"
discipline (doc/note/initialization.md: "the Wuffs standard library also considers reading
from an uninitialized buffer to be a bug … not a bug class that the Wuffs compiler
eliminates").  The struct's second part (`private_data`) is a store of cells whose INITIAL
content comes from an arbitrary oracle (what LEAVE_INTERNAL_BUFFERS_UNINITIALIZED leaves
there); locals are always zero-initialised, as in Wuffs.  Statically indexed cells,
assignments, conditionals, output.  This is a fragment model (no loops, no data-dependent
indices — ring buffers indexed by data are outside it) and is not generated from std code.
Core Lean only.
-/
namespace WuffsVerif.StoreLang

inductive Expr where
  | const (n : Nat)
  | loc (r : Nat)                 -- local variable
  | cell (i : Nat)                -- this.second_part[i]
  | add (a b : Expr)
  | lt (a b : Expr)
deriving Repr

inductive Stmt where
  | skip
  | seq (s t : Stmt)
  | setLoc (r : Nat) (e : Expr)
  | setCell (i : Nat) (e : Expr)
  | out (e : Expr)                -- a byte written to the destination / part of the result
  | ite (c : Expr) (s t : Stmt)
deriving Repr

structure State where
  cells : Nat → Nat
  locs : Nat → Nat
  output : List Nat

def eval (st : State) : Expr → Nat
  | .const n => n
  | .loc r => st.locs r
  | .cell i => st.cells i
  | .add a b => eval st a + eval st b
  | .lt a b => if eval st a < eval st b then 1 else 0

def exec : Stmt → State → State
  | .skip, st => st
  | .seq s t, st => exec t (exec s st)
  | .setLoc r e, st => { st with locs := fun x => if x = r then eval st e else st.locs x }
  | .setCell i e, st => { st with cells := fun x => if x = i then eval st e else st.cells x }
  | .out e, st => { st with output := st.output ++ [eval st e] }
  | .ite c s t, st => if eval st c ≠ 0 then exec s st else exec t st

/-- every cell read by `e` is in the must-written set `w` -/
def readsOK (w : List Nat) : Expr → Bool
  | .const _ => true
  | .loc _ => true
  | .cell i => w.contains i
  | .add a b => readsOK w a && readsOK w b
  | .lt a b => readsOK w a && readsOK w b

/-- `writesBeforeReads`: a syntactic must-written analysis; `none` = some read of a cell is not
dominated by a write of that cell. -/
def analyse (w : List Nat) : Stmt → Option (List Nat)
  | .skip => some w
  | .seq s t => (analyse w s).bind (fun w' => analyse w' t)
  | .setLoc _ e => if readsOK w e then some w else none
  | .setCell i e => if readsOK w e then some (i :: w) else none
  | .out e => if readsOK w e then some w else none
  | .ite c s t =>
    if readsOK w c then
      match analyse w s, analyse w t with
      | some ws, some wt => some (ws.filter (fun i => wt.contains i))
      | _, _ => none
    else none

def writesBeforeReads (p : Stmt) : Bool := (analyse [] p).isSome

/-- a run of the method body: second part from the oracle, locals zero, nothing output yet -/
def run (oracle : Nat → Nat) (p : Stmt) : List Nat :=
  (exec p ⟨oracle, fun _ => 0, []⟩).output

end WuffsVerif.StoreLang
