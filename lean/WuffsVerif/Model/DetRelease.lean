/-
C20 — monolithic release assembly (`wuffs-c genrelease`, cmd/wuffs-c/release.go):
in which order the per-package C files are pasted into the single release file.

Mirrors doGenrelease (argument loop, duplicate check, `sort.Strings(h.filesList)`,
the two passes), genReleaseHelper.parse (only what decides the order: the file's
relative name and its `#include "…"` lines, sorted by parseIncludes) and
genReleaseHelper.gen (include-ee before include-er, depth limit 1024, `seen`).
The Go maps `filesMap` and `seen` are read through lookups only.

Core Lean only.  The fragments themselves are opaque: the model's output is the
sequence of file names whose fragment is written, which is the same for the
header pass and the implementation pass.
-/
import WuffsVerif.Model.Det

namespace WuffsVerif.Det

/-- what `parse` keeps of one generated C file, as far as ordering goes: its name
relative to the base directory and the include targets in the order they appear
in the file's preamble -/
structure CFile where
  rel : Name
  includes : List Name
  deriving Repr, DecidableEq

/-- "wuffs-base.c" -/
def wuffsBaseC : Name := [119, 117, 102, 102, 115, 45, 98, 97, 115, 101, 46, 99]
/-- "wuffs-std-tga.c": "std/tga was renamed to std/targa … Ignore the generated file from older versions." -/
def wuffsStdTgaC : Name := [119, 117, 102, 102, 115, 45, 115, 116, 100, 45, 116, 103, 97, 46, 99]

/-- release.go gen: `if strings.HasPrefix(relFilename, "./") { relFilename = relFilename[2:] }` -/
def stripDotSlash : Name → Name
  | 46 :: 47 :: rest => rest
  | n => n

/-- release.go genReleaseHelper.gen.  `lookup` is `h.filesMap[rel]` (the sorted include
list of the file), the state is (names written so far, `seen`).  Go's `depth > 1024`
check is the fuel: the call at depth d runs with fuel 1025 - d. -/
def relGen (lookup : Name → Option (List Name)) :
    Nat → (List Name × List Name) → Name → Option (List Name × List Name)
  | 0, _, _ => none
  | fuel + 1, (out, seen), rel =>
    let rel := stripDotSlash rel
    if seen.contains rel then some (out, seen) else
    match lookup rel with
    | none => none                                   -- "cannot resolve"
    | some incs =>
      match incs.foldl (fun (acc : Option (List Name × List Name)) inc =>
          acc.bind (fun st => relGen lookup fuel st inc)) (some (out, seen)) with
      | none => none
      | some (out, seen) => some (out ++ [rel], rel :: seen)

/-- the entries of `filesMap` built by the argument loop: (relative name, parseIncludes result) -/
def relEntries (args : List CFile) : List (Name × List Name) :=
  (args.filter (fun f => f.rel != wuffsStdTgaC)).map (fun f => (f.rel, sortNames f.includes))

/-- release.go doGenrelease, one pass: `none` on any error (no wuffs-base.c among the
arguments, a duplicate name, an include that cannot be resolved, depth > 1024),
else the names in the order their fragments are written. -/
def assemble (args : List CFile) : Option (List Name) :=
  if !(args.map (·.rel)).contains wuffsBaseC then none else
  let ents := relEntries args
  if !decide (ents.map (·.1)).Nodup then none else
  let filesList := sortNames (ents.map (·.1))
  (filesList.foldl (fun (acc : Option (List Name × List Name)) f =>
    acc.bind (fun st => relGen (fun k => List.lookup k ents) 1025 st f)) (some ([], []))).map (·.1)

end WuffsVerif.Det
