/-
Heap / identity model of /repo/lib/interval/interval.go (C06, "results never share storage
with the operands").

`Model/Interval.lean` models the VALUES.  This file models the POINTERS: a `*big.Int` is an
address into a heap of integer cells, an `IntRange` is a pair of optional addresses (`none` =
nil), `big.NewInt(..)` / `big.NewInt(0).Op(..)` allocate a new cell, `p.Set(..)`, `p.Not(p)`,
`bitFillRight(p)` store into an existing cell, `x[0] = y[0]` copies an address.  Every function
below follows the Go function of the same name statement by statement as far as pointers are
concerned: where the Go code returns / keeps / overwrites an operand pointer or a package-level
pointer (`one`, `minusOne`, `smallBitMasks[n]`, `sharedEmptyRange`), so does the model.
Straight-line arithmetic on freshly allocated local temporaries (the bodies of `andMax`,
`orMax`, `bitMask`'s `z`, `bigIntLsh`'s `k`) is modelled at the granularity "allocate the
temporaries, store the final values"; the values come from `Model/Interval.lean`.

Core Lean only (the `wv_c06` driver runs this model for every operator line and prints the
provenance of each result pointer next to the values).
`none` of the state monad = a Go panic.
-/
import WuffsVerif.Model.Interval

namespace WuffsVerif.IntervalHeap
open WuffsVerif.Interval

/-- an address is a natural number (a notation, so that `omega` and `simp` see `Nat`) -/
scoped notation "Addr" => Nat

/-- the heap: one integer cell per `big.Int` object ever allocated -/
abbrev Heap := Array Int

def Heap.get (h : Heap) (a : Addr) : Int := (h[a]?).getD 0

/-- heap computations; `none` = panic -/
abbrev HM := StateT Heap Option

/-- `big.NewInt(v)` / `big.NewInt(0).Set(..)` / `big.NewInt(0).Op(..)`: a new object -/
def alloc (v : Int) : HM Addr := fun h => some (h.size, h.push v)

/-- read `*p` -/
def load (a : Addr) : HM Int := fun h => some (h.get a, h)

/-- `p.Set(v)` (any in-place `big.Int` method with receiver `p`) -/
def store (a : Addr) (v : Int) : HM Unit := fun h => some ((), h.setIfInBounds a v)

/-- `panic(..)` -/
def panic {α : Type} : HM α := fun _ => none

/-! ### package-level objects: fixed addresses at the bottom of the heap -/

def aOne : Addr := 0
def aMinusOne : Addr := 1
def aMask (n : Nat) : Addr := 2 + n
def nGlobals : Nat := 2 + Gen.C06.smallBitMasks.length

/-- the heap holding exactly the package-level objects -/
def globalsHeap : Heap := (#[Gen.C06.one, Gen.C06.minusOne] : Array Int) ++ Gen.C06.smallBitMasks.toArray

/-- an `IntRange`: two possibly-nil pointers -/
structure HIR where
  lo : Option Addr
  hi : Option Addr
deriving DecidableEq, Repr, Inhabited

/-- `sharedEmptyRange = IntRange{one, minusOne}` -/
def sharedEmpty : HIR := ⟨some aOne, some aMinusOne⟩

/-- read through a possibly-nil pointer -/
def loadB (p : Option Addr) : HM (Option Int) :=
  match p with
  | none => pure none
  | some a => do let v ← load a; pure (some v)

/-- the value of an `IntRange` -/
def view (x : HIR) : HM IR := do
  let lo ← loadB x.lo
  let hi ← loadB x.hi
  pure ⟨lo, hi⟩

/-- the value of an `IntRange` in a given heap (pure) -/
def viewAt (h : Heap) (x : HIR) : IR := ⟨x.lo.map h.get, x.hi.map h.get⟩

/-- `makeEmptyRange` -/
def makeEmptyRange : HM HIR := do
  let a ← alloc 1
  let b ← alloc (-1)
  pure ⟨some a, some b⟩

/-- `IntRange{big.NewInt(0), big.NewInt(0)}` -/
def zeroRange : HM HIR := do
  let a ← alloc 0
  let b ← alloc 0
  pure ⟨some a, some b⟩

/-- `bigIntNewSet` -/
def bigIntNewSet (p : Option Addr) : HM (Option Addr) :=
  match p with
  | none => pure none
  | some a => do let v ← load a; let z ← alloc v; pure (some z)

/-- `bigIntNewNot` -/
def bigIntNewNot (p : Option Addr) : HM (Option Addr) :=
  match p with
  | none => pure none
  | some a => do let v ← load a; let z ← alloc (inot v); pure (some z)

/-- allocate a result bound when there is one: `if … { z[k] = big.NewInt(0).Op(..) }` -/
def allocOpt (v : Option Int) : HM (Option Addr) :=
  match v with
  | none => pure none
  | some v => do let z ← alloc v; pure (some z)

/-- `b := big.NewInt(lim); if p != nil && p.Cmp(b) < 0 { b = p }` : the operand's pointer when its
value is below the limit, else the new object -/
def pickBelow (p : Option Addr) (v : Option Int) (lim : Int) (fresh : Addr) : Addr :=
  match p, v with
  | some p, some b => if b < lim then p else fresh
  | _, _ => fresh

/-- `b := big.NewInt(lim); if p != nil && p.Cmp(b) > 0 { b = p }` -/
def pickAbove (p : Option Addr) (v : Option Int) (lim : Int) (fresh : Addr) : Addr :=
  match p, v with
  | some p, some a => if a > lim then p else fresh
  | _, _ => fresh

/-- `split2Ways` : (neg, nonNeg, hasNeg, hasNonNeg); the returned ranges hold operand
pointers, `sharedEmptyRange`'s pointers and new `-1` / `0` objects, exactly as in Go -/
def split2Ways (x : HIR) : HM (HIR × HIR × Bool × Bool) := do
  let X ← view x
  if X.empty then pure (sharedEmpty, sharedEmpty, false, false)
  else if (match X.lo with | some a => decide (a ≥ 0) | none => false) then
    pure (sharedEmpty, x, false, true)
  else if (match X.hi with | some b => decide (b < 0) | none => false) then
    pure (x, sharedEmpty, true, false)
  else do
    let m1 ← alloc (-1)
    let z ← alloc 0
    pure (⟨x.lo, some (pickBelow x.hi X.hi (-1) m1)⟩, ⟨some (pickAbove x.lo X.lo 0 z), x.hi⟩, true, true)

/-- `split3Ways` : (neg, pos, hasNeg, hasZero, hasPos) -/
def split3Ways (x : HIR) : HM (HIR × HIR × Bool × Bool × Bool) := do
  let X ← view x
  if X.empty then pure (sharedEmpty, sharedEmpty, false, false, false)
  else if (match X.lo with | some a => decide (a > 0) | none => false) then
    pure (sharedEmpty, x, false, false, true)
  else if (match X.hi with | some b => decide (b < 0) | none => false) then
    pure (x, sharedEmpty, true, false, false)
  else do
    let m1 ← alloc (-1)
    let p1 ← alloc 1
    let N ← view ⟨x.lo, some (pickBelow x.hi X.hi (-1) m1)⟩
    let P ← view ⟨some (pickAbove x.lo X.lo 1 p1), x.hi⟩
    pure (⟨x.lo, some (pickBelow x.hi X.hi (-1) m1)⟩, ⟨some (pickAbove x.lo X.lo 1 p1), x.hi⟩,
      !N.empty, X.containsZero, !P.empty)

/-- `Unite` -/
def unite (x y : HIR) : HM HIR := do
  let X ← view x
  let Y ← view y
  if X.empty then do
    let lo ← bigIntNewSet y.lo
    let hi ← bigIntNewSet y.hi
    pure ⟨lo, hi⟩
  else if Y.empty then do
    let lo ← bigIntNewSet x.lo
    let hi ← bigIntNewSet x.hi
    pure ⟨lo, hi⟩
  else do
    let lo ← allocOpt (match X.lo, Y.lo with
      | some a, some b => some (if a < b then a else b)
      | _, _ => none)
    let hi ← allocOpt (match X.hi, Y.hi with
      | some a, some b => some (if a > b then a else b)
      | _, _ => none)
    pure ⟨lo, hi⟩

/-- `Intersect` -/
def intersect (x y : HIR) : HM HIR := do
  let X ← view x
  let Y ← view y
  if X.empty || Y.empty then makeEmptyRange
  else do
    let lo ← allocOpt (match X.lo, Y.lo with
      | none, b => b
      | a, none => a
      | some a, some b => some (if a < b then b else a))
    let hi ← allocOpt (match X.hi, Y.hi with
      | none, b => b
      | a, none => a
      | some a, some b => some (if a < b then a else b))
    pure ⟨lo, hi⟩

/-- `Add` -/
def add (x y : HIR) : HM HIR := do
  let X ← view x
  let Y ← view y
  if X.empty || Y.empty then makeEmptyRange
  else do
    let lo ← allocOpt (match X.lo, Y.lo with | some a, some b => some (a + b) | _, _ => none)
    let hi ← allocOpt (match X.hi, Y.hi with | some a, some b => some (a + b) | _, _ => none)
    pure ⟨lo, hi⟩

/-- `Sub` -/
def sub (x y : HIR) : HM HIR := do
  let X ← view x
  let Y ← view y
  if X.empty || Y.empty then makeEmptyRange
  else do
    let lo ← allocOpt (match X.lo, Y.hi with
      | some a, some b => if X.hi.isSome || Y.lo.isSome then some (a - b) else none
      | _, _ => none)
    let hi ← allocOpt (match X.hi, Y.lo with
      | some a, some b => if X.lo.isSome || Y.hi.isSome then some (a - b) else none
      | _, _ => none)
    pure ⟨lo, hi⟩

/-! ### `biggerInt` / `biggerIntPair` with pointers -/

/-- `biggerInt` : ±∞ or a (non-nil) pointer -/
inductive HBI where
  | negInf | fin (a : Addr) | posInf
deriving DecidableEq, Repr, Inhabited

structure HBIP where
  lo : HBI
  hi : HBI
deriving DecidableEq, Repr, Inhabited

def HBIP.new : HBIP := ⟨.posInf, .negInf⟩

/-- the value of a `biggerInt` -/
def viewBI (b : HBI) : HM BI :=
  match b with
  | .negInf => pure .negInf
  | .posInf => pure .posInf
  | .fin a => do let v ← load a; pure (.fin v)

/-- the comparison of `lowerMin` -/
def takeLo (l y : BI) : Bool :=
  match l, y with
  | .posInf, _ => true
  | _, .negInf => true
  | .fin a, .fin b => decide (a > b)
  | _, _ => false

/-- the comparison of `raiseMax` -/
def takeHi (h y : BI) : Bool :=
  match h, y with
  | .negInf, _ => true
  | _, .posInf => true
  | .fin a, .fin b => decide (a < b)
  | _, _ => false

/-- `lowerMin` : `x[0] = y` (a pointer copy) when `y` is smaller -/
def lowerMin (p : HBIP) (y : HBI) : HM HBIP := do
  let l ← viewBI p.lo
  let yv ← viewBI y
  pure (if takeLo l yv then { p with lo := y } else p)

/-- `raiseMax` -/
def raiseMax (p : HBIP) (y : HBI) : HM HBIP := do
  let hv ← viewBI p.hi
  let yv ← viewBI y
  pure (if takeHi hv yv then { p with hi := y } else p)

/-- `toIntRange` : the pair's own pointers, or a new empty range -/
def toIntRange (p : HBIP) : HM HIR :=
  match p.lo, p.hi with
  | .posInf, _ => makeEmptyRange
  | _, .negInf => makeEmptyRange
  | l, h =>
    pure ⟨(match l with | .fin a => some a | _ => none),
          (match h with | .fin b => some b | _ => none)⟩

/-- `biggerInt{i: big.NewInt(0).Set(p)}`, or the given infinity for a nil pointer -/
def copyBI (p : Option Addr) (inf : HBI) : HM HBI :=
  match p with
  | some a => do let v ← load a; let z ← alloc v; pure (HBI.fin z)
  | none => pure inf

/-- `fromIntRange` : copies (`big.NewInt(0).Set(y[k])`) -/
def fromIntRange (y : HIR) : HM HBIP := do
  let lo ← copyBI y.lo .negInf
  let hi ← copyBI y.hi .posInf
  pure ⟨lo, hi⟩

/-- `ret[0] = biggerInt{i: big.NewInt(0)}; ret[1] = biggerInt{i: big.NewInt(0)}` -/
def zeroPair : HM HBIP := do
  let a ← alloc 0
  let b ← alloc 0
  pure ⟨.fin a, .fin b⟩

/-- `combine(p, q)` = `bigIntMul` / `bigIntLsh` / `bigIntQuo` / `bigIntRsh`: always a new object.
(A nil argument cannot occur where the Go code calls it; the model reads 0 there, like
`getD 0` in the value model.) -/
def combine (f : Int → Int → Int) (p q : Option Addr) : HM HBI := do
  let a ← loadB p
  let b ← loadB q
  let z ← alloc (f (a.getD 0) (b.getD 0))
  pure (.fin z)

/-- `biggerInt{i: bigIntQuo(p, q)}` : like `combine bigQuo`, but `big.Int.Quo` panics on a zero
divisor (so: `TryQuo` returning at all, theorem `heap_refines_value_model_partial`, says that it
never divides by zero) -/
def combineQuo (p q : Option Addr) : HM HBI := do
  let a ← loadB p
  let b ← loadB q
  if b.getD 0 = 0 then panic
  else do
    let z ← alloc (bigQuo (a.getD 0) (b.getD 0))
    pure (.fin z)

/-- `biggerInt{i: big.NewInt(v)}` -/
def newBI (v : Int) : HM HBI := do
  let z ← alloc v
  pure (.fin z)

/-- `if guard { alt } else { biggerInt{i: combine(..)} }` : the candidate bound of one Go
`if … { ret.lowerMin(..) } else { ret.lowerMin(..) }` statement -/
def choose (guard : Bool) (alt c : HM HBI) : HM HBI := if guard then alt else c

/-- `ret.lowerMin(b)` for a computed candidate -/
def stepLo (ret : HBIP) (b : HM HBI) : HM HBIP := do
  let v ← b
  lowerMin ret v

/-- `ret.raiseMax(b)` for a computed candidate -/
def stepHi (ret : HBIP) (b : HM HBI) : HM HBIP := do
  let v ← b
  raiseMax ret v

/-- `if c { block }` on the running pair -/
def optBlock (c : Bool) (blk : HBIP → HM HBIP) (ret : HBIP) : HM HBIP :=
  if c then blk ret else pure ret

/-! the four sign-definite blocks of `mulLsh` -/

def mulNN (f : Int → Int → Int) (negX negY : HIR) (ret : HBIP) : HM HBIP := do
  let ret ← stepLo ret (combine f negX.hi negY.hi)
  stepHi ret (choose (negX.lo.isNone || negY.lo.isNone) (pure .posInf) (combine f negX.lo negY.lo))

def mulNP (f : Int → Int → Int) (negX posY : HIR) (ret : HBIP) : HM HBIP := do
  let ret ← stepLo ret (choose (negX.lo.isNone || posY.hi.isNone) (pure .negInf) (combine f negX.lo posY.hi))
  stepHi ret (combine f negX.hi posY.lo)

def mulPN (f : Int → Int → Int) (posX negY : HIR) (ret : HBIP) : HM HBIP := do
  let ret ← stepLo ret (choose (posX.hi.isNone || negY.lo.isNone) (pure .negInf) (combine f posX.hi negY.lo))
  stepHi ret (combine f posX.lo negY.hi)

def mulPP (f : Int → Int → Int) (posX posY : HIR) (ret : HBIP) : HM HBIP := do
  let ret ← stepLo ret (combine f posX.lo posY.lo)
  stepHi ret (choose (posX.hi.isNone || posY.hi.isNone) (pure .posInf) (combine f posX.hi posY.hi))

/-- the initial pair of `mulLsh` -/
def mulInit (x : HIR) (shift hasZeroX hasZeroY : Bool) : HM HBIP :=
  if hasZeroY && shift then fromIntRange x
  else if (hasZeroY && !shift) || hasZeroX then zeroPair
  else pure HBIP.new

/-- the initial pair of `TryQuo` / `TryRsh` -/
def zeroInit (hasZeroX : Bool) : HM HBIP := if hasZeroX then zeroPair else pure HBIP.new

/-- `mulLsh` -/
def mulLsh (x y : HIR) (shift : Bool) : HM HIR := do
  let X ← view x
  let Y ← view y
  if X.empty || Y.empty then makeEmptyRange
  else if X.justZero || (!shift && Y.justZero) then zeroRange
  else do
    let f : Int → Int → Int := if shift then bigLsh else (· * ·)
    let (negX, posX, hasNegX, hasZeroX, hasPosX) ← split3Ways x
    let (negY, posY, hasNegY, hasZeroY, hasPosY) ← split3Ways y
    let ret ← mulInit x shift hasZeroX hasZeroY
    let ret ← optBlock hasNegX (fun ret => do
        let ret ← optBlock hasNegY (mulNN f negX negY) ret
        optBlock hasPosY (mulNP f negX posY) ret) ret
    let ret ← optBlock hasPosX (fun ret => do
        let ret ← optBlock hasNegY (mulPN f posX negY) ret
        optBlock hasPosY (mulPP f posX posY) ret) ret
    toIntRange ret

/-- wrap a successful result: `return z, true` -/
def okRange (m : HM HIR) : HM (Option HIR) := do
  let z ← m
  pure (some z)

/-- `Mul` -/
def mul (x y : HIR) : HM HIR := mulLsh x y false

/-- `TryLsh`; inner `none` = (IntRange{}, false) -/
def tryLsh (x y : HIR) : HM (Option HIR) := do
  let X ← view x
  let Y ← view y
  if !X.empty && Y.containsNegative then pure none
  else okRange (mulLsh x y true)

/-! the four blocks of `TryQuo` -/

def quoNN (negX negY : HIR) (ret : HBIP) : HM HBIP := do
  let ret ← stepHi ret (choose negX.lo.isNone (pure .posInf) (combineQuo negX.lo negY.hi))
  stepLo ret (choose negY.lo.isNone (newBI 0) (combineQuo negX.hi negY.lo))

def quoNP (negX posY : HIR) (ret : HBIP) : HM HBIP := do
  let ret ← stepLo ret (choose negX.lo.isNone (pure .negInf) (combineQuo negX.lo posY.lo))
  stepHi ret (choose posY.hi.isNone (newBI 0) (combineQuo negX.hi posY.hi))

def quoPN (posX negY : HIR) (ret : HBIP) : HM HBIP := do
  let ret ← stepLo ret (choose posX.hi.isNone (pure .negInf) (combineQuo posX.hi negY.hi))
  stepHi ret (choose negY.lo.isNone (newBI 0) (combineQuo posX.lo negY.lo))

def quoPP (posX posY : HIR) (ret : HBIP) : HM HBIP := do
  let ret ← stepHi ret (choose posX.hi.isNone (pure .posInf) (combineQuo posX.hi posY.lo))
  stepLo ret (choose posY.hi.isNone (newBI 0) (combineQuo posX.lo posY.hi))

/-- `TryQuo` -/
def tryQuo (x y : HIR) : HM (Option HIR) := do
  let X ← view x
  let Y ← view y
  if X.empty || Y.empty then okRange makeEmptyRange
  else if Y.containsZero then pure none
  else if X.justZero then okRange zeroRange
  else do
    let (negX, posX, hasNegX, hasZeroX, hasPosX) ← split3Ways x
    let (negY, posY, hasNegY, _, hasPosY) ← split3Ways y
    let ret ← zeroInit hasZeroX
    let ret ← optBlock hasNegX (fun ret => do
        let ret ← optBlock hasNegY (quoNN negX negY) ret
        optBlock hasPosY (quoNP negX posY) ret) ret
    let ret ← optBlock hasPosX (fun ret => do
        let ret ← optBlock hasNegY (quoPN posX negY) ret
        optBlock hasPosY (quoPP posX posY) ret) ret
    okRange (toIntRange ret)

/-! the two blocks of `TryRsh` -/

def rshN (negX y : HIR) (ret : HBIP) : HM HBIP := do
  let ret ← stepLo ret (choose negX.lo.isNone (pure .negInf) (combine bigRsh negX.lo y.lo))
  stepHi ret (choose y.hi.isNone (newBI (-1)) (combine bigRsh negX.hi y.hi))

def rshP (posX y : HIR) (ret : HBIP) : HM HBIP := do
  let ret ← stepLo ret (choose y.hi.isNone (newBI 0) (combine bigRsh posX.lo y.hi))
  stepHi ret (choose posX.hi.isNone (pure .posInf) (combine bigRsh posX.hi y.lo))

/-- `TryRsh` -/
def tryRsh (x y : HIR) : HM (Option HIR) := do
  let X ← view x
  let Y ← view y
  if X.empty || Y.empty then okRange makeEmptyRange
  else if Y.containsNegative then pure none
  else if X.justZero then okRange zeroRange
  else do
    let (negX, posX, hasNegX, hasZeroX, hasPosX) ← split3Ways x
    let ret ← zeroInit hasZeroX
    let ret ← optBlock hasNegX (rshN negX y) ret
    let ret ← optBlock hasPosX (rshP posX y) ret
    okRange (toIntRange ret)

/-! ### bit operations -/

/-- `bitFillRight(i)` : in place -/
def bitFillRight (i : Addr) : HM Unit := do
  let v ← load i
  if v < 0 then panic
  else if v = 0 then pure ()
  else store i (Interval.bitFillRight v)

/-- `bitMask(n0, n1)` : a pointer INTO `smallBitMasks` for small `n`, else a new object -/
def bitMask (n0 n1 : Nat) : HM Addr :=
  let n := if n0 < n1 then n1 else n0
  if n < Gen.C06.smallBitMasks.length then pure (aMask n)
  else alloc ((2 : Int) ^ n - 1)

/-- `x.andMax(y)` (all four pointers non-nil): `big.NewInt(0).Set(min)` on the overlap path,
otherwise the local temporaries `i, j, k` are allocated, computed in place, and `j` or `k`
is returned. -/
def andMax (xlo xhi ylo yhi : Addr) : HM Addr := do
  let a ← load xlo
  let b ← load xhi
  let c ← load ylo
  let d ← load yhi
  if d ≥ a && b ≥ c then alloc (if b > d then d else b)
  else do
    let _i ← alloc 0
    let j ← alloc 0
    let k ← alloc 0
    match Interval.andMaxP a b c d with
    | none => panic
    | some v => do
      -- the maximum of the two candidates is returned: `if j.Cmp(k) < 0 { return k }; return j`
      store j v
      store k v
      pure j

/-- `x.orMax(y)` : a local temporary, computed in place, is returned -/
def orMax (xlo xhi ylo yhi : Addr) : HM Addr := do
  let a ← load xlo
  let b ← load xhi
  let c ← load ylo
  let d ← load yhi
  let _i ← alloc 0
  let j ← alloc 0
  match Interval.orMaxP a b c d with
  | none => panic
  | some v => do
    store j v
    pure j

/-- `IntRange{big.NewInt(0).Not(x[1]), big.NewInt(0).Not(x[0])}` (both non-nil) -/
def notRangeFin (lo hi : Addr) : HM (Addr × Addr) := do
  let b ← load hi
  let p ← alloc (inot b)
  let a ← load lo
  let q ← alloc (inot a)
  pure (p, q)

/-- `andBothNonNeg` -/
def andBothNonNeg (x y : HIR) : HM HIR := do
  let X ← view x
  let Y ← view y
  if X.empty || X.containsNegative || Y.empty || Y.containsNegative then panic
  else
    match x.lo, y.lo with
    | some xlo, some ylo =>
      (match x.hi, y.hi with
      | some xhi, some yhi => do
        let zMax ← andMax xlo xhi ylo yhi
        let (nxl, nxh) ← notRangeFin xlo xhi
        let (nyl, nyh) ← notRangeFin ylo yhi
        let zMin ← orMax nxl nxh nyl nyh
        let m ← load zMin
        store zMin (inot m)                     -- zMin.Not(zMin)
        pure ⟨some zMin, some zMax⟩
      | some xhi, none => do
        let z ← alloc 0
        let v ← load xhi
        let w ← alloc v
        pure ⟨some z, some w⟩
      | none, some yhi => do
        let z ← alloc 0
        let v ← load yhi
        let w ← alloc v
        pure ⟨some z, some w⟩
      | none, none => do
        let z ← alloc 0
        pure ⟨some z, none⟩)
    | _, _ => panic   -- a nil lower bound contains negatives: unreachable

/-- the common tail of `orBothNonNeg`: `zMin = ~andMax(~x, ~y)`, computed in place -/
def orTail (xlo xhi ylo yhi : Addr) (zMax : Option Addr) : HM HIR := do
  let (nxl, nxh) ← notRangeFin xlo xhi
  let (nyl, nyh) ← notRangeFin ylo yhi
  let zMin ← andMax nxl nxh nyl nyh
  let m ← load zMin
  store zMin (inot m)                           -- zMin.Not(zMin)
  pure ⟨some zMin, zMax⟩

/-- `orBothNonNeg`, the branch where an upper bound is nil -/
def orHalfInfinite (X Y : IR) (xlo ylo : Addr) (xhi? yhi? : Option Addr) : HM HIR := do
  let xl ← load xlo
  let yl ← load ylo
  if X.containsInt yl then do let z ← alloc yl; pure ⟨some z, none⟩
  else if Y.containsInt xl then do let z ← alloc xl; pure ⟨some z, none⟩
  else
    match xhi?, yhi? with
    | none, none => panic
    | some xhi, _ => do
      let xh ← load xhi
      if xh ≥ yl then panic
      else do
        let f ← alloc yl                         -- y[1] = big.NewInt(0).Set(y[0])
        bitFillRight f
        orTail xlo xhi ylo f none
    | none, some yhi => do                       -- x, y = y, x
      let yh ← load yhi
      if yh ≥ xl then panic
      else do
        let f ← alloc xl
        bitFillRight f
        orTail ylo yhi xlo f none

/-- `orBothNonNeg` -/
def orBothNonNeg (x y : HIR) : HM HIR := do
  let X ← view x
  let Y ← view y
  if X.empty || X.containsNegative || Y.empty || Y.containsNegative then panic
  else
    match x.lo, y.lo with
    | some xlo, some ylo =>
      (match x.hi, y.hi with
      | some xhi, some yhi => do
        let zMax ← orMax xlo xhi ylo yhi
        orTail xlo xhi ylo yhi (some zMax)
      | xhi?, yhi? => orHalfInfinite X Y xlo ylo xhi? yhi?)
    | _, _ => panic

/-- `andOneNegOneNonNeg` -/
def andOneNegOneNonNeg (neg non : HIR) : HM HIR := do
  let N ← view neg
  let O ← view non
  if N.empty || N.containsNonNegative || O.empty || O.containsNegative then panic
  else
    match neg.lo with
    | none => do
      let z ← alloc 0
      let w ← bigIntNewSet non.hi
      pure ⟨some z, w⟩
    | some nlo =>
      match neg.hi, non.lo with
      | some nhi, some olo => do
        let nl ← load nlo
        let nh ← load nhi
        (match non.hi with
        | none => do
          let ol ← load olo
          let mask ← bitMask (bitLen nl) (bitLen ol)
          let mv ← load mask
          let b0 ← alloc (iand mv nl)
          let b1 ← alloc (iand mv nh)
          -- the second operand holds the operand pointer non[0] and the mask pointer
          let w ← andBothNonNeg ⟨some b0, some b1⟩ ⟨some olo, some mask⟩
          pure ⟨w.lo, none⟩
        | some ohi => do
          let oh ← load ohi
          let mask ← bitMask (bitLen nl) (bitLen oh)
          let mv ← load mask
          let b0 ← alloc (iand mv nl)
          let b1 ← alloc (iand mv nh)
          andBothNonNeg ⟨some b0, some b1⟩ non)
      | _, _ => panic

/-- `IntRange{bigIntNewNot(r[1]), bigIntNewNot(r[0])}` -/
def notSwap (r : HIR) : HM HIR := do
  let lo ← bigIntNewNot r.hi
  let hi ← bigIntNewNot r.lo
  pure ⟨lo, hi⟩

/-- `~(f(~a, ~b))` : the De Morgan detour of the negative/negative case -/
def viaNot (f : HIR → HIR → HM HIR) (a b : HIR) : HM HIR := do
  let na ← notSwap a
  let nb ← notSwap b
  let w ← f na nb
  notSwap w

/-- `orOneNegOneNonNeg` : `~andOneNegOneNonNeg(~non, ~neg)` -/
def orOneNegOneNonNeg (neg non : HIR) : HM HIR := viaNot andOneNegOneNonNeg non neg

/-- `if c { p.Set(v) }` -/
def storeIf (c : Bool) (p : Addr) (v : Int) : HM Unit := if c then store p v else pure ()

/-- inside `if x.Empty() { … }`: `if y[k] == nil { x[k] = nil } else { x[k].Set(y[k]) }` -/
def ipuTake (p : Option Addr) (yv : Option Int) : HM (Option Addr) :=
  match p, yv with
  | some a, some v => do store a v; pure (some a)
  | _, _ => pure none

/-- `if x[k] != nil { if y[k] == nil { x[k] = nil } else if x[k].Cmp(y[k]) ≷ 0 { x[k].Set(y[k]) } }`
(`lower = true` for k = 0: take the smaller one) -/
def ipuBound (lower : Bool) (p : Option Addr) (yv : Option Int) : HM (Option Addr) :=
  match p, yv with
  | some a, some b => do
    let v ← load a
    storeIf (if lower then decide (v > b) else decide (v < b)) a b
    pure (some a)
  | _, _ => pure none

/-- the `if x.Empty() { … }` block of `inPlaceUnite` -/
def ipuEmpty (xEmpty : Bool) (x : HIR) (Y : IR) : HM HIR :=
  if xEmpty then do
    let lo ← ipuTake x.lo Y.lo
    let hi ← ipuTake x.hi Y.hi
    pure ⟨lo, hi⟩
  else pure x

/-- `inPlaceUnite` : the receiver's own objects are overwritten (`x[k].Set(y[k])`) or its
pointers set to nil; returns the new value of the receiver array.  No pointer of `y` is kept. -/
def inPlaceUnite (x y : HIR) : HM HIR := do
  let Y ← view y
  if Y.empty then pure x
  else do
    let X ← view x
    let x1 ← ipuEmpty X.empty x Y
    let lo ← ipuBound true x1.lo Y.lo
    let hi ← ipuBound false x1.hi Y.hi
    pure ⟨lo, hi⟩

/-- `if c { z.inPlaceUnite(part) }` -/
def uniteIf (c : Bool) (z : HIR) (part : HM HIR) : HM HIR :=
  if c then do let w ← part; inPlaceUnite z w else pure z

/-- `And` -/
def and (x y : HIR) : HM HIR := do
  let X ← view x
  let Y ← view y
  if X.empty || Y.empty then makeEmptyRange
  else if !X.containsNegative && !Y.containsNegative then andBothNonNeg x y
  else do
    let (negX, nonX, hasNegX, hasNonX) ← split2Ways x
    let (negY, nonY, hasNegY, hasNonY) ← split2Ways y
    let z ← makeEmptyRange
    let z ← uniteIf (hasNegX && hasNegY) z (viaNot orBothNonNeg negX negY)
    let z ← uniteIf (hasNegX && hasNonY) z (andOneNegOneNonNeg negX nonY)
    let z ← uniteIf (hasNonX && hasNegY) z (andOneNegOneNonNeg negY nonX)
    let z ← uniteIf (hasNonX && hasNonY) z (andBothNonNeg nonX nonY)
    pure z

/-- `Or` -/
def or (x y : HIR) : HM HIR := do
  let X ← view x
  let Y ← view y
  if X.empty || Y.empty then makeEmptyRange
  else if !X.containsNegative && !Y.containsNegative then orBothNonNeg x y
  else do
    let (negX, nonX, hasNegX, hasNonX) ← split2Ways x
    let (negY, nonY, hasNegY, hasNonY) ← split2Ways y
    let z ← makeEmptyRange
    let z ← uniteIf (hasNegX && hasNegY) z (viaNot andBothNonNeg negX negY)
    let z ← uniteIf (hasNegX && hasNonY) z (orOneNegOneNonNeg negX nonY)
    let z ← uniteIf (hasNonX && hasNegY) z (orOneNegOneNonNeg negY nonX)
    let z ← uniteIf (hasNonX && hasNonY) z (orBothNonNeg nonX nonY)
    pure z

/-! ### running an operator on concrete operands (used by the driver and the theorems) -/

/-- the ten public operators -/
inductive Op where
  | add | sub | mul | quo | lsh | rsh | and | or | unite | intersect
deriving DecidableEq, Repr, Inhabited

/-- run `op`; inner `none` = `ok == false` -/
def runOp (op : Op) (x y : HIR) : HM (Option HIR) :=
  match op with
  | .add => okRange (add x y)
  | .sub => okRange (sub x y)
  | .mul => okRange (mul x y)
  | .quo => tryQuo x y
  | .lsh => tryLsh x y
  | .rsh => tryRsh x y
  | .and => okRange (and x y)
  | .or => okRange (or x y)
  | .unite => okRange (unite x y)
  | .intersect => okRange (intersect x y)

/-- the value-level operator of `Model/Interval.lean`: outer `none` = panic, inner `none` = fail -/
def pureOp (op : Op) (X Y : IR) : Option (Option IR) :=
  match op with
  | .add => some (some (Interval.add X Y))
  | .sub => some (some (Interval.sub X Y))
  | .mul => some (some (Interval.mul X Y))
  | .quo => some (Interval.tryQuo X Y)
  | .lsh => some (Interval.tryLsh X Y)
  | .rsh => some (Interval.tryRsh X Y)
  | .and => (Interval.and X Y).map some
  | .or => (Interval.or X Y).map some
  | .unite => some (some (Interval.unite X Y))
  | .intersect => some (some (Interval.intersect X Y))

/-- a new object for an operand bound (nil stays nil) -/
def put (h : Heap) (v : Option Int) : Option Addr × Heap :=
  match v with
  | none => (none, h)
  | some v => (some h.size, h.push v)

/-- place the operands of a call on top of the package-level objects: every non-nil bound is
its own object.  Returns the operand ranges and the heap. -/
def setup (X Y : IR) : HIR × HIR × Heap :=
  let a := put globalsHeap X.lo
  let b := put a.2 X.hi
  let c := put b.2 Y.lo
  let d := put c.2 Y.hi
  (⟨a.1, b.1⟩, ⟨c.1, d.1⟩, d.2)

/-- where a pointer of the result comes from -/
inductive Prov where
  | nil | fresh | x0 | x1 | y0 | y1 | one | minusOne | mask (n : Nat)
deriving DecidableEq, Repr, Inhabited

def Prov.toString : Prov → String
  | .nil => "-" | .fresh => "f" | .x0 => "x0" | .x1 => "x1" | .y0 => "y0" | .y1 => "y1"
  | .one => "one" | .minusOne => "minusOne" | .mask n => s!"mask{n}"

/-- classify a result pointer of a call whose operands were placed by `setup` and whose heap had
`n` cells on entry -/
def classify (x y : HIR) (n : Nat) (p : Option Addr) : Prov :=
  match p with
  | none => .nil
  | some a =>
    if a ≥ n then .fresh
    else if a = aOne then .one
    else if a = aMinusOne then .minusOne
    else if a < nGlobals then .mask (a - 2)
    else if x.lo = some a then .x0
    else if x.hi = some a then .x1
    else if y.lo = some a then .y0
    else if y.hi = some a then .y1
    else .fresh

end WuffsVerif.IntervalHeap
