/-
C17 — the Wuffs `std/xz` decoder as a file of `lib/litonlylzma` sees it (core Lean, executable).

Mirrors `std/xz/decode_xz.wuffs`: `do_transform_io?` (stream header, the block loop, block padding, check,
index, footer), `decode_block_header_with_padding?`, `decode_block_header_sans_padding?`, `verify_index?`,
`verify_footer?`, with the LZMA2 payload handed to `Model/LzmaWuffs.lean` (`std/lzma` in LZMA2 mode, the way
`this.lzma.set_quirk!(key: lzma.QUIRK_FORMAT_EXTENSION, value: 0x02 | (c8 << 8))` configures it).
Whole-buffer I/O; a `$short read` on the closed source is `#truncated input`.  Not modelled (answer
`unmodelled`): non-final filters (delta, BCJ), checks other than CRC-32, `standalone_format` (stream
padding / concatenated streams; off by default), `ignore_checksum` (off by default).
-/
import WuffsVerif.Model.LzmaWuffs

namespace WuffsVerif.WXz
open WuffsVerif.Lzma WuffsVerif.WLzma

/-- outcome of one of the (textually identical) uvarint loops of decode_xz.wuffs -/
inductive Uv where
  | ok (x : Nat) (rest : List UInt8)
  | bad
  | short

/-- `shift = 0; while true { c8 = read_u8?(); if shift <= 56 { x |= (c8 & 0x7F) << shift; if c8 >= 0x80 {shift += 7;
    continue} else if (c8 == 0x00) and (shift > 0) {return bad}; break } else if c8 <> 1 {return bad}; x |= 1 << 63; break }` -/
def uvLoop : Nat → Nat → Nat → List UInt8 → Uv
  | 0, _, _, _ => .bad
  | _ + 1, _, _, [] => .short
  | fuel + 1, shift, x, c8 :: rest =>
    if shift ≤ 56 then
      let x' := x ||| ((c8.toNat &&& 0x7F) <<< shift)
      if c8.toNat ≥ 0x80 then uvLoop fuel (shift + 7) x' rest
      else if c8 = 0x00 ∧ shift > 0 then .bad
      else .ok x' rest
    else if c8 ≠ 1 then .bad
    else .ok (x ||| (1 <<< 63)) rest

def uvarint (src : List UInt8) : Uv := uvLoop 11 0 0 src

/-- one round of the MurmurHash-like accumulation of `verification_*_hashed_sizes` -/
def hashStep (acc size : Nat) : Nat :=
  let h := (size ^^^ (size >>> 32)) &&& 0xFFFFFFFF
  let h := (h * 0xCC9E2D51) % 4294967296
  let h := ((h <<< 15) % 4294967296) ||| (h >>> 17)
  let h := (h * 0x1B873593) % 4294967296
  let h := h ^^^ acc
  let h := ((h <<< 13) % 4294967296) ||| (h >>> 19)
  ((h * 5) % 4294967296 + 0xE6546B64) % 4294967296

/-- the sums and hashes the decoder keeps of (compressed size for the index, uncompressed size) -/
structure Verif where
  total0 : Nat := 0
  total1 : Nat := 0
  hash0 : Nat := 0
  hash1 : Nat := 0
  deriving DecidableEq

def Verif.add (v : Verif) (csize usize : Nat) : Verif :=
  { total0 := (v.total0 + csize) % 18446744073709551616, hash0 := hashStep v.hash0 csize,
    total1 := (v.total1 + usize) % 18446744073709551616, hash1 := hashStep v.hash1 usize }

/-- `read_u32le` -/
def u32le (a b c d : UInt8) : Nat := a.toNat + (b.toNat <<< 8) + (c.toNat <<< 16) + (d.toNat <<< 24)

/-- `decode_block_header_sans_padding?` for a block without non-final filters.  Returns the optional
    sizes and what is left, or a verdict. -/
def blockHeaderSansPadding (src : List UInt8) (out : Array UInt8) :
    Except Res (Option Nat × Option Nat × List UInt8) :=
  match src with
  | [] => .error (.fail "#truncated input" out)
  | flags :: src1 =>
    if flags.toNat &&& 0x3C ≠ 0 then .error (.fail "#bad block header" out)
    else
      let rc : Except Res (Option Nat × List UInt8) :=
        if flags.toNat &&& 0x40 ≠ 0 then
          match uvarint src1 with
          | .ok x r => .ok (some x, r)
          | .bad => .error (.fail "#bad block header" out)
          | .short => .error (.fail "#truncated input" out)
        else .ok (none, src1)
      match rc with
      | .error e => .error e
      | .ok (csize, src2) =>
        let ru : Except Res (Option Nat × List UInt8) :=
          if flags.toNat &&& 0x80 ≠ 0 then
            match uvarint src2 with
            | .ok x r => .ok (some x, r)
            | .bad => .error (.fail "#bad block header" out)
            | .short => .error (.fail "#truncated input" out)
          else .ok (none, src2)
        match ru with
        | .error e => .error e
        | .ok (usize, src3) =>
          if flags.toNat &&& 0x03 ≠ 0 then .error (.unmodelled "non-final filters" out)
          else
            match src3 with
            | [] => .error (.fail "#truncated input" out)
            | filterId :: src4 =>
              if filterId = 0x21 then
                match src4 with
                | [] => .error (.fail "#truncated input" out)
                | propsSize :: src5 =>
                  if propsSize ≠ 0x01 then .error (.fail "#bad filter" out)
                  else
                    match src5 with
                    | [] => .error (.fail "#truncated input" out)
                    | dictCode :: src6 =>
                      -- lzma.set_quirk!(QUIRK_FORMAT_EXTENSION, 0x02 | (c8 << 8)) fails for c8 > 40
                      if dictCode.toNat > 40 then .error (.fail "#bad filter" out)
                      else .ok (csize, usize, src6)
              else if filterId.toNat < 0x03 ∨ 0x0B < filterId.toNat then .error (.fail "#unsupported filter" out)
              else .error (.fail "#bad filter" out)

/-- the zero bytes `decode_block_header_with_padding?` and the block / index padding loops consume -/
def zeros : Nat → List UInt8 → String → Array UInt8 → Except Res (List UInt8)
  | 0, src, _, _ => .ok src
  | n + 1, src, msg, out =>
    match src with
    | [] => .error (.fail "#truncated input" out)
    | c8 :: rest => if c8 ≠ 0x00 then .error (.fail msg out) else zeros n rest msg out

/-- `read_u32le?()` compared with a checksum (the four bytes read, little endian, against the four bytes
    of the value: the same test as comparing the numbers) -/
def checkU32 (src : List UInt8) (have_ : UInt32) (out : Array UInt8) : Except Res (List UInt8) :=
  match src with
  | a :: b :: c :: d :: rest =>
    if [a, b, c, d] ≠ le32 have_ then .error (.fail "#bad checksum" out) else .ok rest
  | _ => .error (.fail "#truncated input" out)

/-- one block, from its size byte to its check.  Returns output, rest, updated sums. -/
def block (src : List UInt8) (out : Array UInt8) (v : Verif) : Except Res (Array UInt8 × List UInt8 × Verif) :=
  match src with
  | [] => .error (.fail "#truncated input" out)
  | c8 :: src1 =>
    let paddedWant := c8.toNat * 4 - 1        -- c8 <> 0 here
    match blockHeaderSansPadding src1 out with
    | .error e => .error e
    | .ok (csize, usize, src2) =>
      let paddedHave := src1.length - src2.length
      if paddedHave > paddedWant then .error (.fail "#bad block header" out)
      else
        match zeros (paddedWant - paddedHave) src2 "#bad block header" out with
        | .error e => .error e
        | .ok src3 =>
          let headerLen := 1 + paddedWant        -- bytes covered by the header CRC-32
          match checkU32 src3 (crc32 (src.take headerLen)) out with
          | .error e => .error e
          | .ok src4 =>
            -- the LZMA2 payload; `dst` of std/lzma is appended to `out`
            let r : Except Res (Array UInt8 × List UInt8) :=
              match decodeLzma2 src4 with
              | .ok o rest => .ok (o, rest)
              | .fail msg o => .error (.fail msg (out ++ o))
              | .unmodelled why o => .error (.unmodelled why (out ++ o))
            match r with
            | .error e => .error e
            | .ok (o, src5) =>
              let compressedSize := src4.length - src5.length
              let uncompressedSize := o.size
              let out' := out ++ o
              if (csize.isSome ∧ csize ≠ some compressedSize) ∨ (usize.isSome ∧ usize ≠ some uncompressedSize) then
                .error (.fail "#bad block header" out')
              else
                -- header CRC (4) + header + compressed data + check (4)
                let sizeForIndex := 4 + headerLen + compressedSize + 4
                match zeros ((4 - compressedSize % 4) % 4) src5 "#bad padding" out' with
                | .error e => .error e
                | .ok src6 =>
                  match checkU32 src6 (crc32 o.toList) out' with
                  | .error e => .error e
                  | .ok src7 => .ok (out', src7, v.add sizeForIndex uncompressedSize)

/-- `while.blocks`: until a `0x00` byte (the index indicator) is seen -/
def blocks : Nat → List UInt8 → Array UInt8 → Verif → Nat → Except Res (Array UInt8 × List UInt8 × Verif × Nat)
  | 0, _, out, _, _ => .error (.fail "#truncated input" out)
  | fuel + 1, src, out, v, n =>
    match src with
    | [] => .error (.fail "#truncated input" out)
    | c8 :: _ =>
      if c8 = 0x00 then .ok (out, src, v, n)
      else
        match block src out v with
        | .error e => .error e
        | .ok (out', src', v') => blocks fuel src' out' v' (n + 1)

/-- the records of `verify_index?` -/
def indexRecords : Nat → List UInt8 → Verif → Array UInt8 → Except Res (List UInt8 × Verif)
  | 0, src, v, _ => .ok (src, v)
  | n + 1, src, v, out =>
    match uvarint src with
    | .bad => .error (.fail "#bad index" out)
    | .short => .error (.fail "#truncated input" out)
    | .ok csize src1 =>
      match uvarint src1 with
      | .bad => .error (.fail "#bad index" out)
      | .short => .error (.fail "#truncated input" out)
      | .ok usize src2 => indexRecords n src2 (v.add csize usize) out

/-- `transform_io?` on a whole file (one stream; `standalone_format` off) -/
def decodeXz (src : List UInt8) : Res :=
  match src with
  | m0 :: m1 :: m2 :: m3 :: m4 :: m5 :: src6 =>
   if [m0, m1, m2, m3, m4, m5] ≠ [0xFD, 0x37, 0x7A, 0x58, 0x5A, 0x00] then .fail "#bad header" #[]
   else
   match src6 with
   | f0 :: f1 :: c0 :: c1 :: c2 :: c3 :: src12 =>
    if [f0, f1, c0, c1, c2, c3] = [0x00, 0x00, 0xFF, 0x12, 0xD9, 0x41] then .unmodelled "check: none" #[]
    else if [f0, f1, c0, c1, c2, c3] = [0x00, 0x04, 0xE6, 0xD6, 0xB4, 0x46] then .unmodelled "check: CRC-64" #[]
    else if [f0, f1, c0, c1, c2, c3] = [0x00, 0x0A, 0xE1, 0xFB, 0x0C, 0xA1] then .unmodelled "check: SHA-256" #[]
    else if [f0, f1, c0, c1, c2, c3] ≠ [0x00, 0x01, 0x69, 0x22, 0xDE, 0x36] then
      if f0 ≠ 0 ∨ f1.toNat &&& 0xF0 ≠ 0 then .fail "#bad header" #[]
      else if f1.toNat ≠ 0 ∧ f1.toNat ≠ 1 ∧ f1.toNat ≠ 4 ∧ f1.toNat ≠ 0xA then .fail "#unsupported checksum algorithm" #[]
      else .fail "#bad checksum" #[]
    else
      match blocks (src12.length + 1) src12 #[] {} 0 with
      | .error e => e
      | .ok (out, srcI, vHave, numBlocks) =>
        -- verify_index?: indicator, number of records, records, comparison
        match srcI with
        | [] => .fail "#truncated input" out
        | ind :: srcI1 =>
          if ind ≠ 0 then .fail "#bad index" out
          else
            match uvarint srcI1 with
            | .bad => .fail "#bad index" out
            | .short => .fail "#truncated input" out
            | .ok numIndex srcI2 =>
              if numIndex ≠ numBlocks then .fail "#bad index" out
              else
                match indexRecords numIndex srcI2 {} out with
                | .error e => e
                | .ok (srcI3, vWant) =>
                  if vHave ≠ vWant then .fail "#bad index" out
                  else
                    let backwards := srcI.length - srcI3.length
                    let pad := (4 - backwards % 4) % 4
                    match zeros pad srcI3 "#bad index" out with
                    | .error e => e
                    | .ok srcI4 =>
                      let backwardsSize := (backwards + pad) >>> 2
                      if backwardsSize = 0 ∨ backwardsSize > 0xFFFFFFFF then .fail "#bad index" out
                      else
                        match checkU32 srcI4 (crc32 (srcI.take backwards ++ List.replicate pad 0)) out with
                        | .error e => e
                        | .ok srcF =>
                          -- footer: CRC-32, backward size, stream flags, magic
                          match srcF with
                          | k0 :: k1 :: k2 :: k3 :: b0 :: b1 :: b2 :: b3 :: g0 :: g1 :: y :: z :: rest =>
                            if u32le b0 b1 b2 b3 ≠ backwardsSize then .fail "#bad footer" out
                            else if g0.toNat + (g1.toNat <<< 8) ≠ f0.toNat + (f1.toNat <<< 8) then .fail "#bad footer" out
                            else if [k0, k1, k2, k3] ≠ le32 (crc32 [b0, b1, b2, b3, g0, g1]) then .fail "#bad checksum" out
                            else if [y, z] ≠ [0x59, 0x5A] then .fail "#bad footer" out
                            else .ok out rest
                          | _ => .fail "#truncated input" out
   | _ => .fail "#truncated input" #[]
  | _ => .fail "#truncated input" #[]

end WuffsVerif.WXz
