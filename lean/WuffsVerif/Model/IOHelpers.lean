/-
C03 — the unchecked C helpers of `/repo/internal/cgen/base/io-private.h`, as executable Lean
functions over a *monitored* memory.

A C pointer is an `Int` index into one byte array (`Int`, not `Nat`, so that `p - distance` below
the start of the buffer is representable instead of being silently truncated).  Every load and
store goes through `Mem.rd` / `Mem.wr`, which clear the flag `ok` when the index is outside
`[io0, io2)` = `[lo, hi)`.  "The helper is memory safe" therefore *means* `ok` is still `true`
afterwards.  `memcpy` additionally clears `ok` when source and destination overlap (undefined
behaviour in C); `memmove` does not.

Each helper's documented pre-condition (the comment above it in io-private.h: "The caller needs to
prove that …") is a Lean predicate `Pre…`; the theorems in `Props/C03.lean` show
`Pre… → ok ∧ documented result`.

Core Lean only.
-/
namespace WuffsVerif.IOHelpers

/-- A byte buffer `buf` with the window `[lo, hi)` (`io0 .. io2`) that the helper may touch. -/
structure Mem where
  buf : Array UInt8
  lo : Nat
  hi : Nat
  ok : Bool
  deriving Repr, Inhabited

/-- Is the C pointer `i` inside `[io0, io2)`? -/
def Mem.inWin (m : Mem) (i : Int) : Bool := decide ((m.lo : Int) ≤ i) && decide (i < (m.hi : Int))

/-- `*i` (load). Outside the window: flag cleared, value 0. -/
def Mem.rd (m : Mem) (i : Int) : Mem × UInt8 :=
  if m.inWin i then (m, m.buf.getD i.toNat 0) else ({ m with ok := false }, 0)

/-- `*i = v` (store). Outside the window: flag cleared, no store. -/
def Mem.wr (m : Mem) (i : Int) (v : UInt8) : Mem :=
  if m.inWin i then { m with buf := m.buf.setIfInBounds i.toNat v } else { m with ok := false }

/-- `*p = *q`. -/
def copy1 (m : Mem) (p q : Int) : Mem :=
  let r := m.rd q
  r.1.wr p r.2

/-- `for (; n; n--) { *p++ = *q++; }` — returns the memory and the final `p`. -/
def copyLoop1 (m : Mem) (p q : Int) : Nat → Mem × Int
  | 0 => (m, p)
  | n + 1 => copyLoop1 (copy1 m p q) (p + 1) (q + 1) n

/-- The two loops of `limited_copy_u32_from_history[_fast]`:
```
for (; n >= 3; n -= 3) { *p++ = *q++; *p++ = *q++; *p++ = *q++; }
for (; n; n--)         { *p++ = *q++; }
``` -/
def copyLoop3 (m : Mem) (p q : Int) (n : Nat) : Mem × Int :=
  if _h : 3 ≤ n then
    copyLoop3 (copy1 (copy1 (copy1 m p q) (p + 1) (q + 1)) (p + 2) (q + 2)) (p + 3) (q + 3) (n - 3)
  else copyLoop1 m p q n
termination_by n
decreasing_by omega

/-- Result of a history copy: memory, new `*ptr_iop_w`, returned `uint32_t`. -/
structure Res where
  mem : Mem
  iop : Int
  ret : Nat
  deriving Repr, Inhabited

/-- `wuffs_private_impl__io_writer__limited_copy_u32_from_history` (the checked variant: it tests
`distance` and clamps `length` itself; pre-condition: only `io0 ≤ iop ≤ io2`). -/
def histCopy (m : Mem) (iop : Int) (length distance : Nat) : Res :=
  if distance = 0 then ⟨m, iop, 0⟩
  else if (iop - (m.lo : Int)).toNat < distance then ⟨m, iop, 0⟩
  else
    let room := ((m.hi : Int) - iop).toNat
    let n := if length > room then room else length
    let r := copyLoop3 m iop (iop - (distance : Int)) n
    ⟨r.1, r.2, n⟩

/-- `…_from_history_fast`. Documented pre-condition: `PreFast`. -/
def histCopyFast (m : Mem) (iop : Int) (length distance : Nat) : Res :=
  let r := copyLoop3 m iop (iop - (distance : Int)) length
  ⟨r.1, r.2, length⟩

/-- `wuffs_base__peek_u16le__no_bounds_check(q)`: two loads. -/
def peekU16le (m : Mem) (q : Int) : Mem × Nat :=
  let a := m.rd q
  let b := a.1.rd (q + 1)
  (b.1, a.2.toNat + 256 * b.2.toNat)

/-- `…_from_history_fast_return_cusp`: as `_fast`, but returns `peek_u16le(q - 1)` for the final `q`. -/
def histCopyFastCusp (m : Mem) (iop : Int) (length distance : Nat) : Res :=
  let r := copyLoop3 m iop (iop - (distance : Int)) length
  let c := peekU16le r.1 (iop - (distance : Int) + (length : Int) - 1)
  ⟨c.1, r.2, c.2⟩

/-- Eight loads `q[0..8)`, collected. -/
def rd8 (m : Mem) (q : Int) : Mem × List UInt8 :=
  let r0 := m.rd q
  let r1 := r0.1.rd (q + 1)
  let r2 := r1.1.rd (q + 2)
  let r3 := r2.1.rd (q + 3)
  let r4 := r3.1.rd (q + 4)
  let r5 := r4.1.rd (q + 5)
  let r6 := r5.1.rd (q + 6)
  let r7 := r6.1.rd (q + 7)
  (r7.1, [r0.2, r1.2, r2.2, r3.2, r4.2, r5.2, r6.2, r7.2])

/-- Stores `vs` at `p, p+1, …`. -/
def wrList (m : Mem) (p : Int) : List UInt8 → Mem
  | [] => m
  | v :: vs => wrList (m.wr p v) (p + 1) vs

/-- `memcpy(p, q, 8)`: all loads, then all stores; overlapping ranges are undefined behaviour. -/
def memcpy8 (m : Mem) (p q : Int) : Mem :=
  let m := if decide (p - q < 8) && decide (q - p < 8) then { m with ok := false } else m
  let r := rd8 m q
  wrList r.1 p r.2

/-- The loop of `…_8_byte_chunks_fast[_return_cusp]`:
```
while (1) { memcpy(p, q, 8); if (n <= 8) { p += n; q += n; break; } p += 8; q += 8; n -= 8; }
```
Returns memory, final `p`, final `q` (the non-cusp variant does not advance `q` in the last round, but
never looks at it again). -/
def chunks8 (m : Mem) (p q : Int) (n : Nat) : Mem × Int × Int :=
  let m := memcpy8 m p q
  if _h : n ≤ 8 then (m, p + n, q + n) else chunks8 m (p + 8) (q + 8) (n - 8)
termination_by n
decreasing_by omega

/-- `…_8_byte_chunks_fast`. Documented pre-condition: `PreChunks`. -/
def histCopyChunks (m : Mem) (iop : Int) (length distance : Nat) : Res :=
  let r := chunks8 m iop (iop - (distance : Int)) length
  ⟨r.1, r.2.1, length⟩

/-- `…_8_byte_chunks_fast_return_cusp`. -/
def histCopyChunksCusp (m : Mem) (iop : Int) (length distance : Nat) : Res :=
  let r := chunks8 m iop (iop - (distance : Int)) length
  let c := peekU16le r.1 (r.2.2 - 1)
  ⟨c.1, r.2.1, c.2⟩

/-- `wuffs_base__poke_u64le__no_bounds_check(p, x)` with `x` = eight copies of `v`. -/
def poke8 (m : Mem) (p : Int) (v : UInt8) : Mem := wrList m p [v, v, v, v, v, v, v, v]

/-- The loop of `…_8_byte_chunks_distance_1_fast[_return_cusp]`. -/
def fill8 (m : Mem) (p q : Int) (v : UInt8) (n : Nat) : Mem × Int × Int :=
  let m := poke8 m p v
  if _h : n ≤ 8 then (m, p + n, q + n) else fill8 m (p + 8) (q + 8) v (n - 8)
termination_by n
decreasing_by omega

/-- `…_8_byte_chunks_distance_1_fast`: `x = p[-1]` replicated. Pre-condition: `PreDist1`. -/
def histCopyDist1 (m : Mem) (iop : Int) (length distance : Nat) : Res :=
  let x := m.rd (iop - 1)
  let r := fill8 x.1 iop (iop - (distance : Int)) x.2 length
  ⟨r.1, r.2.1, length⟩

/-- `…_8_byte_chunks_distance_1_fast_return_cusp`. -/
def histCopyDist1Cusp (m : Mem) (iop : Int) (length distance : Nat) : Res :=
  let x := m.rd (iop - 1)
  let r := fill8 x.1 iop (iop - (distance : Int)) x.2 length
  let c := peekU16le r.1 (r.2.2 - 1)
  ⟨c.1, r.2.1, c.2⟩

/-- `memmove(p, src, n)` from a slice outside the buffer: `n` stores. -/
def wrSlice (m : Mem) (p : Int) (src : List UInt8) : Mem := wrList m p src

/-- `wuffs_private_impl__io_writer__limited_copy_u32_from_slice`: `n = min(src.len, length, io2 - iop)`.
Pre-condition: `io0 ≤ iop ≤ io2`. -/
def copyFromSliceLimited (m : Mem) (iop : Int) (length : Nat) (src : List UInt8) : Res :=
  let n := src.length
  let n := if n > length then length else n
  let room := ((m.hi : Int) - iop).toNat
  let n := if n > room then room else n
  if n > 0 then ⟨wrSlice m iop (src.take n), iop + n, n⟩ else ⟨m, iop, 0⟩

/-- `wuffs_private_impl__io_writer__copy_from_slice`. -/
def copyFromSlice (m : Mem) (iop : Int) (src : List UInt8) : Res :=
  let n := src.length
  let room := ((m.hi : Int) - iop).toNat
  let n := if n > room then room else n
  if n > 0 then ⟨wrSlice m iop (src.take n), iop + n, n⟩ else ⟨m, iop, 0⟩

/-- Loads `n` bytes from `p`. -/
def rdList (m : Mem) (p : Int) : Nat → Mem × List UInt8
  | 0 => (m, [])
  | n + 1 =>
    let r := m.rd p
    let s := rdList r.1 (p + 1) n
    (s.1, r.2 :: s.2)

/-- `wuffs_private_impl__io_reader__limited_copy_u32_to_slice` seen from the reader's buffer
(`m` is the READER's memory, window `[io0_r, io2_r)`): `n = min(dst.len, length, io2_r - iop_r)`
loads. Returns the bytes that land in `dst`. -/
def copyToSliceLimited (m : Mem) (iop : Int) (length dstLen : Nat) : Res × List UInt8 :=
  let n := dstLen
  let n := if n > length then length else n
  let room := ((m.hi : Int) - iop).toNat
  let n := if n > room then room else n
  if n > 0 then
    let r := rdList m iop n
    (⟨r.1, iop + n, n⟩, r.2)
  else (⟨m, iop, 0⟩, [])

/-! ### Documented pre-conditions -/

/-- A well-formed window: `io0 ≤ io2 ≤ buffer length`, nothing flagged yet. -/
def Mem.WF (m : Mem) : Prop := m.lo ≤ m.hi ∧ m.hi ≤ m.buf.size ∧ m.ok = true

/-- `io0 ≤ iop ≤ io2` — the invariant the generated code keeps for every writer/reader pointer. -/
def PtrIn (m : Mem) (iop : Int) : Prop := (m.lo : Int) ≤ iop ∧ iop ≤ (m.hi : Int)

/-- io-private.h, `_from_history_fast[_return_cusp]`: "length ≥ 1, length ≤ io2_w - *ptr_iop_w,
distance ≥ 1, distance ≤ *ptr_iop_w - io0_w". -/
def PreFast (m : Mem) (iop : Int) (length distance : Nat) : Prop :=
  1 ≤ length ∧ (length : Int) ≤ (m.hi : Int) - iop ∧ 1 ≤ distance ∧ (distance : Int) ≤ iop - (m.lo : Int)

/-- io-private.h, `_8_byte_chunks_fast[_return_cusp]`: "length ≥ 1, (length + 8) ≤ io2_w - *ptr_iop_w,
distance ≥ 8, distance ≤ *ptr_iop_w - io0_w". -/
def PreChunks (m : Mem) (iop : Int) (length distance : Nat) : Prop :=
  1 ≤ length ∧ (length : Int) + 8 ≤ (m.hi : Int) - iop ∧ 8 ≤ distance ∧ (distance : Int) ≤ iop - (m.lo : Int)

/-- io-private.h, `_8_byte_chunks_distance_1_fast[_return_cusp]`: "length ≥ 1, (length + 8) ≤ io2_w -
*ptr_iop_w, distance == 1, distance ≤ *ptr_iop_w - io0_w". -/
def PreDist1 (m : Mem) (iop : Int) (length distance : Nat) : Prop :=
  1 ≤ length ∧ (length : Int) + 8 ≤ (m.hi : Int) - iop ∧ distance = 1 ∧ (distance : Int) ≤ iop - (m.lo : Int)

end WuffsVerif.IOHelpers
