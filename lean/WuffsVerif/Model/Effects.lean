/-
C10 — the Wuffs effect rule for pure methods, over a small statement language.

Mirrors (for the fragment below) the checks that make a pure method read-only:

* lang/parse/parse.go `parseAssignNode`: an assignment whose left-hand side is
  rooted at `this` or `args` is rejected unless the function is impure; the
  right-hand side's effect may not be stronger than the function's
  (`funcEffect.WeakerThan`); `parseExpr`: no effect-ful sub-expressions
  (`SubExprHasEffect`); `parseArgNode`: argument values are effect-free;
  `parseIf`: conditions are effect-free; `return`: not an impure expression.
* lang/check/type.go `tcheckExprCall`: the call-site effect mark must equal
  the callee's effect; in a pure function a call's slice result is read-only
  (repair fixes/C10-pure-call-result-readonly.patch); `tcheckDot`: in a pure
  function the fields of `this` and `args` have `CloneReadOnly` types;
  `tcheckAssign`: no index-assignment through a read-only container,
  `tcheckEq`/`EqIgnoringRefinementsLHSReadOnly`: a `slice` variable cannot be
  assigned a `roslice`; lang/check/resolve.go: `roslice` has no `copy_from_slice!`.

* lang/ast/ast.go `NewExpr`: a node's effect bits are the union of its own
  mark and of the bits of ALL its children — LHS, MHS (the lower bound of a
  slice expression `x[lo .. hi]`), RHS and arguments (`SRef.effect` below);
  lang/check/type.go `tcheckExprOther`, slice case: slicing a `roarray` gives a
  `roslice`.

The fragment: one struct `foo` with scalar fields `f0 f1 : u32`, array fields
`arr0 arr1 : array[4] u8`; methods `m<k>` all with the signature
`(x: u32, s: slice u8, t: roslice u8, pb: ptr pixel_buffer) u32[..= 3]` (the
body ends with `return (result & 3)`; the refinement lets a bare call be a
slice bound) and the locals `v0 v1 : u32`, `ls : slice u8`, `lt : roslice u8`; a choosy method `ch!` with
the alternative `ch_alt!` (statement `choose ch = [ch_alt]`);
and the loop counter `vi : u32` (every `while` loop runs at most until
`vi = 3`, so that all programs of the fragment terminate).
Core Lean only.
-/
namespace WuffsVerif.Effects

inductive Eff | pure | impure
  deriving DecidableEq, Repr

/-- `e ≤ f` in the order pure < impure (`Effect.WeakerThan` is its negation). -/
def Eff.le : Eff → Eff → Bool
  | .pure, _ => true
  | .impure, .impure => true
  | .impure, .pure => false

inductive Expr
  | lit (n : Nat)
  | loc (v : Nat)                       -- v0 / v1
  | fld (f : Nat)                       -- this.f<f>
  | arg                                 -- args.x
  | arr (f i : Nat)                     -- this.arr<f>[i] as u32
  | add (l r : Expr)                    -- l ~mod+ r
  | call (mark : Eff) (m : Nat) (a : Expr)   -- this.m<m><mark>(x: a, s: ls, t: lt, pb: args.pb)
  deriving Repr

/-- Slice-typed expressions. -/
inductive SRef
  | arg (i : Nat)   -- `args.s` (i = 0, declared `slice`), `args.t` (i ≥ 1, declared `roslice`)
  | loc (v : Nat)   -- `ls` (v = 0, declared `slice`), `lt` (v ≥ 1, declared `roslice`)
  | fld (f : Nat)   -- `this.arr<f>[..]`
  | pal             -- `args.pb.palette()`
  /-- `this.arr<f>[lo .. hi]`.  A bound that is a call is written bare (its type
      `u32[..= 3]` fits the array length 4); any other lower bound `e` is written
      `(e & 3)`.  An upper bound without a lower bound is written bare if it is a
      call, else `((e & 1) + 3)`.  With both bounds, the fragment has a literal
      `n` as the upper bound, written as the constant `3 + n % 2` (lang/check can
      prove `lo <= hi` only against a constant; bounds checking is property C01,
      not modelled here). -/
  | sub (f : Nat) (lo hi : Option Expr)
  deriving Repr

inductive Stmt
  | skip
  | seq (a b : Stmt)
  | ite (c : Expr) (t e : Stmt)         -- if c <> 0 { t } else { e }
  | loop (c : Expr) (b : Stmt)          -- while (vi < 3) and (c <> 0) { vi += 1; b }   (`vi`: a counter local)
  | setLoc (v : Nat) (e : Expr)         -- v<v> = e
  | setFld (f : Nat) (e : Expr)         -- this.f<f> = e
  | setArg (e : Expr)                   -- args.x = e
  | setArr (f i : Nat) (e : Expr)       -- this.arr<f>[i] = (e & 0xFF) as u8
  | setBuf (s : SRef) (e : Expr)        -- if s.length() > 0 { s[0] = (e & 0xFF) as u8 }   (s: arg / loc)
  | bind (v : Nat) (s : SRef)           -- ls = s  /  lt = s
  | copy (mark : Eff) (d s : SRef)      -- d.copy_from_slice<mark>(s: s)
  | callS (mark : Eff) (m : Nat) (a : Expr)  -- this.m<m><mark>(…) as a statement
  | choose                              -- choose ch = [ch_alt]   (re-points the receiver's choosy method `ch`)
  deriving Repr

structure Method where
  eff : Eff
  body : Stmt
  result : Expr       -- the trailing `return result`
  deriving Repr

abbrev Prog := List Method

/-! ### parse-time rules (lang/parse) -/

/-- `Expr.Effect()`: the strongest mark anywhere in the expression. -/
def Expr.effect : Expr → Eff
  | .call mark _ a => if mark = .impure then .impure else a.effect
  | .add l r => if l.effect = .impure then .impure else r.effect
  | _ => .pure

/-- `parseExpr` / `parseArgNode`: only the outermost node may carry a mark. -/
def Expr.subExprOk : Expr → Bool
  | .call _ _ a => a.effect = .pure && a.subExprOk
  | .add l r => l.effect = .pure && r.effect = .pure && l.subExprOk && r.subExprOk
  | _ => true

def optEffect : Option Expr → Eff
  | none => .pure
  | some e => e.effect

def optSubExprOk : Option Expr → Bool
  | none => true
  | some e => e.subExprOk

/-- ast.go `NewExpr` for the slice node: the union of the children's effect bits
    (LHS `this.arr<f>` has none; MHS = lo; RHS = hi). -/
def SRef.effect : SRef → Eff
  | .sub _ lo hi => if optEffect lo = .impure then .impure else optEffect hi
  | _ => .pure

/-- The bounds are parsed by nested `parseExpr` calls. -/
def SRef.subExprOk : SRef → Bool
  | .sub _ lo hi => optSubExprOk lo && optSubExprOk hi
  | _ => true

/-- `parseExpr` on an expression that CONTAINS the slice expression as a proper
    sub-expression or as the whole right-hand side: no child may carry effect bits. -/
def SRef.parseOk (s : SRef) : Bool := s.effect = .pure && s.subExprOk

/-- Is the assignment target rooted at `this` / `args` (`IsCannotAssignTo`)? -/
def SRef.rootedAtThisOrArgs : SRef → Bool
  | .arg _ => true
  | .fld _ => true
  | .pal => true
  | .sub _ _ _ => true
  | .loc _ => false

/-- `parseAssignNode` + `parseIf` for a function whose effect is `f`. -/
def Stmt.parseOk (f : Eff) : Stmt → Bool
  | .skip => true
  | .seq a b => a.parseOk f && b.parseOk f
  | .ite c t e => c.effect = .pure && c.subExprOk && t.parseOk f && e.parseOk f
  | .loop c b => c.effect = .pure && c.subExprOk && b.parseOk f     -- the condition is a sub-expression of `and`
  | .setLoc _ e => e.subExprOk && e.effect.le f
  | .setFld _ e => f = .impure && e.subExprOk && e.effect.le f
  | .setArg e => f = .impure && e.subExprOk && e.effect.le f
  | .setArr _ _ e => f = .impure && e.effect = .pure && e.subExprOk   -- e is wrapped in `(e & 0xFF) as u8`
  | .setBuf s e =>
      -- the guard `if s.length() > 0` is effect-free; the assignment is `s[0] = …`
      (!s.rootedAtThisOrArgs || f = .impure) && e.effect = .pure && e.subExprOk && s.parseOk
  | .bind _ s => s.parseOk             -- the RHS `s` is one `parseExpr`; its effect must be ≤ f, and it is pure
  | .copy mark d s => mark.le f && d.parseOk && s.parseOk   -- receiver and argument are sub-expressions of the call
  | .callS mark _ a => a.effect = .pure && a.subExprOk && mark.le f
  | .choose => f = .impure             -- parse.go parseStatement1: "choose within pure function"

def Method.parseOk (m : Method) : Bool :=
  m.body.parseOk m.eff && m.result.effect = .pure && m.result.subExprOk

/-! ### check-time rules (lang/check) -/

/-- Is the static type of a slice expression read-only, inside a function with effect `f`? -/
def SRef.readOnly (f : Eff) : SRef → Bool
  | .arg i => i ≠ 0 || f = .pure      -- `s: slice` becomes `roslice` in a pure function (tcheckDot)
  | .loc v => v ≠ 0                   -- declared types of the locals
  | .fld _ => f = .pure               -- `this.arr[..]` of a `roarray` is a `roslice`
  | .sub _ _ _ => f = .pure           -- likewise with bounds (tcheckExprOther, slice case)
  | .pal => f = .pure                 -- call results are read-only in a pure function (repair)

def calleeEff (p : Prog) (m : Nat) : Option Eff := (p[m]?).map (·.eff)

/-- `tcheckExprCall`: every call's mark equals the callee's declared effect. -/
def Expr.checkOk (p : Prog) : Expr → Bool
  | .call mark m a => calleeEff p m = some mark && a.checkOk p
  | .add l r => l.checkOk p && r.checkOk p
  | _ => true

def optCheckOk (p : Prog) : Option Expr → Bool
  | none => true
  | some e => e.checkOk p

/-- Calls inside slice bounds are type-checked like any other call. -/
def SRef.checkOk (p : Prog) : SRef → Bool
  | .sub _ lo hi => optCheckOk p lo && optCheckOk p hi
  | _ => true

def Stmt.checkOk (p : Prog) (f : Eff) : Stmt → Bool
  | .skip => true
  | .seq a b => a.checkOk p f && b.checkOk p f
  | .ite c t e => c.checkOk p && t.checkOk p f && e.checkOk p f
  | .loop c b => c.checkOk p && b.checkOk p f
  | .setLoc _ e => e.checkOk p
  | .setFld _ e => e.checkOk p
  | .setArg e => e.checkOk p
  | .setArr _ _ e => e.checkOk p
  | .setBuf s e => !s.readOnly f && e.checkOk p && s.checkOk p   -- tcheckAssign: IsRecursivelyReadOnly
  | .bind v s => (v ≠ 0 || !s.readOnly f) && s.checkOk p        -- tcheckEq: LHS `slice` needs a `slice`
  | .copy mark d s =>                                           -- effect mark; no roslice.copy_from_slice!
      mark = .impure && !d.readOnly f && d.checkOk p && s.checkOk p
  | .callS mark m a => calleeEff p m = some mark && a.checkOk p
  | .choose => true

def Method.checkOk (p : Prog) (m : Method) : Bool :=
  m.body.checkOk p m.eff && m.result.checkOk p

inductive Verdict | ok | rejectParse | rejectCheck
  deriving DecidableEq, Repr

/-- The compiler's verdict: the parser sees the whole file first. -/
def tcheck (p : Prog) : Verdict :=
  if !p.all Method.parseOk then .rejectParse
  else if !p.all (Method.checkOk p) then .rejectCheck
  else .ok

/-! ### store semantics -/

/-- What a slice value points to: a caller-owned buffer or one of the receiver's arrays. -/
inductive Ptr
  | buf (id : Nat)
  | arr (f : Nat)
  | sub (f off len : Nat)     -- `len` elements of the receiver's array `f`, starting at `off`
  deriving DecidableEq, Repr

/-- Everything a caller can observe: the receiver and all buffers. -/
structure World where
  flds : List Nat
  arrs : List (List Nat)
  heap : List (List Nat)
  choice : Nat := 0      -- which implementation the receiver's choosy function pointer selects
  deriving DecidableEq, Repr

/-- A method activation. `slocs[0]` is `ls`, `slocs[1]` is `lt`; `sargs` likewise `s`, `t`. -/
structure Frame where
  x : Nat
  vi : Nat              -- the loop counter local (starts at 0, only `loop` increments it)
  locs : List Nat
  sargs : List (Option Ptr)
  slocs : List (Option Ptr)
  pal : Option Ptr
  deriving Repr

def u32 (n : Nat) : Nat := n % 4294967296

def Expr.isCall : Expr → Bool
  | .call _ _ _ => true
  | _ => false

/-- Evaluate an optional bound with the expression evaluator `ev`. -/
def evalOpt (ev : Expr → World → Option (Nat × World)) : Option Expr → World → Option (Nat × World)
  | none, w => some (0, w)
  | some e, w => ev e w

/-- Evaluate a slice expression; the bounds are evaluated with `ev` (lower
    bound first) and may, in a program the rule does NOT accept, change the
    world.  The written form of the bounds is described at `SRef.sub`. -/
def SRef.evalWith (ev : Expr → World → Option (Nat × World)) (fr : Frame) (w : World) :
    SRef → Option (Option Ptr × World)
  | .arg i => some ((fr.sargs[i]?).join, w)
  | .loc v => some ((fr.slocs[v]?).join, w)
  | .fld f => some (some (.arr f), w)
  | .pal => some (fr.pal, w)
  | .sub f lo hi =>
    match evalOpt ev lo w with
    | none => none
    | some (l, w1) =>
      match evalOpt ev hi w1 with
      | none => none
      | some (h, w2) =>
        let L := l % 4
        let H := match hi with
          | none => (w2.arrs.getD f []).length
          | some e => if lo.isNone && e.isCall then h % 4 else h % 2 + 3
        some (some (.sub f L (H - L)), w2)

def World.read (w : World) : Ptr → List Nat
  | .buf id => w.heap.getD id []
  | .arr f => w.arrs.getD f []
  | .sub f off len => ((w.arrs.getD f []).drop off).take len

/-- `bs` replaces the elements the pointer designates (`bs.length` of them). -/
def World.write (w : World) (p : Ptr) (bs : List Nat) : World :=
  match p with
  | .buf id => { w with heap := w.heap.set id bs }
  | .arr f => { w with arrs := w.arrs.set f bs }
  | .sub f off _ =>
    let old := w.arrs.getD f []
    { w with arrs := w.arrs.set f (old.take off ++ bs ++ old.drop (off + bs.length)) }

/-- `s[0] = v` under the guard `s.length() > 0`; a null slice has length 0. -/
def World.poke (w : World) (p : Option Ptr) (v : Nat) : World :=
  match p with
  | none => w
  | some q =>
    match w.read q with
    | [] => w
    | _ :: rest => w.write q (v % 256 :: rest)

/-- `d.copy_from_slice!(s: s)`: copies min(len) elements. -/
def World.copy (w : World) (d s : Option Ptr) : World :=
  match d, s with
  | some dp, some sp =>
    let src := w.read sp
    let dst := w.read dp
    let n := min src.length dst.length
    w.write dp (src.take n ++ dst.drop n)
  | _, _ => w

mutual
/-- Evaluate an expression (calls may change the world). `none` = out of fuel / ill-formed. -/
def evalE (p : Prog) : Nat → Expr → World → Frame → Option (Nat × World)
  | 0, _, _, _ => none
  | fuel + 1, e, w, fr =>
    match e with
    | .lit n => some (u32 n, w)
    | .loc v => some (fr.locs.getD v 0, w)
    | .fld f => some (w.flds.getD f 0, w)
    | .arg => some (fr.x, w)
    | .arr f i => some ((w.arrs.getD f []).getD i 0, w)
    | .add l r =>
      match evalE p fuel l w fr with
      | none => none
      | some (a, w1) =>
        match evalE p fuel r w1 fr with
        | none => none
        | some (b, w2) => some (u32 (a + b), w2)
    | .call _ m a =>
      match evalE p fuel a w fr with
      | none => none
      | some (x, w1) => callM p fuel m x fr w1

/-- Run method `m` with scalar argument `x`; slices are passed as the caller's `ls`, `lt`. -/
def callM (p : Prog) : Nat → Nat → Nat → Frame → World → Option (Nat × World)
  | 0, _, _, _, _ => none
  | fuel + 1, m, x, caller, w =>
    match p[m]? with
    | none => none
    | some md =>
      let fr : Frame := { x := x, vi := 0, locs := [0, 0],
                          sargs := [(caller.slocs[0]?).join, (caller.slocs[1]?).join],
                          slocs := [none, none], pal := caller.pal }
      match execS p fuel md.eff md.body w fr with
      | none => none
      | some (w1, fr1) =>
        -- `return (result & 3)`
        match evalE p fuel md.result w1 fr1 with
        | none => none
        | some (v, w2) => some (v % 4, w2)

/-- Execute a statement of a method whose effect is `f`. -/
def execS (p : Prog) : Nat → Eff → Stmt → World → Frame → Option (World × Frame)
  | 0, _, _, _, _ => none
  | fuel + 1, f, s, w, fr =>
    match s with
    | .skip => some (w, fr)
    | .seq a b =>
      match execS p fuel f a w fr with
      | none => none
      | some (w1, fr1) => execS p fuel f b w1 fr1
    | .ite c t e =>
      match evalE p fuel c w fr with
      | none => none
      | some (v, w1) => if v ≠ 0 then execS p fuel f t w1 fr else execS p fuel f e w1 fr
    | .loop c b =>
      -- `and` short-circuits: the condition proper is not evaluated once vi = 3
      if fr.vi < 3 then
        match evalE p fuel c w fr with
        | none => none
        | some (v, w1) =>
          if v ≠ 0 then
            match execS p fuel f b w1 { fr with vi := fr.vi + 1 } with
            | none => none
            | some (w2, fr2) => execS p fuel f (.loop c b) w2 fr2
          else some (w1, fr)
      else some (w, fr)
    | .setLoc v e =>
      match evalE p fuel e w fr with
      | none => none
      | some (x, w1) => some (w1, { fr with locs := fr.locs.set v x })
    | .setFld g e =>
      match evalE p fuel e w fr with
      | none => none
      | some (x, w1) => some ({ w1 with flds := w1.flds.set g x }, fr)
    | .setArg e =>
      match evalE p fuel e w fr with
      | none => none
      | some (x, w1) => some (w1, { fr with x := x })
    | .setArr g i e =>
      match evalE p fuel e w fr with
      | none => none
      | some (x, w1) => some ({ w1 with arrs := w1.arrs.set g ((w1.arrs.getD g []).set i (x % 256)) }, fr)
    | .setBuf r e =>
      match evalE p fuel e w fr with
      | none => none
      | some (x, w1) =>
        match r.evalWith (fun e w => evalE p fuel e w fr) fr w1 with
        | none => none
        | some (q, w2) => some (w2.poke q x, fr)
    | .bind v r =>
      match r.evalWith (fun e w => evalE p fuel e w fr) fr w with
      | none => none
      | some (q, w1) => some (w1, { fr with slocs := fr.slocs.set v q })
    | .copy _ d r =>
      match d.evalWith (fun e w => evalE p fuel e w fr) fr w with
      | none => none
      | some (dq, w1) =>
        match r.evalWith (fun e w => evalE p fuel e w fr) fr w1 with
        | none => none
        | some (sq, w2) => some (w2.copy dq sq, fr)
    | .callS _ m a =>
      match evalE p fuel a w fr with
      | none => none
      | some (x, w1) =>
        match callM p fuel m x fr w1 with
        | none => none
        | some (_, w2) => some (w2, fr)
    | .choose => some ({ w with choice := 1 }, fr)
end

end WuffsVerif.Effects
