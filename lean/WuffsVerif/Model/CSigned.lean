/-
C04 — binary operators on the signed Wuffs types base.i8 … base.i64
(internal/cgen/expr.go writeExprBinaryOp + writeExprOperand): comparisons and
`+ - *` between a signed variable and another one or a constant.

cgen writes `(<lhs> <op> <rhs>)`; a variable is written by its C name (an
`int8_t` … `int64_t` object), a constant operand as its decimal digits —
WITHOUT the `u` suffix that writeExpr gives a constant everywhere else, because
`signed := isSignedInteger(lhs type) || isSignedInteger(rhs type)` is true
(fixes/C04-signed-operand-literal.patch; seeded/C04-m1 tests the left operand
only).  The suffix decides the C type of the literal (C11 6.4.4.1p5: `5` is an
`int`, `5u` an `unsigned int`) and thereby, through the usual arithmetic
conversions (6.3.1.8), whether the signed operand is converted to unsigned.

LP64: int = 32 bits, long = 64 bits.  After the integer promotions
(6.3.1.1p2: int8_t, int16_t -> int) the operand types are `int`, `long`,
`unsigned int`, `unsigned long` (`KTy`).  Core Lean only.
-/
namespace WuffsVerif.CSigned

/-- base.i8 … base.i64 -/
inductive STy where
  | i8 | i16 | i32 | i64
  deriving DecidableEq, Repr, Inhabited

def STy.bits : STy → Nat
  | .i8 => 8 | .i16 => 16 | .i32 => 32 | .i64 => 64

def STy.has (t : STy) (v : Int) : Prop := -(2 ^ (t.bits - 1)) ≤ v ∧ v < 2 ^ (t.bits - 1)

instance (t : STy) (v : Int) : Decidable (t.has v) := by unfold STy.has; exact inferInstance

inductive SOp where
  | add | sub | mul | lt | le | gt | ge | eq | ne
  deriving DecidableEq, Repr, Inhabited

def SOp.isCmp : SOp → Bool
  | .add | .sub | .mul => false
  | _ => true

def SOp.sym : SOp → String
  | .add => "+" | .sub => "-" | .mul => "*" | .lt => "<" | .le => "<=" | .gt => ">" | .ge => ">="
  | .eq => "==" | .ne => "!="

def b2i (b : Bool) : Int := if b then 1 else 0

/-- the meaning on ideal integers (comparisons: 0 / 1) -/
def SOp.ideal (op : SOp) (a b : Int) : Int :=
  match op with
  | .add => a + b | .sub => a - b | .mul => a * b
  | .lt => b2i (decide (a < b)) | .le => b2i (decide (a ≤ b)) | .gt => b2i (decide (a > b))
  | .ge => b2i (decide (a ≥ b)) | .eq => b2i (decide (a = b)) | .ne => b2i (decide (a ≠ b))

/-- a Wuffs operand: variable number `i` (of the node's signed type) or a node with ConstValue `c` -/
inductive Opd where
  | var (i : Nat)
  | const (c : Int)
  deriving DecidableEq, Repr, Inhabited

/-! ## C side -/

/-- promoted C operand types -/
inductive KTy where
  | int | long | uint | ulong
  deriving DecidableEq, Repr, Inhabited

/-- int8_t, int16_t, int32_t promote to `int`; int64_t is `long` -/
def KTy.ofS : STy → KTy
  | .i64 => .long
  | _ => .int

/-- a C operand: a variable, or a decimal literal with or without `u` -/
inductive COpd where
  | var (i : Nat)
  | lit (c : Int) (u : Bool)
  deriving DecidableEq, Repr, Inhabited

/-- 6.4.4.1p5: the type of a decimal literal (`-5` is the negation of `5`; its
type is that of `5`); `none`: no such literal is written -/
def litK (c : Int) (u : Bool) : Option KTy :=
  if u then
    (if 0 ≤ c ∧ c < 2 ^ 32 then some .uint else if 0 ≤ c ∧ c < 2 ^ 64 then some .ulong else none)
  else
    (if -(2 ^ 31) < c ∧ c < 2 ^ 31 then some .int else if -(2 ^ 63) < c ∧ c < 2 ^ 63 then some .long else none)

/-- 6.3.1.8 usual arithmetic conversions (a `long` can represent every `unsigned int`) -/
def uacK : KTy → KTy → KTy
  | .ulong, _ | _, .ulong => .ulong
  | .long, _ | _, .long => .long
  | .uint, _ | _, .uint => .uint
  | .int, .int => .int

/-- 6.3.1.3 conversion to the common type: modulo 2^N for an unsigned type; to
a signed common type the value is always representable (int -> long, unsigned
int -> long) -/
def KTy.conv (k : KTy) (v : Int) : Int :=
  match k with
  | .uint => v % 2 ^ 32
  | .ulong => v % 2 ^ 64
  | _ => v

def KTy.has (k : KTy) (v : Int) : Prop :=
  match k with
  | .int => -(2 ^ 31) ≤ v ∧ v < 2 ^ 31
  | .long => -(2 ^ 63) ≤ v ∧ v < 2 ^ 63
  | .uint => 0 ≤ v ∧ v < 2 ^ 32
  | .ulong => 0 ≤ v ∧ v < 2 ^ 64

instance (k : KTy) (v : Int) : Decidable (k.has v) := by unfold KTy.has; cases k <;> exact inferInstance

/-- the operator at the common type `k`: signed overflow is undefined (6.5p5) -/
def evalK (op : SOp) (k : KTy) (a b : Int) : Option Int :=
  if op.isCmp then some (op.ideal a b)
  else
    let r := op.ideal a b
    match k with
    | .uint => some (r % 2 ^ 32)
    | .ulong => some (r % 2 ^ 64)
    | k => if k.has r then some r else none

/-- type and value of an operand; the variables are objects of type `t` -/
def COpd.eval (t : STy) (env : Nat → Int) : COpd → Option (KTy × Int)
  | .var i => some (KTy.ofS t, env i)
  | .lit c u => (litK c u).map (fun k => (k, c))

/-- `(l op r)` -/
def evalNode (t : STy) (env : Nat → Int) (op : SOp) (l r : COpd) : Option Int :=
  match l.eval t env, r.eval t env with
  | some (kl, a), some (kr, b) =>
    let k := uacK kl kr
    evalK op k (k.conv a) (k.conv b)
  | _, _ => none

/-! ## Lowering -/

/-- writeExprOperand with `signed = true`: the constant's digits, no suffix -/
def lowerOpd : Opd → COpd
  | .var i => .var i
  | .const c => .lit c false

/-- writeExprBinaryOp for a node with a signed operand type -/
def lowerSigned (l r : Opd) : COpd × COpd := (lowerOpd l, lowerOpd r)

/-- the same with `signed := isSignedInteger(LHS type)` only (seeded/C04-m1): a
constant LEFT operand makes `signed` false, and writeExpr writes `<c>u` -/
def lowerSignedM1 (l r : Opd) : COpd × COpd :=
  match l with
  | .const c => (.lit c true, match r with | .var i => .var i | .const d => .lit d true)
  | .var i => (.var i, lowerOpd r)

def COpd.show : COpd → String
  | .var i => if i == 0 then "x" else if i == 1 then "y" else s!"h{i}"
  | .lit c u => (if c < 0 then s!"(neg {(-c)})" else toString c) ++ (if u then "u" else "")

/-- canonical prefix text, as harness/cmd/c04 reads it back from the emitted C (suffixes kept) -/
def showNode (op : SOp) (p : COpd × COpd) : String := s!"({op.sym} {p.1.show} {p.2.show})"

end WuffsVerif.CSigned
