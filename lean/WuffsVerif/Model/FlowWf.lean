/-
C02 facts half: the hypotheses of `facts_hold` as a COMPUTABLE check.  The theorems
assume `wtS Γ s` (what lang/check/type.go guarantees: one declared type per name,
conditions are boolean combinations of comparisons, op-assignment targets are
numeric, `via` reasons name listed axioms).  `wfProg` decides a sufficient condition
from the serialised program alone; the driver evaluates it on every program of the
correspondence (`case flow`), so that the theorems demonstrably apply to each sampled
program (`Props.C02Facts.facts_hold_checked`).  Core Lean only.
-/
import WuffsVerif.Model.Flow
import WuffsVerif.Gen.C02_AxiomDefs

namespace WuffsVerif.WFlow
open WuffsVerif.WCore

/-- every (name, type) a variable node / an array-element node of `e` carries -/
def exprTypings : Expr → List (String × Ty)
  | .const _ => []
  | .var n t => [(n, t)]
  | .unary _ e => exprTypings e
  | .binary _ l r => exprTypings l ++ exprTypings r
  | .as _ e => exprTypings e
  | .assoc _ _ l r => exprTypings l ++ exprTypings r
  | .index a _ ety i => (a, ety) :: exprTypings i

def condOKb (c : Expr) : Bool := goodCond c && boolTyped c

/-- an assignable expression (numeric if `numeric`): a variable or an array element -/
def lhsOKb (numeric : Bool) : Expr → Bool
  | .var _ t => !numeric || t.base != .bool
  | .index _ _ ety _ => !numeric || ety.base != .bool
  | _ => false

/-- a `via` reason names a listed axiom -/
def reasonOKb : Option Reason → Bool
  | none => true
  | some rs => Gen.C02.axioms.contains rs.ax

def substTypings (σ : Subst) : List (String × Ty) := (σ.map (fun p => exprTypings p.2)).flatten

def specTypings (sp : LoopSpec) : List (String × Ty) := (sp.map (fun a => exprTypings a.2)).flatten

/-- all typings of all expressions of a statement that the theorems look at -/
def stmtTypings : FStmt → List (String × Ty)
  | .skip => []
  | .seq a b => stmtTypings a ++ stmtTypings b
  | .base (.assign lhs rhs) => exprTypings lhs ++ exprTypings rhs
  | .base (.opAssign _ lhs rhs) => exprTypings lhs ++ exprTypings rhs
  | .assert c none => exprTypings c
  | .assert c (some rs) => exprTypings c ++ substTypings rs.args
  | .ite c t e => exprTypings c ++ stmtTypings t ++ stmtTypings e
  | .while sp c body => specTypings sp ++ exprTypings c ++ stmtTypings body
  | .callAssign lhs _ _ => exprTypings lhs
  | _ => []

/-- the shape conditions of `wtS` -/
def shapeOK : FStmt → Bool
  | .skip => true
  | .seq a b => shapeOK a && shapeOK b
  | .base (.assign lhs _) => lhsOKb false lhs
  | .base (.opAssign _ lhs _) => lhsOKb true lhs
  | .assert c r => condOKb c && reasonOKb r
  | .ite c t e => condOKb c && shapeOK t && shapeOK e
  | .while sp c body => sp.all (fun a => condOKb a.2) && condOKb c && shapeOK body
  | .callAssign lhs _ _ => isVar lhs
  | _ => true

/-- no name with two different types -/
def consistent (l : List (String × Ty)) : Bool :=
  l.all fun p => l.all fun q => p.1 != q.1 || p.2 == q.2

def wfProg (s : FStmt) : Bool := shapeOK s && consistent (stmtTypings s)

/-- the typing context a consistent list of typings denotes -/
def ctxOf (l : List (String × Ty)) : String → Ty := fun n => (l.lookup n).getD default

end WuffsVerif.WFlow
