/-
C04 — from the serialised, type-checked AST of an expression (Model/WSem.lean
`Node`) to the expression trees `WNum` / `WBool` of Model/CExprTree.lean, and
the text of the C expression that the modelled `writeExpr` recursion (`lowerN` /
`lowerB`, the subject of Props/C04Expr.lean) writes for it.  Used by the driver
op `lowerexpr`: the harness compares it with the C text that the working tree's
wuffs-c emits for nested-expression probes (the arguments are called x, y, z,
w: operands 0 … 3).  Core Lean only.
-/
import WuffsVerif.Model.WSem
import WuffsVerif.Model.CExprTree

namespace WuffsVerif.C
open WuffsVerif.WSem WuffsVerif.WOps

def argIndex (s : String) : Option Nat :=
  if s == "x" then some 0 else if s == "y" then some 1 else if s == "z" then some 2
  else if s == "w" then some 3 else none

def wtyOfNode (n : Node) : Option WTy := (parseTy n.ty).wty?

/-- numeric expression nodes -/
def convN (fuel : Nat) (n : Node) : Except String WNum :=
  match fuel with
  | 0 => .error "fuel"
  | fuel + 1 =>
    match n.cv with
    | some c => if 0 ≤ c then .ok (.const c.toNat) else .error "unsupported:negative-constant"
    | none =>
      let op := n.id0
      if op == "." then
        match n.lhs, argIndex n.id2, wtyOfNode n with
        | some l, some i, some t =>
          if l.id0 == "-" && l.id2 == "args" then .ok (.var i t) else .error "unsupported:selector"
        | _, _, _ => .error "unsupported:operand"
      else if op == "Bas" then
        match n.lhs, wtyOfNode n with
        | some l, some to =>
          match convN fuel l with
          | .ok e => .ok (.as to e)
          | .error e => .error e
        | _, _ => .error "unsupported:as"
      else
        match wopOfBinary op, n.lhs, n.rhs, wtyOfNode n with
        | some w, some l, some r, some t =>
          match convN fuel l, convN fuel r with
          | .ok a, .ok b => .ok (.bin w t a b)
          | .error e, _ => .error e
          | _, .error e => .error e
        | _, _, _, _ => .error s!"unsupported:{op}"

/-- boolean expression nodes -/
def convB (fuel : Nat) (n : Node) : Except String WBool :=
  match fuel with
  | 0 => .error "fuel"
  | fuel + 1 =>
    match n.cv with
    | some _ => .error "unsupported:boolean-constant"
    | none =>
      let op := n.id0
      if op == "Unot" then
        match n.rhs with
        | some r => (convB fuel r).map .not
        | none => .error "unsupported:not"
      else
        match wopOfBinary op, n.lhs, n.rhs with
        | some w, some l, some r =>
          if w.isLogical then
            match convB fuel l, convB fuel r with
            | .ok a, .ok b => .ok (.logic w a b)
            | .error e, _ => .error e
            | _, .error e => .error e
          else if w.isComparison then
            -- the operand type: that of the non-constant side
            let t := match wtyOfNode l with
              | some t => some t
              | none => wtyOfNode r
            match t, convN fuel l, convN fuel r with
            | some t, .ok a, .ok b => .ok (.cmp w t a b)
            | none, _, _ => .error "unsupported:comparison-type"
            | _, .error e, _ => .error e
            | _, _, .error e => .error e
          else .error s!"unsupported:{op}"
        | _, _, _ => .error s!"unsupported:{op}"

/-- the C text (canonical prefix form) of the expression; `!ok` in front: the
tree is outside the hypotheses of `exprN_correct` / `exprB_correct` -/
def lowerExprText (n : Node) : String :=
  let isBool := match parseTy n.ty with
    | .bool => true
    | _ => false
  if isBool then
    match convB 10000 n with
    | .error e => e
    | .ok e =>
      match lowerB e with
      | some c => (if e.ok then "" else "!ok ") ++ c.show
      | none => "none"
  else
    match convN 10000 n with
    | .error e => e
    | .ok e =>
      match lowerN e with
      | some c => (if e.ok then "" else "!ok ") ++ c.show
      | none => "none"

end WuffsVerif.C
