/-
Checksums used by PNG/zlib (and by Wuffs' std/adler32, std/crc32): Adler-32 and CRC-32/IEEE.
Core Lean only, self-contained (no project imports) so that several properties can share it.

* `Adler.*`, `adler32`      : the mathematical definition (two running sums mod 65521) over lists.
* `adlerInner/adlerOuter`   : the chunked `uint32` loop of `lib/uncompng/uncompng.go: updateAdler32`
                              (at most 5552 bytes between two `% 65521`), over an index range of a buffer.
* `crcBit/crcByteSpec/crc32Spec` : bit-serial (reflected, polynomial 0xEDB88320) CRC-32/IEEE over lists.
* `crcTableSpec`            : the 256-entry table computed from the bit-serial definition.
* `crcLoop/crc32Range`      : the table-driven byte-at-a-time loop of `uncompng.go: crc32IEEE`,
                              parameterised by the table, over an index range of a buffer.
-/
namespace WuffsVerif.Hash

/-- Read a byte of a buffer; 0 when out of range (callers that model Go track range errors apart). -/
@[inline] def rd (buf : Array UInt8) (i : Nat) : UInt8 := buf.getD i 0

/-- The bytes `buf[s:e]` as a list (empty when `e ≤ s`; clipped to the buffer). -/
def slice (buf : Array UInt8) (s e : Nat) : List UInt8 := (buf.extract s e).toList

/-! ## Adler-32, mathematical definition (RFC 1950 §8.2) -/

structure Adler where
  a : Nat
  b : Nat
deriving DecidableEq, Repr

def Adler.init : Adler := ⟨1, 0⟩

def Adler.step (s : Adler) (x : UInt8) : Adler :=
  let a := (s.a + x.toNat) % 65521
  ⟨a, (s.b + a) % 65521⟩

def Adler.update (s : Adler) (data : List UInt8) : Adler := data.foldl Adler.step s

/-- The 32-bit checksum value `b * 65536 + a`. -/
def Adler.value (s : Adler) : Nat := s.b * 65536 + s.a

def adler32 (data : List UInt8) : Nat := (Adler.init.update data).value

/-! ## Adler-32, the chunked uint32 loop of `updateAdler32` -/

/-- `for ; ei < end; ei++ { a += uint32(buf[ei]); b += a }` with `n = end - ei` iterations. -/
def adlerInner (buf : Array UInt8) : Nat → Nat → UInt32 → UInt32 → UInt32 × UInt32
  | 0, _, a, b => (a, b)
  | n + 1, i, a, b =>
    let a := a + (rd buf i).toUInt32
    adlerInner buf n (i + 1) a (b + a)

/-- `for ei < ej { end := min(ei+5552, ej); inner loop; a %= 65521; b %= 65521 }`. -/
def adlerOuter (buf : Array UInt8) (ei ej : Nat) (a b : UInt32) : UInt32 × UInt32 :=
  if h : ei < ej then
    let end_ := if ei + 5552 > ej then ej else ei + 5552
    let r := adlerInner buf (end_ - ei) ei a b
    adlerOuter buf end_ ej (r.1 % 65521) (r.2 % 65521)
  else (a, b)
termination_by ej - ei
decreasing_by
  simp only [gt_iff_lt]
  split <;> omega

/-! ## CRC-32/IEEE, bit-serial definition -/

/-- One step of the reflected LFSR: shift right, xor the polynomial when a 1 fell out. -/
def crcBit (c : UInt32) : UInt32 :=
  if c &&& 1 = 1 then (c >>> 1) ^^^ 0xEDB88320 else c >>> 1

def crcBits8 (c : UInt32) : UInt32 :=
  crcBit (crcBit (crcBit (crcBit (crcBit (crcBit (crcBit (crcBit c)))))))

def crcByteSpec (c : UInt32) (x : UInt8) : UInt32 := crcBits8 (c ^^^ x.toUInt32)

def crcRawSpec (c : UInt32) (data : List UInt8) : UInt32 := data.foldl crcByteSpec c

def crc32Spec (data : List UInt8) : UInt32 := crcRawSpec 0xFFFFFFFF data ^^^ 0xFFFFFFFF

/-- The 256-entry table derived from the bit-serial definition. -/
def crcTableSpec : Array UInt32 := ((List.range 256).map (fun i => crcBits8 (UInt32.ofNat i))).toArray

/-! ## CRC-32/IEEE, table-driven loop of `crc32IEEE` -/

/-- `hash = table[uint8(hash)^v] ^ (hash >> 8)`. -/
@[inline] def crcTableStep (tbl : Array UInt32) (hash : UInt32) (v : UInt8) : UInt32 :=
  tbl.getD (hash.toUInt8 ^^^ v).toNat 0 ^^^ (hash >>> 8)

/-- `for _, v := range buf[i:i+n] { hash = … }`. -/
def crcLoop (tbl : Array UInt32) (buf : Array UInt8) : Nat → Nat → UInt32 → UInt32
  | 0, _, h => h
  | n + 1, i, h => crcLoop tbl buf n (i + 1) (crcTableStep tbl h (rd buf i))

/-- `crc32IEEE(buf[s:e])`. -/
def crc32Range (tbl : Array UInt32) (buf : Array UInt8) (s e : Nat) : UInt32 :=
  crcLoop tbl buf (e - s) s 0xFFFFFFFF ^^^ 0xFFFFFFFF

/-- Table-driven CRC over a list (used by drivers for digests). -/
def crc32List (tbl : Array UInt32) (data : List UInt8) : UInt32 :=
  data.foldl (crcTableStep tbl) 0xFFFFFFFF ^^^ 0xFFFFFFFF

end WuffsVerif.Hash
