/-
Model of /repo/lang/token/token.go: `Tokenize`, `Map.Insert`, `Unescape` and the
ID classifiers of /repo/lang/token/list.go.  Tables and limits come from the
regenerated `Gen/C11_Tables.lean`.  Core Lean + Std.HashMap only.

The main loop is well-founded recursion on `src.size - i`; every iteration must
advance `i` (checked in the loop by `if i < j`, the impossible branch returns
`Err.stuck`; `Props/C11.lean` proves it is never taken).
-/
import Std.Data.HashMap
import WuffsVerif.Gen.C11_Tables

namespace WuffsVerif.Token
open WuffsVerif.Gen.C11

/-! ## character classes (token.go: alpha, alphaNumeric, …) -/

def alpha (c : UInt8) : Bool :=
  (65 ≤ c && c ≤ 90) || (97 ≤ c && c ≤ 122) || c == 95

def numeric (c : UInt8) : Bool := 48 ≤ c && c ≤ 57

def alphaNumeric (c : UInt8) : Bool := alpha c || numeric c

def hexaNumericUnderscore (c : UInt8) : Bool :=
  (65 ≤ c && c ≤ 70) || (97 ≤ c && c ≤ 102) || c == 95 || numeric c

def zeroOneUnderscore (c : UInt8) : Bool := c == 95 || c == 48 || c == 49

def numericUnderscore (c : UInt8) : Bool := c == 95 || numeric c

/-- token.go `unhex`: `none` is Go's -1. -/
def unhex (c : UInt8) : Option Nat :=
  if 65 ≤ c && c ≤ 70 then some (c.toNat - 55)
  else if 97 ≤ c && c ≤ 102 then some (c.toNat - 87)
  else if 48 ≤ c && c ≤ 57 then some (c.toNat - 48)
  else none

/-! ## tables -/

/-- Latin-1 view of a byte string: token spellings are arbitrary bytes, map keys are `String`s. -/
def latin1 (bs : List UInt8) : String := String.ofList (bs.map (fun b => Char.ofNat b.toNat))

def builtInsByName : Std.HashMap String Nat :=
  builtIns.foldl (fun m (p : Nat × String) => m.insert p.2 p.1) {}

def builtInsByIDArr : Array String :=
  builtIns.foldl (fun a (p : Nat × String) => a.set! p.1 p.2) (Array.replicate nBuiltInIDs "")

def squigglesArr : Array Nat :=
  squiggles.foldl (fun a (p : Nat × Nat) => a.set! p.1 p.2) (Array.replicate 256 0)

def lexersArr : Array (List (List UInt8 × Nat)) :=
  lexers.foldl (fun a (p : Nat × List (List Nat × Nat)) =>
    a.set! p.1 (p.2.map (fun q => (q.1.map UInt8.ofNat, q.2)))) (Array.replicate 256 [])

def backslashesArr : Array Nat :=
  backslashes.foldl (fun a (p : Nat × Nat) => a.set! p.1 p.2) (Array.replicate 256 0)

def formsArr (l : List (Nat × Nat)) : Array Nat :=
  l.foldl (fun a (p : Nat × Nat) => a.set! p.1 p.2) (Array.replicate (maxOp + 1) 0)

def unaryFormsArr : Array Nat := formsArr unaryForms
def binaryFormsArr : Array Nat := formsArr binaryForms
def associativeFormsArr : Array Nat := formsArr associativeForms

/-! ## Map (token.go `Map`) -/

structure TMap where
  byName : Std.HashMap String Nat := {}
  byID : Array String := #[]

inductive Err where
  | lines | backslash | unterminated | control | strlong | sqinvalid | sqmulti
  | identlong | octal | constlong | numeric | unrecognized | toomany
  | stuck   -- not a Go error: the model's loop failed to advance (proved impossible)
  deriving Repr, DecidableEq, Inhabited

/-- `Map.Insert` for a non-empty name. -/
def TMap.insert (m : TMap) (name : String) : Except Err (Nat × TMap) :=
  match builtInsByName[name]? with
  | some id => .ok (id, m)
  | none =>
    match m.byName[name]? with
    | some id => .ok (id, m)
    | none =>
      let id := nBuiltInIDs + m.byID.size
      if id > maxID then .error .toomany
      else .ok (id, { byName := m.byName.insert name id, byID := m.byID.push name })

/-- `Map.ByID`. -/
def TMap.byIDStr (m : TMap) (x : Nat) : String :=
  if x < nBuiltInIDs then builtInsByIDArr[x]!
  else (m.byID[x - nBuiltInIDs]?).getD ""

/-! ## ID classifiers (list.go) -/

def firstByte (s : String) : Nat := (s.toList.head?.map Char.toNat).getD 0

def isAlphaNat (c : Nat) : Bool := (65 ≤ c && c ≤ 90) || (97 ≤ c && c ≤ 122) || c == 95

def isLiteral (m : TMap) (x : Nat) : Bool :=
  if x < nBuiltInIDs then minBuiltInLiteral ≤ x && x ≤ maxBuiltInLiteral
  else let s := m.byIDStr x; s != "" && !isAlphaNat (firstByte s)

def isNumLiteral (m : TMap) (x : Nat) : Bool :=
  if x < nBuiltInIDs then minBuiltInNumLiteral ≤ x && x ≤ maxBuiltInNumLiteral
  else let s := m.byIDStr x; s != "" && (48 ≤ firstByte s && firstByte s ≤ 57)

def isDQStrLiteral (m : TMap) (x : Nat) : Bool :=
  if x < nBuiltInIDs then false else firstByte (m.byIDStr x) == 34

def isSQStrLiteral (m : TMap) (x : Nat) : Bool :=
  if x < nBuiltInIDs then false else firstByte (m.byIDStr x) == 39

def isIdent (m : TMap) (x : Nat) : Bool :=
  if x < nBuiltInIDs then minBuiltInIdent ≤ x && x ≤ maxBuiltInIdent
  else let s := m.byIDStr x; s != "" && isAlphaNat (firstByte s)

def isClose (x : Nat) : Bool := minClose ≤ x && x ≤ maxClose
def isKeyword (x : Nat) : Bool := minKeyword ≤ x && x ≤ maxKeyword
def isAssign (x : Nat) : Bool := minAssign ≤ x && x ≤ maxAssign
def isCannotAssignTo (x : Nat) : Bool := minCannotAssignTo ≤ x && x ≤ maxCannotAssignTo
def isNumType (x : Nat) : Bool := minNumType ≤ x && x ≤ maxNumType

def isImplicitSemicolon (m : TMap) (x : Nat) : Bool :=
  isClose x || isKeyword x || isIdent m x || isLiteral m x

def unaryForm (x : Nat) : Nat := unaryFormsArr.getD x 0
def binaryForm (x : Nat) : Nat := binaryFormsArr.getD x 0
def associativeForm (x : Nat) : Nat := associativeFormsArr.getD x 0
def isUnaryOp (x : Nat) : Bool := minOp ≤ x && x ≤ maxOp && unaryForm x != 0
def isBinaryOp (x : Nat) : Bool := minOp ≤ x && x ≤ maxOp && binaryForm x != 0
def isAssociativeOp (x : Nat) : Bool := minOp ≤ x && x ≤ maxOp && associativeForm x != 0

/-! ## Unescape (only what Tokenize needs: ok? and the unescaped length) -/

def validRune (u : Nat) : Bool := u < 0xD800 || (0xE000 ≤ u && u ≤ 0x10FFFF)

def runeLen (u : Nat) : Nat := if u < 0x80 then 1 else if u < 0x800 then 2 else if u < 0x10000 then 3 else 4

/-- Value of `n` hex digits starting at `s[k]` (big-endian); `none` if any is not a hex digit. -/
def hexValue (s : Array UInt8) (k n : Nat) : Option Nat :=
  (List.range n).foldl (fun acc d =>
    match acc, unhex (s.getD (k + d) 0) with
    | some v, some h => some (v * 16 + h)
    | _, _ => none) (some 0)

/-- The second loop of `Unescape` over the quote-stripped body `s`, from index `i`, having
produced `len` bytes so far.  `none` = `("", false)`. -/
def unescapeBody (s : Array UInt8) (i len : Nat) : Option Nat :=
  if h : i < s.size then
    if s[i] != 92 then unescapeBody s (i + 1) (len + 1)
    else if i + 1 ≥ s.size then none
    else
      let c := s.getD (i + 1) 0
      if backslashesArr.getD c.toNat 0 != 0 then unescapeBody s (i + 2) (len + 1)
      else if c == 120 && i + 3 < s.size then       -- 'x'
        match hexValue s (i + 2) 2 with
        | some _ => unescapeBody s (i + 4) (len + 1)
        | none => none
      else if c == 117 && i + 5 < s.size then       -- 'u'
        match hexValue s (i + 2) 4 with
        | some u => if validRune u then unescapeBody s (i + 6) (len + runeLen u) else none
        | none => none
      else if c == 85 && i + 9 < s.size then        -- 'U'
        match hexValue s (i + 2) 8 with
        | some u => if u < 2147483648 && validRune u then unescapeBody s (i + 10) (len + runeLen u) else none
        | none => none
      else none
  else some len
termination_by s.size - i
decreasing_by all_goals omega

/-- `Unescape(s)`: `some n` = ok with an unescaped string of `n` bytes. -/
def unescapeLen (s : Array UInt8) : Option Nat :=
  let n := s.size
  if n < 2 then none
  else
    let body : Option (Array UInt8) :=
      if s[0]! == 34 then
        (if s[n - 1]! == 34 then some (s.extract 1 (n - 1)) else none)
      else if s[0]! == 39 then
        (if s[n - 1]! == 39 then some (s.extract 1 (n - 1))
         else if n ≥ 4 && s[n - 3]! == 39 && (s[n - 2]! == 98 || s[n - 2]! == 108) && s[n - 1]! == 101
           then some (s.extract 1 (n - 3))
         else none)
      else none
    match body with
    | none => none
    | some b => if b.all (· != 92) then some b.size else unescapeBody b 0 0

/-! ## Tokenize -/

structure Tok where
  id : Nat
  line : Nat
  deriving Repr, DecidableEq, Inhabited

structure St where
  m : TMap := {}
  toks : Array Tok := #[]
  comments : Array String := #[]
  line : Nat := 1
  iters : Nat := 0   -- ghost: number of loop iterations so far (not in the Go code)

/-- First `j ≥ k` with `j = src.size` or `¬ p src[j]`, but error position when `j - i` reaches
`maxTokenSize` while `p src[j]` still holds (the Go loops' "too long" check). -/
def scanWhile (src : ByteArray) (p : UInt8 → Bool) (i : Nat) (j : Nat) : Option Nat :=
  if h : j < src.size then
    if p src[j] then
      if j - i == maxTokenSize then none else scanWhile src p i (j + 1)
    else some j
  else some j
termination_by src.size - j

/-- String body scan: returns the index after the closing quote (or `src.size`). -/
def scanString (src : ByteArray) (quote : UInt8) (j : Nat) : Except Err Nat :=
  if h : j < src.size then
    let c := src[j]
    if c == quote then .ok (j + 1)
    else if c == 92 then (if quote == 34 then .error .backslash else scanString src quote (j + 1))
    else if c == 10 then .error .unterminated
    else if c < 32 then .error .control
    else scanString src quote (j + 1)
  else .ok j
termination_by src.size - j

def scanToNewline (src : ByteArray) (j : Nat) : Nat :=
  if h : j < src.size then
    if src[j] == 10 then j else scanToNewline src (j + 1)
  else j
termination_by src.size - j

def hasPrefixAt (src : ByteArray) (k : Nat) : List UInt8 → Bool
  | [] => true
  | b :: rest => k < src.size && src.get! k == b && hasPrefixAt src (k + 1) rest

/-- `checkNumericUnderscores`. -/
def checkNumericUnderscores (bs : List UInt8) : Bool :=
  let r := bs.foldl (fun (acc : Bool × Bool) c =>
    let cur := c == 95
    (acc.1 && !(acc.2 && cur), cur)) (true, false)
  r.1 && !r.2

/-- `src[i:j]` as a byte list (all indices are in range whenever the tokenizer calls it). -/
def slice (src : ByteArray) (i j : Nat) : List UInt8 :=
  (List.range (j - i)).map (fun k => src.get! (i + k))

def padComments (cs : Array String) (line : Nat) : Array String :=
  if cs.size < line then cs ++ Array.replicate (line - cs.size) "" else cs

/-- `m.Insert(src[i:j])`, then `tokens = append(tokens, Token{id, line})`, `i = j`. -/
def emit (src : ByteArray) (i j : Nat) (st : St) : Except Err (Nat × St) :=
  match st.m.insert (latin1 (slice src i j)) with
  | .error e => .error e
  | .ok (id, m) => .ok (j, { st with m := m, toks := st.toks.push ⟨id, st.line⟩ })

/-- `if len(tokens) > 0 && tokens[len(tokens)-1].ID.IsImplicitSemicolon(m) { append ";" }`. -/
def withImplicitSemicolon (st : St) : Array Tok :=
  match st.toks.back? with
  | some t => if isImplicitSemicolon st.m t.id then st.toks.push ⟨IDSemicolon, st.line⟩ else st.toks
  | none => st.toks

/-- `c <= ' '`: white space; a newline may add an implicit semicolon and bumps the line. -/
def stepSpace (c : UInt8) (i : Nat) (st : St) : Except Err (Nat × St) :=
  if c == 10 then
    if st.line == maxLine then .error .lines
    else .ok (i + 1, { st with toks := withImplicitSemicolon st, line := st.line + 1 })
  else .ok (i + 1, st)

/-- `hasEndian`: a `'…'` literal directly followed by `be` / `le` (and at least one more byte). -/
def hasEndianAt (src : ByteArray) (quote : UInt8) (j0 : Nat) : Bool :=
  quote == 39 && j0 + 2 < src.size &&
    (src.get! j0 == 98 || src.get! j0 == 108) && src.get! (j0 + 1) == 101

def stringEnd (src : ByteArray) (quote : UInt8) (j0 : Nat) : Nat :=
  if hasEndianAt src quote j0 then j0 + 2 else j0

/-- The `'`-string validity check (`Unescape` ok, multi-byte needs a suffix). -/
def sqCheck (src : ByteArray) (quote : UInt8) (i j : Nat) (hasEndian : Bool) : Option Err :=
  if quote == 39 then
    match unescapeLen (slice src i j).toArray with
    | none => some .sqinvalid
    | some n => if n > 1 && !hasEndian then some .sqmulti else none
  else none

/-- `"…"` and `'…'` literals (`c` is the quote at `src[i]`). -/
def stepString (src : ByteArray) (c : UInt8) (i : Nat) (st : St) : Except Err (Nat × St) :=
  match scanString src c (i + 1) with
  | .error e => .error e
  | .ok j0 =>
    if stringEnd src c j0 - i > maxTokenSize then .error .strlong
    else
      match sqCheck src c i (stringEnd src c j0) (hasEndianAt src c j0) with
      | some e => .error e
      | none => emit src i (stringEnd src c j0) st

def stepIdent (src : ByteArray) (i : Nat) (st : St) : Except Err (Nat × St) :=
  match scanWhile src alphaNumeric i (i + 1) with
  | none => .error .identlong
  | some j => emit src i j st

/-- Radix prefix of a numeric literal: where the digits start and which bytes are digits. -/
def numberPrefix (src : ByteArray) (c : UInt8) (i : Nat) : Except Err (Nat × (UInt8 → Bool)) :=
  let j1 := i + 1
  if c == 48 && j1 < src.size then
    let next := src.get! j1
    if next == 120 || next == 88 then .ok (j1 + 1, hexaNumericUnderscore)
    else if next == 98 || next == 66 then .ok (j1 + 1, zeroOneUnderscore)
    else if numeric next then .error .octal
    else .ok (j1, numericUnderscore)
  else .ok (j1, numericUnderscore)

def stepNumber (src : ByteArray) (c : UInt8) (i : Nat) (st : St) : Except Err (Nat × St) :=
  match numberPrefix src c i with
  | .error e => .error e
  | .ok (j0, isDigit) =>
    match scanWhile src isDigit i j0 with
    | none => .error .constlong
    | some j =>
      if !checkNumericUnderscores (slice src i j) then .error .numeric
      else emit src i j st

def stepComment (src : ByteArray) (i : Nat) (st : St) : Except Err (Nat × St) :=
  let j := scanToNewline src (i + 2)
  let cs := (padComments st.comments st.line).push (latin1 (slice src i j))
  .ok (j, { st with comments := cs })

def stepSquiggle (src : ByteArray) (c : UInt8) (i : Nat) (st : St) : Except Err (Nat × St) :=
  let sq := squigglesArr.getD c.toNat 0
  if sq != 0 then .ok (i + 1, { st with toks := st.toks.push ⟨sq, st.line⟩ })
  else
    match (lexersArr.getD c.toNat []).find? (fun x => hasPrefixAt src (i + 1) x.1) with
    | some x => .ok (i + 1 + x.1.length, { st with toks := st.toks.push ⟨x.2, st.line⟩ })
    | none => .error .unrecognized

/-- One iteration of the `Tokenize` loop at `i < src.size`: the new index and state. -/
def step (src : ByteArray) (i : Nat) (st : St) : Except Err (Nat × St) :=
  let c := src.get! i
  if c ≤ 32 then stepSpace c i st
  else if c == 34 || c == 39 then stepString src c i st
  else if alpha c then stepIdent src i st
  else if numeric c then stepNumber src c i st
  else if c == 47 && i + 1 < src.size && src.get! (i + 1) == 47 then stepComment src i st
  else stepSquiggle src c i st

/-- The error together with the line it is reported at. -/
structure Failure where
  err : Err
  line : Nat
  deriving Repr, DecidableEq, Inhabited

def loop (src : ByteArray) (i : Nat) (st : St) : Except Failure St :=
  if _h : i < src.size then
    match step src i st with
    | .error e => .error ⟨e, st.line⟩
    | .ok (j, st') =>
      if i < j then loop src j { st' with iters := st'.iters + 1 } else .error ⟨.stuck, st.line⟩
  else .ok st
termination_by src.size - i
decreasing_by omega

/-- `token.Tokenize(m, filename, src)` with a fresh map. -/
def tokenize (src : ByteArray) : Except Failure St := loop src 0 {}

end WuffsVerif.Token
