/-
C03 — the property's own clauses about ONE call of a std decoder, as executable predicates:

* the status classification of `wuffs_base__status` (`internal/cgen/base/fundamental-public.h`,
  `wuffs_base__status__is_ok / is_note / is_suspension / is_error / is_complete /
  is_truncated_input_error / message`; doc/note/statuses.md), over the C string `repr` (`none` = NULL);
* `classify`: what the property statement says about a call, from the status and the I/O buffer
  indexes before and after it: "every call returns … OK, a note, a suspension that is justified by the
  buffers (never a short read on a closed, fully-supplied input, never a short write with no byte
  written into an empty ample destination) or a proper error — never an 'internal error' status".

`harness/cmd/c03` feeds every sampled call of the compiled std decoders (cdrv `calllog=`) and every status
string declared by the regenerated library through these functions (ops `status`, `callrec`) and compares
with what the REAL C predicates and the C driver's per-call flags said.
Core Lean only.
-/
namespace WuffsVerif.StdCall

/-- `wuffs_base__status.repr`: NULL or a NUL-terminated string (bytes without the terminator). -/
abbrev SRepr := Option (List UInt8)

/-- `*z->repr` (the terminator when the string is empty). -/
def first (bs : List UInt8) : UInt8 := bs.headD 0

def chDollar : UInt8 := 0x24
def chHash : UInt8 := 0x23
def chAt : UInt8 := 0x40
def chColon : UInt8 := 0x3A

/-- `wuffs_base__status__is_ok`. -/
def isOk : SRepr → Bool
  | none => true
  | some _ => false

/-- `wuffs_base__status__is_error`: `z->repr && (*z->repr == '#')`. -/
def isError : SRepr → Bool
  | none => false
  | some bs => first bs == chHash

/-- `wuffs_base__status__is_suspension`: `z->repr && (*z->repr == '$')`. -/
def isSuspension : SRepr → Bool
  | none => false
  | some bs => first bs == chDollar

/-- `wuffs_base__status__is_note`: `z->repr && (*z->repr != '$') && (*z->repr != '#')`. -/
def isNote : SRepr → Bool
  | none => false
  | some bs => first bs != chDollar && first bs != chHash

/-- `wuffs_base__status__is_complete`: `(z->repr == NULL) || ((*z->repr != '$') && (*z->repr != '#'))`. -/
def isComplete : SRepr → Bool
  | none => true
  | some bs => first bs != chDollar && first bs != chHash

/-- `p++` until just behind the first `':'`; `none` when the string ends first. -/
def afterColon : List UInt8 → Option (List UInt8)
  | [] => none
  | b :: r => if b == chColon then some r else afterColon r

/-- `" truncated input"` -/
def truncatedInputText : List UInt8 := [0x20, 0x74, 0x72, 0x75, 0x6E, 0x63, 0x61, 0x74, 0x65, 0x64, 0x20, 0x69, 0x6E, 0x70, 0x75, 0x74]

/-- `wuffs_base__status__is_truncated_input_error`: an error whose text behind the first `':'` is
exactly `" truncated input"`. -/
def isTruncatedInputError : SRepr → Bool
  | none => false
  | some bs =>
    if first bs != chHash then false
    else match afterColon (bs.drop 1) with
      | none => false
      | some r => r == truncatedInputText

/-- `wuffs_base__status__message`: strips a leading `$`, `#` or `@`. -/
def message : SRepr → SRepr
  | none => none
  | some bs =>
    if first bs == chDollar || first bs == chHash || first bs == chAt then some (bs.drop 1) else some bs

/-- Does `pat` occur in `bs`? (`strstr`) -/
def containsSub (pat : List UInt8) : List UInt8 → Bool
  | [] => pat.isEmpty
  | b :: r => pat.isPrefixOf (b :: r) || containsSub pat r

/-- `"internal error"` -/
def internalErrorText : List UInt8 := [0x69, 0x6E, 0x74, 0x65, 0x72, 0x6E, 0x61, 0x6C, 0x20, 0x65, 0x72, 0x72, 0x6F, 0x72]

/-- The property's "internal error" statuses: errors whose text contains `internal error`
(`#base: internal error: …`, `#deflate: internal error: inconsistent …`). -/
def isInternalError : SRepr → Bool
  | none => false
  | some bs => first bs == chHash && containsSub internalErrorText bs

/-- `"$base: short read"` -/
def shortRead : List UInt8 := [0x24, 0x62, 0x61, 0x73, 0x65, 0x3A, 0x20, 0x73, 0x68, 0x6F, 0x72, 0x74, 0x20, 0x72, 0x65, 0x61, 0x64]
/-- `"$base: short write"` -/
def shortWrite : List UInt8 := [0x24, 0x62, 0x61, 0x73, 0x65, 0x3A, 0x20, 0x73, 0x68, 0x6F, 0x72, 0x74, 0x20, 0x77, 0x72, 0x69, 0x74, 0x65]

/-- What is known about one call: the returned status, the source buffer (`closed`, `ri` before, `wi`,
`ri` after) and the destination (`wi` before, `len`, `wi` after; all 0 for calls without a byte/token
destination), and the room from which a destination counts as ample. -/
structure CallRec where
  status : SRepr
  closed : Bool
  sri0 : Nat
  swi : Nat
  sri1 : Nat
  dwi0 : Nat
  dlen : Nat
  dwi1 : Nat
  ample : Nat
  deriving Repr, Inhabited

/-- The verdict on one call. -/
inductive Verdict where
  | ok | note | properError
  | shortRead          -- the source is not closed: the caller can supply more
  | shortWrite         -- progress was made, or the destination was not ample
  | otherSuspension    -- `$short workbuf`, `$mispositioned read`, …
  | vIndexOrder        -- ri/wi moved backwards or past their limit
  | vInternalError
  | vShortReadOnClosed
  | vShortWriteEmptyAmple
  | vNotAStatus        -- a non-NULL repr that is neither `$…`, `#…` nor `@…`
  deriving DecidableEq, Repr, Inhabited

def Verdict.isViolation : Verdict → Bool
  | .vIndexOrder | .vInternalError | .vShortReadOnClosed | .vShortWriteEmptyAmple | .vNotAStatus => true
  | _ => false

def Verdict.word : Verdict → String
  | .ok => "ok" | .note => "note" | .properError => "error"
  | .shortRead => "short-read" | .shortWrite => "short-write" | .otherSuspension => "other-suspension"
  | .vIndexOrder => "V:index-order" | .vInternalError => "V:internal-error"
  | .vShortReadOnClosed => "V:short-read-on-closed" | .vShortWriteEmptyAmple => "V:short-write-empty-ample"
  | .vNotAStatus => "V:not-a-status"

def indexesOK (c : CallRec) : Bool :=
  decide (c.sri0 ≤ c.sri1) && decide (c.sri1 ≤ c.swi) && decide (c.dwi0 ≤ c.dwi1) && decide (c.dwi1 ≤ c.dlen)

/-- No byte written, no byte read, and at least `ample` bytes of room were offered. -/
def zeroProgressAmple (c : CallRec) : Bool :=
  decide (c.dwi1 = c.dwi0) && decide (c.sri1 = c.sri0) && decide (c.ample ≤ c.dlen - c.dwi0)

def classify (c : CallRec) : Verdict :=
  if !indexesOK c then .vIndexOrder
  else if isInternalError c.status then .vInternalError
  else if isOk c.status then .ok
  else if isError c.status then .properError
  else if isSuspension c.status then
    if c.status == some shortRead then (if c.closed then .vShortReadOnClosed else .shortRead)
    else if c.status == some shortWrite then (if zeroProgressAmple c then .vShortWriteEmptyAmple else .shortWrite)
    else .otherSuspension
  else if c.status.map first == some chAt then .note
  else .vNotAStatus

/-- The clause of the property statement about one call, as a proposition (no reference to `classify`). -/
def WellBehaved (c : CallRec) : Prop :=
  (c.sri0 ≤ c.sri1 ∧ c.sri1 ≤ c.swi ∧ c.dwi0 ≤ c.dwi1 ∧ c.dwi1 ≤ c.dlen) ∧
  isInternalError c.status = false ∧
  (c.status = none ∨
   (∃ bs, c.status = some bs ∧ first bs = chAt) ∨
   (∃ bs, c.status = some bs ∧ first bs = chHash) ∨
   (∃ bs, c.status = some bs ∧ first bs = chDollar ∧
      (bs = shortRead → c.closed = false) ∧
      (bs = shortWrite → ¬ (c.dwi1 = c.dwi0 ∧ c.sri1 = c.sri0 ∧ c.ample ≤ c.dlen - c.dwi0))))

end WuffsVerif.StdCall
