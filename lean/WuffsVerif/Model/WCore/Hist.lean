/-
WCore history layer: an object with public methods whose bodies are straight-line
blocks of the statement layer, called any number of times with any argument values.

Mirror of what the generated C does at a public entry point
(internal/cgen/func.go `writeFuncImplArgChecks`): arguments of a REFINED type are
re-validated at run time — a value outside the refinement makes the call fail
("bad argument") and disables the object, nothing else runs; the base type's range
needs no check (it is the C type of the parameter).  Fields keep their values from one
call to the next; locals are zero-initialised by the `var` statements at the start of
the body (`bcheckVar`: "var x T" is "x = 0").
-/
import WuffsVerif.Model.WCore.Stmt

namespace WuffsVerif.WCore

structure Method where
  /-- parameter names as the body spells them (`args.x`) and declared types -/
  params : List (String × Ty)
  body : List Stmt
deriving Repr, Inhabited

structure Obj where
  env : Env
  disabled : Bool

/-- the emitted run-time check of one argument: only the refinement bounds -/
def refOk (t : Ty) (v : Int) : Bool :=
  (match t.min with | some m => decide (m ≤ v) | none => true) &&
  (match t.max with | some m => decide (v ≤ m) | none => true)

def argsOk : List (String × Ty) → List Int → Bool
  | [], [] => true
  | (_, t) :: ps, v :: vs => refOk t v && argsOk ps vs
  | _, _ => false

def bindArgs (env : Env) : List (String × Ty) → List Int → Env
  | (n, _) :: ps, v :: vs => bindArgs (updKey env (.sc n) v) ps vs
  | _, _ => env

/-- one public call -/
def callMethod (m : Method) (vals : List Int) (o : Obj) : Obj :=
  if o.disabled then o
  else if argsOk m.params vals then ⟨runBlock (bindArgs o.env m.params vals) m.body, false⟩
  else ⟨o.env, true⟩

/-- a history of public calls: (method, argument values) -/
def runHist (o : Obj) : List (Method × List Int) → Obj
  | [] => o
  | (m, vals) :: h => runHist (callMethod m vals o) h

end WuffsVerif.WCore
