/-
WCore prover: mirror of `proveBinaryOpConstValues`, `opImpliesOp`, the fact loop
of `proveBinaryOp`, and `proveReasonRequirementForRHSLength` (lang/check/assert.go).
This is what `bcheckAssert` uses for an `assert` without a `via` reason, what the
`via` reason procedures use for their requirements, and what `bcheckExprOther`
uses for the index obligations `0 <= i`, `i < length`.

The operand bounds are passed in (`proveCore … l lb r rb`): at every call site of
`proveBinaryOp` both operands have been bounds-checked before, under the same
facts, and `bcheckExpr` returns those cached `MBounds`.
-/
import WuffsVerif.Model.WCore.Expr

namespace WuffsVerif.WCore
open WuffsVerif.Interval

def mkIR (lo hi : Int) : IR := ⟨some lo, some hi⟩

/-- `ConstValue()` of a node of the model: only literal constants (the harness
serialises every constant-valued node as a constant) -/
def constVal : Expr → Option Int
  | .const v => some v
  | _ => none

/-- `proveBinaryOpConstValues(op, lb, rb)` -/
def proveCV (op : BOp) (lb rb : IR) : Bool :=
  match lb.lo, lb.hi, rb.lo, rb.hi with
  | some l0, some l1, some r0, some r1 =>
    (match op with
     | .ne => decide (l1 < r0) || decide (l0 > r1)
     | .lt => decide (l1 < r0)
     | .le => decide (l1 ≤ r0)
     | .eq => decide (l0 = r1) && decide (l1 = r0)
     | .ge => decide (l0 ≥ r1)
     | .gt => decide (l0 > r1)
     | _ => false)
  | _, _, _, _ => false

/-- `opImpliesOp` -/
def opImpliesOp (op0 op1 : BOp) : Bool :=
  op0 == op1 ||
  match op0 with
  | .lt => op1 == .ne || op1 == .le
  | .gt => op1 == .ne || op1 == .ge
  | _ => false

/-- the `switch op` on a fact `lhs == factCV` when the right-hand side is the
constant `rcv`; `none`: `op` is not one of the six comparisons (the loop goes on) -/
def cmpConst (op : BOp) (factCV rcv : Int) : Option Bool :=
  match op with
  | .ne => some (decide (factCV ≠ rcv))
  | .lt => some (decide (factCV < rcv))
  | .le => some (decide (factCV ≤ rcv))
  | .eq => some (decide (factCV = rcv))
  | .ge => some (decide (factCV ≥ rcv))
  | .gt => some (decide (factCV > rcv))
  | _ => none

/-- the loop over the facts of `proveBinaryOp` (it returns at the first decisive
fact: an implying fact with the same operands, or `lhs == const` against a constant
right-hand side) -/
def proveFacts (op : BOp) (l r : Expr) : List Expr → Bool
  | [] => false
  | x :: xs =>
    match x with
    | .binary fop xl xr =>
      if xl == l then
        if opImpliesOp fop op && xr == r then true
        else
          match fop, constVal r, constVal xr with
          | .eq, some rcv, some fcv =>
            (match cmpConst op fcv rcv with
             | some b => b
             | none => proveFacts op l r xs)
          | _, _, _ => proveFacts op l r xs
      else proveFacts op l r xs
    | _ => proveFacts op l r xs

/-- `proveBinaryOp(op, lhs, rhs)`; `lb`, `rb`: the (cached) bounds of the operands -/
def proveCore (fs : List Expr) (op : BOp) (l : Expr) (lb : IR) (r : Expr) (rb : IR) : Bool :=
  (match constVal l with
   | some lcv => proveCV op (mkIR lcv lcv) rb
   | none => false) ||
  (match constVal r with
   | some rcv => proveCV op lb (mkIR rcv rcv)
   | none => false) ||
  proveFacts op l r fs

/-- the extra loop of `proveReasonRequirementForRHSLength`: a fact `rhs >= const`
lets `lhs op const` stand for `lhs op rhs` (`op` is `<` or `<=`) -/
def proveLenFacts (all : List Expr) (op : BOp) (l : Expr) (lb : IR) (r : Expr) : List Expr → Bool
  | [] => false
  | x :: xs =>
    (match x with
     | .binary .ge xl (.const c) =>
       xl == r && proveCore all op l lb (.const c) (mkIR c c)
     | _ => false) || proveLenFacts all op l lb r xs

/-- `proveReasonRequirementForRHSLength(op, lhs, rhs)` -/
def proveLen (fs : List Expr) (op : BOp) (l : Expr) (lb : IR) (r : Expr) (rb : IR) : Bool :=
  proveCore fs op l lb r rb ||
  ((op == .lt || op == .le) && proveLenFacts fs op l lb r fs)

end WuffsVerif.WCore
