/-
C01 over the control-flow layer (Model/Flow.lean, built by C02 on top of WCore): a public
method = parameters + a body of the flow fragment, an object = its public methods, and
the COMPUTABLE well-formedness check under which the soundness theorems
`Props.C01.check_sound_flow` / `check_sound_flow_hist` apply.

`WFlow.wfProg` (C02) checks the expressions the FACTS theorems look at (conditions,
assignments, `via` arguments).  The SAFETY theorems of C01 also evaluate the argument
lists of calls and the returned values, so `wfMethod` / `wfObj` add those expressions
and the parameters to the list of typings that must be consistent (one declared type
per name — what lang/check/type.go guarantees).  The driver `wv_c01` evaluates `wfMethod`
on every function body of the correspondence (`case flow`): a body that fails it would
answer `ill-formed`, which is a mismatch.

Core Lean only.
-/
import WuffsVerif.Model.FlowWf
import WuffsVerif.Model.WCore.Hist

namespace WuffsVerif.WFlow
open WuffsVerif.WCore

/-- the typings carried by the argument list of a call -/
def argsTypings (args : List (Expr × Ty)) : List (String × Ty) :=
  (args.map (fun a => exprTypings a.1)).flatten

/-- the typings of the expressions that `stmtTypings` leaves out: the arguments of
`this.m!(…)`, `x = this.m!(…)`, `this.m?(…)` and the value of `return e` -/
def extraTypings : FStmt → List (String × Ty)
  | .seq a b => extraTypings a ++ extraTypings b
  | .ite _ t e => extraTypings t ++ extraTypings e
  | .while _ _ body => extraTypings body
  | .call args => argsTypings args
  | .callAssign _ _ args => argsTypings args
  | .cocall args => argsTypings args
  | .ret (some (v, _)) => exprTypings v
  | _ => []

/-- a public method: parameter names as the body spells them (`args.x`) with their
declared types, and the body -/
structure FMethod where
  params : List (String × Ty)
  body : FStmt

/-- every (name, type) the method declares or uses -/
def methodTypings (m : FMethod) : List (String × Ty) :=
  m.params ++ (stmtTypings m.body ++ extraTypings m.body)

/-- the computable hypothesis of `check_sound_flow` for one function -/
def wfMethod (m : FMethod) : Bool := shapeOK m.body && consistent (methodTypings m)

/-- all typings of an object's methods (fields are shared; a local name used by two
methods must have one type — locals are renamed apart otherwise) -/
def objTypings (ms : List FMethod) : List (String × Ty) := (ms.map methodTypings).flatten

/-- the computable hypothesis of `check_sound_flow_hist` for an object: every body has
the shape the type checker guarantees, and no name has two types -/
def wfObj (ms : List FMethod) : Bool :=
  ms.all (fun m => shapeOK m.body) && consistent (objTypings ms)

/-- the checker accepts every method body (each function starts with no facts, outside
every loop) -/
def acceptsObj (ms : List FMethod) : Bool := ms.all (fun m => (checkS [] [] m.body).isSome)

end WuffsVerif.WFlow
