/-
WCore statement layer, fragment F1-scalar: assignment and op-assignment to a scalar
variable or to an array element `a[i]`, with a pure right-hand side.  Mirror of `bcheckAssignment` /
`bcheckAssignment1`, `mentionsElementsOf` (lang/check/bounds.go) and of `appendFact`,
`dropAnyFactsMentioning`, `facts.update`, `simplify` (lang/check/assert.go) — the
REPAIRED rules (fixes/C01-fact-from-self-referential-assign.patch,
fixes/C01-fact-rewrite-self-referential-opassign.patch,
fixes/C01-index-alias-store.patch).

`checkStmt fs s = some fs'`: the statement is accepted under the facts `fs` and the
checker goes on with `fs'`; `none`: rejected.
-/
import WuffsVerif.Model.WCore.Bounds

namespace WuffsVerif.WCore
open WuffsVerif.Interval

inductive Stmt where
  | assign (lhs rhs : Expr)
  | opAssign (op : BOp) (lhs rhs : Expr)
deriving Repr, Inhabited

/-- `facts.appendFact`: no duplicates; a conjunction is split -/
def appendFact (fs : List Expr) : Expr → List Expr
  | .binary .and l r =>
    if fs.contains (.binary .and l r) then fs else appendFact (appendFact fs l) r
  | f => if fs.contains f then fs else fs ++ [f]

/-- `dropAnyFactsMentioning` -/
def dropMentioning (fs : List Expr) (x : Expr) : List Expr :=
  fs.filter (fun f => !mentions f x)

/-- the closure `mentionsLHS` of `bcheckAssignment`: does `x` depend on the assigned
location?  For a variable: `x.Mentions(lhs)`.  For an element `a[i]`: also when `x`
reads ANY element of `a` (`mentionsElementsOf(x, base)`), since `a[j]` is the same
location whenever `j == i` at run time. -/
def mentionsLHS (lhs x : Expr) : Bool :=
  mentions x lhs ||
  match lhs with
  | .index a _ _ _ => readsArr x a
  | _ => false

/-- `indexReadsBase`: the index of the assigned element `a[i]` itself reads `a`
(then no fact about `a[i]` may be recorded: after the store `a[i]` may denote
another element) -/
def idxReads : Expr → Bool
  | .index a _ _ i => readsArr i a
  | _ => false

/-- the facts that survive an assignment to `lhs` -/
def dropLHS (fs : List Expr) (lhs : Expr) : List Expr :=
  fs.filter (fun f => !mentionsLHS lhs f)

/-- `simplify` (assert.go) on `l op r` for the two operators `facts.update` builds -/
def simplifyBin (op : BOp) (l r : Expr) : Expr :=
  match l, r with
  | .const a, .const b =>
    (match op with
     | .plus => .const (a + b)
     | .minus => .const (a - b)
     | _ => .binary op l r)
  | _, _ =>
    match op with
    | .minus =>
      if l == r then .const 0
      else match l with
        | .binary .plus ll lr =>
          if ll == r then lr else if lr == r then ll else .binary op l r
        | _ => .binary op l r
    | _ => .binary op l r

def isNumBase : Base → Bool
  | .bool | .ideal => false
  | _ => true

/-- the facts `lhs >= lo`, `lhs <= hi` that `bcheckAssignment` records when the
assigned value's bounds `nb` are narrower than the type's -/
def boundFacts (fs : List Expr) (lhs : Expr) (nb : IR) : Option (List Expr) :=
  match typeBounds (typeOf lhs), nb.lo, nb.hi with
  | some ⟨some tlo, some thi⟩, some lo, some hi =>
    let fs := if tlo < lo then appendFact fs (.binary .ge lhs (.const lo)) else fs
    let fs := if thi > hi then appendFact fs (.binary .le lhs (.const hi)) else fs
    some fs
  | _, _, _ => none

/-- one fact of `bcheckAssignmentMaxMin`: `lhs <= operand` (`>=` for max), recorded only
if the assignment cannot change the operand's value and `lhs` still denotes the assigned
location afterwards (REPAIRED rule, fixes/C01-minmax-facts-aliasing-store.patch: the
unrepaired code tested `operand.Mentions(lhs)` only, see
`Props.C01.minmax_alias_witness`) -/
def minMaxFact (fs : List Expr) (lhs : Expr) (op : BOp) (x : Expr) : List Expr :=
  if mentionsLHS lhs x || idxReads lhs then fs else appendFact fs (.binary op lhs x)

/-- `bcheckAssignmentMaxMin`: after `lhs = a.min(no_more_than: b)` the facts `lhs <= a`,
`lhs <= b` (`>=` for max), receiver first -/
def minMaxFacts (fs : List Expr) (lhs : Expr) : Expr → List Expr
  | .binary .bmin a b => minMaxFact (minMaxFact fs lhs .le a) lhs .le b
  | .binary .bmax a b => minMaxFact (minMaxFact fs lhs .ge a) lhs .ge b
  | _ => fs

/-- is `nb` within the bounds of the destination type? (`bcheckAssignment1`) -/
def fitsType (t : Ty) (nb : IR) : Bool :=
  match typeBounds t, nb.lo, nb.hi with
  | some ⟨some tlo, some thi⟩, some lo, some hi => !(lo < tlo || hi > thi)
  | _, _, _ => false

/-- `bcheckAssignment1(nil, typ, =, e)`: the value of `e` must fit the (refined) type
`typ` — how `bcheckStatement` checks a `return e` against the function's out type and
`bcheckExprCall` each argument against its parameter's type -/
def checkFits (fs : List Expr) (t : Ty) (e : Expr) : Bool :=
  match bcheck fs false e with
  | some b => fitsType t b
  | none => false

/-- the rewriting of one fact by `x += e` / `x -= e` (`facts.update` in
`bcheckAssignment`); `none` = the fact is dropped -/
def rewriteFact (op : BOp) (lhs rhs : Expr) (x : Expr) : Option Expr :=
  match x with
  | .binary xop xl xr =>
    if xl == lhs then
      if mentionsLHS lhs xr || mentionsLHS lhs rhs || idxReads lhs then none
      else match op with
        | .plus | .minus => some (.binary xop xl (simplifyBin op xr rhs))
        | _ => none
    else if mentionsLHS lhs x then none else some x
  | _ => if mentionsLHS lhs x then none else some x

def isVar : Expr → Bool
  | .var _ _ => true
  | _ => false

/-- the assignable expressions of this layer: a variable or an array element -/
def isLhs : Expr → Bool
  | .var _ _ => true
  | .index _ _ _ _ => true
  | _ => false

/-- `bcheckAssignment` for a scalar variable or an array element on the left and a
pure expression of the fragment on the right.  For an element `a[i]` every fact that
reads an element of `a` is dropped (`mentionsLHS`), and no fact about `a[i]` is recorded
when `i` or the right-hand side read `a` (repaired: fixes/C01-index-alias-store.patch;
the unrepaired rule dropped only the facts that `Mention` the very expression `a[i]`,
see `Props.C01.index_alias_witness`). -/
def checkStmt (fs : List Expr) : Stmt → Option (List Expr)
  | .assign lhs rhs =>
    if !isLhs lhs then none else
    match bcheck fs false lhs, bcheck fs false rhs with
    | some _, some rb =>
      if !fitsType (typeOf lhs) rb then none else
      let fs1 := dropLHS fs lhs
      if !isNumBase (typeOf lhs).base then some fs1 else
      let fs2 := minMaxFacts (if mentionsLHS lhs rhs || idxReads lhs then fs1
        else appendFact fs1 (.binary .eq lhs rhs)) lhs rhs
      if idxReads lhs then some fs2 else
      match rhs with
      | .const _ => some fs2
      | _ => boundFacts fs2 lhs rb
    | _, _ => none
  | .opAssign op lhs rhs =>
    if !isLhs lhs then none else
    match bcheck fs false lhs, bcheck fs false rhs with
    | some lb, some rb =>
      match binBounds fs op lhs lb rhs rb with
      | none => none
      | some nb =>
        if !fitsType (typeOf lhs) nb then none else
        let fs1 := fs.filterMap (rewriteFact op lhs rhs)
        if !isNumBase (typeOf lhs).base then some fs1 else
        if idxReads lhs then some fs1 else
        boundFacts fs1 lhs nb
    | _, _ => none

/-- running the statement: the store after it (`none`: a monitor fires) is described
by `execStmt`; the value stored is `evalI` of the right-hand side / of `lhs op rhs` -/
def execValue (env : Env) : Stmt → Int
  | .assign _ rhs => evalI env rhs
  | .opAssign op lhs rhs => evalI env (.binary op lhs rhs)

def stmtTarget : Stmt → Expr
  | .assign lhs _ => lhs
  | .opAssign _ lhs _ => lhs

def updKey (env : Env) (key : Key) (v : Int) : Env := fun m => if m = key then v else env m

/-- the location an assignable expression denotes in `env` -/
def lhsKey (env : Env) : Expr → Option Key
  | .var n _ => some (.sc n)
  | .index a _ _ i => some (.cell a (evalI env i))
  | _ => none

def updEnv (env : Env) (x : Expr) (v : Int) : Env :=
  match lhsKey env x with
  | some key => updKey env key v
  | none => env

def execStmt (env : Env) (s : Stmt) : Env := updEnv env (stmtTarget s) (execValue env s)

/-- the monitors of executing one statement: evaluating the right-hand side trips
none (nor does the destination: the index monitor of `a[i] = …`), the operator's own
monitor holds, and the stored value fits the (refined) type of the destination -/
def stmtSafe (env : Env) : Stmt → Prop
  | .assign lhs rhs =>
    safe env false lhs ∧ safe env false rhs ∧ inType (typeOf lhs) (evalI env rhs)
  | .opAssign op lhs rhs =>
    safe env false lhs ∧ safe env false rhs ∧
      opMonitor op (opBase op lhs rhs) (evalI env lhs) (evalI env rhs) ∧
      inType (typeOf lhs) (evalI env (.binary op lhs rhs))

/-- `bcheckBlock` over a straight-line block of this layer -/
def checkBlock (fs : List Expr) : List Stmt → Option (List Expr)
  | [] => some fs
  | s :: ss =>
    match checkStmt fs s with
    | none => none
    | some fs1 => checkBlock fs1 ss

def runBlock (env : Env) : List Stmt → Env
  | [] => env
  | s :: ss => runBlock (execStmt env s) ss

end WuffsVerif.WCore
