/-
Model of `checkNoRecursiveFuncs` / `checkNoRecursiveFuncs1` (lang/check/check.go):
a depth-first search over the "calls this.foo" relation with three marks
(unmarked / temporary / permanent); meeting a temporary mark is the error
"recursive call chain".  Functions are numbered in declaration order; `g i` lists
the callees of function `i` in call order.  Core Lean only.
-/
namespace WuffsVerif.WCore.NoRec

abbrev Graph := List (List Nat)

def callees (g : Graph) (n : Nat) : List Nat := g.getD n []

mutual
/-- `checkNoRecursiveFuncs1`: `temp` = the functions on the current DFS stack
(temporary marks), `perm` = finished functions (permanent marks), newest first.
`none` = "recursive call chain" (or the fuel ran out, which `visitAll` excludes). -/
def visit (g : Graph) : Nat → Nat → List Nat → List Nat → Option (List Nat)
  | 0, _, _, _ => none
  | fuel + 1, n, temp, perm =>
    if temp.contains n then none
    else if perm.contains n then some perm
    else
      match visitList g fuel (callees g n) (n :: temp) perm with
      | none => none
      | some perm' => some (n :: perm')
def visitList (g : Graph) : Nat → List Nat → List Nat → List Nat → Option (List Nat)
  | _, [], _, perm => some perm
  | 0, _ :: _, _, _ => none
  | fuel + 1, c :: cs, temp, perm =>
    match visit g fuel c temp perm with
    | none => none
    | some perm' => visitList g fuel cs temp perm'
end

/-- the phase loop: every function of the package, in declaration order -/
def visitAll (g : Graph) (fuel : Nat) : List Nat → List Nat → Option (List Nat)
  | [], perm => some perm
  | n :: ns, perm =>
    match visit g fuel n [] perm with
    | none => none
    | some perm' => visitAll g fuel ns perm'

/-- enough fuel for any DFS over `g`: each level of the recursion either consumes a
list element or descends to a fresh function -/
def fuelFor (g : Graph) : Nat := 2 * (g.length + 1) * (g.length + (g.map List.length).sum + 2)

/-- `checkNoRecursiveFuncs` over the whole package: `true` = accepted -/
def accepts (g : Graph) : Bool :=
  (visitAll g (fuelFor g) (List.range g.length) []).isSome

end WuffsVerif.WCore.NoRec
