/-
What the NAME of an unchecked I/O built-in (peek_* / poke_* / write_*_fast) says about
the bytes it touches; the specification side of `ioMethodAdvances` (lang/check/bounds.go).
Core Lean only.
-/
namespace WuffsVerif.WCore

/-- the access width in bits that the NAME of an unchecked I/O method states: the number
after the first `_u` (`peek_u56le_as_u64` reads a 56-bit value, `write_u24be_fast`
writes 24 bits) -/
def digitsVal : List Char → Nat → Nat
  | c :: cs, acc => if c.isDigit then digitsVal cs (acc * 10 + (c.toNat - '0'.toNat)) else acc
  | [], acc => acc

/-- the digits that follow the first occurrence of `_u` -/
def widthAfterU : List Char → Option Nat
  | '_' :: 'u' :: c :: cs => if c.isDigit then some (digitsVal (c :: cs) 0) else widthAfterU ('u' :: c :: cs)
  | _ :: cs => widthAfterU cs
  | [] => none

def ioWidthBits (name : String) : Option Nat := widthAfterU name.toList

def startsWithWrite : List Char → Bool
  | 'w' :: 'r' :: 'i' :: 't' :: 'e' :: '_' :: _ => true
  | _ => false

/-- the bytes the checker must demand before the method may be called, and whether the
call consumes them: from the name alone (`none`: the name states no byte width) -/
def ioAdvanceSpec (name : String) : Option (Nat × Bool) :=
  match ioWidthBits name with
  | some w => if w % 8 == 0 then some (w / 8, startsWithWrite name.toList) else none
  | none =>
    if name == "write_simple_token_fast" || name == "write_extended_token_fast" then some (1, true)
    else none

end WuffsVerif.WCore
