/-
WCore, scalar fragment (C01 / C02-facts): typed expressions of Wuffs as the type
checker (lang/check/type.go) leaves them, their ideal-integer value `evalI`, and
the MONITORS `safe` that give "overflow / bad shift / division by zero / bad
conversion" a formal meaning.  Core Lean only.

Expressions are the typed AST restricted to: constants, variables (locals,
`args.x`, `this.f` — all just names with their declared, possibly refined, type),
unary / binary / associative operators, `as`, and elements `a[i]` of fixed-length
arrays of scalars (locals and `this.a`).
-/
import WuffsVerif.Model.Interval

namespace WuffsVerif.WCore
open WuffsVerif.Interval

inductive Base where
  | i8 | i16 | i32 | i64 | u8 | u16 | u32 | u64 | bool | ideal
deriving DecidableEq, Repr, Inhabited

/-- a (possibly refined) numeric type `base.u32[min ..= max]` -/
structure Ty where
  base : Base
  min : Option Int := none
  max : Option Int := none
deriving DecidableEq, Repr, Inhabited

def Base.isUnsigned : Base → Bool
  | .u8 | .u16 | .u32 | .u64 => true
  | _ => false

/-- width in bits of the unsigned / signed integer types -/
def Base.bits : Base → Nat
  | .i8 | .u8 => 8
  | .i16 | .u16 => 16
  | .i32 | .u32 => 32
  | .i64 | .u64 => 64
  | .bool => 1
  | .ideal => 0

/-- `numTypeBounds` of lang/check/bounds.go (regenerated copy: `Gen/C01_Tables.lean`,
tied by `Props.C01.typebounds_table`). -/
def Base.numBounds : Base → Option (Int × Int)
  | .i8 => some (-128, 127)
  | .i16 => some (-32768, 32767)
  | .i32 => some (-2147483648, 2147483647)
  | .i64 => some (-9223372036854775808, 9223372036854775807)
  | .u8 => some (0, 255)
  | .u16 => some (0, 65535)
  | .u32 => some (0, 4294967295)
  | .u64 => some (0, 18446744073709551615)
  | .bool => some (0, 1)
  | .ideal => none

/-- `numShiftBounds` -/
def Base.shiftBounds : Base → Option (Int × Int)
  | .u8 => some (0, 7)
  | .u16 => some (0, 15)
  | .u32 => some (0, 31)
  | .u64 => some (0, 63)
  | _ => none

def minIdeal : Int := -((2 : Int) ^ 1000)
def maxIdeal : Int := (2 : Int) ^ 1000

def Ty.unrefined (t : Ty) : Ty := ⟨t.base, none, none⟩

inductive UOp where
  | pos | neg | not
deriving DecidableEq, Repr, Inhabited

inductive BOp where
  | plus | minus | star | slash | percent | shl | shr | amp | pipe | hat
  | modplus | modminus | modstar | modshl | satplus | satminus
  | ne | lt | le | eq | ge | gt | and | or
  /-- the numeric built-in methods `l.min(no_more_than: r)`, `l.max(no_less_than: r)`,
  `l.low_bits(n: r)`, `l.high_bits(n: r)` (lang/builtin: u8 … u64 only); the receiver is
  the left operand, the argument the right one -/
  | bmin | bmax | lowbits | highbits
deriving DecidableEq, Repr, Inhabited

def BOp.isCmp : BOp → Bool
  | .ne | .lt | .le | .eq | .ge | .gt => true
  | _ => false

/-- the operators that have an `IDXAssociative*` form -/
def BOp.isAssoc : BOp → Bool
  | .plus | .star | .amp | .pipe | .hat | .and | .or => true
  | _ => false

def BOp.isLogic : BOp → Bool
  | .and | .or => true
  | _ => false

/--
`assoc op pre l r` is one step of an associative chain `a0 op a1 op … op an`
(an `IDXAssociative*` node with `Args()`): the chain is nested to the left,
`pre = true` says that `l` is the *prefix* `a0 op … op a(n-1)` of the same node (not
a node of its own: the checker neither refines nor range-checks it), `pre = false`
that `l` is the first argument `a0`.
-/
inductive Expr where
  | const (v : Int)
  | var (name : String) (ty : Ty)
  | unary (op : UOp) (e : Expr)
  | binary (op : BOp) (l r : Expr)
  | as (ty : Ty) (e : Expr)
  | assoc (op : BOp) (pre : Bool) (l r : Expr)
  /-- `arr[i]` where `arr : array[len] ety` is a local or a field `this.arr`
  (IDOpenBracket with an array-typed left-hand side) -/
  | index (arr : String) (len : Nat) (ety : Ty) (i : Expr)
deriving DecidableEq, Repr, Inhabited

/-- `MType()` as lang/check/type.go computes it (tcheckExprUnaryOp / BinaryOp /
AssociativeOp); constants are ideal. -/
def typeOf : Expr → Ty
  | .const _ => ⟨.ideal, none, none⟩
  | .var _ t => t
  | .unary .not _ => ⟨.bool, none, none⟩
  | .unary _ e => (typeOf e).unrefined
  | .binary op l r =>
    if op.isCmp || op.isLogic then ⟨.bool, none, none⟩
    else if (typeOf l).base ≠ .ideal then (typeOf l).unrefined else (typeOf r).unrefined
  | .as t _ => t
  | .assoc op _ l r =>
    if op.isLogic then ⟨.bool, none, none⟩
    else if (typeOf l).base ≠ .ideal then (typeOf l).unrefined else (typeOf r).unrefined
  | .index _ _ ety _ => ety

/-- the type a modular / saturating / shift operator works in -/
def opBase (op : BOp) (l r : Expr) : Base :=
  match op with
  | .shl | .shr | .modshl | .bmin | .bmax | .lowbits | .highbits => (typeOf l).base
  | _ => if (typeOf l).base ≠ .ideal then (typeOf l).base else (typeOf r).base

def b2i (b : Bool) : Int := if b then 1 else 0

/-- bitwise xor of non-negative integers (`^` is only used on those) -/
def ixor (x y : Int) : Int := Int.ofNat (x.toNat ^^^ y.toNat)

/-- value of a binary operator in ideal integers; `tb` is the operation type. -/
def binSem (op : BOp) (tb : Base) (x y : Int) : Int :=
  match op with
  | .plus => x + y
  | .minus => x - y
  | .star => x * y
  | .slash => Int.tdiv x y
  | .percent => Int.tmod x y
  | .shl => x * 2 ^ y.toNat
  | .shr => x / 2 ^ y.toNat
  | .amp => iand x y
  | .pipe => ior x y
  | .hat => ixor x y
  | .modplus => (x + y) % 2 ^ tb.bits
  | .modminus => (x - y) % 2 ^ tb.bits
  | .modstar => (x * y) % 2 ^ tb.bits
  | .modshl => (x * 2 ^ y.toNat) % 2 ^ tb.bits
  | .satplus => match tb.numBounds with
    | some (_, hi) => if x + y > hi then hi else x + y
    | none => x + y
  | .satminus => match tb.numBounds with
    | some (lo, _) => if x - y < lo then lo else x - y
    | none => x - y
  | .ne => b2i (x != y)
  | .lt => b2i (decide (x < y))
  | .le => b2i (decide (x ≤ y))
  | .eq => b2i (x == y)
  | .ge => b2i (decide (x ≥ y))
  | .gt => b2i (decide (x > y))
  | .and => b2i (x != 0 && y != 0)
  | .or => b2i (x != 0 || y != 0)
  | .bmin => if x < y then x else y
  | .bmax => if x > y then x else y
  -- `x & ((1 << n) - 1)` and `x >> (bits - n)` (0 for n = 0) on unsigned `x`
  | .lowbits => x % 2 ^ y.toNat
  | .highbits => x / 2 ^ (tb.bits - y.toNat)

/-- a storage location: a scalar variable, or element `k` of an array -/
inductive Key where
  | sc (n : String)
  | cell (a : String) (k : Int)
deriving DecidableEq, Repr, Inhabited

/-- the variable / array name a location belongs to -/
def Key.name : Key → String
  | .sc n => n
  | .cell a _ => a

/-- the store: a value for every location (cells outside an array's length are
never read by a safe execution) -/
abbrev Env := Key → Int

/-- ideal-integer value (no monitors) -/
def evalI (env : Env) : Expr → Int
  | .const v => v
  | .var n _ => env (.sc n)
  | .unary .pos e => evalI env e
  | .unary .neg e => - evalI env e
  | .unary .not e => b2i (evalI env e == 0)
  | .binary op l r => binSem op (opBase op l r) (evalI env l) (evalI env r)
  | .as _ e => evalI env e
  | .assoc op _ l r => binSem op (opBase op l r) (evalI env l) (evalI env r)
  | .index a _ _ i => env (.cell a (evalI env i))

/-- the value range of a base type (`numTypeBounds`; ±2^1000 for ideal numbers, as
`bcheckTypeExpr1` has it) -/
def Base.range (b : Base) : Int × Int :=
  match b.numBounds with
  | some r => r
  | none => (minIdeal, maxIdeal)

/-- `v` fits the (unrefined) machine type: the monitor of non-modular arithmetic -/
def inNatural (b : Base) (v : Int) : Prop := b.range.1 ≤ v ∧ v ≤ b.range.2

/-- `v` fits the refined type: the monitor of `as`, of stores, arguments, returns -/
def inType (t : Ty) (v : Int) : Prop :=
  inNatural t.base v ∧
  (t.base ≠ .ideal → (∀ m, t.min = some m → m ≤ v) ∧ (∀ m, t.max = some m → v ≤ m))

/-- the operator-specific monitor (operands already evaluated) -/
def opMonitor (op : BOp) (tb : Base) (x y : Int) : Prop :=
  match op with
  | .slash | .percent => y ≠ 0
  | .shl | .shr | .modshl => 0 ≤ y ∧ y < tb.bits
  | .amp | .pipe | .hat => 0 ≤ x ∧ 0 ≤ y
  -- the argument of a built-in fits its parameter type: `n: u32[..= bits - 1]` for
  -- low_bits / high_bits, the receiver's own base type for min / max
  | .lowbits | .highbits => 0 ≤ y ∧ y < tb.bits
  | .bmin | .bmax => inNatural tb y
  | _ => True

/-- is the result of the operator range-checked against the node's type? (not for
the modular and saturating operators, whose results fit by construction) -/
def BOp.resultMonitored : BOp → Bool
  | .modplus | .modminus | .modstar | .modshl | .satplus | .satminus => false
  | _ => true

/--
MONITORS.  `safe env raw e`: evaluating `e` in `env` trips no monitor (for `a[i]`:
`0 ≤ i < len`, the index monitor).  `raw` is
true only for the prefix of an associative chain (no result check there: the
language gives `a + b + c` one range check, on the whole sum).
-/
def safe (env : Env) : Bool → Expr → Prop
  | _, .const _ => True
  | _, .var _ _ => True
  | _, .unary .neg e => safe env false e ∧ inNatural (typeOf (.unary .neg e)).base (- evalI env e)
  | _, .unary _ e => safe env false e
  | _, .binary op l r =>
    safe env false l ∧ safe env false r ∧
    opMonitor op (opBase op l r) (evalI env l) (evalI env r) ∧
    (op.resultMonitored = true →
      inNatural (typeOf (.binary op l r)).base (evalI env (.binary op l r)))
  | _, .as t e => safe env false e ∧ inType t (evalI env e)
  | raw, .assoc op pre l r =>
    safe env pre l ∧ safe env false r ∧
    opMonitor op (opBase op l r) (evalI env l) (evalI env r) ∧
    (raw = false →
      inNatural (typeOf (.assoc op pre l r)).base (evalI env (.assoc op pre l r)))
  | _, .index _ len _ i => safe env false i ∧ 0 ≤ evalI env i ∧ evalI env i < len

/-- every variable holds a value of its declared (refined) type -/
def varsOk (env : Env) : Expr → Prop
  | .const _ => True
  | .var n t => inType t (env (.sc n))
  | .unary _ e => varsOk env e
  | .binary _ l r => varsOk env l ∧ varsOk env r
  | .as _ e => varsOk env e
  | .assoc _ _ l r => varsOk env l ∧ varsOk env r
  | .index a _ ety i => varsOk env i ∧ ∀ k, inType ety (env (.cell a k))

/-- `Expr.Mentions` of lang/ast/eq.go -/
def mentions (n o : Expr) : Bool :=
  n == o ||
  match n with
  | .const _ | .var _ _ => false
  | .unary _ e => mentions e o
  | .binary _ l r => mentions l o || mentions r o
  | .as _ e => mentions e o
  | .assoc _ _ l r => mentions l o || mentions r o
  -- the array operand `arr` / `this.arr` is itself never a store target here
  | .index _ _ _ i => mentions i o

/-- does `e` read an element of the array `a`? -/
def readsArr (e : Expr) (a : String) : Bool :=
  match e with
  | .const _ | .var _ _ => false
  | .unary _ e => readsArr e a
  | .binary _ l r => readsArr l a || readsArr r a
  | .as _ e => readsArr e a
  | .assoc _ _ l r => readsArr l a || readsArr r a
  | .index b _ _ i => b == a || readsArr i a

end WuffsVerif.WCore
