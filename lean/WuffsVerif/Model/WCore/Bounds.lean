/-
WCore bounds checker: mirror of lang/check/bounds.go (`bcheckExpr`, `bcheckExpr1`,
`bcheckExprUnaryOp`, `bcheckExprBinaryOp`/`bcheckExprBinaryOp1`,
`bcheckExprXBinaryMinus`, `bcheckExprAssociativeOp`, `bcheckTypeExpr1`,
`bcheckExprOther` for IDOpenBracket on an array: the index obligations) and of
lang/check/assert.go (`otherHandSide`, `facts.refine`) for the scalar fragment,
over the C06 interval model.  `none` = the checker rejects ("check: …" error).

The rules are those of the REPAIRED checker (fixes/C01-*.patch): `~mod<<` yields
the whole type range when the shift can wrap around.
-/
import WuffsVerif.Model.WCore.Prove

namespace WuffsVerif.WCore
open WuffsVerif.Interval

/-- `numTypeBounds[id]` as an interval -/
def numIR (b : Base) : Option IR :=
  match b.numBounds with
  | some (lo, hi) => some (mkIR lo hi)
  | none => none

/-- lower refinement: "type refinement … is out of bounds" when below the base type -/
def refineLo (lo : Int) : Option Int → Option Int
  | none => some lo
  | some m => if m < lo then none else some m

def refineHi (hi : Int) : Option Int → Option Int
  | none => some hi
  | some m => if m > hi then none else some m

/-- `bcheckTypeExpr1` for numeric (possibly refined), bool and ideal types -/
def typeBounds (t : Ty) : Option IR :=
  match t.base.numBounds with
  | none => some (mkIR minIdeal maxIdeal)
  | some (lo, hi) =>
    match refineLo lo t.min, refineHi hi t.max with
    | some a, some b => some (mkIR a b)
    | _, _ => none

/-- reverse of a comparison (`otherHandSide`) -/
def BOp.reverse : BOp → BOp
  | .lt => .gt
  | .le => .ge
  | .ge => .le
  | .gt => .lt
  | op => op

/-- `otherHandSide(n = x, thisHS = n)` -/
def otherHandSide (x n : Expr) : Option (BOp × Expr) :=
  match x with
  | .binary op l r =>
    if op.isCmp then
      if n == l then some (op, r)
      else if n == r then some (op.reverse, l)
      else none
    else none
  | _ => none

/-- the `switch op` of `facts.refine`: new lower bound, new upper bound, `changed` -/
def refineRes (op : BOp) (lo hi cv : Int) : Int × Int × Bool :=
  match op with
  | .ne => if lo = cv then (lo + 1, hi, true) else if hi = cv then (lo, hi - 1, true) else (lo, hi, false)
  | .lt => if hi ≥ cv then (lo, cv - 1, true) else (lo, hi, false)
  | .le => if hi > cv then (lo, cv, true) else (lo, hi, false)
  | .eq => (cv, cv, true)
  | .ge => if lo < cv then (cv, hi, true) else (lo, hi, false)
  | .gt => if lo ≤ cv then (cv + 1, hi, true) else (lo, hi, false)
  | _ => (lo, hi, false)

/-- one iteration of the loop of `facts.refine`; outer `none` = "inconsistent with fact" -/
def refineStep (n : Expr) (nb : IR) (x : Expr) : Option IR :=
  match otherHandSide x n with
  | some (op, .const cv) =>
    match nb.lo, nb.hi with
    | some lo, some hi =>
      if (refineRes op lo hi cv).2.2 && (refineRes op lo hi cv).1 > (refineRes op lo hi cv).2.1 then none
      else some (mkIR (refineRes op lo hi cv).1 (refineRes op lo hi cv).2.1)
    | _, _ => some nb
  | _ => some nb

/-- `facts.refine` -/
def refine (fs : List Expr) (n : Expr) (nb : IR) : Option IR :=
  fs.foldlM (refineStep n) nb

def imin (a b : Int) : Int := if a < b then a else b
def imax (a b : Int) : Int := if a > b then a else b

/-- the fact loop of `bcheckExprXBinaryMinus` -/
def minusFactStep (l r : Expr) (nb : IR) (x : Expr) : IR :=
  match x with
  | .binary op xl xr =>
    if l == xl && r == xr then
      match op with
      | .lt => ⟨nb.lo, nb.hi.map (imin · (-1))⟩
      | .le => ⟨nb.lo, nb.hi.map (imin · 0)⟩
      | .ge => ⟨nb.lo.map (imax · 0), nb.hi⟩
      | .gt => ⟨nb.lo.map (imax · 1), nb.hi⟩
      | _ => nb
    else nb
  | _ => nb

def minusBounds (fs : List Expr) (l : Expr) (lb : IR) (r : Expr) (rb : IR) : IR :=
  fs.foldl (minusFactStep l r) (sub lb rb)

/-- `IntRange.ContainsIntRange` -/
def containsIR (x y : IR) : Bool :=
  if y.empty then true
  else
    (match x.lo with
     | none => true
     | some a => match y.lo with | none => false | some b => decide (a ≤ b)) &&
    (match x.hi with
     | none => true
     | some a => match y.hi with | none => false | some b => decide (b ≤ a))

/-- `bitMask(nBits)` of bounds.go -/
def bitMaskN (n : Nat) : Int := (2 : Int) ^ n - 1

def loNeg (x : IR) : Bool := match x.lo with | some a => decide (a < 0) | none => true
def loNonPos (x : IR) : Bool := match x.lo with | some a => decide (a ≤ 0) | none => true

/-- `bcheckExprBinaryOp1` after both operand bounds are known -/
def binBounds (fs : List Expr) (op : BOp) (l : Expr) (lb : IR) (r : Expr) (rb : IR) : Option IR :=
  match op with
  | .plus => some (add lb rb)
  | .minus => some (minusBounds fs l lb r rb)
  | .star => some (mul lb rb)
  | .slash =>
    if loNeg lb || loNonPos rb then none else tryQuo lb rb
  | .percent =>
    if loNeg lb || loNonPos rb then none
    else match rb.hi with
      | some h => some (mkIR 0 (h - 1))
      | none => none
  | .shl | .modshl | .shr =>
    match (typeOf l).base.shiftBounds, (typeOf l).base.numBounds with
    | some (slo, shi), some (_, thi) =>
      if !containsIR (mkIR slo shi) rb then none
      else match op with
        | .shl => tryLsh lb rb
        | .shr => tryRsh lb rb
        | _ =>
          match tryLsh lb rb with
          | some nb =>
            (match nb.hi with
             | some h => if h > thi then some (mkIR 0 thi) else some nb
             | none => none)
          | none => none
    | _, _ => none
  | .amp => if loNeg lb || loNeg rb then none else Interval.and lb rb
  | .pipe => if loNeg lb || loNeg rb then none else Interval.or lb rb
  | .hat =>
    if loNeg lb || loNeg rb then none
    else match lb.hi, rb.hi with
      | some a, some b => some (mkIR 0 (bitMaskN (bitLen (imax a b))))
      | _, _ => none
  | .modplus | .modminus | .modstar =>
    let b := opBase op l r
    if b.isUnsigned then numIR b else none
  | .satplus =>
    let b := opBase op l r
    if b.isUnsigned then
      match b.numBounds with
      | some (_, hi) =>
        let nb := add lb rb
        some ⟨nb.lo.map (imin · hi), nb.hi.map (imin · hi)⟩
      | none => none
    else none
  | .satminus =>
    let b := opBase op l r
    if b.isUnsigned then
      match b.numBounds with
      | some (lo, _) =>
        let nb := minusBounds fs l lb r rb
        some ⟨nb.lo.map (imax · lo), nb.hi.map (imax · lo)⟩
      | none => none
    else none
  | .ne | .lt | .le | .eq | .ge | .gt | .and | .or => some (mkIR 0 1)
  -- `bcheckExprCall` (the argument must fit the parameter type — the receiver's base type)
  -- then `bcheckExprCallSpecialCases`, IDMin / IDMax
  | .bmin | .bmax =>
    match (typeOf l).base.shiftBounds, (typeOf l).base.numBounds with
    | some _, some (tlo, thi) =>
      if !containsIR (mkIR tlo thi) rb then none
      else match lb.lo, lb.hi, rb.lo, rb.hi with
        | some a, some b, some c, some d =>
          if op == .bmin then some (mkIR (imin a c) (imin b d)) else some (mkIR (imax a c) (imax b d))
        | _, _, _, _ => none
    | _, _ => none
  -- IDLowBits / IDHighBits: parameter `n: u32[..= bits - 1]`, result `[0, bitMask(max n)]`
  | .lowbits | .highbits =>
    match (typeOf l).base.shiftBounds with
    | some (slo, shi) =>
      if !containsIR (mkIR slo shi) rb then none
      else match rb.hi with
        | some h => some (mkIR 0 (bitMaskN h.toNat))
        | none => none
    | none => none

/-- `bcheckExprUnaryOp` -/
def unaryBounds (op : UOp) (rb : IR) : Option IR :=
  match op with
  | .pos => some rb
  | .neg =>
    match rb.lo, rb.hi with
    | some a, some b => some (mkIR (-b) (-a))
    | _, _ => none
  | .not => some (mkIR 0 1)

/-- the tail of `bcheckExpr`: refine by the facts, then demand containment in the
bounds of the node's type -/
def finish (fs : List Expr) (n : Expr) (nb : IR) : Option IR :=
  match refine fs n nb with
  | none => none
  | some nb =>
    match typeBounds (typeOf n) with
    | none => none
    | some tb =>
      match nb.lo, nb.hi, tb.lo, tb.hi with
      | some a, some b, some c, some d => if a < c || b > d then none else some nb
      | _, _, _, _ => none

/--
`bcheckExpr`.  `raw = true` only for the prefix of an associative chain (then the
result of `bcheckExprBinaryOp1` is passed on without refinement or type check,
exactly as `bcheckExprAssociativeOp` does with its running `lb`).
-/
def bcheck (fs : List Expr) : Bool → Expr → Option IR
  | _, .const v => some (mkIR v v)
  | _, .var n t =>
    match typeBounds t with
    | none => none
    | some tb => finish fs (.var n t) tb
  | _, .unary op e =>
    match bcheck fs false e with
    | none => none
    | some rb =>
      match unaryBounds op rb with
      | none => none
      | some nb => finish fs (.unary op e) nb
  | _, .binary op l r =>
    match bcheck fs false l with
    | none => none
    | some lb =>
      match bcheck fs false r with
      | none => none
      | some rb =>
        match binBounds fs op l lb r rb with
        | none => none
        | some nb => finish fs (.binary op l r) nb
  | _, .as t e =>
    match bcheck fs false e with
    | none => none
    | some b => finish fs (.as t e) b
  | raw, .assoc op pre l r =>
    if !op.isAssoc then none else
    match bcheck fs pre l with
    | none => none
    | some lb =>
      match bcheck fs false r with
      | none => none
      | some rb =>
        match binBounds fs op l lb r rb with
        | none => none
        | some nb => if raw then some nb else finish fs (.assoc op pre l r) nb
  -- `bcheckExprOther`, IDOpenBracket, array-typed operand: the index is checked, then
  -- `0 <= i` (proveReasonRequirement) and `i < length` (…ForRHSLength) must be
  -- provable; the bounds are those of the element type
  | _, .index a len ety i =>
    match bcheck fs false i with
    | none => none
    | some ib =>
      if !proveCore fs .le (.const 0) (mkIR 0 0) i ib then none
      else if !proveLen fs .lt i ib (.const len) (mkIR len len) then none
      else
        match typeBounds ety with
        | none => none
        | some tb => finish fs (.index a len ety i) tb

/-- `proveBinaryOp` at a site where both operands are accepted by `bcheckExpr`
(always so: `bcheckAssert` checks the condition first); `none`: an operand is not -/
def proveBinaryOp (fs : List Expr) (op : BOp) (l r : Expr) : Option Bool :=
  match bcheck fs false l, bcheck fs false r with
  | some lb, some rb => some (proveCore fs op l lb r rb)
  | _, _ => none

/-- `bcheckAssert` for an `assert` without a `via` reason, up to the decision
"proved / cannot prove": the condition is bounds-checked (`none`: rejected there), then
it is a known fact, or the constant `true`, or `proveBinaryOp` proves it. -/
def proveAssert (fs : List Expr) (cond : Expr) : Option Bool :=
  match bcheck fs false cond with
  | none => none
  | some _ =>
    if fs.contains cond then some true
    else
      match cond with
      | .const v => some (v == 1)
      | .binary op l r => proveBinaryOp fs op l r
      | _ => some false

/-- the nodes of `e` in the order the harness lists them (pre-order; the prefixes of
associative chains are not nodes) -/
def nodesPre : Expr → List Expr
  | .const v => [.const v]
  | .var n t => [.var n t]
  | .unary op e => .unary op e :: nodesPre e
  | .binary op l r => .binary op l r :: (nodesPre l ++ nodesPre r)
  | .as t e => .as t e :: nodesPre e
  | .assoc op pre l r =>
    .assoc op pre l r :: ((if pre then (nodesPre l).tail else nodesPre l) ++ nodesPre r)
  | .index a len ety i => .index a len ety i :: nodesPre i

end WuffsVerif.WCore
