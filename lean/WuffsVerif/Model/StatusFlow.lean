/-
C03 — "status flow" of a Wuffs coroutine: the part of a public `foo?` function of std/ that decides
WHICH STATUS the call returns, with everything else abstracted away.

Every public coroutine of std/ that takes an `io_reader` is (with few exceptions) a thin wrapper

```
while true {
    status =? this.do_foo?(…)                                      -- callAssign
    if (status == base."$short read") and args.src.is_closed() {   -- ite (and (eq v shortRead) closed)
        return "#truncated input"                                  -- ret (lit err)
    }
    yield? status                                                  -- yield (var v)
}
```
around a private coroutine.  The property's clause "never a short read on a closed, fully supplied
input" is established by exactly this code and nothing else (the emitted read templates never look at
`closed`: `Props.C03.templates_ignore_closed`).  This file gives the wrapper language a semantics in
which the inner coroutine, every condition we do not understand, and the caller (who chooses `closed`
afresh at every resumption) are an arbitrary *world*, and a checker `check` whose acceptance implies —
`Props/C03Flow.lean` — that NO execution ever hands `$short read` to the caller while `closed` holds.
`harness/cmd/c03` translates every public coroutine of the working tree's std/ into `Stmt` with the
repository's own parser (`Gen/C03_Wrappers.lean`) and drives a compiled probe package against `exec`.

Semantics of the constructs (`internal/cgen/statement.go`, `base/fundamental-private.h`):
* `v =? f?()`   : `v` receives the callee's status whatever it is; no suspension here.
* `f?()` (bare) : `if (status.repr) goto suspend;` — a non-ok callee status IS this call's status; after a
                   suspension the callee is called again.
* `yield? e`    : `COROUTINE_SUSPENSION_POINT_MAYBE_SUSPEND`: ok → `goto ok`, not `$…` → `goto exit`, else
                   suspend and continue behind the yield at the next call.
* `return e`    : errors/ok/notes are returned; a suspension becomes `#cannot return a suspension`.
Core Lean only.
-/
namespace WuffsVerif.StatusFlow

/-- Status classes (doc/note/statuses.md: first byte `$`, `#`, `@`, or NULL). `$short read` is its own
class because it is the one status the clause is about. -/
inductive Cls where
  | ok | note | err | shortRead | otherSusp
  deriving DecidableEq, Repr, Inhabited

/-- A concrete status: the class and, where a class has many members, which one. -/
inductive Status where
  | ok
  | note (id : Nat)
  | err (id : Nat)
  | shortRead
  | susp (id : Nat)
  deriving DecidableEq, Repr, Inhabited

def Status.cls : Status → Cls
  | .ok => .ok
  | .note _ => .note
  | .err _ => .err
  | .shortRead => .shortRead
  | .susp _ => .otherSusp

def Cls.isSusp : Cls → Bool
  | .shortRead => true
  | .otherSusp => true
  | _ => false

def Status.isSusp (s : Status) : Bool := s.cls.isSusp

/-- `#base: cannot return a suspension`. -/
def cannotReturnASuspension : Status := .err 0

abbrev Var := Nat

/-- A status-valued expression. -/
inductive SExpr where
  | lit (s : Status)
  | var (v : Var)
  /-- anything else (a field, the result of a `!` method): any status -/
  | unknown
  deriving Repr, Inhabited

/-- A condition. -/
inductive Cond where
  /-- `v == <status literal>` -/
  | eq (v : Var) (s : Status)
  /-- `v.is_ok()`, `.is_error()`, `.is_suspension()`, `.is_note()`, `.is_complete()`: class ∈ `cs` -/
  | isIn (v : Var) (cs : List Cls)
  /-- `args.src.is_closed()` -/
  | closed
  /-- anything else -/
  | unknown
  | tt
  | not (c : Cond)
  | and (a b : Cond)
  | or (a b : Cond)
  deriving Repr, Inhabited

inductive Stmt where
  /-- a statement without coroutine call, yield, return, and without assignment to a status variable -/
  | skip
  | assign (v : Var) (e : SExpr)
  /-- `v =? callee?(…)` -/
  | callAssign (v : Var)
  /-- a statement containing a coroutine call whose status propagates (`callee?(…)`, `x = src.read_u8?()`) -/
  | callQ
  | ret (e : SExpr)
  | yield (e : SExpr)
  | ite (c : Cond) (t e : Stmt)
  | while (c : Cond) (b : Stmt)
  | seq (a b : Stmt)
  /-- `break` / `continue` out of `d` enclosing loops beyond the innermost -/
  | brk (d : Nat)
  | cont (d : Nat)
  deriving Repr, Inhabited

/-- Everything the wrapper does not control: the callee's answers, opaque conditions and values, and
the caller's behaviour at a resumption (`none` = the caller never calls again; `some c` = calls again
with `closed = c`). -/
structure World (W : Type) where
  call : W → Status × W
  anyStatus : W → Status × W
  anyBool : W → Bool × W
  resume : W → Option (Bool × W)

structure St (W : Type) where
  closed : Bool
  env : Var → Status
  w : W
  /-- what the caller has seen so far: (closed at that call, returned status), newest first -/
  trace : List (Bool × Status)

inductive Outcome where
  | normal
  | brk (d : Nat)
  | cont (d : Nat)
  /-- the function has returned for good -/
  | done
  /-- suspended and never resumed, or out of fuel: the trace so far is a prefix of a longer run -/
  | stuck
  deriving DecidableEq, Repr, Inhabited

variable {W : Type}

def St.set (σ : St W) (v : Var) (s : Status) : St W :=
  { σ with env := fun x => if x = v then s else σ.env x }

def St.emit (σ : St W) (s : Status) : St W := { σ with trace := (σ.closed, s) :: σ.trace }

def evalE (wd : World W) : SExpr → St W → Status × St W
  | .lit s, σ => (s, σ)
  | .var v, σ => (σ.env v, σ)
  | .unknown, σ => let r := wd.anyStatus σ.w; (r.1, { σ with w := r.2 })

def evalC (wd : World W) : Cond → St W → Bool × St W
  | .eq v s, σ => (decide (σ.env v = s), σ)
  | .isIn v cs, σ => (cs.contains (σ.env v).cls, σ)
  | .closed, σ => (σ.closed, σ)
  | .unknown, σ => let r := wd.anyBool σ.w; (r.1, { σ with w := r.2 })
  | .tt, σ => (true, σ)
  | .not c, σ => let r := evalC wd c σ; (!r.1, r.2)
  | .and a b, σ => let r := evalC wd a σ; let q := evalC wd b r.2; (r.1 && q.1, q.2)
  | .or a b, σ => let r := evalC wd a σ; let q := evalC wd b r.2; (r.1 || q.1, q.2)

/-- The caller comes back (or not) after a suspension. -/
def resumeSt (wd : World W) (σ : St W) : Option (St W) :=
  match wd.resume σ.w with
  | none => none
  | some (c, w') => some { σ with closed := c, w := w' }

/-- A bare `callee?()`: repeat { call; ok → go on; not a suspension → that is our status, done;
suspension → that is our status, and at the next call the callee is called again }. -/
def execCallQ (wd : World W) : Nat → St W → Outcome × St W
  | 0, σ => (.stuck, σ)
  | fuel + 1, σ =>
    let r := wd.call σ.w
    let σ1 : St W := { σ with w := r.2 }
    if r.1 = .ok then (.normal, σ1)
    else
      let σ2 := σ1.emit r.1
      if r.1.isSusp then
        match resumeSt wd σ2 with
        | none => (.stuck, σ2)
        | some σ3 => execCallQ wd fuel σ3
      else (.done, σ2)

/-- Big-step execution with fuel; the state carries the trace, so a `stuck` result is a prefix of every
longer run. One `exec` covers the whole life of the coroutine: all calls until it returns for good. -/
def exec (wd : World W) : Nat → Stmt → St W → Outcome × St W
  | 0, _, σ => (.stuck, σ)
  | _ + 1, .skip, σ => (.normal, σ)
  | _ + 1, .assign v e, σ => let r := evalE wd e σ; (.normal, r.2.set v r.1)
  | _ + 1, .callAssign v, σ => let r := wd.call σ.w; (.normal, ({ σ with w := r.2 } : St W).set v r.1)
  | fuel + 1, .callQ, σ => execCallQ wd fuel σ
  | _ + 1, .ret e, σ =>
    let r := evalE wd e σ
    if r.1.isSusp then (.done, r.2.emit cannotReturnASuspension) else (.done, r.2.emit r.1)
  | _ + 1, .yield e, σ =>
    let r := evalE wd e σ
    let σ1 := r.2.emit r.1
    if r.1.isSusp then
      match resumeSt wd σ1 with
      | none => (.stuck, σ1)
      | some σ2 => (.normal, σ2)
    else (.done, σ1)
  | fuel + 1, .ite c t e, σ =>
    let r := evalC wd c σ
    if r.1 then exec wd fuel t r.2 else exec wd fuel e r.2
  | fuel + 1, .while c b, σ =>
    let r := evalC wd c σ
    if r.1 then
      match exec wd fuel b r.2 with
      | (.normal, σ1) => exec wd fuel (.while c b) σ1
      | (.cont 0, σ1) => exec wd fuel (.while c b) σ1
      | (.cont (d + 1), σ1) => (.cont d, σ1)
      | (.brk 0, σ1) => (.normal, σ1)
      | (.brk (d + 1), σ1) => (.brk d, σ1)
      | (.done, σ1) => (.done, σ1)
      | (.stuck, σ1) => (.stuck, σ1)
    else (.normal, r.2)
  | fuel + 1, .seq a b, σ =>
    match exec wd fuel a σ with
    | (.normal, σ1) => exec wd fuel b σ1
    | r => r
  | _ + 1, .brk d, σ => (.brk d, σ)
  | _ + 1, .cont d, σ => (.cont d, σ)

/-! ### The checker: two non-relational abstract environments, one per value of `closed` -/

/-- Which classes a variable may have. -/
abbrev AEnv := Var → Cls → Bool

/-- `t` describes the states with `closed = true`, `f` those with `closed = false`; `none` = no such
state is possible here. -/
structure Abs where
  t : Option AEnv
  f : Option AEnv

def allE : AEnv := fun _ _ => true
def top : Abs := ⟨some allE, some allE⟩
def bot : Abs := ⟨none, none⟩

def AEnv.setV (E : AEnv) (v : Var) (p : Cls → Bool) : AEnv := fun x c => if x = v then p c else E x c
def AEnv.filterV (E : AEnv) (v : Var) (p : Cls → Bool) : AEnv := fun x c => if x = v then (E x c && p c) else E x c

def joinE (a b : AEnv) : AEnv := fun x c => a x c || b x c

def joinO : Option AEnv → Option AEnv → Option AEnv
  | none, b => b
  | a, none => a
  | some a, some b => some (joinE a b)

def join (a b : Abs) : Abs := ⟨joinO a.t b.t, joinO a.f b.f⟩

def Abs.map (A : Abs) (g : AEnv → AEnv) : Abs := ⟨A.t.map g, A.f.map g⟩

/-- Classes an expression may evaluate to. -/
def absE (E : AEnv) : SExpr → Cls → Bool
  | .lit s => fun c => decide (c = s.cls)
  | .var v => E v
  | .unknown => fun _ => true

/-- States of `A` in which `c` evaluates to `b` lie in `refine c b A`. -/
def refine : Cond → Bool → Abs → Abs
  | .eq v s, true, A => A.map (fun E => E.filterV v (fun c => decide (c = s.cls)))
  | .eq v s, false, A =>
    if s = .shortRead ∨ s = .ok then A.map (fun E => E.filterV v (fun c => !decide (c = s.cls))) else A
  | .isIn v cs, b, A => A.map (fun E => E.filterV v (fun c => cs.contains c == b))
  | .closed, true, A => ⟨A.t, none⟩
  | .closed, false, A => ⟨none, A.f⟩
  | .unknown, _, A => A
  | .tt, true, A => A
  | .tt, false, _ => bot
  | .not c, b, A => refine c (!b) A
  | .and a b, true, A => refine b true (refine a true A)
  | .and a b, false, A => join (refine a false A) (refine b false A)
  | .or a b, true, A => join (refine a true A) (refine b true A)
  | .or a b, false, A => refine b false (refine a false A)

/-- What the analysis knows after a suspension was handed out and the caller came back: the variables
keep their values, `closed` is chosen afresh. -/
def afterResume (A : Abs) : Abs := let j := joinO A.t A.f; ⟨j, j⟩

/-- May `yield? e` hand `$short read` to a caller whose source is closed? -/
def yieldOK (A : Abs) (e : SExpr) : Bool :=
  match A.t with
  | none => true
  | some E => !(absE E e .shortRead)

/-- `check s A = some A'`: from states in `A`, no run of `s` hands `$short read` to a caller whose
source is closed, and a run that ends normally ends in `A'`. `none`: not established. Loop heads and loop
exits are `top` (the coarsest invariant; it suffices for every wrapper in std/). -/
def check : Stmt → Abs → Option Abs
  | .skip, A => some A
  | .assign v e, A => some (A.map (fun E => E.setV v (absE E e)))
  | .callAssign v, A => some (A.map (fun E => E.setV v (fun _ => true)))
  | .callQ, A =>
    -- the callee's `$short read` goes straight to the caller, and after a resumption `closed` may hold
    match A.t, A.f with
    | none, none => some bot
    | _, _ => none
  | .ret _, _ => some bot
  | .yield e, A =>
    if yieldOK A e then
      some (afterResume (A.map (fun E =>
        match e with
        | .var v => E.filterV v Cls.isSusp
        | _ => E)))
    else none
  | .ite c t e, A =>
    match check t (refine c true A), check e (refine c false A) with
    | some a, some b => some (join a b)
    | _, _ => none
  | .while c b, _ =>
    match check b (refine c true top) with
    | some _ => some top
    | none => none
  | .seq a b, A =>
    match check a A with
    | some A1 => check b A1
    | none => none
  | .brk _, _ => some bot
  | .cont _, _ => some bot

/-- The verdict for a whole function body: entered in any state. -/
def guarded (s : Stmt) : Bool := (check s top).isSome

/-- The concrete environment `env` is described by `E`. -/
def sat (E : AEnv) (env : Var → Status) : Prop := ∀ v, E v (env v).cls = true

/-- `σ` is described by `A`. -/
def Abs.holds (A : Abs) (σ : St W) : Prop :=
  ∃ E, (if σ.closed then A.t else A.f) = some E ∧ sat E σ.env

/-- The clause: the caller never saw `$short read` while its source was closed. -/
def TraceOK (tr : List (Bool × Status)) : Prop := ∀ e ∈ tr, ¬ (e.1 = true ∧ e.2 = Status.shortRead)

/-! ### Compact text form (op lines, evidence): prefix notation, no spaces

`S` skip · `A<v><e>` assign · `C<v>` callAssign · `Q` callQ · `R<e>` ret · `Y<e>` yield · `I<c><s><s>` ite ·
`W<c><s>` while · `;<s><s>` seq · `B<d>` brk · `K<d>` cont, with `<v>`,`<d>` one decimal digit;
`<e>` = `v<d>` | `u` | status literal `o` `n<d>` `e<d>` `r` ($short read) `s<d>`;
`<c>` = `=<v><lit>` | `i<v><mask digit pair>` | `c` | `?` | `t` | `!<c>` | `&<c><c>` | `|<c><c>`;
the class mask is two digits `00..31`: bit0 ok, bit1 note, bit2 err, bit3 shortRead, bit4 otherSusp. -/

def clsOfMask (m : Nat) : List Cls :=
  (if m % 2 = 1 then [Cls.ok] else []) ++ (if m / 2 % 2 = 1 then [Cls.note] else []) ++
  (if m / 4 % 2 = 1 then [Cls.err] else []) ++ (if m / 8 % 2 = 1 then [Cls.shortRead] else []) ++
  (if m / 16 % 2 = 1 then [Cls.otherSusp] else [])

def digit? (c : Char) : Option Nat := if '0' ≤ c ∧ c ≤ '9' then some (c.toNat - 48) else none

def parseLit : List Char → Option (Status × List Char)
  | 'o' :: r => some (.ok, r)
  | 'r' :: r => some (.shortRead, r)
  | 'n' :: d :: r => (digit? d).map (fun k => (.note k, r))
  | 'e' :: d :: r => (digit? d).map (fun k => (.err k, r))
  | 's' :: d :: r => (digit? d).map (fun k => (.susp k, r))
  | _ => none

def parseE : List Char → Option (SExpr × List Char)
  | 'v' :: d :: r => (digit? d).map (fun k => (.var k, r))
  | 'u' :: r => some (.unknown, r)
  | cs => (parseLit cs).map (fun p => (.lit p.1, p.2))

def parseC : Nat → List Char → Option (Cond × List Char)
  | 0, _ => none
  | fuel + 1, cs =>
    match cs with
    | '=' :: d :: r =>
      match digit? d, parseLit r with
      | some v, some (s, r') => some (.eq v s, r')
      | _, _ => none
    | 'i' :: d :: a :: b :: r =>
      match digit? d, digit? a, digit? b with
      | some v, some x, some y => some (.isIn v (clsOfMask (10 * x + y)), r)
      | _, _, _ => none
    | 'c' :: r => some (.closed, r)
    | '?' :: r => some (.unknown, r)
    | 't' :: r => some (.tt, r)
    | '!' :: r => (parseC fuel r).map (fun p => (.not p.1, p.2))
    | '&' :: r =>
      match parseC fuel r with
      | some (a, r1) => (parseC fuel r1).map (fun p => (.and a p.1, p.2))
      | none => none
    | '|' :: r =>
      match parseC fuel r with
      | some (a, r1) => (parseC fuel r1).map (fun p => (.or a p.1, p.2))
      | none => none
    | _ => none

def parseS : Nat → List Char → Option (Stmt × List Char)
  | 0, _ => none
  | fuel + 1, cs =>
    match cs with
    | 'S' :: r => some (.skip, r)
    | 'A' :: d :: r =>
      match digit? d, parseE r with
      | some v, some (e, r') => some (.assign v e, r')
      | _, _ => none
    | 'C' :: d :: r => (digit? d).map (fun v => (.callAssign v, r))
    | 'Q' :: r => some (.callQ, r)
    | 'R' :: r => (parseE r).map (fun p => (.ret p.1, p.2))
    | 'Y' :: r => (parseE r).map (fun p => (.yield p.1, p.2))
    | 'I' :: r =>
      match parseC fuel r with
      | some (c, r1) =>
        match parseS fuel r1 with
        | some (t, r2) => (parseS fuel r2).map (fun p => (.ite c t p.1, p.2))
        | none => none
      | none => none
    | 'W' :: r =>
      match parseC fuel r with
      | some (c, r1) => (parseS fuel r1).map (fun p => (.while c p.1, p.2))
      | none => none
    | ';' :: r =>
      match parseS fuel r with
      | some (a, r1) => (parseS fuel r1).map (fun p => (.seq a p.1, p.2))
      | none => none
    | 'B' :: d :: r => (digit? d).map (fun k => (.brk k, r))
    | 'K' :: d :: r => (digit? d).map (fun k => (.cont k, r))
    | _ => none

def parseStmt (s : String) : Option Stmt :=
  match parseS (s.length + 1) s.toList with
  | some (st, []) => some st
  | _ => none

end WuffsVerif.StatusFlow
