/-
C07 — SHA-256 written down from FIPS 180-4 (not from the Wuffs source), core Lean only.

  §2.2.2  ROTR, SHR;  §4.1.2  Ch, Maj, Σ0, Σ1, σ0, σ1;
  §4.2.2  K{256}: "the first thirty-two bits of the fractional parts of the cube roots of the first
          sixty-four prime numbers" — COMPUTED here (integer cube root of p·2^96), not typed in;
  §5.3.3  H(0): "… of the square roots of the first eight prime numbers" — computed likewise;
  §5.1.1  padding, §5.2.1 parsing into 512-bit blocks of sixteen big-endian words;
  §6.2.2  message schedule, the 64 rounds, the intermediate hash value.

`Props/C07ShaFips.lean` proves that the mirror of std/sha256 (`StdHash.shaCompress`, with the K and H
tables regenerated from the .wuffs source) equals this specification for every message.
-/
namespace WuffsVerif.Sha256Fips

/-! ## §4.2.2 / §5.3.3: the constants, from the primes -/

/-- trial division -/
def isPrime (n : Nat) : Bool := decide (2 ≤ n) && (List.range' 2 (n - 2)).all (fun d => n % d != 0)

/-- the first sixty-four primes (2 … 311) -/
def primes64 : List Nat := ((List.range 312).filter isPrime).take 64

/-- largest `r < 2^k + r0`-ish with `r^3 ≤ n`: the bits of the root are decided from bit `k-1` down -/
def icbrtGo (n : Nat) : Nat → Nat → Nat
  | 0, r => r
  | k + 1, r => icbrtGo n k (if (r + 2 ^ k) * (r + 2 ^ k) * (r + 2 ^ k) ≤ n then r + 2 ^ k else r)

/-- ⌊n^(1/3)⌋ for `n < 2^120` -/
def icbrt (n : Nat) : Nat := icbrtGo n 40 0

def isqrtGo (n : Nat) : Nat → Nat → Nat
  | 0, r => r
  | k + 1, r => isqrtGo n k (if (r + 2 ^ k) * (r + 2 ^ k) ≤ n then r + 2 ^ k else r)

/-- ⌊√n⌋ for `n < 2^80` -/
def isqrt (n : Nat) : Nat := isqrtGo n 40 0

/-- the first 32 bits of the fractional part of ∛p: ⌊∛p · 2^32⌋ mod 2^32 = ⌊∛(p·2^96)⌋ mod 2^32 -/
def cbrtFrac32 (p : Nat) : Nat := icbrt (p * 2 ^ 96) % 2 ^ 32

/-- the first 32 bits of the fractional part of √p -/
def sqrtFrac32 (p : Nat) : Nat := isqrt (p * 2 ^ 64) % 2 ^ 32

/-- K{256}_0 … K{256}_63 -/
def K : List Nat := primes64.map cbrtFrac32

/-- H(0)_0 … H(0)_7 -/
def H0 : List Nat := (primes64.take 8).map sqrtFrac32

/-! ## §2.2.2, §4.1.2: the functions -/

/-- ROTR^n(x) = (x >> n) ∨ (x << w − n), w = 32 -/
def ROTR (n : Nat) (x : UInt32) : UInt32 := (x >>> UInt32.ofNat n) ||| (x <<< UInt32.ofNat (32 - n))
/-- SHR^n(x) = x >> n -/
def SHR (n : Nat) (x : UInt32) : UInt32 := x >>> UInt32.ofNat n

def Ch (x y z : UInt32) : UInt32 := (x &&& y) ^^^ (~~~x &&& z)
def Maj (x y z : UInt32) : UInt32 := (x &&& y) ^^^ (x &&& z) ^^^ (y &&& z)
def bigSigma0 (x : UInt32) : UInt32 := ROTR 2 x ^^^ ROTR 13 x ^^^ ROTR 22 x
def bigSigma1 (x : UInt32) : UInt32 := ROTR 6 x ^^^ ROTR 11 x ^^^ ROTR 25 x
def smallSigma0 (x : UInt32) : UInt32 := ROTR 7 x ^^^ ROTR 18 x ^^^ SHR 3 x
def smallSigma1 (x : UInt32) : UInt32 := ROTR 17 x ^^^ ROTR 19 x ^^^ SHR 10 x

/-! ## §5.2.1, §6.2.2 -/

/-- the big-endian 32-bit word M_t of a 64-byte block -/
def word (blk : List UInt8) (t : Nat) : UInt32 :=
  UInt32.ofNat ((blk.getD (4 * t) 0).toNat * 2 ^ 24 + (blk.getD (4 * t + 1) 0).toNat * 2 ^ 16 +
    (blk.getD (4 * t + 2) 0).toNat * 2 ^ 8 + (blk.getD (4 * t + 3) 0).toNat)

/-- step 1, one more word: W_t = σ1(W_{t-2}) + W_{t-7} + σ0(W_{t-15}) + W_{t-16}, t = |W| ≥ 16 -/
def schedExtend (W : List UInt32) : List UInt32 :=
  let t := W.length
  W ++ [smallSigma1 (W.getD (t - 2) 0) + W.getD (t - 7) 0 + smallSigma0 (W.getD (t - 15) 0) + W.getD (t - 16) 0]

/-- `f` applied `n` times -/
def iterate {α : Type} (f : α → α) : Nat → α → α
  | 0, a => a
  | n + 1, a => iterate f n (f a)

/-- step 1: W_0 … W_63 -/
def schedule (blk : List UInt8) : List UInt32 :=
  iterate schedExtend 48 ((List.range 16).map (word blk))

/-- the working variables a, b, c, d, e, f, g, h -/
structure Vars where
  a : UInt32
  b : UInt32
  c : UInt32
  d : UInt32
  e : UInt32
  f : UInt32
  g : UInt32
  h : UInt32
deriving DecidableEq, Repr

/-- step 3, round t -/
def round (W : List UInt32) (v : Vars) (t : Nat) : Vars :=
  let T1 := v.h + bigSigma1 v.e + Ch v.e v.f v.g + UInt32.ofNat (K.getD t 0) + W.getD t 0
  let T2 := bigSigma0 v.a + Maj v.a v.b v.c
  { h := v.g, g := v.f, f := v.e, e := v.d + T1, d := v.c, c := v.b, b := v.a, a := T1 + T2 }

/-- §6.2.2 steps 1–4 for one block: H(i) from H(i−1) (eight words) and M(i) (64 bytes) -/
def compress (H : List UInt32) (blk : List UInt8) : List UInt32 :=
  let W := schedule blk
  let v0 : Vars := { a := H.getD 0 0, b := H.getD 1 0, c := H.getD 2 0, d := H.getD 3 0,
                     e := H.getD 4 0, f := H.getD 5 0, g := H.getD 6 0, h := H.getD 7 0 }
  let v := (List.range 64).foldl (round W) v0
  [v.a + H.getD 0 0, v.b + H.getD 1 0, v.c + H.getD 2 0, v.d + H.getD 3 0,
   v.e + H.getD 4 0, v.f + H.getD 5 0, v.g + H.getD 6 0, v.h + H.getD 7 0]

/-- §5.1.1: append the bit 1, k zero bits with l + 1 + k ≡ 448 (mod 512), and l as a 64-bit number
    (messages are byte strings: l = 8·length, the 1 bit and seven zeros are the byte 0x80) -/
def pad (msg : List UInt8) : List UInt8 :=
  let l := 8 * msg.length
  let kBytes := (119 - msg.length % 64) % 64
  msg ++ [0x80] ++ List.replicate kBytes 0 ++
    [56, 48, 40, 32, 24, 16, 8, 0].map (fun sh => UInt8.ofNat ((l % 2 ^ 64) / 2 ^ sh % 256))

/-- fold `compress` over the 64-byte blocks of a padded message (fuel = number of bytes) -/
def blocks : Nat → List UInt32 → List UInt8 → List UInt32
  | 0, H, _ => H
  | fuel + 1, H, m => if m.length < 64 then H else blocks fuel (compress H (m.take 64)) (m.drop 64)

/-- the digest bytes H_0 ‖ … ‖ H_7, big-endian -/
def digestBytes (H : List UInt32) : List UInt8 :=
  H.flatMap (fun w => [24, 16, 8, 0].map (fun sh => UInt8.ofNat (w.toNat / 2 ^ sh % 256)))

/-- **SHA-256** (FIPS 180-4 §6.2) of a byte string shorter than 2^61 bytes. -/
def sha256 (msg : List UInt8) : List UInt8 :=
  let m := pad msg
  digestBytes (blocks m.length (H0.map UInt32.ofNat) m)

end WuffsVerif.Sha256Fips
