/-
C04 — syntax of the C expressions that internal/cgen/expr.go `writeExpr*`
emits for the scalar fragment: operands (holes), `Nu` literals, casts to the
fixed-width unsigned types, the C infix/prefix operators of `cOpNames`, and the
calls `wuffs_base__uN__sat_add/sub`.  Core Lean only.
-/
import WuffsVerif.Model.WOps

namespace WuffsVerif.C
open WuffsVerif.WOps

/-- C types that occur: the `cTypeNames` of the unsigned Wuffs types, `bool`,
and `int` (the result of integer promotion, of comparisons and of `!`). -/
inductive CTy where
  | u8 | u16 | u32 | u64 | bool | int
  deriving DecidableEq, Repr, Inhabited

inductive CBin where
  | add | sub | mul | div | rem | shl | shr | band | bor | bxor
  | lt | le | gt | ge | eq | ne | land | lor
  deriving DecidableEq, Repr, Inhabited

inductive CUn where
  | pos | neg | lnot
  deriving DecidableEq, Repr, Inhabited

inductive CExpr where
  | hole (i : Nat)                       -- i-th operand as written by writeExpr
  | lit (v : Nat)                        -- `<v>u`
  | cast (t : CTy) (e : CExpr)           -- `((T)(e))`
  | bin (op : CBin) (a b : CExpr)        -- `(a op b)`
  | un (op : CUn) (e : CExpr)            -- ` op e`
  | satAdd (t : WTy) (a b : CExpr)       -- `wuffs_base__uN__sat_add(a, b)`
  | satSub (t : WTy) (a b : CExpr)       -- `wuffs_base__uN__sat_sub(a, b)`
  deriving Repr, Inhabited, DecidableEq

/-- A C statement form of writeStatementAssign1 for scalar left-hand sides. -/
inductive CAssign where
  | plain (rhs : CExpr)                      -- `lhs = rhs;`
  | compound (op : CBin) (rhs : CExpr)       -- `lhs op= rhs;`
  | satIndirect (add : Bool) (t : WTy) (rhs : CExpr)
      -- `wuffs_private_impl__uN__sat_add_indirect(&lhs, rhs);`
  deriving Repr, Inhabited, DecidableEq

def CTy.name : CTy → String
  | .u8 => "uint8_t" | .u16 => "uint16_t" | .u32 => "uint32_t" | .u64 => "uint64_t"
  | .bool => "bool" | .int => "int"

def CBin.sym : CBin → String
  | .add => "+" | .sub => "-" | .mul => "*" | .div => "/" | .rem => "%"
  | .shl => "<<" | .shr => ">>" | .band => "&" | .bor => "|" | .bxor => "^"
  | .lt => "<" | .le => "<=" | .gt => ">" | .ge => ">=" | .eq => "==" | .ne => "!="
  | .land => "&&" | .lor => "||"

def CUn.sym : CUn → String
  | .pos => "pos" | .neg => "neg" | .lnot => "not"

def holeName (i : Nat) : String :=
  match i with
  | 0 => "x" | 1 => "y" | 2 => "z" | 3 => "w" | n => s!"h{n}"

/-- Canonical prefix rendering, compared with what the harness's C-expression
reader produces from the emitted text (parentheses carry no information). -/
def CExpr.show : CExpr → String
  | .hole i => holeName i
  | .lit v => toString v
  | .cast t e => s!"(cast {t.name} {e.show})"
  | .bin op a b => s!"({op.sym} {a.show} {b.show})"
  | .un op e => s!"({op.sym} {e.show})"
  | .satAdd t a b => s!"(call wuffs_base__u{t.bits}__sat_add {a.show} {b.show})"
  | .satSub t a b => s!"(call wuffs_base__u{t.bits}__sat_sub {a.show} {b.show})"

def CAssign.show : CAssign → String
  | .plain r => s!"(assign = v {r.show})"
  | .compound op r => s!"(assign {op.sym}= v {r.show})"
  | .satIndirect add t r =>
    let f := if add then "add" else "sub"
    s!"(call wuffs_private_impl__u{t.bits}__sat_{f}_indirect (addr v) {r.show})"

end WuffsVerif.C
