/-
Model of /repo/lib/dumbindent/dumbindent.go (C12, the C indenter), function by
function, for the REPAIRED algorithm (fixes/C12-dumbindent-stale-line.patch:
`handleRaw` also returns the new `src`, and `lineLength` is recomputed, so the
slice arithmetic `src[lineLength-len(restOfLine):]` stays valid after a raw
string / slash-star comment that spans lines).  Core Lean only.

Representation.  Go slices `line`, `remaining` of one backing array become
lists.  The pair (`line`, `remaining`) is kept as (`line`, `tail`) where `tail`
is what follows `line` in `src` *including* the '\n' (so `remaining =
tail.drop 1`, and `src[lineLength-len(restOfLine):] = restOfLine ++ tail`).
The inner `for i, c := range line` is `scan`: `pend` holds `line[:i]` reversed,
`rest` is `line[i:]`.  All loops take fuel and return `none` when it runs out;
`Props/C12.lean` proves that `length + 1` is always enough (`indent_terminates`).
-/
namespace WuffsVerif.Indent

abbrev Bytes := List UInt8

def NL : UInt8 := 10
def SP : UInt8 := 32
def TAB : UInt8 := 9
def BSLASH : UInt8 := 92
def HASH : UInt8 := 35
def LBRACE : UInt8 := 123
def RBRACE : UInt8 := 125
def LPAREN : UInt8 := 40
def RPAREN : UInt8 := 41
def SLASH : UInt8 := 47
def STAR : UInt8 := 42
def DQUOTE : UInt8 := 34
def SQUOTE : UInt8 := 39
def BTICK : UInt8 := 96
def EQ : UInt8 := 61

/-- `"*/"` -/
def starSlash : Bytes := [STAR, SLASH]
/-- "`" -/
def backTick : Bytes := [BTICK]
/-- `"extern "` -/
def extern : Bytes := [101, 120, 116, 101, 114, 110, 32]
/-- `"namespace "` -/
def namespace_ : Bytes := [110, 97, 109, 101, 115, 112, 97, 99, 101, 32]

/-- `Options` (`Spaces int`, `Tabs bool`). -/
structure Opts where
  tabs : Bool
  spaces : Int
deriving DecidableEq, Repr, Inhabited

/-- `indentBytes[0]` -/
def Opts.indentByte (o : Opts) : UInt8 := if o.tabs then TAB else SP

/-- `indentCount` -/
def Opts.indentCount (o : Opts) : Nat :=
  if o.tabs then 1 else if o.spaces > 0 then o.spaces.toNat else 2

/-- space or tab -/
def isWs (b : UInt8) : Bool := b == SP || b == TAB

/-- `hangingBytes[b]` -/
def hangingByte (b : UInt8) : Bool := b == EQ || b == BSLASH

/-- `countInitialOccurrences` -/
def countInitial (x : UInt8) : Bytes → Nat
  | [] => 0
  | c :: cs => if c == x then countInitial x cs + 1 else 0

/-- `trimLeadingWhiteSpaceAndNewLines` -/
def trimLeadingWsNl (s : Bytes) : Bytes := s.dropWhile (fun b => isWs b || b == NL)

/-- `trimLeadingWhiteSpace` -/
def trimLeadingWs (s : Bytes) : Bytes := s.dropWhile isWs

/-- `trimTrailingWhiteSpace` -/
def trimTrailingWs (s : Bytes) : Bytes := (s.reverse.dropWhile isWs).reverse

/-- `lastNonWhiteSpace` (0 if there is none) -/
def lastNonWsRev : Bytes → UInt8
  | [] => 0
  | x :: xs => if isWs x then lastNonWsRev xs else x

def lastNonWs (s : Bytes) : UInt8 := lastNonWsRev s.reverse

/-- `skipCooked`: the suffix after the closing quote (`[]` for Go's nil). -/
def skipCooked (quote : UInt8) : Bytes → Bytes
  | [] => []
  | [_] => []   -- the closing quote as last byte: `s[i+1:]` is empty; anything else: nil
  | x :: y :: ys =>
    if x == quote then y :: ys
    else if x != BSLASH then skipCooked quote (y :: ys)
    else skipCooked quote ys

/-- The search + copy of `handleRaw`: (`restOfSrc[:end]`, `restOfSrc[end:]`) where
`end` is just after the first occurrence of `q` (or `len(restOfSrc)` if none). -/
def splitRaw (q : Bytes) : Bytes → Bytes × Bytes
  | [] => ([], [])
  | x :: xs =>
    if q.isPrefixOf (x :: xs) then (q, (x :: xs).drop q.length)
    else let r := splitRaw q xs; (x :: r.1, r.2)

/-- `line, remaining = src, nil; if i := IndexByte(line, '\n') …` as (`line`, `tail`),
`tail` starting at the '\n' if there is one. -/
def splitLine (s : Bytes) : Bytes × Bytes := (s.takeWhile (· != NL), s.dropWhile (· != NL))

/-- `hasPrefixAndBrace` -/
def hasPrefixAndBrace (line pre : Bytes) : Bool :=
  pre.isPrefixOf line && (line.drop pre.length).contains LBRACE

/-- `for ; closeBraces < len(line) && line[closeBraces] == '}'; closeBraces++` -/
def countCloseBraces (line : Bytes) : Nat := countInitial RBRACE line

/-- State of `FormatBytes` between lines. -/
structure St where
  nBlank : Nat
  nBraces : Int
  nParens : Int
  hanging : Bool
  preproc : Bool
deriving DecidableEq, Repr, Inhabited

/-- What the `loop:` of `FormatBytes` leaves behind. -/
structure ScanOut where
  out : Bytes      -- appended to dst inside the loop
  line : Bytes     -- final value of `line`
  tail : Bytes     -- '\n' :: remaining, or []
  nBraces : Int
  nParens : Int
  last : UInt8
  closed : Bool    -- ghost (not in the Go code): every `handleRaw` search found its end quote
deriving DecidableEq, Repr, Inhabited

/-- does `q` occur in `s`, i.e. does `handleRaw`'s `bytes.Index` find the end quote? (ghost) -/
def rawFound (q : Bytes) : Bytes → Bool
  | [] => false
  | x :: xs => q.isPrefixOf (x :: xs) || rawFound q xs

/-- The labelled `loop:` with its inner `for i, c := range line`. -/
def scan : Nat → Int → Int → UInt8 → Bool → Bytes → Bytes → Bytes → Bytes → Option ScanOut
  | 0, _, _, _, _, _, _, _, _ => none
  | _ + 1, nB, nP, last, clo, out, pend, [], tail =>
    some ⟨out, pend.reverse, tail, nB, nP, last, clo⟩
  | f + 1, nB, nP, last, clo, out, pend, c :: cs, tail =>
    if c == LBRACE then scan f (nB + 1) nP last clo out (c :: pend) cs tail
    else if c == RBRACE then scan f (nB - 1) nP last clo out (c :: pend) cs tail
    else if c == LPAREN then scan f nB (nP + 1) last clo out (c :: pend) cs tail
    else if c == RPAREN then scan f nB (nP - 1) last clo out (c :: pend) cs tail
    else if c == SLASH then
      match cs with
      | [] => scan f nB nP last clo out (c :: pend) cs tail
      | d :: ds =>
        if d == SLASH then
          -- slash-slash comment: `last = lastNonWhiteSpace(line[:i]); break loop`
          some ⟨out, pend.reverse ++ c :: cs, tail, nB, nP, lastNonWsRev pend, clo⟩
        else if d == STAR then
          -- slash-star comment: copy up to and including "*/", re-split the line
          let r := splitRaw starSlash (ds ++ tail)
          let lt := splitLine r.2
          scan f nB nP (lastNonWs lt.1) (clo && rawFound starSlash (ds ++ tail))
            (out ++ (pend.reverse ++ c :: d :: r.1)) [] lt.1 lt.2
        else scan f nB nP last clo out (c :: pend) cs tail
    else if c == DQUOTE || c == SQUOTE then
      -- cooked string: `dst = append(dst, line[:len(line)-len(suffix)]...); line = suffix`
      let suffix := skipCooked c cs
      scan f nB nP last clo (out ++ (pend.reverse ++ c :: cs.take (cs.length - suffix.length))) [] suffix tail
    else if c == BTICK then
      let r := splitRaw backTick (cs ++ tail)
      let lt := splitLine r.2
      scan f nB nP (lastNonWs lt.1) (clo && rawFound backTick (cs ++ tail))
        (out ++ (pend.reverse ++ c :: r.1)) [] lt.1 lt.2
    else scan f nB nP last clo out (c :: pend) cs tail

/-- Body of the outer loop for a preprocessor line (`if preproc || (line[0] == '#')`):
the text appended to dst (after the pending blank lines) and the new state. -/
def preprocLine (o : Opts) (ii : Nat) (st : St) (line : Bytes) : Bytes × St :=
  let indent := ii + (if st.preproc then o.indentCount * 2 else 0)
  let line' := trimTrailingWs line
  (List.replicate indent o.indentByte ++ (line' ++ [NL]),
   { st with nBlank := 0, hanging := false, preproc := lastNonWs line' == BSLASH })

/-- The `extern "C" {` / `namespace foo {` test on a non-empty line. -/
def isExternOrNamespace (line : Bytes) : Bool :=
  (line.head? == some 101 && hasPrefixAndBrace line extern) ||
  (line.head? == some 110 && hasPrefixAndBrace line namespace_)

/-- `closeBraces` (number of leading '}' that are output before the scan). -/
def closeBracesOf (line : Bytes) : Nat :=
  if isExternOrNamespace line then 0 else countCloseBraces line

/-- `nBraces` after the extern/namespace rule or the leading '}'s (clamped at 0). -/
def nBracesAtLineStart (st : St) (line : Bytes) : Int :=
  if isExternOrNamespace line then st.nBraces - 1
  else if st.nBraces - (countCloseBraces line : Nat) < 0 then 0 else st.nBraces - (countCloseBraces line : Nat)

/-- "Output indentation": the number of indent bytes of a code line. -/
def codeIndent (o : Opts) (ii : Nat) (st : St) (nB : Int) : Nat :=
  ii + (if nB > 0 then o.indentCount * nB.toNat else 0)
     + (if st.nParens > 0 || st.hanging then o.indentCount * 2 else 0)

/-- Body of the outer loop for a code line: the text appended to dst (after the
pending blank lines), the new state, and the new `tail` ('\n' :: remaining, or []). -/
def codeLine (o : Opts) (ii : Nat) (st : St) (line tail : Bytes) : Option (Bytes × St × Bytes) :=
  let cb := closeBracesOf line
  let nB := nBracesAtLineStart st line
  let line1 := line.drop cb
  match scan (line1.length + tail.length + 1) nB st.nParens (lastNonWs line1) true [] [] line1 tail with
  | none => none
  | some r =>
    some (List.replicate (codeIndent o ii st nB) o.indentByte ++
            (line.take cb ++ (r.out ++ (trimTrailingWs r.line ++ [NL]))),
          { nBlank := 0, nBraces := r.nBraces, nParens := r.nParens,
            hanging := hangingByte r.last, preproc := false },
          r.tail)

/-- The outer `for … len(src) > 0; src = remaining` of `FormatBytes`; returns what
is appended to `dst` from here on.  `ii` = `initialIndent`. -/
def loop (o : Opts) (ii : Nat) : Nat → St → Bytes → Option Bytes
  | 0, _, _ => none
  | f + 1, st, src0 =>
    if src0.isEmpty then some [] else
    let lt := splitLine (trimLeadingWs src0)
    match lt.1 with
    | [] => loop o ii f { st with nBlank := st.nBlank + 1 } (lt.2.drop 1)
    | c0 :: l =>
      if st.preproc || c0 == HASH then
        let p := preprocLine o ii st (c0 :: l)
        (loop o ii f p.2 (lt.2.drop 1)).map (fun r => List.replicate st.nBlank NL ++ (p.1 ++ r))
      else
        match codeLine o ii st (c0 :: l) lt.2 with
        | none => none
        | some x => (loop o ii f x.2.1 (x.2.2.drop 1)).map (fun r => List.replicate st.nBlank NL ++ (x.1 ++ r))

/-- `FormatBytes(nil, src, opts)` with explicit fuel. -/
def formatFuel (fuel : Nat) (o : Opts) (src : Bytes) : Option Bytes :=
  let ii := countInitial o.indentByte src
  let s := trimLeadingWsNl src
  if s.isEmpty then some [] else loop o ii fuel ⟨0, 0, 0, false, false⟩ s

/-- `FormatBytes(nil, src, opts)`. -/
def format (o : Opts) (src : Bytes) : Bytes := (formatFuel (src.length + 1) o src).getD []

/-! ### ghost definitions (not in the Go code): lexical closedness as the indenter sees it -/

/-- ghost: every raw search of this line's scan found its end quote -/
def codeLineClosed (st : St) (line tail : Bytes) : Bool :=
  let line1 := line.drop (closeBracesOf line)
  match scan (line1.length + tail.length + 1) (nBracesAtLineStart st line) st.nParens (lastNonWs line1) true [] [] line1 tail with
  | some r => r.closed
  | none => true

/-- ghost: every raw search of the run found its end quote (the text is lexically closed as far
as raw strings and slash-star comments go; an unterminated "…" or '…' just ends with its line) -/
def loopClosed (o : Opts) (ii : Nat) : Nat → St → Bytes → Bool
  | 0, _, _ => true
  | f + 1, st, src0 =>
    if src0.isEmpty then true else
    let lt := splitLine (trimLeadingWs src0)
    match lt.1 with
    | [] => loopClosed o ii f { st with nBlank := st.nBlank + 1 } (lt.2.drop 1)
    | c0 :: l =>
      if st.preproc || c0 == HASH then loopClosed o ii f (preprocLine o ii st (c0 :: l)).2 (lt.2.drop 1)
      else
        match codeLine o ii st (c0 :: l) lt.2 with
        | none => true
        | some x => codeLineClosed st (c0 :: l) lt.2 && loopClosed o ii f x.2.1 (x.2.2.drop 1)

def st0 : St := ⟨0, 0, 0, false, false⟩


/-- Lexical closedness as the indenter sees it: during `format o s`, every search for the end
of a raw string (back-tick) or of a slash-star comment finds it.  (Ghost flag of the model;
unterminated "…" / '…' need no hypothesis.) -/
def lexClosed (o : Opts) (s : Bytes) : Bool :=
  loopClosed o (countInitial o.indentByte s) (s.length + 1) st0 (trimLeadingWsNl s)

end WuffsVerif.Indent
