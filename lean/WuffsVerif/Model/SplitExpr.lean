/-
C05 — the little expression language in which /repo/internal/cgen/verif_export_c05.go describes
what each expression occurrence of a coroutine of fragment F3s does, and its translation to the
operations of `Model/SplitRun.lean`. With it the driver runs a real (generated or hand-written)
Wuffs coroutine — its abstract body as the liveness analysis sees it, plus these descriptions —
under any chunking, saving only `resumables`, next to the compiled C.

Values are `Nat`s; the unsigned integer types of Wuffs only matter for the `~mod` operators, which
carry their width. `as` between unsigned integer types is the identity and is not represented.

Core Lean only.
-/
import WuffsVerif.Model.SplitRun

namespace WuffsVerif.Split
open WuffsVerif.Liveness WuffsVerif.Scratch

inductive BOp where
  | add | sub | mul | madd | msub | mmul | mshl | shl | shr | band | bor | bxor
  | lt | le | gt | ge | eq | ne | land | lor
  deriving Repr, DecidableEq, Inhabited

def b2n (b : Bool) : Nat := if b then 1 else 0

/-- `a op b` at width `w` (bits). -/
def BOp.eval (op : BOp) (w a b : Nat) : Nat :=
  match op with
  | .add => a + b
  | .sub => a - b
  | .mul => a * b
  | .madd => (a + b) % 2 ^ w
  | .msub => (a + 2 ^ w - b % 2 ^ w) % 2 ^ w
  | .mmul => (a * b) % 2 ^ w
  | .mshl => (a <<< b) % 2 ^ w
  | .shl => a <<< b
  | .shr => a >>> b
  | .band => a &&& b
  | .bor => a ||| b
  | .bxor => a ^^^ b
  | .lt => b2n (a < b)
  | .le => b2n (a ≤ b)
  | .gt => b2n (a > b)
  | .ge => b2n (a ≥ b)
  | .eq => b2n (a == b)
  | .ne => b2n (a != b)
  | .land => b2n (a != 0 && b != 0)
  | .lor => b2n (a != 0 || b != 0)

inductive WExpr where
  | const (k : Nat)
  | var (i : Nat)
  | field (i : Nat)
  /-- `args.…`: the `i`-th argument that is not an I/O stream -/
  | arg (i : Nat)
  | bin (op : BOp) (w : Nat) (a b : WExpr)
  deriving Repr, Inhabited

/-- `env i` is the value of local `i`, `args` the values of the function's arguments. -/
def WExpr.eval (fields args : List Nat) (env : Nat → Nat) : WExpr → Nat
  | .const k => k
  | .var i => env i
  | .field i => fields.getD i 0
  | .arg i => args.getD i 0
  | .bin op w a b => op.eval w (a.eval fields args env) (b.eval fields args env)

/-- The locals an occurrence mentions (`Ex.vars`) and their values, as an environment. -/
def envOf (vars vals : List Nat) (i : Nat) : Nat :=
  match (vars.zip vals).find? (fun p => p.1 == i) with
  | some p => p.2
  | none => 0

/-- What the hook says about an occurrence. -/
inductive OpDesc where
  | pure (e : WExpr)
  | store (i : Nat) (op : Option BOp) (w : Nat)
  | rd (m : RdMethod)
  | skip (e : WExpr)
  | skip1
  | wr (e : WExpr)
  | yieldSR
  | yieldSW
  /-- `this.<name>?(…)`: a nested coroutine call with these (non-I/O) argument expressions -/
  | call (name : String) (args : List WExpr)
  deriving Repr, Inhabited

mutual
/-- The expression occurrences of a statement (to know which locals a tag mentions). -/
def stmtExs : Stmt → List Ex
  | .assign _ lhs rhs => rhs :: (match lhs with | .expr e => [e] | _ => [])
  | .expr e => [e]
  | .iomanip io a1 hp b => io :: (a1.toList ++ hp.toList ++ blockExs b)
  | .ite c t e => c :: (blockExs t ++ blockExs e)
  | .jump _ _ => []
  | .ret _ e => [e]
  | .var _ => []
  | .while _ c b => c :: blockExs b
def blockExs : List Stmt → List Ex
  | [] => []
  | s :: r => stmtExs s ++ blockExs r
end

/-- A described coroutine. -/
structure SProg where
  nvars : Nat
  body : List Stmt
  ops : List (Nat × OpDesc)            -- tag ↦ description
  combs : List (Nat × BOp × Nat)       -- tag of the right-hand side ↦ operator and width of `op=`
  statuses : List String               -- value of a returned status ↦ its name (package-wide)
  /-- `resumables nvars body`, computed once when the coroutine is loaded -/
  rs : List Nat

/-- The saved set from a precomputed list of resumable variables (`savedSet` of Props/C05.lean is
`savedSetOf (resumables n body) n`). -/
def savedSetOf (rs : List Nat) (n : Nat) : Nat → Bool := fun v => decide (v ∈ rs) || decide (n ≤ v)

def SProg.comb (p : SProg) : Nat → Nat → Nat → Nat :=
  fun t old v =>
    match p.combs.find? (fun q => q.1 == t) with
    | some q => q.2.1.eval q.2.2 old v
    | none => v

/-- The interpretation of a described coroutine called with `args`, given the coroutines it may
call (`tbl`); `depth` bounds the nesting of calls (Wuffs has no recursion) and `fuel` is what a
callee's body is run with. -/
def SProg.interpD (tbl : List (String × SProg)) (fuel : Nat) : Nat → SProg → List Nat → Nat → COp
  | 0, _, _, _ => .pure (fun _ _ => 0)
  | depth + 1, p, args, t =>
    match p.ops.find? (fun q => q.1 == t) with
    | none => .pure (fun _ _ => 0)
    | some q =>
      let vars := match (blockExs p.body).find? (fun e => e.tag == t) with | some e => e.vars | none => []
      match q.2 with
      | .pure e => .pure (fun fields vals => e.eval fields args (envOf vars vals))
      | .store i op w => .store i (fun old v => match op with | none => v | some o => o.eval w old v)
      | .rd m => .rd m
      | .skip e => .skip (fun fields vals => e.eval fields args (envOf vars vals))
      | .skip1 => .skip1
      | .wr e => .wr (fun fields vals => e.eval fields args (envOf vars vals))
      | .yieldSR => .yieldSR
      | .yieldSW => .yieldSW
      | .call name aes =>
        match tbl.find? (fun c => c.1 == name) with
        | none => .pure (fun _ _ => 0)
        | some c =>
          .ext ((callExt (savedSetOf c.2.rs c.2.nvars) c.2.body
              (fun cargs => SProg.interpD tbl fuel depth c.2 cargs) c.2.comb fuel).mapArgs
            (fun fields vals => aes.map (fun ae => ae.eval fields args (envOf vars vals))))

/-- What the C driver (harness/cmd/c05/cprobe.go) prints, from the model's run: final status,
output bytes, consumed count, the two fields, number of suspensions. -/
structure SplitOut where
  status : String
  out : List UInt8
  consumed : Nat
  acc : Nat
  g1 : Nat
  susp : Nat

def SProg.runOnce (p : SProg) (tbl : List (String × SProg)) (fuel : Nat) (srcSizes dstSizes : List Nat)
    (bs : List UInt8) : Res CW :=
  run (savedSetOf p.rs p.nvars) (chunkCfg (SProg.interpD tbl fuel 8 p []) p.comb) fuel (Task.block p.body)
    ⟨fun _ => 0, initCW srcSizes dstSizes bs, []⟩

/-- Run with the first of the given fuels that is enough: the run completed, or it starved (the
world is then frozen: more fuel changes nothing that is printed). -/
def SProg.runFuels (p : SProg) (tbl : List (String × SProg)) (srcSizes dstSizes : List Nat) (bs : List UInt8) :
    List Nat → Nat → Res CW
  | [], last => p.runOnce tbl last srcSizes dstSizes bs
  | f :: more, last =>
    let r := p.runOnce tbl f srcSizes dstSizes bs
    if r.out != Out.stop || r.st.w.mem.dead then r else p.runFuels tbl srcSizes dstSizes bs more last

def SProg.runChunked (p : SProg) (tbl : List (String × SProg)) (srcSizes dstSizes : List Nat)
    (bs : List UInt8) : SplitOut :=
  let r := p.runFuels tbl srcSizes dstSizes bs [150, 600, 2400] 9600
  let w := r.st.w
  let status :=
    if w.mem.dead then (if w.mem.code == 0 then "$short_read" else p.statuses.getD w.mem.code "status?")
    else match r.out with
      | Out.ret => p.statuses.getD w.mem.last "status?"
      | Out.norm => "ok"
      | Out.stop => "fuel"
      | _ => "jump?"
  -- every suspension the driver sees while the coroutine is alive: inside reads and skips,
  -- inside writes, and yields
  ⟨status, w.dst.out, w.src.consumed, w.mem.field 0, w.mem.field 1,
    w.src.susp + w.wsusp + w.mem.nyield⟩

end WuffsVerif.Split
