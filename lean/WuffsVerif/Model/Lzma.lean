/-
Model of /repo/lib/litonlylzma/litonlylzma.go (literal-only LZMA / XZ), function by function.
Core Lean only.  Written ONCE over `Nat` (fixed-width Go arithmetic made explicit with `&&& 0xFFFFFFFF`
where the Go code can truncate), `UInt8` bytes, `Array` for `append`-style outputs and the probability
tables, `List UInt8` for the `src = src[1:]`-style inputs.  The same definitions are compiled into the
driver `wv_c17` and used by the theorems in `Props/C17.lean` (no separate "fast" copy).

Modelling decisions (each is a representation choice, not a behaviour change):
* `dst` parameters: every Go function appends to a caller-supplied `dst`; the model functions take the
  same `dst : Array UInt8` and return the extended array.  `FileFormat.Encode/Decode` are called by the
  harness with `dst = nil`.
* `litProbs [8]byteProbs` is one flat `Array Nat` of 8·256 entries, entry `ctx*256 + index`;
  `posProbs [4]prob` is an `Array Nat` of 4.  `prob` values are `Nat`s (Go: `uint16`); they stay in
  `[31, 2017]` (theorem `prob_range`), so the `uint16` subtraction `maxProb - *p` never wraps and
  truncated `Nat` subtraction is exact.
* `rangeEncoder.low : uint64` is a `Nat` (< 2^33 always, see `Props/C17.lean`), `pendingExtra : uint64`
  a `Nat` (one increment per output byte; 2^64 is unreachable).
* `x << k` on `Nat` is written `x * 2^k`, and truncation to `uint32` as `&&& 0xFFFFFFFF` (= `% 2^32`):
  the Lean runtime's `Nat.shiftLeft` always takes the big-number path and literals >= 2^32 are re-parsed
  at every use, the product and the mask are scalar operations.
* `crc32.ChecksumIEEE` is `crc32` below (reflected table-driven CRC-32, polynomial 0xEDB88320).
* errors are the enum `Err`.
* the decoder's chunk loop `for { … }` gets `fuel = len(src) + 1`; theorem `xz_chunk_loop_fuel_irrelevant`
  shows the fuel never runs out (every round consumes a byte).  `decodeByte`'s `for index < 0x100` and
  `encodeByte`'s `for i := 7; i >= 0; i--` are the 8-round recursions `decodeByteLoop`/`encodeByteLoop`.
-/
namespace WuffsVerif.Lzma

/-! ## byte-string helpers -/

/-- `n` further copies of `b` (the `for ; rEnc.pendingExtra > 0; rEnc.pendingExtra--` loops and the
    zero-padding loops). -/
def pushN (dst : Array UInt8) (b : UInt8) : Nat → Array UInt8
  | 0 => dst
  | n + 1 => pushN (dst.push b) b n

/-- `dst = append(dst, xs...)` -/
def pushList (dst : Array UInt8) : List UInt8 → Array UInt8
  | [] => dst
  | x :: xs => pushList (dst.push x) xs

/-! ## CRC-32 (hash/crc32 ChecksumIEEE) -/

def crcTableEntry (n : Nat) : UInt32 := Id.run do
  let mut c : UInt32 := n.toUInt32
  for _ in [0:8] do
    c := if c &&& 1 == 1 then (c >>> 1) ^^^ 0xEDB88320 else c >>> 1
  return c

def crcTable : Array UInt32 := (Array.range 256).map crcTableEntry

def crcUpdate (c : UInt32) (b : UInt8) : UInt32 :=
  (crcTable.getD ((c ^^^ b.toUInt32) &&& 0xFF).toNat 0) ^^^ (c >>> 8)

def crc32 (bs : List UInt8) : UInt32 := (bs.foldl crcUpdate 0xFFFFFFFF) ^^^ 0xFFFFFFFF

/-- `crc32.ChecksumIEEE(dst[start:])` -/
def crc32Arr (bs : Array UInt8) (start : Nat := 0) : UInt32 := crc32 (bs.toList.drop start)

/-- the four `uint8(checksum>>0), uint8(checksum>>8), …` bytes -/
def le32 (c : UInt32) : List UInt8 :=
  [c.toUInt8, (c >>> 8).toUInt8, (c >>> 16).toUInt8, (c >>> 24).toUInt8]

/-! ## constants -/

def lc : Nat := 3
def lp : Nat := 0
def pb : Nat := 2
def lpMask : Nat := (1 <<< lp) - 1
def pbMask : Nat := (1 <<< pb) - 1

/-- `lzmaHeader5` -/
def lzmaHeader5 : List UInt8 := [0x5D, 0x00, 0x10, 0x00, 0x00]

/-- `xzHeader24` -/
def xzHeader24 : List UInt8 :=
  [0xFD, 0x37, 0x7A, 0x58, 0x5A, 0x00,
   0x00, 0x01,
   0x69, 0x22, 0xDE, 0x36,
   0x02, 0x00, 0x21, 0x01, 0x00, 0x00, 0x00, 0x00,
   0x37, 0x27, 0x97, 0xD6]

inductive Err where
  | ok | invalidLZMA | unsupportedLZMA | invalidXz | unsupportedXz | unexpectedEOF
  deriving DecidableEq, Repr, Inhabited

def Err.toString : Err → String
  | .ok => "ok"
  | .invalidLZMA => "invalid-lzma"
  | .unsupportedLZMA => "unsupported-lzma"
  | .invalidXz => "invalid-xz"
  | .unsupportedXz => "unsupported-xz"
  | .unexpectedEOF => "eof"

/-! ## range coder -/

/-- `type rangeDecoder struct` -/
structure RangeDecoder where
  src : List UInt8
  bits : Nat
  width : Nat

/-- `type rangeEncoder struct` -/
structure RangeEncoder where
  dst : Array UInt8
  low : Nat
  width : Nat
  pendingHead : UInt8
  pendingExtra : Nat

/-- `func (rEnc *rangeEncoder) shiftLow()` -/
def RangeEncoder.shiftLow (e : RangeEncoder) : RangeEncoder :=
  if e.low < 0x0FF000000 then
    { dst := pushN (e.dst.push (e.pendingHead + 0x00)) 0xFF e.pendingExtra
      pendingHead := (e.low >>> 24).toUInt8
      pendingExtra := 0
      low := (e.low * 256) &&& 0xFFFFFFFF
      width := e.width }
  else if e.low ≤ 0xFFFFFFFF then   -- `rEnc.low < 0x1_0000_0000`
    { dst := e.dst
      pendingHead := e.pendingHead
      pendingExtra := e.pendingExtra + 1
      low := (e.low * 256) &&& 0xFFFFFFFF
      width := e.width }
  else
    { dst := pushN (e.dst.push (e.pendingHead + 0x01)) 0x00 e.pendingExtra
      pendingHead := (e.low >>> 24).toUInt8
      pendingExtra := 0
      low := (e.low * 256) &&& 0xFFFFFFFF
      width := e.width }

def probBits : Nat := 11
def minProb : Nat := 0
def maxProb : Nat := 1 <<< probBits
def adaptShift : Nat := 5
/-- `1 << (probBits - 1)`: the value `setProbsToOneHalf` stores -/
def probHalf : Nat := 1 <<< (probBits - 1)

/-- `*p += (maxProb - *p) >> adaptShift` -/
@[inline] def probUp (p : Nat) : Nat := p + ((maxProb - p) >>> adaptShift)
/-- `*p -= (*p - minProb) >> adaptShift` -/
@[inline] def probDown (p : Nat) : Nat := p - ((p - minProb) >>> adaptShift)

/-- `func (p *prob) decodeBit(rDec *rangeDecoder)`; returns `none` for `errUnexpectedEOF` (the Go code
    has then already mutated `*p` and `rDec`, but every caller returns at once with `rDec.src`, which
    is empty), else `(bitValue, new *p, new rDec)`. -/
@[inline] def decodeBit (p : Nat) (d : RangeDecoder) : Option (Nat × Nat × RangeDecoder) :=
  let threshold := ((d.width >>> probBits) * p) &&& 0xFFFFFFFF
  let r : Nat × Nat × Nat × Nat :=   -- bitValue, *p, bits, width
    if d.bits < threshold then (0, probUp p, d.bits, threshold)
    else (1, probDown p, d.bits - threshold, d.width - threshold)
  if r.2.2.2 < 16777216 then
    match d.src with
    | [] => none
    | s :: rest =>
      some (r.1, r.2.1, { src := rest, bits := ((r.2.2.1 * 256) &&& 0xFFFFFFFF) ||| s.toNat,
                          width := (r.2.2.2 * 256) &&& 0xFFFFFFFF })
  else
    some (r.1, r.2.1, { src := d.src, bits := r.2.2.1, width := r.2.2.2 })

/-- `func (p *prob) encodeBit(rEnc *rangeEncoder, bitValue uint32)`; returns the new `*p` and `rEnc`. -/
@[inline] def encodeBit (p : Nat) (e : RangeEncoder) (bitValue : Nat) : Nat × RangeEncoder :=
  let threshold := ((e.width >>> probBits) * p) &&& 0xFFFFFFFF
  let p' := if bitValue = 0 then probUp p else probDown p
  let e1 : RangeEncoder :=
    if bitValue = 0 then { e with width := threshold }
    else { e with low := e.low + threshold, width := e.width - threshold }
  if e1.width < 16777216 then
    (p', RangeEncoder.shiftLow { e1 with width := (e1.width * 256) &&& 0xFFFFFFFF })
  else
    (p', e1)

/-- the loop of `func (p *byteProbs) decodeByte`; `base` selects the `byteProbs` inside the flat
    `litProbs`; `index` starts at 1 and is doubled 8 times (`for index < 0x100`). -/
def decodeByteLoop (base : Nat) : Nat → Nat → Array Nat → RangeDecoder →
    Option (Nat × Array Nat × RangeDecoder)
  | 0, index, probs, d => some (index, probs, d)
  | n + 1, index, probs, d =>
    match decodeBit (probs.getD (base + index) probHalf) d with
    | none => none
    | some (bitValue, p', d') =>
      decodeByteLoop base n ((index * 2) ||| bitValue) (probs.setIfInBounds (base + index) p') d'

/-- `func (p *byteProbs) decodeByte(rDec *rangeDecoder)`; `byte(index)` drops the leading 1 bit. -/
def decodeByte (probs : Array Nat) (base : Nat) (d : RangeDecoder) :
    Option (UInt8 × Array Nat × RangeDecoder) :=
  match decodeByteLoop base 8 1 probs d with
  | none => none
  | some (index, probs', d') => some (index.toUInt8, probs', d')

/-- the loop of `func (p *byteProbs) encodeByte`: `n = i + 1` bits left. -/
def encodeByteLoop (base : Nat) (b : Nat) : Nat → Nat → Array Nat → RangeEncoder →
    Array Nat × RangeEncoder
  | 0, _, probs, e => (probs, e)
  | i + 1, index, probs, e =>
    let bitValue := (b >>> i) &&& 1
    let r := encodeBit (probs.getD (base + index) probHalf) e bitValue
    encodeByteLoop base b i ((index * 2) ||| bitValue) (probs.setIfInBounds (base + index) r.1) r.2

/-- `func (p *byteProbs) encodeByte(rEnc *rangeEncoder, byteValue byte)` -/
def encodeByte (probs : Array Nat) (base : Nat) (e : RangeEncoder) (byteValue : UInt8) :
    Array Nat × RangeEncoder :=
  encodeByteLoop base byteValue.toNat 8 1 probs e

/-- `posProbs` after `setProbsToOneHalf` -/
def initPosProbs : Array Nat := Array.replicate (1 <<< pb) probHalf
/-- `litProbs` after `setProbsToOneHalf`, flattened -/
def initLitProbs : Array Nat := Array.replicate ((1 <<< (lc + lp)) * 256) probHalf

/-- `litProbs[i|j]` as an offset into the flat table -/
def litBase (pos : Nat) (prev : UInt8) : Nat :=
  ((((pos &&& lpMask) <<< lc) ||| (prev.toNat >>> (8 - lc)))) * 256

/-- the `for ; size > 0; size--` loop of `decodeRaw` -/
def decodeRawLoop : Nat → Nat → UInt8 → Array Nat → Array Nat → RangeDecoder → Array UInt8 → Err →
    Array UInt8 × List UInt8 × Err
  | 0, _, _, _, _, d, dst, _ => (dst, d.src, .ok)
  | size + 1, pos, prev, posProbs, litProbs, d, dst, errUnsupported =>
    match decodeBit (posProbs.getD (pos &&& pbMask) probHalf) d with
    | none => (dst, [], .unexpectedEOF)
    | some (bitValue, p', d1) =>
      if bitValue ≠ 0 then (dst, d1.src, errUnsupported)
      else
        match decodeByte litProbs (litBase pos prev) d1 with
        | none => (dst, [], .unexpectedEOF)
        | some (curr, litProbs', d2) =>
          decodeRawLoop size ((pos + 1) &&& 0xFFFFFFFF) curr
            (posProbs.setIfInBounds (pos &&& pbMask) p') litProbs' d2 (dst.push curr) errUnsupported

/-- `func decodeRaw(dst, src, size, errUnsupported)` -/
def decodeRaw (dst : Array UInt8) (src : List UInt8) (size : Nat) (errUnsupported : Err) :
    Array UInt8 × List UInt8 × Err :=
  match src with
  | s0 :: s1 :: s2 :: s3 :: s4 :: rest =>
    if s0 ≠ 0 then (dst, src, errUnsupported)
    else
      let d : RangeDecoder :=
        { src := rest
          bits := (s1.toNat <<< 24) ||| (s2.toNat <<< 16) ||| (s3.toNat <<< 8) ||| s4.toNat
          width := 0xFFFFFFFF }
      decodeRawLoop size 0 0 initPosProbs initLitProbs d dst errUnsupported
  | _ => (dst, src, errUnsupported)

/-- the `for _, curr := range src` loop of `encodeRaw` -/
def encodeRawLoop : List UInt8 → Nat → UInt8 → Array Nat → Array Nat → RangeEncoder → RangeEncoder
  | [], _, _, _, _, e => e
  | curr :: rest, pos, prev, posProbs, litProbs, e =>
    let r := encodeBit (posProbs.getD (pos &&& pbMask) probHalf) e 0
    let r2 := encodeByte litProbs (litBase pos prev) r.2 curr
    encodeRawLoop rest ((pos + 1) &&& 0xFFFFFFFF) curr
      (posProbs.setIfInBounds (pos &&& pbMask) r.1) r2.1 r2.2

/-- `for i := 0; i < 5; i++ { rEnc.shiftLow() }` -/
def RangeEncoder.flush (e : RangeEncoder) : RangeEncoder :=
  e.shiftLow.shiftLow.shiftLow.shiftLow.shiftLow

/-- `func encodeRaw(dst []byte, src []byte)` -/
def encodeRaw (dst : Array UInt8) (src : List UInt8) : Array UInt8 :=
  let e : RangeEncoder := { dst := dst, low := 0, width := 0xFFFFFFFF, pendingHead := 0, pendingExtra := 0 }
  (encodeRawLoop src 0 0 initPosProbs initLitProbs e).flush.dst

/-! ## uvarint -/

/-- `func encodeUvarint(dst []byte, x uint64)` -/
def encodeUvarint (dst : Array UInt8) (x : Nat) : Array UInt8 :=
  if h : x ≥ 0x80 then encodeUvarint (dst.push (x.toUInt8 ||| 0x80)) (x >>> 7)
  else dst.push x.toUInt8
termination_by x
decreasing_by
  simp only [Nat.shiftRight_eq_div_pow]; omega

/-- loop of `decodeUvarint`: `for i := 0; (i < 63) && (len(src) > 0); i += 7` (at most 9 rounds). -/
def decodeUvarintLoop : Nat → Nat → Nat → List UInt8 → List UInt8 × Nat × Bool
  | 0, _, _, src => (src, 0, false)
  | fuel + 1, i, x, src =>
    if i < 63 then
      match src with
      | [] => (src, 0, false)
      | s :: rest =>
        let x' := x ||| ((s &&& 0x7F).toNat <<< i)
        if s &&& 0x80 = 0 then (rest, x', true)
        else decodeUvarintLoop fuel (i + 7) x' rest
    else (src, 0, false)

/-- `func decodeUvarint(src []byte) (remainingSrc []byte, x uint64, ok bool)` -/
def decodeUvarint (src : List UInt8) : List UInt8 × Nat × Bool :=
  decodeUvarintLoop 10 0 0 src

/-! ## LZMA container -/

/-- the 8 `byte(size); size >>= 8` bytes -/
def le64 (size : Nat) : List UInt8 :=
  (List.range 8).map (fun i => (size >>> (8 * i)).toUInt8)

/-- `func encodeLZMA(dst []byte, src []byte)` -/
def encodeLZMA (dst : Array UInt8) (src : List UInt8) : Array UInt8 :=
  encodeRaw (pushList (pushList dst lzmaHeader5) (le64 src.length)) src

/-- `size |= uint64(src[5+i]) << uint(8*i)` over 8 bytes -/
def readLe64 (bs : List UInt8) : Nat :=
  (bs.take 8).foldr (fun b acc => b.toNat + 256 * acc) 0

/-- `func decodeLZMA(dst []byte, src []byte)`; `remainingSrc` is `nil` (here `[]`) on the header errors. -/
def decodeLZMA (dst : Array UInt8) (src : List UInt8) : Array UInt8 × List UInt8 × Err :=
  if src.length < 18 ∨ (src.headD 0).toNat ≥ 9 * 5 * 5 then (dst, [], .invalidLZMA)
  else if src.take 5 ≠ lzmaHeader5 then (dst, [], .unsupportedLZMA)
  else
    let size := readLe64 (src.drop 5)
    -- int64(size) < -1  ⇔  2^63 ≤ size < 2^64 - 1 ;  int64(size) == -1  ⇔  size = 2^64 - 1
    if 9223372036854775808 ≤ size ∧ size < 18446744073709551615 then (dst, [], .invalidLZMA)
    else if size = 18446744073709551615 then (dst, [], .unsupportedLZMA)
    else decodeRaw dst (src.drop 13) size .unsupportedLZMA

/-! ## XZ container -/

/-- padding loop `for 0 != 3&(len(dst)-dstLen0) { dst = append(dst, 0x00) }` where `n = len(dst)-dstLen0`:
    appends zero bytes until the count is a multiple of 4. -/
def padTo4 (dst : Array UInt8) (n : Nat) : Array UInt8 :=
  pushN dst 0 ((4 - n % 4) % 4)

/-- one round of the chunk loop of `encodeXz`, for the sub-slice `srcChunk` -/
def encodeXzChunk (dst : Array UInt8) (srcChunk : List UInt8) : Array UInt8 :=
  let rawLZMA := encodeRaw #[] srcChunk
  let n := srcChunk.length
  if n + 3 ≤ rawLZMA.size + 6 then
    pushList (dst.push 0x01 |>.push ((n - 1) >>> 8).toUInt8 |>.push (n - 1).toUInt8) srcChunk
  else
    (dst.push 0xE0 |>.push ((n - 1) >>> 8).toUInt8 |>.push (n - 1).toUInt8
        |>.push ((rawLZMA.size - 1) >>> 8).toUInt8 |>.push (rawLZMA.size - 1).toUInt8 |>.push 0x5D)
      ++ rawLZMA

/-- `for remaining := src; len(remaining) > 0; { … }` of `encodeXz` -/
def encodeXzChunks (dst : Array UInt8) (remaining : List UInt8) : Array UInt8 :=
  if h : remaining.length = 0 then dst
  else if remaining.length > 0x10000 then
    encodeXzChunks (encodeXzChunk dst (remaining.take 0x10000)) (remaining.drop 0x10000)
  else
    encodeXzChunk dst remaining
termination_by remaining.length
decreasing_by
  simp only [List.length_drop]; omega

/-- `func encodeXz(dst []byte, src []byte)`; `dstLen0 = len(dst) + 12`. -/
def encodeXz (dst : Array UInt8) (src : List UInt8) : Array UInt8 :=
  let dstLen0 := dst.size + 12
  let dst := pushList dst xzHeader24
  let dst := encodeXzChunks dst src
  let dst := dst.push 0x00
  let unpaddedSize := (dst.size - dstLen0) + 4
  let dst := padTo4 dst (dst.size - dstLen0)
  let dst := pushList dst (le32 (crc32 src))
  -- the index
  let dstLen1 := dst.size
  let dst := dst.push 0x00 |>.push 0x01
  let dst := encodeUvarint dst unpaddedSize
  let dst := encodeUvarint dst src.length
  let dst := padTo4 dst (dst.size - dstLen1)
  let backwardSize := (dst.size - dstLen1) >>> 2
  let dst := pushList dst (le32 (crc32Arr dst dstLen1))
  -- the footer
  let tail6 : List UInt8 :=
    [backwardSize.toUInt8, (backwardSize >>> 8).toUInt8, (backwardSize >>> 16).toUInt8,
     (backwardSize >>> 24).toUInt8, 0x00, 0x01]
  pushList (pushList (pushList dst (le32 (crc32 tail6))) tail6) [0x59, 0x5A]

/-- `for i := …; (i & 3) != 0; i++ { if (len(src) == 0) || (src[0] != 0x00) {return …}; src = src[1:] }`;
    `fuel` is 3 (the loop body runs at most 3 times).  Returns `(ok, src)`. -/
def skipPad : Nat → Nat → List UInt8 → Bool × List UInt8
  | 0, _, src => (true, src)
  | fuel + 1, i, src =>
    if i &&& 3 ≠ 0 then
      match src with
      | [] => (false, src)
      | s :: rest => if s ≠ 0 then (false, src) else skipPad fuel (i + 1) rest
    else (true, src)

/-- the `if (src[0] != uint8(checksum>>0)) || …` comparisons, incl. the `len(src) < 4` check -/
def hasLe32 (src : List UInt8) (c : UInt32) : Bool :=
  src.length ≥ 4 ∧ src.take 4 = le32 c

/-- result of the chunk loop of `decodeXz`: either an early `return dst, src, err` or the state after
    the `break` -/
inductive ChunkResult where
  | ret (dst : Array UInt8) (src : List UInt8) (err : Err)
  | brk (dst : Array UInt8) (src : List UInt8)

/-- `for { … }` "Decode the payload as multiple chunks" of `decodeXz`.  Every round consumes at least
    one byte, so `fuel = len(src) + 1` rounds are enough (fuel exhaustion is unreachable). -/
def decodeXzChunks : Nat → Array UInt8 → List UInt8 → ChunkResult
  | 0, dst, src => .ret dst src .invalidXz
  | fuel + 1, dst, src =>
    match src with
    | [] => .ret dst src .invalidXz
    | c :: src1 =>
      if c = 0x00 then .brk dst src1
      else if c = 0x01 then
        match src1 with
        | u1 :: u0 :: src3 =>
          let uncompressedSize := (u1.toNat <<< 8) + u0.toNat + 1
          if uncompressedSize > src3.length then .ret dst src3 .invalidXz
          else decodeXzChunks fuel (pushList dst (src3.take uncompressedSize)) (src3.drop uncompressedSize)
        | _ => .ret dst src .invalidXz
      else if c = 0xE0 then
        match src1 with
        | u1 :: u0 :: c1 :: c0 :: prop :: src6 =>
          if prop ≠ 0x5D then .ret dst src .unsupportedXz
          else
            let uncompressedSize := (u1.toNat <<< 8) + u0.toNat + 1
            let compressedSize := (c1.toNat <<< 8) + c0.toNat + 1
            if compressedSize > src6.length then .ret dst src6 .invalidXz
            else
              match decodeRaw dst src6 uncompressedSize .unsupportedXz with
              | (dst', src', err) =>
                if err ≠ .ok then .ret dst' src' err
                else if src6.length ≠ src'.length + compressedSize then .ret dst' src' .invalidXz
                else decodeXzChunks fuel dst' src'
        | _ => .ret dst src .invalidXz
      else .ret dst src .unsupportedXz

/-- `func decodeXz(dst []byte, src []byte)` -/
def decodeXz (dst0 : Array UInt8) (src0 : List UInt8) : Array UInt8 × List UInt8 × Err :=
  let originalDstLen := dst0.size
  let originalSrcLen := src0.length
  if src0.length < 24 ∨ src0.take 6 ≠ xzHeader24.take 6 then (dst0, src0, .invalidXz)
  else if (src0.take 24).drop 6 ≠ xzHeader24.drop 6 then (dst0, src0, .unsupportedXz)
  else
    match decodeXzChunks (src0.length + 1) dst0 (src0.drop 24) with
    | .ret dst src err => (dst, src, err)
    | .brk dst src =>
      let unpaddedSizeWant := (originalSrcLen - 12) - src.length + 4
      match skipPad 3 (unpaddedSizeWant &&& 3) src with
      | (false, src) => (dst, src, .invalidXz)
      | (true, src) =>
        if ¬ hasLe32 src (crc32Arr dst originalDstLen) then (dst, src, .invalidXz)
        else
          let src := src.drop 4
          -- Decode the index.
          let srcCheckpoint1 := src
          match src with
          | i0 :: i1 :: src2 =>
            if i0 ≠ 0x00 ∨ i1 ≠ 0x01 then (dst, src, .invalidXz) else
            match decodeUvarint src2 with
            | (src3, unpaddedSizeHave, ok) =>
              if ¬ ok ∨ unpaddedSizeHave ≠ unpaddedSizeWant then (dst, src3, .invalidXz)
              else
                match decodeUvarint src3 with
                | (src4, uncompressedSize, ok) =>
                  if ¬ ok ∨ uncompressedSize ≠ dst.size - originalDstLen then (dst, src4, .invalidXz)
                  else
                    match skipPad 3 ((srcCheckpoint1.length - src4.length) &&& 3) src4 with
                    | (false, src5) => (dst, src5, .invalidXz)
                    | (true, src5) =>
                      let backwardSize := (srcCheckpoint1.length - src5.length) >>> 2
                      if ¬ hasLe32 src5
                          (crc32 (srcCheckpoint1.take (srcCheckpoint1.length - src5.length))) then
                        (dst, src5, .invalidXz)
                      else
                        let src6 := src5.drop 4
                        -- Decode the footer.
                        if src6.length < 12 then (dst, src6, .invalidXz)
                        else
                          let want : List UInt8 :=
                            le32 (crc32 ((src6.drop 4).take 6)) ++
                            [backwardSize.toUInt8, (backwardSize >>> 8).toUInt8,
                             (backwardSize >>> 16).toUInt8, (backwardSize >>> 24).toUInt8,
                             0x00, 0x01, 0x59, 0x5A]
                          if src6.take 12 ≠ want then (dst, src6, .invalidXz)
                          else (dst, src6.drop 12, .ok)
          | _ => (dst, src, .invalidXz)

end WuffsVerif.Lzma
