/-
C03 — two more unchecked helpers of `/repo/internal/cgen/base/io-private.h` over the monitored memory of
`Model/IOHelpers.lean`:

* `wuffs_private_impl__io_reader__match7` (`io_reader.match7(a: u64) u32[..= 2]`; used by std/json). Besides
  the loads it contains a SHIFT whose count depends on the argument: `shift = 8 * (8 - n)` with
  `n = a & 7`. A shift of a `uint64_t` by 64 is undefined behaviour in C ("invalid shift" in the property
  statement); the model monitors it (`shiftOk`). The pinned code took the 8-byte fast path for `n = 0` too
  (`a << 64`: UBSan "shift exponent 64 is too large", and the answer 2 instead of 0 on x86-64); repaired by
  `fixes/C03-match7-zero-length-shift.patch` (`n > 0 &&` in front of the fast-path test), which is what is
  modelled here. `match7Pinned` keeps the old behaviour for the witness theorem.
* `wuffs_private_impl__io_writer__limited_copy_u32_from_reader`: a `memmove` between two different
  buffers (the reader's and the writer's window), both monitored.
Core Lean only.
-/
import WuffsVerif.Model.IOHelpers

namespace WuffsVerif.IOHelpers

/-- Result of `match7`: 0 success, 1 inconclusive (`$short read`), 2 failure; the reader's memory with
its monitor flag; `shiftOk = false` when a shift count ≥ 64 was executed. -/
structure M7Res where
  ret : Nat
  mem : Mem
  shiftOk : Bool
  deriving Repr, Inhabited

/-- `wuffs_base__peek_u64le__no_bounds_check(p)`: eight monitored loads. -/
def peekU64le (m : Mem) (p : Int) : Mem × UInt64 :=
  let r := rd8 m p
  (r.1, r.2.foldr (fun b acc => (acc <<< 8) ||| b.toUInt64) 0)

/-- The byte-at-a-time tail of `match7`:
```
for (; n > 0; n--) {
  if (iop_r >= io2_r) { return (r && r->meta.closed) ? 2 : 1; }
  else if (*iop_r != ((uint8_t)(a))) { return 2; }
  iop_r++; a >>= 8;
}
return 0;
``` -/
def match7Loop (closed : Bool) : Nat → Mem → Int → UInt64 → Nat × Mem
  | 0, m, _, _ => (0, m)
  | n + 1, m, iop, a =>
    if iop ≥ (m.hi : Int) then ((if closed then 2 else 1), m)
    else
      let r := m.rd iop
      if r.2 != a.toUInt8 then (2, r.1) else match7Loop closed n r.1 (iop + 1) (a >>> 8)

/-- The 8-byte fast path: `shift = 8 * (8 - n); return ((a << shift) == (x << shift)) ? 0 : 2;`. -/
def match7Fast (m : Mem) (iop : Int) (n : Nat) (a : UInt64) : M7Res :=
  let r := peekU64le m iop
  let shift := 8 * (8 - n)
  ⟨(if (a <<< shift.toUInt64) == (r.2 <<< shift.toUInt64) then 0 else 2), r.1, decide (shift < 64)⟩

/-- `wuffs_private_impl__io_reader__match7` as repaired: `if ((n > 0) && ((io2_r - iop_r) >= 8))`. -/
def match7 (m : Mem) (iop : Int) (closed : Bool) (a : UInt64) : M7Res :=
  let n := (a &&& 7).toNat
  let a' := a >>> 8
  if n > 0 ∧ (m.hi : Int) - iop ≥ 8 then match7Fast m iop n a'
  else
    let r := match7Loop closed n m iop a'
    ⟨r.1, r.2, true⟩

/-- The pinned helper: the fast path is taken whenever 8 bytes are available, also for `n = 0`. -/
def match7Pinned (m : Mem) (iop : Int) (closed : Bool) (a : UInt64) : M7Res :=
  let n := (a &&& 7).toNat
  let a' := a >>> 8
  if (m.hi : Int) - iop ≥ 8 then match7Fast m iop n a'
  else
    let r := match7Loop closed n m iop a'
    ⟨r.1, r.2, true⟩

/-- `limited_copy_u32_from_reader`: `n = min(length, io2_w - iop_w, io2_r - iop_r)`, `memmove(iop_w, iop_r, n)`
(all loads from the reader's window `mr`, then all stores into the writer's window `mw`), both pointers
advance by `n`. -/
structure RWRes where
  mw : Mem
  mr : Mem
  iopW : Int
  iopR : Int
  ret : Nat
  deriving Repr, Inhabited

def copyFromReaderLimited (mw : Mem) (iopW : Int) (length : Nat) (mr : Mem) (iopR : Int) : RWRes :=
  let n := length
  let roomW := ((mw.hi : Int) - iopW).toNat
  let n := if n > roomW then roomW else n
  let availR := ((mr.hi : Int) - iopR).toNat
  let n := if n > availR then availR else n
  if n > 0 then
    let r := rdList mr iopR n
    ⟨wrList mw iopW r.2, r.1, iopW + n, iopR + n, n⟩
  else ⟨mw, mr, iopW, iopR, 0⟩

/-! ### The slice helpers of fundamental-public.h (what cgen emits for `s[i ..]`, `s[.. j]`, `s[i .. j]`) -/

/-- A C slice: base pointer (`none` = NULL) and length. -/
structure CSlice where
  base : Option Nat
  len : Nat
  deriving Repr, Inhabited

/-- Result: offset of the result pointer from the base (`none` = the result pointer is NULL), length, and
whether pointer arithmetic was performed on a NULL pointer (undefined behaviour in C, also for `+ 0`). -/
structure SubRes where
  off : Option Nat
  len : Nat
  nullArith : Bool
  deriving Repr, Inhabited, DecidableEq

/-- `wuffs_base__slice_u8__subslice_i` as repaired (`s.ptr ? (s.ptr + i) : NULL`); out of bounds: the empty slice. -/
def subsliceI (s : CSlice) (i : Nat) : SubRes :=
  if i ≤ s.len then ⟨s.base.map (fun _ => i), s.len - i, false⟩ else ⟨none, 0, false⟩

/-- `wuffs_base__slice_u8__subslice_j` (no pointer arithmetic). -/
def subsliceJ (s : CSlice) (j : Nat) : SubRes :=
  if j ≤ s.len then ⟨s.base.map (fun _ => 0), j, false⟩ else ⟨none, 0, false⟩

/-- `wuffs_base__slice_u8__subslice_ij` as repaired. -/
def subsliceIJ (s : CSlice) (i j : Nat) : SubRes :=
  if i ≤ j ∧ j ≤ s.len then ⟨s.base.map (fun _ => i), j - i, false⟩ else ⟨none, 0, false⟩

/-- The pinned `subslice_i` / `subslice_ij`: `s.ptr + i` unconditionally. -/
def subsliceIPinned (s : CSlice) (i : Nat) : SubRes :=
  if i ≤ s.len then ⟨s.base.map (fun _ => i), s.len - i, s.base.isNone⟩ else ⟨none, 0, false⟩

end WuffsVerif.IOHelpers
