/-
C05 — path semantics of the abstract statement language of `Model/Liveness.lean`: which
sequences of variable reads, variable writes and suspensions an execution can produce.
Conditions are abstracted away, so every branch can go either way and every loop can run any
number of times; a path may also stop at any loop head or block start (`Out.stop`), which makes
every finite prefix of a non-terminating execution (a coroutine need not return) a path too.

A coroutine call may suspend any number of times. A call whose receiver is not an I/O type is
re-issued on resumption, i.e. its argument variables are read again after each suspension
(`WUFFS_BASE__COROUTINE_SUSPENSION_POINT(n); status = f(self, args…); if (status.repr) goto suspend;`
in statement.go `writeStatementAssign`); the I/O built-ins evaluate their argument once, into
the scratch word, before the suspension point (builtin.go `writeBuiltinQuestionCall`).
-/
import WuffsVerif.Model.Liveness

namespace WuffsVerif.Liveness

/-- What happens to local variables, in order. -/
inductive Ev where
  | rd (v : Nat)
  | wr (v : Nat)
  | susp
  deriving Repr, DecidableEq, Inhabited

/-- How a block is left. `brk k`/`cont k`: break / continue of the `k`-th enclosing loop. -/
inductive Out where
  | norm
  | brk (k : Nat)
  | cont (k : Nat)
  | ret
  | stop
  deriving Repr, DecidableEq, Inhabited

def exReads (e : Ex) : List Ev := e.vars.map Ev.rd

/-- The event sequences of evaluating `e` where `doExpr` is applied to it. -/
inductive ExprPath (e : Ex) : List Ev → Prop where
  | plain : e.coro = false → ExprPath e (exReads e)
  /-- I/O built-in: arguments once, then any number of suspensions. -/
  | io (k : Nat) : e.coro = true → e.ioRecv = true →
      ExprPath e (exReads e ++ List.replicate k Ev.susp)
  /-- other coroutine call: after every suspension the call is issued again. -/
  | call (k : Nat) : e.coro = true → e.ioRecv = false →
      ExprPath e (exReads e ++ (List.replicate k (Ev.susp :: exReads e)).flatten)

def OptExprPath : Option Ex → List Ev → Prop
  | none, es => es = []
  | some e, es => ExprPath e es

/-- `doAssign`: the RHS (`=?` does not suspend the caller), then the LHS. -/
def AssignPath (op : AOp) (lhs : Lhs) (rhs : Ex) (es : List Ev) : Prop :=
  ∃ e1 e2, (if op = AOp.eqQuestion then e1 = exReads rhs else ExprPath rhs e1) ∧
    (match lhs with
      | Lhs.none => e2 = []
      | Lhs.expr e => ExprPath e e2
      | Lhs.var i => e2 = (if op ≠ AOp.eq ∧ op ≠ AOp.eqQuestion then [Ev.rd i] else []) ++ [Ev.wr i]) ∧
    es = e1 ++ e2

/-- What leaving the body with outcome `o` means for the enclosing loop. -/
def Out.exitLoop : Out → Option Out
  | .norm => none
  | .cont 0 => none
  | .brk 0 => some .norm
  | .brk (k + 1) => some (.brk k)
  | .cont (k + 1) => some (.cont k)
  | .ret => some .ret
  | .stop => some .stop

/-- Paths of `while`: `condP` = paths of the condition, `bodyP` = paths of the body. -/
inductive LoopPath (condP : List Ev → Prop) (wt : Bool) (bodyP : List Ev → Out → Prop) :
    List Ev → Out → Prop where
  | stop : LoopPath condP wt bodyP [] Out.stop
  | exit {ce} : wt = false → condP ce → LoopPath condP wt bodyP ce Out.norm
  | iter {ce be es o o'} : condP ce → bodyP be o → o.exitLoop = none →
      LoopPath condP wt bodyP es o' → LoopPath condP wt bodyP (ce ++ be ++ es) o'
  | leave {ce be o o'} : condP ce → bodyP be o → o.exitLoop = some o' →
      LoopPath condP wt bodyP (ce ++ be) o'

mutual
/-- Paths through one statement. -/
def stmtPaths : Stmt → List Ev → Out → Prop
  | .assign op lhs rhs, es, o => o = Out.norm ∧ AssignPath op lhs rhs es
  | .expr e, es, o => o = Out.norm ∧ ExprPath e es
  | .iomanip io a1 hp body, es, o =>
    ∃ e1 e2 e3 e4, ExprPath io e1 ∧ OptExprPath a1 e2 ∧ OptExprPath hp e3 ∧ blockPaths body e4 o ∧
      es = e1 ++ e2 ++ e3 ++ e4
  | .ite c thn els, es, o =>
    ∃ ce be, ExprPath c ce ∧ (blockPaths thn be o ∨ blockPaths els be o) ∧ es = ce ++ be
  | .jump isBreak k, es, o => es = [] ∧ o = (if isBreak then Out.brk k else Out.cont k)
  | .ret isYield e, es, o =>
    if isYield then ∃ ee, ExprPath e ee ∧ es = ee ++ [Ev.susp] ∧ o = Out.norm
    else ExprPath e es ∧ o = Out.ret
  | .var i, es, o => es = [Ev.wr i] ∧ o = Out.norm
  | .while wt c body, es, o => LoopPath (ExprPath c) wt (blockPaths body) es o

/-- Paths through a block: stop before it, or run the first statement and go on if it
completes normally. -/
def blockPaths : List Stmt → List Ev → Out → Prop
  | [], es, o => es = [] ∧ (o = Out.norm ∨ o = Out.stop)
  | s :: rest, es, o =>
    (es = [] ∧ o = Out.stop) ∨
    (∃ e1 e2, stmtPaths s e1 Out.norm ∧ blockPaths rest e2 o ∧ es = e1 ++ e2) ∨
    (stmtPaths s es o ∧ o ≠ Out.norm)
end

/-! ## Stale reads -/

/-- `dirty` = a suspension has happened since the last write of `v` (at function entry: clean,
the local is zero-initialised on every entry). -/
def Ev.taint (v : Nat) (dirty : Bool) : Ev → Bool
  | .rd _ => dirty
  | .wr w => if w = v then false else dirty
  | .susp => true

/-- A read of `v` while dirty: the value an unsaved local would have lost. -/
def Ev.stale (v : Nat) (dirty : Bool) : Ev → Bool
  | .rd w => dirty && (w == v)
  | _ => false

def taintAfter (v : Nat) (dirty : Bool) (es : List Ev) : Bool := es.foldl (Ev.taint v) dirty

/-- Some read of `v` in `es` is stale (starting from `dirty`). -/
def viol (v : Nat) : Bool → List Ev → Bool
  | _, [] => false
  | d, e :: es => e.stale v d || viol v (e.taint v d) es

end WuffsVerif.Liveness
