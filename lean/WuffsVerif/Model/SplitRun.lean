/-
C05 — a concrete meaning for the abstract statement language of `Model/Liveness.lean`, in which
the coroutines of fragment F3s (DESIGN.md §2.0: the only I/O operations are the suspending
built-ins) can be written with their control flow: `if`, `while`, labelled `break`/`continue`,
`return`, `yield`, nested coroutine calls.

Every expression occurrence carries a tag (`Ex.tag`); an interpretation maps the tag to what the
occurrence does (`COp`): a pure function of the locals it mentions, one of the suspending
built-ins of `Model/Scratch.lean` (`read_uXXYe?`, `skip?`, `skip?(n: 1)`, `write_u8?`), or an
externally given operation (a callee). The control flow, the locals and what a suspension does to
them are `Model/LivenessRun.lean`'s `run`; this file supplies the world:

* `CW`, the chunked world: the source arrives as a list of chunks, the destination capacity as a
  list of pieces (the driver of `Model/Scratch.lean`, i.e. harness/cmd/c05/cprobe.go); each
  built-in is the scratch-word machine of builtin.go run until it completes, being resumed as
  often as the chunking makes necessary (`readGo`, `skipGo`, `skip1Go`, `writeGo`); the number
  of suspensions is reported to `run`, which resets the non-saved locals accordingly.
* `OW`, the one-shot world: the undivided source, an unbounded destination.

A world also records `dead` (the source is closed and a built-in wanted more: the coroutine's
final status is `$short read`; nothing after that point is observable, the world is frozen) and
`obs`, the values computed while alive (a superset of the observable state, e.g. what is stored
to `this.…` fields).

Core Lean only.
-/
import WuffsVerif.Model.LivenessRun
import WuffsVerif.Model.Scratch

namespace WuffsVerif.Split
open WuffsVerif.Liveness WuffsVerif.Scratch

/-- The chunked world. -/
structure CW where
  src : Src
  dst : Dst
  wsusp : Nat
  dead : Bool
  obs : List Nat
  deriving Inhabited

/-- The one-shot world. -/
structure OW where
  rest : List UInt8
  out : List UInt8
  consumed : Nat
  dead : Bool
  obs : List Nat
  deriving Inhabited, DecidableEq, Repr

/-- What of a chunked world does not depend on the chunking: the unread bytes in order, the
bytes written in order, the consumed-byte count, the final-status flag, the computed values. -/
def CW.abs (w : CW) : OW :=
  ⟨w.src.pending ++ w.src.future.flatten, w.dst.out, w.src.consumed, w.dead, w.obs⟩

/-- An operation given from outside (a callee): value, world after, number of suspensions; and
its one-shot counterpart. -/
structure Ext where
  c : List Nat → CW → Nat × CW × Nat
  o : List Nat → OW → Nat × OW

/-- The two sides of an external operation agree up to the chunking. -/
def Ext.OK (x : Ext) : Prop :=
  ∀ vals w, (x.c vals w).1 = (x.o vals w.abs).1 ∧ (x.c vals w).2.1.abs = (x.o vals w.abs).2

/-- What an expression occurrence does. A function `f obs vals` computes from the values computed
so far (`obs`: this is how `this.…` fields are read) and from the values of the locals the
expression mentions (`Ex.vars`, in order). -/
inductive COp where
  /-- no I/O: a condition, a right-hand side, a `this.…` field store, a status constant -/
  | pure (f : List Nat → List Nat → Nat)
  /-- `args.src.read_uXXYe?()`, a row of `readMethods` -/
  | rd (m : RdMethod)
  /-- `args.src.skip?(n: f(locals))` / `skip_u32?` -/
  | skip (f : List Nat → List Nat → Nat)
  /-- `args.src.skip?(n: 1)` -/
  | skip1
  /-- `args.dst.write_u8?(a: f(locals))` -/
  | wr (f : List Nat → List Nat → Nat)
  /-- a callee -/
  | ext (x : Ext)

/-- One operation in the chunked world: value, world after, number of suspensions. -/
def stepC (op : COp) (vals : List Nat) (w : CW) : Nat × CW × Nat :=
  if w.dead then (0, w, 0) else
  match op with
  | .pure f => (f w.obs vals, { w with obs := w.obs ++ [f w.obs vals] }, 0)
  | .rd m =>
    match readGo m RdSt.start w.src.pending w.src.consumed w.src.susp w.src.future with
    | (some v, src) => (v, { w with src := src, obs := w.obs ++ [v] }, src.susp - w.src.susp)
    | (none, src) => (0, { w with src := src, dead := true }, src.susp - w.src.susp)
  | .skip f =>
    match skipGo (f w.obs vals) w.src.pending w.src.consumed w.src.susp w.src.future with
    | (true, src) => (0, { w with src := src }, src.susp - w.src.susp)
    | (false, src) => (0, { w with src := src, dead := true }, src.susp - w.src.susp)
  | .skip1 =>
    match skip1Go w.src.pending w.src.consumed w.src.susp w.src.future with
    | (true, src) => (0, { w with src := src }, src.susp - w.src.susp)
    | (false, src) => (0, { w with src := src, dead := true }, src.susp - w.src.susp)
  | .wr f =>
    let r := writeGo (f w.obs vals) w.dst.room w.dst.out w.wsusp w.dst.future
    (0, { w with dst := r.1, wsusp := r.2 }, r.2 - w.wsusp)
  | .ext x => x.c vals w

/-- One operation in the one-shot world. -/
def stepO (op : COp) (vals : List Nat) (w : OW) : Nat × OW :=
  if w.dead then (0, w) else
  match op with
  | .pure f => (f w.obs vals, { w with obs := w.obs ++ [f w.obs vals] })
  | .rd m =>
    if m.n / 8 ≤ w.rest.length then
      (peek m.be (w.rest.take (m.n / 8)),
        { w with rest := w.rest.drop (m.n / 8), consumed := w.consumed + m.n / 8,
                 obs := w.obs ++ [peek m.be (w.rest.take (m.n / 8))] })
    else (0, { w with rest := [], consumed := w.consumed + w.rest.length, dead := true })
  | .skip f =>
    if f w.obs vals ≤ w.rest.length then
      (0, { w with rest := w.rest.drop (f w.obs vals), consumed := w.consumed + f w.obs vals })
    else (0, { w with rest := [], consumed := w.consumed + w.rest.length, dead := true })
  | .skip1 =>
    if 1 ≤ w.rest.length then (0, { w with rest := w.rest.drop 1, consumed := w.consumed + 1 })
    else (0, { w with rest := [], consumed := w.consumed + w.rest.length, dead := true })
  | .wr f => (0, { w with out := w.out ++ [UInt8.ofNat (f w.obs vals % 256)] })
  | .ext x => x.o vals w

/-- The operation of an expression occurrence. Only an expression that the analysis sees as an
I/O built-in (`coro`, `ioRecv`) can be one; only one it sees as another coroutine call can be a
callee; anything else is pure (an ill-placed operation reads as the constant 0). -/
def opAt (interp : Nat → COp) (e : Ex) : COp :=
  match interp e.tag with
  | .pure f => .pure f
  | .ext x => if e.coro && !e.ioRecv then .ext x else .pure (fun _ _ => 0)
  | op => if e.coro && e.ioRecv then op else .pure (fun _ _ => 0)

/-- The chunked interpretation. -/
def chunkCfg (interp : Nat → COp) (comb : Nat → Nat → Nat) : Cfg CW where
  val e w vals := (stepC (opAt interp e) vals w).1
  next e w vals := (stepC (opAt interp e) vals w).2.1
  nsusp e w vals := (stepC (opAt interp e) vals w).2.2
  comb := comb

/-- The one-shot interpretation (nothing ever suspends). -/
def oneCfg (interp : Nat → COp) (comb : Nat → Nat → Nat) : Cfg OW where
  val e w vals := (stepO (opAt interp e) vals w).1
  next e w vals := (stepO (opAt interp e) vals w).2
  nsusp _ _ _ := 0
  comb := comb

/-- The driver's initial world for source bytes `bs` cut into chunks of the given sizes (after
the list: all the rest) and destination pieces of the given capacities (after the list: 64 KiB
pieces): the first chunk and the first piece are in place. -/
def initCW (srcSizes dstSizes : List Nat) (bs : List UInt8) : CW :=
  let s := initState srcSizes dstSizes bs
  ⟨s.src, s.dst, 0, false, []⟩

def initOW (bs : List UInt8) : OW := ⟨bs, [], 0, false, []⟩

/-- A callee as an operation of its caller: its body run to completion from zeroed locals — by
the generated C (only `R` survives a suspension) in the chunked world, by the language in the
one-shot world. The value is the last value it computed (its `return` status). `interp` may depend
on the argument values (`args.…` is not a local of the callee). -/
def callExt (R : Nat → Bool) (body : List Stmt) (interp : List Nat → Nat → COp)
    (comb : Nat → Nat → Nat) (fuel : Nat) : Ext where
  c vals w :=
    let r := run R (chunkCfg (interp vals) comb) fuel (Task.block body) ⟨fun _ => 0, w, []⟩
    (r.st.log.getLastD 0, r.st.w, (r.evs.filter (· == Ev.susp)).length)
  o vals w :=
    let r := run (fun _ => true) (oneCfg (interp vals) comb) fuel (Task.block body) ⟨fun _ => 0, w, []⟩
    (r.st.log.getLastD 0, r.st.w)

end WuffsVerif.Split
