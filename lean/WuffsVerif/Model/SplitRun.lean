/-
C05 — a concrete meaning for the abstract statement language of `Model/Liveness.lean`, in which
the coroutines of fragment F3s (DESIGN.md §2.0: the only I/O operations are the suspending
built-ins) can be written with their control flow: `if`, `while`, labelled `break`/`continue`,
`return`, `yield`, nested coroutine calls.

Every expression occurrence carries a tag (`Ex.tag`); an interpretation maps the tag to what the
occurrence does (`COp`): a pure function of the `this.…` fields and of the locals it mentions, a
store to a field, one of the suspending built-ins of `Model/Scratch.lean` (`read_uXXYe?`,
`skip?`, `skip?(n: 1)`, `write_u8?`), what the driver does on a `yield?`, or an externally given
operation (a callee). The control flow, the locals and what a suspension does to them are
`Model/LivenessRun.lean`'s `run`; this file supplies the world:

* `CW`, the chunked world: the source arrives as a list of chunks, the destination capacity as a
  list of pieces (the driver of `Model/Scratch.lean`, i.e. harness/cmd/c05/cprobe.go); each
  built-in is the scratch-word machine of builtin.go run until it completes, being resumed as
  often as the chunking makes necessary (`readGo`, `skipGo`, `skip1Go`, `writeGo`); the number
  of suspensions is reported to `run`, which resets the non-saved locals accordingly.
* `OW`, the one-shot world: the undivided source, an unbounded destination.

Both carry the `this.…` fields, the value computed last, `dead` (the source is closed and the
coroutine asked for more: its final status is `$short read`; nothing after that point is
observable, the world is frozen) and `obs`, the values computed while alive.

Core Lean only.
-/
import WuffsVerif.Model.LivenessRun
import WuffsVerif.Model.Scratch

namespace WuffsVerif.Split
open WuffsVerif.Liveness WuffsVerif.Scratch

/-- The part of the world that has nothing to do with I/O. -/
structure Mem where
  fields : List Nat
  last : Nat
  dead : Bool
  obs : List Nat
  /-- number of `yield?`s executed while alive -/
  nyield : Nat
  /-- when `dead`: 0 = starved (final status `$short read`), otherwise the error status that a
  callee returned (a `?` call propagates it: `if (status.repr) goto …`, statement.go) -/
  code : Nat
  deriving Inhabited, DecidableEq, Repr

/-- Record a computed value. -/
def Mem.push (m : Mem) (v : Nat) : Mem := { m with last := v, obs := m.obs ++ [v] }

def Mem.field (m : Mem) (i : Nat) : Nat := m.fields.getD i 0

def Mem.setField (m : Mem) (i v : Nat) : Mem := { m with fields := setReg m.fields i v }

/-- The chunked world. -/
structure CW where
  src : Src
  dst : Dst
  wsusp : Nat
  mem : Mem
  deriving Inhabited

/-- The one-shot world. -/
structure OW where
  rest : List UInt8
  out : List UInt8
  consumed : Nat
  mem : Mem
  deriving Inhabited, DecidableEq, Repr

/-- What of a chunked world does not depend on the chunking: the unread bytes in order, the
bytes written in order, the consumed-byte count, and everything that is not I/O. -/
def CW.abs (w : CW) : OW :=
  ⟨w.src.pending ++ w.src.future.flatten, w.dst.out, w.src.consumed, w.mem⟩

/-- An operation given from outside (a callee): value, world after, number of suspensions; and
its one-shot counterpart. -/
structure Ext where
  c : List Nat → CW → Nat × CW × Nat
  o : List Nat → OW → Nat × OW

/-- The two sides of an external operation agree up to the chunking. -/
def Ext.OK (x : Ext) : Prop :=
  ∀ vals w, (x.c vals w).1 = (x.o vals w.abs).1 ∧ (x.c vals w).2.1.abs = (x.o vals w.abs).2

/-- What an expression occurrence does. A function `f fields vals` computes from the `this.…`
fields and from the values of the locals the expression mentions (`Ex.vars`, in order). -/
inductive COp where
  /-- no I/O: a condition, a right-hand side, a status constant -/
  | pure (f : List Nat → List Nat → Nat)
  /-- the left-hand side `this.f_i` of `this.f_i op= rhs`: the field becomes `g old v`, `v` the
  value computed last (the right-hand side) -/
  | store (i : Nat) (g : Nat → Nat → Nat)
  /-- `args.src.read_uXXYe?()`, a row of `readMethods` -/
  | rd (m : RdMethod)
  /-- `args.src.skip?(n: f(…))` / `skip_u32?` -/
  | skip (f : List Nat → List Nat → Nat)
  /-- `args.src.skip?(n: 1)` -/
  | skip1
  /-- `args.dst.write_u8?(a: f(…))` -/
  | wr (f : List Nat → List Nat → Nat)
  /-- the status of `yield? base."$short read"`: the driver supplies the next chunk; with the
  source closed and nothing unread it ends the run (final status `$short read`) -/
  | yieldSR
  /-- the status of `yield? base."$short write"`: the driver replaces a full destination piece -/
  | yieldSW
  /-- a callee -/
  | ext (x : Ext)

/-- One operation in the chunked world: value, world after, number of suspensions. -/
def stepC (op : COp) (vals : List Nat) (w : CW) : Nat × CW × Nat :=
  if w.mem.dead then (0, w, 0) else
  match op with
  | .pure f => (f w.mem.fields vals, { w with mem := w.mem.push (f w.mem.fields vals) }, 0)
  | .store i g =>
    let v := g (w.mem.field i) w.mem.last
    (v, { w with mem := (w.mem.setField i v).push v }, 0)
  | .rd m =>
    match readGo m RdSt.start w.src.pending w.src.consumed w.src.susp w.src.future with
    | (some v, src) => (v, { w with src := src, mem := w.mem.push v }, src.susp - w.src.susp)
    | (none, src) => (0, { w with src := src, mem := { w.mem with dead := true } }, src.susp - w.src.susp)
  | .skip f =>
    match skipGo (f w.mem.fields vals) w.src.pending w.src.consumed w.src.susp w.src.future with
    | (true, src) => (0, { w with src := src }, src.susp - w.src.susp)
    | (false, src) => (0, { w with src := src, mem := { w.mem with dead := true } }, src.susp - w.src.susp)
  | .skip1 =>
    match skip1Go w.src.pending w.src.consumed w.src.susp w.src.future with
    | (true, src) => (0, { w with src := src }, src.susp - w.src.susp)
    | (false, src) => (0, { w with src := src, mem := { w.mem with dead := true } }, src.susp - w.src.susp)
  | .wr f =>
    let r := writeGo (f w.mem.fields vals) w.dst.room w.dst.out w.wsusp w.dst.future
    (0, { w with dst := r.1, wsusp := r.2 }, r.2 - w.wsusp)
  | .yieldSR =>
    -- cprobe.go: `if (delivered < total) deliver the next chunk; else if (npending == 0) final`
    -- (the driver's chunk lists never end in empty chunks only: `chunksOf`)
    if (w.src.pending ++ w.src.future.flatten).isEmpty then
      (0, { w with mem := { w.mem with dead := true, nyield := w.mem.nyield + 1 } }, 0)
    else
      match w.src.future with
      | ch :: fut =>
        (0, { w with src := { w.src with pending := w.src.pending ++ ch, future := fut },
                     mem := { w.mem with nyield := w.mem.nyield + 1 } }, 0)
      | [] => (0, { w with mem := { w.mem with nyield := w.mem.nyield + 1 } }, 0)
  | .yieldSW =>
    if w.dst.room == 0 then
      match w.dst.future with
      | p :: ps =>
        (0, { w with dst := { w.dst with room := p, future := ps },
                     mem := { w.mem with nyield := w.mem.nyield + 1 } }, 0)
      | [] =>
        (0, { w with dst := { w.dst with room := 65536 },
                     mem := { w.mem with nyield := w.mem.nyield + 1 } }, 0)
    else (0, { w with mem := { w.mem with nyield := w.mem.nyield + 1 } }, 0)
  | .ext x => x.c vals w

/-- One operation in the one-shot world. -/
def stepO (op : COp) (vals : List Nat) (w : OW) : Nat × OW :=
  if w.mem.dead then (0, w) else
  match op with
  | .pure f => (f w.mem.fields vals, { w with mem := w.mem.push (f w.mem.fields vals) })
  | .store i g =>
    let v := g (w.mem.field i) w.mem.last
    (v, { w with mem := (w.mem.setField i v).push v })
  | .rd m =>
    if m.n / 8 ≤ w.rest.length then
      (peek m.be (w.rest.take (m.n / 8)),
        { w with rest := w.rest.drop (m.n / 8), consumed := w.consumed + m.n / 8,
                 mem := w.mem.push (peek m.be (w.rest.take (m.n / 8))) })
    else (0, { w with rest := [], consumed := w.consumed + w.rest.length, mem := { w.mem with dead := true } })
  | .skip f =>
    if f w.mem.fields vals ≤ w.rest.length then
      (0, { w with rest := w.rest.drop (f w.mem.fields vals), consumed := w.consumed + f w.mem.fields vals })
    else (0, { w with rest := [], consumed := w.consumed + w.rest.length, mem := { w.mem with dead := true } })
  | .skip1 =>
    if 1 ≤ w.rest.length then (0, { w with rest := w.rest.drop 1, consumed := w.consumed + 1 })
    else (0, { w with rest := [], consumed := w.consumed + w.rest.length, mem := { w.mem with dead := true } })
  | .wr f => (0, { w with out := w.out ++ [UInt8.ofNat (f w.mem.fields vals % 256)] })
  | .yieldSR =>
    if w.rest.isEmpty then (0, { w with mem := { w.mem with dead := true, nyield := w.mem.nyield + 1 } })
    else (0, { w with mem := { w.mem with nyield := w.mem.nyield + 1 } })
  | .yieldSW => (0, { w with mem := { w.mem with nyield := w.mem.nyield + 1 } })
  | .ext x => x.o vals w

/-- The operation of an expression occurrence. Only an expression that the analysis sees as an
I/O built-in (`coro`, `ioRecv`) can be one; only one it sees as another coroutine call can be a
callee (an ill-placed operation reads as the constant 0). Pure functions, field stores and the
driver's reaction to a yielded status do not suspend and can stand anywhere. -/
def opAt (interp : Nat → COp) (e : Ex) : COp :=
  match interp e.tag with
  | .pure f => .pure f
  | .store i g => .store i g
  | .yieldSR => .yieldSR
  | .yieldSW => .yieldSW
  | .ext x => if e.coro && !e.ioRecv then .ext x else .pure (fun _ _ => 0)
  | op => if e.coro && e.ioRecv then op else .pure (fun _ _ => 0)

/-- The chunked interpretation; `comb t` is the operator of the `op=` assignment whose right-hand
side has tag `t`. -/
def chunkCfg (interp : Nat → COp) (comb : Nat → Nat → Nat → Nat) : Cfg CW where
  val e w vals := (stepC (opAt interp e) vals w).1
  next e w vals := (stepC (opAt interp e) vals w).2.1
  nsusp e w vals := (stepC (opAt interp e) vals w).2.2
  comb e := comb e.tag

/-- The one-shot interpretation (nothing ever suspends). -/
def oneCfg (interp : Nat → COp) (comb : Nat → Nat → Nat → Nat) : Cfg OW where
  val e w vals := (stepO (opAt interp e) vals w).1
  next e w vals := (stepO (opAt interp e) vals w).2
  nsusp _ _ _ := 0
  comb e := comb e.tag

def initMem : Mem := ⟨[], 0, false, [], 0, 0⟩

/-- The driver's initial world for source bytes `bs` cut into chunks of the given sizes (after
the list: all the rest) and destination pieces of the given capacities (after the list: 64 KiB
pieces): the first chunk and the first piece are in place. -/
def initCW (srcSizes dstSizes : List Nat) (bs : List UInt8) : CW :=
  let s := initState srcSizes dstSizes bs
  ⟨s.src, s.dst, 0, initMem⟩

def initOW (bs : List UInt8) : OW := ⟨bs, [], 0, initMem⟩

/-- A callee as an operation of its caller: its body run to completion from zeroed locals — by
the generated C (only `R` survives a suspension) in the chunked world, by the language in the
one-shot world. The value is the status it `return`s (0 = ok, also when it falls off its end); an
error status ends the caller too (`status = callee(…); if (status.repr) goto …`): the world is
frozen with that status as `code`. `interp` may depend on the argument values (`args.…` is not a
local of the callee). -/
def calleeFinishC (out : Out) (log : List Nat) (w : CW) : Nat × CW :=
  let v := if out = Out.ret then log.getLastD 0 else 0
  (v, if !w.mem.dead && v != 0 then { w with mem := { w.mem with dead := true, code := v } } else w)

def calleeFinishO (out : Out) (log : List Nat) (w : OW) : Nat × OW :=
  let v := if out = Out.ret then log.getLastD 0 else 0
  (v, if !w.mem.dead && v != 0 then { w with mem := { w.mem with dead := true, code := v } } else w)

def callExt (R : Nat → Bool) (body : List Stmt) (interp : List Nat → Nat → COp)
    (comb : Nat → Nat → Nat → Nat) (fuel : Nat) : Ext where
  c vals w :=
    let r := run R (chunkCfg (interp vals) comb) fuel (Task.block body) ⟨fun _ => 0, w, []⟩
    let f := calleeFinishC r.out r.st.log r.st.w
    (f.1, f.2, (r.evs.filter (· == Ev.susp)).length)
  o vals w :=
    let r := run (fun _ => true) (oneCfg (interp vals) comb) fuel (Task.block body) ⟨fun _ => 0, w, []⟩
    calleeFinishO r.out r.st.log r.st.w

/-- An external operation whose arguments are computed from the caller's `this.…` fields and the
values of the locals the call mentions. -/
def Ext.mapArgs (x : Ext) (g : List Nat → List Nat → List Nat) : Ext where
  c vals w := x.c (g w.mem.fields vals) w
  o vals w := x.o (g w.mem.fields vals) w

end WuffsVerif.Split
