/-
C03 — the C templates that `/repo/internal/cgen/builtin.go` emits for the *suspending* I/O
built-ins (`writeBuiltinQuestionCall`, `writeReadUxxAsUyy`), as state machines over exactly what
that C text touches: `iop`, `io2` (indexes into the buffer's byte array), the `closed` flag of the
buffer (present in the state to show the templates never look at it), and the coroutine's `scratch`
word (`self->private_data.s_<func>.scratch`, a `uint64_t`).

A load `*iop` / store `*iop = v` is *monitored*: `ok` is cleared when `iop` is not below `io2`
(or outside the array). Each function below is one *resumption*: it starts at the coroutine
suspension point the template places (`WUFFS_BASE__COROUTINE_SUSPENSION_POINT`) and runs until the
template either falls through (status still ok) or executes `status = $short read/$short write;
goto suspend`.

Core Lean only.
-/
namespace WuffsVerif.Suspend

/-- An `io_reader` / `io_writer` as the generated function body sees it. -/
structure IO where
  buf : Array UInt8
  iop : Nat
  io2 : Nat
  closed : Bool
  ok : Bool
  deriving Repr, Inhabited

/-- Outcome of one resumption of a suspending built-in. -/
inductive Out where
  /-- fell through: status stays ok; `value` is the temporary `t_N` (0 for skip / write) -/
  | done (io : IO) (value : UInt64)
  /-- `status = wuffs_base__suspension__short_read; goto suspend;` with the scratch word as left -/
  | shortRead (io : IO) (scratch : UInt64)
  /-- `status = wuffs_base__suspension__short_write; goto suspend;` -/
  | shortWrite (io : IO) (scratch : UInt64)
  /-- model artefact: the bounded loop ran out of fuel (never happens from a legal scratch, see Props) -/
  | outOfFuel
  deriving Repr, Inhabited

/-- `*iop++` (load). -/
def IO.load (s : IO) : IO × UInt8 :=
  if s.iop < s.io2 ∧ s.iop < s.buf.size then ({ s with iop := s.iop + 1 }, s.buf.getD s.iop 0)
  else ({ s with iop := s.iop + 1, ok := false }, 0)

/-- `*iop++ = v` (store). -/
def IO.store (s : IO) (v : UInt8) : IO :=
  if s.iop < s.io2 ∧ s.iop < s.buf.size then { s with iop := s.iop + 1, buf := s.buf.setIfInBounds s.iop v }
  else { s with iop := s.iop + 1, ok := false }

/-- `read_u8?` (also `read_u8_as_u16/u32/u64?`):
```
if (WUFFS_BASE__UNLIKELY(iop_a_src == io2_a_src)) { status = $short read; goto suspend; }
t_N = *iop_a_src++;
``` -/
def readU8 (s : IO) : Out :=
  if s.iop == s.io2 then .shortRead s 0
  else
    let r := s.load
    .done r.1 r.2.toUInt64

/-- `skip?(1)` / `skip_u32?(1)` (constant 1): same test, then `iop++` without a load. -/
def skip1 (s : IO) : Out :=
  if s.iop == s.io2 then .shortRead s 0 else .done { s with iop := s.iop + 1 } 0

/-- `skip?(n)`, resumption part (the template first stores `scratch = n` once, before the
suspension point):
```
if (scratch > ((uint64_t)(io2 - iop))) { scratch -= ((uint64_t)(io2 - iop)); iop = io2; status = $short read; goto suspend; }
iop += scratch;
``` -/
def skipN (s : IO) (scratch : UInt64) : Out :=
  let avail : UInt64 := (s.io2 - s.iop).toUInt64
  if scratch > avail then .shortRead { s with iop := s.io2 } (scratch - avail)
  else .done { s with iop := s.iop + scratch.toNat } 0

/-- One round of the `while (true)` body of `writeReadUxxAsUyy` after the `iop == io2` test, for
byte `b`: `.inl scratch'` = go round again, `.inr value` = `break` with `t_N = value`.
`yy` (the width of the result type) only truncates: `(uintYY_t)(…)`. -/
def rdRound (be : Bool) (xx yy : Nat) (scratch : UInt64) (b : UInt8) : UInt64 ⊕ UInt64 :=
  if be then
    let numBits : UInt64 := scratch &&& 0xFF
    let s := (scratch >>> 8) <<< 8
    let s := s ||| (b.toUInt64 <<< (56 - numBits))
    if numBits == (xx - 8).toUInt64 then .inr ((s >>> (64 - xx).toUInt64).toNat % 2 ^ yy).toUInt64
    else .inl (s ||| (numBits + 8))
  else
    let numBits : UInt64 := scratch >>> 56
    let s := (scratch <<< 8) >>> 8
    let s := s ||| (b.toUInt64 <<< numBits)
    if numBits == (xx - 8).toUInt64 then .inr (s.toNat % 2 ^ yy).toUInt64
    else .inl (s ||| ((numBits + 8) <<< 56))

/-- The `while (true)` of `writeReadUxxAsUyy` from its suspension point:
```
while (true) {
  if (WUFFS_BASE__UNLIKELY(iop == io2)) { status = $short read; goto suspend; }
  … rdRound …
}
```
`fuel` bounds the number of rounds (8 suffice from any legal scratch). -/
def rdLoop (be : Bool) (xx yy : Nat) : Nat → IO → UInt64 → Out
  | 0, _, _ => .outOfFuel
  | fuel + 1, s, scratch =>
    if s.iop == s.io2 then .shortRead s scratch
    else
      let r := s.load
      match rdRound be xx yy scratch r.2 with
      | .inr v => .done r.1 v
      | .inl sc => rdLoop be xx yy fuel r.1 sc

/-- `wuffs_base__peek_uXXYe__no_bounds_check(iop)`, `n` bytes, monitored. -/
def peekN (be : Bool) : Nat → IO → UInt64 → Nat → IO × UInt64
  | 0, s, acc, _ => (s, acc)
  | n + 1, s, acc, k =>
    let r := s.load
    if be then peekN be n r.1 ((acc <<< 8) ||| r.2.toUInt64) (k + 1)
    else peekN be n r.1 (acc ||| (r.2.toUInt64 <<< (8 * k).toUInt64)) (k + 1)

/-- First entry of `read_uXXYe[_as_uYY]?`:
```
if (WUFFS_BASE__LIKELY(io2 - iop >= xx/8)) { t_N = (uintYY_t)peek_uXXYe(iop); iop += xx/8; }
else { scratch = 0; <suspension point> while (true) {…} }
``` -/
def readUxxEnter (be : Bool) (xx yy : Nat) (s : IO) : Out :=
  if s.io2 - s.iop ≥ xx / 8 ∧ s.iop ≤ s.io2 then
    let r := peekN be (xx / 8) s 0 0
    .done r.1 (r.2.toNat % 2 ^ yy).toUInt64
  else rdLoop be xx yy 9 s 0

/-- Resumption of `read_uXXYe?` after a `$short read`. -/
def readUxxResume (be : Bool) (xx yy : Nat) (s : IO) (scratch : UInt64) : Out :=
  rdLoop be xx yy 9 s scratch

/-- `write_u8?`, resumption part (the template stores `scratch = value` once before the point):
```
if (iop_a_dst == io2_a_dst) { status = $short write; goto suspend; }
*iop_a_dst++ = ((uint8_t)(scratch));
``` -/
def writeU8 (s : IO) (scratch : UInt64) : Out :=
  if s.iop == s.io2 then .shortWrite s scratch else .done (s.store scratch.toUInt8) 0

/-- The reader/writer after an outcome (`none` for `outOfFuel`). -/
def Out.io? : Out → Option IO
  | .done s _ => some s
  | .shortRead s _ => some s
  | .shortWrite s _ => some s
  | .outOfFuel => none

/-- The suspending I/O built-ins that have a template, at a resumption point. -/
inductive Call where
  | readU8
  | skip1
  | skipN (scratch : UInt64)
  | readEnter (be : Bool) (xx yy : Nat)
  | readResume (be : Bool) (xx yy : Nat) (scratch : UInt64)
  | writeU8 (scratch : UInt64)
  deriving Repr

/-- One resumption of the template. -/
def run : Call → IO → Out
  | .readU8, s => readU8 s
  | .skip1, s => skip1 s
  | .skipN sc, s => skipN s sc
  | .readEnter be xx yy, s => readUxxEnter be xx yy s
  | .readResume be xx yy sc, s => readUxxResume be xx yy s sc
  | .writeU8 sc, s => writeU8 s sc

/-- Set the `closed` flag of whatever reader/writer an outcome carries. -/
def Out.setClosed (b : Bool) : Out → Out
  | .done s v => .done { s with closed := b } v
  | .shortRead s sc => .shortRead { s with closed := b } sc
  | .shortWrite s sc => .shortWrite { s with closed := b } sc
  | .outOfFuel => .outOfFuel

/-- Frame invariant of the pointers: inside the buffer, flag set. -/
def Inv (s : IO) : Prop := s.iop ≤ s.io2 ∧ s.io2 ≤ s.buf.size ∧ s.ok = true

def isShortReadAt (o : Out) (iop : Nat) (scratch : UInt64) : Bool :=
  match o with
  | .shortRead s' sc => s'.iop == iop && sc == scratch
  | _ => false

end WuffsVerif.Suspend
