/-
C09 — the PNG row filters that have SSE4.2 twins, one byte channel at a time.

Sources:
* /repo/std/png/decode_filter_fallback.wuffs `filter_1_distance_4_fallback` (Sub: `fa ~mod+ curr`),
  `filter_3_distance_4_fallback` (Average: `((fa + prev) / 2) as u8 ~mod+ curr`, first row `fa / 2`),
  `filter_4_distance_{3,4}_fallback` (Paeth in u32 `~mod` arithmetic with `if p >= 0x8000_0000 { p = 0 ~mod- p }`);
* /repo/std/png/decode_filter_x86_sse42.wuffs `filter_1_distance_4_x86_sse42` (`_mm_add_epi8`),
  `filter_3_distance_4_x86_sse42` (`_mm_avg_epu8` rounds up, corrected by `(a ^ b) & 1`; first row:
  `(a & 0xFE) avg 0`), `filter_4_distance_{3,4}_x86_sse42` (i16 lanes: `_mm_sub_epi16`, `_mm_abs_epi16`,
  `_mm_min_epi16`, `_mm_cmpeq_epi16` + `_mm_blendv_epi8`, `_mm_add_epi8`, `_mm_packus_epi16`).
The SIMD lanes of these functions are the 3 or 4 channels of ONE pixel; pixels are processed
sequentially, so a per-channel recurrence (`a` = filtered byte one pixel to the left, `b` = byte above,
`c` = above-left) is an exact description.  (`filter_4_distance_3_x86_sse42` loads 4 bytes and
stores 3: its fourth lane is dead.)  The intrinsic semantics are Intel's documented ones; tied to the
compiled functions by execution (`pngfilter` ops).  Core Lean only.
-/
namespace WuffsVerif.PngFilter

def W : Nat := 4294967296
def wrap16 (v : Int) : Int := (v + 32768) % 65536 - 32768
/-- `_mm_abs_epi16` -/
def abs16 (v : Int) : Int := if v < 0 then wrap16 (-v) else v
/-- `_mm_min_epi16` (signed) -/
def imin (a b : Int) : Int := if a ≤ b then a else b

def absDiff (u v : Nat) : Nat := if u ≥ v then u - v else v - u

/-- `if p >= 0x8000_0000 { p = 0 ~mod- p }` -/
def uabs (v : Nat) : Nat := if v ≥ 2147483648 then (W - v) % W else v

/-- portable Paeth, one channel (`fa`, `fb`, `fc` are u32 holding bytes) -/
def paethPortable (a b c x : Nat) : Nat :=
  let pp := ((a + b) % W + W - c) % W
  let pa := uabs ((pp + W - a) % W)
  let pb := uabs ((pp + W - b) % W)
  let pc := uabs ((pp + W - c) % W)
  let sel := if pa ≤ pb ∧ pa ≤ pc then a else if pb ≤ pc then b else c
  (x + sel % 256) % 256

/-- SSE4.2 Paeth, one i16 lane -/
def paethSse (a b c x : Nat) : Nat :=
  let pa0 := wrap16 ((b : Int) - c)
  let pb0 := wrap16 ((a : Int) - c)
  let pc0 := wrap16 (pa0 + pb0)
  let pa := abs16 pa0
  let pb := abs16 pb0
  let pc := abs16 pc0
  let smallest := imin pc (imin pb pa)
  let p : Nat := if smallest = pa then a else if smallest = pb then b else c
  -- `_mm_add_epi8` on the unpacked lane: low byte (x + p) mod 256, high byte 0 + 0; `_mm_packus_epi16`
  let lo := (x + p % 256) % 256
  let hi := (0 + p / 256) % 256
  let lane := hi * 256 + lo
  if lane > 255 then 255 else lane

/-- the PNG specification's Paeth predictor (ties: a, then b, then c) -/
def paethSpec (a b c x : Nat) : Nat :=
  let pa := absDiff b c
  let pb := absDiff a c
  let pc := absDiff (a + b) (2 * c)
  let sel := if pa ≤ pb ∧ pa ≤ pc then a else if pb ≤ pc then b else c
  (x + sel) % 256

def subPortable (a x : Nat) : Nat := (a + x) % 256
def subSse (a x : Nat) : Nat := (x + a) % 256

def avgPortable (a b x : Nat) : Nat := ((a + b) / 2 % 256 + x) % 256
def avgSse (a b x : Nat) : Nat :=
  let p := (a + b + 1) / 2                 -- `_mm_avg_epu8` rounds up
  let corr := 1 &&& (a ^^^ b)              -- `k128 & (a128 ^ b128)`, k128 = 0x01 repeated
  (x + (p + 256 - corr) % 256) % 256       -- `_mm_sub_epi8`, `_mm_add_epi8`
def avgFirstPortable (a x : Nat) : Nat := (a / 2 + x) % 256
def avgFirstSse (a x : Nat) : Nat := (x + ((a &&& 254) + 0 + 1) / 2) % 256

/-- one byte of the row, portable code: filter type `f` (1 Sub, 3 Average, 4 Paeth) -/
def stepPortable (f : Nat) (prevEmpty : Bool) (a b c x : Nat) : Nat :=
  if f = 1 then subPortable a x
  else if f = 3 then (if prevEmpty then avgFirstPortable a x else avgPortable a b x)
  else if f = 4 then paethPortable a b c x
  else x

/-- one byte of the row, SSE4.2 code -/
def stepSse (f : Nat) (prevEmpty : Bool) (a b c x : Nat) : Nat :=
  if f = 1 then subSse a x
  else if f = 3 then (if prevEmpty then avgFirstSse a x else avgSse a b x)
  else if f = 4 then paethSse a b c x
  else x

/-- a whole row with filter distance `d` (bytes per pixel): `curr` is filtered in place, left to right -/
def runRowWith (step : Nat → Bool → Nat → Nat → Nat → Nat → Nat) (f d : Nat) (curr prev : Array UInt8) : List UInt8 :=
  ((List.range curr.size).foldl (fun (out : Array UInt8) i =>
    let a := if i < d then 0 else (out.getD (i - d) 0).toNat
    let b := (prev.getD i 0).toNat
    let c := if i < d then 0 else (prev.getD (i - d) 0).toNat
    out.push (UInt8.ofNat (step f prev.isEmpty a b c (curr.getD i 0).toNat))) #[]).toList

def runRowPortable := runRowWith stepPortable
def runRowSse := runRowWith stepSse

end WuffsVerif.PngFilter
