/-
Model of `Tokenize` of /repo/lang/token/token.go (C12's own, list-based and core-only — C11 has
its own in Model/Token.lean; C12: the Wuffs formatter re-tokenizes
its own output), function by function.  Core Lean only.  The built-in token tables
(`builtInsByID`, `squiggles`, `lexers`, the ID classifiers) come from
`Gen/C12_Tokens.lean`, regenerated from the working tree on every run.

A token is (`id`, `text`, `line`).  `token.Map` interns texts: equal texts get equal IDs
and built-in texts get their fixed ID, so `id` is the built-in ID or `nBuiltInIDs` for every
other text (Render only ever compares IDs with built-in constants, and classifies the others
by the first byte of their text, exactly as `IsIdent`/`IsLiteral` do).
Not modelled: the "too many distinct tokens" error (needs more than 2^20 distinct texts).
-/
import WuffsVerif.Gen.C12_Tokens

namespace WuffsVerif.FmtToken
open WuffsVerif.Gen.C12

abbrev Bytes := List UInt8

structure Tok where
  id : Nat
  text : Bytes
  line : Nat
deriving DecidableEq, Repr, Inhabited

def maxLine : Nat := 1048575
def maxTokenSize : Nat := 1023

/-- built-ins as (text, id, flags) -/
def builtinTable : List (Bytes × Nat × Nat) := builtins.map (fun e => (e.2.1, e.1, e.2.2))

/-- built-ins bucketed by first byte (only a speed-up of the linear search) -/
def builtinBuckets : Array (List (Bytes × Nat × Nat)) :=
  builtinTable.foldl (fun a e =>
    match e.1 with
    | [] => a
    | c :: _ => a.modify c.toNat (fun l => l ++ [e])) (Array.replicate 256 [])

/-- `builtInsByName[text]` as (id, flags) -/
def builtinByName (text : Bytes) : Option (Nat × Nat) :=
  match text with
  | [] => none
  | c :: _ => ((builtinBuckets[c.toNat]!).find? (fun e => e.1 == text)).map (·.2)

/-- flags of a built-in ID -/
def flagsOfId (id : Nat) : Nat :=
  match builtins.find? (fun e => e.1 == id) with
  | some e => e.2.2
  | none => 0

def alpha (c : UInt8) : Bool := (65 ≤ c && c ≤ 90) || (97 ≤ c && c ≤ 122) || c == 95
def numeric (c : UInt8) : Bool := 48 ≤ c && c ≤ 57
def alphaNumeric (c : UInt8) : Bool := alpha c || numeric c
def hexaNumericUnderscore (c : UInt8) : Bool :=
  (65 ≤ c && c ≤ 70) || (97 ≤ c && c ≤ 102) || c == 95 || numeric c
def zeroOneUnderscore (c : UInt8) : Bool := c == 95 || c == 48 || c == 49
def numericUnderscore (c : UInt8) : Bool := c == 95 || numeric c

/-- `m.Insert(text)` + the ID's classification: (id, flags) of a word / literal text -/
def intern (text : Bytes) : Nat × Nat :=
  match builtinByName text with
  | some r => r
  | none =>
    match text with
    | c :: _ => (nBuiltInIDs, if alpha c then 16 + 64 else 32 + 64)  -- IsIdent / IsLiteral; both implicit-semicolon
    | [] => (0, 0)

def hasFlag (fl bit : Nat) : Bool := (fl / bit) % 2 == 1

/-- `ID.IsImplicitSemicolon` of a token -/
def Tok.implicitSemicolon (t : Tok) : Bool :=
  if t.id < nBuiltInIDs then hasFlag (flagsOfId t.id) 64 else true

/-- `unhex` -/
def unhex (c : UInt8) : Option Nat :=
  if 65 ≤ c && c ≤ 70 then some (c.toNat - 55)
  else if 97 ≤ c && c ≤ 102 then some (c.toNat - 87)
  else if 48 ≤ c && c ≤ 57 then some (c.toNat - 48)
  else none

/-- `backslashes[c] != 0` -/
def isBackslashEscape (c : UInt8) : Bool :=
  c == 34 || c == 39 || c == 47 || c == 48 || c == 63 || c == 92 || c == 97 || c == 98 ||
  c == 101 || c == 102 || c == 110 || c == 114 || c == 116 || c == 118

/-- `utf8.ValidRune` -/
def validRune (u : Nat) : Bool := u < 0xD800 || (0xE000 ≤ u && u ≤ 0x10FFFF)

/-- length of `utf8.EncodeRune` -/
def runeLen (u : Nat) : Nat := if u < 0x80 then 1 else if u < 0x800 then 2 else if u < 0x10000 then 3 else 4

def hexValue : Bytes → Option Nat
  | [] => some 0
  | c :: cs => do
    let d ← unhex c
    let r ← hexValue cs
    pure (d * 16 ^ cs.length + r)

/-- The second loop of `Unescape` on the text between the quotes: the LENGTH of the
unescaped string, or `none` if it is invalid. -/
def unescapedLen : Nat → Bytes → Option Nat
  | 0, _ => none
  | _ + 1, [] => some 0
  | f + 1, c :: cs =>
    if c != 92 then (unescapedLen f cs).map (· + 1)
    else match cs with
      | [] => none                                  -- `i >= len(s)-1`: falls through to `return "", false`
      | e :: rest =>
        if isBackslashEscape e then (unescapedLen f rest).map (· + 1)
        else if e == 120 && rest.length ≥ 2 then    -- `\x`, `i < len(s)-3`
          match hexValue (rest.take 2) with
          | some _ => (unescapedLen f (rest.drop 2)).map (· + 1)
          | none => none
        else if e == 117 && rest.length ≥ 4 then    -- `\u`, `i < len(s)-5`
          match hexValue (rest.take 4) with
          | some u => if validRune u then (unescapedLen f (rest.drop 4)).map (· + runeLen u) else none
          | none => none
        else if e == 85 && rest.length ≥ 8 then     -- `\U`, `i < len(s)-9`
          match hexValue (rest.take 8) with
          | some u => if validRune u then (unescapedLen f (rest.drop 8)).map (· + runeLen u) else none
          | none => none
        else none

/-- `Unescape(s)` for a `'`-string token text: `some (length of the unescaped string)` or `none`. -/
def unescapeSQ (s : Bytes) : Option Nat :=
  if s.length < 2 then none else
  let n := s.length
  let body? : Option Bytes :=
    if s.getLast? == some 39 then some ((s.drop 1).take (n - 2))
    else if n ≥ 4 && s[n - 3]? == some 39 && (s[n - 2]? == some 98 || s[n - 2]? == some 108) && s[n - 1]? == some 101 then
      some ((s.drop 1).take (n - 4))
    else none
  match body? with
  | none => none
  | some body => unescapedLen (body.length + 1) body

/-- the string loop: scan from just after the opening quote; returns the consumed bytes
(including the closing quote if there is one) and the rest, or `none` on an error. -/
def scanString (quote : UInt8) : Bytes → Option (Bytes × Bytes)
  | [] => some ([], [])
  | c :: cs =>
    if c == quote then some ([c], cs)
    else if c == 92 then
      if quote == 34 then none else (scanString quote cs).map (fun r => (c :: r.1, r.2))
    else if c == 10 then none
    else if c < 32 then none
    else (scanString quote cs).map (fun r => (c :: r.1, r.2))

/-- `checkNumericUnderscores` -/
def checkNumericUnderscores (a : Bytes) : Bool :=
  let rec go : Bool → Bytes → Bool
    | prev, [] => !prev
    | prev, c :: cs => if prev && c == 95 then false else go (c == 95) cs
  go false a

/-- `squiggles[c]` -/
def squiggleOf (c : UInt8) : Option Nat := (squiggles.find? (fun e => e.1 == c)).map (·.2)

/-- `lexers[c]` with byte-list suffixes -/
def lexersOf (c : UInt8) : List (Bytes × Nat) :=
  match lexers.find? (fun e => e.1 == c) with
  | some e => e.2
  | none => []

/-- the squiggle / lexers part of `Tokenize` at `c :: rest`: (id, text length) -/
def lexPunct (c : UInt8) (rest : Bytes) : Option (Nat × Nat) :=
  match squiggleOf c with
  | some id => some (id, 1)
  | none => ((lexersOf c).find? (fun x => x.1.isPrefixOf rest)).map (fun x => (x.2, x.1.length + 1))

/-- set `comments[line]` (padding with "" as `for uint32(len(comments)) < line`) -/
def setComment (comments : Array Bytes) (line : Nat) (text : Bytes) : Array Bytes :=
  (comments ++ Array.replicate (line - comments.size) []).push text

/-- `Tokenize`: tokens (reversed accumulator), comments by line; `none` = any error. -/
def tokenizeLoop : Nat → Bytes → Nat → List Tok → Array Bytes → Option (List Tok × Array Bytes)
  | 0, _, _, _, _ => none
  | _ + 1, [], _, toks, comments => some (toks.reverse, comments)
  | f + 1, c :: rest, line, toks, comments =>
    if c ≤ 32 then
      if c == 10 then
        let toks' := match toks with
          | t :: _ => if t.implicitSemicolon then ⟨idSemicolon, [59], line⟩ :: toks else toks
          | [] => toks
        if line == maxLine then none else tokenizeLoop f rest (line + 1) toks' comments
      else tokenizeLoop f rest line toks comments
    else if c == 34 || c == 39 then
      match scanString c rest with
      | none => none
      | some (body, after) =>
        let hasEndian := c == 39 && after.length > 2 &&
          (after.head? == some 98 || after.head? == some 108) && after[1]? == some 101
        let text := c :: body ++ (if hasEndian then after.take 2 else [])
        let after' := if hasEndian then after.drop 2 else after
        if text.length > maxTokenSize then none
        else if c == 39 && (match unescapeSQ text with
            | none => true
            | some n => n > 1 && !hasEndian) then none
        else
          tokenizeLoop f after' line (⟨(intern text).1, text, line⟩ :: toks) comments
    else if alpha c then
      let word := c :: rest.takeWhile alphaNumeric
      if word.length > maxTokenSize then none
      else tokenizeLoop f (rest.dropWhile alphaNumeric) line (⟨(intern word).1, word, line⟩ :: toks) comments
    else if numeric c then
      let pre? : Option (Bytes × (UInt8 → Bool)) :=
        match rest with
        | [] => some ([], numericUnderscore)
        | nx :: _ =>
          if c == 48 && (nx == 120 || nx == 88) then some ([nx], hexaNumericUnderscore)
          else if c == 48 && (nx == 98 || nx == 66) then some ([nx], zeroOneUnderscore)
          else if c == 48 && numeric nx then none
          else some ([], numericUnderscore)
      match pre? with
      | none => none
      | some (pre, isDigit) =>
        let rest' := rest.drop pre.length
        let text := c :: pre ++ rest'.takeWhile isDigit
        if text.length > maxTokenSize then none
        else if !checkNumericUnderscores text then none
        else tokenizeLoop f (rest'.dropWhile isDigit) line (⟨(intern text).1, text, line⟩ :: toks) comments
    else if c == 47 && rest.head? == some 47 then
      let com := c :: rest.takeWhile (· != 10)
      tokenizeLoop f (rest.dropWhile (· != 10)) line toks (setComment comments line com)
    else
      match lexPunct c rest with
      | some (id, n) => tokenizeLoop f (rest.drop (n - 1)) line (⟨id, (c :: rest).take n, line⟩ :: toks) comments
      | none => none

/-- `Tokenize(m, filename, src)` -/
def tokenize (src : Bytes) : Option (List Tok × Array Bytes) :=
  tokenizeLoop (src.length + 1) src 1 [] #[]

end WuffsVerif.FmtToken
