/-
Model of parts of /repo/lang/render/render.go (C12, the Wuffs formatter).
Core Lean only.

* `appendNum` — the digit grouping / upper-casing of a numeric literal's text.
-/
namespace WuffsVerif.Render

abbrev Bytes := List UInt8

def USCORE : UInt8 := 95

/-- the second loop of `appendNum`: `d` is `digitsUntilGroup`, `g` is `groupLen`. -/
def groupDigits (g : Nat) : Nat → Bytes → Bytes
  | _, [] => []
  | d, c :: cs =>
    if c == USCORE then groupDigits g d cs
    else
      let c' : UInt8 := if 97 ≤ c then c - 32 else c
      if d > 0 then c' :: groupDigits g (d - 1) cs
      else USCORE :: c' :: groupDigits g (g - 1) cs

/-- the first loop of `appendNum` -/
def nonUnderscores (s : Bytes) : Nat := (s.filter (· != USCORE)).length

/-- `appendNum(nil, s)` after the prefix has been split off. -/
def groupBody (g : Nat) (s : Bytes) : Bytes :=
  let n := nonUnderscores s % g
  groupDigits g (if n == 0 then g else n) s

/-- `appendNum(nil, s)` -/
def appendNum (s : Bytes) : Bytes :=
  match s with
  | 48 :: p :: rest =>
    if p == 88 || p == 120 then 48 :: 120 :: groupBody 4 rest
    else if p == 66 || p == 98 then 48 :: 98 :: groupBody 4 rest
    else groupBody 6 s
  | _ => groupBody 6 s

end WuffsVerif.Render
