import WuffsVerif.Model.Effects
/-
C10 — the effect FLAGS of AST nodes and the parser's checks on them, mirrored
at the level of lang/ast `NewExpr` and lang/parse `parseExpr`, `parseArgNode`,
`parseAssignNode`, for the concrete text that the fragment of
Model/Effects.lean is rendered to (harness/cmd/c10/effects.go `wuffs()`):

  lit n        `(n as base.u32)`            arr f i   `(this.arr<f>[i] as base.u32)`
  add l r      `(l ~mod+ r)`                call      `this.m<k><mark>(x: a, s: ls, t: lt, pb: args.pb)`
  slice bound  a call is written bare, another lower bound `(e & 3)`,
               another upper bound `((e & 1) + 3)` or a constant

Every `( … )` is one `parseExpr` call, i.e. one `SubExprHasEffect` check on the
node inside; every argument value is one `parseArgNode` (a `parseExpr`, then
`Effect() != 0` is an error; `NewArg` does NOT copy the value's flags, so a
call node never has `FlagsSubExprHasEffect` through its arguments).
Props/C10Flags.lean proves that the rules `tcheck` uses (`Expr.effect`,
`Expr.subExprOk`, `SRef.parseOk`, `Stmt.parseOk`) say exactly what these
flag-level checks say.  Core Lean only.
-/
namespace WuffsVerif.Effects

/-- The two facts the parser reads off a node: `Expr.Effect()` (the low byte of
    the flags) and `Expr.SubExprHasEffect()`. -/
structure Flags where
  eff : Eff
  sub : Bool
  deriving DecidableEq, Repr

def Flags.none : Flags := ⟨.pure, false⟩

/-- ast.go `NewExpr(flags, operator, ident, lhs, mhs, rhs, args)`: the effect
    bits of ALL children (`lhs`, `mhs`, `rhs`, every `args[i]`; here: `children`)
    are OR-ed into the node's flags, and if any child had one,
    `FlagsSubExprHasEffect` is set as well. -/
def newExpr (own : Eff) (children : List Flags) : Flags :=
  let sub := children.any (fun c => c.eff == .impure)
  ⟨if sub then .impure else own, sub⟩

/-- Flags of the node an expression of the fragment parses to. -/
def Expr.flags : Expr → Flags
  | .call mk _ _ => newExpr mk [Flags.none]                  -- lhs = `this.m<k>`; the Arg nodes carry no flags
  | .add l r => newExpr .pure [l.flags, r.flags]             -- lhs, rhs
  | _ => Flags.none

/-- All the checks the parser makes while parsing the text of `e` as an operand:
    `parseExpr`'s check at every parenthesis, `parseArgNode`'s two checks at
    every argument value. -/
def Expr.exact : Expr → Bool
  | .call _ _ a => a.exact && !a.flags.sub && a.flags.eff == .pure
  | .add l r => l.exact && r.exact && !(Expr.add l r).flags.sub
  | _ => true

/-- `(e & 3)` / `((e & 1) + 3)`: one (resp. two) more binary nodes, each inside
    its own parentheses, around the operand `e`. -/
def wrapFlags (e : Expr) : Flags := newExpr .pure [e.flags, Flags.none]
def wrapExact (e : Expr) : Bool := e.exact && !(wrapFlags e).sub

/-- a slice bound as written: a call stays bare, anything else is wrapped -/
def boundFlags : Option Expr → Flags
  | none => Flags.none
  | some e => if e.isCall then e.flags else wrapFlags e

def boundExact : Option Expr → Bool
  | none => true
  | some e => if e.isCall then e.exact && !e.flags.sub else wrapExact e   -- parseBracket calls parseExpr

/-- The slice node `this.arr<f>[lo .. hi]`: `NewExpr(0, slice, lhs, mhs = lo, rhs = hi, nil)`. -/
def SRef.flags : SRef → Flags
  | .sub _ lo hi => newExpr .pure [Flags.none, boundFlags lo, boundFlags hi]
  | .pal => newExpr .pure [Flags.none]                        -- `args.pb.palette()`, an unmarked call
  | _ => Flags.none

def SRef.exact : SRef → Bool
  | .sub _ lo hi => boundExact lo && boundExact hi
  | _ => true

/-- `parseExpr` on text that is, or contains, the slice expression `s`. -/
def SRef.parseExact (s : SRef) : Bool := s.exact && !s.flags.sub && s.flags.eff == .pure

/-- parse.go `parseAssignNode` / `parseIf` / `parseWhile` / expression
    statements, check by check, for a function whose effect is `f`. -/
def Stmt.parseExact (f : Eff) : Stmt → Bool
  | .skip => true
  | .seq a b => a.parseExact f && b.parseExact f
  | .ite c t e =>
      -- `if c <> 0`: c is an operand of `<>`; the comparison node is checked by parseExpr
      c.exact && !(wrapFlags c).sub && t.parseExact f && e.parseExact f
  | .loop c b => c.exact && !(wrapFlags c).sub && b.parseExact f
  | .setLoc _ e => e.exact && !e.flags.sub && e.flags.eff.le f
  | .setFld _ e => f == .impure && e.exact && !e.flags.sub && e.flags.eff.le f
  | .setArg e => f == .impure && e.exact && !e.flags.sub && e.flags.eff.le f
  | .setArr _ _ e => f == .impure && wrapExact e                 -- rhs is `((e & 0xFF) as base.u8)`
  | .setBuf s e => (!s.rootedAtThisOrArgs || f == .impure) && wrapExact e && s.parseExact
  | .bind _ s => s.exact && !s.flags.sub && s.flags.eff.le f        -- rhs = parseExpr(); then WeakerThan(rhs.Effect())
  | .copy mark d s => mark.le f && d.parseExact && s.parseExact
  | .callS mark _ a => (a.exact && !a.flags.sub && a.flags.eff == .pure) && mark.le f
  | .choose => f == .impure

def Method.parseExact (m : Method) : Bool :=
  m.body.parseExact m.eff && wrapExact m.result                 -- `return (result & 3)`

end WuffsVerif.Effects
