/-
RFC 1951 (DEFLATE) and RFC 1950 (zlib) *specification* decoders, core Lean only.

This file is shared: it is the oracle/spec of C16 (flatecut/zlibcut), and of C07/C13/C19
later.  It is written from the RFCs, not from any Wuffs source.  Where the RFC leaves
behaviour open (incomplete Huffman codes, what a truncated stream yields) it follows
Go's `compress/flate` (go1.23), because that package is the reference decoder of the
harness and the decoder that `flatecut.cutSingleBlock` calls:

* a code-length set is accepted iff it is empty, or complete (Kraft sum = 1), or consists
  of exactly one code of length 1 (`huffmanDecoder.init`);
* using an empty code, or the unassigned half of the one-code code, is `corrupt`;
* a stream that ends early is `truncated`, and `out` then holds every byte that was
  produced by completely decoded symbols (Go flushes its window on error).  A symbol is
  only attempted when at least `minBits` bits are left (`huffSym` reads `h.min` bits
  first, and for the literal/length code of a dynamic block `h.min` is raised to the
  length of the end-of-block code).

API (everything total, structural recursion on fuel that provably suffices):
  `inflateRaw dict s cap : Result`      full detail (status, bit position, output); `cap = some n`
                                        = stop as soon as `n` bytes are out (`Status.capped`)
  `inflate s : Option (Bytes × Nat)`    output and number of consumed bytes
  `inflateList : List UInt8 → Option (List UInt8 × Nat)`
  `zlibDecode dict s : Option (Bytes × Nat)`,  `adler32`.
-/
namespace WuffsVerif.Flate.Spec

abbrev Bytes := Array UInt8

/-! ## Bit reader (RFC 1951 §3.1.1: bits are packed starting at the least significant bit) -/

/-- Bit number `p` of the stream (`p / 8` selects the byte, `p % 8` the bit, LSB = 0); 0 past the end. -/
@[inline] def bitAt (s : Bytes) (p : Nat) : Nat :=
  ((s.getD (p / 8) 0).toNat >>> (p % 8)) % 2

/-- The `n`-bit data element starting at bit `p`, first bit least significant. -/
def bitsLE (s : Bytes) (p : Nat) : Nat → Nat
  | 0 => 0
  | n + 1 => bitAt s p + 2 * bitsLE s (p + 1) n

/-- Number of bits left at bit position `p`. -/
@[inline] def avail (s : Bytes) (p : Nat) : Nat := 8 * s.size - p

/-! ## Canonical Huffman codes (RFC 1951 §3.2.2) -/

/-- A canonical prefix code given by its code lengths.
`count[L]` = number of symbols of length `L` (`L ≥ 1`), `syms` = the symbols of non-zero
length sorted by (length, symbol): exactly the order in which §3.2.2 assigns consecutive
code values. -/
structure Huff where
  count : Array Nat
  syms : Array Nat
  minLen : Nat
  maxLen : Nat
deriving Repr

def maxBits : Nat := 15

def countLen (lens : Array Nat) (L : Nat) : Nat :=
  lens.toList.foldl (fun acc l => if l = L then acc + 1 else acc) 0

/-- The symbols whose code length is `L`, in increasing order. -/
def symsOfLen (lens : Array Nat) (L : Nat) : List Nat :=
  (lens.toList.zipIdx.filter (fun p => p.1 = L)).map (·.2)

/-- Kraft sum scaled by `2^maxLen`. -/
def kraft (count : Array Nat) (maxLen : Nat) : Nat :=
  (List.range' 1 maxLen).foldl (fun acc L => acc + count.getD L 0 * 2 ^ (maxLen - L)) 0

/-- Build the code; `none` = the lengths are rejected (over-subscribed or incomplete). -/
def mkHuff (lens : Array Nat) : Option Huff :=
  let count : Array Nat := ((List.range (maxBits + 1)).map (fun L => if L = 0 then 0 else countLen lens L)).toArray
  let maxLen := lens.toList.foldl (fun m l => if l > m then l else m) 0
  let minLen := lens.toList.foldl (fun m l => if l ≠ 0 ∧ (m = 0 ∨ l < m) then l else m) 0
  if maxLen > maxBits then none
  else if maxLen = 0 then some { count := count, syms := #[], minLen := 0, maxLen := 0 }
  else
    let k := kraft count maxLen
    if k = 2 ^ maxLen ∨ (k = 1 ∧ maxLen = 1) then
      some { count := count
             syms := ((List.range' 1 maxBits).flatMap (symsOfLen lens)).toArray
             minLen := minLen, maxLen := maxLen }
    else none

inductive SymResult where
  | sym (v : Nat) (p : Nat)   -- decoded symbol, bit position after it
  | truncated
  | corrupt
deriving Repr, DecidableEq

/-- Read one code, most significant code bit first (§3.1.1), `len` bits read so far.
`code` = the bits read, `first` = first code value of length `len+1`, `index` = number of
symbols with shorter codes. -/
def decodeGo (h : Huff) (s : Bytes) (p : Nat) : (rem len code first index : Nat) → SymResult
  | 0, _, _, _, _ => .corrupt
  | rem + 1, len, code, first, index =>
    if p + len ≥ 8 * s.size then .truncated
    else
      let code := 2 * code + bitAt s (p + len)
      let cnt := h.count.getD (len + 1) 0
      if code < first + cnt then .sym (h.syms.getD (index + (code - first)) 0) (p + len + 1)
      else decodeGo h s p rem (len + 1) code (2 * (first + cnt)) (index + cnt)

def decodeSym (h : Huff) (s : Bytes) (p : Nat) (minBits : Nat) : SymResult :=
  if avail s p < minBits then .truncated else decodeGo h s p h.maxLen 0 0 0 0

/-! ## Tables of RFC 1951 §3.2.5, §3.2.6, §3.2.7 -/

def lenBase : Array Nat :=
  #[3, 4, 5, 6, 7, 8, 9, 10, 11, 13, 15, 17, 19, 23, 27, 31, 35, 43, 51, 59, 67, 83, 99, 115, 131, 163, 195, 227, 258]
def lenExtra : Array Nat :=
  #[0, 0, 0, 0, 0, 0, 0, 0, 1, 1, 1, 1, 2, 2, 2, 2, 3, 3, 3, 3, 4, 4, 4, 4, 5, 5, 5, 5, 0]
def distBase : Array Nat :=
  #[1, 2, 3, 4, 5, 7, 9, 13, 17, 25, 33, 49, 65, 97, 129, 193, 257, 385, 513, 769, 1025, 1537, 2049, 3073,
    4097, 6145, 8193, 12289, 16385, 24577]
def distExtra : Array Nat :=
  #[0, 0, 0, 0, 1, 1, 2, 2, 3, 3, 4, 4, 5, 5, 6, 6, 7, 7, 8, 8, 9, 9, 10, 10, 11, 11, 12, 12, 13, 13]
def clOrder : Array Nat := #[16, 17, 18, 0, 8, 7, 9, 6, 10, 5, 11, 4, 12, 3, 13, 2, 14, 1, 15]

def fixedLitLens : Array Nat :=
  ((List.range 288).map (fun i => if i < 144 then 8 else if i < 256 then 9 else if i < 280 then 7 else 8)).toArray
def fixedDistLens : Array Nat := Array.replicate 32 5

def windowSize : Nat := 32768

/-! ## Blocks -/

/-- `cap = some n`: the caller only wants the first `n` bytes; `none`: everything. -/
@[inline] def capReached (cap : Option Nat) (n : Nat) : Bool :=
  match cap with
  | none => false
  | some c => decide (c ≤ n)

inductive Status where
  | done        -- the final block ended
  | truncated   -- the input ended inside the stream (Go: io.ErrUnexpectedEOF)
  | corrupt     -- Go: flate.CorruptInputError
  | capped      -- stopped because `cap` output bytes were produced (not an error)
deriving Repr, DecidableEq

/-- Outcome of decoding one block (or the rest of one). -/
inductive BlockResult where
  | next (p : Nat) (out : Bytes)               -- block finished at bit `p`
  | stop (st : Status) (p : Nat) (out : Bytes)
deriving Repr

/-- Append `len` bytes copied from `dist` back; the regions may overlap (§3.2.3). -/
def copyMatch (out : Bytes) (dist : Nat) : Nat → Bytes
  | 0 => out
  | n + 1 => copyMatch (out.push (out.getD (out.size - dist) 0)) dist n

/-- Stored block (§3.2.4); `p` is just after the 3 header bits. -/
def storedBlock (s : Bytes) (p : Nat) (out : Bytes) : BlockResult :=
  let q := (p + 7) / 8
  if q + 4 > s.size then .stop .truncated p out
  else
    let len := (s.getD q 0).toNat + 256 * (s.getD (q + 1) 0).toNat
    let nlen := (s.getD (q + 2) 0).toNat + 256 * (s.getD (q + 3) 0).toNat
    if len + nlen ≠ 0xFFFF then .stop .corrupt p out
    else if q + 4 + len > s.size then .stop .truncated (8 * s.size) (out ++ s.extract (q + 4) s.size)
    else .next (8 * (q + 4 + len)) (out ++ s.extract (q + 4) (q + 4 + len))

/-- Compressed data of one Huffman block (§3.2.3, §3.2.5). `lo` = offset of the real output
inside `out` (length of the preset dictionary). -/
def huffBlock (hl hd : Huff) (minL minD : Nat) (s : Bytes) (cap : Option Nat) (lo : Nat) :
    (fuel : Nat) → (p : Nat) → (out : Bytes) → BlockResult
  | 0, p, out => .stop .corrupt p out
  | fuel + 1, p, out =>
    match decodeSym hl s p minL with
    | .truncated => .stop .truncated p out
    | .corrupt => .stop .corrupt p out
    | .sym v p1 =>
      if v < 256 then
        let out := out.push (UInt8.ofNat v)
        if capReached cap (out.size - lo) then .stop .capped p1 out
        else huffBlock hl hd minL minD s cap lo fuel p1 out
      else if v = 256 then .next p1 out
      else if v ≥ 286 then .stop .corrupt p out
      else
        let eb := lenExtra.getD (v - 257) 0
        if avail s p1 < eb then .stop .truncated p out
        else
          let len := lenBase.getD (v - 257) 0 + bitsLE s p1 eb
          match decodeSym hd s (p1 + eb) minD with
          | .truncated => .stop .truncated p out
          | .corrupt => .stop .corrupt p out
          | .sym dv p2 =>
            if dv ≥ 30 then .stop .corrupt p out
            else
              let de := distExtra.getD dv 0
              if avail s p2 < de then .stop .truncated p out
              else
                let dist := distBase.getD dv 0 + bitsLE s p2 de
                if dist > out.size ∨ dist > windowSize then .stop .corrupt p out
                else
                  let out := copyMatch out dist len
                  if capReached cap (out.size - lo) then .stop .capped (p2 + de) out
                  else huffBlock hl hd minL minD s cap lo fuel (p2 + de) out

inductive LensResult where
  | ok (lens : Array Nat) (p : Nat)
  | truncated
  | corrupt

/-- The HLIT+HDIST code lengths, run-length coded with the code-length code (§3.2.7). -/
def readLens (hc : Huff) (s : Bytes) (n : Nat) : (fuel : Nat) → (p : Nat) → (lens : Array Nat) → LensResult
  | 0, _, _ => .corrupt
  | fuel + 1, p, lens =>
    if lens.size ≥ n then .ok lens p
    else
      match decodeSym hc s p hc.minLen with
      | .truncated => .truncated
      | .corrupt => .corrupt
      | .sym v p1 =>
        if v < 16 then readLens hc s n fuel p1 (lens.push v)
        else
          let (base, nb) := if v = 16 then (3, 2) else if v = 17 then (3, 3) else (11, 7)
          if v = 16 ∧ lens.size = 0 then .corrupt
          else if avail s p1 < nb then .truncated
          else
            let rep := base + bitsLE s p1 nb
            let val := if v = 16 then lens.getD (lens.size - 1) 0 else 0
            if lens.size + rep > n then .corrupt
            else readLens hc s n fuel (p1 + nb) (lens ++ Array.replicate rep val)

inductive HeaderResult where
  | ok (hl hd : Huff) (minL : Nat) (p : Nat)
  | truncated
  | corrupt

/-- Header of a dynamic block (§3.2.7); `p` is just after the 3 block-header bits. -/
def dynamicHeader (s : Bytes) (p : Nat) : HeaderResult :=
  if avail s p < 14 then .truncated
  else
    let nlit := bitsLE s p 5 + 257
    let ndist := bitsLE s (p + 5) 5 + 1
    let nclen := bitsLE s (p + 10) 4 + 4
    if nlit > 286 ∨ ndist > 30 then .corrupt
    else if avail s (p + 14) < 3 * nclen then .truncated
    else
      let cl : Array Nat := (List.range nclen).foldl
        (fun a i => a.setIfInBounds (clOrder.getD i 0) (bitsLE s (p + 14 + 3 * i) 3)) (Array.replicate 19 0)
      let p := p + 14 + 3 * nclen
      match mkHuff cl with
      | none => .corrupt
      | some hc =>
        match readLens hc s (nlit + ndist) (nlit + ndist + 1) p #[] with
        | .truncated => .truncated
        | .corrupt => .corrupt
        | .ok lens p =>
          match mkHuff (lens.extract 0 nlit), mkHuff (lens.extract nlit (nlit + ndist)) with
          | some hl, some hd =>
            let eob := lens.getD 256 0
            .ok hl hd (if hl.minLen < eob then eob else hl.minLen) p
          | _, _ => .corrupt

def fixedLit : Huff := (mkHuff fixedLitLens).getD { count := #[], syms := #[], minLen := 0, maxLen := 0 }
def fixedDist : Huff := (mkHuff fixedDistLens).getD { count := #[], syms := #[], minLen := 0, maxLen := 0 }

structure Result where
  status : Status
  /-- bit position reached (for `done`: just after the final block) -/
  pos : Nat
  /-- output produced, *including* the preset dictionary in front -/
  out : Bytes
deriving Repr

/-- The block loop (§3.2.3). -/
def blocks (s : Bytes) (cap : Option Nat) (lo : Nat) : (fuel : Nat) → (p : Nat) → (out : Bytes) → Result
  | 0, p, out => ⟨.corrupt, p, out⟩
  | fuel + 1, p, out =>
    if avail s p < 3 then ⟨.truncated, p, out⟩
    else
      let final := bitAt s p
      let typ := bitsLE s (p + 1) 2
      let r : BlockResult :=
        if typ = 0 then storedBlock s (p + 3) out
        else if typ = 1 then huffBlock fixedLit fixedDist 7 5 s cap lo (8 * s.size + 1) (p + 3) out
        else if typ = 2 then
          match dynamicHeader s (p + 3) with
          | .truncated => .stop .truncated p out
          | .corrupt => .stop .corrupt p out
          | .ok hl hd minL p1 => huffBlock hl hd minL hd.minLen s cap lo (8 * s.size + 1) p1 out
        else .stop .corrupt p out
      match r with
      | .stop st p out => ⟨st, p, out⟩
      | .next p1 out =>
        if final = 1 then ⟨.done, p1, out⟩
        else if capReached cap (out.size - lo) then ⟨.capped, p1, out⟩
        else blocks s cap lo fuel p1 out

/-- Decode the DEFLATE stream `s` with preset dictionary `dict`, producing at least
`min cap (everything)` output bytes (`cap = none`: everything).  `out` has the dictionary stripped. -/
def inflateRaw (dict : Bytes) (s : Bytes) (cap : Option Nat) : Result :=
  let d := if dict.size > windowSize then dict.extract (dict.size - windowSize) dict.size else dict
  let r := blocks s cap d.size (8 * s.size + 1) 0 d
  { r with out := r.out.extract d.size r.out.size }

/-- RFC 1951 decoder: the decompressed data and the number of input bytes used
(the stream ends in the middle of its last byte; trailing bytes are not looked at). -/
def inflateDict (dict s : Bytes) : Option (Bytes × Nat) :=
  let r := inflateRaw dict s none
  if r.status = .done then some (r.out, (r.pos + 7) / 8) else none

def inflate (s : Bytes) : Option (Bytes × Nat) := inflateDict #[] s

def inflateList (s : List UInt8) : Option (List UInt8 × Nat) :=
  (inflate s.toArray).map (fun (o, n) => (o.toList, n))

def inflateBA (s : ByteArray) : Option (ByteArray × Nat) :=
  (inflate s.data).map (fun (o, n) => (ByteArray.mk o, n))

/-! ## Adler-32 and zlib (RFC 1950) -/

def adlerMod : Nat := 65521

/-- Adler-32 (RFC 1950 §8.2): `s1` = 1 + sum of bytes, `s2` = sum of the `s1` values, both mod 65521. -/
def adler32Update (st : Nat × Nat) (data : Bytes) : Nat × Nat :=
  data.foldl (fun (a, b) x => let a' := (a + x.toNat) % adlerMod; (a', (b + a') % adlerMod)) st

def adler32 (data : Bytes) : Nat :=
  let (a, b) := adler32Update (1, 0) data
  b * 65536 + a

def be32 (s : Bytes) (i : Nat) : Nat :=
  (s.getD i 0).toNat * 2 ^ 24 + (s.getD (i + 1) 0).toNat * 2 ^ 16 + (s.getD (i + 2) 0).toNat * 2 ^ 8 +
    (s.getD (i + 3) 0).toNat

/-- RFC 1950 decoder: CMF/FLG check (CM = 8, CINFO ≤ 7, FCHECK), optional DICTID that must be
the Adler-32 of `dict`, DEFLATE data, Adler-32 of the output.  Returns output and bytes used. -/
def zlibDecode (dict s : Bytes) : Option (Bytes × Nat) :=
  if s.size < 2 then none
  else
    let cmf := (s.getD 0 0).toNat
    let flg := (s.getD 1 0).toNat
    if cmf % 16 ≠ 8 ∨ cmf / 16 > 7 ∨ (cmf * 256 + flg) % 31 ≠ 0 then none
    else
      let haveDict := (flg / 32) % 2 = 1
      let start := if haveDict then 6 else 2
      if s.size < start then none
      else if haveDict ∧ be32 s 2 ≠ adler32 dict then none
      else
        match inflateDict (if haveDict then dict else #[]) (s.extract start s.size) with
        | none => none
        | some (out, n) =>
          if s.size < start + n + 4 then none
          else if be32 s (start + n) ≠ adler32 out then none
          else some (out, start + n + 4)

end WuffsVerif.Flate.Spec
