/-
Executable model of /repo/lib/zlibcut/zlibcut.go (core Lean only).

`hash/adler32` is `Spec.adler32` (RFC 1950 §8.2).  `zlibcut.Cut` always hands a non-nil writer
(the hasher) to `flatecut.Cut`, so the flate re-decoding path of `flatecut.Cut` is always taken;
note that this re-decoding is done *without* the preset dictionary, exactly as in Go.
-/
import WuffsVerif.Model.Flate.Cut

namespace WuffsVerif.Flate.ZlibCut
open WuffsVerif.Flate WuffsVerif.Flate.Cut WuffsVerif.Gen.C16

/-- `func Cut(w io.Writer, encoded []byte, maxEncodedLen int) (encodedLen, decodedLen int, retErr error)` -/
def Cut (encoded : Bytes) (maxEncodedLen : Int) : Except Err CutResult :=
  if encoded.size < 2 then .error .notEnoughData
  else
    let b0 := (encoded.getD 0 0).toNat
    let b1 := (encoded.getD 1 0).toNat
    let header := b0 * 256 + b1
    if header % 31 ≠ 0 then .error .zlibBadHeader
    else if b0 % 16 ≠ 8 then .error .zlibUnsupportedMethod
    else
      let haveDict := (b1 / 32) % 2 = 1
      if haveDict ∧ encoded.size < 6 then .error .notEnoughData
      else
        let payloadStart := if haveDict then 6 else 2
        if encoded.size < payloadStart + 4 then .error .notEnoughData
        else if maxEncodedLen < Int.ofNat (payloadStart + 4) then .error .maxEncodedLenTooSmall
        else
          match Cut.Cut true (encoded.extract payloadStart (encoded.size - 4))
                  (maxEncodedLen - Int.ofNat payloadStart - 4) with
          | .error e => .error e
          | .ok r =>
            -- the sub-slice aliases `encoded`
            let enc := encoded.extract 0 payloadStart ++ r.encoded ++ encoded.extract (encoded.size - 4) encoded.size
            let hash := Spec.adler32 r.written
            let hashAt := payloadStart + r.encodedLen
            if hashAt + 4 > enc.size then .error .panic
            else
              let enc := enc.setIfInBounds hashAt (UInt8.ofNat (hash / 2 ^ 24 % 256))
              let enc := enc.setIfInBounds (hashAt + 1) (UInt8.ofNat (hash / 2 ^ 16 % 256))
              let enc := enc.setIfInBounds (hashAt + 2) (UInt8.ofNat (hash / 2 ^ 8 % 256))
              let enc := enc.setIfInBounds (hashAt + 3) (UInt8.ofNat (hash % 256))
              .ok ⟨enc, payloadStart + r.encodedLen + 4, r.decodedLen, r.written⟩

end WuffsVerif.Flate.ZlibCut
