/-
Executable model of /repo/lib/flatecut/flatecut.go, function by function (core Lean only).

Conventions of this model
* Go `int32`/`uint32`/`uint64` values are `Int`/`Nat`/`UInt64`; where Go arithmetic could wrap
  the wrap is written out (`wrap32`, `% 2^32`).  `mostNegativeInt32` is the Go sentinel.
* A Go run-time panic (index out of range) is the error `Err.panic`: every slice/array access
  whose index is not a loop constant is checked.  Go's internal errors (`errInternal…`) and
  its public errors are one type, as in Go.
* Go loops become structural recursion on a fuel argument that is large enough (every iteration
  consumes at least one bit / one code length); `Err.fuel` would be returned if it ever ran out.
  That this never happens is checked by the differential tie (the implementation has no such
  outcome, so any `model-fuel` line is a mismatch), not proved.
* `cutSingleBlock`'s and `Cut`'s calls of `compress/flate` are `Spec.inflateRaw`.
* The tables (`codeOrder`, `lBases`, …) are regenerated from flatecut.go into `Gen/C16_Tables.lean`.
-/
import WuffsVerif.Model.Flate.Spec
import WuffsVerif.Gen.C16_Tables

namespace WuffsVerif.Flate.Cut
open WuffsVerif.Gen.C16

abbrev Bytes := Array UInt8

inductive Err where
  | maxEncodedLenTooSmall | inconsistentDecodedLen
  | noProgress | replaceWithSingleBlock | someProgress            -- errInternal…
  | badBlockLength | badBlockType | badCodeLengths | badHuffmanTree
  | badSymbol | noEndOfBlock | notEnoughData | tooManyCodes      -- errInvalid…
  | flateCorrupt | flateUnexpectedEOF                             -- from compress/flate
  | zlibBadHeader | zlibUnsupportedMethod                         -- zlibcut
  | panic                                                         -- Go run-time panic
  | fuel                                                          -- model artefact
deriving Repr, DecidableEq, Inhabited

def Err.word : Err → String
  | .maxEncodedLenTooSmall => "max-encoded-len-too-small"
  | .inconsistentDecodedLen => "inconsistent-decoded-len"
  | .noProgress => "internal-no-progress"
  | .replaceWithSingleBlock => "internal-replace-with-single-block"
  | .someProgress => "internal-some-progress"
  | .badBlockLength => "bad-block-length"
  | .badBlockType => "bad-block-type"
  | .badCodeLengths => "bad-code-lengths"
  | .badHuffmanTree => "bad-huffman-tree"
  | .badSymbol => "bad-symbol"
  | .noEndOfBlock => "no-end-of-block"
  | .notEnoughData => "not-enough-data"
  | .tooManyCodes => "too-many-codes"
  | .flateCorrupt => "flate-corrupt"
  | .flateUnexpectedEOF => "unexpected-eof"
  | .zlibBadHeader => "zlib-bad-header"
  | .zlibUnsupportedMethod => "zlib-unsupported-method"
  | .panic => "panic"
  | .fuel => "model-fuel"

/-- Go `int32(x)` of an arithmetic result. -/
def wrap32 (x : Int) : Int :=
  let y := x % 4294967296
  if y ≥ 2147483648 then y - 4294967296 else y

/-- Go `x << n` on uint64 (shift counts ≥ 64 give 0). -/
@[inline] def shl64 (x : UInt64) (n : Nat) : UInt64 := if n < 64 then x <<< n.toUInt64 else 0
/-- Go `x >> n` on uint64. -/
@[inline] def shr64 (x : UInt64) (n : Nat) : UInt64 := if n < 64 then x >>> n.toUInt64 else 0

/-- `loadU64LE(b[i:])`; the caller guarantees `i + 7 < b.size`. -/
def loadU64LE (b : Bytes) (i : Nat) : UInt64 :=
  (b.getD i 0).toUInt64 ||| ((b.getD (i + 1) 0).toUInt64 <<< 8) ||| ((b.getD (i + 2) 0).toUInt64 <<< 16) |||
  ((b.getD (i + 3) 0).toUInt64 <<< 24) ||| ((b.getD (i + 4) 0).toUInt64 <<< 32) |||
  ((b.getD (i + 5) 0).toUInt64 <<< 40) ||| ((b.getD (i + 6) 0).toUInt64 <<< 48) |||
  ((b.getD (i + 7) 0).toUInt64 <<< 56)

/-! ## type bitstream -/

structure Bitstream where
  /-- `bytes[index]` is the next byte to load into `bits`. -/
  bytes : Bytes
  index : Nat
  /-- The low `nBits` bits hold the next bits (LSB first). -/
  bits : UInt64
  nBits : Nat
deriving Inhabited

/-- The recurring Go loop `for b.nBits >= 8 { b.index--; b.nBits -= 8 }` ("un-read whole bytes").
`index ≥ nBits / 8` always holds (every 8 bits came from one `index++`). -/
def Bitstream.unread (b : Bitstream) : Bitstream :=
  { b with index := b.index - b.nBits / 8, nBits := b.nBits % 8 }

/-- The load loop of `take`: `(true, b')` once `nBits ≥ n`, `(false, b')` when the data ran out. -/
def Bitstream.fill (n : Nat) : (fuel : Nat) → Bitstream → Bool × Bitstream
  | 0, b => (decide (n ≤ b.nBits), b)
  | fuel + 1, b =>
    if b.nBits < n then
      if b.index ≥ b.bytes.size then (false, b)
      else Bitstream.fill n fuel
        { b with bits := b.bits ||| shl64 (b.bytes.getD b.index 0).toUInt64 b.nBits
                 nBits := b.nBits + 8, index := b.index + 1 }
    else (true, b)

/-- `func (b *bitstream) take(nBits uint32) int32` -/
def Bitstream.take (b : Bitstream) (n : Nat) : Int × Bitstream :=
  match Bitstream.fill n (n + 1) b with
  | (false, b) => (mostNegativeInt32, b)
  | (true, b) =>
    let mask : Nat := ((if n < 32 then 2 ^ n else 0) + 4294967295) % 4294967296
    let ret : Nat := (b.bits.toNat % 4294967296) &&& mask
    (wrap32 ret, { b with bits := shr64 b.bits n, nBits := b.nBits - n })

/-! ## type huffman -/

structure Huffman where
  counts : Array Nat        -- [maxCodeBits + 1]uint32
  symbols : Array Int       -- [maxNumCodes]int32
  lookUpTable : Array Nat   -- [256]uint32
deriving Inhabited

def Huffman.zero : Huffman :=
  ⟨Array.replicate (maxCodeBits + 1) 0, Array.replicate maxNumCodes 0, Array.replicate 256 0⟩

/-- The loop of `slowDecode`, `rem` iterations left, loop variable `i`. -/
def Huffman.slowDecodeLoop (h : Huffman) :
    (rem i code first symIndex : Nat) → Bitstream → Except Err (Int × Bitstream)
  | 0, _, _, _, _, b => .ok (mostNegativeInt32, b)
  | rem + 1, i, code, first, symIndex, b =>
    if b.nBits = 0 ∧ b.index ≥ b.bytes.size then .ok (mostNegativeInt32, b)
    else
      let b : Bitstream :=
        if b.nBits = 0 then { b with bits := (b.bytes.getD b.index 0).toUInt64, nBits := 8, index := b.index + 1 }
        else b
      let code := code ||| (b.bits &&& 1).toNat
      let b := { b with bits := b.bits >>> 1, nBits := b.nBits - 1 }
      let count := h.counts.getD i 0
      if code < count + first then
        match h.symbols[(symIndex + code + 4294967296 - first) % 4294967296]? with
        | some s => .ok (s, b)
        | none => .error .panic
      else
        h.slowDecodeLoop rem (i + 1) ((code <<< 1) % 4294967296) (((first + count) <<< 1) % 4294967296)
          (symIndex + count) b

/-- `func (h *huffman) slowDecode(b *bitstream) int32` -/
def Huffman.slowDecode (h : Huffman) (b : Bitstream) : Except Err (Int × Bitstream) :=
  h.slowDecodeLoop maxCodeBits 1 0 0 0 b

/-- The tail of `decode` after the refill: table look-up, else `slow:`. -/
def Huffman.decodeLookup (h : Huffman) (b : Bitstream) : Except Err (Int × Bitstream) :=
  let x := h.lookUpTable.getD (b.bits &&& 0xFF).toNat 0
  if x ≠ 0 then
    let n := x >>> 16
    .ok (Int.ofNat (x &&& 0xFFFF), { b with bits := shr64 b.bits n, nBits := b.nBits - n })
  else h.slowDecode b

/-- `func (h *huffman) decode(b *bitstream) int32` -/
def Huffman.decode (h : Huffman) (b : Bitstream) : Except Err (Int × Bitstream) :=
  if b.nBits ≥ 8 then h.decodeLookup b
  else if b.index + 8 < b.bytes.size then
    -- "Variant 4": load 8 bytes, keep 56..63 bits
    let u := loadU64LE b.bytes b.index
    h.decodeLookup { b with bits := b.bits ||| shl64 u b.nBits
                            index := b.index + ((63 - b.nBits) >>> 3)
                            nBits := b.nBits ||| 56 }
  else if b.index < b.bytes.size then
    h.decodeLookup { b with bits := b.bits ||| shl64 (b.bytes.getD b.index 0).toUInt64 b.nBits
                            nBits := b.nBits + 8, index := b.index + 1 }
  else h.slowDecode b

/-- `func (h *huffman) constructLookUpTable()` -/
def Huffman.constructLookUpTable (h : Huffman) : Except Err Huffman :=
  let rec go : (rem i : Nat) → Array Nat → Except Err (Array Nat)
    | 0, _, t => .ok t
    | rem + 1, i, t =>
      match h.slowDecode { bytes := #[UInt8.ofNat i], index := 0, bits := 0, nBits := 0 } with
      | .error e => .error e
      | .ok (x, b) =>
        go rem (i + 1) (t.setIfInBounds i (if x ≥ 0 then (((8 - b.nBits) <<< 16) ||| x.toNat) % 4294967296 else 0))
  match go 256 0 h.lookUpTable with
  | .error e => .error e
  | .ok t => .ok { h with lookUpTable := t }

/-- The over/under-subscription loop of `construct` (`i` from 1 to `maxCodeBits`).
Returns `(remaining, endCodeBits, endCodeNBits)`, or `none` for errInvalidBadHuffmanTree. -/
def constructCheck (counts : Array Nat) (lengths : Array Nat) (endCodeLength : Nat) :
    (rem i remaining ecb ecn : Nat) → Option (Nat × Nat × Nat)
  | 0, _, remaining, ecb, ecn => some (remaining, ecb, ecn)
  | rem + 1, i, remaining, ecb, ecn =>
    let remaining := (remaining * 2) % 4294967296
    if remaining < counts.getD i 0 then none
    else
      let remaining := remaining - counts.getD i 0
      if i = endCodeLength then
        let extra := ((lengths.extract 257 lengths.size).filter (· = endCodeLength)).size
        let remainingForEndCode := remaining + extra
        let ecb := ((if endCodeLength < 32 then 2 ^ endCodeLength else 0) + 4294967296 + 4294967295
                      - remainingForEndCode % 4294967296) % 4294967296
        constructCheck counts lengths endCodeLength rem (i + 1) remaining ecb endCodeLength
      else constructCheck counts lengths endCodeLength rem (i + 1) remaining ecb ecn

/-- `offsets[i+1] = offsets[i] + counts[i]` for `i` in `1 .. maxCodeBits-1`. -/
def constructOffsets (counts : Array Nat) : Array Nat :=
  (List.range' 1 (maxCodeBits - 1)).foldl
    (fun offs i => offs.setIfInBounds (i + 1) (offs.getD i 0 + counts.getD i 0))
    (Array.replicate (maxCodeBits + 1) 0)

/-- The `for symbol, length := range lengths` loop filling `h.symbols`. -/
def constructSymbols (lengths : Array Nat) :
    (rem symbol : Nat) → (offsets : Array Nat) → (symbols : Array Int) → Except Err (Array Int)
  | 0, _, _, symbols => .ok symbols
  | rem + 1, symbol, offsets, symbols =>
    let length := lengths.getD symbol 0
    if length ≠ 0 then
      let o := offsets.getD length 0
      if o < symbols.size then
        constructSymbols lengths rem (symbol + 1) (offsets.setIfInBounds length (o + 1))
          (symbols.setIfInBounds o (Int.ofNat symbol))
      else .error .panic
    else constructSymbols lengths rem (symbol + 1) offsets symbols

/-- `func (h *huffman) construct(lengths []uint32) (endCodeBits, endCodeNBits uint32, retErr error)`.
`h.symbols` is *not* cleared by Go, hence the old `h` is an input. -/
def Huffman.construct (h : Huffman) (lengths : Array Nat) : Except Err (Huffman × Nat × Nat) :=
  if lengths.any (· > maxCodeBits) then .error .panic   -- h.counts[x]++ out of range
  else
    let counts : Array Nat := lengths.foldl (fun c x => c.setIfInBounds x (c.getD x 0 + 1))
      (Array.replicate (maxCodeBits + 1) 0)
    if counts.getD 0 0 ≥ lengths.size then .error .badHuffmanTree
    else
      let endCodeLength := if lengths.size > 256 then lengths.getD 256 0 else 0
      match constructCheck counts lengths endCodeLength maxCodeBits 1 1 0 0 with
      | none => .error .badHuffmanTree
      | some (remaining, endCodeBits, endCodeNBits) =>
        if remaining ≠ 0 ∧ ¬ (counts.getD 0 0 + 1 = lengths.size ∧ counts.getD 1 0 = 1) then
          .error .badHuffmanTree
        else
          match constructSymbols lengths lengths.size 0 (constructOffsets counts) h.symbols with
          | .error e => .error e
          | .ok symbols =>
            match ({ h with counts := counts, symbols := symbols } : Huffman).constructLookUpTable with
            | .error e => .error e
            | .ok h => .ok (h, endCodeBits, endCodeNBits)

/-! ## cutSingleBlock -/

/-- Go `a[i] = v` with the bounds check. -/
def setB (a : Bytes) (i : Nat) (v : UInt8) : Except Err Bytes :=
  if i < a.size then .ok (a.setIfInBounds i v) else .error .panic

/-- The 5 header bytes of a final stored block with `n` literal bytes
(`encoded[0] = 0x01; encoded[1] = uint8(n); encoded[2] = uint8(n >> 8); encoded[3] = ^encoded[1]; …`). -/
def storedHeader (n : Nat) : Bytes :=
  #[0x01, UInt8.ofNat (n % 256), UInt8.ofNat (n / 256 % 256),
    UInt8.ofNat (255 - n % 256), UInt8.ofNat (255 - n / 256 % 256)]

/-- `encoded[0..4] = header; copy(encoded[5:], buf[:n])` (`copy` copies as much as fits). -/
def writeStored (encoded buf : Bytes) (n : Nat) : Bytes :=
  let k := if encoded.size - 5 < n then encoded.size - 5 else n
  storedHeader n ++ buf.extract 0 k ++ encoded.extract (5 + k) encoded.size

/-- `n := maxEncodedLen - 5; if n > 0xFFFF { n = 0xFFFF }` -/
def singleStoredLen (maxEncodedLen : Nat) : Nat :=
  if maxEncodedLen - 5 > 0xFFFF then 0xFFFF else maxEncodedLen - 5

/-- The "try re-encoding as a single Stored block" part of `cutSingleBlock`: `some` result when it
applies.  `io.ReadFull(flate.NewReader(…), buf)` is `Spec.inflateRaw … (some want)`: a short read is
accepted when the stream merely ended early, and is an error when it was corrupt. -/
def cutSingleBlockStored (encoded : Bytes) (maxEncodedLen : Nat) : Except Err (Option (Bytes × Nat × Nat)) :=
  if maxEncodedLen > 5 then
    let want := singleStoredLen maxEncodedLen
    let r := Spec.inflateRaw #[] encoded (some want)
    if r.out.size < want ∧ r.status = .corrupt then .error .flateCorrupt
    else
      let n := if r.out.size < want then r.out.size else want
      if n > 0 then
        if encoded.size < 5 then .error .panic
        else .ok (some (writeStored encoded r.out n, n + 5, n))
      else .ok none
  else .ok none

/-- `func cutSingleBlock(encoded []byte, maxEncodedLen int) (encodedLen, decodedLen int, retErr error)` -/
def cutSingleBlock (encoded : Bytes) (maxEncodedLen : Nat) : Except Err (Bytes × Nat × Nat) :=
  if maxEncodedLen < smallestValidMaxEncodedLen then .error .panic
  else
    match cutSingleBlockStored encoded maxEncodedLen with
    | .error e => .error e
    | .ok (some r) => .ok r
    | .ok none =>
      -- encoded[0] = 0x03; encoded[1] = 0x00: an empty static-Huffman final block
      match setB encoded 0 0x03 with
      | .error e => .error e
      | .ok e1 =>
        match setB e1 1 0x00 with
        | .error e => .error e
        | .ok e2 => .ok (e2, 2, 0)

/-! ## type cutter -/

structure Cutter where
  bits : Bitstream
  maxEncodedLen : Nat
  decodedLen : Int     -- int32
  endCodeBits : Nat
  endCodeNBits : Nat
  lHuff : Huffman
  dHuff : Huffman
deriving Inhabited

/-- `func (c *cutter) doStored() error` -/
def Cutter.doStored (c : Cutter) : Cutter × Option Err :=
  let c := { c with bits := c.bits.unread }
  let idx := c.bits.index
  if c.maxEncodedLen < idx ∨ c.maxEncodedLen - idx < 4 then (c, some .noProgress)
  else
    match c.bits.bytes[idx]?, c.bits.bytes[idx + 1]?, c.bits.bytes[idx + 2]?, c.bits.bytes[idx + 3]? with
    | some b0, some b1, some b2, some b3 =>
      let length := b0.toNat ||| (b1.toNat <<< 8)
      let invLen := b2.toNat ||| (b3.toNat <<< 8)
      if length + invLen ≠ 0xFFFF then (c, some .badBlockLength)
      else if wrap32 (c.decodedLen + length) < 0 then (c, some .noProgress)
      else
        let index := idx + 4
        let remaining := c.maxEncodedLen - index
        if remaining ≥ length then
          ({ c with bits := { c.bits with index := index + length, bits := 0, nBits := 0 }
                    decodedLen := wrap32 (c.decodedLen + length) }, none)
        else if remaining = 0 then (c, some .noProgress)
        else
          let length := remaining
          let invLen := 0xFFFF - length
          let bytes := c.bits.bytes.setIfInBounds idx (UInt8.ofNat (length % 256))
          let bytes := bytes.setIfInBounds (idx + 1) (UInt8.ofNat (length / 256 % 256))
          let bytes := bytes.setIfInBounds (idx + 2) (UInt8.ofNat (invLen % 256))
          let bytes := bytes.setIfInBounds (idx + 3) (UInt8.ofNat (invLen / 256 % 256))
          ({ c with bits := { bytes := bytes, index := index + length, bits := 0, nBits := 0 }
                    decodedLen := wrap32 (c.decodedLen + length) }, some .someProgress)
    | _, _, _, _ => (c, some .panic)

/-- `func (c *cutter) writeEndCode()`; `j` counts down from `endCodeNBits`. -/
def Cutter.writeEndCodeLoop (endCodeBits : Nat) : (j : Nat) → Bitstream → Except Err Bitstream
  | 0, b => .ok b
  | j + 1, b =>
    let b := if b.nBits = 0 then { b with index := b.index + 1, nBits := 8 } else b
    let b := { b with nBits := b.nBits - 1 }
    let n := 7 - b.nBits
    let bit := (endCodeBits >>> j) &&& 1
    let mask : Nat := 1 <<< n
    if b.index = 0 then .error .panic
    else
      match b.bytes[b.index - 1]? with
      | none => .error .panic
      | some x =>
        let x := (x.toNat &&& (255 - mask % 256)) ||| ((mask * bit) % 256)
        Cutter.writeEndCodeLoop endCodeBits j { b with bytes := b.bytes.setIfInBounds (b.index - 1) (UInt8.ofNat x) }

def Cutter.writeEndCode (c : Cutter) : Except Err Cutter :=
  match Cutter.writeEndCodeLoop c.endCodeBits c.endCodeNBits c.bits with
  | .error e => .error e
  | .ok b => .ok { c with bits := b }

/-- The part of one iteration of `doHuffman`'s loop between decoding `lSymbol` (≥ 0) and the
"Check for overflow" line: the new `decodedLen`, or `some r` when the iteration executes `return r`
(`r = none` is `return nil`). -/
def Cutter.huffStep (c : Cutter) (lSymbol : Int) (decodedLen : Int) : Cutter × Int × Option (Option Err) :=
  if lSymbol < 256 then (c, wrap32 (decodedLen + 1), none)   -- a literal byte
  else if lSymbol > 256 then
    -- a length/distance copy
    match lBases[(lSymbol - 256).toNat]?, lExtras[(lSymbol - 256).toNat]? with
    | some lBase, some lExtra =>
      let (t, bits) := c.bits.take lExtra
      let c := { c with bits := bits }
      let length := wrap32 (lBase + t)
      if length < 0 then
        (c, decodedLen, some (some (if lBase < 0 then .badSymbol else .notEnoughData)))
      else
        match c.dHuff.decode c.bits with
        | .error e => (c, decodedLen, some (some e))
        | .ok (dSymbol, bits) =>
          let c := { c with bits := bits }
          if dSymbol < 0 then (c, decodedLen, some (some .badSymbol))
          else
            match dBases[dSymbol.toNat]?, dExtras[dSymbol.toNat]? with
            | some dBase, some dExtra =>
              let (t, bits) := c.bits.take dExtra
              let c := { c with bits := bits }
              let distance := wrap32 (dBase + t)
              if distance < 0 then
                (c, decodedLen, some (some (if dBase < 0 then .badSymbol else .notEnoughData)))
              else (c, wrap32 (decodedLen + length), none)
            | _, _ => (c, decodedLen, some (some .panic))
    | _, _ => (c, decodedLen, some (some .panic))
  else
    -- end-of-block.  (Repaired code, fixes/C16-empty-huffman-block-overruns-limit.patch:
    -- an empty block's end code must itself fit in maxEncodedLen.)
    if 8 * c.bits.index - c.bits.nBits > 8 * c.maxEncodedLen then
      (c, decodedLen, some (some .noProgress))
    else (c, decodedLen, some none)   -- return nil

/-- The `for { … }` loop of `doHuffman`.  Returns the cutter, the checkpoint (or `none` = -1),
and `some e` when the loop executed `return e` (`e = none` is `return nil`), `none` on `break`. -/
def Cutter.huffLoop : (fuel : Nat) → Cutter → (checkpoint : Option (Nat × Nat)) → (decodedLen : Int) →
    Cutter × Option (Nat × Nat) × Option (Option Err)
  | 0, c, cp, _ => (c, cp, some (some .fuel))
  | fuel + 1, c, cp, decodedLen =>
    match c.lHuff.decode c.bits with
    | .error e => (c, cp, some (some e))
    | .ok (lSymbol, bits) =>
      let c := { c with bits := bits }
      if lSymbol < 0 then (c, cp, some (some .badSymbol))
      else
        match c.huffStep lSymbol decodedLen with
        | (c, _, some r) => (c, cp, some r)
        | (c, decodedLen, none) =>
          -- Check for overflow.
          if decodedLen < 0 then (c, cp, none)
          else
            -- Check the maxEncodedLen budget, considering that we might still need
            -- to write an end-of-block code.
            let encodedBits := 8 * c.bits.index - c.bits.nBits
            let maxEncodedBits := 8 * c.maxEncodedLen
            if encodedBits + c.endCodeNBits > maxEncodedBits then (c, cp, none)
            else
              Cutter.huffLoop fuel { c with decodedLen := decodedLen } (some (c.bits.index, c.bits.nBits)) decodedLen

/-- `func (c *cutter) doHuffman(isFirstBlock bool, lLengths []uint32, dLengths []uint32) error` -/
def Cutter.doHuffman (c : Cutter) (isFirstBlock : Bool) (lLengths dLengths : Array Nat) : Cutter × Option Err :=
  match c.lHuff.construct lLengths with
  | .error e => (c, some e)
  | .ok (lHuff, ecb, ecn) =>
    let c := { c with lHuff := lHuff, endCodeBits := ecb, endCodeNBits := ecn }
    if c.endCodeNBits = 0 then (c, some .noEndOfBlock)
    else
      match c.dHuff.construct dLengths with
      | .error e => (c, some e)
      | .ok (dHuff, _, _) =>
        let c := { c with dHuff := dHuff, bits := c.bits.unread }
        if c.bits.index > c.maxEncodedLen then (c, some .noProgress)
        else
          match Cutter.huffLoop (8 * c.bits.bytes.size + 2) c none c.decodedLen with
          | (c, _, some r) => (c, r)
          | (c, none, none) => (c, some .noProgress)
          | (c, some (cpIndex, cpNBits), none) =>
            let n := if c.maxEncodedLen - 5 > 0xFFFF then 0xFFFF else c.maxEncodedLen - 5
            if isFirstBlock ∧ c.maxEncodedLen > 5 ∧ c.decodedLen < Int.ofNat n then
              (c, some .replaceWithSingleBlock)
            else
              let c := { c with bits := ({ c.bits with index := cpIndex, nBits := cpNBits } : Bitstream).unread }
              match c.writeEndCode with
              | .error e => (c, some e)
              | .ok c => (c, some .someProgress)

/-- The fixed code lengths of RFC 1951 §3.2.6, as built by `doStaticHuffman`. -/
def staticLengths : Array Nat :=
  (Array.range 320).map (fun i =>
    if i < 144 then 8 else if i < 256 then 9 else if i < 280 then 7 else if i < 288 then 8 else 5)

/-- `func (c *cutter) doStaticHuffman(isFirstBlock bool) error` -/
def Cutter.doStaticHuffman (c : Cutter) (isFirstBlock : Bool) : Cutter × Option Err :=
  c.doHuffman isFirstBlock (staticLengths.extract 0 288) (staticLengths.extract 288 320)

/-- The `for i := 0; i < numCodeLengths; i++` loop of `doDynamicHuffman`. -/
def Cutter.readCodeLengthLengths : (rem i : Nat) → Bitstream → Array Nat → Except Err (Bitstream × Array Nat)
  | 0, _, b, lengths => .ok (b, lengths)
  | rem + 1, i, b, lengths =>
    let (x, b) := b.take 3
    if x < 0 then .error .notEnoughData
    else
      match codeOrder[i]? with
      | none => .error .panic
      | some k =>
        if k < lengths.size then
          Cutter.readCodeLengthLengths rem (i + 1) b (lengths.setIfInBounds k x.toNat)
        else .error .panic

/-- The `for i := 0; i < numLCodes+numDCodes; { … }` loop of `doDynamicHuffman`. -/
def Cutter.readLengths (h : Huffman) (n : Nat) : (fuel i : Nat) → Bitstream → Array Nat → Except Err (Bitstream × Array Nat)
  | 0, _, _, _ => .error .fuel
  | fuel + 1, i, b, lengths =>
    if i ≥ n then .ok (b, lengths)
    else
      match h.decode b with
      | .error e => .error e
      | .ok (symbol, b) =>
        if symbol < 0 then .error .badCodeLengths
        else if symbol ≠ 16 ∧ symbol ≠ 17 ∧ symbol ≠ 18 then
          if i < lengths.size then
            Cutter.readLengths h n fuel (i + 1) b (lengths.setIfInBounds i symbol.toNat)
          else .error .panic
        else if symbol = 16 ∧ i = 0 then .error .badCodeLengths
        else
          let value : Nat := if symbol = 16 then lengths.getD (i - 1) 0 else 0
          let (t, b) := b.take (if symbol = 16 then 2 else if symbol = 17 then 3 else 7)
          let count : Int := wrap32 ((if symbol = 18 then 11 else 3) + t)
          if count < 0 then .error .notEnoughData
          else if i + count.toNat > n then .error .badCodeLengths
          else if i + count.toNat > lengths.size then .error .panic
          else
            let lengths := (List.range count.toNat).foldl (fun l j => l.setIfInBounds (i + j) value) lengths
            Cutter.readLengths h n fuel (i + count.toNat) b lengths

/-- `func (c *cutter) doDynamicHuffman(isFirstBlock bool) error` -/
def Cutter.doDynamicHuffman (c : Cutter) (isFirstBlock : Bool) : Cutter × Option Err :=
  let (t, bits) := c.bits.take 5
  let c := { c with bits := bits }
  let numLCodes := wrap32 (257 + t)
  if numLCodes < 0 then (c, some .notEnoughData)
  else
    let (t, bits) := c.bits.take 5
    let c := { c with bits := bits }
    let numDCodes := wrap32 (1 + t)
    if numDCodes < 0 then (c, some .notEnoughData)
    else
      let (t, bits) := c.bits.take 4
      let c := { c with bits := bits }
      let numCodeLengths := wrap32 (4 + t)
      if numCodeLengths < 0 then (c, some .notEnoughData)
      else if numLCodes > 286 ∨ numDCodes > 30 then (c, some .tooManyCodes)
      else
        let n := numLCodes.toNat + numDCodes.toNat
        match Cutter.readCodeLengthLengths numCodeLengths.toNat 0 c.bits (Array.replicate n 0) with
        | .error e => (c, some e)
        | .ok (bits, lengths) =>
          let c := { c with bits := bits }
          match c.lHuff.construct lengths with
          | .error e => (c, some e)
          | .ok (lHuff, _, _) =>
            let c := { c with lHuff := lHuff }
            match Cutter.readLengths c.lHuff n (n + 1) 0 c.bits lengths with
            | .error e => (c, some e)
            | .ok (bits, lengths) =>
              let c := { c with bits := bits }
              c.doHuffman isFirstBlock (lengths.extract 0 numLCodes.toNat) (lengths.extract numLCodes.toNat n)

/-- Set bit `7 - nBits` of `bytes[index-1]` (the final-block bit just before position (index, nBits)). -/
def patchFinalBit (bytes : Bytes) (finalBlockIndex finalBlockNBits : Nat) : Except Err Bytes :=
  let n := 7 - finalBlockNBits
  let mask : Nat := (1 <<< n) % 256
  if finalBlockIndex = 0 then .error .panic
  else
    match bytes[finalBlockIndex - 1]? with
    | none => .error .panic
    | some x => .ok (bytes.setIfInBounds (finalBlockIndex - 1) (UInt8.ofNat (x.toNat ||| mask)))

/-- The code after the block loop of `cut`: clear the unused high bits of the last byte. -/
def Cutter.finish (c : Cutter) : Except Err (Bytes × Nat × Nat) :=
  if c.bits.nBits ≠ 0 then
    let mask : Nat := ((1 <<< (8 - c.bits.nBits)) - 1) % 256
    if c.bits.index = 0 then .error .panic
    else
      match c.bits.bytes[c.bits.index - 1]? with
      | none => .error .panic
      | some x =>
        .ok (c.bits.bytes.setIfInBounds (c.bits.index - 1) (UInt8.ofNat (x.toNat &&& mask)),
             c.bits.index, c.decodedLen.toNat)
  else .ok (c.bits.bytes, c.bits.index, c.decodedLen.toNat)

/-- `func (c *cutter) cut() (encodedLen int, decodedLen int, retErr error)`; the result also
carries the modified buffer. `prev` = `(prevFinalBlockIndex, prevFinalBlockNBits)`, `none` = -1. -/
def Cutter.cutLoop : (fuel : Nat) → Cutter → (prev : Option (Nat × Nat)) → Except Err (Bytes × Nat × Nat)
  | 0, _, _ => .error .fuel
  | fuel + 1, c, prev =>
    let (finalBlock, bits) := c.bits.take 1
    let c := { c with bits := bits }
    if finalBlock < 0 then .error .notEnoughData
    else
      let finalBlockIndex := c.bits.unread.index
      let finalBlockNBits := c.bits.unread.nBits
      let (blockType, bits) := c.bits.take 2
      let c := { c with bits := bits }
      if blockType < 0 then .error .notEnoughData
      else if blockType = 3 then .error .badBlockType
      else
        let (c, err) :=
          if blockType = 0 then c.doStored
          else if blockType = 1 then c.doStaticHuffman prev.isNone
          else c.doDynamicHuffman prev.isNone
        let c := { c with bits := c.bits.unread }
        match err with
        | none =>
          if finalBlock = 0 then Cutter.cutLoop fuel c (some (finalBlockIndex, finalBlockNBits))
          else c.finish
        | some .noProgress =>
          match prev with
          | none => cutSingleBlock c.bits.bytes c.maxEncodedLen
          | some (prevIndex, prevNBits) =>
            -- Un-read to just before the finalBlock bit.
            let c := { c with bits := ({ c.bits with index := finalBlockIndex, nBits := finalBlockNBits + 1 } : Bitstream).unread }
            match patchFinalBit c.bits.bytes prevIndex prevNBits with
            | .error e => .error e
            | .ok bytes => ({ c with bits := { c.bits with bytes := bytes } } : Cutter).finish
        | some .someProgress =>
          match patchFinalBit c.bits.bytes finalBlockIndex finalBlockNBits with
          | .error e => .error e
          | .ok bytes => ({ c with bits := { c.bits with bytes := bytes } } : Cutter).finish
        | some .replaceWithSingleBlock => cutSingleBlock c.bits.bytes c.maxEncodedLen
        | some e => .error e

def Cutter.cut (c : Cutter) : Except Err (Bytes × Nat × Nat) :=
  Cutter.cutLoop (8 * c.bits.bytes.size + 2) c none

/-! ## Cut -/

structure CutResult where
  /-- the buffer after the in-place modifications -/
  encoded : Bytes
  encodedLen : Nat
  decodedLen : Nat
  /-- what was written to `w` (empty when `w == nil`) -/
  written : Bytes
deriving Inhabited

/-- `func Cut(w io.Writer, encoded []byte, maxEncodedLen int) (encodedLen, decodedLen int, retErr error)`;
`withWriter = false` is `w == nil`. -/
def Cut (withWriter : Bool) (encoded : Bytes) (maxEncodedLen : Int) : Except Err CutResult :=
  if maxEncodedLen < smallestValidMaxEncodedLen then .error .maxEncodedLenTooSmall
  else
    let m : Nat := maxEncodedLen.toNat
    let m := if m > 2 ^ 30 then 2 ^ 30 else m
    let m := if m > encoded.size then encoded.size else m
    if m < smallestValidMaxEncodedLen then .error .notEnoughData
    else
      let c : Cutter :=
        { bits := { bytes := encoded, index := 0, bits := 0, nBits := 0 }
          maxEncodedLen := m, decodedLen := 0, endCodeBits := 0, endCodeNBits := 0
          lHuff := Huffman.zero, dHuff := Huffman.zero }
      match c.cut with
      | .error e => .error e
      | .ok (enc, encodedLen, decodedLen) =>
        if withWriter then
          let r := Spec.inflateRaw #[] (enc.extract 0 encodedLen) none
          match r.status with
          | .corrupt => .error .flateCorrupt
          | .truncated => .error .flateUnexpectedEOF
          | _ =>
            if r.out.size ≠ decodedLen then .error .inconsistentDecodedLen
            else .ok ⟨enc, encodedLen, decodedLen, r.out⟩
        else .ok ⟨enc, encodedLen, decodedLen, #[]⟩

end WuffsVerif.Flate.Cut
