/-
C07 — specification decoder (and a reference encoder) for the GIF flavour of LZW
(GIF89a, appendix F; codes packed least-significant-bit first, variable width
`litWidth+1 .. 12`, CLEAR = 2^litWidth, END = CLEAR+1, deferred clear allowed).
Written from the format description, not from std/lzw.  Core Lean only.

`decode lw src` = the decoded bytes when the stream reaches an END code
(`Status.ok`), otherwise why it does not (`truncated`: the bits run out first,
`badCode`: a code that is not in the table yet).
-/
namespace WuffsVerif.StdSpec.Lzw

abbrev Bytes := Array UInt8

inductive Status | ok | truncated | badCode
deriving Repr, DecidableEq

/-- bit `p` of the stream, LSB-first inside each byte -/
@[inline] def bitAt (s : Bytes) (p : Nat) : Nat := ((s.getD (p / 8) 0).toNat >>> (p % 8)) % 2

/-- the `n`-bit code starting at bit `p` (first bit = least significant) -/
def bitsLE (s : Bytes) (p : Nat) : Nat → Nat
  | 0 => 0
  | n + 1 => bitAt s p + 2 * bitsLE s (p + 1) n

structure St where
  /-- strings of the codes `0 .. next-1` (entries CLEAR and END are unused placeholders) -/
  table : Array Bytes
  width : Nat
  /-- the string of the previous data code (`none` right after a CLEAR / at the start) -/
  prev : Option Bytes
  out : Bytes

def initTable (lw : Nat) : Array Bytes :=
  ((List.range (2 ^ lw)).map (fun i => #[UInt8.ofNat i])).toArray ++ #[#[], #[]]

/-- after adding an entry: one more bit as soon as the next free code does not fit -/
@[inline] def bump (next width : Nat) : Nat := if width < 12 ∧ next = 2 ^ width then width + 1 else width

/-- Add `prev ++ [first byte of cur]` (if there is a previous string and room), then remember `cur`. -/
def learn (st : St) (cur : Bytes) : St :=
  match st.prev with
  | none => { st with prev := some cur, out := st.out ++ cur }
  | some p =>
    if st.table.size < 4096 then
      let t := st.table.push (p.push (cur.getD 0 0))
      { st with table := t, width := bump t.size st.width, prev := some cur, out := st.out ++ cur }
    else { st with prev := some cur, out := st.out ++ cur }

def loop (lw : Nat) (s : Bytes) : (fuel : Nat) → (p : Nat) → St → Status × Bytes × Nat
  | 0, p, st => (.truncated, st.out, p)
  | fuel + 1, p, st =>
    if p + st.width > 8 * s.size then (.truncated, st.out, p)
    else
      let code := bitsLE s p st.width
      let p := p + st.width
      let clear := 2 ^ lw
      if code = clear then
        loop lw s fuel p { st with table := initTable lw, width := lw + 1, prev := none }
      else if code = clear + 1 then (.ok, st.out, p)
      else if code < clear then
        loop lw s fuel p (learn st #[UInt8.ofNat code])
      else if h : code < st.table.size then
        loop lw s fuel p (learn st st.table[code])
      else
        match st.prev with
        | some pr =>
          -- the one code that may be used before it is defined (KwKwK)
          if code = st.table.size ∧ st.table.size < 4096 then
            loop lw s fuel p (learn st (pr.push (pr.getD 0 0)))
          else (.badCode, st.out, p)
        | none => (.badCode, st.out, p)

/-- Decode; also returns the number of source bytes touched up to and including the END code. -/
def decode (lw : Nat) (s : Bytes) : Status × Bytes × Nat :=
  let r := loop lw s (8 * s.size + 1) 0 { table := initTable lw, width := lw + 1, prev := none, out := #[] }
  (r.1, r.2.1, (r.2.2 + 7) / 8)

/-! ### A reference encoder (literals only: CLEAR, one code per byte, END) used by the round-trip theorem
and as a second, trivially correct, producer of valid streams: it never refers to a learnt code, but the
decoder still learns, so the code width grows exactly as in real streams (and a CLEAR is sent before the
table fills). -/

/-- append the `n` low bits of `v` to a little-endian bit list -/
def pushBits (acc : List Bool) (v n : Nat) : List Bool :=
  acc ++ (List.range n).map (fun i => v.testBit i)

def packByte (bs : List Bool) : UInt8 :=
  UInt8.ofNat ((bs.zipIdx.map (fun (b, i) => if b then 2 ^ i else 0)).sum)

def packBits : (fuel : Nat) → List Bool → List UInt8
  | 0, _ => []
  | fuel + 1, bs => if bs.isEmpty then [] else packByte (bs.take 8) :: packBits fuel (bs.drop 8)

/-- state of the literal encoder: (bits so far, decoder's table size, decoder's width, has-prev) -/
def encLits (lw : Nat) : List UInt8 → (List Bool × Nat × Nat × Bool) → List Bool × Nat × Nat × Bool
  | [], st => st
  | b :: bs, (acc, size, width, hasPrev) =>
    -- send a CLEAR before the table would fill, so the width never sticks at 12 with a full table
    let (acc, size, width, hasPrev) :=
      if size ≥ 4095 then (pushBits acc (2 ^ lw) width, 2 ^ lw + 2, lw + 1, false) else (acc, size, width, hasPrev)
    let acc := pushBits acc (b.toNat % 2 ^ lw) width
    if hasPrev then
      let size := size + 1
      encLits lw bs (acc, size, bump size width, true)
    else encLits lw bs (acc, size, width, true)

def encode (lw : Nat) (data : List UInt8) : List UInt8 :=
  let acc := pushBits [] (2 ^ lw) (lw + 1)
  let (acc, _, width, _) := encLits lw data (acc, 2 ^ lw + 2, lw + 1, false)
  let acc := pushBits acc (2 ^ lw + 1) width
  packBits (acc.length + 1) acc

end WuffsVerif.StdSpec.Lzw
