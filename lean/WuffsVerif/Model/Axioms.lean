/-
C02 (axioms half) — the axiom-string language of /repo/lang/check.

`lang/check/axioms.md` lists rules such as `"a < b: a < c; c <= b"`:
the claim `a < b` may be asserted when the requirements `a < c` and `c <= b`
are provable.  `lang/check/gen.go` parses these strings (`gen`, `parse`,
`parseExpr`, `parseOperand`) and generates `data.go`.  This file models

* the syntax (`Term`, `Rel`, `Axiom`) and its meaning over the integers
  (`Axiom.Valid`: for every assignment, requirements imply claim);
* the executable three-valued evaluator used by the driver (`Axiom.check`);
* the string parser of gen.go, function by function (`parseOperand`,
  `parseExpr`, `parseAxiom`), over `List Char`, structurally recursive by fuel.

Core Lean only.
-/
namespace WuffsVerif.Axioms

/-- operands: variables (numbered in sorted-name order), constants, `+`, `-`. -/
inductive Term where
  | var (i : Nat)
  | const (c : Int)
  | add (l r : Term)
  | sub (l r : Term)
  deriving Repr, DecidableEq, Inhabited

inductive RelOp where
  | ne | lt | le | eq | ge | gt
  deriving Repr, DecidableEq, Inhabited

structure Rel where
  op : RelOp
  lhs : Term
  rhs : Term
  deriving Repr, DecidableEq, Inhabited

structure Axiom where
  claim : Rel
  reqs : List Rel
  deriving Repr, DecidableEq, Inhabited

def Term.eval (env : Nat → Int) : Term → Int
  | .var i => env i
  | .const c => c
  | .add l r => l.eval env + r.eval env
  | .sub l r => l.eval env - r.eval env

/-- meaning of a comparison in ideal integer arithmetic -/
def RelOp.Holds : RelOp → Int → Int → Prop
  | .ne, x, y => x ≠ y
  | .lt, x, y => x < y
  | .le, x, y => x ≤ y
  | .eq, x, y => x = y
  | .ge, x, y => x ≥ y
  | .gt, x, y => x > y

instance (op : RelOp) (x y : Int) : Decidable (op.Holds x y) := by
  cases op <;> unfold RelOp.Holds <;> infer_instance

def Rel.Holds (env : Nat → Int) (r : Rel) : Prop :=
  r.op.Holds (r.lhs.eval env) (r.rhs.eval env)

instance (env : Nat → Int) (r : Rel) : Decidable (r.Holds env) := by
  unfold Rel.Holds; infer_instance

/-- "every named axiom is a valid theorem over the integers" for one axiom. -/
def Axiom.Valid (ax : Axiom) : Prop :=
  ∀ env : Nat → Int, (∀ r ∈ ax.reqs, r.Holds env) → ax.claim.Holds env

inductive Verdict where
  | holds | premiseFalse | violated
  deriving Repr, DecidableEq

def Verdict.toString : Verdict → String
  | .holds => "holds"
  | .premiseFalse => "premise-false"
  | .violated => "VIOLATED"

def envOf (vals : List Int) : Nat → Int := fun i => vals.getD i 0

/-- what the driver answers for `ax i v0 v1 …` -/
def Axiom.check (ax : Axiom) (vals : List Int) : Verdict :=
  if ax.reqs.all (fun r => decide (r.Holds (envOf vals))) then
    (if decide (ax.claim.Holds (envOf vals)) then .holds else .violated)
  else .premiseFalse

/-! ## the parser of gen.go -/

def isDigit (c : Char) : Bool := '0' ≤ c && c ≤ '9'
def isLower (c : Char) : Bool := 'a' ≤ c && c ≤ 'z'
/-- gen.go isOpByte: `<`, `=`, `>`, `+`, `-`, `!` -/
def isOpByte (c : Char) : Bool := ('<' ≤ c && c ≤ '>') || c == '+' || c == '-' || c == '!'
def isAlphaNum (c : Char) : Bool := isDigit c || isLower c

def trimL : List Char → List Char
  | ' ' :: s => trimL s
  | s => s

def trimR (s : List Char) : List Char := (trimL s.reverse).reverse
def trimBoth (s : List Char) : List Char := trimR (trimL s)

/-- untyped parse tree, as gen.go's `node` -/
inductive PNode where
  | leaf (name : List Char)
  | bin (op : List Char) (l r : PNode)
  deriving Repr, DecidableEq, Inhabited

mutual
/-- gen.go parseOperand -/
def parseOperand : Nat → List Char → Option (PNode × List Char)
  | 0, _ => none
  | fuel + 1, s =>
    match s with
    | [] => none
    | c :: rest =>
      if isDigit c || isLower c then
        some (.leaf (c :: rest.takeWhile isAlphaNum), rest.dropWhile isAlphaNum)
      else if c == '(' then
        match parseExpr fuel rest with
        | some (n, ')' :: s') => some (n, s')
        | _ => none
      else none
/-- gen.go parseExpr -/
def parseExpr : Nat → List Char → Option (PNode × List Char)
  | 0, _ => none
  | fuel + 1, s =>
    match parseOperand fuel s with
    | none => none
    | some (lhs, s) =>
      let s := trimL s
      match s with
      | [] => none
      | c :: rest =>
        if !isOpByte c then none else
        let op := c :: rest.takeWhile isOpByte
        let s := trimL (rest.dropWhile isOpByte)
        match parseOperand fuel s with
        | none => none
        | some (rhs, s) => some (.bin op lhs rhs, trimL s)
end

/-- gen.go parse: the whole string must be consumed -/
def parseNode (s : List Char) : Option PNode :=
  match parseExpr (s.length + 1) s with
  | some (n, []) => some n
  | _ => none

def relOfString : List Char → Option RelOp
  | ['!', '='] => some .ne
  | ['<'] => some .lt
  | ['<', '='] => some .le
  | ['=', '='] => some .eq
  | ['>', '='] => some .ge
  | ['>'] => some .gt
  | _ => none

def digitsVal (cs : List Char) : Option Nat :=
  if cs.all isDigit then some (cs.foldl (fun acc c => acc * 10 + (c.toNat - 48)) 0) else none

def PNode.vars : PNode → List (List Char)
  | .leaf n => match n with
    | c :: _ => if isLower c then [n] else []
    | [] => []
  | .bin _ l r => l.vars ++ r.vars

/-- insertion into a sorted duplicate-free list of names (byte-wise order, as Go's sort.Strings) -/
def insertName (n : List Char) : List (List Char) → List (List Char)
  | [] => [n]
  | m :: ms => if n = m then m :: ms else if n < m then n :: m :: ms else m :: insertName n ms

def sortNames (ns : List (List Char)) : List (List Char) := ns.foldl (fun acc n => insertName n acc) []

def indexOfName (n : List Char) : List (List Char) → Nat
  | [] => 0
  | m :: ms => if n = m then 0 else indexOfName n ms + 1

def PNode.toTerm (vars : List (List Char)) : PNode → Option Term
  | .leaf n => match n with
    | c :: _ =>
      if isLower c then some (.var (indexOfName n vars))
      else (digitsVal n).bind fun v => if v < 2147483648 then some (.const v) else none
    | [] => none
  | .bin op l r =>
    match op, l.toTerm vars, r.toTerm vars with
    | ['+'], some a, some b => some (.add a b)
    | ['-'], some a, some b => some (.sub a b)
    | _, _, _ => none

def PNode.toRel (vars : List (List Char)) : PNode → Option Rel
  | .leaf _ => none
  | .bin op l r =>
    match relOfString op, l.toTerm vars, r.toTerm vars with
    | some o, some a, some b => some ⟨o, a, b⟩
    | _, _, _ => none

def splitOnChar (sep : Char) : List Char → List (List Char)
  | [] => [[]]
  | c :: rest =>
    match splitOnChar sep rest with
    | [] => [[c]]
    | p :: ps => if c == sep then [] :: p :: ps else (c :: p) :: ps

/-- gen.go gen(): printable ASCII only, `claim ':' req (';' req)*`.  Returns the
axiom and the sorted variable names. -/
def parseAxiom (s : List Char) : Option (Axiom × List (List Char)) :=
  if s.any (fun c => c.toNat < 0x20 || 0x7F ≤ c.toNat) then none else
  match s.span (· != ':') with
  | (_, []) => none
  | (claimS, _ :: reqsS) =>
    match parseNode (trimBoth claimS), (splitOnChar ';' reqsS).mapM (fun r => parseNode (trimBoth r)) with
    | some cn, some rns =>
      let vars := sortNames (cn.vars ++ (rns.map PNode.vars).flatten)
      match cn.toRel vars, rns.mapM (PNode.toRel vars) with
      | some c, some rs => some (⟨c, rs⟩, vars)
      | _, _ => none
    | _, _ => none

/-! ## printing (canonical text, as in axioms.md) -/

def varName (vars : List (List Char)) (i : Nat) : String :=
  match vars[i]? with
  | some n => String.ofList n
  | none => "?" ++ toString i

def Term.show (vars : List (List Char)) (top : Bool) : Term → String
  | .var i => varName vars i
  | .const c => toString c
  | .add l r => let s := l.show vars false ++ " + " ++ r.show vars false; if top then s else "(" ++ s ++ ")"
  | .sub l r => let s := l.show vars false ++ " - " ++ r.show vars false; if top then s else "(" ++ s ++ ")"

def RelOp.show : RelOp → String
  | .ne => "!=" | .lt => "<" | .le => "<=" | .eq => "==" | .ge => ">=" | .gt => ">"

def Rel.show (vars : List (List Char)) (r : Rel) : String :=
  r.lhs.show vars false ++ " " ++ r.op.show ++ " " ++ r.rhs.show vars false

def Axiom.show (vars : List (List Char)) (ax : Axiom) : String :=
  ax.claim.show vars ++ ": " ++ "; ".intercalate (ax.reqs.map (Rel.show vars))

end WuffsVerif.Axioms
