/-
C08 — the call protocol that `wuffs-c` emits around every public method of a
generated object.  Core Lean only.

Mirrors, function by function (all in /repo/internal/cgen):
* `writeInitializerImpl`            (cgen.go)  → `initObj`
* `writeFuncImplSelfMagicCheck`     (func.go)  → `magicBad`, `badMagicRet`, `nullSelfRet`
* `writeFuncImplArgChecks`          (func.go)  → `argsBad`, `argFailRet` (as repaired by fixes/C11-cgen-argcheck-return-type.patch)
* `writeFuncImplPrologue`           (func.go)  → the interleaved-coroutine check in `callMethod`
* `writeFuncImplBodySuspend`        (func.go)  → `afterBody` (`ok:` / `suspend:` labels)
* `writeFuncImplEpilogue`           (func.go)  → `epilogue` (error ⇒ DISABLED)
* `writeStatementRet`               (statement.go) → which exit label a `return`/`yield` reaches; the
  method body itself is a PARAMETER: every call of a history carries the `BodyRes` its body would
  produce (status + the label it jumps to + `coro_susp_point`), so "for all histories" quantifies
  over all bodies and all inputs.

The same definitions are used by the theorems (Props/C08.lean), by the line driver (Driver/C08.lean,
op `call`/`init`) and by the template tie (op `tmpl`: `Shape.ofMethod` predicts the feature vector the
Go side extracts from the generated C text).
-/
namespace WuffsVerif.ObjProto

/-- `WUFFS_BASE__MAGIC` (base/fundamental-private.h). -/
def MAGIC : Nat := 0x3CCB6C71
/-- `WUFFS_BASE__DISABLED` (base/fundamental-private.h). -/
def DISABLED : Nat := 0x075AE3D2
/-- `WUFFS_INITIALIZE__ALREADY_ZEROED` (base/fundamental-public.h). -/
def ALREADY_ZEROED : Nat := 1
/-- `WUFFS_INITIALIZE__LEAVE_INTERNAL_BUFFERS_UNINITIALIZED`. -/
def LEAVE_INTERNAL_BUFFERS_UNINITIALIZED : Nat := 2

/-- The `#…` statuses the protocol code itself produces, plus `user k` for every other error
(a package's own, or a base error returned by a body). -/
inductive Err where
  | badReceiver
  | badSizeofReceiver
  | badWuffsVersion
  | initializeFalselyClaimedAlreadyZeroed
  | initializeNotCalled
  | disabledByPreviousError
  | interleavedCoroutineCalls
  | badArgument
  | cannotReturnASuspension
  | user (k : Nat)
  deriving DecidableEq, Repr, Inhabited

/-- doc/note/statuses.md: ok, notes `@`, suspensions `$`, errors `#`. -/
inductive Status where
  | ok
  | note (k : Nat)
  | susp (k : Nat)
  | err (e : Err)
  deriving DecidableEq, Repr, Inhabited

/-- `wuffs_base__status__is_error`. -/
def Status.isError : Status → Bool
  | .err _ => true
  | _ => false

/-- `wuffs_base__status__is_suspension`. -/
def Status.isSuspension : Status → Bool
  | .susp _ => true
  | _ => false

/-- `wuffs_base__status__is_complete`: ok or a note. -/
def Status.isComplete : Status → Bool
  | .ok => true
  | .note _ => true
  | _ => false

/-- What a public method hands back: a status, or (non-status methods) either the zero value that
`writeOutParamZeroValue` emits on a rejected call, or whatever the body computes. -/
inductive Ret where
  | st (s : Status)
  | zero
  | value
  deriving DecidableEq, Repr, Inhabited

inductive Effect where
  | pure
  | impure
  | coroutine
  deriving DecidableEq, Repr, Inhabited

/-- One `In()` field as `writeFuncImplArgChecks` sees it.
`ptr`: an io/token reader/writer or a `ptr T` (check `!a_x`); `refined lo hi`: a refined numeric type
whose bounds differ from the base type's (`a_x < lo`, `a_x > hi`); `plain`: nothing emitted
(`nptr`, slices, unrefined numbers, …). -/
inductive ArgSpec where
  | ptr
  | refined (lo hi : Option Int)
  | plain
  deriving DecidableEq, Repr, Inhabited

/-- Run-time argument values, as far as the checks look at them. -/
inductive ArgVal where
  | ptr (null : Bool)
  | num (v : Int)
  | other
  deriving DecidableEq, Repr, Inhabited

/-- A public method with a receiver (the only functions that get the protocol prologue). -/
structure Method where
  effect : Effect
  /-- `Out() != nil` -/
  hasOut : Bool
  /-- `Out().IsStatus()` (coroutines always return a status) -/
  outIsStatus : Bool
  /-- `funk.coroID`: 1, 2, … in declaration order for public coroutines, else 0 -/
  coroID : Nat
  args : List ArgSpec
  /-- `len(derivedVars) > 0`: some io argument is used through `iop_…` -/
  derived : Bool
  /-- `coroSuspPoint > 0`: the body has at least one suspension point -/
  suspPoints : Bool
  /-- `len(n.Body()) == 0` -/
  emptyBody : Bool := false
  deriving Repr, Inhabited

/-- `funk.returnsStatus`. -/
def Method.returnsStatus (m : Method) : Bool :=
  m.effect == .coroutine || (m.hasOut && m.outIsStatus)

/-- The test `Effect().Coroutine() || (returnsStatus && len(derivedVars) > 0)` that decides whether a
`status` variable, the `exit:` label and the error ⇒ DISABLED epilogue are emitted. -/
def Method.hasStatusVar (m : Method) : Bool :=
  m.effect == .coroutine || (m.returnsStatus && m.derived)

/-- `writeFuncImpl` emits prologue and body only `if (len(n.Body()) != 0) || n.Effect().Coroutine() ||
(n.Out() != nil)`: a public method with an empty body, no result and no `?` is just
`return wuffs_base__make_empty_struct();` — no receiver, magic or argument check at all
(e.g. the `set_report_metadata!` of decoders without metadata). -/
def Method.skipsPrologue (m : Method) : Bool :=
  m.emptyBody && m.effect != .coroutine && !m.hasOut

/-- The part of `self->private_impl` the protocol reads and writes.  `susp f` is `p_<f>` of the
public coroutine with `coroID = f`. Memory that was never initialised is any value of this type. -/
structure Obj where
  magic : Nat
  active : Nat
  susp : Nat → Nat

/-- All-zero memory (`calloc`, `memset(self, 0, …)`). -/
def Obj.zeroed : Obj := { magic := 0, active := 0, susp := fun _ => 0 }

def Obj.setSusp (o : Obj) (f v : Nat) : Obj :=
  { o with susp := fun g => if g = f then v else o.susp g }

/-- Sizes and version constants of one generated struct. -/
structure StructDesc where
  sizeofSelf : Nat
  verMajor : Nat
  verMinor : Nat
  methods : List Method
  deriving Repr, Inhabited

/-- Which label the body leaves through (func.go `writeFuncImplBodySuspend`, statement.go
`writeStatementRet`, the `…SUSPENSION_POINT_MAYBE_SUSPEND` macro):
`ok`      — `goto ok` / falling off the end: `p_f = 0`;
`suspend` — `goto suspend`: `p_f` and `active_coroutine` are set iff the status is a suspension;
`exit`    — `goto exit`: straight to the epilogue (errors, and `yield? <note>`). -/
inductive Path where
  | ok
  | suspend
  | exit
  deriving DecidableEq, Repr, Inhabited

/-- What one execution of a method body does, as far as the protocol can see. -/
structure BodyRes where
  path : Path
  st : Status
  /-- `coro_susp_point` at the `goto suspend` -/
  point : Nat
  deriving DecidableEq, Repr, Inhabited

/-- Shapes generated bodies can have: `goto ok` only with a complete status (`return ok`, `return
"@note"`, `if (!status.repr) goto ok`), `goto suspend` only with a non-ok status and a suspension
point ≥ 1 (`if (status.repr) goto suspend`, `MAYBE_SUSPEND`), `goto exit` never with a suspension
(`MAYBE_SUSPEND` sends `$` to `suspend`; `return` turns a suspension into
`#cannot return a suspension`). -/
def BodyRes.wf (b : BodyRes) : Prop :=
  match b.path with
  | .ok => b.st.isComplete = true
  | .suspend => b.st ≠ .ok ∧ 1 ≤ b.point
  | .exit => b.st.isSuspension = false

instance (b : BodyRes) : Decidable b.wf := by
  unfold BodyRes.wf; cases b.path <;> infer_instance

/-! ### initialize — `writeInitializerImpl` -/

/-- `wuffs_foo__bar__initialize(self, sizeof_star_self, wuffs_version, options)`.
Sub-struct initialisers (`z = wuffs_x__y__initialize(&self->private_data.f_…)`) are not modelled:
they are called with the right size and `WUFFS_VERSION`, so they fail only on a false
ALREADY_ZEROED claim about nested memory (C09's subject). -/
def initObj (d : StructDesc) (o : Obj) (selfNull : Bool) (sizeofArg version options : Nat) :
    Obj × Status :=
  if selfNull then (o, .err .badReceiver)
  else if d.sizeofSelf ≠ sizeofArg then (o, .err .badSizeofReceiver)
  else if (version >>> 32) ≠ d.verMajor ∨ ((version >>> 16) &&& 0xFFFF) > d.verMinor then
    (o, .err .badWuffsVersion)
  else if options &&& ALREADY_ZEROED ≠ 0 then
    if o.magic ≠ 0 then (o, .err .initializeFalselyClaimedAlreadyZeroed)
    else ({ o with magic := MAGIC }, .ok)
  else
    -- both `memset(self, 0, sizeof(*self))` and `memset(&(self->private_impl), 0, …)` zero every
    -- field of this model
    ({ Obj.zeroed with magic := MAGIC }, .ok)

/-! ### method prologue — `writeFuncImplSelfMagicCheck`, `writeFuncImplArgChecks` -/

/-- `if (!self) return …`. -/
def nullSelfRet (m : Method) : Ret :=
  if m.returnsStatus then .st (.err .badReceiver) else .zero

/-- The magic test: pure methods also accept a DISABLED object. -/
def magicBad (m : Method) (o : Obj) : Bool :=
  if m.effect == .pure then o.magic != MAGIC && o.magic != DISABLED else o.magic != MAGIC

/-- What is returned when the magic test fails. -/
def badMagicRet (m : Method) (o : Obj) : Ret :=
  if m.returnsStatus then
    .st (.err (if o.magic == DISABLED then .disabledByPreviousError else .initializeNotCalled))
  else .zero

/-- One argument against its check. A value of the wrong shape counts as passing (the C type system
rules it out). -/
def argBad : ArgSpec → ArgVal → Bool
  | .ptr, .ptr null => null
  | .refined lo hi, .num v =>
    (match lo with | some l => v < l | none => false) ||
    (match hi with | some h => v > h | none => false)
  | _, _ => false

def argsBad : List ArgSpec → List ArgVal → Bool
  | s :: ss, v :: vs => argBad s v || argsBad ss vs
  | _, _ => false

/-- Does `writeFuncImplArgChecks` emit anything for this parameter list? -/
def hasArgChecks (l : List ArgSpec) : Bool :=
  l.any (fun s => match s with
    | .ptr => true
    | .refined lo hi => lo.isSome || hi.isSome
    | .plain => false)

/-- What the failing-argument branch returns (after setting DISABLED, which pure methods — `const
self` — do not do): status-returning methods
`#bad argument`, everything else the zero value of the result type (`writeOutParamZeroValue`; for
methods without a result that is `wuffs_base__make_empty_struct()`). This is the code after the repair
fixes/C11-cgen-argcheck-return-type.patch; before it, only coroutines returned `#bad argument` and
every other method returned an empty struct whatever its result type. -/
def argFailRet (m : Method) : Ret :=
  if m.returnsStatus then .st (.err .badArgument) else .zero

/-! ### body exit — `writeFuncImplBodySuspend`, `writeFuncImplEpilogue` -/

/-- The `ok:` and `suspend:` blocks of a public coroutine with id `f`. Without suspension points
neither block touches `p_f`/`active_coroutine` (there is no `suspend:` label at all). -/
def afterBody (m : Method) (o : Obj) (b : BodyRes) : Obj :=
  if !m.suspPoints then o
  else match b.path with
    | .ok => o.setSusp m.coroID 0
    | .suspend =>
      let o1 := o.setSusp m.coroID (if b.st.isSuspension then b.point else 0)
      { o1 with active := if b.st.isSuspension then m.coroID else 0 }
    | .exit => o

/-- `exit: if (wuffs_base__status__is_error(&status)) self->private_impl.magic = DISABLED;`. -/
def epilogue (o : Obj) (s : Status) : Obj :=
  if s.isError then { o with magic := DISABLED } else o

/-- One call of a public method that has the prologue: checks in emission order, then the body
(given), then the exit blocks. -/
def callMethodChecked (m : Method) (o : Obj) (selfNull : Bool) (args : List ArgVal) (b : BodyRes) :
    Obj × Ret :=
  if selfNull then (o, nullSelfRet m)
  else if magicBad m o then (o, badMagicRet m o)
  else if argsBad m.args args then
    -- "A pure method's self is a pointer to const": no write (fixes/C11-cgen-argcheck-return-type.patch)
    (if m.effect == .pure then o else { o with magic := DISABLED }, argFailRet m)
  else if m.effect == .coroutine then
    if o.active ≠ 0 ∧ o.active ≠ m.coroID then
      ({ o with magic := DISABLED }, .st (.err .interleavedCoroutineCalls))
    else
      let o1 := { o with active := 0 }
      let o2 := afterBody m o1 b
      (epilogue o2 b.st, .st b.st)
  else if m.hasStatusVar then
    (epilogue o b.st, .st b.st)
  else
    (o, if m.returnsStatus then .st b.st else .value)

/-- One call of a public method (`writeFuncImpl`). -/
def callMethod (m : Method) (o : Obj) (selfNull : Bool) (args : List ArgVal) (b : BodyRes) :
    Obj × Ret :=
  if m.skipsPrologue then (o, .zero) else callMethodChecked m o selfNull args b

/-! ### histories -/

inductive Call where
  | init (selfNull : Bool) (sizeofArg version options : Nat)
  | meth (idx : Nat) (selfNull : Bool) (args : List ArgVal) (b : BodyRes)
  deriving Repr, Inhabited

def Call.isInit : Call → Bool
  | .init .. => true
  | .meth .. => false

/-- One step of a history. A method index outside the struct's method list is not a call of this
object: the state is untouched and the answer is `zero`. -/
def step (d : StructDesc) (o : Obj) : Call → Obj × Ret
  | .init sn sz v op =>
    let r := initObj d o sn sz v op
    (r.1, .st r.2)
  | .meth idx sn args b =>
    match d.methods[idx]? with
    | some m => callMethod m o sn args b
    | none => (o, .zero)

/-- The states and answers along a history. -/
def trace (d : StructDesc) : Obj → List Call → List (Call × Ret)
  | _, [] => []
  | o, c :: cs => (c, (step d o c).2) :: trace d (step d o c).1 cs

/-- The state after a history. -/
def run (d : StructDesc) : Obj → List Call → Obj
  | o, [] => o
  | o, c :: cs => run d (step d o c).1 cs

/-! ### template shapes (op `tmpl`)

What the emitted C of one public method looks like, as a canonical feature vector. The Go harness
extracts the same vector from the C text `wuffs-c` generates; a changed template shows up as a
difference here before any behaviour is run. -/

/-- C text of the check list, e.g. `!a_src||a_c>100`, from parameter names. -/
def argCheckText : List (String × ArgSpec) → List String
  | [] => []
  | (n, .ptr) :: r => s!"!a_{n}" :: argCheckText r
  | (n, .refined lo hi) :: r =>
    (match lo with | some l => [s!"a_{n}<{l}"] | none => []) ++
    (match hi with | some h => [s!"a_{n}>{h}"] | none => []) ++ argCheckText r
  | (_, .plain) :: r => argCheckText r

/-- One derived io variable: name and role. -/
structure DerivedVar where
  name : String
  isWriter : Bool
  deriving Repr, Inhabited

def shapeOfMethod (m : Method) (names : List String) (dvs : List DerivedVar)
    (bodyEndsWithReturn : Bool) : String :=
  if m.skipsPrologue then
    "null:missing magic:missing badmagic:missing args:none interleave:none statusvar:no " ++
    "load:none suspend:none save:none epi:return-empty"
  else
  let null := if m.returnsStatus then "null:badrecv" else "null:zero"
  let magic := if m.effect == .pure then "magic:ne-magic&ne-disabled" else "magic:ne-magic"
  let badm := if m.returnsStatus then "badmagic:disabled?disabled:notinit" else "badmagic:zero"
  let checks := argCheckText (names.zip m.args)
  let argc := if checks.isEmpty then "args:none"
    else "args:" ++ "||".intercalate checks ++
      (if m.effect == .pure then "=>nodisable," else "=>disable,") ++
      (if m.returnsStatus then "badarg" else "zero")
  let inter := if m.effect == .coroutine
    then s!"interleave:{m.coroID}=>disable,interleaved;active=0" else "interleave:none"
  let sv := if m.hasStatusVar then "statusvar:yes" else "statusvar:no"
  let loads := "load:" ++ (if dvs.isEmpty then "none" else
    ",".intercalate (dvs.map fun v => if v.isWriter then s!"w.{v.name}+closedclamp" else s!"r.{v.name}"))
  let susp := if m.effect == .coroutine && m.suspPoints
    then s!"suspend:p=susp?point:0,active=susp?{m.coroID}:0;ok:p=0" else "suspend:none"
  let epi :=
    if m.hasStatusVar then "epi:err=>disable,return-status"
    else if !m.hasOut then "epi:return-empty" else "epi:none"
  let saveWanted := !(epi == "epi:none" && bodyEndsWithReturn) && !dvs.isEmpty
  let saves := "save:" ++ (if !saveWanted then "none" else
    ",".intercalate (dvs.map fun v => if v.isWriter then s!"{v.name}.wi" else s!"{v.name}.ri"))
  " ".intercalate [null, magic, badm, argc, inter, sv, loads, susp, saves, epi]

/-- The event sequence of `wuffs_foo__bar__initialize`, in emission order. -/
def initShape : String :=
  "null=>badrecv sizeof=>badsizeof version(major!=|minor>)=>badversion " ++
  "zeroed?(magic!=0=>falsely):(leave?memset-impl:memset-all,or-zeroed) magic=MAGIC return-ok"

end WuffsVerif.ObjProto
