/-
C17 — the Wuffs `std/lzma` decoder as a literal-only stream sees it (core Lean, executable).

Mirrors `std/lzma/decode_lzma.wuffs` `decoder.do_transform_io?` (LZMA1 header, LZMA2 chunk headers, the
range-decoder start-up, the end-of-chunk checks) and the LITERAL path of
`std/lzma/decode_bitstream_slow.wuffs` `decoder.decode_bitstream_slow?` (AlgOve00–AlgOve04, `while.low_state`).
Everything a literal-only stream cannot reach (a non-literal packet, `state >= 7`, an LZMA2 chunk without
dictionary reset, the optional end-of-stream marker, the EOS-terminated `decoded_length = 2^64-1` form)
is NOT modelled: the model answers `unmodelled`, never a guess.  I/O is whole-buffer (the coroutine
suspensions `$short read` with a closed source become `#truncated input`, as `transform_io?` does);
`decode_bitstream_fast!` is the same algorithm specialised for large buffers and is covered by the
differential runs only.

The arithmetic keeps the `~mod` (wrapping u32) operators of the Wuffs text.
-/
import WuffsVerif.Model.Lzma

namespace WuffsVerif.WLzma
open WuffsVerif.Lzma

/-- result of the modelled part of `transform_io?` -/
inductive Res where
  /-- `ok`: output, unread source -/
  | ok (out : Array UInt8) (rest : List UInt8)
  /-- an error status of the decoder (with the output written so far) -/
  | fail (msg : String) (out : Array UInt8)
  /-- the stream left the literal-only fragment that is modelled -/
  | unmodelled (why : String) (out : Array UInt8)
  deriving DecidableEq, Repr

def u32 : Nat := 4294967296

/-- "decodeTheNextBym()" as spelled out at every use in decode_bitstream_slow.wuffs:
    `threshold = (range >> 11) ~mod* prob; if bits < threshold {range = threshold; prob ~mod+= (2048 ~mod- prob) >> 5}
     else {bits ~mod-= threshold; range ~mod-= threshold; prob ~mod-= prob >> 5}; probs[..] = prob & 0xFFFF;
     if (range >> 24) == 0 {c8 = args.src.read_u8?(); bits = (bits ~mod<< 8) | c8; range ~mod<<= 8}`.
    `none`: `read_u8?` found no byte.  The range decoder is `(d.bits, d.width = range, d.src)`. -/
@[inline] def bym (prob : Nat) (d : RangeDecoder) : Option (Nat × Nat × RangeDecoder) :=
  let threshold := ((d.width >>> 11) * prob) % u32
  let r : Nat × Nat × Nat × Nat :=   -- bym, prob, bits, range
    if d.bits < threshold then
      (0, ((prob + (((2048 + u32 - prob) % u32) >>> 5)) % u32) &&& 0xFFFF, d.bits, threshold)
    else
      (1, ((prob + u32 - (prob >>> 5)) % u32) &&& 0xFFFF, (d.bits + u32 - threshold) % u32,
        (d.width + u32 - threshold) % u32)
  if r.2.2.2 >>> 24 = 0 then
    match d.src with
    | [] => none
    | c8 :: rest =>
      some (r.1, r.2.1, { src := rest, bits := ((r.2.2.1 * 256) % u32) ||| c8.toNat,
                          width := (r.2.2.2 * 256) % u32 })
  else
    some (r.1, r.2.1, { src := d.src, bits := r.2.2.1, width := r.2.2.2 })

/-- `STATE_TRANSITION_LITERAL` -/
def stateTransitionLiteral : Array Nat := #[0, 0, 0, 0, 1, 2, 3, 4, 5, 6, 4, 5]

/-- `while.low_state tree_node < 0x100 { … }`: eight rounds from `tree_node = 1`; `litBase = index_lit * 0x300`
    selects `this.probs_lit[index_lit]` inside the flattened table. -/
def lowState (litBase : Nat) : Nat → Nat → Array Nat → RangeDecoder → Option (Nat × Array Nat × RangeDecoder)
  | 0, treeNode, probsLit, d => some (treeNode, probsLit, d)
  | n + 1, treeNode, probsLit, d =>
    match bym (probsLit.getD (litBase + treeNode) 1024) d with
    | none => none
    | some (b, p', d') =>
      lowState litBase n ((treeNode <<< 1) ||| b) (probsLit.setIfInBounds (litBase + treeNode) p') d'

/-- the decoder fields the literal path reads and writes -/
structure Dec where
  d : RangeDecoder            -- bits, range, args.src
  state : Nat
  pos : Nat
  prevByte : UInt8
  probsAo00 : Array Nat       -- [12 << 4]
  probsLit : Array Nat        -- [16][0x300], flattened
  out : Array UInt8           -- args.dst

/-- outcome of the `while.outer` loop -/
inductive LoopRes where
  | endOfChunk (s : Dec)
  | shortRead (out : Array UInt8)
  | nonLiteral (out : Array UInt8)
  | highState (out : Array UInt8)

/-- `while.outer` of `decode_bitstream_slow?` restricted to LITERAL packets; `n = pos_end - pos` rounds.
    `lc`, `lpMask`, `pbMask` as computed at the top of the function. -/
def outer (lc lpMask pbMask : Nat) : Nat → Dec → LoopRes
  | 0, s => .endOfChunk s          -- `if pos >= pos_end { this.end_of_chunk = true; break.outer }`
  | n + 1, s =>
    let indexAo00 := (s.state <<< 4) ||| (s.pos &&& pbMask)
    match bym (s.probsAo00.getD indexAo00 1024) s.d with
    | none => .shortRead s.out
    | some (b, p', d1) =>
      if b ≠ 0 then .nonLiteral s.out      -- AlgOve00a: MATCH / LONGREP / SHORTREP, not modelled
      else
        let probsAo00 := s.probsAo00.setIfInBounds indexAo00 p'
        let indexLit := 15 &&& (((s.pos &&& lpMask) <<< lc) ||| (s.prevByte.toNat >>> (8 - lc)))
        if s.state ≥ 7 then .highState s.out   -- `while.high_state`: literal after non-literal, not modelled
        else
          match lowState (indexLit * 0x300) 8 1 s.probsLit d1 with
          | none => .shortRead s.out
          | some (treeNode, probsLit, d2) =>
            let prevByte := (treeNode &&& 0xFF).toUInt8
            outer lc lpMask pbMask n
              { d := d2, state := stateTransitionLiteral.getD s.state 0, pos := (s.pos + 1) % 18446744073709551616,
                prevByte := prevByte, probsAo00 := probsAo00, probsLit := probsLit, out := s.out.push prevByte }

/-- `initialize_probs!`: every probability is 1024 (only the two tables the literal path uses are kept) -/
def initAo00 : Array Nat := Array.replicate (12 <<< 4) 1024
def initLit : Array Nat := Array.replicate (16 * 0x300) 1024

/-- the tail of one round of the chunk loop of `do_transform_io?`, from `c8 = args.src.read_u8?()` (the
    first code byte) to the end-of-chunk checks; `pos`/`prevByte`/probabilities as the chunk header left
    them.  Returns the output and what is left of the source, or a verdict. -/
def codeAndBitstream (lc lp pb : Nat) (decodedLength : Nat) (pos : Nat) (prevByte : UInt8)
    (probsAo00 probsLit : Array Nat) (src : List UInt8) (out : Array UInt8) :
    Except Res (Array UInt8 × List UInt8 × Nat) :=
  match src with
  | [] => .error (.fail "#truncated input" out)
  | c8 :: src1 =>
    if c8 ≠ 0x00 then .error (.fail "#bad code" out)       -- allow_non_zero_initial_byte is off
    else
      match src1 with
      | b3 :: b2 :: b1 :: b0 :: rest =>
        let bits := (b3.toNat <<< 24) ||| (b2.toNat <<< 16) ||| (b1.toNat <<< 8) ||| b0.toNat  -- read_u32be
        if bits = 0xFFFFFFFF then .error (.fail "#bad code" out)
        else
          let posEnd := min (pos + decodedLength) 0xFFFFFFFFFFFFFFFF       -- `~sat+`
          if posEnd = 0xFFFFFFFFFFFFFFFF ∧ decodedLength ≠ 0xFFFFFFFFFFFFFFFF then
            .error (.fail "#unsupported decoded length" out)
          else if decodedLength = 0xFFFFFFFFFFFFFFFF then
            .error (.unmodelled "end-of-stream-terminated chunk" out)
          else
            let lpMask := (1 <<< lp) - 1
            let pbMask := (1 <<< pb) - 1
            match outer lc lpMask pbMask (posEnd - pos)
                { d := { src := rest, bits := bits, width := 0xFFFFFFFF }, state := 0, pos := pos,
                  prevByte := prevByte, probsAo00 := probsAo00, probsLit := probsLit, out := out } with
            | .shortRead o => .error (.fail "#truncated input" o)
            | .nonLiteral o => .error (.unmodelled "non-literal packet" o)
            | .highState o => .error (.unmodelled "literal after non-literal" o)
            | .endOfChunk s =>
              -- `this.stashed_pos <> this.stashed_pos_end` cannot happen here; `stashed_bits <> 0` would try
              -- `decode_optional_end_of_stream?`, which is a non-literal packet
              if s.d.bits ≠ 0 then .error (.unmodelled "optional end-of-stream marker" s.out)
              else .ok (s.out, s.d.src, 5 + (rest.length - s.d.src.length))
      | _ => .error (.fail "#truncated input" out)

/-- LZMA1 (`format_extension & 0xFF == 0`): 13 byte header, one implicit chunk. -/
def decodeLzma1 (src : List UInt8) : Res :=
  match src with
  | [] => .fail "#truncated input" #[]
  | propByte :: src1 =>
    if propByte.toNat ≥ 225 then .fail "#bad header" #[]
    else
      let lc := propByte.toNat % 9
      let lp := (propByte.toNat / 9) % 5
      let pb := (propByte.toNat / 9) / 5
      if lc + lp > 4 then .fail "#unsupported properties" #[]
      else
        match src1 with
        | d0 :: d1 :: d2 :: d3 :: rest =>
          let _dictSize := max ((d0.toNat) + (d1.toNat <<< 8) + (d2.toNat <<< 16) + (d3.toNat <<< 24)) 4096
          if rest.length < 8 then .fail "#truncated input" #[]
          else
            let decodedLength := readLe64 rest
            if decodedLength ≥ 0x8000000000000000 ∧ decodedLength ≠ 0xFFFFFFFFFFFFFFFF then
              .fail "#unsupported decoded length" #[]
            else
              match codeAndBitstream (min lc 4) lp pb decodedLength 0 0 initAo00 initLit (rest.drop 8) #[] with
              | .error r => r
              | .ok (out, rest', _) => .ok out rest'
        | _ => .fail "#truncated input" #[]

/-- LZMA2 (`format_extension & 0xFF == 2`): the chunk loop.  `fuel` bounds the number of chunks (every
    chunk consumes at least one byte).  Only chunks that reset the dictionary are modelled
    (`0x01`, and `>= 0xE0`): they start from `stashed_pos = 0`, `stashed_bytes = 0`. -/
def lzma2Chunks : Nat → Bool → Array UInt8 → List UInt8 → Res
  | 0, _, out, _ => .fail "#truncated input" out
  | fuel + 1, needDictReset, out, src =>
    match src with
    | [] => .fail "#truncated input" out
    | headerByte :: src1 =>
      if headerByte = 0x00 then .ok out src1
      else if headerByte.toNat < 0x80 then
        -- uncompressed chunk: `0x01` resets the dictionary, `0x02` does not (and needs an earlier reset)
        if headerByte.toNat ≥ 0x02 ∧ (headerByte.toNat > 0x02 ∨ needDictReset) then .fail "#bad LZMA2 header" out
        else
          match src1 with
          | u1 :: u0 :: src3 =>
            let length := 1 + ((u1.toNat <<< 8) ||| u0.toNat)
            if src3.length < length then .fail "#truncated input" (pushList out src3)
            else lzma2Chunks fuel false (pushList out (src3.take length)) (src3.drop length)
          | _ => .fail "#truncated input" out
      else if headerByte.toNat < 0xE0 then .unmodelled "LZMA chunk without dictionary reset" out
      else
        match src1 with
        | u1 :: u0 :: c1 :: c0 :: propByte :: src6 =>
          let decodedLength := ((headerByte.toNat &&& 0x1F) <<< 16) + (1 + ((u1.toNat <<< 8) ||| u0.toNat))
          let encodedLengthWant := 1 + ((c1.toNat <<< 8) ||| c0.toNat)
          if propByte.toNat ≥ 225 then .fail "#bad LZMA2 header" out
          else
            let lc := propByte.toNat % 9
            let lp := (propByte.toNat / 9) % 5
            let pb := (propByte.toNat / 9) / 5
            if lc + lp > 4 then .fail "#bad LZMA2 header" out
            else
              match codeAndBitstream (min lc 4) lp pb decodedLength 0 0 initAo00 initLit src6 out with
              | .error r => r
              | .ok (out', rest', encodedLengthHave) =>
                if encodedLengthHave ≠ encodedLengthWant then .fail "#bad LZMA2 header" out'
                else lzma2Chunks fuel false out' rest'
        | _ => .fail "#truncated input" out

def decodeLzma2 (src : List UInt8) : Res := lzma2Chunks (src.length + 1) true #[] src

end WuffsVerif.WLzma
