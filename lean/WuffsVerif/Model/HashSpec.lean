/-
C09 — reference definitions of the three checksums whose std implementations carry
SIMD twins (std/adler32/common_up_x86_sse42.wuffs, std/crc32/common_up_x86_sse42.wuffs,
std/crc64/common_up_x86_sse42.wuffs).  These are the textbook definitions (RFC 1950
Adler-32; bit-at-a-time reflected CRC-32/IEEE and CRC-64/ECMA-182), NOT models of the
Wuffs code: every build variant of the compiled code is compared against them.
Core Lean only.
-/
namespace WuffsVerif.HashSpec

/-- RFC 1950 §8.2: s1 = 1 + Σ bytes, s2 = Σ s1, both mod 65521; result s2·65536 + s1.
State-passing form so that chunked updates compose. -/
def adler32Step (st : Nat × Nat) (b : UInt8) : Nat × Nat :=
  let s1 := (st.1 + b.toNat) % 65521
  (s1, (st.2 + s1) % 65521)

def adler32 (bs : List UInt8) : Nat :=
  let st := bs.foldl adler32Step (1, 0)
  st.2 * 65536 + st.1

def crcBit (poly : Nat) (c : Nat) : Nat :=
  if c % 2 = 1 then (c / 2) ^^^ poly else c / 2

def crcByte (poly : Nat) (c : Nat) (b : UInt8) : Nat :=
  let c := c ^^^ b.toNat
  crcBit poly (crcBit poly (crcBit poly (crcBit poly (crcBit poly (crcBit poly (crcBit poly (crcBit poly c)))))))

/-- CRC-32/IEEE (reflected 0xEDB88320, init/xorout 0xFFFFFFFF) -/
def crc32 (bs : List UInt8) : Nat :=
  (bs.foldl (crcByte 0xEDB88320) 0xFFFFFFFF) ^^^ 0xFFFFFFFF

/-- CRC-64/XZ a.k.a. ECMA-182 reflected (0xC96C5795D7870F42, init/xorout all ones) -/
def crc64 (bs : List UInt8) : Nat :=
  (bs.foldl (crcByte 0xC96C5795D7870F42) 0xFFFFFFFFFFFFFFFF) ^^^ 0xFFFFFFFFFFFFFFFF

end WuffsVerif.HashSpec
