/-
C08 — the `call_sequence` automaton of Wuffs' image decoders.  Core Lean only.

Read from doc/std/image-decoders-call-sequence.md and mirrored from the two anchored decoders,
/repo/std/gif/decode_gif.wuffs and /repo/std/png/decode_png.wuffs: functions
`do_decode_image_config`, `do_tell_me_more`, `restart_frame`, `do_decode_frame_config`, `skip_frame`,
`do_decode_frame` and (gif) `decode_up_to_id_part1` / `decode_extension`.

Everything the data decides (is there another frame, is metadata reported, does the read suspend
or fail) is non-deterministic here: `next codec cs m` lists every `(outcome class, call_sequence
afterwards)` a FRESH call (one that is not the resumption of a suspended coroutine) of method `m`
can produce in state `cs`. A call that stops early (suspension or error) leaves `call_sequence`
at the value of the stage it reached.
-/
namespace WuffsVerif.CallSeq

inductive Codec where
  | gif
  | png
  /-- the single-frame decoders, whose `call_sequence` code is textually the same (op `cssrc` checks
  that on every run): bmp, etc2, handsum, jpeg, netpbm, qoi, targa, thumbhash, vp8, wbmp, webp.
  (bmp's `do_decode_image_config` additionally answers `"#bad call sequence"` after it reported an
  `"@I/O redirect"`; that state is outside this automaton.) -/
  | still
  /-- std/nie (NIE stills and NIA animations; no metadata) -/
  | nie
  deriving DecidableEq, Repr, Inhabited

/-- Does the decoder have the metadata side-track (the `0x10` states) at all? The others never enter a
right-hand-column state, so every `tell_me_more` call on them is out of order: their `tell_me_more` is
the one-liner `return base."#bad call sequence"` (before fixes/C08-tmm-bad-call-sequence.patch it was
`return base."#no more information"`). -/
def Codec.hasMetadata : Codec → Bool
  | .gif => true
  | .png => true
  | .still => false
  | .nie => false

/-- DIC, DFC, DF, TMM, RF of the document. -/
inductive Meth where
  | dic
  | dfc
  | df
  | tmm
  | rf
  deriving DecidableEq, Repr, Inhabited

/-- Outcome classes of one call. -/
inductive Cls where
  /-- `"#bad call sequence"` -/
  | bcs
  /-- ok -/
  | ok
  /-- `"@end of data"` -/
  | eod
  /-- `"@metadata reported"` -/
  | mdata
  /-- a suspension (`$short read`, `$even more information`, …) -/
  | susp
  /-- any other error (`#bad header`, `#bad restart`, `#bad argument`, `#no more information`, …) -/
  | err
  deriving DecidableEq, Repr, Inhabited

abbrev Out := Cls × Nat

instance : BEq Out := ⟨fun a b => decide (a = b)⟩

/-- A stage that reads input can stop there with a suspension or an error, leaving `cs` as is. -/
def stops (cs : Nat) : List Out := [(.susp, cs), (.err, cs)]

/-- Intermediate result of an inner `do_…` call: either the caller goes on with `call_sequence = cs`
(`cont`), or the whole public call ends with that outcome (`fin`; a callee's note, suspension or
error propagates: `if (status.repr) goto suspend`). -/
inductive Res where
  | cont (cs : Nat)
  | fin (o : Out)
  deriving DecidableEq, Repr, Inhabited

def Res.ofStops (cs : Nat) : List Res := (stops cs).map .fin

/-- `do_decode_image_config`. gif: header, then `decode_up_to_id_part1` (trailer ⇒ 0x60, reported
metadata ⇒ 0x10 + note), finally `if cs == 0 then cs = 0x20`. png: IHDR, chunks up to IDAT
(metadata ⇒ 0x10 + note), `cs = 0x20`. -/
def dicInner (c : Codec) (cs : Nat) : List Res :=
  if cs ≠ 0x00 then [.fin (.bcs, cs)]
  else match c with
    | .gif => Res.ofStops 0x00 ++ [.fin (.mdata, 0x10), .cont 0x20, .cont 0x60]
    | .png => Res.ofStops 0x00 ++ [.fin (.mdata, 0x10), .cont 0x20]
    | .still => Res.ofStops 0x00 ++ [.cont 0x20]
    | .nie => Res.ofStops 0x00 ++ [.cont 0x20]

/-- The tail of `do_decode_frame_config` once the entry switch is through, entered with `cs`.
gif: `if (num_decoded_frame_configs_value > 0) or (cs == 0x28) { decode_up_to_id_part1 (a trailer sets
0x60); if cs >= 0x60 return "@end of data" }`, a possible `$short read`, then `cs = 0x40`.
png: `if metadata_fourcc ≠ 0 { cs = 0x30; return "@metadata reported" }`; first frame: no reads; later
frames: IEND ⇒ 0x60 + `"@end of data"`, metadata ⇒ 0x30, fcTL ⇒ go on; then `cs = 0x40`.
Whether the gif branch is taken depends on a counter the automaton does not track: both are allowed. -/
def dfcTail (c : Codec) (cs : Nat) : List Res :=
  match c with
  | .gif => Res.ofStops cs ++ [.fin (.eod, 0x60), .cont 0x40]
  | .png => [.fin (.mdata, 0x30)] ++ Res.ofStops cs ++ [.fin (.eod, 0x60), .cont 0x40]
  -- still: straight to `cs = 0x40`. nie: `decode_animation_info` (may stop; the animation footer sets
  -- 0x60 and returns `"@end of data"`), then `cs = 0x40`
  | .still => [.cont 0x40]
  | .nie => Res.ofStops cs ++ [.fin (.eod, 0x60), .cont 0x40]

/-- `do_decode_frame_config`. -/
def dfcInner (c : Codec) (cs : Nat) : List Res :=
  -- gif, png only: `if (cs & 0x10) <> 0 { return "#bad call sequence" }`
  if c.hasMetadata ∧ cs &&& 0x10 ≠ 0 then [.fin (.bcs, cs)]
  else if cs = 0x20 then dfcTail c 0x20
  else if cs < 0x20 then
    (dicInner c cs).flatMap fun r => match r with
      | .fin o => [.fin o]
      | .cont cs' => dfcTail c cs'
  else if cs = 0x28 then
    -- `#bad restart` when the reader is not at `frame_config_io_position`
    [.fin (.err, 0x28)] ++ dfcTail c 0x28
  else if cs = 0x40 then
    match c with
    -- still: `cs = 0x60; return "@end of data"`
    | .still => [.fin (.eod, 0x60)]
    -- nie: `skip_frame` ends with `cs = 0x20` (animated) or `cs = 0x60; return "@end of data"`
    | .nie => Res.ofStops 0x40 ++ [.fin (.eod, 0x60)] ++ dfcTail c 0x20
    -- gif, png: `skip_frame` (ends with `cs = 0x20`), then the tail
    | _ => Res.ofStops 0x40 ++ dfcTail c 0x20
  else [.fin (.eod, cs)]

/-- The pixels of `do_decode_frame` (may stop), then the final assignment. -/
def dfBody : Codec → List Res
  -- still: `cs = 0x60`. nie: `cs = 0x20` (animated) or `cs = 0x60`. gif, png: `cs = 0x20`
  | .still => Res.ofStops 0x40 ++ [.cont 0x60]
  | .nie => Res.ofStops 0x40 ++ [.cont 0x20, .cont 0x60]
  | _ => Res.ofStops 0x40 ++ [.cont 0x20]

/-- `do_decode_frame`. gif: `cs == 0x40` go on, `cs < 0x40` first `do_decode_frame_config`, else
`"@end of data"`. png: 0x10 bit ⇒ bad call sequence, `cs >= 0x60` ⇒ `"@end of data"`, `cs ≠ 0x40` first
`do_decode_frame_config`. Then the pixels (may stop), then `cs = 0x20`. -/
def dfInner (c : Codec) (cs : Nat) : List Res :=
  let body : List Res := dfBody c
  let viaDfc : List Res := (dfcInner c cs).flatMap fun r => match r with
    | .fin o => [.fin o]
    | .cont _ => body
  match c with
  | .gif =>
    if cs = 0x40 then body else if cs < 0x40 then viaDfc else [.fin (.eod, cs)]
  | .png =>
    if cs &&& 0x10 ≠ 0 then [.fin (.bcs, cs)]
    else if cs ≥ 0x60 then [.fin (.eod, cs)]
    else if cs ≠ 0x40 then viaDfc else body
  | .still =>
    if cs = 0x40 then body else if cs < 0x40 then viaDfc else [.fin (.eod, cs)]
  | .nie =>
    if cs = 0x40 then body else if cs < 0x40 then viaDfc else [.fin (.eod, cs)]

/-- `do_tell_me_more`: `(cs & 0x10) == 0` ⇒ bad call sequence; may stop (`$even more information`,
`$mispositioned read`, `#no more information`, …); at the end `cs &= 0xEF`. -/
def tmmInner (c : Codec) (cs : Nat) : List Res :=
  if !c.hasMetadata then [.fin (.bcs, cs)]   -- `return base."#bad call sequence"`
  else if cs &&& 0x10 = 0 then [.fin (.bcs, cs)]
  else Res.ofStops cs ++ [.cont (cs &&& 0xEF)]

/-- `restart_frame` (not a coroutine): `cs < 0x20` ⇒ bad call sequence; `#bad argument`; `cs = 0x28`. -/
def rfInner (_c : Codec) (cs : Nat) : List Res :=
  if cs < 0x20 then [.fin (.bcs, cs)]
  else [.fin (.err, cs), .cont 0x28]

/-- A public call that runs to the end of its `do_…` function returns ok. -/
def finish (l : List Res) : List Out :=
  l.map fun r => match r with
    | .cont cs => (.ok, cs)
    | .fin o => o

/-- Every outcome of a fresh call of `m` in state `cs`. -/
def next (c : Codec) (cs : Nat) : Meth → List Out
  | .dic => finish (dicInner c cs)
  | .dfc => finish (dfcInner c cs)
  | .df => finish (dfInner c cs)
  | .tmm => finish (tmmInner c cs)
  | .rf => finish (rfInner c cs)

/-- The document's rule: DIC only before anything else was decoded; TMM only in a `0x10`-bit
(metadata) state; RF only once the image configuration is decoded; DFC and DF not while metadata is
pending. -/
def inOrder (cs : Nat) : Meth → Bool
  | .dic => cs == 0x00
  | .tmm => cs &&& 0x10 != 0
  | .rf => cs ≥ 0x20
  | .dfc => cs &&& 0x10 == 0
  | .df => cs &&& 0x10 == 0

/-- The states the automaton can be in. -/
def states : List Nat := [0x00, 0x10, 0x20, 0x28, 0x30, 0x40, 0x60]

/-- Is `(cls, cs')` a possible result of a call (fresh or resumed) of `m` in state `cs`? A resumed
call continues in the middle of its `do_…` function, so only its later stages are known: anything
some fresh call of `m` can produce from some state, except a rejection. -/
def allowed (c : Codec) (cs : Nat) (m : Meth) (resumed : Bool) (o : Out) : Bool :=
  if resumed then
    o.1 != .bcs &&
      (o == (.susp, cs) || o == (.err, cs) || states.any fun s => (next c s m).contains o)
  else (next c cs m).contains o

/-! ### the source text the automaton was written from (op `cssrc`)

For every function of an image decoder that reads or writes `this.call_sequence`: the `if`/`else if`
chains one of whose conditions mentions the field (whole, so the statuses returned in the branches are
included) and the other statements that mention it, in source order, separated by ` | `, with
`this.call_sequence` written `cs` and the position test of a restart written `POS`. The harness
extracts the same text from the working tree's std/*/*.wuffs on every run (harness/cmd/c08/cssrc.go);
the classes are `gif`, `png`, `nie`, `still` (the eleven single-frame decoders, whose text is
identical) and `bmp` (its `do_decode_image_config` and `do_tell_me_more`, which look at
`io_redirect_fourcc`, and its function list). For a decoder without the metadata side-track the
`tell_me_more` function (bmp: `do_tell_me_more`) is included although it does not mention the field: its
first `return` with the `if` around it, i.e. the statement that rejects the call. -/

def srcShape (cls fn : String) : String :=
  match cls, fn with
  | "bmp", "do_decode_image_config" =>
    "if (cs <> 0x00) or (this.io_redirect_fourcc == 1) { return base.\"#bad call sequence\" } else if this.io_redirect_fourcc <> 0 { return base.\"@I/O redirect\" } | cs = 0x20"
  -- no redirect pending (0), or already told (1): out of order
  | "bmp", "do_tell_me_more" =>
    "if this.io_redirect_fourcc <= 1 { return base.\"#bad call sequence\" }"
  | "gif", "decode_ae" =>
    "if is_animexts or is_netscape { block_size = args.src.read_u8?() if block_size <> 3 { args.src.skip_u32?(n: block_size as base.u32) break.goto_done } c8 = args.src.read_u8?() if c8 <> 0x01 { args.src.skip_u32?(n: 2) break.goto_done } this.num_animation_loops_value = args.src.read_u16le_as_u32?() this.seen_num_animation_loops_value = true if (0 < this.num_animation_loops_value) and (this.num_animation_loops_value <= 0xFFFF) { this.num_animation_loops_value += 1 } } else if cs >= 0x20 { } else if is_iccp and this.report_metadata_iccp { this.metadata_fourcc = 'ICCP'be this.metadata_io_position = args.src.position() cs = 0x10 return base.\"@metadata reported\" } else if is_xmp and this.report_metadata_xmp { this.metadata_fourcc = 'XMP 'be this.metadata_io_position = args.src.position() cs = 0x10 return base.\"@metadata reported\" }"
  | "gif", "decode_up_to_id_part1" =>
    "cs = 0x60"
  | "gif", "do_decode_frame" =>
    "if cs == 0x40 { } else if cs < 0x40 { this.do_decode_frame_config?(dst: nullptr, src: args.src) } else { return base.\"@end of data\" } | cs = 0x20"
  | "gif", "do_decode_frame_config" =>
    "if (cs & 0x10) <> 0 { return base.\"#bad call sequence\" } else if cs == 0x20 { } else if cs < 0x20 { this.do_decode_image_config?(dst: nullptr, src: args.src) } else if cs == 0x28 { if POS <> args.src.position() { return base.\"#bad restart\" } } else if cs == 0x40 { this.skip_frame?(src: args.src) if cs >= 0x60 { return base.\"@end of data\" } } else { return base.\"@end of data\" } | if (this.num_decoded_frame_configs_value > 0) or (cs == 0x28) { this.decode_up_to_id_part1?(src: args.src) if cs >= 0x60 { return base.\"@end of data\" } } | cs = 0x40"
  | "gif", "do_decode_image_config" =>
    "if cs <> 0x00 { return base.\"#bad call sequence\" } else if not this.seen_header { this.decode_header?(src: args.src) this.decode_lsd?(src: args.src) this.seen_header = true } | if cs == 0x00 { cs = 0x20 }"
  | "gif", "do_tell_me_more" =>
    "if (cs & 0x10) == 0 { return base.\"#bad call sequence\" } | cs &= 0xEF"
  | "gif", "restart_frame" =>
    "if cs < 0x20 { return base.\"#bad call sequence\" } else if args.io_position == 0 { return base.\"#bad argument\" } | cs = 0x28"
  | "gif", "set_quirk" =>
    "if (cs == 0x00) and (args.key >= QUIRKS_BASE) { args.key -= QUIRKS_BASE if args.key < QUIRKS_COUNT { this.quirks[args.key] = args.value > 0 return ok } }"
  | "gif", "skip_frame" =>
    "cs = 0x20"
  | "nie", "decode_animation_info" =>
    "cs = 0x60"
  | "nie", "do_decode_frame" =>
    "if cs == 0x40 { } else if cs < 0x40 { this.do_decode_frame_config?(dst: nullptr, src: args.src) } else { return base.\"@end of data\" } | cs = 0x20 | cs = 0x60"
  | "nie", "do_decode_frame_config" =>
    "if cs == 0x20 { } else if cs < 0x20 { this.do_decode_image_config?(dst: nullptr, src: args.src) } else if cs == 0x28 { if POS <> args.src.position() { return base.\"#bad restart\" } } else if cs == 0x40 { this.skip_frame?(src: args.src) } else { return base.\"@end of data\" } | cs = 0x40"
  | "nie", "do_decode_image_config" =>
    "if cs <> 0x00 { return base.\"#bad call sequence\" } | cs = 0x20"
  | "nie", "restart_frame" =>
    "if cs < 0x20 { return base.\"#bad call sequence\" } | cs = 0x28"
  | "nie", "skip_frame" =>
    "cs = 0x20 | cs = 0x60"
  | "nie", "tell_me_more" =>
    "return base.\"#bad call sequence\""
  | "png", "do_decode_frame" =>
    "if (cs & 0x10) <> 0 { return base.\"#bad call sequence\" } else if cs >= 0x60 { return base.\"@end of data\" } else if cs <> 0x40 { this.do_decode_frame_config?(dst: nullptr, src: args.src) } | cs = 0x20"
  | "png", "do_decode_frame_config" =>
    "if (cs & 0x10) <> 0 { return base.\"#bad call sequence\" } else if cs == 0x20 { } else if cs < 0x20 { this.do_decode_image_config?(dst: nullptr, src: args.src) } else if cs == 0x28 { if POS <> args.src.position() { return base.\"#bad restart\" } } else if cs == 0x40 { this.skip_frame?(src: args.src) } else { return base.\"@end of data\" } | cs = 0x30 | cs = 0x60 | cs = 0x30 | cs = 0x40"
  | "png", "do_decode_image_config" =>
    "if cs <> 0x00 { return base.\"#bad call sequence\" } else if not this.seen_ihdr { magic = args.src.read_u64le?() if magic <> '\\x89PNG\\x0D\\x0A\\x1A\\x0A'le { return \"#bad header\" } magic = args.src.read_u64le?() if magic <> '\\x00\\x00\\x00\\x0DIHDR'le { if magic == '\\x00\\x00\\x00\\x04CgBI'le { return \"#unsupported CgBI extension\" } return \"#bad header\" } this.chunk_type_array[0] = 'I' this.chunk_type_array[1] = 'H' this.chunk_type_array[2] = 'D' this.chunk_type_array[3] = 'R' this.crc32.reset!() this.crc32.update_u32!(x: this.chunk_type_array[..]) while true { mark = args.src.mark() status =? this.decode_ihdr?(src: args.src) if not this.ignore_checksum { checksum_have = this.crc32.update_u32!(x: args.src.since(mark: mark)) } if status.is_ok() { break } yield? status } checksum_want = args.src.read_u32be?() if (not this.ignore_checksum) and (checksum_have <> checksum_want) { return \"#bad checksum\" } this.seen_ihdr = true } else if this.metadata_fourcc <> 0 { cs = 0x10 return base.\"@metadata reported\" } | cs = 0x10 | cs = 0x20"
  | "png", "do_tell_me_more" =>
    "if (cs & 0x10) == 0 { return base.\"#bad call sequence\" } | cs &= 0xEF | cs &= 0xEF"
  | "png", "restart_frame" =>
    "if cs < 0x20 { return base.\"#bad call sequence\" } else if (args.index >= (this.num_animation_frames_value as base.u64)) or ((args.index == 0) and (args.io_position <> this.first_config_io_position)) { return base.\"#bad argument\" } | cs = 0x28"
  | "png", "skip_frame" =>
    "cs = 0x20"
  | "still", "do_decode_frame" =>
    "if cs == 0x40 { } else if cs < 0x40 { this.do_decode_frame_config?(dst: nullptr, src: args.src) } else { return base.\"@end of data\" } | cs = 0x60"
  | "still", "do_decode_frame_config" =>
    "if cs == 0x20 { } else if cs < 0x20 { this.do_decode_image_config?(dst: nullptr, src: args.src) } else if cs == 0x28 { if POS <> args.src.position() { return base.\"#bad restart\" } } else if cs == 0x40 { cs = 0x60 return base.\"@end of data\" } else { return base.\"@end of data\" } | cs = 0x40"
  | "still", "do_decode_image_config" =>
    "if cs <> 0x00 { return base.\"#bad call sequence\" } | cs = 0x20"
  | "still", "num_decoded_frame_configs" =>
    "if cs > 0x20 { return 1 }"
  | "still", "num_decoded_frames" =>
    "if cs > 0x40 { return 1 }"
  | "still", "restart_frame" =>
    "if cs < 0x20 { return base.\"#bad call sequence\" } | cs = 0x28"
  -- the whole body (the decoders without the metadata side-track; `tmmInner`)
  | "still", "tell_me_more" =>
    "return base.\"#bad call sequence\""
  | _, _ => "no-such-function"

/-- The functions that mention `this.call_sequence`, sorted by name. -/
def srcFuncs (cls : String) : String :=
  match cls with
  | "gif" => "decode_ae,decode_up_to_id_part1,do_decode_frame,do_decode_frame_config,do_decode_image_config,do_tell_me_more,restart_frame,set_quirk,skip_frame"
  | "nie" => "decode_animation_info,do_decode_frame,do_decode_frame_config,do_decode_image_config,restart_frame,skip_frame,tell_me_more"
  | "bmp" => "do_decode_frame,do_decode_frame_config,do_decode_image_config,do_tell_me_more,num_decoded_frame_configs,num_decoded_frames,restart_frame"
  | "png" => "do_decode_frame,do_decode_frame_config,do_decode_image_config,do_tell_me_more,restart_frame,skip_frame"
  | "still" => "do_decode_frame,do_decode_frame_config,do_decode_image_config,num_decoded_frame_configs,num_decoded_frames,restart_frame,tell_me_more"
  | _ => "no-such-class"

end WuffsVerif.CallSeq
