/-
C08 — the `call_sequence` automaton of Wuffs' image decoders.  Core Lean only.

Read from doc/std/image-decoders-call-sequence.md and mirrored from the two anchored decoders,
/repo/std/gif/decode_gif.wuffs and /repo/std/png/decode_png.wuffs: functions
`do_decode_image_config`, `do_tell_me_more`, `restart_frame`, `do_decode_frame_config`, `skip_frame`,
`do_decode_frame` and (gif) `decode_up_to_id_part1` / `decode_extension`.

Everything the data decides (is there another frame, is metadata reported, does the read suspend
or fail) is non-deterministic here: `next codec cs m` lists every `(outcome class, call_sequence
afterwards)` a FRESH call (one that is not the resumption of a suspended coroutine) of method `m`
can produce in state `cs`. A call that stops early (suspension or error) leaves `call_sequence`
at the value of the stage it reached.
-/
namespace WuffsVerif.CallSeq

inductive Codec where
  | gif
  | png
  /-- the single-frame decoders, whose `call_sequence` code is textually the same (op `cssrc` checks
  that on every run): bmp, etc2, handsum, jpeg, netpbm, qoi, targa, thumbhash, vp8, wbmp, webp.
  (bmp's `do_decode_image_config` additionally answers `"#bad call sequence"` after it reported an
  `"@I/O redirect"`; that state is outside this automaton.) -/
  | still
  /-- std/nie (NIE stills and NIA animations; no metadata) -/
  | nie
  deriving DecidableEq, Repr, Inhabited

/-- Does the decoder have the metadata side-track (the `0x10` states) at all? The others' `tell_me_more`
is the one-liner `return base."#no more information"`. -/
def Codec.hasMetadata : Codec → Bool
  | .gif => true
  | .png => true
  | .still => false
  | .nie => false

/-- DIC, DFC, DF, TMM, RF of the document. -/
inductive Meth where
  | dic
  | dfc
  | df
  | tmm
  | rf
  deriving DecidableEq, Repr, Inhabited

/-- Outcome classes of one call. -/
inductive Cls where
  /-- `"#bad call sequence"` -/
  | bcs
  /-- ok -/
  | ok
  /-- `"@end of data"` -/
  | eod
  /-- `"@metadata reported"` -/
  | mdata
  /-- a suspension (`$short read`, `$even more information`, …) -/
  | susp
  /-- any other error (`#bad header`, `#bad restart`, `#bad argument`, `#no more information`, …) -/
  | err
  deriving DecidableEq, Repr, Inhabited

abbrev Out := Cls × Nat

instance : BEq Out := ⟨fun a b => decide (a = b)⟩

/-- A stage that reads input can stop there with a suspension or an error, leaving `cs` as is. -/
def stops (cs : Nat) : List Out := [(.susp, cs), (.err, cs)]

/-- Intermediate result of an inner `do_…` call: either the caller goes on with `call_sequence = cs`
(`cont`), or the whole public call ends with that outcome (`fin`; a callee's note, suspension or
error propagates: `if (status.repr) goto suspend`). -/
inductive Res where
  | cont (cs : Nat)
  | fin (o : Out)
  deriving DecidableEq, Repr, Inhabited

def Res.ofStops (cs : Nat) : List Res := (stops cs).map .fin

/-- `do_decode_image_config`. gif: header, then `decode_up_to_id_part1` (trailer ⇒ 0x60, reported
metadata ⇒ 0x10 + note), finally `if cs == 0 then cs = 0x20`. png: IHDR, chunks up to IDAT
(metadata ⇒ 0x10 + note), `cs = 0x20`. -/
def dicInner (c : Codec) (cs : Nat) : List Res :=
  if cs ≠ 0x00 then [.fin (.bcs, cs)]
  else match c with
    | .gif => Res.ofStops 0x00 ++ [.fin (.mdata, 0x10), .cont 0x20, .cont 0x60]
    | .png => Res.ofStops 0x00 ++ [.fin (.mdata, 0x10), .cont 0x20]
    | .still => Res.ofStops 0x00 ++ [.cont 0x20]
    | .nie => Res.ofStops 0x00 ++ [.cont 0x20]

/-- The tail of `do_decode_frame_config` once the entry switch is through, entered with `cs`.
gif: `if (num_decoded_frame_configs_value > 0) or (cs == 0x28) { decode_up_to_id_part1 (a trailer sets
0x60); if cs >= 0x60 return "@end of data" }`, a possible `$short read`, then `cs = 0x40`.
png: `if metadata_fourcc ≠ 0 { cs = 0x30; return "@metadata reported" }`; first frame: no reads; later
frames: IEND ⇒ 0x60 + `"@end of data"`, metadata ⇒ 0x30, fcTL ⇒ go on; then `cs = 0x40`.
Whether the gif branch is taken depends on a counter the automaton does not track: both are allowed. -/
def dfcTail (c : Codec) (cs : Nat) : List Res :=
  match c with
  | .gif => Res.ofStops cs ++ [.fin (.eod, 0x60), .cont 0x40]
  | .png => [.fin (.mdata, 0x30)] ++ Res.ofStops cs ++ [.fin (.eod, 0x60), .cont 0x40]
  -- still: straight to `cs = 0x40`. nie: `decode_animation_info` (may stop; the animation footer sets
  -- 0x60 and returns `"@end of data"`), then `cs = 0x40`
  | .still => [.cont 0x40]
  | .nie => Res.ofStops cs ++ [.fin (.eod, 0x60), .cont 0x40]

/-- `do_decode_frame_config`. -/
def dfcInner (c : Codec) (cs : Nat) : List Res :=
  -- gif, png only: `if (cs & 0x10) <> 0 { return "#bad call sequence" }`
  if c.hasMetadata ∧ cs &&& 0x10 ≠ 0 then [.fin (.bcs, cs)]
  else if cs = 0x20 then dfcTail c 0x20
  else if cs < 0x20 then
    (dicInner c cs).flatMap fun r => match r with
      | .fin o => [.fin o]
      | .cont cs' => dfcTail c cs'
  else if cs = 0x28 then
    -- `#bad restart` when the reader is not at `frame_config_io_position`
    [.fin (.err, 0x28)] ++ dfcTail c 0x28
  else if cs = 0x40 then
    match c with
    -- still: `cs = 0x60; return "@end of data"`
    | .still => [.fin (.eod, 0x60)]
    -- nie: `skip_frame` ends with `cs = 0x20` (animated) or `cs = 0x60; return "@end of data"`
    | .nie => Res.ofStops 0x40 ++ [.fin (.eod, 0x60)] ++ dfcTail c 0x20
    -- gif, png: `skip_frame` (ends with `cs = 0x20`), then the tail
    | _ => Res.ofStops 0x40 ++ dfcTail c 0x20
  else [.fin (.eod, cs)]

/-- The pixels of `do_decode_frame` (may stop), then the final assignment. -/
def dfBody : Codec → List Res
  -- still: `cs = 0x60`. nie: `cs = 0x20` (animated) or `cs = 0x60`. gif, png: `cs = 0x20`
  | .still => Res.ofStops 0x40 ++ [.cont 0x60]
  | .nie => Res.ofStops 0x40 ++ [.cont 0x20, .cont 0x60]
  | _ => Res.ofStops 0x40 ++ [.cont 0x20]

/-- `do_decode_frame`. gif: `cs == 0x40` go on, `cs < 0x40` first `do_decode_frame_config`, else
`"@end of data"`. png: 0x10 bit ⇒ bad call sequence, `cs >= 0x60` ⇒ `"@end of data"`, `cs ≠ 0x40` first
`do_decode_frame_config`. Then the pixels (may stop), then `cs = 0x20`. -/
def dfInner (c : Codec) (cs : Nat) : List Res :=
  let body : List Res := dfBody c
  let viaDfc : List Res := (dfcInner c cs).flatMap fun r => match r with
    | .fin o => [.fin o]
    | .cont _ => body
  match c with
  | .gif =>
    if cs = 0x40 then body else if cs < 0x40 then viaDfc else [.fin (.eod, cs)]
  | .png =>
    if cs &&& 0x10 ≠ 0 then [.fin (.bcs, cs)]
    else if cs ≥ 0x60 then [.fin (.eod, cs)]
    else if cs ≠ 0x40 then viaDfc else body
  | .still =>
    if cs = 0x40 then body else if cs < 0x40 then viaDfc else [.fin (.eod, cs)]
  | .nie =>
    if cs = 0x40 then body else if cs < 0x40 then viaDfc else [.fin (.eod, cs)]

/-- `do_tell_me_more`: `(cs & 0x10) == 0` ⇒ bad call sequence; may stop (`$even more information`,
`$mispositioned read`, `#no more information`, …); at the end `cs &= 0xEF`. -/
def tmmInner (c : Codec) (cs : Nat) : List Res :=
  if !c.hasMetadata then [.fin (.err, cs)]   -- `return base."#no more information"`
  else if cs &&& 0x10 = 0 then [.fin (.bcs, cs)]
  else Res.ofStops cs ++ [.cont (cs &&& 0xEF)]

/-- `restart_frame` (not a coroutine): `cs < 0x20` ⇒ bad call sequence; `#bad argument`; `cs = 0x28`. -/
def rfInner (_c : Codec) (cs : Nat) : List Res :=
  if cs < 0x20 then [.fin (.bcs, cs)]
  else [.fin (.err, cs), .cont 0x28]

/-- A public call that runs to the end of its `do_…` function returns ok. -/
def finish (l : List Res) : List Out :=
  l.map fun r => match r with
    | .cont cs => (.ok, cs)
    | .fin o => o

/-- Every outcome of a fresh call of `m` in state `cs`. -/
def next (c : Codec) (cs : Nat) : Meth → List Out
  | .dic => finish (dicInner c cs)
  | .dfc => finish (dfcInner c cs)
  | .df => finish (dfInner c cs)
  | .tmm => finish (tmmInner c cs)
  | .rf => finish (rfInner c cs)

/-- The document's rule: DIC only before anything else was decoded; TMM only in a `0x10`-bit
(metadata) state; RF only once the image configuration is decoded; DFC and DF not while metadata is
pending. -/
def inOrder (cs : Nat) : Meth → Bool
  | .dic => cs == 0x00
  | .tmm => cs &&& 0x10 != 0
  | .rf => cs ≥ 0x20
  | .dfc => cs &&& 0x10 == 0
  | .df => cs &&& 0x10 == 0

/-- The states the automaton can be in. -/
def states : List Nat := [0x00, 0x10, 0x20, 0x28, 0x30, 0x40, 0x60]

/-- Is `(cls, cs')` a possible result of a call (fresh or resumed) of `m` in state `cs`? A resumed
call continues in the middle of its `do_…` function, so only its later stages are known: anything
some fresh call of `m` can produce from some state, except a rejection. -/
def allowed (c : Codec) (cs : Nat) (m : Meth) (resumed : Bool) (o : Out) : Bool :=
  if resumed then
    o.1 != .bcs &&
      (o == (.susp, cs) || o == (.err, cs) || states.any fun s => (next c s m).contains o)
  else (next c cs m).contains o

end WuffsVerif.CallSeq
