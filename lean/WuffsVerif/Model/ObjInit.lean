/-
C09 — model of the generated `wuffs_foo__bar__initialize` function.

Source: /repo/internal/cgen/cgen.go `writeInitializerImpl` (the C text it emits),
`writeStructPrivateImpl` (object = `private_impl` first part at offset 0, then
`private_data` second part), /repo/internal/cgen/base/fundamental-public.h
(`WUFFS_INITIALIZE__ALREADY_ZEROED = 1`,
`WUFFS_INITIALIZE__LEAVE_INTERNAL_BUFFERS_UNINITIALIZED = 2`),
fundamental-private.h (`WUFFS_BASE__MAGIC = 0x3CCB6C71`), doc/note/initialization.md.

The memory the object lives in is an explicit argument (`Mem`, the PRIOR
contents); an object descriptor (`Obj`) carries the layout facts the emitted C
depends on: `sizeof(*self)`, `sizeof(self->private_impl)`, the offsets of the
choosy function-pointer fields, of the vtable pointer pairs, and of the
sub-objects (which live in `private_data`).  Core Lean only.
-/
namespace WuffsVerif.ObjInit

/-- One byte of memory: either a plain byte or the `idx`-th byte of the address
of link-time symbol number `sym` (function / vtable addresses are not known to
the model; they are the same in every run of one binary). -/
inductive Cell where
  | byte (b : UInt8)
  | ptr (sym idx : Nat)
deriving DecidableEq, Repr, Inhabited

abbrev Mem := Nat → Cell

/-- `memset(p, 0, len)` -/
def zeroRange (m : Mem) (base len : Nat) : Mem :=
  fun i => if base ≤ i ∧ i < base + len then .byte 0 else m i

/-- store of an 8-byte pointer to symbol `sym` at `addr` -/
def storePtr (m : Mem) (addr sym : Nat) : Mem :=
  fun i => if addr ≤ i ∧ i < addr + 8 then .ptr sym (i - addr) else m i

/-- `WUFFS_BASE__MAGIC` = 0x3CCB6C71, little-endian. -/
def magicByte (k : Nat) : UInt8 :=
  match k with
  | 0 => 0x71 | 1 => 0x6C | 2 => 0xCB | _ => 0x3C

/-- `self->private_impl.magic = WUFFS_BASE__MAGIC;` (magic is the first field). -/
def storeMagic (m : Mem) (addr : Nat) : Mem :=
  fun i => if addr ≤ i ∧ i < addr + 4 then .byte (magicByte (i - addr)) else m i

/-- `self->private_impl.magic != 0` is false -/
def magicIsZero (m : Mem) (addr : Nat) : Bool :=
  m addr == .byte 0 && m (addr + 1) == .byte 0 && m (addr + 2) == .byte 0 && m (addr + 3) == .byte 0

/-- a pointer-valued field set by `initialize`: offset inside the object, symbol -/
structure Slot where
  off : Nat
  sym : Nat
deriving Repr, DecidableEq

mutual
/-- Layout facts of one classy struct. `choosy`: the `choosy_xxx` function pointers
(set to `&…__choosy_default`); `vtables`: for every `implements`, the two pointers
`vtable_name` and `function_pointers`; `subs`: sub-struct fields, in field order. -/
inductive Obj where
  | mk (size implSize : Nat) (choosy vtables : List Slot) (subs : Subs)
/-- sub-objects: offset of the field inside the parent object + its descriptor -/
inductive Subs where
  | nil
  | cons (off : Nat) (o : Obj) (rest : Subs)
end

def Obj.size : Obj → Nat | .mk s _ _ _ _ => s
def Obj.implSize : Obj → Nat | .mk _ i _ _ _ => i
def Obj.choosy : Obj → List Slot | .mk _ _ c _ _ => c
def Obj.vtables : Obj → List Slot | .mk _ _ _ v _ => v
def Obj.subs : Obj → Subs | .mk _ _ _ _ s => s

/-- `wuffs_base__status` values `initialize` can return. -/
inductive Status where
  | badReceiver
  | badSizeofReceiver
  | badWuffsVersion
  | falselyClaimedAlreadyZeroed
deriving DecidableEq, Repr

/-- The two option bits the emitted code looks at (all other bits are ignored by it). -/
structure Opts where
  alreadyZeroed : Bool
  leaveUninit : Bool
deriving DecidableEq, Repr

def Opts.ofNat (n : Nat) : Opts := ⟨n.testBit 0, n.testBit 1⟩

def storeSlots (m : Mem) (base : Nat) (l : List Slot) : Mem :=
  l.foldl (fun m s => storePtr m (base + s.off) s.sym) m

/-- The zeroing prologue:
```
if ((options & ALREADY_ZEROED) != 0) { if (self->private_impl.magic != 0) return error; }
else if ((options & LEAVE_INTERNAL_BUFFERS_UNINITIALIZED) == 0) { memset(self, 0, sizeof(*self)); options |= ALREADY_ZEROED; }
else { memset(&(self->private_impl), 0, sizeof(self->private_impl)); }
``` -/
def prologue (size implSize base : Nat) (opts : Opts) (m : Mem) : Except Status (Mem × Opts) :=
  if opts.alreadyZeroed then
    if magicIsZero m base then .ok (m, opts) else .error .falselyClaimedAlreadyZeroed
  else if !opts.leaveUninit then
    .ok (zeroRange m base size, { opts with alreadyZeroed := true })
  else
    .ok (zeroRange m base implSize, opts)

mutual
/-- Body of `wuffs_foo__bar__initialize` after the receiver/size/version checks,
for the object at address `base`: zeroing prologue; choosy pointers := defaults;
sub-object initializers with the (possibly updated) options, first error returned;
magic; vtables. -/
def initObj : Obj → Nat → Opts → Mem → Except Status Mem
  | .mk size implSize choosy vtables subs, base, opts, m =>
    match prologue size implSize base opts m with
    | .error e => .error e
    | .ok (m1, opts1) =>
      match initSubs subs base opts1 (storeSlots m1 base choosy) with
      | .error e => .error e
      | .ok m3 => .ok (storeSlots (storeMagic m3 base) base vtables)
/-- "Call any ctors on sub-structs": `&self->private_data.f_x`, in field order. -/
def initSubs : Subs → Nat → Opts → Mem → Except Status Mem
  | .nil, _, _, m => .ok m
  | .cons off o rest, base, opts, m =>
    match initObj o (base + off) opts m with
    | .error e => .error e
    | .ok m' => initSubs rest base opts m'
end

/-- `WUFFS_VERSION_MAJOR`, `WUFFS_VERSION_MINOR` of the snapshot. -/
def versionMajor : Nat := 0
def versionMinor : Nat := 0

/-- The public entry point with its argument checks (`self == NULL`, `sizeof_star_self`,
`wuffs_version`), object at address 0. -/
def wuffsInitialize (o : Obj) (selfNull : Bool) (sizeofStarSelf : Nat) (wuffsVersion : Nat)
    (options : Nat) (m : Mem) : Except Status Mem :=
  if selfNull then .error .badReceiver
  else if o.size != sizeofStarSelf then .error .badSizeofReceiver
  else if (wuffsVersion >>> 32) != versionMajor || ((wuffsVersion >>> 16) &&& 0xFFFF) > versionMinor then
    .error .badWuffsVersion
  else initObj o 0 (Opts.ofNat options) m

mutual
/-- Addresses whose content `initialize` determines under
`LEAVE_INTERNAL_BUFFERS_UNINITIALIZED`: the first part of the object and, recursively,
of every sub-object. -/
def firstParts : Obj → Nat → Nat → Bool
  | .mk _ implSize _ _ subs, base, i => (decide (base ≤ i ∧ i < base + implSize)) || firstPartsSubs subs base i
def firstPartsSubs : Subs → Nat → Nat → Bool
  | .nil, _, _ => false
  | .cons off o rest, base, i => firstParts o (base + off) i || firstPartsSubs rest base i
end

def inRange (base len i : Nat) : Bool := decide (base ≤ i ∧ i < base + len)

mutual
/-- Layout well-formedness, as produced by a C compiler for the generated struct:
`magic`/`active_coroutine` occupy bytes 0..8 of `private_impl`, pointer fields lie
after them inside `private_impl`, sub-objects lie after `private_impl`, inside the
object, in increasing, non-overlapping order. -/
def Obj.wf : Obj → Bool
  | .mk size implSize choosy vtables subs =>
    decide (8 ≤ implSize ∧ implSize ≤ size) &&
    choosy.all (fun s => decide (8 ≤ s.off ∧ s.off + 8 ≤ implSize)) &&
    vtables.all (fun s => decide (8 ≤ s.off ∧ s.off + 8 ≤ implSize)) &&
    subs.wf implSize size
def Subs.wf : Subs → Nat → Nat → Bool
  | .nil, _, _ => true
  | .cons off o rest, lo, hi => decide (lo ≤ off ∧ off + o.size ≤ hi) && o.wf && rest.wf (off + o.size) hi
end

end WuffsVerif.ObjInit
