/-
C20 — deterministic compilation.  Abstract model of every place where Go's
randomised map iteration order (or the directory enumeration order of the OS)
could reach the compiler's output, with the order as an explicit parameter:
an arbitrary permutation (`List.Perm`) of the underlying collection.

Mirrors (cited per definition):
  cmd/wuffs/main.go        listDir / appendDir / findFiles     (sorted file discovery)
  lang/ast/sort.go         TopologicalSortStructs / tssVisit   (maps for lookup only)
  internal/cgen/cgen.go    expandBangInsert                    (collect keys, sort)
  lang/check/gen.go        gen                                 (collect names, sort)
  lang/check/check.go      Check (group built-in interface methods, sort each group),
                           checkInterfacesSatisfied (max by LessThan),
                           checkAllTypeChecked (four all-elements loops)
  lang/check/type.go       tcheckTypeExpr (existence search over c.structs)

Core Lean only.  Go strings are byte strings: names are `List Nat` (bytes) and
`ble` is Go's `<=` on strings (bytewise lexicographic), which `sort.Strings` uses.
-/
namespace WuffsVerif.Det

/-! ## byte strings and their order -/

abbrev Name := List Nat

/-- Go's `a <= b` on strings: bytewise lexicographic. -/
def ble : Name → Name → Bool
  | [], _ => true
  | _ :: _, [] => false
  | a :: as, b :: bs => if a < b then true else if b < a then false else ble as bs

/-- insertion into a sorted list -/
def insertBy {α : Type} (le : α → α → Bool) (a : α) : List α → List α
  | [] => [a]
  | b :: bs => if le a b then a :: b :: bs else b :: insertBy le a bs

/-- A sort (insertion sort: structurally recursive, so it also evaluates in the
kernel).  Which algorithm Go uses is irrelevant: for a total order the sorted
list is determined by the multiset of elements (`sortBy_perm_invariant`). -/
def sortBy {α : Type} (le : α → α → Bool) (l : List α) : List α := l.foldr (insertBy le) []

/-- `sort.Strings` -/
def sortNames (l : List Name) : List Name := sortBy ble l

/-! ## cmd/wuffs/main.go -/

structure DirEntry where
  name : Name
  isDir : Bool
  deriving Repr, DecidableEq

/-- strings.HasSuffix -/
def hasSuffix (name suffix : Name) : Bool :=
  suffix.length ≤ name.length && name.drop (name.length - suffix.length) == suffix

/-- filepath.Join(dir, name) for a plain entry name: `dir + "/" + name`. -/
def joinPath (dir name : Name) : Name := dir ++ [47] ++ name

/-- main.go appendDir: one pass over `infos` (the order `f.Readdir(-1)` happened to
return), appending matching files to `dstQF` and sub-directory names to `relDirnames`. -/
def appendDir (dstQF : List Name) (dir suffix : Name) (returnSubdirs : Bool) (infos : List DirEntry) :
    List Name × List Name :=
  infos.foldl (fun (acc : List Name × List Name) o =>
    if o.isDir then
      (if returnSubdirs then (acc.1, acc.2 ++ [o.name]) else acc)
    else if hasSuffix o.name suffix then (acc.1 ++ [joinPath dir o.name], acc.2)
    else acc) (dstQF, [])

/-- main.go listDir: appendDir from nil, then sort both results. -/
def listDir (dir suffix : Name) (returnSubdirs : Bool) (infos : List DirEntry) : List Name × List Name :=
  let r := appendDir [] dir suffix returnSubdirs infos
  (sortNames r.1, sortNames r.2)

/-! ## collect-then-sort sites (cgen.go expandBangInsert, check/gen.go gen) -/

/-- `for k := range m { keys = append(keys, k) }; sort.Strings(keys)` where `order`
is the order in which the runtime happened to enumerate the keys. -/
def sortedKeys (order : List Name) : List Name :=
  sortNames (order.foldl (fun acc k => acc ++ [k]) [])

/-! ## lang/check/check.go -/

/-- t.QQID / t.QID as numbers: `LessThan` is the lexicographic order on the ID
triple, i.e. `<` on `id0·2⁶⁴ + id1·2³² + id2`. -/
abbrev Key := Nat

def nle (a b : Nat) : Bool := decide (a ≤ b)

/-- check.go Check, lines "for qqid := range c.builtInInterfaceFuncs { … append … }"
then "for _, qqids := range c.builtInInterfaces { sort.Slice(qqids, LessThan) }":
the methods of interface `q`, given the enumeration order of the method map.
`ifaceOf` is `t.QID{qqid[0], qqid[1]}`. -/
def interfaceMethods (ifaceOf : Key → Key) (order : List Key) (q : Key) : List Key :=
  sortBy nle (order.foldl (fun (acc : List Key) k => if ifaceOf k == q then acc ++ [k] else acc) [])

/-- check.go checkInterfacesSatisfied: "pick the largest key despite randomized map
iteration order": `method := zero; for k := range m { if method.LessThan(k) { method = k } }`. -/
def pickLargest (order : List Key) : Key :=
  order.foldl (fun m k => if m < k then k else m) 0

/-- check.go checkAllTypeChecked: `for _, v := range m { if err := f(v); err != nil { return err } }`;
which error is returned depends on the order, whether one is returned does not. -/
def firstError {α ε : Type} (f : α → Option ε) : List α → Option ε
  | [] => none
  | v :: vs => match f v with
    | some e => some e
    | none => firstError f vs

/-- type.go tcheckTypeExpr: `for _, s := range q.c.structs { if s.QID() == qid { break swtch } }`. -/
def existsStruct (qid : Key) (order : List Key) : Bool :=
  order.foldl (fun found s => found || s == qid) false

/-! ## lang/ast/sort.go -/

/-- what TopologicalSortStructs reads of a struct: its QID and, per field, the QID of
`XType().Innermost()`. -/
structure StructDecl where
  qid : Key
  fieldTypes : List Key
  deriving Repr, DecidableEq

/-- A Go map as its (unordered) set of entries; `lookup` is the only operation
sort.go performs on `byQID`. -/
abbrev GoMap (κ ν : Type) := List (κ × ν)

def GoMap.get {ν : Type} (m : GoMap Key ν) (k : Key) : Option ν := List.lookup k m

/-- `m[k] = v` -/
def GoMap.set {ν : Type} (m : GoMap Key ν) (k : Key) (v : ν) : GoMap Key ν :=
  (k, v) :: m.filter (fun e => e.1 != k)

/-- `for _, n := range ns { byQID[n.QID()] = n }` — values are indices into `ns`
(Go: pointers; later duplicates overwrite earlier ones). -/
def buildByQID (ns : List StructDecl) : GoMap Key Nat :=
  (ns.zipIdx).foldl (fun m (n, i) => m.set n.qid i) []

inductive Mark where
  | unmarked | temporary | permanent
  deriving Repr, DecidableEq

/-- sort.go tssVisit, by fuel.  `marks` is indexed by struct index (Go: map keyed by
pointer).  Returns `none` on a cycle (Go: ok = false) or fuel exhaustion. -/
def tssVisit (ns : Array StructDecl) (byQID : Key → Option Nat) :
    Nat → (List Nat × Array Mark) → Nat → Option (List Nat × Array Mark)
  | 0, _, _ => none
  | fuel + 1, (dst, marks), n =>
    match marks[n]?.getD .unmarked with
    | .temporary => none
    | .permanent => some (dst, marks)
    | .unmarked =>
      let marks := marks.setIfInBounds n .temporary
      let fields := (ns[n]?.map (·.fieldTypes)).getD []
      let r := fields.foldl (fun (acc : Option (List Nat × Array Mark)) x =>
        match acc with
        | none => none
        | some st =>
          match byQID x with
          | some o => tssVisit ns byQID fuel st o
          | none => some st) (some (dst, marks))
      match r with
      | none => none
      | some (dst, marks) => some (dst ++ [n], marks.setIfInBounds n .permanent)

/-- sort.go TopologicalSortStructs, parameterised by the lookup function of `byQID`. -/
def topoSortWith (byQID : Key → Option Nat) (ns : List StructDecl) : Option (List Nat) :=
  let arr := ns.toArray
  let init : Option (List Nat × Array Mark) := some ([], Array.replicate ns.length Mark.unmarked)
  ((List.range ns.length).foldl (fun acc n =>
    match acc with
    | none => none
    | some (dst, marks) =>
      if marks[n]?.getD .unmarked == .unmarked then tssVisit arr byQID (ns.length + 2) (dst, marks) n
      else some (dst, marks)) init).map (·.1)

/-- TopologicalSortStructs with `byQID` held in some concrete representation `m`
of the map built from `ns` (any permutation of its entries). -/
def topoSortRep (m : GoMap Key Nat) (ns : List StructDecl) : Option (List Nat) :=
  topoSortWith m.get ns

def topoSort (ns : List StructDecl) : Option (List Nat) := topoSortRep (buildByQID ns) ns

/-! ## the pipeline, abstractly

`emit` is the shape of `wuffs-c gen` as far as ordering goes: the checker's
map-ordered loops only decide success/failure (or build per-key sorted groups),
the generator walks declarations in file order and structs in topological order,
and looks things up in maps.  Every map enumeration order is a parameter. -/

/-- the enumeration orders chosen by the runtime at each map-range site -/
structure Orders where
  ifaceFuncs : List Key      -- check.go Check: range c.builtInInterfaceFuncs
  consts : List Key          -- checkAllTypeChecked: range c.consts
  funcs : List Key           --                      range c.funcs
  statuses : List Key        --                      range c.statuses
  structs : List Key         --                      range c.structs
  structsSearch : List Key   -- type.go: range q.c.structs
  byQIDRep : GoMap Key Nat   -- representation of sort.go's byQID

/-- a compilation unit, as far as the abstraction cares -/
structure CompUnit where
  decls : List Key                 -- top-level declarations, in file order
  structs : List StructDecl        -- struct declarations, in file order
  typeRefs : List Key              -- struct types mentioned in type expressions
  ifaceOf : Key → Key
  ifaces : List Key                -- interfaces whose method tables are emitted, in declaration order
  typeChecked : Key → Option Nat   -- allTypeChecked error (code) of a node
  render : Key → List Nat          -- bytes emitted for one declaration (lookups only)
  renderStruct : Nat → List Nat
  renderMethods : List Key → List Nat

def emit (o : Orders) (u : CompUnit) : Option (List Nat) :=
  -- lang/check: all nodes type-checked (which error is reported is order-dependent; that one fails is not)
  if (firstError u.typeChecked o.consts).isSome || (firstError u.typeChecked o.funcs).isSome
     || (firstError u.typeChecked o.statuses).isSome || (firstError u.typeChecked o.structs).isSome then none
  -- lang/check type.go: every mentioned struct type exists
  else if !(u.typeRefs.all (fun q => existsStruct q o.structsSearch)) then none
  else
    match topoSortRep o.byQIDRep u.structs with
    | none => none
    | some order =>
      some ((u.decls.map u.render).flatten
        ++ (order.map u.renderStruct).flatten
        ++ (u.ifaces.map (fun q => u.renderMethods (interfaceMethods u.ifaceOf o.ifaceFuncs q))).flatten)

end WuffsVerif.Det
