/-
C07 — executable mirror of the std/deflate decoder (core Lean only), the portable ("slow") code path.

  /repo/std/deflate/decode_deflate.wuffs       decoder.decode_blocks, decode_uncompressed, init_fixed_huffman,
                                               init_dynamic_huffman, init_huff
  /repo/std/deflate/decode_huffman_slow.wuffs  decoder.decode_huffman_slow

Scope: ONE `transform_io` call with the whole source present and marked closed, and a destination that never
fills up (what `wuffs_base__io_transformer__transform_io` does for a caller with large buffers).  In that
setting no coroutine suspends: a `$short read` on the closed source is turned into `#truncated input` by
`transform_io`, `$short write` never happens, `add_history` is never called (so `history_index`,
`transformed_history_count` stay 0 and `dst.history_length()` is everything written so far).  The
`decode_huffman_fast*` variants are optimisations that `decode_blocks` tries first; they must leave the same
state as the slow loop and are NOT mirrored: the differential tie (op `wdec deflate`, incl. 1-byte source /
destination chunks, which force the slow path in the C code) is what relates them to this model.

u32 values are `Nat`; no operation here can exceed 32 bits (the Wuffs compiler proved every `<<`, `+=`).
Statuses are the Wuffs status strings without the package prefix.  Tables, REVERSE8, CODE_ORDER and the magic
numbers are REGENERATED from the sources (`Gen/C07_Deflate.lean`), and the statement skeletons of the six
mirrored functions are pinned by digest (`source_pinned` below).
-/
import WuffsVerif.Gen.C07_Deflate

namespace WuffsVerif.StdDeflate
open WuffsVerif.Gen.C07

abbrev Bytes := Array UInt8

/-- The decoder fields the mirrored functions touch, plus the two I/O cursors. -/
structure St where
  bits : Nat := 0
  nBits : Nat := 0
  /-- `huffs[0]`, `huffs[1]`: 1024 u32 each -/
  huffs0 : Array Nat := Array.replicate 1024 0
  huffs1 : Array Nat := Array.replicate 1024 0
  nHuffsBits0 : Nat := 0
  nHuffsBits1 : Nat := 0
  codeLengths : Array Nat := Array.replicate 320 0
  endOfBlock : Bool := false
  /-- source read index (`args.src` meta.ri) -/
  ri : Nat := 0
  /-- everything written to `args.dst` so far -/
  out : Bytes := #[]
deriving Repr

abbrev M := Except String

def errInternal : String := "#internal error: inconsistent Huffman decoder state"
def errNBits : String := "#internal error: inconsistent n_bits"
def errTruncated : String := "#truncated input"
/-- never returned for adequate fuel (the loops of the real code are bounded by the input) -/
def errFuel : String := "model: out of fuel"

/-- `args.src.read_u8_as_u32?()` on a closed source: the next byte, or `$short read` → `#truncated input` -/
def readU8 (src : Bytes) (st : St) : M (Nat × St) :=
  if h : st.ri < src.size then .ok ((src[st.ri]).toNat, { st with ri := st.ri + 1 }) else .error errTruncated

/-! ## decode_uncompressed -/

/-- `limited_copy_u32_from_history` / Spec's `copyMatch`: `n` bytes, one at a time, from `dist` back -/
def copyFromHistory (out : Bytes) (dist : Nat) : Nat → Bytes
  | 0 => out
  | n + 1 => copyFromHistory (out.push (out.getD (out.size - dist) 0)) dist n

def decodeUncompressed (src : Bytes) (st : St) : M St :=
  if st.nBits ≥ 8 ∨ (st.bits >>> (st.nBits &&& 7)) ≠ 0 then .error errNBits
  else
    let st := { st with nBits := 0, bits := 0 }
    -- length = args.src.read_u32le?()
    if st.ri + 4 > src.size then .error errTruncated
    else
      let length := (src.getD st.ri 0).toNat + 256 * (src.getD (st.ri + 1) 0).toNat +
        65536 * (src.getD (st.ri + 2) 0).toNat + 16777216 * (src.getD (st.ri + 3) 0).toNat
      let st := { st with ri := st.ri + 4 }
      if (length &&& 0xFFFF) + (length >>> 16) ≠ 0xFFFF then .error "#inconsistent stored block length"
      else
        let length := length &&& 0xFFFF
        -- n_copied = args.dst.limited_copy_u32_from_reader!(up_to: length, r: args.src)
        let n := min length (src.size - st.ri)
        let st := { st with out := st.out ++ src.extract st.ri (st.ri + n), ri := st.ri + n }
        if length ≤ n then .ok st
        else .error errTruncated   -- `yield? $short read` with the source closed

/-! ## init_huff -/

/-- `counts[this.code_lengths[i] & 15] += 1` for `i` in `n_codes0 .. n_codes1` -/
def huffCounts (cl : Array Nat) (n0 n1 : Nat) : M (Array Nat) :=
  (List.range' n0 (n1 - n0)).foldlM (fun (c : Array Nat) i =>
    let k := cl.getD i 0 &&& 15
    if c.getD k 0 ≥ 320 then .error errInternal else .ok (c.setIfInBounds k (c.getD k 0 + 1)))
    (Array.replicate 16 0)

/-- the `remaining` loop: `none` = over-subscribed -/
def huffRemaining (counts : Array Nat) : M Nat :=
  (List.range' 1 15).foldlM (fun remaining i =>
    if remaining > 1 <<< 30 then .error errInternal
    else
      let remaining := remaining <<< 1
      if remaining < counts.getD i 0 then .error "#bad Huffman code (over-subscribed)"
      else .ok (remaining - counts.getD i 0)) 1

/-- `offsets[i] = n_symbols; n_symbols += counts[i]` for i in 1..15: (offsets, n_symbols) -/
def huffOffsets (counts : Array Nat) : M (Array Nat × Nat) :=
  (List.range' 1 15).foldlM (fun (on : Array Nat × Nat) i =>
    let count := counts.getD i 0
    if on.2 > 320 - count then .error errInternal
    else .ok (on.1.setIfInBounds i on.2, on.2 + count)) (Array.replicate 16 0, 0)

/-- `symbols[offsets[cl]] = i - n_codes0; offsets[cl] += 1` for every coded symbol: (symbols, offsets) -/
def huffSymbols (cl : Array Nat) (n0 n1 : Nat) (offsets : Array Nat) : M (Array Nat × Array Nat) :=
  (List.range' n0 (n1 - n0)).foldlM (fun (so : Array Nat × Array Nat) i =>
    if i < n0 then .error errInternal
    else if cl.getD i 0 ≠ 0 then
      let k := cl.getD i 0 &&& 15
      if so.2.getD k 0 ≥ 320 then .error errInternal
      else .ok (so.1.setIfInBounds (so.2.getD k 0) (i - n0), so.2.setIfInBounds k (so.2.getD k 0 + 1))
    else .ok so) (Array.replicate 320 0, offsets)

/-- `min_cl = 1; while true { if counts[min_cl] <> 0 {break}; if min_cl >= 9 {return …}; min_cl += 1 }` -/
def huffMinCl (counts : Array Nat) : Nat → Nat → M Nat
  | 0, _ => .error errFuel
  | f + 1, m =>
    if counts.getD m 0 ≠ 0 then .ok m
    else if m ≥ 9 then .error "#bad Huffman minimum code length"
    else huffMinCl counts f (m + 1)

def huffMaxCl (counts : Array Nat) : Nat → Nat → M Nat
  | 0, _ => .error errFuel
  | f + 1, m =>
    if counts.getD m 0 ≠ 0 then .ok m
    else if m ≤ 1 then .error "#no Huffman codes"
    else huffMaxCl counts f (m - 1)

/-- `REVERSE8[key >> 1] | ((key & 1) << 8)`: the 9-bit reversal of `key` -/
def reverse9 (key : Nat) : Nat := deflateReverse8.getD (key >>> 1) 0 ||| ((key &&& 1) <<< 8)

/-- the loop that sizes a 2nd-level table: returns `j` (`while j <= 15 { if remaining <= counts[j] {break} … }`) -/
def huffSecondBits (counts : Array Nat) : Nat → Nat → Nat → M Nat
  | 0, _, j => .ok j
  | f + 1, remaining, j =>
    if j ≤ 15 then
      if remaining ≤ counts.getD j 0 then .ok j
      else
        let remaining := remaining - counts.getD j 0
        if remaining > 1 <<< 30 then .error errInternal
        else huffSecondBits counts f (remaining <<< 1) (j + 1)
    else .ok j

/-- `while high_bits >= delta { high_bits -= delta; huffs[top + ((high_bits | reversed_key) & 511)] = value }`.
    The table is write-only inside `init_huff`: the mirror RECORDS the writes `(index, value)` (newest first)
    and `initHuff` applies them to the old table afterwards, in program order. -/
def huffReplicate (top reversedKey value delta : Nat) : Nat → Nat → List (Nat × Nat) → M (List (Nat × Nat))
  | 0, _, w => .ok w
  | f + 1, highBits, w =>
    if highBits ≥ delta then
      let highBits := highBits - delta
      let idx := top + ((highBits ||| reversedKey) &&& 511)
      if idx ≥ deflateHuffsTableSize then .error errInternal
      else huffReplicate top reversedKey value delta f highBits ((idx, value) :: w)
    else .ok w

/-- the loop-carried variables of the table-filling loop of `init_huff` -/
structure Fill where
  i : Nat := 0
  code : Nat := 0
  prevCl : Nat
  prevRedirectKey : Nat := 0xFFFFFFFF
  top : Nat := 0
  nextTop : Nat := 512
  initialHighBits : Nat
  counts : Array Nat
  /-- the writes `this.huffs[args.which][index] = value` so far, newest first -/
  writes : List (Nat × Nat) := []

/-- the `while true` loop that fills `this.huffs[args.which]` (one iteration per coded symbol) -/
def huffFill (which n0 baseSymbol nSymbols : Nat) (cl symbols : Array Nat) : Nat → Fill → M (List (Nat × Nat))
  | 0, _ => .error errFuel
  | f + 1, s =>
    if n0 + symbols.getD s.i 0 ≥ 320 then .error errInternal
    else
      let cl0 := cl.getD (n0 + symbols.getD s.i 0) 0 &&& 15
      let code := if cl0 > s.prevCl then s.code <<< (cl0 - s.prevCl) else s.code
      if cl0 > s.prevCl ∧ code ≥ 1 <<< 15 then .error errInternal
      else
        let prevCl := cl0
        let key := code
        -- the 2nd-level part
        let r : M (Nat × Nat × Fill) :=   -- (cl, key, state with redirect bookkeeping done)
          if cl0 > 9 then
            let cl1 := cl0 - 9
            let redirectKey := (key >>> cl1) &&& 511
            let key := key &&& ((1 <<< cl1) - 1)
            if s.prevRedirectKey ≠ redirectKey then do
              let j ← huffSecondBits s.counts 16 (1 <<< cl1) prevCl
              if j ≤ 9 ∨ 15 < j then .error errInternal
              else
                let j := j - 9
                let top := s.nextTop
                if top + (1 <<< j) > deflateHuffsTableSize then .error errInternal
                else
                  let rk := reverse9 redirectKey
                  .ok (cl1, key, { s with prevRedirectKey := redirectKey, initialHighBits := 1 <<< j, top := top,
                                          nextTop := top + (1 <<< j),
                                          writes := (rk, 0x10000009 ||| (top <<< 8) ||| (j <<< 4)) :: s.writes })
            else .ok (cl1, key, s)
          else .ok (cl0, key, s)
        match r with
        | .error e => .error e
        | .ok (cl1, key, s) =>
          if key ≥ 1 <<< 9 ∨ s.counts.getD prevCl 0 ≤ 0 then .error errInternal
          else
            let counts := s.counts.setIfInBounds prevCl (s.counts.getD prevCl 0 - 1)
            let reversedKey := reverse9 key >>> (9 - cl1)
            let symbol := symbols.getD s.i 0
            let value : M Nat :=
              if symbol = 256 then .ok (0x20000000 ||| cl1)
              else if symbol < 256 ∧ which = 0 then .ok (0x80000000 ||| (symbol <<< 8) ||| cl1)
              else if symbol ≥ baseSymbol then
                let symbol := symbol - baseSymbol
                if which = 0 then .ok (deflateLcodeMagic.getD (symbol &&& 31) 0 ||| cl1)
                else .ok (deflateDcodeMagic.getD (symbol &&& 31) 0 ||| cl1)
              else .error errInternal
            match value with
            | .error e => .error e
            | .ok value =>
              match huffReplicate s.top reversedKey value (1 <<< cl1) 512 s.initialHighBits s.writes with
              | .error e => .error e
              | .ok writes =>
                let i := s.i + 1
                if i ≥ nSymbols then .ok writes
                else
                  let code := code + 1
                  if code ≥ 1 <<< 15 then .error errInternal
                  else huffFill which n0 baseSymbol nSymbols cl symbols f
                    { s with i := i, code := code, prevCl := prevCl, counts := counts, writes := writes }

/-- `init_huff`, part 3 (from "Calculate min_cl and max_cl" on): `min_cl`, `max_cl`, `n_huffs_bits`, the two
    consistency checks and the table-filling loop -/
def initHuffFill (cl : Array Nat) (which n0 baseSymbol : Nat) (counts : Array Nat) (nSymbols : Nat)
    (symbols offsets : Array Nat) : M (List (Nat × Nat) × Nat) := do
  let _minCl ← huffMinCl counts 16 1
  let maxCl ← huffMaxCl counts 16 15
  let nHuffsBits := if maxCl ≤ 9 then maxCl else 9
  if nSymbols ≠ offsets.getD maxCl 0 ∨ nSymbols ≠ offsets.getD 15 0 then .error errInternal
  else if n0 + symbols.getD 0 0 ≥ 320 then .error errInternal
  else
    let initialHighBits := if maxCl < 9 then 1 <<< maxCl else 1 <<< 9
    let prevCl := cl.getD (n0 + symbols.getD 0 0) 0 &&& 15
    let writes ← huffFill which n0 baseSymbol nSymbols cl symbols (nSymbols + 1)
      { prevCl := prevCl, initialHighBits := initialHighBits, counts := counts }
    .ok (writes.reverse, nHuffsBits)

/-- `init_huff`, part 2 (after "Calculate counts"): the coverage check with the degenerate one-code H-D table,
    `offsets`, `n_symbols`, `symbols` -/
def initHuffCounted (cl : Array Nat) (which n0 n1 baseSymbol : Nat) (counts : Array Nat) :
    M (List (Nat × Nat) × Nat) :=
  if counts.getD 0 0 + n0 = n1 then .error "#no Huffman codes"
  else do
    let remaining ← huffRemaining counts
    if remaining ≠ 0 then
      -- a degenerate H-D table with only one 1-bit code
      if which = 1 ∧ counts.getD 1 0 = 1 ∧ counts.getD 0 0 + n0 + 1 = n1 then
        match (List.range 30).find? (fun i => cl.getD (n0 + i) 0 = 1) with
        | some i => .ok ([(0, deflateDcodeMagic.getD i 0 ||| 1), (1, deflateDcodeMagic.getD 31 0 ||| 1)], 1)
        | none => .error "#bad Huffman code (under-subscribed)"
      else .error "#bad Huffman code (under-subscribed)"
    else do
      let (offsets, nSymbols) ← huffOffsets counts
      if nSymbols > 288 then .error errInternal
      else do
        let (symbols, offsets) ← huffSymbols cl n0 n1 offsets
        initHuffFill cl which n0 baseSymbol counts nSymbols symbols offsets

/-- `decoder.init_huff!(which, n_codes0, n_codes1, base_symbol)` up to the table itself: the writes to
    `this.huffs[which]` in program order, and the new `n_huffs_bits[which]` (three parts, so that each can be
    evaluated separately) -/
def initHuffWrites (cl : Array Nat) (which n0 n1 baseSymbol : Nat) : M (List (Nat × Nat) × Nat) := do
  let counts ← huffCounts cl n0 n1
  initHuffCounted cl which n0 n1 baseSymbol counts

/-- apply recorded writes to a table, in order -/
def applyWrites (t : Array Nat) (w : List (Nat × Nat)) : Array Nat :=
  w.foldl (fun t iv => t.setIfInBounds iv.1 iv.2) t

/-- `init_huff`: the new `huffs[which]` (entries that are not written keep their previous contents, as in the
    C code) and `n_huffs_bits[which]` -/
def initHuff (cl : Array Nat) (oldTbl : Array Nat) (which n0 n1 baseSymbol : Nat) : M (Array Nat × Nat) := do
  let (w, nb) ← initHuffWrites cl which n0 n1 baseSymbol
  .ok (applyWrites oldTbl w, nb)

/-- `init_huff` applied to the decoder state -/
def St.initHuff (st : St) (which n0 n1 baseSymbol : Nat) : M St := do
  if which = 0 then
    let (t, b) ← StdDeflate.initHuff st.codeLengths st.huffs0 0 n0 n1 baseSymbol
    .ok { st with huffs0 := t, nHuffsBits0 := b }
  else
    let (t, b) ← StdDeflate.initHuff st.codeLengths st.huffs1 1 n0 n1 baseSymbol
    .ok { st with huffs1 := t, nHuffsBits1 := b }

/-! ## init_fixed_huffman -/

/-- the five `while i < … { this.code_lengths[i] = … }` loops -/
def fixedCodeLengths : Array Nat :=
  ((List.range 320).map (fun i => if i < 144 then 8 else if i < 256 then 9 else if i < 280 then 7
    else if i < 288 then 8 else 5)).toArray

def initFixedHuffman (st : St) : M St := do
  let st := { st with codeLengths := fixedCodeLengths }
  let st ← st.initHuff 0 0 288 257
  st.initHuff 1 288 320 0

/-! ## init_dynamic_huffman -/

/-- local `bits` / `n_bits` of init_dynamic_huffman plus the source cursor -/
structure BR where
  bits : Nat
  nBits : Nat
  ri : Nat

/-- `while n_bits < need { b = args.src.read_u8_as_u32?(); bits |= b << n_bits; n_bits += 8 }` -/
def BR.fill (src : Bytes) (need : Nat) : Nat → BR → M BR
  | 0, _ => .error errFuel
  | f + 1, b =>
    if b.nBits < need then
      if h : b.ri < src.size then
        BR.fill src need f { bits := b.bits ||| ((src[b.ri]).toNat <<< b.nBits), nBits := b.nBits + 8, ri := b.ri + 1 }
      else .error errTruncated
    else .ok b

def BR.drop (b : BR) (n : Nat) : BR := { b with bits := b.bits >>> n, nBits := b.nBits - n }

/-- read the `n_clen` 3-bit H-CL code lengths into `code_lengths[CODE_ORDER[i]]`, the rest of the 19 are 0 -/
def readClen (src : Bytes) (nClen : Nat) : Nat → Nat → BR → Array Nat → M (BR × Array Nat)
  | 0, _, _, _ => .error errFuel
  | f + 1, i, b, cl =>
    if i < nClen then do
      let b ← BR.fill src 3 2 b
      readClen src nClen f (i + 1) (b.drop 3) (cl.setIfInBounds (deflateCodeOrder.getD i 0) (b.bits &&& 7))
    else
      .ok (b, (List.range' i (19 - i)).foldl (fun cl k => cl.setIfInBounds (deflateCodeOrder.getD k 0) 0) cl)

/-- `while true { table_entry = this.huffs[0][bits & mask]; … if n_bits >= table_entry_n_bits {…; break}; read }` -/
def lookupLoop (src : Bytes) (tbl : Array Nat) (base mask : Nat) : Nat → BR → M (Nat × BR)
  | 0, _ => .error errFuel
  | f + 1, b =>
    let e := tbl.getD ((base + (b.bits &&& mask)) &&& deflateHuffsTableMask) 0
    let n := e &&& 15
    if b.nBits ≥ n then .ok (e, b.drop n)
    else
      if h : b.ri < src.size then
        lookupLoop src tbl base mask f
          { bits := b.bits ||| ((src[b.ri]).toNat <<< b.nBits), nBits := b.nBits + 8, ri := b.ri + 1 }
      else .error errTruncated

/-- `while rep_count > 0 { if i >= n_lit + n_dist {return …}; this.code_lengths[i] = rep_symbol; … }` -/
def repeatLen (total : Nat) (sym : Nat) : Nat → Nat → Array Nat → M (Nat × Array Nat)
  | 0, i, cl => .ok (i, cl)
  | rep + 1, i, cl =>
    if i ≥ total then .error "#bad Huffman code length count"
    else repeatLen total sym rep (i + 1) (cl.setIfInBounds i sym)

/-- the `while i < (n_lit + n_dist)` loop: decode the code lengths with H-CL -/
def readCodeLengths (src : Bytes) (tbl : Array Nat) (mask total : Nat) : Nat → Nat → BR → Array Nat → M (Nat × BR × Array Nat)
  | 0, _, _, _ => .error errFuel
  | f + 1, i, b, cl =>
    if i < total then do
      let (e, b) ← lookupLoop src tbl 0 mask 3 b
      if e >>> 24 ≠ 0x80 then .error errInternal
      else
        let te := (e >>> 8) &&& 0xFF
        if te < 16 then readCodeLengths src tbl mask total f (i + 1) b (cl.setIfInBounds i te)
        else
          let r : M (Nat × Nat × Nat) :=   -- (n_extra_bits, rep_symbol, rep_count)
            if te = 16 then
              if i ≤ 0 then .error "#bad Huffman code length repetition" else .ok (2, cl.getD (i - 1) 0 &&& 15, 3)
            else if te = 17 then .ok (3, 0, 3)
            else if te = 18 then .ok (7, 0, 11)
            else .error errInternal
          match r with
          | .error e => .error e
          | .ok (nExtra, repSym, repCount) =>
            let b ← BR.fill src nExtra 2 b
            let repCount := repCount + (b.bits &&& ((1 <<< nExtra) - 1))
            let b := b.drop nExtra
            let (i, cl) ← repeatLen total repSym repCount i cl
            readCodeLengths src tbl mask total f i b cl
    else .ok (i, b, cl)

def initDynamicHuffman (src : Bytes) (st : St) : M St := do
  let b ← BR.fill src 14 3 { bits := st.bits, nBits := st.nBits, ri := st.ri }
  let nLit := (b.bits &&& 31) + 257
  if nLit > 286 then .error "#bad literal/length code count"
  else
    let b := b.drop 5
    let nDist := (b.bits &&& 31) + 1
    if nDist > 30 then .error "#bad distance code count"
    else
      let b := b.drop 5
      let nClen := (b.bits &&& 15) + 4
      let b := b.drop 4
      let (b, cl) ← readClen src nClen 20 0 b st.codeLengths
      let st := { st with codeLengths := cl }
      let st ← st.initHuff 0 0 19 0xFFF
      let mask := (1 <<< st.nHuffsBits0) - 1
      let (i, b, cl) ← readCodeLengths src st.huffs0 mask (nLit + nDist) (nLit + nDist + 1) 0 b st.codeLengths
      if i ≠ nLit + nDist then .error "#bad Huffman code length count"
      else if cl.getD 256 0 = 0 then .error "#missing end-of-block code"
      else
        let st := { st with codeLengths := cl }
        let st ← st.initHuff 0 0 nLit 257
        let st ← st.initHuff 1 nLit (nLit + nDist) 0
        .ok { st with bits := b.bits, nBits := b.nBits, ri := b.ri }

/-! ## decode_huffman_slow -/

/-- what one pass through the body of `while.loop` does after the lcode symbol is known -/
inductive Sym where
  | literal (b : Nat)
  | endOfBlock
  | lenBase (entry : Nat)

/-- the first three arms of the `if (table_entry >> 31) <> 0 {literal} else if (… >> 30) <> 0 {base number}
    else if (… >> 29) <> 0 {end of block}` chain, which the source has twice (first and second level) -/
def lcodeClass (e : Nat) : Option Sym :=
  if e >>> 31 ≠ 0 then some (.literal ((e >>> 8) &&& 0xFF))
  else if e >>> 30 ≠ 0 then some (.lenBase e)
  else if e >>> 29 ≠ 0 then some .endOfBlock
  else none

/-- decode an lcode symbol from H-L (first level; a redirect entry leads to a second lookup) -/
def lcodeSym (src : Bytes) (st : St) (b : BR) : M (Sym × BR) := do
  let lmask := (1 <<< st.nHuffsBits0) - 1
  let (e, b) ← lookupLoop src st.huffs0 0 lmask 3 b
  match lcodeClass e with
  | some sy => .ok (sy, b)
  | none =>
    if e >>> 28 ≠ 0 then do
      let redirTop := (e >>> 8) &&& 0xFFFF
      let redirMask := (1 <<< ((e >>> 4) &&& 0x0F)) - 1
      let (e, b) ← lookupLoop src st.huffs0 redirTop redirMask 3 b
      match lcodeClass e with
      | some sy => .ok (sy, b)
      | none =>
        if e >>> 28 ≠ 0 then .error errInternal
        else if e >>> 27 ≠ 0 then .error "#bad Huffman code"
        else .error errInternal
    else if e >>> 27 ≠ 0 then .error "#bad Huffman code"
    else .error errInternal

/-- `length = ((table_entry >> 8) & 0xFF) + 3`, plus the extra bits -/
def lengthOf (src : Bytes) (e : Nat) (b : BR) : M (Nat × BR) := do
  let length := ((e >>> 8) &&& 0xFF) + 3
  let n := (e >>> 4) &&& 0x0F
  if n > 0 then
    let b ← BR.fill src n 2 b
    .ok ((((length + 253 + (b.bits &&& ((1 <<< n) - 1))) &&& 0xFF) + 3), b.drop n)
  else .ok (length, b)

/-- "For H-D, all symbols should be base_number + extra_bits": `dist_minus_1 + 1` from the entry and the extra bits -/
def distValue (src : Bytes) (e : Nat) (b : BR) : M (Nat × BR) := do
  if e >>> 24 ≠ 0x40 then
    if e >>> 24 = 0x08 then .error "#bad Huffman code" else .error errInternal
  else
    let dm1 := (e >>> 8) &&& 0x7FFF
    let n := (e >>> 4) &&& 0x0F
    if n > 0 then
      let b ← BR.fill src n 3 b
      .ok (((dm1 + (b.bits &&& ((1 <<< n) - 1))) &&& 0x7FFF) + 1, b.drop n)
    else .ok (dm1 + 1, b)

/-- decode a dcode symbol from H-D (with the redirect check) and its extra bits -/
def distanceOf (src : Bytes) (st : St) (b : BR) : M (Nat × BR) := do
  let dmask := (1 <<< st.nHuffsBits1) - 1
  let (e, b) ← lookupLoop src st.huffs1 0 dmask 3 b
  if e >>> 28 = 1 then
    let redirTop := (e >>> 8) &&& 0xFFFF
    let redirMask := (1 <<< ((e >>> 4) &&& 0x0F)) - 1
    let (e, b) ← lookupLoop src st.huffs1 redirTop redirMask 3 b
    distValue src e b
  else distValue src e b

/-- the `while.loop` of decode_huffman_slow, one iteration per lcode symbol, until end-of-block -/
def slowLoop (src : Bytes) (st : St) : Nat → BR → Bytes → M (BR × Bytes)
  | 0, _, _ => .error errFuel
  | f + 1, b, out => do
    let (s, b) ← lcodeSym src st b
    match s with
    | .literal v => slowLoop src st f b (out.push (UInt8.ofNat v))
    | .endOfBlock => .ok (b, out)
    | .lenBase e =>
      let (length, b) ← lengthOf src e b
      let (dist, b) ← distanceOf src st b
      -- `if ((dist_minus_1 + 1) as base.u64) > args.dst.history_length()`: nothing was ever added to
      -- this.history (single call), so `this.history_index < hdist` holds: "#bad distance"
      if dist > out.size then .error "#bad distance"
      else slowLoop src st f b (copyFromHistory out dist length)

def decodeHuffmanSlow (src : Bytes) (fuel : Nat) (st : St) : M St :=
  if st.nBits ≥ 8 ∨ (st.bits >>> (st.nBits &&& 7)) ≠ 0 then .error errNBits
  else
    match slowLoop src st fuel { bits := st.bits, nBits := st.nBits, ri := st.ri } st.out with
    | .error e => .error e
    | .ok (b, out) =>
      let st := { st with bits := b.bits, nBits := b.nBits, ri := b.ri, out := out, endOfBlock := true }
      if st.nBits ≥ 8 ∨ (st.bits >>> (st.nBits &&& 7)) ≠ 0 then .error errNBits else .ok st

/-! ## decode_blocks -/

/-- `while this.n_bits < 3 { b0 = read; this.bits |= b0 << (this.n_bits & 3); this.n_bits = (this.n_bits & 3) + 8 }`
    (one pass is enough: afterwards `n_bits ≥ 8`) -/
def fillHeader (src : Bytes) (st : St) : M St :=
  if st.nBits < 3 then do
    let (b0, st) ← readU8 src st
    .ok { st with bits := st.bits ||| (b0 <<< (st.nBits &&& 3)), nBits := (st.nBits &&& 3) + 8 }
  else .ok st

/-- one iteration of `while.outer final == 0`: the block header bits and the block; returns `final` -/
def decodeBlock (src : Bytes) (st : St) : M (Nat × St) := do
  let st ← fillHeader src st
  let final := st.bits &&& 1
  let type := (st.bits >>> 1) &&& 3
  let st := { st with bits := st.bits >>> 3, nBits := st.nBits - 3 }
  if type = 0 then do
    let st ← decodeUncompressed src st
    .ok (final, st)
  else if type = 1 then do
    let st ← initFixedHuffman st
    let st ← decodeHuffmanSlow src (8 * src.size + 1) { st with endOfBlock := false }
    .ok (final, st)
  else if type = 2 then do
    let st ← initDynamicHuffman src st
    let st ← decodeHuffmanSlow src (8 * src.size + 1) { st with endOfBlock := false }
    .ok (final, st)
  else .error "#bad block"

/-- `decode_blocks`: `while.outer final == 0 { … }` -/
def decodeBlocks (src : Bytes) : Nat → St → M St
  | 0, _ => .error errFuel
  | f + 1, st => do
    let (final, st) ← decodeBlock src st
    if final ≠ 0 then .ok st else decodeBlocks src f st

/-- `transform_io` on a fresh decoder with the whole (closed) source and an unbounded destination:
    the output and the number of source bytes consumed, or the error status. -/
def inflate (src : Bytes) : M (Bytes × Nat) :=
  match decodeBlocks src (8 * src.size + 1) {} with
  | .ok st => .ok (st.out, st.ri)
  | .error e => .error e

/-- The mirror above was transcribed from exactly these statement skeletons (digests regenerated from the
    working tree): a change to one of the six functions breaks this until the mirror is re-read. -/
theorem source_pinned : deflatePins =
    [("decode_blocks", 0x1f84305b517dbf9a), ("decode_uncompressed", 0x7d2845670672012c),
     ("init_fixed_huffman", 0xdcbd481958f29d9e), ("init_dynamic_huffman", 0x6592a20ee555a570),
     ("init_huff", 0xbc03521f9cfd6cd7), ("decode_huffman_slow", 0x4a2462bc0c1e7b82)] := by
  decide

end WuffsVerif.StdDeflate
