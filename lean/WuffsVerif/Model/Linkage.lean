/-
C10 — the declaration-level decisions of the Wuffs C back end.

`decls : Pkg → List Decl` mirrors, declaration by declaration, what
/repo/internal/cgen/cgen.go (`genHeader`, `genImpl`, `writeConst`,
`writeVTableImpl`, `writeInitializerSignature`, `writeInitializerImpl`,
`cName`, `addStatus`) and /repo/internal/cgen/func.go (`funcCName`,
`writeFuncSignature`, `writeFuncPrototype`, `writeFuncImpl`) emit at C file
scope for one package: every function DEFINITION with its storage class, every
object DEFINITION with its qualifier, every `#define` of a scalar constant.

The input (`Pkg`) is a summary of the package's top-level declarations as the
real parser (lang/parse) sees them; the Go harness produces it.  Core Lean only.
-/
namespace WuffsVerif.Linkage

inductive Effect | pure | impure | coro
  deriving DecidableEq, Repr

/-- `pub status "#msg"` / `pri status "$msg"` -/
structure StatusD where
  pub : Bool
  msg : String
  deriving Repr

/-- `pub const NAME : T = v`; `scalar` = the type has no `roarray` decorator. -/
structure ConstD where
  pub : Bool
  name : String
  scalar : Bool
  deriving Repr

/-- `pub struct name? implements base.i1, base.i2 (…)`; `impls` hold the C names
    of the interfaces, e.g. `wuffs_base__image_decoder`. -/
structure StructD where
  pub : Bool
  name : String
  classy : Bool
  impls : List String
  deriving Repr

/-- `pub func recv.name!(…)`; `recv = ""` for a free-standing function. -/
structure FuncD where
  pub : Bool
  recv : String
  name : String
  eff : Effect
  choosy : Bool
  deriving Repr

structure Pkg where
  name : String
  statuses : List StatusD
  consts : List ConstD
  structs : List StructD
  funcs : List FuncD
  deriving Repr

inductive Kind | func | obj | macro
  deriving DecidableEq, Repr

/-- C storage class as written by cgen.  `maybeStatic` is the macro
    `WUFFS_BASE__MAYBE_STATIC`: `static` iff `WUFFS_CONFIG__STATIC_FUNCTIONS`. -/
inductive Link | extern | maybeStatic | static | staticInline | define
  deriving DecidableEq, Repr

inductive Qual | const | mut | none
  deriving DecidableEq, Repr

structure Decl where
  kind : Kind
  name : String
  link : Link
  qual : Qual
  deriving DecidableEq, Repr

/-! ### `cName` (cgen.go) -/

/-- One step of cgen's `cName` loop; the accumulator is reversed. -/
def cNameStep (st : List Char × Bool) (r : Char) : List Char × Bool :=
  let (acc, underscore) := st
  if 'A' ≤ r ∧ r ≤ 'Z' then (Char.ofNat (r.toNat + 32) :: acc, false)
  else if ('a' ≤ r ∧ r ≤ 'z') ∨ ('0' ≤ r ∧ r ≤ '9') then (r :: acc, false)
  else if !underscore then ('_' :: acc, true)
  else (acc, underscore)

/-- cgen.go `cName(name, pkgPrefix)`: lower-case, runs of other characters
    become one `_`, no leading/trailing `_` (a trailing one is cut). -/
def cName (name : String) (pkgPrefix : String) : String :=
  let (acc, underscore) := name.toList.foldl cNameStep (pkgPrefix.toList.reverse, true)
  let acc := if underscore then acc.drop 1 else acc
  String.ofList acc.reverse

/-- cgen.go `addStatus`: the category infix. -/
def statusCategory (msg : String) : String :=
  match msg.toList with
  | '$' :: _ => "suspension__"
  | '#' :: _ => "error__"
  | _ => "note__"

def pkgPrefix (p : Pkg) : String := "wuffs_" ++ p.name ++ "__"
def pkgPREFIX (p : Pkg) : String := "WUFFS_" ++ p.name.toUpper ++ "__"

/-- cgen.go `genImpl`, "Status Codes Implementations": `const char name[] = "…";`
    for every status of this package, pub or pri. -/
def statusDecl (p : Pkg) (z : StatusD) : Decl :=
  ⟨.obj, pkgPrefix p ++ statusCategory z.msg ++ cName z.msg "", .extern, .const⟩

/-- cgen.go `writeConst`: `#define` for scalars, `static const T NAME[…] = {…}` otherwise. -/
def constDecl (p : Pkg) (c : ConstD) : Decl :=
  if c.scalar then ⟨.macro, pkgPREFIX p ++ c.name, .define, .none⟩
  else ⟨.obj, pkgPREFIX p ++ c.name, .static, .const⟩

def initName (p : Pkg) (s : StructD) : String := pkgPrefix p ++ s.name ++ "__initialize"
def allocName (p : Pkg) (s : StructD) : String := pkgPrefix p ++ s.name ++ "__alloc"
def sizeofName (p : Pkg) (s : StructD) : String := "sizeof__" ++ pkgPrefix p ++ s.name

/-- Per implemented interface (cgen.go `genHeader` "Allocs"/"Upcasts", `writeVTableImpl`). -/
def implDecls (p : Pkg) (s : StructD) (i : String) : List Decl :=
  [⟨.obj, pkgPrefix p ++ s.name ++ "__func_ptrs_for__" ++ i, .extern, .const⟩,
   ⟨.func, pkgPrefix p ++ s.name ++ "__upcast_as__" ++ i, .staticInline, .none⟩] ++
  (if s.pub then [⟨.func, pkgPrefix p ++ s.name ++ "__alloc_as__" ++ i, .staticInline, .none⟩] else [])

/-- cgen.go `writeInitializerImpl` (+ `writeInitializerSignature` after the
    repair fixes/C10-private-struct-initializer-static.patch: `static` for a
    private struct), `writeAllocSignature`, `writeSizeofSignature`. -/
def structDecls (p : Pkg) (s : StructD) : List Decl :=
  (if s.classy then [⟨.func, initName p s, if s.pub then .extern else .static, .none⟩] else []) ++
  (if s.classy && s.pub then
     [⟨.func, allocName p s, .extern, .none⟩, ⟨.func, sizeofName p s, .extern, .none⟩] else []) ++
  s.impls.flatMap (implDecls p s)

/-- func.go `funcCName`. -/
def funcCName (p : Pkg) (f : FuncD) : String :=
  if f.recv ≠ "" then pkgPrefix p ++ f.recv ++ "__" ++ f.name else pkgPrefix p ++ f.name

/-- func.go `writeFuncSignature` (wfsCDecl: pub → `WUFFS_BASE__MAYBE_STATIC`,
    otherwise `static`; wfsCDeclChoosy: always `static`) via `writeFuncImpl`. -/
def funcDecls (p : Pkg) (f : FuncD) : List Decl :=
  ⟨.func, funcCName p f, if f.pub then .maybeStatic else .static, .none⟩ ::
  (if f.choosy then [⟨.func, funcCName p f ++ "__choosy_default", .static, .none⟩] else [])

/-- All C file-scope definitions emitted for package `p`. -/
def decls (p : Pkg) : List Decl :=
  p.statuses.map (statusDecl p) ++ p.consts.map (constDecl p) ++
  p.structs.flatMap (structDecls p) ++ p.funcs.flatMap (funcDecls p)

/-- Is a function with this storage class a global (exported) symbol?
    `staticFns` = compiled with `-DWUFFS_CONFIG__STATIC_FUNCTIONS`. -/
def Link.exported (staticFns : Bool) : Link → Bool
  | .extern => true
  | .maybeStatic => !staticFns
  | _ => false

/-- Names of the functions the object file exports. -/
def exportedFuncs (staticFns : Bool) (p : Pkg) : List String :=
  ((decls p).filter (fun d => d.kind == .func && d.link.exported staticFns)).map (·.name)

/-! ### canonical text (shared with the Go declaration scanner) -/

def Kind.str : Kind → String | .func => "f" | .obj => "o" | .macro => "m"
def Link.str : Link → String
  | .extern => "extern" | .maybeStatic => "maybe_static" | .static => "static"
  | .staticInline => "static_inline" | .define => "define"
def Qual.str : Qual → String | .const => "const" | .mut => "mut" | .none => "-"

def Decl.str (d : Decl) : String :=
  d.kind.str ++ "|" ++ d.name ++ "|" ++ d.link.str ++ "|" ++ d.qual.str

def insertSorted (s : String) : List String → List String
  | [] => [s]
  | x :: xs => if s ≤ x then s :: x :: xs else x :: insertSorted s xs

def sortStrings (l : List String) : List String := l.foldr insertSorted []

def joinOrDash (l : List String) : String :=
  if l.isEmpty then "-" else " ".intercalate l

def declsText (p : Pkg) : String := joinOrDash (sortStrings ((decls p).map Decl.str))
def exportsText (staticFns : Bool) (p : Pkg) : String := joinOrDash (sortStrings (exportedFuncs staticFns p))

end WuffsVerif.Linkage
