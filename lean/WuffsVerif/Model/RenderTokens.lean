/-
Model of `Render` of /repo/lang/render/render.go (C12, the Wuffs formatter) over the
token model of `Model/FmtToken.lean`, function by function, for the REPAIRED code
(fixes/C12-render-comment-only-file.patch: a source of nothing but comments is no
longer rendered as the empty file; fixes/C12-render-number-not-retokenizable.patch: a
numeric literal whose re-grouped text would be too long, or the legacy octal `01`, is
kept as it is).  `appendNum` lives in `Model/Render.lean`.
Core Lean only.
-/
import WuffsVerif.Model.FmtToken
import WuffsVerif.Model.Render

namespace WuffsVerif.Render
open WuffsVerif.FmtToken WuffsVerif.Gen.C12

def maxIndent : Nat := 0xFFFF

/-- flags of a token (built-in: from the tables; others: ident / literal by first byte) -/
def tokFlags (t : Tok) : Nat :=
  if t.id < nBuiltInIDs then flagsOfId t.id
  else match t.text with
    | c :: _ => if alpha c then 16 else 32
    | [] => 0

def _root_.WuffsVerif.FmtToken.Tok.isClose (t : Tok) : Bool := hasFlag (tokFlags t) 1
def _root_.WuffsVerif.FmtToken.Tok.isTightLeft (t : Tok) : Bool := hasFlag (tokFlags t) 2
def _root_.WuffsVerif.FmtToken.Tok.isTightRight (t : Tok) : Bool := hasFlag (tokFlags t) 4
def _root_.WuffsVerif.FmtToken.Tok.isUnaryAndBinary (t : Tok) : Bool := hasFlag (tokFlags t) 8
def _root_.WuffsVerif.FmtToken.Tok.isIdent (t : Tok) : Bool := hasFlag (tokFlags t) 16
def _root_.WuffsVerif.FmtToken.Tok.isLiteral (t : Tok) : Bool := hasFlag (tokFlags t) 32
def _root_.WuffsVerif.FmtToken.Tok.isDQStr (t : Tok) : Bool := t.id ≥ nBuiltInIDs && t.text.head? == some 34
def _root_.WuffsVerif.FmtToken.Tok.isSQStr (t : Tok) : Bool := t.id ≥ nBuiltInIDs && t.text.head? == some 39

/-- `isCloseIdentLiteral` -/
def isCloseIdentLiteral (t : Tok) : Bool := t.isClose || t.isIdent || t.isLiteral

/-- `isCloseIdentStrLiteralQuestion` -/
def isCloseIdentStrLiteralQuestion (t : Tok) : Bool :=
  t.isClose || t.isIdent || t.isDQStr || t.isSQStr || t.id == idQuestion

/-- `appendTabs(nil, nTabs)` -/
def tabs (nTabs : Int) : Bytes := List.replicate (4 * nTabs).toNat 32

/-- strip trailing spaces (only ' ') -/
def stripTrailingSpaces (s : Bytes) : Bytes := (s.reverse.dropWhile (· == 32)).reverse

/-- `appendComment(nil, comments, line, indent, otherwiseEmpty)` -/
def commentText (comments : Array Bytes) (line : Nat) (indent : Int) (otherwiseEmpty : Bool) : Bytes :=
  match comments[line]? with
  | some com =>
    if com.isEmpty then [] else
    (if otherwiseEmpty then tabs indent else [32, 32]) ++ stripTrailingSpaces com
  | none => []

/-- `findColon` -/
def findColon (ts : List Tok) : Option Nat := ts.findIdx? (·.id == idColon)

/-- `measureVarNameLength`'s loop over the following lines -/
def measureLoop (x : Nat) : Nat → Nat → Nat → List Tok → Nat
  | 0, _, length, _ => length
  | f + 1, line, length, remaining =>
    match remaining.head?, remaining[x]?, remaining[x - 1]? with
    | some r0, some rx, some rn =>
      if remaining.length > x && r0.line == line + 1 && rx.line == line + 1 && rx.id == idColon then
        let line' := r0.line
        let length' := max length rn.text.length
        measureLoop x f line' length' ((remaining.drop (x + 1)).dropWhile (·.line == line'))
      else length
    | _, _, _ => length

/-- `measureVarNameLength` -/
def measureVarNameLength (lineTokens remaining : List Tok) : Nat :=
  match findColon lineTokens with
  | none => 0
  | some 0 => 0
  | some x =>
    match lineTokens.head?, lineTokens[x - 1]? with
    | some t0, some tn => measureLoop x (remaining.length + 1) t0.line tn.text.length remaining
    | _, _ => 0

/-- the repaired `Render`'s test on `appendNum`'s result `g`: `token.Tokenize` would not read it
back — longer than `maxTokenSize`, or a "0" directly followed by a digit (`0_1` regrouped to the
legacy octal `01`) -/
def numNotRetokenizable (g : Bytes) : Bool :=
  g.length > maxTokenSize ||
  (match g with
   | 48 :: d :: _ => 48 ≤ d && d ≤ 57
   | _ => false)

/-- text of a token as `Render` writes it (numbers through `appendNum`, unless the re-grouped
literal would not tokenize again: fixes/C12-render-number-not-retokenizable.patch) -/
def tokText (t : Tok) : Bytes :=
  match t.text with
  | c :: _ =>
    if c < 48 || 57 < c then t.text
    else
      let g := appendNum t.text
      if numNotRetokenizable g then t.text else g
  | [] => []

structure LineAcc where
  buf : Bytes
  indent : Nat
  prev : Option Tok            -- prevID (none = 0)
  prevIsTightRight : Bool

/-- "Render the lineTokens": one step of the `for _, tok := range lineTokens` loop;
`none` = "too many { / }" error. -/
def renderTok (a : LineAcc) (tok : Tok) : Option LineAcc :=
  let space : Bool :=
    match a.prev with
    | none => false
    | some p =>
      (p.id == idEq || (!a.prevIsTightRight && !tok.isTightLeft)) &&
      (tok.id != idOpenParen || !isCloseIdentStrLiteralQuestion p)
  let buf := a.buf ++ (if space then [32] else []) ++ tokText tok
  let indent? : Option Nat :=
    if tok.id == idOpenCurly then (if a.indent == maxIndent then none else some (a.indent + 1))
    else if tok.id == idCloseCurly then (if a.indent == 0 then none else some (a.indent - 1))
    else some a.indent
  match indent? with
  | none => none
  | some indent =>
    let tr :=
      match a.prev with
      | some p => if tok.isUnaryAndBinary then !isCloseIdentLiteral p else tok.isTightRight
      | none => tok.isTightRight
    some ⟨buf, indent, some tok, tr⟩

def renderToks (a : LineAcc) : List Tok → Option LineAcc
  | [] => some a
  | t :: ts => match renderTok a t with
    | none => none
    | some a' => renderToks a' ts

/-- State of `Render` between lines. -/
structure RSt where
  out : Bytes
  indent : Nat
  commentLine : Nat
  inStruct : Bool
  varNameLength : Nat
  prevLine : Nat
  prevLineHanging : Bool

/-- "Print any previous comments": `for ; commentLine < line; commentLine++`. -/
def flushComments (comments : Array Bytes) (commentIndent : Int) (upto : Nat) : Nat → RSt → RSt
  | 0, s => s
  | f + 1, s =>
    if s.commentLine < upto then
      let c := commentText comments s.commentLine commentIndent true
      let s' : RSt :=
        if c.isEmpty then { s with commentLine := s.commentLine + 1 }
        else { s with
          out := s.out ++ (if s.commentLine > s.prevLine + 1 then [10] else []) ++ c ++ [10],
          varNameLength := 0, prevLine := s.commentLine, commentLine := s.commentLine + 1 }
      flushComments comments commentIndent upto f s'
    else s

/-- strip trailing semicolons: (tokens, whether any was stripped) -/
def stripSemicolons (ts : List Tok) : List Tok × Bool :=
  let r := ts.reverse.dropWhile (·.id == idSemicolon)
  (r.reverse, r.length < ts.length)

/-- the main `for len(src) > 0` loop of `Render` -/
def renderLoop (comments : Array Bytes) : Nat → RSt → List Tok → Option RSt
  | 0, _, _ => none
  | _ + 1, s, [] => some s
  | f + 1, s, t0 :: rest =>
    let line := t0.line
    let lineTokens0 := t0 :: rest.takeWhile (·.line == line)
    let src := rest.dropWhile (·.line == line)
    -- previous comments
    let commentIndent : Int := (s.indent : Int) + (if s.prevLineHanging then 2 else 0)
    let s := flushComments comments commentIndent line (line - s.commentLine + 1) s
    -- trailing semicolons
    let hanging := s.prevLineHanging
    let (lineTokens, stripped) := stripSemicolons lineTokens0
    let plh := !stripped
    match lineTokens with
    | [] => renderLoop comments f { s with prevLineHanging := plh } src
    | lt0 :: ltRest =>
      -- blank line
      let (out, vnl) := if s.prevLine < line - 1 then (s.out ++ [10], 0) else (s.out, s.varNameLength)
      -- indentation
      let adj : Int :=
        if lt0.id == idCloseDoubleCurly then 0
        else if lt0.isClose then -1
        else if hanging && lt0.id != idOpenCurly && lt0.id != idOpenDoubleCurly then 2
        else 0
      let buf0 := tabs ((s.indent : Int) + adj)
      -- varNameLength
      let (buf1, lineTokens', inStruct, vnl) :=
        if lineTokens.length < 4 then (buf0, lineTokens, s.inStruct, 0)
        else
          let id0 := lt0.id
          let id1 := (ltRest.head?.map (·.id)).getD 0
          let priPub := id0 == idPri || id0 == idPub
          let inStruct := if priPub then id1 == idStruct else s.inStruct
          let vnl := if priPub && id1 != idConst then 0 else vnl
          if id1 == idConst || id0 == idVar || inStruct then
            let vnl := if vnl == 0 then measureVarNameLength lineTokens src else vnl
            match findColon lineTokens with
            | some colon =>
              let names := lineTokens.take colon
              let nameBytes := names.foldl (fun b t => b ++ t.text ++ [32]) []
              let lastLen := (names.getLast?.map (·.text.length)).getD 0
              (buf0 ++ nameBytes ++ List.replicate (vnl - lastLen) 32, lineTokens.drop colon, inStruct, vnl)
            | none => (buf0, lineTokens, inStruct, vnl)
          else (buf0, lineTokens, inStruct, 0)
      match renderToks ⟨buf1, s.indent, none, false⟩ lineTokens' with
      | none => none
      | some a =>
        let buf := a.buf ++ commentText comments line 0 false ++ [10]
        let lastID := (lineTokens'.getLast?.map (·.id)).getD 0
        renderLoop comments f
          { out := out ++ buf, indent := a.indent, commentLine := line + 1, inStruct := inStruct,
            varNameLength := vnl, prevLine := line,
            prevLineHanging := plh && lastID != idOpenCurly && lastID != idOpenDoubleCurly } src

/-- "Print any trailing comments" -/
def trailingComments (comments : Array Bytes) : Nat → RSt → RSt
  | 0, s => s
  | f + 1, s =>
    if s.commentLine < comments.size then
      let c := commentText comments s.commentLine s.indent true
      let s' : RSt :=
        if c.isEmpty then { s with commentLine := s.commentLine + 1 }
        else { s with
          out := s.out ++ (if s.commentLine > s.prevLine + 1 then [10] else []) ++ c ++ [10],
          prevLine := s.commentLine, commentLine := s.commentLine + 1 }
      trailingComments comments f s'
    else s

/-- `Render(w, tm, src, comments)`: the bytes written, or `none` for an error. -/
def render (src : List Tok) (comments : Array Bytes) : Option Bytes :=
  if src.isEmpty && comments.isEmpty then some [] else
  let prevLine := match src with
    | t :: _ => t.line - 1
    | [] => comments.size
  match renderLoop comments (src.length + 1) ⟨[], 0, 0, false, 0, prevLine, false⟩ src with
  | none => none
  | some s => some (trailingComments comments (comments.size + 1) s).out

/-- `wuffsfmt` without the parse gate: Tokenize, then Render. -/
def fmt (src : Bytes) : Option Bytes :=
  match tokenize src with
  | none => none
  | some (toks, comments) => render toks comments

end WuffsVerif.Render
