/-
C02, FACTS half — the control-flow layer of the checker's fact bookkeeping, on top of
C01's WCore (expressions, `bcheck`, assignment / op-assignment `checkStmt`).

Mirror of lang/check/bounds.go `bcheckBlock`, `bcheckStatement`, `bcheckAssert`,
`bcheckIf` + `unify` (branch reconciliation = intersection), `bcheckWhile` (pre / inv
/ post proven on entry, at every `continue` / `break` and at the implicit continue),
the `KJump` case, `invert`, `updateFactsForSuspension` (yield, coroutine calls), the
impure-call kill set of `bcheckAssignment`; and of lang/check/assert.go `appendFact`
(binary and associative conjunctions are split), `simplify`, `proveBinaryOp`, and the
GENERIC shape of the reason procedures that lang/check/gen.go generates into data.go
(`reasonProc`: match the claim pattern against the condition, take the remaining
variables from the `via` arguments, prove every requirement with `proveBinaryOp`).

`checkS loops fs s = some fs'`: the statement is accepted under the facts `fs` inside
the loops `loops` (innermost first) and the checker goes on with `fs'`.

Core Lean only.
-/
import WuffsVerif.Model.WCore.Stmt
import WuffsVerif.Model.Axioms

namespace WuffsVerif.WFlow
open WuffsVerif.Interval WuffsVerif.WCore

/-! ## which storage an expression reads -/

/-- does `e` read a variable / an array whose name satisfies `p`? -/
def anyName (p : String → Bool) : Expr → Bool
  | .const _ => false
  | .var n _ => p n
  | .unary _ e => anyName p e
  | .binary _ l r => anyName p l || anyName p r
  | .as _ e => anyName p e
  | .assoc _ _ l r => anyName p l || anyName p r
  | .index a _ _ i => p a || anyName p i

/-- `this.f`, `this.arr[i]`: what `x.Mentions(recv)` finds for the receiver `this` -/
def isThisName (n : String) : Bool := "this.".toList.isPrefixOf n.toList

/-- `args.x` -/
def isArgsName (n : String) : Bool := "args.".toList.isPrefixOf n.toList

/-- what a coroutine suspension can change: `updateFactsForSuspension` drops the facts
involving `args` or `this` (pointer-typed locals do not exist in this fragment) -/
def isSuspName (n : String) : Bool := isThisName n || isArgsName n

/-- `updateFactsForSuspension` applied by `facts.update` -/
def dropSuspension (fs : List Expr) : List Expr := fs.filter (fun f => !anyName isSuspName f)

/-- the kill set of an impure call `this.m!(…)` with scalar arguments: the old facts
that `Mention` the receiver -/
def dropReceiver (fs : List Expr) : List Expr := fs.filter (fun f => !anyName isThisName f)

/-! ## `invert` (bounds.go) -/

def invert : Expr → Option Expr
  | .const _ => none
  | .unary .not e => some e
  | .binary op l r =>
    match op with
    | .ne => some (.binary .eq l r)
    | .lt => some (.binary .ge l r)
    | .le => some (.binary .gt l r)
    | .eq => some (.binary .ne l r)
    | .ge => some (.binary .lt l r)
    | .gt => some (.binary .le l r)
    | .and =>
      match invert l, invert r with
      | some l', some r' => some (.binary .or l' r')
      | _, _ => none
    | .or =>
      match invert l, invert r with
      | some l', some r' => some (.binary .and l' r')
      | _, _ => none
    | _ => none
  | .assoc op pre l r =>
    match op with
    | .and =>
      match invert l, invert r with
      | some l', some r' => some (.assoc .or pre l' r')
      | _, _ => none
    | .or =>
      match invert l, invert r with
      | some l', some r' => some (.assoc .and pre l' r')
      | _, _ => none
    | _ => none
  | .var n t => if t.base = .bool then some (.unary .not (.var n t)) else none
  | .index a len ety i => if ety.base = .bool then some (.unary .not (.index a len ety i)) else none
  | _ => none

/-! ## `appendFact` with both kinds of conjunction -/

/-- `facts.appendFact`; `isPre`: the expression is the prefix `a0 and … and a(k-1)` of
an associative node (not a node of its own: no duplicate test) -/
def appendFactA (fs : List Expr) : Bool → Expr → List Expr
  | _, .binary .and l r =>
    if fs.contains (.binary .and l r) then fs
    else appendFactA (appendFactA fs false l) false r
  | isPre, .assoc .and pre l r =>
    if !isPre && fs.contains (.assoc .and pre l r) then fs
    else appendFactA (appendFactA fs pre l) false r
  | _, f => if fs.contains f then fs else fs ++ [f]

/-- the facts assumed from a list of conditions, starting from nothing
(`q.facts = q.facts[:0]; for … { q.facts.appendFact(cond) }`) -/
def assumeAll (cs : List Expr) : List Expr := cs.foldl (fun fs c => appendFactA fs false c) []

/-! ## `simplify` (assert.go), as applied to a proven assertion -/

def simplifyE : Expr → Expr
  | .binary op l r =>
    if op.isCmp then
      (if simplifyE l != l || simplifyE r != r then .binary op (simplifyE l) (simplifyE r)
       else .binary op l r)
    else if op == .plus || op == .minus then simplifyBin op l r
    else .binary op l r
  | e => e

/-! ## `proveBinaryOp` exactly as the code sequences it -/

/-- `proveBinaryOp(op, lhs, rhs)`: an operand is bounds-checked only when the other one
is a constant; a failing bounds check is an error (the proof fails) -/
def proveBin (fs : List Expr) (op : BOp) (l r : Expr) : Bool :=
  let viaL : Option Bool :=
    match constVal l with
    | some lcv =>
      (match bcheck fs false r with
       | none => some false
       | some rb => if proveCV op (mkIR lcv lcv) rb then some true else none)
    | none => none
  match viaL with
  | some b => b
  | none =>
    let viaR : Option Bool :=
      match constVal r with
      | some rcv =>
        (match bcheck fs false l with
         | none => some false
         | some lb => if proveCV op lb (mkIR rcv rcv) then some true else none)
      | none => none
    match viaR with
    | some b => b
    | none => proveFacts op l r fs

/-! ## the generated reason procedures (gen.go -> data.go), generically -/

open WuffsVerif.Axioms in
def relBOp : Axioms.RelOp → BOp
  | .ne => .ne | .lt => .lt | .le => .le | .eq => .eq | .ge => .ge | .gt => .gt

/-- bindings of axiom variables (numbered) to expressions -/
abbrev Subst := List (Nat × Expr)

/-- `genParseBinaryOps`: match one operand of the claim against an expression.  A
variable seen for the first time is bound; a repeated variable (`genClaimName`) must be
`Eq` to its binding; the only constant is 0 (`zeroExpr`); `+` / `-` patterns need a
binary node with that operator. -/
def matchTerm : Axioms.Term → Expr → Subst → Option Subst
  | .var i, e, σ =>
    (match σ.lookup i with
     | none => some ((i, e) :: σ)
     | some e' => if e' == e then some σ else none)
  | .const c, e, σ => if c == 0 && e == .const 0 then some σ else none
  | .add l r, .binary .plus el er, σ =>
    (match matchTerm l el σ with
     | some σ1 => matchTerm r er σ1
     | none => none)
  | .sub l r, .binary .minus el er, σ =>
    (match matchTerm l el σ with
     | some σ1 => matchTerm r er σ1
     | none => none)
  | _, _, _ => none

/-- `genProveReasonRequirement`'s operand construction: bound variables, `via`
arguments (`argValue`), `zeroExpr`, and fresh `+` / `-` nodes -/
def instTerm (σ args : Subst) : Axioms.Term → Option Expr
  | .var i =>
    (match σ.lookup i with
     | some e => some e
     | none => args.lookup i)
  | .const c => if c == 0 then some (.const 0) else none
  | .add l r =>
    (match instTerm σ args l, instTerm σ args r with
     | some a, some b => some (.binary .plus a b)
     | _, _ => none)
  | .sub l r =>
    (match instTerm σ args l, instTerm σ args r with
     | some a, some b => some (.binary .minus a b)
     | _, _ => none)

def proveReq (fs : List Expr) (σ args : Subst) (r : Axioms.Rel) : Bool :=
  match instTerm σ args r.lhs, instTerm σ args r.rhs with
  | some a, some b => proveBin fs (relBOp r.op) a b
  | _, _ => false

/-- the reason procedure generated for the axiom `ax`, applied to the assertion
`cond via "…"(args)` -/
def reasonProc (fs : List Expr) (ax : Axioms.Axiom) (args : Subst) (cond : Expr) : Bool :=
  match cond with
  | .binary op l r =>
    if op != relBOp ax.claim.op then false else
    (match matchTerm ax.claim.lhs l [] with
     | none => false
     | some σ1 =>
       match matchTerm ax.claim.rhs r σ1 with
       | none => false
       | some σ => ax.reqs.all (proveReq fs σ args))
  | _ => false

/-! ## statements -/

inductive AKind where
  | pre | inv | post
deriving DecidableEq, Repr

/-- the `pre` / `inv` / `post` list of a `while`, in source order -/
abbrev LoopSpec := List (AKind × Expr)

def nonPost (sp : LoopSpec) : List Expr := (sp.filter (fun a => a.1 != .post)).map (·.2)
def nonPre (sp : LoopSpec) : List Expr := (sp.filter (fun a => a.1 != .pre)).map (·.2)
def onlyPost (sp : LoopSpec) : List Expr := (sp.filter (fun a => a.1 == .post)).map (·.2)

structure Reason where
  ax : Axioms.Axiom
  args : Subst

/-- Statements.  A block is a right-nested `seq … skip`. -/
inductive FStmt where
  | skip
  | seq (a b : FStmt)
  /-- assignment / op-assignment (C01's `Stmt`) -/
  | base (s : Stmt)
  | assert (c : Expr) (reason : Option Reason)
  /-- `if c { t } else { e }`; `e = skip`: no else part; `else if` is an `ite` in `e` -/
  | ite (c : Expr) (t e : FStmt)
  | while (spec : LoopSpec) (c : Expr) (body : FStmt)
  /-- `break` / `continue` of the `depth`-th enclosing loop (0 = innermost) -/
  | jump (isBreak : Bool) (depth : Nat)
  /-- `this.m!(args)` as a statement: an impure call with scalar arguments -/
  | call (args : List (Expr × Ty))
  /-- `x = this.m!(args)`: the value of an impure call with scalar arguments, whose
  declared result type is `retTy`, assigned to a variable -/
  | callAssign (lhs : Expr) (retTy : Ty) (args : List (Expr × Ty))
  /-- `yield? status` -/
  | yield
  /-- `this.m?(args)` as a statement: a coroutine call (may suspend) -/
  | cocall (args : List (Expr × Ty))
  /-- `return e` (`none`: no value / a status) -/
  | ret (e : Option (Expr × Ty))

def FStmt.isSkip : FStmt → Bool
  | .skip => true
  | _ => false

/-- the statements after which `bcheckBlock` calls the rest unreachable -/
def FStmt.endsFlow : FStmt → Bool
  | .jump _ _ => true
  | .ret _ => true
  | _ => false

/-- does the statement contain a `break` of the loop `k` levels out? (`HasBreak`) -/
def hasBreak : Nat → FStmt → Bool
  | _, .skip => false
  | k, .seq a b => hasBreak k a || hasBreak k b
  | k, .ite _ t e => hasBreak k t || hasBreak k e
  | k, .while _ _ body => hasBreak (k + 1) body
  | k, .jump isBreak d => isBreak && d == k
  | _, _ => false

/-- `ast.Terminates` (of the block that the statement is, or of its last statement) -/
def terminates : FStmt → Bool
  | .seq a b => if b.isSkip then terminates a else terminates b
  | .ite _ t e => terminates t && !e.isSkip && terminates e
  | .jump _ _ => true
  | .ret _ => true
  | .while _ c body => c == .const 1 && !hasBreak 0 body
  | _ => false

/-- `unify`: the facts of the first branch that every other branch has too -/
def unify : List (List Expr) → List Expr
  | [] => []
  | [b] => b
  | b :: bs => b.filter (fun f => bs.all (fun o => o.contains f))

/-- the `via` arguments of an assertion are bounds-checked first -/
def reasonArgsBad (fs : List Expr) : Option Reason → Bool
  | some rs => rs.args.any (fun a => (bcheck fs false a.2).isNone)
  | none => false

/-- the three ways `bcheckAssert` proves a condition that is not already a fact: it is
the constant `true`, its `via` reason procedure succeeds, or `proveBinaryOp` does -/
def assertProved (fs : List Expr) (c : Expr) (reason : Option Reason) : Bool :=
  match constVal c with
  | some v => v == 1
  | none =>
    match reason with
    | some rs => reasonProc fs rs.ax rs.args c
    | none =>
      match c with
      | .binary op l r => proveBin fs op l r
      | _ => false

/-- `bcheckAssert` -/
def checkAssert (fs : List Expr) (c : Expr) (reason : Option Reason) : Option (List Expr) :=
  match bcheck fs false c with
  | none => none
  | some _ =>
    if reasonArgsBad fs reason then none
    else if fs.contains c then some fs
    else if assertProved fs c reason then some (appendFactA fs false (simplifyE c))
    else none

/-- a list of conditions asserted one after the other (loop pre / inv / post) -/
def checkAsserts (fs : List Expr) : List Expr → Option (List Expr)
  | [] => some fs
  | c :: cs =>
    match checkAssert fs c none with
    | none => none
    | some fs1 => checkAsserts fs1 cs

/-- the argument checks of `bcheckExprCall`: every value fits its parameter type -/
def argsOK (fs : List Expr) (args : List (Expr × Ty)) : Bool :=
  args.all (fun a =>
    match bcheck fs false a.1 with
    | some rb => fitsType a.2 rb
    | none => false)

/-- the facts at the top of a branch / a loop body guarded by `c`: the condition is
appended unless it is a constant (`if n.Condition().ConstValue() == nil`) -/
def condFacts (fs : List Expr) (c : Expr) : List Expr :=
  if (constVal c).isNone then appendFactA fs false c else fs

/-- the facts at the top of the else part: the inverted condition; `none`: `invert` fails -/
def invFacts (fs : List Expr) (c : Expr) : Option (List Expr) :=
  if (constVal c).isNone then (invert c).map (appendFactA fs false) else some fs

/-- the branches that take part in the reconciliation after an `if` -/
def ifBranches (t e : FStmt) (ft' fe' : List Expr) : List (List Expr) :=
  (if terminates t then [] else [ft']) ++ (if !e.isSkip && terminates e then [] else [fe'])

/-- `bcheckWhile`, "Check the post conditions on exit, assuming only the pre and inv
conditions and the inverted while condition" (skipped for `while true`) -/
def postOK (spec : LoopSpec) (c : Expr) : Bool :=
  if constVal c == some 1 then true
  else
    match invert c with
    | none => false
    | some ic => (checkAsserts (appendFactA (assumeAll (nonPost spec)) false ic) (onlyPost spec)).isSome

/-- the facts at the top of a loop body: pre + inv and the loop condition -/
def bodyFacts (spec : LoopSpec) (c : Expr) : List Expr := condFacts (assumeAll (nonPost spec)) c

/-- `bcheckStatement` / `bcheckBlock` -/
def checkS (loops : List LoopSpec) (fs : List Expr) : FStmt → Option (List Expr)
  | .skip => some fs
  | .seq a b =>
    match checkS loops fs a with
    | none => none
    | some fs1 => if a.endsFlow && !b.isSkip then none else checkS loops fs1 b
  | .base s => checkStmt fs s
  | .assert c r => checkAssert fs c r
  | .ite c t e =>
    match bcheck fs false c with
    | none => none
    | some _ =>
      match checkS loops (condFacts fs c) t with
      | none => none
      | some ft' =>
        match invFacts fs c with
        | none => none
        | some fe =>
          match checkS loops fe e with
          | none => none
          | some fe' => some (unify (ifBranches t e ft' fe'))
  | .while spec c body =>
    match checkAsserts fs (nonPost spec) with
    | none => none
    | some _ =>
      match bcheck (assumeAll (nonPost spec)) false c with
      | none => none
      | some _ =>
        if !postOK spec c then none
        else if constVal c == some 0 then some (assumeAll (nonPre spec))
        else
          match checkS (spec :: loops) (bodyFacts spec c) body with
          | none => none
          | some fe =>
            if terminates body || (checkAsserts fe (nonPost spec)).isSome
            then some (assumeAll (nonPre spec)) else none
  | .jump isBreak k =>
    match loops[k]? with
    | none => none
    | some spec =>
      match checkAsserts fs (if isBreak then nonPre spec else nonPost spec) with
      | none => none
      | some _ => some []
  | .call args => if argsOK fs args then some (dropReceiver fs) else none
  | .callAssign lhs retTy args =>
    -- bcheckAssignment: lhs and call checked under the old facts; the bounds of a call
    -- are those of its result type; then the impure-call kill set, the facts about the
    -- target, no `lhs == rhs` (the call is not pure), the bound facts
    if !isVar lhs then none else
    match bcheck fs false lhs, typeBounds retTy with
    | some _, some nb =>
      if !argsOK fs args || !fitsType (typeOf lhs) nb then none
      else if !isNumBase (typeOf lhs).base then some (dropLHS (dropReceiver fs) lhs)
      else boundFacts (dropLHS (dropReceiver fs) lhs) lhs nb
    | _, _ => none
  | .yield => some (dropSuspension fs)
  | .cocall args =>
    if argsOK (dropSuspension fs) args then some (dropReceiver (dropSuspension fs)) else none
  | .ret e =>
    match e with
    | none => some fs
    | some (v, ty) =>
      match bcheck fs false v with
      | some rb => if fitsType ty rb then some fs else none
      | none => none

/-! ## the shape of conditions (what the type checker guarantees; used by the proofs and,
as a computable check on every sampled program, by the driver) -/

def boolTyped (e : Expr) : Bool := (typeOf e).base == .bool

/-- the shape of a condition (of an `if`, `while`, `assert`, `pre` / `inv` / `post`):
comparisons combined with `and` / `or` / `not`, boolean variables and elements -/
def goodCond : Expr → Bool
  | .binary op l r =>
    op.isCmp || ((op == .and || op == .or) && goodCond l && goodCond r && boolTyped l && boolTyped r)
  | .assoc op _ l r => (op == .and || op == .or) && goodCond l && goodCond r && boolTyped l && boolTyped r
  | .unary .not e => goodCond e && boolTyped e
  | .unary _ _ => false
  | .as _ _ => false
  | _ => true

/-! ## the situation at every program point (what the `assert false` probe reads) -/

mutual
/-- the points strictly inside a statement: the blocks of an `if`, the body of a `while` -/
def innerPoints (loops : List LoopSpec) (fs : Option (List Expr)) : FStmt → List (Option (List Expr))
  | .ite c t e =>
    points loops (fs.map (condFacts · c)) t ++
      (if e.isSkip then [] else points loops (fs.bind (invFacts · c)) e)
  | .while sp c body => points (sp :: loops) (fs.map (fun _ => bodyFacts sp c)) body
  | _ => []
/-- the situation at every point of a block, in source order: before each statement, inside
it, …, at the end of the block (its final `skip`).  `none`: no situation (the point lies
behind a `break` / `continue` / `return` — "unreachable code" —, or the checker rejects on
the way).  The facts are threaded exactly as `checkS` threads them. -/
def points (loops : List LoopSpec) (fs : Option (List Expr)) : FStmt → List (Option (List Expr))
  | .seq a b =>
    [fs] ++ innerPoints loops fs a ++
      points loops (if a.endsFlow then none else fs.bind (checkS loops · a)) b
  | _ => [fs]
end

end WuffsVerif.WFlow
