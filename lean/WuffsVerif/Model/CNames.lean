/-
C10 — classification of the C function names the back end can emit
(the regenerated list is `Gen/C10_Names.lean`).  A name is either a
`wuffs_base__*` / `wuffs_private_impl__*` function, a `WUFFS_*` macro, one of
the four `mem*` functions, `calloc`/`free` (allowed only in the alloc helper),
a C keyword, a SIMD intrinsic (header-inline, never an external symbol; the
object-level check confirms that), a fragment, or else `external`.
A trailing `*` marks a printf hole: only the prefix is known.  Core Lean only.
-/
namespace WuffsVerif.CNames

inductive NameClass
  | wuffsBase | wuffsPrivateImpl | macro | mem | alloc | keyword
  | x86Intrinsic | armIntrinsic | nameSuffix | pkgLocal | cppOrDoc | external
  deriving DecidableEq, Repr

def NameClass.str : NameClass → String
  | .wuffsBase => "wuffs_base" | .wuffsPrivateImpl => "wuffs_private_impl" | .macro => "macro"
  | .mem => "mem" | .alloc => "alloc" | .keyword => "keyword" | .x86Intrinsic => "x86_intrinsic"
  | .armIntrinsic => "arm_intrinsic" | .nameSuffix => "name_suffix" | .pkgLocal => "pkg_local"
  | .cppOrDoc => "cpp_or_doc" | .external => "external"

def memNames : List String := ["memcpy", "memmove", "memset", "memcmp"]
def allocNames : List String := ["calloc", "free"]
def keywordNames : List String := ["if", "while", "for", "switch", "return", "sizeof", "defined"]
/-- C++ convenience wrappers (inside `#ifdef __cplusplus`) and names in emitted comments. -/
def cppOrDocNames : List String := ["alloc", "initialize", "unique_ptr", "baz", "sizeof__T"]

/-- prefix test on character lists (kernel-reducible) -/
def hasPrefix (pre s : String) : Bool := pre.toList.isPrefixOf s.toList

def endsWithStar (s : String) : Bool := s.toList.getLast? == some '*'

def classify (n : String) : NameClass :=
  if memNames.contains n then .mem
  else if allocNames.contains n then .alloc
  else if keywordNames.contains n then .keyword
  else if hasPrefix "wuffs_base__" n then .wuffsBase
  else if hasPrefix "wuffs_private_impl__" n then .wuffsPrivateImpl
  else if hasPrefix "WUFFS_" n then .macro
  else if hasPrefix "_mm_" n || hasPrefix "_mm256_" n then .x86Intrinsic
  else if hasPrefix "vdup_n_" n || hasPrefix "vdupq_n_" n || hasPrefix "vld1_" n || hasPrefix "vld1q_" n then .armIntrinsic
  else if hasPrefix "__" n then .nameSuffix
  else if (hasPrefix "sizeof__" n && endsWithStar n) || hasPrefix "alloc_as__" n || hasPrefix "upcast_as__" n then .pkgLocal
  else if cppOrDocNames.contains n || hasPrefix "wuffs_foo__bar__" n then .cppOrDoc
  else .external

end WuffsVerif.CNames
