/-
C04 — from the serialised, type-checked AST of a method (Model/WSem.lean
`Node`, written by harness/cmd/c04/sexpr.go from /repo's real parser and
checker) to the control skeleton `WStmt` of Model/CStmt.lean, and the text of
the skeleton of the C that the modelled lowering writes for it.  Used by the
driver op `skel`: the harness extracts the same skeleton from the C text that
the working tree's wuffs-c emits, for every method of every program it runs.

Field meanings per kind are those of lang/ast/ast.go:
  KIf     mhs = condition, rhs = else-if, list1 = body-if-false, list2 = body-if-true
  KWhile  id1 = label, mhs = condition, list2 = body, flags: HasBreak 0x200,
          HasContinue 0x400, HasDeepBreak 0x800, HasDeepContinue 0x1000
  KJump   id0 = break | continue, id1 = label
  KRet    id0 = return | yield
Jump targets are resolved the way lang/parse parseStatement1 does it (the
innermost loop for an unlabelled jump, else the nearest enclosing loop with the
label), and the loop flags that the parser has set are compared with
`jumpsToL` / `deepJumpsToL` (a difference is reported in the output).
Core Lean only.
-/
import WuffsVerif.Model.WSem
import WuffsVerif.Model.CStmt
import WuffsVerif.Model.CCoro

namespace WuffsVerif.CStmt
open WuffsVerif.WSem

def flagHasBreak : Nat := 0x200
def flagHasContinue : Nat := 0x400
def flagHasDeepBreak : Nat := 0x800
def flagHasDeepContinue : Nat := 0x1000

/-- `While.IsWhileTrue()`: the condition is the identifier `true` -/
def isWhileTrue (c : Node) : Bool := c.id0 == "-" && c.id2 == "true"

/-- the condition has ConstValue 1 (`if true`, `if 1 < 2`, …) -/
def isConstTrue (c : Node) : Bool := c.cv == some 1

/-- Which C template an assignment / expression statement gets
(Model/CCoro.lean `Kind`): `plain` unless its right-hand side is a coroutine
call (`f?(…)`, effect bit 2) — then by receiver type and method name as in
builtin.go writeBuiltinQuestionCall, else a call of a coroutine of the struct. -/
def actKind (n : Node) : CCoro.Kind :=
  match n.rhs with
  | none => .plain
  | some rhs =>
    if rhs.cv.isSome || rhs.id0 != "call" || rhs.flags &&& ast_EffectCoroutine == 0 then .plain
    else
      match rhs.lhs with
      | none => .plain
      | some m =>
        let recvTy := match m.lhs with
          | some l => l.ty
          | none => ""
        let isIO := fun (t : String) => t.startsWith "T:base.io_reader" || t.startsWith "T:base.io_writer"
        if recvTy.startsWith "T:base.io_reader" then
          match readSpec m.id2 with
          | some (nb, be) => if nb == 1 then .read8 else .read nb be
          | none =>
            -- skip / skip_u32: `x.ConstValue() == 1` takes the one-byte form
            match rhs.l0 with
            | [a] => if (a.rhs.bind (·.cv)) == some 1 then .skip1 else .skip
            | _ => .skip
        else if recvTy.startsWith "T:base.io_writer" then .write
        else .call ((rhs.l0.filter (fun a => match a.rhs with
          | some v => isIO v.ty
          | none => false)).length)

mutual
/-- `loops`: enclosing loops, innermost first, as (label, identity); `ctr`: next identity.
`outerIf = false` for an else-if node (writeStatementIf only looks for a
constant-true condition at the first `if` of a chain). -/
def convS (fuel : Nat) (loops : List (String × Nat)) (ctr : Nat) (outerIf : Bool) (n : Node) :
    Except String (List WStmt × Nat) :=
  match fuel with
  | 0 => .error "fuel"
  | fuel + 1 =>
    let k := n.kind
    if k == "KVar" || k == "KAssert" then .ok ([], ctr)
    else if k == "KAssign" then .ok ([.act (actKind n).code], ctr)
    else if k == "KRet" then
      if n.id0 == "return" then .ok ([.ret 0], ctr) else .error "unsupported:yield"
    else if k == "KJump" then
      let target : Option Nat :=
        if n.id1 == "-" then loops.head?.map (·.2)
        else (loops.find? (fun l => l.1 == n.id1)).map (·.2)
      match target with
      | none => .error "jump-without-target"
      | some j =>
        if n.id0 == "break" then .ok ([.jump true j], ctr)
        else if n.id0 == "continue" then .ok ([.jump false j], ctr)
        else .error "unsupported:jump"
    else if k == "KIf" then
      match n.mhs with
      | none => .error "if-without-condition"
      | some c =>
        if outerIf && isConstTrue c && n.rhs.isNone && n.l1.isEmpty then
          match convL fuel loops ctr n.l2 with
          | .error e => .error e
          | .ok (t, ctr) => .ok ([.ifTrue t], ctr)
        else
          match convL fuel loops ctr n.l2 with
          | .error e => .error e
          | .ok (t, ctr) =>
            match n.rhs with
            | some ei =>
              match convS fuel loops ctr false ei with
              | .error e => .error e
              | .ok (e, ctr) => .ok ([.ite 0 true t e], ctr)
            | none =>
              match convL fuel loops ctr n.l1 with
              | .error e => .error e
              | .ok (e, ctr) => .ok ([.ite 0 false t e], ctr)
    else if k == "KWhile" then
      match n.mhs with
      | none => .error "while-without-condition"
      | some c =>
        let id := ctr
        match convL fuel ((n.id1, id) :: loops) (ctr + 1) n.l2 with
        | .error e => .error e
        | .ok (body, ctr) =>
          let fl := n.flags
          let ok :=
            ((fl &&& flagHasBreak != 0) == jumpsToL true id body) &&
            ((fl &&& flagHasContinue != 0) == jumpsToL false id body) &&
            ((fl &&& flagHasDeepBreak != 0) == deepJumpsToL true id body) &&
            ((fl &&& flagHasDeepContinue != 0) == deepJumpsToL false id body)
          if ok then .ok ([.while id (if isWhileTrue c then none else some 0) body], ctr)
          else .error s!"loop-flags-differ:{fl}"
    else .error s!"unsupported:{k}"
def convL (fuel : Nat) (loops : List (String × Nat)) (ctr : Nat) (ns : List Node) :
    Except String (List WStmt × Nat) :=
  match fuel with
  | 0 => .error "fuel"
  | fuel + 1 =>
    match ns with
    | [] => .ok ([], ctr)
    | n :: rest =>
      match convS fuel loops ctr true n with
      | .error e => .error e
      | .ok (a, ctr) =>
        match convL fuel loops ctr rest with
        | .error e => .error e
        | .ok (b, ctr) => .ok (a ++ b, ctr)
end

/-- rename the loop identities in `G:<id>:x` / `L:<id>:x` tokens to 0, 1, … in
order of first appearance (the harness does the same with the C label names) -/
def canonLabels (toks : List String) : List String :=
  let step := fun (acc : List String × List String) (t : String) =>
    match t.splitOn ":" with
    | [k, id, x] =>
      if k == "G" || k == "L" then
        let (out, seen) := acc
        match seen.idxOf? id with
        | some i => (s!"{k}:{i}:{x}" :: out, seen)
        | none => (s!"{k}:{seen.length}:{x}" :: out, seen ++ [id])
      else (t :: acc.1, acc.2)
    | _ => (t :: acc.1, acc.2)
  (toks.foldl step ([], [])).1.reverse

mutual
/-- `showS` of Model/CStmt.lean with the text of an atomic statement supplied by `act` -/
def showSX (act : Nat → List String) : CStmt → List String
  | .act a => act a
  | .ite _ elif t e => ["I{"] ++ showLX act t ++ showElseX act elif e
  | .block b => showLX act b
  | .while _ body => ["W{"] ++ showLX act body ++ ["}"]
  | .doWhile0 body => ["D{"] ++ showLX act body ++ ["}"]
  | .brk => ["B"]
  | .cont => ["C"]
  | .goto l => [s!"G:{l.id}:{if l.brk then "b" else "c"}"]
  | .label l => [s!"L:{l.id}:{if l.brk then "b" else "c"}"]
  | .ret _ => ["R"]
def showLX (act : Nat → List String) : List CStmt → List String
  | [] => []
  | s :: r => showSX act s ++ showLX act r
def showElseX (act : Nat → List String) : Bool → List CStmt → List String
  | _, [] => ["}"]
  | true, [.ite _ elif t e] => ["}EI{"] ++ showLX act t ++ showElseX act elif e
  | _, s :: r => ["}E{"] ++ showSX act s ++ showLX act r ++ ["}"]
end

/-- The skeleton of the C function body that cgen writes for a method with
statements `body`; a method without a return type gets the epilogue
`return wuffs_base__make_empty_struct();` (func.go writeFuncImplEpilogue).
A coroutine (`coro`): every suspending statement is written as its template
(Model/CCoro.lean), and the text ends where `goto ok;` begins the epilogue.
`!wf` in front: the body is outside the hypotheses of `stmt_lowering_correct`. -/
def skeletonOf (body : List Node) (hasOut : Bool) (coro : Bool := false) : String :=
  match convL 100000 [] 0 body with
  | .error e => e
  | .ok (ss, _) =>
    let toks :=
      if coro then canonLabels (showLX CCoro.actTokens (lowerL none ss)) ++ ["END"]
      else canonLabels (showL (lowerL none ss)) ++ (if hasOut then [] else ["R"])
    let toks := if wfL [] ss then toks else "!wf" :: toks
    if toks.isEmpty then "-" else " ".intercalate toks

end WuffsVerif.CStmt
