/-
C04 — a small C expression semantics for what internal/cgen/expr.go emits,
and `lower…`: the operator / cast decision of writeExprBinaryOp,
writeExprUnaryOp, writeExprAssociativeOp, writeExprAs and
writeStatementAssign1 (statement.go), mirrored by hand and tied to the code by
the shape check of harness/cmd/c04 (the emitted text of every pair must parse
to exactly `lower….show`).  The C operator names come from the regenerated
table Gen/C04_Tables.lean (cOpNames).

C semantics (ISO C11, LP64 as on the build machine: int = 32 bits):
* 6.3.1.1p2 integer promotions: uint8_t, uint16_t, bool operands become `int`;
* 6.3.1.8 usual arithmetic conversions between int / uint32_t / uint64_t;
* 6.3.1.3 conversion to an unsigned type reduces modulo 2^N; conversion of an
  out-of-range value to `int` is implementation-defined — treated as
  undefined here (never needed by the emitted code);
* 6.5p5 signed overflow is UNDEFINED (`none`); 6.5.7 shifts by a negative or
  too large count, left shifts of negative or overflowing `int`s are undefined;
* 6.5.5 division by zero undefined.
`none` = undefined behaviour.  Values are mathematical integers tagged with
their C type (`wrapU_eq_bitvec` in Props/C04.lean anchors the modular
reduction to `BitVec`).  Core Lean only.
-/
import WuffsVerif.Model.CSyntax
import WuffsVerif.Gen.C04_Tables

namespace WuffsVerif.C
open WuffsVerif.WOps WuffsVerif.Gen.C04

@[reducible] def CTy.bits : CTy → Nat
  | .u8 => 8 | .u16 => 16 | .u32 => 32 | .u64 => 64 | .bool => 1 | .int => 32

def INT_MAX : Int := 2147483647
def INT_MIN : Int := -2147483648

structure CVal where
  ty : CTy
  v : Int
  deriving DecidableEq, Repr, Inhabited

/-- the value is representable in the type -/
def CTy.has (t : CTy) (v : Int) : Prop :=
  match t with
  | .int => INT_MIN ≤ v ∧ v ≤ INT_MAX
  | t => 0 ≤ v ∧ v < 2 ^ t.bits

instance (t : CTy) (v : Int) : Decidable (t.has v) := by
  unfold CTy.has; cases t <;> exact inferInstance

def CVal.wf (c : CVal) : Prop := c.ty.has c.v

/-- 6.3.1.1p2 -/
def promoteTy : CTy → CTy
  | .u8 | .u16 | .bool => .int
  | t => t

/-- reduction modulo 2^w (conversion to / arithmetic in an unsigned type) -/
def wrapU (w : Nat) (v : Int) : Int := v % 2 ^ w

/-- 6.3.1.3 -/
def convert (t : CTy) (v : Int) : Option Int :=
  match t with
  | .int => if INT_MIN ≤ v ∧ v ≤ INT_MAX then some v else none
  | .bool => some (if v = 0 then 0 else 1)
  | t => some (wrapU t.bits v)

def castTo (t : CTy) (c : CVal) : Option CVal := (convert t c.v).map (CVal.mk t)

/-- 6.3.1.8 on promoted operand types -/
def uac (a b : CTy) : CTy :=
  if a = .u64 ∨ b = .u64 then .u64 else if a = .u32 ∨ b = .u32 then .u32 else .int

def intResult (r : Int) : Option CVal :=
  if INT_MIN ≤ r ∧ r ≤ INT_MAX then some ⟨.int, r⟩ else none

def boolResult (b : Bool) : Option CVal := some ⟨.int, b2i b⟩

def evalBin (op : CBin) (x y : CVal) : Option CVal :=
  let xt := promoteTy x.ty
  let yt := promoteTy y.ty
  match op with
  | .shl | .shr =>
    if y.v < 0 ∨ y.v ≥ xt.bits then none
    else
      let n := y.v.toNat
      if xt = .int then
        if x.v < 0 then none
        else if op = .shl then intResult (x.v * 2 ^ n)
        else some ⟨.int, x.v / 2 ^ n⟩
      else if op = .shl then some ⟨xt, wrapU xt.bits (x.v * 2 ^ n)⟩
      else some ⟨xt, x.v / 2 ^ n⟩
  | .land => boolResult (x.v != 0 && y.v != 0)
  | .lor => boolResult (x.v != 0 || y.v != 0)
  | _ =>
    let t := uac xt yt
    match convert t x.v, convert t y.v with
    | some a, some b =>
      match op with
      | .lt => boolResult (a < b)
      | .le => boolResult (a ≤ b)
      | .gt => boolResult (a > b)
      | .ge => boolResult (a ≥ b)
      | .eq => boolResult (a == b)
      | .ne => boolResult (a != b)
      | _ =>
        if t = .int then
          match op with
          | .add => intResult (a + b)
          | .sub => intResult (a - b)
          | .mul => intResult (a * b)
          | .div => if b = 0 then none else intResult (Int.tdiv a b)
          | .rem => if b = 0 ∨ (a = INT_MIN ∧ b = -1) then none else intResult (Int.tmod a b)
          | .band => if 0 ≤ a ∧ 0 ≤ b then some ⟨.int, iand a b⟩ else none
          | .bor => if 0 ≤ a ∧ 0 ≤ b then some ⟨.int, ior a b⟩ else none
          | .bxor => if 0 ≤ a ∧ 0 ≤ b then some ⟨.int, ixor a b⟩ else none
          | _ => none
        else
          match op with
          | .add => some ⟨t, wrapU t.bits (a + b)⟩
          | .sub => some ⟨t, wrapU t.bits (a - b)⟩
          | .mul => some ⟨t, wrapU t.bits (a * b)⟩
          | .div => if b = 0 then none else some ⟨t, a / b⟩
          | .rem => if b = 0 then none else some ⟨t, a % b⟩
          | .band => some ⟨t, iand a b⟩
          | .bor => some ⟨t, ior a b⟩
          | .bxor => some ⟨t, ixor a b⟩
          | _ => none
    | _, _ => none

def evalUn (op : CUn) (x : CVal) : Option CVal :=
  let xt := promoteTy x.ty
  match op with
  | .lnot => boolResult (x.v == 0)
  | .pos => some ⟨xt, x.v⟩
  | .neg => if xt = .int then intResult (-x.v) else some ⟨xt, wrapU xt.bits (-x.v)⟩

/-- `<v>u`: unsigned int if it fits, else unsigned long (6.4.4.1p5) -/
def litVal (v : Nat) : Option CVal :=
  if v < 2 ^ 32 then some ⟨.u32, v⟩ else if v < 2 ^ 64 then some ⟨.u64, v⟩ else none

def ctyOf (t : WTy) : CTy :=
  match t with
  | .u8 => .u8 | .u16 => .u16 | .u32 => .u32 | .u64 => .u64

/-- base/fundamental-public.h:
```
static inline uintN_t wuffs_base__uN__sat_add(uintN_t x, uintN_t y) {
  uintN_t res = (uintN_t)(x + y);
  res |= (uintN_t)(-(res < x));
  return res;
}
``` -/
def satAddC (t : WTy) (x y : CVal) : Option CVal := do
  let ct := ctyOf t
  let x ← castTo ct x            -- arguments are converted to the parameter type
  let y ← castTo ct y
  let s ← evalBin .add x y
  let res ← castTo ct s
  let c ← evalBin .lt res x
  let m ← evalUn .neg c
  let mask ← castTo ct m
  let o ← evalBin .bor res mask  -- res |= mask
  castTo ct o

/-- base/fundamental-public.h:
```
  uintN_t res = (uintN_t)(x - y);
  res &= (uintN_t)(-(res <= x));
  return res;
``` -/
def satSubC (t : WTy) (x y : CVal) : Option CVal := do
  let ct := ctyOf t
  let x ← castTo ct x
  let y ← castTo ct y
  let s ← evalBin .sub x y
  let res ← castTo ct s
  let c ← evalBin .le res x
  let m ← evalUn .neg c
  let mask ← castTo ct m
  let o ← evalBin .band res mask
  castTo ct o

/-- evaluation; `env i` is the value of the i-th operand -/
def ceval (env : Nat → Option CVal) : CExpr → Option CVal
  | .hole i => env i
  | .lit v => litVal v
  | .cast t e => (ceval env e).bind (castTo t)
  | .bin op a b =>
    match ceval env a, ceval env b with
    | some x, some y => evalBin op x y
    | _, _ => none
  | .un op e => (ceval env e).bind (evalUn op)
  | .satAdd t a b =>
    match ceval env a, ceval env b with
    | some x, some y => satAddC t x y
    | _, _ => none
  | .satSub t a b =>
    match ceval env a, ceval env b with
    | some x, some y => satSubC t x y
    | _, _ => none

/-- The value stored by an assignment statement whose left-hand side is an
object of type `lt` currently holding `old` (6.5.16.2: `E1 op= E2` is
`E1 = E1 op (E2)`; 6.5.16.1: the value is converted to the type of E1).
The right-hand side is evaluated with operand 0 = the old value. -/
def CAssign.eval (lt : CTy) (old : CVal) (env : Nat → Option CVal) : CAssign → Option CVal
  | .plain r => (ceval env r).bind (castTo lt)
  | .compound op r =>
    match ceval env r with
    | some y => (evalBin op old y).bind (castTo lt)
    | none => none
  | .satIndirect add t r =>
    match ceval env r with
    | some y => ((if add then satAddC t old y else satSubC t old y)).bind (castTo lt)
    | none => none

/-! ## Lowering (mirror of internal/cgen) -/

def _root_.WuffsVerif.WOps.WTy.isSmall (t : WTy) : Bool := t == .u8 || t == .u16   -- ast.TypeExpr.IsSmallInteger

/-- writeExprBinaryOp.  `t` is the type of the node (of the operands, for a
comparison); `lk`, `rk` say whether the LHS / RHS node has a ConstValue (it is
then written as a `Nu` literal by writeExpr). -/
def lowerBin (op : WOp) (t : WTy) (lk rk : Bool) : Option CExpr :=
  let x := CExpr.hole 0
  let y := CExpr.hole 1
  match op with
  | .satAdd => some (.satAdd t x y)
  | .satSub => some (.satSub t x y)
  | _ =>
    match cBinOf op, cTypeOf t with
    | some c, some ct =>
      let boolNode := op.isComparison || op.isLogical
      let isMod := op == .modAdd || op == .modSub || op == .modMul || op == .modShl
      let overallCast := (!boolNode && t.isSmall) || isMod
      let isShift := op == .shl || op == .shr || op == .modShl
      let lhsCast := isShift && lk
      let lhsWiden := op == .modMul && t == .u16 && !lk && !rk
      let l := if lhsCast then CExpr.cast ct x else if lhsWiden then CExpr.cast .u32 x else x
      let e := CExpr.bin c l y
      some (if overallCast then CExpr.cast ct e else e)
    | _, _ => none

/-- writeExprUnaryOp -/
def lowerUn (op : WUn) : Option CExpr := (cUnOf op).map (fun c => CExpr.un c (.hole 0))

/-- writeExprAssociativeOp with `n+2` operands, left to right; `k0`, `k1`: the
first two operands have a ConstValue (they are then `Nu` literals, of C type
`unsigned int` when they fit: after fixes/C04-assoc-leading-constants.patch the
first one is converted to the node's type when that is base.u64) -/
def lowerAssocK (op : WOp) (t : WTy) (n : Nat) (k0 k1 : Bool) : Option CExpr :=
  match cAssocOf op with
  | some c =>
    let widen := op == .mul && t.isSmall
    let castFirst := !widen && k0 && k1 && t == .u64 && !op.isLogical
    let first := if widen then CExpr.cast .u32 (.hole 0)
      else if castFirst then CExpr.cast .u64 (.hole 0) else .hole 0
    some ((List.range (n + 1)).foldl (fun acc i => CExpr.bin c acc (.hole (i + 1))) first)
  | none => none

/-- … when the first two operands are not both constants -/
def lowerAssoc (op : WOp) (t : WTy) (n : Nat) : Option CExpr := lowerAssocK op t n false false

/-- operand shapes that matter to writeExprAs -/
inductive AsArg where
  | plain                 -- any expression
  | maskR (m : Nat)       -- `(e & m)`  (m a constant)
  | maskL (m : Nat)       -- `(m & e)`
  deriving Repr, DecidableEq

/-- the "& redundantMask" dropped by writeExprAs -/
def redundantMask : WTy → Option Nat
  | .u8 => some 0xFF | .u16 => some 0xFFFF | .u32 => some 0xFFFFFFFF | .u64 => none

/-- writeExprAs for a numeric conversion `arg as to`, where a masked operand
has type `from` -/
def lowerAs (frm to : WTy) (arg : AsArg) : Option CExpr :=
  match cTypeOf to with
  | none => none
  | some ct =>
    match arg with
    | .plain => some (.cast ct (.hole 0))
    | .maskR m =>
      if redundantMask to == some m then some (.cast ct (.hole 0))
      else (lowerBin .band frm false true).map (fun _ =>
        let inner := CExpr.bin .band (.hole 0) (.lit m)
        CExpr.cast ct (if frm.isSmall then .cast (ctyOf frm) inner else inner))
    | .maskL m =>
      if redundantMask to == some m then some (.cast ct (.hole 0))
      else (lowerBin .band frm true false).map (fun _ =>
        let inner := CExpr.bin .band (.lit m) (.hole 0)
        CExpr.cast ct (if frm.isSmall then .cast (ctyOf frm) inner else inner))

/-- writeStatementAssign1 for `lhs op= rhs` on a scalar of type `t`; `rk` says
whether the RHS has a ConstValue. -/
def lowerAssign (op : WOp) (t : WTy) (rk : Bool) : Option CAssign :=
  match op with
  | .satAdd => some (.satIndirect true t (.hole 1))
  | .satSub => some (.satIndirect false t (.hole 1))
  | _ =>
    match cAssignOf op with
    | some c =>
      let rhsWiden := op == .modMul && t == .u16 && !rk
      some (.compound c (if rhsWiden then .cast .u32 (.hole 1) else .hole 1))
    | none => none

/-- The code BEFORE the repair (fixes/C04-u16-modmul.patch): no widening, and
the overall cast also applied to the `~sat` forms (giving
`wuffs_base__u8__sat_add((uint8_t)(x, y))`, which is not even well-formed C). -/
def lowerBinUnrepaired (op : WOp) (t : WTy) (lk : Bool) : Option CExpr :=
  let x := CExpr.hole 0
  let y := CExpr.hole 1
  match cBinOf op, cTypeOf t with
  | some c, some ct =>
    let boolNode := op.isComparison || op.isLogical
    let isMod := op == .modAdd || op == .modSub || op == .modMul || op == .modShl
    let overallCast := (!boolNode && t.isSmall) || isMod
    let isShift := op == .shl || op == .shr || op == .modShl
    let l := if isShift && lk then CExpr.cast ct x else x
    let e := CExpr.bin c l y
    some (if overallCast then CExpr.cast ct e else e)
  | _, _ => none

end WuffsVerif.C
