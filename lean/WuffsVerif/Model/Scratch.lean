/-
C05 — the scratch-word state machines that the generated C uses to resume in the middle of a
suspending I/O built-in (`/repo/internal/cgen/builtin.go`, `writeBuiltinQuestionCall` and
`writeReadUxxAsUyy`), over the three things that C code touches: `iop` (here: the list of bytes
from `iop` to `io2`), `io2`, and `self->private_data.s_<func>.scratch` (a `uint64_t`, here a `Nat`
with explicit `% 2^64` wherever C truncates).

Also the chunk-by-chunk driver (the calling convention of doc/note/io-input-output.md as
exercised by /verif/harness/cmd/c05/cprobe.go): the source arrives as a list of chunks, each
call sees the unread bytes plus one more chunk; the destination is a list of capacity pieces.

Core Lean only.
-/
namespace WuffsVerif.Scratch

/-- One row of `readMethods` in builtin.go: `{size, n, endianness}`. -/
structure RdMethod where
  size : Nat     -- yy, bits of the result type
  n : Nat        -- xx, bits taken from the stream
  be : Bool      -- endianness == 'b'
  deriving Repr, DecidableEq, Inhabited

def u64 (x : Nat) : Nat := x % 2 ^ 64

/-- `wuffs_base__peek_uXXle__no_bounds_check`. -/
def peekLE : List UInt8 → Nat
  | [] => 0
  | b :: bs => b.toNat + 256 * peekLE bs

/-- `wuffs_base__peek_uXXbe__no_bounds_check`. -/
def peekBE (bs : List UInt8) : Nat := bs.foldl (fun acc b => acc * 256 + b.toNat) 0

def peek (be : Bool) (bs : List UInt8) : Nat := if be then peekBE bs else peekLE bs

/-- Where a `read_uXXYe?` call is: not yet entered, or suspended inside its `while (true)`
with the partial value in `scratch`. -/
inductive RdSt where
  | start
  | loop (scratch : Nat)
  deriving Repr, DecidableEq, Inhabited

/-- What one call (one resumption) does: return the value, or suspend with `$short read`;
either way `iop` has advanced by `consumed`. -/
inductive RdRes where
  | done (value : Nat) (consumed : Nat)
  | susp (st : RdSt) (consumed : Nat)
  deriving Repr, DecidableEq, Inhabited

/-- The body of the `while (true)` of `writeReadUxxAsUyy`, over the bytes `iop .. io2`:
```
if (iop == io2) { status = short_read; goto suspend; }
uint64_t* scratch = &self->private_data.s_f.scratch;
uint32_t num_bits = (uint32_t)(*scratch & 0xFF);          // 'b';  'l': *scratch >> 56
*scratch >>= 8; *scratch <<= 8;                            // 'b';  'l': <<= 8; >>= 8
*scratch |= ((uint64_t)(*iop++)) << (56 - num_bits);       // 'b';  'l': << num_bits
if (num_bits == xx - 8) { t = (uintyy_t)(*scratch >> (64 - xx)); break; }   // 'l': (uintyy_t)(*scratch)
num_bits += 8;
*scratch |= ((uint64_t)(num_bits));                        // 'b';  'l': << 56
``` -/
def rdLoop (m : RdMethod) (scratch : Nat) (consumed : Nat) : List UInt8 → RdRes
  | [] => RdRes.susp (RdSt.loop scratch) consumed
  | b :: rest =>
    let numBits := if m.be then scratch &&& 0xFF else scratch >>> 56
    let s := if m.be then u64 ((scratch >>> 8) <<< 8) else (u64 (scratch <<< 8)) >>> 8
    let s := if m.be then s ||| u64 (b.toNat <<< (56 - numBits)) else s ||| u64 (b.toNat <<< numBits)
    if numBits == m.n - 8 then
      RdRes.done ((if m.be then s >>> (64 - m.n) else s) % 2 ^ m.size) (consumed + 1)
    else
      let numBits := numBits + 8
      let s := if m.be then s ||| numBits else s ||| u64 (numBits <<< 56)
      rdLoop m s (consumed + 1) rest

/-- One call of a `read_uXXYe?` site with `avail` = the bytes from `iop` to `io2`. First entry:
the fast path `if (io2 - iop >= xx/8) { t = peek_uXXYe(iop); iop += xx/8; }`, else
`scratch = 0` and into the loop. Resumption: straight into the loop. -/
def rdCall (m : RdMethod) (st : RdSt) (avail : List UInt8) : RdRes :=
  match st with
  | RdSt.start =>
    if avail.length ≥ m.n / 8 then
      RdRes.done (peek m.be (avail.take (m.n / 8)) % 2 ^ m.size) (m.n / 8)
    else rdLoop m 0 0 avail
  | RdSt.loop s => rdLoop m s 0 avail

/-- `read_u8?` and its `_as_` variants (no scratch): `if (iop == io2) suspend; t = *iop++;`. -/
def rd8Call (avail : List UInt8) : RdRes :=
  match avail with
  | [] => RdRes.susp RdSt.start 0
  | b :: _ => RdRes.done b.toNat 1

def readCall (m : RdMethod) (st : RdSt) (avail : List UInt8) : RdRes :=
  if m.n == 8 then rd8Call avail else rdCall m st avail

/-- `skip?`/`skip_u32?` with a non-constant-1 argument: `scratch = n;` then at the suspension
point `if (scratch > io2 - iop) { scratch -= io2 - iop; iop = io2; suspend; } iop += scratch;`.
Returns (finished?, new scratch, bytes consumed by this call). -/
def skipCall (scratch : Nat) (avail : Nat) : Bool × Nat × Nat :=
  if scratch > avail then (false, scratch - avail, avail) else (true, scratch, scratch)

/-- `skip?(n: 1)`: `if (iop == io2) suspend; iop++;`. -/
def skip1Call (avail : Nat) : Bool × Nat :=
  if avail == 0 then (false, 0) else (true, 1)

/-- `write_u8?`: `scratch = a;` then at the suspension point
`if (iop == io2) suspend; *iop++ = (uint8_t)scratch;`. Returns the byte written, if any. -/
def write8Call (scratch : Nat) (room : Nat) : Option UInt8 :=
  if room == 0 then none else some (UInt8.ofNat (scratch % 256))

/-! ## The driver: chunks of source, pieces of destination capacity -/

/-- Source side: `pending` = delivered and unread (`iop .. io2` at the next call), `future` =
chunks not yet delivered (empty = the source is closed), `consumed` = total bytes read. -/
structure Src where
  pending : List UInt8
  future : List (List UInt8)
  consumed : Nat
  susp : Nat
  deriving Repr, Inhabited

/-- Destination side: `room` left in the current piece, further piece sizes (after the list:
pieces of 65536), bytes written so far in order. -/
structure Dst where
  room : Nat
  future : List Nat
  out : List UInt8
  deriving Repr, Inhabited

/-- Run one read site to completion or starvation: call, and on `$short read` deliver the next
chunk and call again. (Every suspension of a read happens with `iop == io2`.) -/
def readGo (m : RdMethod) : RdSt → List UInt8 → Nat → Nat → List (List UInt8) → Option Nat × Src
  | st, pending, consumed, susp, [] =>
    match readCall m st pending with
    | RdRes.done v c => (some v, ⟨pending.drop c, [], consumed + c, susp⟩)
    | RdRes.susp _ c => (none, ⟨[], [], consumed + c, susp + 1⟩)
  | st, pending, consumed, susp, ch :: fut =>
    match readCall m st pending with
    | RdRes.done v c => (some v, ⟨pending.drop c, ch :: fut, consumed + c, susp⟩)
    | RdRes.susp st' c => readGo m st' ch (consumed + c) (susp + 1) fut

def skipGo : Nat → List UInt8 → Nat → Nat → List (List UInt8) → Bool × Src
  | scratch, pending, consumed, susp, [] =>
    match skipCall scratch pending.length with
    | (true, _, c) => (true, ⟨pending.drop c, [], consumed + c, susp⟩)
    | (false, _, c) => (false, ⟨[], [], consumed + c, susp + 1⟩)
  | scratch, pending, consumed, susp, ch :: fut =>
    match skipCall scratch pending.length with
    | (true, _, c) => (true, ⟨pending.drop c, ch :: fut, consumed + c, susp⟩)
    | (false, s', c) => skipGo s' ch (consumed + c) (susp + 1) fut

def skip1Go : List UInt8 → Nat → Nat → List (List UInt8) → Bool × Src
  | pending, consumed, susp, [] =>
    match skip1Call pending.length with
    | (true, c) => (true, ⟨pending.drop c, [], consumed + c, susp⟩)
    | (false, _) => (false, ⟨[], [], consumed, susp + 1⟩)
  | pending, consumed, susp, ch :: fut =>
    match skip1Call pending.length with
    | (true, c) => (true, ⟨pending.drop c, ch :: fut, consumed + c, susp⟩)
    | (false, _) => skip1Go ch consumed (susp + 1) fut

/-- Run one `write_u8?` site: on `$short write` (the piece is full) take the next piece. After
the listed pieces the driver supplies pieces of 65536 bytes, so the write then succeeds. -/
def writeGo (scratch : Nat) : Nat → List UInt8 → Nat → List Nat → Dst × Nat
  | room, out, nsusp, [] =>
    match write8Call scratch room with
    | some b => (⟨room - 1, [], out ++ [b]⟩, nsusp)
    | none => (⟨65536 - 1, [], out ++ [UInt8.ofNat (scratch % 256)]⟩, nsusp + 1)
  | room, out, nsusp, p :: fut =>
    match write8Call scratch room with
    | some b => (⟨room - 1, p :: fut, out ++ [b]⟩, nsusp)
    | none => writeGo scratch p out (nsusp + 1) fut

/-! ## Straight-line programs over the suspending built-ins (registers hold `Nat`s) -/

inductive BinF where
  | add | xor | fst
  deriving Repr, DecidableEq, Inhabited

def BinF.eval : BinF → Nat → Nat → Nat
  | .add, a, b => (a + b) % 256
  | .xor, a, b => (a ^^^ b) % 256
  | .fst, a, _ => a % 256

/-- One statement of a straight-line F3s program. -/
inductive POp where
  | rd (m : RdMethod) (dst : Nat)        -- `r[dst] = args.src.read_…?()`
  | skip (src : Nat)                      -- `args.src.skip?(n: r[src])`
  | skip1                                 -- `args.src.skip?(n: 1)`
  | wr (f : BinF) (a b : Nat)             -- `args.dst.write_u8?(a: f(r[a], r[b]))`
  deriving Repr, DecidableEq, Inhabited

structure PState where
  regs : List Nat
  src : Src
  dst : Dst
  wsusp : Nat
  deriving Repr, Inhabited

def getReg (regs : List Nat) (i : Nat) : Nat := regs.getD i 0
def setReg (regs : List Nat) (i : Nat) (v : Nat) : List Nat :=
  if i < regs.length then regs.set i v else regs ++ List.replicate (i - regs.length) 0 ++ [v]

/-- Final status of a straight-line program: `ok`, or starved on `$short read` with the source
closed and fully consumed. -/
inductive PStatus where
  | ok | shortRead
  deriving Repr, DecidableEq, Inhabited

def runOps : List POp → PState → PStatus × PState
  | [], s => (PStatus.ok, s)
  | op :: rest, s =>
    match op with
    | POp.rd m d =>
      match readGo m RdSt.start s.src.pending s.src.consumed s.src.susp s.src.future with
      | (some v, src) => runOps rest { s with regs := setReg s.regs d v, src := src }
      | (none, src) => (PStatus.shortRead, { s with src := src })
    | POp.skip r =>
      match skipGo (getReg s.regs r) s.src.pending s.src.consumed s.src.susp s.src.future with
      | (true, src) => runOps rest { s with src := src }
      | (false, src) => (PStatus.shortRead, { s with src := src })
    | POp.skip1 =>
      match skip1Go s.src.pending s.src.consumed s.src.susp s.src.future with
      | (true, src) => runOps rest { s with src := src }
      | (false, src) => (PStatus.shortRead, { s with src := src })
    | POp.wr f a b =>
      let (dst, ws) := writeGo (f.eval (getReg s.regs a) (getReg s.regs b)) s.dst.room s.dst.out s.wsusp s.dst.future
      runOps rest { s with dst := dst, wsusp := ws }

/-- Cut `bs` into chunks of the given sizes (clamped); what is left after the list is one last
chunk (the driver then delivers "all the rest"). There is always at least one chunk. -/
def chunksOf : List Nat → List UInt8 → List (List UInt8)
  | [], bs => [bs]
  | k :: ks, bs => if bs.length ≤ k then [bs] else bs.take k :: chunksOf ks (bs.drop k)

/-- The initial driver state: the first chunk is delivered before the first call, the first
capacity piece is in place. -/
def initState (srcSizes dstSizes : List Nat) (bs : List UInt8) : PState :=
  let chunks := chunksOf srcSizes bs
  let (room, fut) := match dstSizes with
    | [] => (65536, [])
    | p :: ps => (p, ps)
  ⟨[], ⟨chunks.headD [], chunks.tail, 0, 0⟩, ⟨room, fut, []⟩, 0⟩

def runProgram (prog : List POp) (srcSizes dstSizes : List Nat) (bs : List UInt8) : PStatus × PState :=
  runOps prog (initState srcSizes dstSizes bs)

end WuffsVerif.Scratch
