/-
Model of /repo/lib/lowleveljpeg/lowleveljpeg.go (+ quant.go `SetToStandardValues`,
block.go `IsValid`), written function by function.  Core Lean only.

Conventions of this model (each is a faithful abstraction of the Go code; the
correspondence check `./check C18` compares every call byte for byte):

* Bytes, uint32 and table entries are `Nat`; int16/int32 are `Int` with explicit
  wrap-around (`wrap16`) where the Go type could overflow.
* `Encoder.buf` + `bufIndex`.  Every Go function writes `e.buf` strictly
  sequentially starting at index 0 of each `Reset`/`AddN` call and finally passes
  `e.buf[:bufIndex]` to `w.Write`; nothing is read from `buf` before it was
  written in the same call.  The model therefore threads `out : Array Nat`, the
  bytes `buf[0 .. bufIndex)`, with `bufIndex = out.size`.  A Go index panic
  (`bufIndex ≥ len(buf) = 2924`) corresponds to `out.size > bufLen` at the end of
  the call (sizes only grow), which the call results report as `Res.panic`;
  `Props/C18.lean` proves it never happens (`buf_never_overflows`).
* The tables (`huffmanBitWriters`, `hardCodedDHTSegments`, `zigzag`, `bitCount`,
  standard quantisation factors, `bufLen`) come from `Gen/C18_Tables.lean`,
  regenerated from /repo on every run.
-/
import WuffsVerif.Gen.C18_Tables

namespace WuffsVerif.Jpeg
open WuffsVerif.Gen.C18

/-- int16 wrap-around -/
def wrap16 (x : Int) : Int := (x + 32768) % 65536 - 32768

/-- The package's error values. `write` = the error returned by the `io.Writer`. -/
inductive Err where
  | badAddNForColorType | badArgument | invalidBlockI16 | previouslyReturnedError
  | tooManyAddNCalls | write
deriving DecidableEq, Repr, Inhabited

/-- Result of a `Reset`/`AddN` call: bytes passed to `w.Write`, or an error, or a panic. -/
inductive Res where
  | ok (written : Array Nat)
  | err (e : Err)
  | panic
deriving DecidableEq, Repr, Inhabited

def colorTypeGray : Nat := 1
def colorTypeYCbCr444 : Nat := 3
def colorTypeYCbCr420 : Nat := 6

/-- `ColorType.isValid` -/
def colorTypeIsValid (c : Nat) : Bool := c == 1 || c == 3 || c == 6

/-- `type BlockI16 [64]int16`; index with `getD i 0`. -/
abbrev Block := Array Int

/-- `type QuantizationFactors [64]uint8` -/
abbrev Quant := Array Nat

/-- `type Encoder struct` without `buf` (see the header comment). -/
structure Encoder where
  hasReturnedError : Bool := false
  colorType : Nat := 0
  prevDC0 : Int := 0
  prevDC1 : Int := 0
  prevDC2 : Int := 0
  numAddsRemaining : Nat := 0
  bitsV : Nat := 0
  bitsN : Nat := 0
  quants0 : Quant := Array.replicate 64 0
  quants1 : Quant := Array.replicate 64 0
deriving Repr, Inhabited

def Encoder.prevDC (e : Encoder) (c : Nat) : Int :=
  if c = 0 then e.prevDC0 else if c = 1 then e.prevDC1 else e.prevDC2

def Encoder.setPrevDC (e : Encoder) (c : Nat) (v : Int) : Encoder :=
  if c = 0 then { e with prevDC0 := v } else if c = 1 then { e with prevDC1 := v }
  else { e with prevDC2 := v }

/-- `e.quants[i]` for `i = whichHuffmanBase>>1 ∈ {0,1}` -/
def Encoder.quants (e : Encoder) (i : Nat) : Quant := if i = 0 then e.quants0 else e.quants1

/-- `BlockI16.IsValid` (block.go) -/
def blockIsValid (b : Block) : Bool :=
  decide (-1024 ≤ b.getD 0 0 ∧ b.getD 0 0 ≤ 1023) &&
  (List.range' 1 63).all (fun i => decide (-1023 ≤ b.getD i 0 ∧ b.getD i 0 ≤ 1023))

/-- `QuantizationFactors.IsValid` (quant.go) -/
def quantIsValid (q : Quant) : Bool :=
  (List.range 64).all (fun i => q.getD i 0 != 0)

/-- `QuantizationFactors.SetToStandardValues` (quant.go) -/
def setToStandardValues (which : Nat) (quality : Int) : Quant :=
  let quality := if quality < 1 then 1 else if quality > 100 then 100 else quality
  let q : Int := if quality < 50 then Int.tdiv 5000 quality else 200 - quality * 2
  let std := if which % 2 = 0 then standardQuantizationFactors0 else standardQuantizationFactors1
  (Array.range 64).map (fun i =>
    let scaled := Int.tdiv (((std.getD i 0 : Nat) : Int) * q + 50) 100
    let scaled := if scaled < 1 then 1 else if scaled > 255 then 255 else scaled
    scaled.toNat)

/-- `div` (lowleveljpeg.go): a/b rounded to nearest, in int16 arithmetic. -/
def div (a b : Int) : Int :=
  if a ≥ 0 then
    wrap16 (Int.tdiv (wrap16 (a + b / 2)) b)
  else
    wrap16 (-(wrap16 (Int.tdiv (wrap16 (wrap16 (-a) + b / 2)) b)))

/-- the `for ; n >= 8; n -= 8` loop of `emitBits`, run `k = n / 8` times. -/
def emitLoop : Nat → Nat → Array Nat → Nat × Array Nat
  | 0, v, out => (v, out)
  | k + 1, v, out =>
    let vByte := (v / 16777216) % 256
    let out := out.push vByte
    let out := if vByte = 255 then out.push 0 else out
    emitLoop k ((v * 256) % 4294967296) out

/-- `Encoder.emitBits`: emits the low n bits of v (v is a uint32). -/
def emitBits (e : Encoder) (out : Array Nat) (v n : Nat) : Encoder × Array Nat :=
  if n = 0 then (e, out) else
  let v := v % 2 ^ n                      -- v &= (1 << n) - 1   (v < 2^32)
  let n := n + e.bitsN
  let v := if n ≤ 32 then (v * 2 ^ (32 - n)) % 4294967296 else 0   -- v <<= 32 - n
  let v := v ||| e.bitsV
  let (v, out) := emitLoop (n / 8) v out
  ({ e with bitsV := v, bitsN := n % 8 }, out)

/-- `Encoder.emitHuffman` -/
def emitHuffman (e : Encoder) (out : Array Nat) (whichHuffman : Nat) (value : Nat) : Encoder × Array Nat :=
  let x := (huffmanBitWriters.getD whichHuffman #[]).getD value 0
  emitBits e out (x % 65536) (x / 65536)

/-- the category computation of `emitHuffmanRun` -/
def category (absValue : Nat) : Nat :=
  if absValue < 256 then bitCount.getD absValue 0 else bitCount.getD (absValue / 256) 0 + 8

/-- `Encoder.emitHuffmanRun`; `value` is an int32. -/
def emitHuffmanRun (e : Encoder) (out : Array Nat) (whichHuffman : Nat) (zeroesRunLength : Nat)
    (value : Int) : Encoder × Array Nat :=
  let absValue : Nat := if value < 0 then ((-value) % 4294967296).toNat else (value % 4294967296).toNat
  let adjDiffBeforeMasking : Nat :=
    if value < 0 then ((value - 1) % 4294967296).toNat else (value % 4294967296).toNat
  let cat := category absValue
  let combined := (zeroesRunLength * 16) ||| cat
  let (e, out) := emitHuffman e out whichHuffman (combined % 256)
  emitBits e out adjDiffBeforeMasking cat

/-- `for ; zeroesRunLength >= 16; zeroesRunLength -= 16 { emitHuffman(…, 0xF0) }`, k = run / 16 times -/
def emitZRLs : Nat → Encoder → Array Nat → Nat → Encoder × Array Nat
  | 0, e, out, _ => (e, out)
  | k + 1, e, out, wh =>
    let (e, out) := emitHuffman e out wh 0xF0
    emitZRLs k e out wh

/-- the `for z := 1; z < 64; z++` loop of `encodeBlock` over the already quantised AC
    coefficients in zigzag order, then the end-of-block code. -/
def encodeACs (whichHuffmanBase : Nat) : List Int → Nat → Encoder → Array Nat → Encoder × Array Nat
  | [], run, e, out =>
    if run > 0 then emitHuffman e out (whichHuffmanBase + 1) 0x00 else (e, out)
  | ac :: rest, run, e, out =>
    if ac = 0 then encodeACs whichHuffmanBase rest (run + 1) e out
    else
      let (e, out) := emitZRLs (run / 16) e out (whichHuffmanBase + 1)
      let (e, out) := emitHuffmanRun e out (whichHuffmanBase + 1) (run % 16) ac
      encodeACs whichHuffmanBase rest 0 e out

/-- quantised coefficient number z (zigzag order) of block b under table q -/
def quantised (q : Quant) (b : Block) (z : Nat) : Int :=
  let zz := zigzag.getD z 0
  div (b.getD zz 0) ((q.getD zz 0 : Nat) : Int)

/-- `Encoder.encodeBlock` -/
def encodeBlock (e : Encoder) (out : Array Nat) (whichComponent : Nat) (b : Block) : Encoder × Array Nat :=
  let whichHuffmanBase := if whichComponent > 0 then 2 else 0
  let q := e.quants (whichHuffmanBase / 2)
  let dc := div (b.getD 0 0) ((q.getD 0 0 : Nat) : Int)
  let deltaDC := wrap16 (dc - e.prevDC whichComponent)
  let e := e.setPrevDC whichComponent dc
  let (e, out) := emitHuffmanRun e out (whichHuffmanBase + 0) 0 deltaDC
  encodeACs whichHuffmanBase ((List.range' 1 63).map (quantised q b)) 0 e out

/-- `whichComponents` of `addN` -/
def whichComponents (n : Nat) : List Nat :=
  if n = 1 then [0] else if n = 3 then [0, 1, 2] else if n = 6 then [0, 0, 0, 0, 1, 2] else []

/-- the `for i := range blocks { bufIndex = e.encodeBlock(…) }` loop of `addN` -/
def encodeBlocks : List Nat → List Block → Encoder → Array Nat → Encoder × Array Nat
  | c :: cs, b :: bs, e, out =>
    let (e, out) := encodeBlock e out c b
    encodeBlocks cs bs e out
  | _, _, e, out => (e, out)

/-- `w.Write(e.buf[:bufIndex])` and the error handling after it: the common tail of `Reset` and
    `addN`.  `out.size > bufLen` stands for the index panic an overrun of `buf` would have raised. -/
def finishWrite (e : Encoder) (out : Array Nat) (wfail : Bool) : Encoder × Res :=
  if out.size > bufLen then (e, .panic)
  else if wfail then ({ e with hasReturnedError := true }, .err .write)
  else (e, .ok out)

/-- the `if e.numAddsRemaining == 0 { … }` part of `addN`: pad with 1-bits, EOI marker -/
def emitEOI (e : Encoder) (out : Array Nat) : Encoder × Array Nat :=
  if e.numAddsRemaining = 0 then
    let (e, out) := emitBits e out 0x7F 7
    (e, (out.push 0xFF).push 0xD9)
  else (e, out)

/-- `Encoder.addN`.  `wfail`: the writer returns an error. -/
def addN (e : Encoder) (wfail : Bool) (blocks : List Block) : Encoder × Res :=
  if !blocks.all blockIsValid then
    ({ e with hasReturnedError := true }, .err .invalidBlockI16)
  else if e.numAddsRemaining = 0 then
    ({ e with hasReturnedError := true }, .err .tooManyAddNCalls)
  else
    let e := { e with numAddsRemaining := e.numAddsRemaining - 1 }
    let (e, out) := encodeBlocks (whichComponents blocks.length) blocks e #[]
    let (e, out) := emitEOI e out
    finishWrite e out wfail

/-- `Encoder.Add1` / `Add3` / `Add6` (n = 1, 3, 6); `blocks = none` is a nil pointer. -/
def add (e : Encoder) (n : Nat) (wfail : Bool) (blocks : Option (List Block)) : Encoder × Res :=
  if e.hasReturnedError then (e, .err .previouslyReturnedError)
  else if e.colorType ≠ n then ({ e with hasReturnedError := true }, .err .badAddNForColorType)
  else match blocks with
    | none => ({ e with hasReturnedError := true }, .err .badArgument)
    | some bs => addN e wfail bs

/-- `Encoder.encodeDQT` -/
def encodeDQT (e : Encoder) (out : Array Nat) : Array Nat :=
  let out := out ++ #[0xFF, 0xDB, 0x00, if e.colorType = colorTypeGray then 0x43 else 0x84]
  let tbl (out : Array Nat) (i : Nat) : Array Nat :=
    (out.push i) ++ (Array.range 64).map (fun z => (e.quants i).getD (zigzag.getD z 0) 0)
  let out := tbl out 0
  if e.colorType = colorTypeGray then out else tbl out 1

/-- `Encoder.encodeSOF0`; `byte(x >> 8)`, `byte(x)` of Go ints. -/
def encodeSOF0 (e : Encoder) (out : Array Nat) (width height : Int) : Array Nat :=
  let numComponents := if e.colorType ≠ colorTypeGray then 3 else 1
  let hi (x : Int) : Nat := ((x / 256) % 256).toNat
  let lo (x : Int) : Nat := (x % 256).toNat
  let out := out ++ #[0xFF, 0xC0, 0x00, (0x08 + 3 * numComponents) % 256, 0x08,
    hi height, lo height, hi width, lo width, numComponents]
  if e.colorType = colorTypeGray then out ++ #[0x01, 0x11, 0x00]
  else
    let luma := if e.colorType = colorTypeYCbCr420 then 0x22 else 0x11
    out ++ #[0x01, luma, 0x00, 0x02, 0x11, 0x01, 0x03, 0x11, 0x01]

/-- `copy(e.buf[bufIndex:], s)`: copies `min(len(s), len(buf) - bufIndex)` bytes -/
def copyInto (out : Array Nat) (s : Array Nat) : Array Nat :=
  out ++ s.extract 0 (bufLen - out.size)

/-- `Encoder.encodeDHT` -/
def encodeDHT (e : Encoder) (out : Array Nat) : Array Nat :=
  let s := if e.colorType = colorTypeGray
    then hardCodedDHTSegments.extract 0 (hardCodedDHTSegments.size / 2)
    else hardCodedDHTSegments
  copyInto out s

/-- `Encoder.encodeSOSHeader` -/
def encodeSOSHeader (e : Encoder) (out : Array Nat) : Array Nat :=
  let s : Array Nat := if e.colorType = colorTypeGray
    then #[0xFF, 0xDA, 0x00, 0x08, 0x01, 0x01, 0x00, 0x00, 0x3F, 0x00]
    else #[0xFF, 0xDA, 0x00, 0x0C, 0x03, 0x01, 0x00, 0x02, 0x11, 0x03, 0x11, 0x00, 0x3F, 0x00]
  copyInto out s

/-- the second half of `Encoder.Reset` (after the quantisation tables are installed): set the
    fields, emit SOI, DQT, SOF0, DHT and the SOS header, write them. -/
def resetFinish (e : Encoder) (wfail : Bool) (colorType : Nat) (width height : Int) : Encoder × Res :=
  let n : Nat :=
    if colorType ≠ colorTypeYCbCr420
    then (((width + 7) / 8).toNat % 4294967296) * (((height + 7) / 8).toNat % 4294967296) % 4294967296
    else (((width + 15) / 16).toNat % 4294967296) * (((height + 15) / 16).toNat % 4294967296) % 4294967296
  let e := { e with hasReturnedError := false, colorType := colorType,
                    prevDC0 := 0, prevDC1 := 0, prevDC2 := 0,
                    numAddsRemaining := n, bitsV := 0, bitsN := 0 }
  let out : Array Nat := #[0xFF, 0xD8]
  let out := encodeDQT e out
  let out := encodeSOF0 e out width height
  let out := encodeDHT e out
  let out := encodeSOSHeader e out
  finishWrite e out wfail

/-- `Encoder.Reset`.  `colorType` is a byte; `width`, `height` are Go ints;
    `quants = none` is `options == nil || options.QuantizationFactors == nil`. -/
def reset (e : Encoder) (wfail : Bool) (colorType : Nat) (width height : Int)
    (quants : Option (Quant × Quant)) : Encoder × Res :=
  if width ≤ 0 || 0xFFFF < width || height ≤ 0 || 0xFFFF < height || !colorTypeIsValid colorType then
    ({ e with hasReturnedError := true }, .err .badArgument)
  else
    match quants with
    | none =>
      resetFinish { e with quants0 := setToStandardValues 0 defaultQuality,
                           quants1 := setToStandardValues 1 defaultQuality } wfail colorType width height
    | some (q0, q1) =>
      if !quantIsValid q0 || !quantIsValid q1 then
        ({ e with hasReturnedError := true }, .err .badArgument)
      else resetFinish { e with quants0 := q0, quants1 := q1 } wfail colorType width height

end WuffsVerif.Jpeg
