/-
Model of `BlockI16.ForwardDCTFrom` and `BlockU8.InverseDCTFrom`
(/repo/lib/lowleveljpeg/block.go) in exact integer arithmetic, as the Go code
computes them.  Core Lean only.

Go's int64 `>>` on a negative value is an arithmetic shift = floor division by a
power of two = Lean's `Int./` (`Int.ediv`) by a positive literal.  No int64
overflow can occur (|sum32| < 2^46, |alphasSum32| < 2^45; proved as
`Props.C18.fdct_sum_bounds`), so unbounded `Int` is exact.
-/
import WuffsVerif.Gen.C18_Tables

namespace WuffsVerif.Jpeg.Dct
open WuffsVerif.Gen.C18

/-- `ifElse(k == 0, fixedPointInv2Sqrt2, fixedPointHalf)` -/
def halfAlpha16 (k : Nat) : Int := if k = 0 then fixedPointInv2Sqrt2 else fixedPointHalf

/-- `cosines[(((2*x)+1)*u)&31]` -/
def cosAt (x u : Nat) : Int := cosines.getD (((2 * x + 1) * u) % 32) 0

/-- `c32` for the pixel `i = 8*y + x` and the frequency `(u, v)` -/
def c32 (u v i : Nat) : Int := cosAt (i % 8) u * cosAt (i / 8) v

/-- `alphas16 := (alphas32 + (1 << 15)) >> 16` -/
def alphas16 (u v : Nat) : Int := (halfAlpha16 v * halfAlpha16 u + 32768) / 65536

/-- `sum32` over a list of pixel indices (the double loop over y, x is `List.range 64`) -/
def sum32 (src : Nat → Int) (u v : Nat) : List Nat → Int
  | [] => 0
  | i :: is => src i * c32 u v i + sum32 src u v is

/-- from `sum32` to `result0` -/
def fdctPost (a16 s32 : Int) : Int :=
  let sum16 := (s32 + 32768) / 65536
  let alphasSum32 := a16 * sum16
  (alphasSum32 + 2147483648) / 4294967296

/-- int16 conversion -/
def toInt16 (x : Int) : Int := (x + 32768) % 65536 - 32768

/-- `result0` of `ForwardDCTFrom` for output index `k = 8*v + u`; `src` holds bytes. -/
def fdctCoef (src : Array Nat) (k : Nat) : Int :=
  let u := k % 8
  let v := k / 8
  fdctPost (alphas16 u v) (sum32 (fun i => ((src.getD i 0 : Nat) : Int) - 128) u v (List.range 64))

/-- `BlockI16.ForwardDCTFrom` (non-nil arguments) -/
def forwardDCT (src : Array Nat) : Array Int :=
  (Array.range 64).map (fun k => toInt16 (fdctCoef src k))

/-- `alphasSum32` of `InverseDCTFrom` for the pixel `i = 8*y + x`, over a list of coefficient indices -/
def isum32 (src : Nat → Int) (i : Nat) : List Nat → Int
  | [] => 0
  | k :: ks =>
    let u := k % 8
    let v := k / 8
    let c16 := (c32 u v i + 32768) / 65536
    src k * (alphas16 u v * c16) + isum32 src i ks

/-- `result0` of `InverseDCTFrom` for the pixel `i` -/
def idctRaw (src : Array Int) (i : Nat) : Int :=
  (isum32 (fun k => src.getD k 0) i (List.range 64) + 2147483648) / 4294967296

/-- `BlockU8.InverseDCTFrom` (non-nil arguments): `biasAndClamp[result0 & 1023]` -/
def inverseDCT (src : Array Int) : Array Nat :=
  (Array.range 64).map (fun i => biasAndClamp.getD ((idctRaw src i) % 1024).toNat 0)

end WuffsVerif.Jpeg.Dct
