/-
Reference decoder for single-scan baseline sequential JPEG (no restart markers),
written from ITU-T T.81 — NOT from /repo/lib/lowleveljpeg.  It shares nothing with
`Model/Jpeg/Encoder.lean` or the generated tables: the Huffman codes are derived
from the DHT segments found in the file (Annex C), the zig-zag order is computed
(Figure A.6), the entropy decoder follows F.2.2 (DECODE / RECEIVE / EXTEND, DC
prediction, RRRR/SSSS runs, ZRL, EOB) and B.1.1.5 byte stuffing.

`decode bytes = some d`: `bytes` is exactly one well-formed image, SOI … EOI with
nothing after EOI; `d` holds the frame header, the quantisation tables (natural
order) and the *quantised* coefficient blocks in coding order (natural order
inside a block, DC prediction undone, no dequantisation).  Core Lean only.
-/
namespace WuffsVerif.Jpeg.Spec

/-! ### Huffman tables (T.81 Annex C, F.2.2.3) -/

/-- Figure C.1 `Generate_size_table`: HUFFSIZE from BITS[1..16] -/
def huffSize : List Nat → Nat → List Nat
  | [], _ => []
  | n :: rest, len => List.replicate n len ++ huffSize rest (len + 1)

/-- Figure C.2 `Generate_code_table`: HUFFCODE from HUFFSIZE.  `code` is the next
    code at length `si`. -/
def huffCode : List Nat → Nat → Nat → List Nat
  | [], _, _ => []
  | s :: rest, code, si =>
    let code := code * 2 ^ (s - si)
    code :: huffCode rest (code + 1) s

/-- one code table entry: code length, code word, symbol value -/
structure Entry where
  len : Nat
  code : Nat
  val : Nat
deriving DecidableEq, Repr

/-- the code table of a DHT table specification (BITS, HUFFVAL) -/
def mkTable (bits vals : List Nat) : List Entry :=
  let sizes := huffSize bits 1
  let codes := huffCode sizes 0 0
  List.zipWith (fun (sc : Nat × Nat) v => ⟨sc.1, sc.2, v⟩) (List.zip sizes codes) vals

def lookup (tbl : List Entry) (len code : Nat) : Option Nat :=
  (tbl.find? (fun t => t.len == len && t.code == code)).map (·.val)

/-- F.2.2.3 DECODE: read bits until the code read so far is in the table (≤ 16 bits). -/
def decodeSym (tbl : List Entry) : Nat → Nat → Nat → List Bool → Option (Nat × List Bool)
  | 0, _, _, _ => none
  | _ + 1, _, _, [] => none
  | fuel + 1, len, code, b :: rest =>
    let code := 2 * code + b.toNat
    match lookup tbl (len + 1) code with
    | some v => some (v, rest)
    | none => decodeSym tbl fuel (len + 1) code rest

def decode16 (tbl : List Entry) (bits : List Bool) : Option (Nat × List Bool) :=
  decodeSym tbl 16 0 0 bits

/-- F.2.2.4 RECEIVE: the next `n` bits, most significant first -/
def receive : Nat → Nat → List Bool → Option (Nat × List Bool)
  | 0, acc, bits => some (acc, bits)
  | _ + 1, _, [] => none
  | n + 1, acc, b :: rest => receive n (2 * acc + b.toNat) rest

/-- F.2.2.1 EXTEND (Figure F.12) -/
def extend (v t : Nat) : Int :=
  if t = 0 then 0 else if v < 2 ^ (t - 1) then (v : Int) - (2 ^ t : Nat) + 1 else v

/-! ### One block (F.2.2.1, F.2.2.2) -/

/-- F.2.2.2 Figure F.13: the AC coefficients ZZ(k) … ZZ(63). -/
def decodeAC (tbl : List Entry) : Nat → Nat → List Bool → Option (List Int × List Bool)
  | 0, _, _ => none
  | fuel + 1, k, bits =>
    match decode16 tbl bits with
    | none => none
    | some (rs, bits) =>
      let ssss := rs % 16
      let r := rs / 16
      if ssss = 0 then
        if r = 15 then
          if k + 16 ≤ 63 then
            match decodeAC tbl fuel (k + 16) bits with
            | none => none
            | some (zs, bits) => some (List.replicate 16 0 ++ zs, bits)
          else none
        else if r = 0 then some (List.replicate (64 - k) 0, bits)   -- EOB
        else none                                                  -- undefined in baseline
      else if ssss > 10 then none                                  -- Table F.2: SSSS ≤ 10
      else if k + r > 63 then none
      else
        match receive ssss 0 bits with
        | none => none
        | some (v, bits) =>
          let c := extend v ssss
          if k + r = 63 then some (List.replicate r 0 ++ [c], bits)
          else
            match decodeAC tbl fuel (k + r + 1) bits with
            | none => none
            | some (zs, bits) => some (List.replicate r 0 ++ c :: zs, bits)

/-- one 8×8 block: DC difference (F.2.2.1) + 63 AC; returns ZZ(0..63) with the
    prediction undone -/
def decodeBlock (dcTbl acTbl : List Entry) (pred : Int) (bits : List Bool) :
    Option (List Int × List Bool) :=
  match decode16 dcTbl bits with
  | none => none
  | some (t, bits) =>
    if t > 11 then none else                                       -- Table F.1: SSSS ≤ 11
    match receive t 0 bits with
    | none => none
    | some (v, bits) =>
      let dc := pred + extend v t
      match decodeAC acTbl 64 1 bits with
      | none => none
      | some (acs, bits) => some (dc :: acs, bits)

/-! ### Zig-zag (Figure A.6), computed -/

/-- natural index `8*row + col` of the z-th coefficient in zig-zag order -/
def zigzagSeq : List Nat :=
  (List.range 15).flatMap (fun d =>
    let cells := ((List.range 8).filter (fun r => r ≤ d && d - r < 8)).map (fun r => 8 * r + (d - r))
    if d % 2 = 1 then cells else cells.reverse)

/-- from zig-zag order to natural order -/
def dezigzag {α : Type} (dflt : α) (zs : List α) : List α :=
  (List.range 64).map (fun i => zs.getD (zigzagSeq.idxOf i) dflt)

/-! ### Marker segments (Annex B) -/

structure Component where
  id : Nat
  h : Nat
  v : Nat
  tq : Nat
deriving DecidableEq, Repr

structure Frame where
  height : Nat
  width : Nat
  comps : List Component
deriving DecidableEq, Repr

/-- tables installed so far: 4 quantisation slots, 4 DC and 4 AC Huffman slots -/
structure Tables where
  q : List (Option (List Nat)) := [none, none, none, none]
  dc : List (Option (List Entry)) := [none, none, none, none]
  ac : List (Option (List Entry)) := [none, none, none, none]

/-- B.2.4.1 DQT payload: a sequence of (Pq/Tq, 64 × Qk in zig-zag order); Pq must be 0 (baseline) -/
def parseDQT : Nat → List Nat → Tables → Option Tables
  | 0, _, _ => none
  | _ + 1, [], t => some t
  | fuel + 1, pqtq :: rest, t =>
    if pqtq / 16 ≠ 0 || pqtq % 16 > 3 || rest.length < 64 then none
    else
      let tbl := dezigzag 0 (rest.take 64)
      parseDQT fuel (rest.drop 64) { t with q := t.q.set (pqtq % 16) (some tbl) }

/-- B.2.4.2 DHT payload: a sequence of (Tc/Th, BITS[1..16], HUFFVAL) -/
def parseDHT : Nat → List Nat → Tables → Option Tables
  | 0, _, _ => none
  | _ + 1, [], t => some t
  | fuel + 1, tcth :: rest, t =>
    let tc := tcth / 16
    let th := tcth % 16
    if tc > 1 || th > 1 || rest.length < 16 then none            -- baseline: Th ∈ {0,1}
    else
      let bits := rest.take 16
      let n := bits.sum
      let rest := rest.drop 16
      if rest.length < n || n > 256 then none
      else
        let tbl := mkTable bits (rest.take n)
        let t := if tc = 0 then { t with dc := t.dc.set th (some tbl) }
                 else { t with ac := t.ac.set th (some tbl) }
        parseDHT fuel (rest.drop n) t

def parseComps : Nat → List Nat → Option (List Component)
  | 0, [] => some []
  | n + 1, c :: hv :: tq :: rest =>
    if hv / 16 = 0 || hv / 16 > 4 || hv % 16 = 0 || hv % 16 > 4 || tq > 3 then none
    else (parseComps n rest).map (fun cs => ⟨c, hv / 16, hv % 16, tq⟩ :: cs)
  | _, _ => none

/-- B.2.2 frame header payload (SOF0: P = 8) -/
def parseSOF0 : List Nat → Option Frame
  | p :: yh :: yl :: xh :: xl :: nf :: rest =>
    let y := 256 * yh + yl
    let x := 256 * xh + xl
    if p ≠ 8 || y = 0 || x = 0 || nf = 0 || nf > 4 then none
    else (parseComps nf rest).map (fun cs => ⟨y, x, cs⟩)
  | _ => none

/-- B.2.3 scan header payload: the components must be the frame's, in order; returns
    (Td, Ta) per component; Ss = 0, Se = 63, Ah = Al = 0 -/
def parseScanComps : List Component → List Nat → Option (List (Nat × Nat) × List Nat)
  | [], rest => some ([], rest)
  | c :: cs, csj :: tdta :: rest =>
    if csj ≠ c.id || tdta / 16 > 1 || tdta % 16 > 1 then none
    else (parseScanComps cs rest).map (fun (l, r) => ((tdta / 16, tdta % 16) :: l, r))
  | _, _ => none

def parseSOS (f : Frame) : List Nat → Option (List (Nat × Nat))
  | ns :: rest =>
    if ns ≠ f.comps.length then none
    else match parseScanComps f.comps rest with
      | some (sel, [0, 63, 0]) => some sel
      | _ => none
  | [] => none

/-! ### Entropy-coded segment (B.1.1.5, F.2.2.5) -/

/-- split at the first marker (0xFF followed by a non-zero byte), undoing X'FF00' stuffing -/
def splitECS : List Nat → List Nat × List Nat
  | [] => ([], [])
  | [b] => if b = 0xFF then ([], [b]) else ([b], [])
  | b :: c :: rest =>
    if b = 0xFF then
      if c = 0 then
        let (d, r) := splitECS rest
        (0xFF :: d, r)
      else ([], b :: c :: rest)
    else
      let (d, r) := splitECS (c :: rest)
      (b :: d, r)

/-- the 8 bits of a byte, most significant first -/
def byteBits (b : Nat) : List Bool :=
  [b / 128 % 2 = 1, b / 64 % 2 = 1, b / 32 % 2 = 1, b / 16 % 2 = 1,
   b / 8 % 2 = 1, b / 4 % 2 = 1, b / 2 % 2 = 1, b % 2 = 1]

def bytesBits (bs : List Nat) : List Bool := bs.flatMap byteBits

/-- one entry of the MCU plan: component index, its DC table, its AC table -/
structure PlanEntry where
  comp : Nat
  dcTbl : List Entry
  acTbl : List Entry

/-- A.2.3: the blocks of one MCU, in order; `preds` are the DC predictors per component -/
def decodeMCU : List PlanEntry → List Int → List Bool → Option (List (List Int) × List Int × List Bool)
  | [], preds, bits => some ([], preds, bits)
  | p :: ps, preds, bits =>
    match decodeBlock p.dcTbl p.acTbl (preds.getD p.comp 0) bits with
    | none => none
    | some (zz, bits) =>
      match decodeMCU ps (preds.set p.comp (zz.headD 0)) bits with
      | none => none
      | some (bs, preds, bits) => some (dezigzag 0 zz :: bs, preds, bits)

def decodeMCUs (plan : List PlanEntry) : Nat → List Int → List Bool → Option (List (List Int) × List Bool)
  | 0, _, bits => some ([], bits)
  | n + 1, preds, bits =>
    match decodeMCU plan preds bits with
    | none => none
    | some (bs, preds, bits) =>
      match decodeMCUs plan n preds bits with
      | none => none
      | some (bs', bits) => some (bs ++ bs', bits)

def ceilDiv (a b : Nat) : Nat := (a + b - 1) / b

/-- A.2.3 / A.2.2: number of MCUs of the (single) scan -/
def numMCUs (f : Frame) : Nat :=
  let hmax := (f.comps.map (·.h)).foldl max 0
  let vmax := (f.comps.map (·.v)).foldl max 0
  match f.comps with
  | [c] =>  -- non-interleaved: one data unit per MCU
    ceilDiv (ceilDiv (f.width * c.h) hmax) 8 * ceilDiv (ceilDiv (f.height * c.v) vmax) 8
  | _ => ceilDiv f.width (8 * hmax) * ceilDiv f.height (8 * vmax)

def mkPlan (t : Tables) : Bool → Nat → List Component → List (Nat × Nat) → Option (List PlanEntry)
  | _, _, [], [] => some []
  | single, i, c :: cs, (td, ta) :: sel =>
    match t.dc.getD td none, t.ac.getD ta none, mkPlan t single (i + 1) cs sel with
    | some d, some a, some rest =>
      some (List.replicate (if single then 1 else c.h * c.v) ⟨i, d, a⟩ ++ rest)
    | _, _, _ => none
  | _, _, _, _ => none

/-! ### The whole image -/

structure Decoded where
  width : Nat
  height : Nat
  comps : List Component
  /-- the quantisation table (natural order) of each component, in component order -/
  qtabs : List (List Nat)
  /-- quantised coefficients, natural order, coding order -/
  blocks : List (List Int)
deriving DecidableEq, Repr

/-- the scan: entropy-coded data, ≤ 7 padding 1-bits, EOI, end of input -/
def decodeScan (t : Tables) (f : Frame) (sel : List (Nat × Nat)) (rest : List Nat) : Option Decoded :=
  match mkPlan t (f.comps.length == 1) 0 f.comps sel with
  | none => none
  | some plan =>
    if (plan.length > 10) then none else                           -- B.2.3: Σ Hj·Vj ≤ 10
    match f.comps.mapM (fun c => t.q.getD c.tq none) with
    | none => none
    | some qtabs =>
      let (ecs, tail) := splitECS rest
      match decodeMCUs plan (numMCUs f) (List.replicate f.comps.length 0) (bytesBits ecs) with
      | none => none
      | some (blocks, pad) =>
        if pad.length < 8 && pad.all id && tail == [0xFF, 0xD9] then
          some ⟨f.width, f.height, f.comps, qtabs, blocks⟩
        else none

/-- marker segments after SOI up to SOS (B.2.1): `FF m Lh Ll payload…` -/
def parseSegments : Nat → List Nat → Tables → Option Frame → Option Decoded
  | 0, _, _, _ => none
  | fuel + 1, ff :: m :: lh :: ll :: rest, t, fr =>
    let len := 256 * lh + ll
    if ff ≠ 0xFF || len < 2 || rest.length < len - 2 then none
    else
      let payload := rest.take (len - 2)
      let rest := rest.drop (len - 2)
      if m = 0xDB then
        match parseDQT 5 payload t with
        | some t => parseSegments fuel rest t fr
        | none => none
      else if m = 0xC4 then
        match parseDHT 5 payload t with
        | some t => parseSegments fuel rest t fr
        | none => none
      else if m = 0xC0 then
        match fr, parseSOF0 payload with
        | none, some f => parseSegments fuel rest t (some f)
        | _, _ => none
      else if m = 0xDA then
        match fr with
        | none => none
        | some f =>
          match parseSOS f payload with
          | none => none
          | some sel => decodeScan t f sel rest
      else if (0xE0 ≤ m && m ≤ 0xEF) || m = 0xFE then parseSegments fuel rest t fr   -- APPn, COM
      else none
  | _, _, _, _ => none

/-- a complete baseline JPEG image -/
def decode (bytes : List Nat) : Option Decoded :=
  match bytes with
  | 0xFF :: 0xD8 :: rest => parseSegments rest.length rest {} none
  | _ => none

end WuffsVerif.Jpeg.Spec
