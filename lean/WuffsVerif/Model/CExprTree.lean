/-
C04 — whole expression trees.  Model/CExpr.lean lowers ONE operator node
(`lowerBin`, `lowerAs`: the operator / cast decisions of writeExprBinaryOp and
writeExprAs with the operands as holes); this file adds the recursion of
internal/cgen/expr.go `writeExpr`: a node with a ConstValue is written as the
literal `<v>u`, a variable as its name, a binary node as the operator template
with the C text of its operands substituted, `e as T` as a cast of the C text
of `e` — after dropping a `& redundantMask` (writeExprAs).

`WNum` are the numeric, `WBool` the boolean expressions of the unsigned scalar
fragment (binary operators only: an unparenthesised `a + b + c` is an
associative node, see `lowerAssoc`).  `wevalN` / `wevalB` give their meaning as
Model/WSem.lean evalExpr does (ideal integers; every operand and every result
is checked against the type of its node — otherwise the program "should not
have been accepted": `none`).  Core Lean only.
-/
import WuffsVerif.Model.CExpr

namespace WuffsVerif.C
open WuffsVerif.WOps WuffsVerif.Gen.C04

/-- put the C text of the operands into an operator template (holes 0 and 1) -/
def CExpr.subst2 (cl cr : CExpr) : CExpr → CExpr
  | .hole i => if i = 0 then cl else if i = 1 then cr else .hole i
  | .lit v => .lit v
  | .cast t e => .cast t (CExpr.subst2 cl cr e)
  | .bin op a b => .bin op (CExpr.subst2 cl cr a) (CExpr.subst2 cl cr b)
  | .un op e => .un op (CExpr.subst2 cl cr e)
  | .satAdd t a b => .satAdd t (CExpr.subst2 cl cr a) (CExpr.subst2 cl cr b)
  | .satSub t a b => .satSub t (CExpr.subst2 cl cr a) (CExpr.subst2 cl cr b)

/-- every hole of the expression is below `k` -/
def CExpr.holesBelow (k : Nat) : CExpr → Bool
  | .hole i => i < k
  | .lit _ => true
  | .cast _ e => e.holesBelow k
  | .bin _ a b => a.holesBelow k && b.holesBelow k
  | .un _ e => e.holesBelow k
  | .satAdd _ a b => a.holesBelow k && b.holesBelow k
  | .satSub _ a b => a.holesBelow k && b.holesBelow k

def isShiftOp (op : WOp) : Bool := op == .shl || op == .shr || op == .modShl

/-- numeric expressions -/
inductive WNum where
  /-- variable / argument / field number `i`, of unsigned type `t`: written by its C name, of type `cTypeNames[t]` -/
  | var (i : Nat) (t : WTy)
  /-- a node with ConstValue `v`: written `<v>u` -/
  | const (v : Nat)
  /-- `l op r`, an arithmetic operator at node type `t` -/
  | bin (op : WOp) (t : WTy) (l r : WNum)
  /-- `e as base.<to>` -/
  | as (to : WTy) (e : WNum)
  deriving Repr, Inhabited

def WNum.isConst : WNum → Bool
  | .const _ => true
  | _ => false

/-- the type of a node without ConstValue (a constant takes the type of its context) -/
def WNum.ty? : WNum → Option WTy
  | .var _ t => some t
  | .const _ => none
  | .bin _ t _ _ => some t
  | .as to _ => some to

/-- what the type checker establishes: arithmetic operators only, operands of
the node's type (the right operand of a shift may have another unsigned type),
and no node both of whose operands are constants (it would have a ConstValue
itself and be written as a literal) -/
def WNum.ok : WNum → Bool
  | .var _ _ => true
  | .const v => decide (v < 2 ^ 64)
  | .bin op t l r =>
    !(op.isComparison || op.isLogical) && !(l.isConst && r.isConst) &&
      (l.isConst || l.ty? == some t) && (r.isConst || isShiftOp op || r.ty? == some t) && l.ok && r.ok
  | .as _ e => e.ok

/-- a typed store: variable `i` holds a value of an unsigned type -/
abbrev Store := Nat → Option (WTy × Int)

/-- the same store as C sees it: `uintN_t` objects -/
def Store.toC (S : Store) : Nat → Option CVal := fun i => (S i).map (fun p => ⟨ctyOf p.1, p.2⟩)

/-- meaning of a numeric expression (Model/WSem.lean evalExpr) -/
def wevalN (S : Store) : WNum → Option Int
  | .var i t =>
    match S i with
    | some (t', v) => if t' = t ∧ t.has v then some v else none
    | none => none
  | .const v => some v
  | .bin op t l r =>
    match wevalN S l, wevalN S r with
    | some a, some b =>
      if t.has a ∧ 0 ≤ b ∧ (isShiftOp op = true ∨ t.has b) then
        (wmeaning op t a b).bind (fun v => if t.has v then some v else none)
      else none
    | _, _ => none
  | .as to e => (wevalN S e).bind (wAs to)

/-- writeExprAs: `(x & redundantMask) as T` / `(redundantMask & x) as T` is
written as a cast of `x` alone — the mask is dropped -/
def stripMask (to : WTy) : WNum → WNum
  | .bin .band t x (.const m) =>
    if redundantMask to == some m then x else .bin .band t x (.const m)
  | .bin .band t (.const m) x =>
    if redundantMask to == some m then x else .bin .band t (.const m) x
  | e => e

theorem sizeOf_stripMask (to : WTy) (e : WNum) : sizeOf (stripMask to e) ≤ sizeOf e := by
  unfold stripMask
  split
  · split
    · simp only [WNum.bin.sizeOf_spec]; omega
    · exact Nat.le_refl _
  · split
    · simp only [WNum.bin.sizeOf_spec]; omega
    · exact Nat.le_refl _
  · exact Nat.le_refl _

/-- writeExpr on a numeric expression -/
def lowerN : WNum → Option CExpr
  | .var i _ => some (.hole i)
  | .const v => some (.lit v)
  | .bin op t l r =>
    match lowerBin op t l.isConst r.isConst, lowerN l, lowerN r with
    | some e, some cl, some cr => some (CExpr.subst2 cl cr e)
    | _, _, _ => none
  | .as to e =>
    match cTypeOf to with
    | none => none
    | some ct => (lowerN (stripMask to e)).map (.cast ct)
termination_by e => sizeOf e
decreasing_by
  · simp only [WNum.bin.sizeOf_spec]; omega
  · simp only [WNum.bin.sizeOf_spec]; omega
  · have := sizeOf_stripMask to e
    simp only [WNum.as.sizeOf_spec]; omega

/-- boolean expressions: comparisons of numeric expressions, `and`, `or`, `not` -/
inductive WBool where
  | cmp (op : WOp) (t : WTy) (l r : WNum)
  | logic (op : WOp) (l r : WBool)
  | not (e : WBool)
  deriving Repr, Inhabited

def WBool.ok : WBool → Bool
  | .cmp op t l r =>
    op.isComparison && !(l.isConst && r.isConst) && (l.isConst || l.ty? == some t) &&
      (r.isConst || r.ty? == some t) && l.ok && r.ok
  | .logic op l r => op.isLogical && l.ok && r.ok
  | .not e => e.ok

def wevalB (S : Store) : WBool → Option Int
  | .cmp op t l r =>
    match wevalN S l, wevalN S r with
    | some a, some b => if t.has a ∧ t.has b then some (op.ideal t a b) else none
    | _, _ => none
  | .logic op l r =>
    match wevalB S l, wevalB S r with
    | some a, some b => some (op.ideal .u8 a b)
    | _, _ => none
  | .not e => (wevalB S e).map (fun a => b2i (a == 0))

def lowerB : WBool → Option CExpr
  | .cmp op t l r =>
    match lowerBin op t l.isConst r.isConst, lowerN l, lowerN r with
    | some e, some cl, some cr => some (CExpr.subst2 cl cr e)
    | _, _, _ => none
  | .logic op l r =>
    match lowerBin op .u8 false false, lowerB l, lowerB r with
    | some e, some cl, some cr => some (CExpr.subst2 cl cr e)
    | _, _, _ => none
  | .not e =>
    match lowerUn .lnot, lowerB e with
    | some u, some c => some (CExpr.subst2 c c u)
    | _, _ => none

end WuffsVerif.C
