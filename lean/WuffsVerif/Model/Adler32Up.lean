/-
C09 — model of the portable Adler-32 update loop `hasher.up` of
/repo/std/adler32/common_adler32.wuffs:

```
s1 = this.state.low_bits(n: 16);  s2 = this.state.high_bits(n: 16)
while args.x.length() > 0 {
    take the first CHUNK (= 5552) bytes of args.x (or all of it)
    iterate … { s1 ~mod+= p[0] as base.u32;  s2 ~mod+= s1 }      // u32, wrapping
    s1 %= 65521;  s2 %= 65521
}
this.state = ((s2 & 0xFFFF) << 16) | (s1 & 0xFFFF)
```
The SIMD twins (`up_x86_sse42`, `up_arm_neon`) have the same outer structure with CHUNK = 5536
and a vectorised inner loop (not modelled).  The u32 wrap-around is explicit (`% W`), so that the
theorem "no wrap can happen" has content.  Core Lean only.
-/
import WuffsVerif.Model.HashSpec

namespace WuffsVerif.Adler32Up
open WuffsVerif.HashSpec

/-- 2^32 -/
def W : Nat := 4294967296

/-- one iteration of the inner loop, u32 arithmetic -/
def innerStep (st : Nat × Nat) (b : UInt8) : Nat × Nat :=
  let s1 := (st.1 + b.toNat) % W
  (s1, (st.2 + s1) % W)

/-- one pass of the outer loop body over `chunk` -/
def upChunk (st : Nat × Nat) (chunk : List UInt8) : Nat × Nat :=
  let r := chunk.foldl innerStep st
  (r.1 % 65521, r.2 % 65521)

/-- the outer loop (fuel = an upper bound of the number of chunks, e.g. the length) -/
def up (c : Nat) : Nat → Nat × Nat → List UInt8 → Nat × Nat
  | 0, st, _ => st
  | f + 1, st, bs => if bs.isEmpty then st else up c f (upChunk st (bs.take c)) (bs.drop c)

/-- `update!`/`checksum_u32` on a fresh hasher: state starts as 1 (s1 = 1, s2 = 0) -/
def hash (c : Nat) (bs : List UInt8) : Nat :=
  let st := up c bs.length (1, 0) bs
  st.2 * 65536 + st.1

end WuffsVerif.Adler32Up
