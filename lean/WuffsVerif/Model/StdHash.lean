/-
C07 — executable models of the std hashers (core Lean only).

  * Adler-32   : /repo/std/adler32/common_adler32.wuffs   (hasher.update, hasher.up)
  * CRC-32     : /repo/std/crc32/common_crc32.wuffs       (ieee_hasher.update, ieee_hasher.up: slicing-by-16)
  * CRC-64     : /repo/std/crc64/common_crc64.wuffs       (ecma_hasher.update, ecma_hasher.up: slicing-by-8)
  * SHA-256    : /repo/std/sha256/common_sha256.wuffs     (hasher.update, hasher.up, hasher.checksum_bitvec256)

Each hasher has (a) a mathematical *specification* (`…Spec`), written from the
format's definition and not from the Wuffs code, and (b) a *mirror* of the Wuffs
control flow (`…Up`, `…Update`).  The magic numbers and the lookup tables of the
mirrors are NOT typed in here: they come from `Gen/C07_Tables.lean`, which the
harness regenerates from the .wuffs sources of the working tree on every run.

u32 / u64 values are `Nat` (Adler; `~mod+` = `% 2^32`) or `BitVec 32/64` (CRC),
SHA-256 words are `UInt32` (the compression function is opaque to the theorems).
-/
import WuffsVerif.Gen.C07_Tables

namespace WuffsVerif.StdHash
open WuffsVerif.Gen.C07

/-! ## Adler-32 -/

/-- One byte of the mathematical definition (RFC 1950 §8.2): both sums modulo 65521. -/
def adlerStep (ab : Nat × Nat) (b : UInt8) : Nat × Nat :=
  let a := (ab.1 + b.toNat) % 65521
  (a, (ab.2 + a) % 65521)

/-- The two sums after a byte string, starting from `ab`. -/
def adlerSpecFold (ab : Nat × Nat) (x : List UInt8) : Nat × Nat := x.foldl adlerStep ab

/-- `s2 * 65536 + s1` -/
def adlerSpecPack (ab : Nat × Nat) : Nat := ab.2 * 65536 + ab.1

/-- Adler-32 of a byte string (the specification). -/
def adler32Spec (x : List UInt8) : Nat := adlerSpecPack (adlerSpecFold (1, 0) x)

/-- u32 `~mod+` -/
@[inline] def add32 (a b : Nat) : Nat := (a + b) % 4294967296

/-- `iterate (p = args.x)(length: 1, …) { s1 ~mod+= p[0] as base.u32; s2 ~mod+= s1 }` -/
def adlerInner (s1 s2 : Nat) : List UInt8 → Nat × Nat
  | [] => (s1, s2)
  | b :: bs =>
    let s1' := add32 s1 b.toNat
    adlerInner s1' (add32 s2 s1') bs

/-- The `while args.x.length() > 0` loop of `hasher.up`; `chunk`/`modulus` are the
    regenerated 5552 / 65521. -/
def adlerChunks (chunk modulus : Nat) (s1 s2 : Nat) (x : List UInt8) : Nat × Nat :=
  if _h : x.length > 0 then
    let cur := if x.length > chunk then x.take chunk else x
    let remaining := if x.length > chunk then x.drop chunk else []
    let r := adlerInner s1 s2 cur
    if _hc : chunk = 0 then (r.1 % modulus, r.2 % modulus)  -- unreachable for the real constant; keeps the function total
    else adlerChunks chunk modulus (r.1 % modulus) (r.2 % modulus) remaining
  else (s1, s2)
termination_by x.length
decreasing_by
  all_goals simp_wf
  split
  · simp only [List.length_drop]; omega
  · simp only [List.length_nil]; omega

/-- `hasher.up`: unpack `this.state`, run the chunk loop, repack. -/
def adlerUp (state : Nat) (x : List UInt8) : Nat :=
  let s1 := state &&& 0xFFFF        -- this.state.low_bits(n: 16)
  let s2 := state >>> 16            -- this.state.high_bits(n: 16)
  let r := adlerChunks adlerChunkLen adlerModulus s1 s2 x
  ((r.2 &&& 0xFFFF) <<< 16) ||| (r.1 &&& 0xFFFF)

structure AdlerHasher where
  state : Nat := 0
  started : Bool := false
deriving Repr, DecidableEq

/-- `hasher.update!` -/
def AdlerHasher.update (h : AdlerHasher) (x : List UInt8) : AdlerHasher :=
  let st := if h.started then h.state else 1
  { state := adlerUp st x, started := true }

/-- `hasher.checksum_u32`: `if not this.started { return 1 }  return this.state` — a hasher that never
    received an `update!` call reports the Adler-32 of the empty string (fixes/C07-adler32-zero-updates.patch). -/
def AdlerHasher.checksum (h : AdlerHasher) : Nat := if h.started then h.state else 1

/-! ## CRC (reflected), generic in the width -/

/-- repeat `f` `n` times -/
def iter {α : Type} (f : α → α) : Nat → α → α
  | 0, a => a
  | n + 1, a => iter f n (f a)

/-- One bit of the reflected LFSR: shift right, xor the polynomial if a 1 fell out. -/
def bitStep {w : Nat} (P : BitVec w) (x : BitVec w) : BitVec w :=
  if x.getLsbD 0 then (x >>> 1) ^^^ P else x >>> 1

/-- Specification of one byte: xor it into the low bits, then 8 bit steps. -/
def crcSpecByte {w : Nat} (P : BitVec w) (s : BitVec w) (b : UInt8) : BitVec w :=
  iter (bitStep P) 8 (s ^^^ BitVec.ofNat w b.toNat)

def crcSpecFold {w : Nat} (P : BitVec w) (s : BitVec w) (x : List UInt8) : BitVec w :=
  x.foldl (crcSpecByte P) s

/-- The specification of a CRC hasher's state after more bytes: pre- and post-inverted. -/
def crcSpecUp {w : Nat} (P : BitVec w) (state : BitVec w) (x : List UInt8) : BitVec w :=
  ~~~ crcSpecFold P (~~~ state) x

def crc32Poly : BitVec 32 := 0xEDB88320#32
def crc64Poly : BitVec 64 := 0xC96C5795D7870F42#64

def crc32Spec (x : List UInt8) : BitVec 32 := crcSpecUp crc32Poly 0 x
def crc64Spec (x : List UInt8) : BitVec 64 := crcSpecUp crc64Poly 0 x

/-- table lookup `TABLE[k][i]` in a regenerated table (out of range: 0, never happens) -/
@[inline] def tbl {w : Nat} (t : Array (Array Nat)) (k : Nat) (i : Nat) : BitVec w :=
  BitVec.ofNat w ((t.getD k #[]).getD i 0)

/-- low byte `0xFF & (s >> sh)` as an index -/
@[inline] def byteAt {w : Nat} (s : BitVec w) (sh : Nat) : Nat := (s >>> sh).toNat % 256

/-- `s = TABLE[0][((s & 0xFF) as base.u8) ^ p[0]] ^ (s >> 8)` -/
def crcByteStep {w : Nat} (t : Array (Array Nat)) (s : BitVec w) (b : UInt8) : BitVec w :=
  tbl t 0 ((s.toNat % 256) ^^^ b.toNat) ^^^ (s >>> 8)

/-- the byte-at-a-time table algorithm (the `else` arm of the iterate loops) -/
def crcBytewise {w : Nat} (t : Array (Array Nat)) (s : BitVec w) (x : List UInt8) : BitVec w :=
  x.foldl (crcByteStep t) s

/-- One iteration of the slicing loop of `X_hasher.up`, driven by the index lists regenerated
    from the source: `load` = the `(i, sh)` of `s ^= ((p[i] as uN) << sh) | …`; `terms` = the
    big xor, `(k, 0, j)` for `TABLE[k][p[j]]` and `(k, 1, sh)` for `TABLE[k][0xFF & (s >> sh)]`. -/
def crcSliceStep {w : Nat} (t : Array (Array Nat)) (load : List (Nat × Nat)) (terms : List (Nat × Nat × Nat))
    (s : BitVec w) (p : List UInt8) : BitVec w :=
  let pb (i : Nat) : Nat := (p.getD i 0).toNat
  let s := s ^^^ load.foldl (fun acc ish => acc ||| (BitVec.ofNat w (pb ish.1) <<< ish.2)) 0
  terms.foldl (fun acc kj => acc ^^^ tbl t kj.1 (if kj.2.1 = 0 then pb kj.2.2 else byteAt s kj.2.2)) 0

/-- `iterate (p = args.x)(length: n, advance: n, …) { step } else (length: 1, …) { byte step }` -/
def crcSliced {w : Nat} (n : Nat) (step : BitVec w → List UInt8 → BitVec w)
    (t : Array (Array Nat)) (s : BitVec w) (x : List UInt8) : BitVec w :=
  if _h : n > 0 ∧ x.length ≥ n then
    crcSliced n step t (step s (x.take n)) (x.drop n)
  else crcBytewise t s x
termination_by x.length
decreasing_by simp only [List.length_drop]; omega

/-- `ieee_hasher.up` (and `update`: the `choose` only selects SIMD variants). -/
def crc32Up (state : BitVec 32) (x : List UInt8) : BitVec 32 :=
  let s := 0xFFFFFFFF#32 ^^^ state
  0xFFFFFFFF#32 ^^^ crcSliced 16 (crcSliceStep crc32Table crc32SliceLoad crc32SliceTerms) crc32Table s x

/-- `ecma_hasher.up` -/
def crc64Up (state : BitVec 64) (x : List UInt8) : BitVec 64 :=
  let s := 0xFFFFFFFFFFFFFFFF#64 ^^^ state
  0xFFFFFFFFFFFFFFFF#64 ^^^ crcSliced 8 (crcSliceStep crc64Table crc64SliceLoad crc64SliceTerms) crc64Table s x

/-! ## SHA-256 -/

abbrev Sha256H := Array UInt32   -- 8 words

def shaK : Array UInt32 := sha256K.map UInt32.ofNat
def shaInit : Sha256H := sha256InitialH.map UInt32.ofNat

@[inline] def rotr (x : UInt32) (n : UInt32) : UInt32 := (x >>> n) ||| (x <<< (32 - n))

/-- big-endian u32 at byte offset `4*i` of a 64-byte block -/
@[inline] def beWord (p : Array UInt8) (i : Nat) : UInt32 :=
  ((p.getD (4*i) 0).toUInt32 <<< 24) ||| ((p.getD (4*i+1) 0).toUInt32 <<< 16) |||
  ((p.getD (4*i+2) 0).toUInt32 <<< 8) ||| (p.getD (4*i+3) 0).toUInt32

/-- one iteration of `while i < 64 { w2 = w[i - 2] … w[i] = ((s1 ~mod+ w[i - 7]) ~mod+ s0) ~mod+ w[i - 16] }` -/
def shaSchedStep (w : Array UInt32) (i : Nat) : Array UInt32 :=
  let w2 := w.getD (i - 2) 0
  let s1 := (w2 >>> 10) ^^^ ((w2 <<< 15) ||| (w2 >>> 17)) ^^^ ((w2 <<< 13) ||| (w2 >>> 19))
  let w15 := w.getD (i - 15) 0
  let s0 := (w15 >>> 3) ^^^ ((w15 <<< 25) ||| (w15 >>> 7)) ^^^ ((w15 <<< 14) ||| (w15 >>> 18))
  w.setIfInBounds i (((s1 + w.getD (i - 7) 0) + s0) + w.getD (i - 16) 0)

/-- message schedule: `w[0x00] = (p[0] << 24) | …` for 16 words, then the `while i < 64` loop (i = 16..63) -/
def shaSchedule (p : Array UInt8) : Array UInt32 :=
  let w0 : Array UInt32 := ((List.range 64).map (fun i => if i < 16 then beWord p i else 0)).toArray
  (List.range' 16 48).foldl shaSchedStep w0

/-- the eight working variables a … h -/
structure ShaVars where
  a : UInt32
  b : UInt32
  c : UInt32
  d : UInt32
  e : UInt32
  f : UInt32
  g : UInt32
  h : UInt32
deriving DecidableEq, Repr

/-- one iteration of the second `while i < 64` loop of `hasher.up` -/
def shaRound (w : Array UInt32) (v : ShaVars) (i : Nat) : ShaVars :=
  let t1 := v.h
  let t1 := t1 + (((v.e <<< 26) ||| (v.e >>> 6)) ^^^ ((v.e <<< 21) ||| (v.e >>> 11)) ^^^ ((v.e <<< 7) ||| (v.e >>> 25)))
  let t1 := t1 + ((v.e &&& v.f) ^^^ ((0xFFFFFFFF ^^^ v.e) &&& v.g))
  let t1 := t1 + shaK.getD i 0
  let t1 := t1 + w.getD i 0
  let t2 := ((v.a <<< 30) ||| (v.a >>> 2)) ^^^ ((v.a <<< 19) ||| (v.a >>> 13)) ^^^ ((v.a <<< 10) ||| (v.a >>> 22))
  let t2 := t2 + ((v.a &&& v.b) ^^^ (v.a &&& v.c) ^^^ (v.b &&& v.c))
  { h := v.g, g := v.f, f := v.e, e := v.d + t1, d := v.c, c := v.b, b := v.a, a := t1 + t2 }

/-- The body of the 64-byte `iterate` arm of `hasher.up` (= the `while true` body of
    `checksum_bitvec256`): one application of the SHA-256 compression function. -/
def shaCompress (hh : Sha256H) (block : List UInt8) : Sha256H :=
  let w := shaSchedule block.toArray
  let v0 : ShaVars := { a := hh.getD 0 0, b := hh.getD 1 0, c := hh.getD 2 0, d := hh.getD 3 0,
                        e := hh.getD 4 0, f := hh.getD 5 0, g := hh.getD 6 0, h := hh.getD 7 0 }
  let v := (List.range 64).foldl (shaRound w) v0
  #[v.a + hh.getD 0 0, v.b + hh.getD 1 0, v.c + hh.getD 2 0, v.d + hh.getD 3 0,
    v.e + hh.getD 4 0, v.f + hh.getD 5 0, v.g + hh.getD 6 0, v.h + hh.getD 7 0]

/-- The hasher struct.  `bufData` always has 64 entries in reachable states. -/
structure ShaHasher where
  lengthModuloU64 : Nat := 0
  lengthOverflowsU64 : Bool := false
  bufLen : Nat := 0
  bufData : List UInt8 := List.replicate 64 0
  h : Sha256H := Array.replicate 8 0
deriving Repr, DecidableEq

/-- `l` with `l[i..i+v.length)` overwritten by `v` (positions past the end are dropped) -/
def writeAt (l : List UInt8) (i : Nat) (v : List UInt8) : List UInt8 :=
  l.take i ++ (v ++ l.drop (i + v.length)) |>.take l.length

/-- `hasher.up`: whole 64-byte blocks are compressed, the tail is copied to
    `buf_data[0 ..]`; `this.buf_len = args.x.length() & 63`. -/
def shaUpBlocks (hh : Sha256H) (x : List UInt8) : Sha256H × List UInt8 :=
  if _h : x.length ≥ 64 then shaUpBlocks (shaCompress hh (x.take 64)) (x.drop 64)
  else (hh, x)
termination_by x.length
decreasing_by simp only [List.length_drop]; omega

def ShaHasher.up (s : ShaHasher) (x : List UInt8) : ShaHasher :=
  let r := shaUpBlocks s.h x
  { s with h := r.1, bufData := writeAt s.bufData 0 r.2, bufLen := x.length % 64 }

/-- `hasher.update!` -/
def ShaHasher.update (s : ShaHasher) (x : List UInt8) : ShaHasher :=
  let s := if s.lengthModuloU64 == 0 && !s.lengthOverflowsU64 then { s with h := shaInit } else s
  let newLmu := (s.lengthModuloU64 + x.length) % 18446744073709551616
  let s := { s with lengthOverflowsU64 := decide (newLmu < s.lengthModuloU64) || s.lengthOverflowsU64,
                    lengthModuloU64 := newLmu }
  if s.bufLen != 0 then
    -- `while this.buf_len < 64 { if args.x.length() <= 0 { return } … }`
    let need := 64 - s.bufLen
    if x.length < need then
      { s with bufData := writeAt s.bufData s.bufLen x, bufLen := s.bufLen + x.length }
    else
      let s := { s with bufData := writeAt s.bufData s.bufLen (x.take need), bufLen := 0 }
      let s := s.up s.bufData
      s.up (x.drop need)
  else
    s.up x

def be64 (v : Nat) : List UInt8 :=
  [56, 48, 40, 32, 24, 16, 8, 0].map (fun sh => UInt8.ofNat ((v >>> sh) % 256))

def shaDigestBytes (hh : Sha256H) : List UInt8 :=
  hh.toList.flatMap (fun (w : UInt32) => [(w >>> 24).toUInt8, (w >>> 16).toUInt8, (w >>> 8).toUInt8, w.toUInt8])

/-- The chaining value `checksum_bitvec256` starts from: `if (this.length_modulo_u64 == 0) and not
    this.length_overflows_u64 { h0 = INITIAL_SHA256_H[0] … } else { h0 = this.h0 … }` — as long as no byte was
    absorbed (in particular with no `update!` call at all, when `this.h0 ..= this.h7` are still zero) the digest
    starts from the initial hash value (fixes/C07-sha256-zero-updates.patch). -/
def ShaHasher.startH (s : ShaHasher) : Sha256H :=
  if s.lengthModuloU64 == 0 && !s.lengthOverflowsU64 then shaInit else s.h

/-- `hasher.checksum_bitvec256`, as the 32 digest bytes (a‖b‖…‖h big-endian). -/
def ShaHasher.checksum (s : ShaHasher) : List UInt8 :=
  let bufLen := s.bufLen % 64
  let data := s.bufData.take bufLen
  let lengthInBits := (s.lengthModuloU64 * 8) % 18446744073709551616
  if bufLen < 56 then
    let blk := data ++ [0x80] ++ List.replicate (55 - bufLen) 0 ++ be64 lengthInBits
    shaDigestBytes (shaCompress s.startH blk)
  else
    let blk1 := data ++ [0x80] ++ List.replicate (63 - bufLen) 0
    let blk2 := List.replicate 56 0 ++ be64 lengthInBits
    shaDigestBytes (shaCompress (shaCompress s.startH blk1) blk2)

/-- FIPS 180-4 §5.1.1 padding of a whole message. -/
def shaPad (msg : List UInt8) : List UInt8 :=
  let l := msg.length
  let k := (119 - l % 64) % 64     -- zero bytes so that l + 1 + k ≡ 56 (mod 64)
  msg ++ [0x80] ++ List.replicate k 0 ++ be64 ((l * 8) % 18446744073709551616)

/-- FIPS 180-4 §6.2.2: fold the compression function over the padded message. -/
def sha256Spec (msg : List UInt8) : List UInt8 :=
  let r := shaUpBlocks shaInit (shaPad msg)
  shaDigestBytes r.1

end WuffsVerif.StdHash
