/-
C08 — the I/O buffer contract of generated code.  Core Lean only.

`wuffs_base__io_buffer` (base/io-public.h) and the derived pointer variables `io0_ io1_ iop_ io2_`
that wuffs-c keeps per io argument (internal/cgen/var.go), as offsets from `data.ptr`:

* `load`       — `writeInitialLoadDerivedVar`  (function entry)
* `finalSave`  — `writeFinalSaveDerivedVar`    (before every `return`, i.e. at `exit:`)
* `Instr`/`exec` — the index movement of the built-in reader/writer methods
  (internal/cgen/builtin.go `writeBuiltinIO*`, base/io-private.h) and the `io_limit` block
  (statement.go `writeStatementIOManip`, base/io-private.h `…__io_reader__limit`): a body is a flat
  instruction list, the saved `o_N_io2_…`/`o_N_closed_…` locals are a stack, and *leaving the function
  at any point* is "run a prefix, then `finalSave`". Since fixes/C08-check-io-block-escapes.patch
  lang/check rejects `return`, `yield`, a `break`/`continue` to an enclosing loop and a suspending or
  failing coroutine call (one not written `status =? …`) inside an `io_bind` / `io_forget_history` /
  `io_limit` body, so generated code only leaves a function BETWEEN blocks: the exit points of accepted
  programs are the prefixes in which every opened block is closed. The invariant theorems are stated
  for all prefixes (more than is needed); the prefixes that end inside a block describe what the
  checker's rule prevents (the restore code of the enclosing blocks would be skipped).
* `forgetBegin/forgetEnd`, `bindBegin/bindEnd` — the save/restore of `io_forget_history` and
  `io_bind` (statement.go), as separate functions (not part of the prefix machine).
-/
namespace WuffsVerif.IOBuf

/-- `wuffs_base__io_buffer`: `mem` is the memory behind `data.ptr` (at least `len` bytes). -/
structure Buf where
  mem : List UInt8
  len : Nat
  ri : Nat
  wi : Nat
  pos : Nat
  closed : Bool
  /-- `data.ptr != NULL` -/
  hasPtr : Bool
  deriving Repr, DecidableEq, Inhabited

/-- `wuffs_base__io_buffer__is_valid`, plus "the slice lies inside its allocation". -/
def Buf.valid (b : Buf) : Prop :=
  b.ri ≤ b.wi ∧ b.wi ≤ b.len ∧ b.len ≤ b.mem.length ∧ (b.hasPtr = false → b.len = 0)

instance (b : Buf) : Decidable b.valid := by unfold Buf.valid; infer_instance

/-- Function-local state for one io argument: role, the caller's buffer, the four derived pointers
(offsets from `data.ptr`; all 0 when `data.ptr` is NULL) and the saved `(io2, closed)` of the open
`io_limit` blocks, innermost first. -/
structure St where
  w : Bool
  b : Buf
  io0 : Nat
  io1 : Nat
  iop : Nat
  io2 : Nat
  stack : List (Nat × Bool)
  deriving Repr, DecidableEq, Inhabited

/-- `writeInitialLoadDerivedVar`: reader `io1 = iop = ri, io2 = wi`; writer `io1 = iop = wi,
io2 = len`, and `io2 = iop` if the writer is closed; nothing (NULL pointers) without `data.ptr`. -/
def load (w : Bool) (b : Buf) : St :=
  if !b.hasPtr then { w := w, b := b, io0 := 0, io1 := 0, iop := 0, io2 := 0, stack := [] }
  else if w then
    { w := true, b := b, io0 := 0, io1 := b.wi, iop := b.wi,
      io2 := if b.closed then b.wi else b.len, stack := [] }
  else
    { w := false, b := b, io0 := 0, io1 := b.ri, iop := b.ri, io2 := b.wi, stack := [] }

/-- `writeFinalSaveDerivedVar`: `meta.ri` (reader) or `meta.wi` (writer) `= iop - data.ptr`. -/
def finalSave (s : St) : Buf :=
  if !s.b.hasPtr then s.b
  else if s.w then { s.b with wi := s.iop } else { s.b with ri := s.iop }

/-- Store `bs` at offset `p` (`*iop++ = …`, `memcpy(iop, …)`). -/
def storeAt : List UInt8 → Nat → List UInt8 → List UInt8
  | mem, _, [] => mem
  | mem, p, x :: xs => storeAt (mem.set p x) (p + 1) xs

/-- The byte-by-byte forward copy of `…limited_copy_u32_from_history` (`*p++ = *q++`). -/
def copyLoop : List UInt8 → Nat → Nat → Nat → List UInt8
  | mem, _, _, 0 => mem
  | mem, p, q, n + 1 => copyLoop (mem.set p (mem.getD q 0)) (p + 1) (q + 1) n

inductive Instr where
  /-- all-or-nothing advance of a reader: `read_uN?`, `skip_u32_fast!` (`iop += n` when `n ≤ io2 - iop`,
  otherwise `$short read` without movement) -/
  | rd (n : Nat)
  /-- `skip?`/`skip_u32?`: advance by `min n (io2 - iop)` -/
  | skip (n : Nat)
  /-- `if can_undo_byte() { undo_byte!() }`: `iop--` when `iop > io1` -/
  | undo
  /-- all-or-nothing store by a writer: `write_uN?` (`$short write` without movement otherwise) -/
  | wr (bs : List UInt8)
  /-- `copy_from_slice!`: stores the first `min |bs| (io2 - iop)` bytes -/
  | wrPartial (bs : List UInt8)
  /-- `limited_copy_u32_from_history!(up_to, distance)` -/
  | copyHist (n dist : Nat)
  /-- entry of `io_limit (io: x, limit: lim) {` -/
  | limitBegin (lim : Nat)
  /-- `}` of an `io_limit` block -/
  | limitEnd
  deriving Repr, DecidableEq, Inhabited

/-- One instruction. Instructions of the other role do nothing (they do not type-check in Wuffs). -/
def exec (s : St) : Instr → St
  | .rd n => if !s.w && n ≤ s.io2 - s.iop then { s with iop := s.iop + n } else s
  | .skip n => if !s.w then { s with iop := s.iop + min n (s.io2 - s.iop) } else s
  | .undo => if s.iop > s.io1 then { s with iop := s.iop - 1 } else s
  | .wr bs =>
    if s.w && bs.length ≤ s.io2 - s.iop then
      { s with b := { s.b with mem := storeAt s.b.mem s.iop bs }, iop := s.iop + bs.length }
    else s
  | .wrPartial bs =>
    if s.w then
      let n := min bs.length (s.io2 - s.iop)
      { s with b := { s.b with mem := storeAt s.b.mem s.iop (bs.take n) }, iop := s.iop + n }
    else s
  | .copyHist n dist =>
    if s.w && dist ≠ 0 && dist ≤ s.iop - s.io0 then
      let k := min n (s.io2 - s.iop)
      { s with b := { s.b with mem := copyLoop s.b.mem s.iop (s.iop - dist) k }, iop := s.iop + k }
    else s
  | .limitBegin lim =>
    -- `wuffs_private_impl__io_reader__limit(&io2, iop, lim)` then `if (a_x) { n = io2 - data.ptr; … }`
    let io2' := if s.io2 - s.iop > lim then s.iop + lim else s.io2
    let b' := if s.w then { s.b with len := io2' }
      else { s.b with closed := s.b.closed && decide (s.b.wi ≤ io2'), wi := io2' }
    { s with b := b', io2 := io2', stack := (s.io2, s.b.closed) :: s.stack }
  | .limitEnd =>
    match s.stack with
    | [] => s
    | (sio2, sclosed) :: rest =>
      let b' := if s.w then { s.b with len := sio2 } else { s.b with closed := sclosed, wi := sio2 }
      { s with b := b', io2 := sio2, stack := rest }

def runI (s : St) (is : List Instr) : St := is.foldl exec s

/-- A whole call as the caller sees it: load, run (a prefix of) the body, save. -/
def callIO (w : Bool) (b : Buf) (is : List Instr) : Buf := finalSave (runI (load w b) is)

/-- Instruction lists in which every `limitBegin` has its `limitEnd` (complete blocks). -/
inductive Balanced : List Instr → Prop where
  | nil : Balanced []
  | simple (i : Instr) (rest : List Instr) (h1 : ∀ l, i ≠ .limitBegin l) (h2 : i ≠ .limitEnd) :
      Balanced rest → Balanced (i :: rest)
  | block (lim : Nat) (body rest : List Instr) :
      Balanced body → Balanced rest → Balanced (.limitBegin lim :: (body ++ .limitEnd :: rest))

/-! ### calls that pass the io argument on — var.go `writeSaveExprDerivedVars` / `writeLoadExprDerivedVars`

Around every call whose arguments include `args.src` / `args.dst` (a private helper, or the coroutine
of an embedded decoder: `status =? this.flate.transform_io?(dst: args.dst, src: args.src, …)`) wuffs-c
emits

    if (a_src) { a_src->meta.ri = ((size_t)(iop_a_src - a_src->data.ptr)); }      // save
    … the call, which receives the caller's `wuffs_base__io_buffer*` …
    if (a_src) { iop_a_src = a_src->data.ptr + a_src->meta.ri; }                   // load

(writer: `meta.wi`). Only `iop` is reloaded: `io0`, `io1`, `io2` keep the values of the function entry
(or of the enclosing `io_limit` block). The callee is a parameter: any function from the buffer struct
it is handed to the buffer struct it leaves. -/

/-- The buffer struct the callee receives. -/
def saveForCall (s : St) : Buf :=
  if s.w then { s.b with wi := s.iop } else { s.b with ri := s.iop }

/-- The caller's state after the callee returned the buffer struct as `b2`. -/
def loadAfterCall (s : St) (b2 : Buf) : St :=
  { s with b := b2, iop := if s.w then b2.wi else b2.ri }

def execCall (s : St) (f : Buf → Buf) : St := loadAfterCall s (f (saveForCall s))

/-- A body step: a built-in / `io_limit` boundary, or a call that passes the argument on. -/
inductive Step where
  | prim (i : Instr)
  | call (f : Buf → Buf)

def execStep (s : St) : Step → St
  | .prim i => exec s i
  | .call f => execCall s f

def runS (s : St) (l : List Step) : St := l.foldl execStep s

/-- A whole call whose body may call other functions with the same io argument. -/
def callIOS (w : Bool) (b : Buf) (l : List Step) : Buf := finalSave (runS (load w b) l)

/-- Step lists in which every `io_limit` block is complete. -/
inductive BalancedS : List Step → Prop where
  | nil : BalancedS []
  | prim (i : Instr) (rest : List Step) (h1 : ∀ l, i ≠ .limitBegin l) (h2 : i ≠ .limitEnd) :
      BalancedS rest → BalancedS (.prim i :: rest)
  | call (f : Buf → Buf) (rest : List Step) : BalancedS rest → BalancedS (.call f :: rest)
  | block (lim : Nat) (body rest : List Step) :
      BalancedS body → BalancedS rest →
      BalancedS (.prim (.limitBegin lim) :: (body ++ .prim .limitEnd :: rest))

/-! ### `io_forget_history (io: w) { … }` — statement.go, writers only

`data.ptr += wi; data.len -= wi; ri = wi = 0; pos += wi` while `io0 = io1 = iop`; afterwards the
buffer struct is copied back, `meta.wi = iop - data.ptr`, and `io0`, `io1` are restored. Offsets
here stay relative to the ORIGINAL `data.ptr`; `shift` is how far `data.ptr` was advanced. -/

structure Forget where
  savedIo0 : Nat
  savedIo1 : Nat
  savedBuf : Buf
  shift : Nat
  deriving Repr, Inhabited

def satAdd64 (a b : Nat) : Nat := min (a + b) (2 ^ 64 - 1)

/-- Block entry: returns the saved locals and the state inside the block. The inner buffer's
`mem` view starts `shift` bytes later; the model keeps the whole `mem` and records `shift`. -/
def forgetBegin (s : St) : Forget × St :=
  let f : Forget := { savedIo0 := s.io0, savedIo1 := s.io1, savedBuf := s.b, shift := s.b.wi }
  let b' : Buf := { s.b with len := s.b.len - s.b.wi, ri := 0, wi := 0, pos := satAdd64 s.b.pos s.b.wi }
  (f, { s with io0 := s.iop, io1 := s.iop, b := b' })

/-- Block exit (normal fall-through only). -/
def forgetEnd (f : Forget) (s : St) : St :=
  let b' : Buf := { f.savedBuf with mem := s.b.mem, wi := s.iop }
  { s with b := b', io0 := f.savedIo0, io1 := f.savedIo1 }

/-! ### `io_bind (io: v, data: slice, history_position: pos) { … }` — statement.go

Only local io variables can be bound (`u_<name>` exists for locals only): the variable is pointed at
a fresh buffer over `slice` (`wuffs_private_impl__io_reader__set` / `…writer__set`) and all five
saved values are restored afterwards. The caller's buffers are not involved. -/

/-- `wuffs_private_impl__io_reader__set` / `wuffs_private_impl__io_writer__set`. -/
def bindBegin (w : Bool) (slice : List UInt8) (histPos : Nat) : St :=
  { w := w,
    b := { mem := slice, len := slice.length, ri := 0, wi := if w then 0 else slice.length,
           pos := histPos, closed := false, hasPtr := true },
    io0 := 0, io1 := 0, iop := 0, io2 := slice.length, stack := [] }

/-- The restore at the end of the block: the saved state comes back whatever the block did. -/
def bindEnd (saved : St) (_inner : St) : St := saved

end WuffsVerif.IOBuf
