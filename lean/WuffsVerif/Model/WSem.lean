/-
C04 — reference semantics of a Wuffs fragment, "as the language defines it"
(/repo/doc/wuffs-the-language.md, doc/note/{bounds-checking,initialization,
effects}.md): ideal integers, every operation checked against the range the
checker must have established (an out-of-range case is reported as `undef`,
i.e. "this program should not have been accepted"), modular and saturating
operators as named, zero-initialised locals and fields, statements left to
right, labelled break/continue, methods on one struct, call histories.

Programs arrive as the REAL type-checked AST of /repo's front end
(token.Tokenize, parse.Parse, check.Check), serialised generically node by
node by harness/cmd/c04/sexpr.go:

  ( Kind flagsHex id0 id1 id2 constValue mtype lhs mhs rhs [ list0 ] [ list1 ] [ list2 ] )

The field meanings per kind are those of the table in lang/ast/ast.go.
The interpreter is total (fuel).  Core Lean only.
-/
import WuffsVerif.Model.WOps

namespace WuffsVerif.WSem
open WuffsVerif.WOps

/-! ## Generic AST -/

inductive Node where
  | mk (kind : String) (flags : Nat) (id0 id1 id2 : String) (cv : Option Int) (ty : String)
       (lhs mhs rhs : Option Node) (l0 l1 l2 : List Node)
  deriving Inhabited

namespace Node
def kind : Node → String | .mk k .. => k
def flags : Node → Nat | .mk _ f .. => f
def id0 : Node → String | .mk _ _ a .. => a
def id1 : Node → String | .mk _ _ _ a .. => a
def id2 : Node → String | .mk _ _ _ _ a .. => a
def cv : Node → Option Int | .mk _ _ _ _ _ c .. => c
def ty : Node → String | .mk _ _ _ _ _ _ t .. => t
def lhs : Node → Option Node | .mk _ _ _ _ _ _ _ l .. => l
def mhs : Node → Option Node | .mk _ _ _ _ _ _ _ _ m .. => m
def rhs : Node → Option Node | .mk _ _ _ _ _ _ _ _ _ r .. => r
def l0 : Node → List Node | .mk _ _ _ _ _ _ _ _ _ _ l .. => l
def l1 : Node → List Node | .mk _ _ _ _ _ _ _ _ _ _ _ l _ => l
def l2 : Node → List Node | .mk _ _ _ _ _ _ _ _ _ _ _ _ l => l
end Node

def hexDigitVal (c : Char) : Option Nat :=
  if '0' ≤ c ∧ c ≤ '9' then some (c.toNat - 48)
  else if 'a' ≤ c ∧ c ≤ 'f' then some (c.toNat - 87)
  else none

def parseHex (s : String) : Option Nat :=
  s.toList.foldl (fun acc c => do let a ← acc; let d ← hexDigitVal c; pure (a * 16 + d)) (some 0)

def parseCv (s : String) : Option Int := if s == "-" then none else s.toInt?

mutual
def parseNode (fuel : Nat) (ts : List String) : Option (Node × List String) :=
  match fuel with
  | 0 => none
  | fuel + 1 =>
    match ts with
    | "(" :: kind :: flags :: id0 :: id1 :: id2 :: cv :: ty :: rest => do
      let fl ← parseHex flags
      let (lhs, r1) ← parseOpt fuel rest
      let (mhs, r2) ← parseOpt fuel r1
      let (rhs, r3) ← parseOpt fuel r2
      let (l0, r4) ← parseList fuel r3
      let (l1, r5) ← parseList fuel r4
      let (l2, r6) ← parseList fuel r5
      match r6 with
      | ")" :: r7 => some (Node.mk kind fl id0 id1 id2 (parseCv cv) ty lhs mhs rhs l0 l1 l2, r7)
      | _ => none
    | _ => none
def parseOpt (fuel : Nat) (ts : List String) : Option (Option Node × List String) :=
  match fuel with
  | 0 => none
  | fuel + 1 =>
    match ts with
    | "-" :: r => some (none, r)
    | _ => (parseNode fuel ts).map (fun (n, r) => (some n, r))
def parseList (fuel : Nat) (ts : List String) : Option (List Node × List String) :=
  match fuel with
  | 0 => none
  | fuel + 1 =>
    match ts with
    | "[" :: r => parseItems fuel r
    | _ => none
def parseItems (fuel : Nat) (ts : List String) : Option (List Node × List String) :=
  match fuel with
  | 0 => none
  | fuel + 1 =>
    match ts with
    | "]" :: r => some ([], r)
    | _ => do
      let (n, r) ← parseNode fuel ts
      let (ns, r') ← parseItems fuel r
      some (n :: ns, r')
end

/-- Parse one serialised tree (all tokens must be consumed). -/
def parseTree (ts : List String) : Option Node :=
  match parseNode (4 * ts.length + 8) ts with
  | some (n, []) => some n
  | _ => none

/-! ## Types and values -/

inductive Ty where
  | num (w : WTy) (lo hi : Int)   -- effective bounds: refinement, else the natural ones
  | snum (bits : Nat) (lo hi : Int)  -- signed base.i8 … base.i64 (only + - * comparisons are modelled)
  | bool
  | arr (n : Nat) (elem : Ty)
  | ideal
  | other (s : String)
  deriving Inhabited, Repr

def signedBitsOfName (s : String) : Option Nat :=
  if s == "base.i8" then some 8
  else if s == "base.i16" then some 16
  else if s == "base.i32" then some 32
  else if s == "base.i64" then some 64
  else none

def wtyOfName (s : String) : Option WTy :=
  if s == "base.u8" then some .u8
  else if s == "base.u16" then some .u16
  else if s == "base.u32" then some .u32
  else if s == "base.u64" then some .u64
  else none

/-- compact type strings of sexpr.go typeStr, already split on ':' -/
def parseTyParts (fuel : Nat) (ps : List String) : Ty :=
  match fuel with
  | 0 => .other "fuel"
  | fuel + 1 =>
    match ps with
    | ["T", name, lo, hi] =>
      if name == "base.bool" then .bool
      else if name == "ideal" then .ideal
      else match wtyOfName name with
        | some w =>
          let l := (lo.toInt?).getD 0
          let h := (hi.toInt?).getD w.max
          .num w l h
        | none =>
          match signedBitsOfName name with
          | some b =>
            let l := (lo.toInt?).getD (-(2 ^ (b - 1)))
            let h := (hi.toInt?).getD (2 ^ (b - 1) - 1)
            .snum b l h
          | none => .other name
    | "A" :: len :: rest =>
      match len.toNat? with
      | some n => .arr n (parseTyParts fuel rest)
      | none => .other "array-length"
    | "R" :: len :: rest =>
      match len.toNat? with
      | some n => .arr n (parseTyParts fuel rest)
      | none => .other "array-length"
    | _ => .other (":".intercalate ps)

def parseTy (s : String) : Ty :=
  let ps := s.splitOn ":"
  parseTyParts (ps.length + 1) ps

/-- Values: scalars (bool = 0/1) are ideal integers; arrays of scalars. -/
inductive Val where
  | int (i : Int)
  | arr (xs : List Int)
  | unit
  /-- what a coroutine call (`f?(…)`) yields: `ok`, or the suspension it stopped at -/
  | status (s : String)
  deriving Inhabited, Repr, BEq

def Ty.zero : Ty → Val
  | .arr n _ => .arr (List.replicate n 0)
  | _ => .int 0

/-- is `v` a value of the (possibly refined) type -/
def Ty.hasInt : Ty → Int → Bool
  | .num _ lo hi, v => decide (lo ≤ v) && decide (v ≤ hi)
  | .snum _ lo hi, v => decide (lo ≤ v) && decide (v ≤ hi)
  | .bool, v => v == 0 || v == 1
  | .ideal, _ => true
  | _, _ => false

def Ty.wty? : Ty → Option WTy
  | .num w _ _ => some w
  | _ => none

abbrev Binds := List (String × Val)

def lookup (k : String) : Binds → Option Val
  | [] => none
  | (a, v) :: r => if a == k then some v else lookup k r

def update (k : String) (v : Val) : Binds → Binds
  | [] => []
  | (a, w) :: r => if a == k then (a, v) :: r else (a, w) :: update k v r

/-! ## Program -/

structure Func where
  name : String
  pub : Bool
  impure : Bool
  /-- `f?`: a coroutine (ast.EffectImpureCoroutine) -/
  coro : Bool := false
  params : List (String × Ty)
  out : Option Ty
  vars : List (String × Ty)
  body : List Node
  deriving Inhabited

structure Prog where
  sname : String
  fields : List (String × Ty)
  consts : Binds
  funcs : List Func
  deriving Inhabited

def fieldsOf (ns : List Node) : List (String × Ty) :=
  ns.filterMap (fun n => if n.kind == "KField" then
    (n.lhs.map (fun t => (n.id2, parseTy t.ty))) else none)

def constVal (n : Node) : Option Val :=
  match n.cv with
  | some c => some (.int c)
  | none =>
    if n.id0 == "," then
      (n.l0.mapM (fun (e : Node) => e.cv)).map Val.arr
    else none

def ast_FlagsPublic : Nat := 0x100
def ast_EffectImpure : Nat := 0x1
def ast_EffectCoroutine : Nat := 0x2

def funcOf (n : Node) : Option Func := do
  let inS ← n.lhs
  let vars := n.l2.filterMap (fun s => if s.kind == "KVar" then
    (s.lhs.map (fun t => (s.id2, parseTy t.ty))) else none)
  pure { name := n.id0, pub := n.flags &&& ast_FlagsPublic != 0,
         impure := n.flags &&& ast_EffectImpure != 0,
         coro := n.flags &&& ast_EffectCoroutine != 0,
         params := fieldsOf inS.l1, out := n.rhs.map (fun t => parseTy t.ty),
         vars := vars, body := n.l2 }

/-- Load the (single-struct) file: KStruct, KConst and KFunc top-level decls. -/
def loadProg (file : Node) : Option Prog := do
  if file.kind != "KFile" then none
  let decls := file.l0
  let st ← decls.find? (fun d => d.kind == "KStruct")
  let consts := decls.filterMap (fun d => if d.kind == "KConst" then
      (d.rhs.bind constVal).map (fun v => (d.id2, v)) else none)
  let funcs ← (decls.filter (fun d => d.kind == "KFunc" && d.id2 == st.id2)).mapM funcOf
  pure { sname := st.id2, fields := fieldsOf st.l1, consts := consts, funcs := funcs }

/-! ## Interpreter -/

/-- The I/O arguments of a coroutine call, as the language sees them: the bytes
available to `args.src` in this call (`src`, absolute: position 0 is the start
of the stream) and how many of them have been read (`ri`); the room `args.dst`
has in this call (`cap`, absolute) and the bytes written so far (`out`).
(doc/note/io-input-output.md: a reader yields the bytes between its read and
write indexes, a writer has room up to its length.) -/
structure IOSt where
  src : List Nat := []
  ri : Nat := 0
  cap : Nat := 0
  out : List Nat := []
  deriving Inhabited, Repr

structure St where
  fields : Binds
  disabled : Bool := false
  io : IOSt := {}
  deriving Inhabited

structure Frame where
  args : Binds
  locals : Binds
  deriving Inhabited

inductive Sig where
  | next
  | brk (label : String)
  | cont (label : String)
  | ret (v : Val)
  /-- the coroutine stops here with a suspension (`$short read`, `$short write`) -/
  | susp (status : String)
  deriving Inhabited

abbrev R := Except String

def undef {α} (why : String) : R α := .error ("undef:" ++ why)
def unsupported {α} (why : String) : R α := .error ("unsupported:" ++ why)

def wopOfBinary (s : String) : Option WOp :=
  match s with
  | "B+" => some .add | "B-" => some .sub | "B*" => some .mul | "B/" => some .div
  | "B<<" => some .shl | "B>>" => some .shr | "B&" => some .band | "B|" => some .bor
  | "B^" => some .bxor | "B%" => some .rem
  | "B~mod+" => some .modAdd | "B~mod-" => some .modSub | "B~mod*" => some .modMul
  | "B~mod<<" => some .modShl | "B~sat+" => some .satAdd | "B~sat-" => some .satSub
  | "B<>" => some .ne | "B<" => some .lt | "B<=" => some .le | "B==" => some .eq
  | "B>=" => some .ge | "B>" => some .gt | "Band" => some .land | "Bor" => some .lor
  | _ => none

def wopOfAssoc (s : String) : Option WOp :=
  match s with
  | "A+" => some .add | "A*" => some .mul | "A&" => some .band | "A|" => some .bor
  | "A^" => some .bxor | "Aand" => some .land | "Aor" => some .lor
  | _ => none

/-- token.ID.BinaryForm for the assignment operators -/
def wopOfAssign (s : String) : Option WOp :=
  match s with
  | "+=" => some .add | "-=" => some .sub | "*=" => some .mul | "/=" => some .div
  | "<<=" => some .shl | ">>=" => some .shr | "&=" => some .band | "|=" => some .bor
  | "^=" => some .bxor | "%=" => some .rem
  | "~mod+=" => some .modAdd | "~mod-=" => some .modSub | "~mod*=" => some .modMul
  | "~mod<<=" => some .modShl | "~sat+=" => some .satAdd | "~sat-=" => some .satSub
  | _ => none

/-- One binary operation at node type `nty` (operand type for comparisons). -/
def applyOp (op : WOp) (nty : Ty) (a b : Int) : R Int :=
  if op.isLogical then pure (op.ideal .u8 a b)
  else
    match nty.wty? with
    | none =>
      -- comparison of two bools (`==`, `<>`) or ideal constants: no range involved
      if op.isComparison then pure (op.ideal .u64 a b)
      else
        match nty, op with
        -- signed types: ideal arithmetic; the node's range is checked by the caller
        | .snum _ _ _, .add => pure (a + b)
        | .snum _ _ _, .sub => pure (a - b)
        | .snum _ _ _, .mul => pure (a * b)
        | _, _ => unsupported "operator-type"
    | some w =>
      match wmeaning op w a b with
      | some r => pure r
      | none => undef s!"op:{repr op}:{repr w}:{a}:{b}"

/-- the value of a node must lie inside the node's type -/
def checkRange (what : String) (t : Ty) (v : Int) : R Int :=
  if t.hasInt v then pure v else undef s!"{what}:{v}"

def asInt (v : Val) : R Int :=
  match v with
  | .int i => pure i
  | _ => unsupported "scalar-expected"

def zipArgs (params : List (String × Ty)) (vals : Binds) : R Binds :=
  params.mapM (fun (n, _) => match lookup n vals with
    | some v => pure (n, v)
    | none => unsupported s!"missing-arg:{n}")

/-! ## Suspending I/O built-ins (lang/builtin/builtin.go: `io_reader.read_u8?` …
`read_u64le?`, `skip?`, `skip_u32?`, `io_writer.write_u8?`)

The language-level meaning: `read_uNNxe[_as_uMM]?` takes the next NN/8 bytes of
the stream and yields their little- / big-endian value; `skip?` passes over `n`
bytes; `write_u8?` appends one byte.  When the call's I/O argument runs out
first, everything it has is consumed and the coroutine suspends with
`$short read` / `$short write`; called again with more input it goes on from
there.  The interpreter is not resumable: a resumed call is interpreted by
running the activation again from its start on the longer input (the run is
deterministic and passes through the same states up to the point where the
shorter input ran out) — see `Driver/C04.lean`, op `iocall`. -/

/-- (number of bytes, big-endian) of `io_reader.read_…?` -/
def readSpec (name : String) : Option (Nat × Bool) :=
  if name == "read_u8" || name == "read_u8_as_u16" || name == "read_u8_as_u32" || name == "read_u8_as_u64" then some (1, true)
  else if name == "read_u16be" || name == "read_u16be_as_u32" || name == "read_u16be_as_u64" then some (2, true)
  else if name == "read_u16le" || name == "read_u16le_as_u32" || name == "read_u16le_as_u64" then some (2, false)
  else if name == "read_u24be_as_u32" || name == "read_u24be_as_u64" then some (3, true)
  else if name == "read_u24le_as_u32" || name == "read_u24le_as_u64" then some (3, false)
  else if name == "read_u32be" || name == "read_u32be_as_u64" then some (4, true)
  else if name == "read_u32le" || name == "read_u32le_as_u64" then some (4, false)
  else if name == "read_u40be_as_u64" then some (5, true)
  else if name == "read_u40le_as_u64" then some (5, false)
  else if name == "read_u48be_as_u64" then some (6, true)
  else if name == "read_u48le_as_u64" then some (6, false)
  else if name == "read_u56be_as_u64" then some (7, true)
  else if name == "read_u56le_as_u64" then some (7, false)
  else if name == "read_u64be" then some (8, true)
  else if name == "read_u64le" then some (8, false)
  else none

def bytesBE (bs : List Nat) : Nat := bs.foldl (fun acc b => acc * 256 + b) 0
def bytesLE : List Nat → Nat
  | [] => 0
  | b :: r => b + 256 * bytesLE r

/-- `args.src.<name>?(…)`: the new I/O state and the value, or the suspension -/
def ioReaderCall (io : IOSt) (name : String) (args : Binds) : R (IOSt × Val) :=
  let avail := io.src.length - io.ri
  match readSpec name with
  | some (n, be) =>
    if n ≤ avail then
      let bs := (io.src.drop io.ri).take n
      pure ({ io with ri := io.ri + n }, .int (if be then bytesBE bs else bytesLE bs))
    else pure ({ io with ri := io.src.length }, .status "$base: short read")
  | none =>
    if name == "skip" || name == "skip_u32" then
      match lookup "n" args with
      | some (.int n) =>
        if 0 ≤ n ∧ n.toNat ≤ avail then pure ({ io with ri := io.ri + n.toNat }, .unit)
        else if n < 0 then undef "skip-negative"
        else pure ({ io with ri := io.src.length }, .status "$base: short read")
      | _ => unsupported "skip-arg"
    else unsupported s!"io_reader.{name}"

def ioWriterCall (io : IOSt) (name : String) (args : Binds) : R (IOSt × Val) :=
  if name == "write_u8" then
    match lookup "a" args with
    | some (.int a) =>
      if 0 ≤ a ∧ a < 256 then
        if io.out.length < io.cap then pure ({ io with out := io.out ++ [a.toNat] }, .unit)
        else pure (io, .status "$base: short write")
      else undef "write_u8-arg"
    | _ => unsupported "write_u8-arg"
  else unsupported s!"io_writer.{name}"

mutual
/-- Expressions are effect-free except for a call at the top of an assignment,
which `execStmt` handles; calls reached here are to pure methods. -/
def evalExpr (p : Prog) (fuel : Nat) (st : St) (fr : Frame) (n : Node) : R Val :=
  match fuel with
  | 0 => .error "fuel"
  | fuel + 1 =>
    match n.cv with
    | some c => pure (.int c)
    | none =>
      let nty := parseTy n.ty
      let op := n.id0
      if op == "-" then
        -- identifier: local variable, else a package-level const
        match lookup n.id2 fr.locals with
        | some v => pure v
        | none =>
          match lookup n.id2 p.consts with
          | some v => pure v
          | none => unsupported s!"ident:{n.id2}"
      else if op == "." then
        match n.lhs with
        | some l =>
          if l.id0 == "-" && l.id2 == "args" then
            match lookup n.id2 fr.args with
            | some v => pure v
            | none => unsupported s!"arg:{n.id2}"
          else if l.id0 == "-" && l.id2 == "this" then
            match lookup n.id2 st.fields with
            | some v => pure v
            | none => unsupported s!"field:{n.id2}"
          else unsupported "selector"
        | none => unsupported "selector"
      else if op == "index" then
        match n.lhs, n.rhs with
        | some l, some r => do
          let base ← evalExpr p fuel st fr l
          let i ← (evalExpr p fuel st fr r) >>= asInt
          match base with
          | .arr xs =>
            if 0 ≤ i ∧ i < xs.length then pure (.int (xs.getD i.toNat 0))
            else undef s!"index:{i}:{xs.length}"
          | _ => unsupported "index-base"
        | _, _ => unsupported "index"
      else if op == "call" then do
        let (st', v) ← evalCall p fuel st fr n
        let _ := st'
        pure v
      else if op == "Bas" then
        match n.lhs with
        | some l => do
          let a ← (evalExpr p fuel st fr l) >>= asInt
          let r ← checkRange "as" nty a
          pure (.int r)
        | none => unsupported "as"
      else if op == "U+" || op == "U-" || op == "Unot" then
        match n.rhs with
        | some r => do
          let a ← (evalExpr p fuel st fr r) >>= asInt
          if op == "Unot" then pure (.int (b2i (a == 0)))
          else do
            let v ← checkRange "unary" nty (if op == "U-" then -a else a)
            pure (.int v)
        | none => unsupported "unary"
      else
        match wopOfBinary op, n.lhs, n.rhs with
        | some w, some l, some r => do
          let a ← (evalExpr p fuel st fr l) >>= asInt
          let b ← (evalExpr p fuel st fr r) >>= asInt
          let oty := if w.isComparison then
              (match parseTy l.ty with | .ideal => parseTy r.ty | t => t) else nty
          let v ← applyOp w oty a b
          let v ← checkRange "binary" nty v
          pure (.int v)
        | _, _, _ =>
          match wopOfAssoc op with
          | some w => do
            let vs ← evalList p fuel st fr n.l0
            match vs with
            | [] => unsupported "assoc-empty"
            | v0 :: rest => do
              -- left to right; only the final result is checked against the
              -- node's type (bcheckExprAssociativeOp checks the whole node)
              let r ← rest.foldlM (fun acc x =>
                if w.isLogical then pure (w.ideal .u8 acc x) else
                match w with
                | .add => pure (acc + x)
                | .mul => pure (acc * x)
                | _ => pure (w.ideal .u64 acc x)) v0
              let r ← checkRange "assoc" nty r
              pure (.int r)
          | none => unsupported s!"expr:{op}"

def evalList (p : Prog) (fuel : Nat) (st : St) (fr : Frame) (ns : List Node) : R (List Int) :=
  match fuel with
  | 0 => .error "fuel"
  | fuel + 1 =>
    match ns with
    | [] => pure []
    | n :: rest => do
      let v ← (evalExpr p fuel st fr n) >>= asInt
      let vs ← evalList p fuel st fr rest
      pure (v :: vs)

/-- evaluate the KArg list of a call, left to right -/
def evalArgs (p : Prog) (fuel : Nat) (st : St) (fr : Frame) (ns : List Node) : R Binds :=
  match fuel with
  | 0 => .error "fuel"
  | fuel + 1 =>
    match ns with
    | [] => pure []
    | n :: rest =>
      match n.rhs with
      | some e => do
        let v ← evalExpr p fuel st fr e
        let vs ← evalArgs p fuel st fr rest
        pure ((n.id2, v) :: vs)
      | none => unsupported "arg"

/-- `this.m(args)` : n is the call node (LHS = `this.m`, List0 = KArgs) -/
def evalCall (p : Prog) (fuel : Nat) (st : St) (fr : Frame) (n : Node) : R (St × Val) :=
  match fuel with
  | 0 => .error "fuel"
  | fuel + 1 =>
    match n.lhs with
    | some m =>
      let recvIsThis := match m.lhs with
        | some l => l.id0 == "-" && l.id2 == "this"
        | none => false
      let recvTy := match m.lhs with
        | some l => l.ty
        | none => ""
      if m.id0 == "." && recvTy.startsWith "T:base.io_reader" then do
        let args ← evalArgs p fuel st fr n.l0
        let (io', v) ← ioReaderCall st.io m.id2 args
        pure ({ st with io := io' }, v)
      else if m.id0 == "." && recvTy.startsWith "T:base.io_writer" then do
        let args ← evalArgs p fuel st fr n.l0
        let (io', v) ← ioWriterCall st.io m.id2 args
        pure ({ st with io := io' }, v)
      else if m.id0 == "." && recvIsThis then
        match p.funcs.find? (fun f => f.name == m.id2) with
        | some f => do
          let args ← evalArgs p fuel st fr n.l0
          callFunc p fuel st f args
        | none => unsupported s!"method:{m.id2}"
      else unsupported "call-receiver"
    | none => unsupported "call"

/-- Run a method.  Public methods start with the prologue the C API defines
(internal/cgen/func.go writeFuncImplSelfMagicCheck / writeFuncImplArgChecks,
executed on EVERY call, also calls from other methods): an impure public
method of a disabled object returns the zero value at once (pure ones still
run: magic == DISABLED is let through); an out-of-range refined argument
disables the object.  Then the body runs on fresh zero-initialised locals;
arguments (of private methods) and the return value are checked against the
declared (refined) types. -/
def callFunc (p : Prog) (fuel : Nat) (st : St) (f : Func) (args : Binds) : R (St × Val) :=
  match fuel with
  | 0 => .error "fuel"
  | fuel + 1 => do
    let args ← zipArgs f.params args
    let zeroRet : Val := match f.out with
      | some t => t.zero
      | none => .unit
    let bad := f.params.any (fun (n, t) => match lookup n args with
      | some (.int i) => !(t.hasInt i)
      | _ => false)
    if f.pub && f.impure && st.disabled then pure (st, zeroRet)
    else if f.pub && bad then pure ({ st with disabled := true }, .unit)
    else if bad then undef s!"arg-range:{f.name}"
    else
    let fr : Frame := { args := args, locals := f.vars.map (fun (n, t) => (n, t.zero)) }
    let (st', _, sig) ← execBlock p fuel st fr f.body
    match sig with
    | .ret v =>
      match f.out, v with
      | some t, .int i => do
        let _ ← checkRange "return" t i
        pure (st', v)
      | none, _ => if f.coro then pure (st', .status "ok") else pure (st', .unit)
      | _, _ => pure (st', v)
    | .next =>
      if f.coro then pure (st', .status "ok") else
      match f.out with
      | none => pure (st', .unit)
      | some _ => undef "missing-return"
    | .susp s => pure (st', .status s)
    | _ => .error "stray-jump"

def execBlock (p : Prog) (fuel : Nat) (st : St) (fr : Frame) (ns : List Node) : R (St × Frame × Sig) :=
  match fuel with
  | 0 => .error "fuel"
  | fuel + 1 =>
    match ns with
    | [] => pure (st, fr, .next)
    | n :: rest => do
      let (st', fr', sig) ← execStmt p fuel st fr n
      match sig with
      | .next => execBlock p fuel st' fr' rest
      | _ => pure (st', fr', sig)

def execStmt (p : Prog) (fuel : Nat) (st : St) (fr : Frame) (n : Node) : R (St × Frame × Sig) :=
  match fuel with
  | 0 => .error "fuel"
  | fuel + 1 =>
    let k := n.kind
    if k == "KVar" || k == "KAssert" then pure (st, fr, .next)
    else if k == "KAssign" then
      match n.rhs with
      | none => unsupported "assign"
      | some rhs => do
        -- right-hand side: a call (possibly impure) or an effect-free expression
        let (st1, v) ← (if rhs.cv.isNone && rhs.id0 == "call" then evalCall p fuel st fr rhs
                        else do let v ← evalExpr p fuel st fr rhs; pure (st, v))
        -- a `?` call that suspends: the statement does not complete (no store),
        -- the coroutine stops with that status
        match v with
        | .status s =>
          if s == "ok" then pure (st1, fr, .next) else pure (st1, fr, .susp s)
        | _ =>
        match n.lhs with
        | none => pure (st1, fr, .next)
        | some lhs => do
          let lty := parseTy lhs.ty
          let newv ←
            if n.id0 == "=" then
              (match v with
                | .int i => do let i ← checkRange "assign" lty i; pure (Val.int i)
                | other => pure other)
            else
              match wopOfAssign n.id0 with
              | none => unsupported s!"assign-op:{n.id0}"
              | some w => do
                let old ← (evalExpr p fuel st1 fr lhs) >>= asInt
                let b ← asInt v
                let r ← applyOp w lty old b
                let r ← checkRange "op-assign" lty r
                pure (Val.int r)
          let (st2, fr2) ← assignTo p fuel st1 fr lhs newv
          pure (st2, fr2, .next)
    else if k == "KIf" then
      match n.mhs with
      | none => unsupported "if"
      | some c => do
        let cv ← (evalExpr p fuel st fr c) >>= asInt
        if cv != 0 then execBlock p fuel st fr n.l2
        else
          match n.rhs with
          | some e => execStmt p fuel st fr e
          | none => execBlock p fuel st fr n.l1
    else if k == "KWhile" then execWhile p fuel st fr n
    else if k == "KJump" then
      if n.id0 == "break" then pure (st, fr, .brk n.id1)
      else if n.id0 == "continue" then pure (st, fr, .cont n.id1)
      else unsupported "jump"
    else if k == "KRet" then
      if n.id0 != "return" then unsupported "yield" else
      match n.lhs with
      | some e =>
        if e.cv.isNone && e.id0 == "-" && e.id2 == "nothing" then pure (st, fr, .ret .unit)
        else do
          let v ← evalExpr p fuel st fr e
          pure (st, fr, .ret v)
      | none => pure (st, fr, .ret .unit)
    else unsupported s!"statement:{k}"

def execWhile (p : Prog) (fuel : Nat) (st : St) (fr : Frame) (n : Node) : R (St × Frame × Sig) :=
  match fuel with
  | 0 => .error "fuel"
  | fuel + 1 =>
    match n.mhs with
    | none => unsupported "while"
    | some c => do
      let cv ← (evalExpr p fuel st fr c) >>= asInt
      if cv == 0 then pure (st, fr, .next)
      else do
        let (st', fr', sig) ← execBlock p fuel st fr n.l2
        let mine (l : String) : Bool := l == "-" || l == n.id1
        match sig with
        | .next => execWhile p fuel st' fr' n
        | .cont l => if mine l then execWhile p fuel st' fr' n else pure (st', fr', sig)
        | .brk l => if mine l then pure (st', fr', .next) else pure (st', fr', sig)
        | .ret _ => pure (st', fr', sig)
        | .susp _ => pure (st', fr', sig)

/-- store into a local, a field, or an element of either -/
def assignTo (p : Prog) (fuel : Nat) (st : St) (fr : Frame) (lhs : Node) (v : Val) : R (St × Frame) :=
  match fuel with
  | 0 => .error "fuel"
  | fuel + 1 =>
    if lhs.id0 == "-" then
      match lookup lhs.id2 fr.locals with
      | some _ => pure (st, { fr with locals := update lhs.id2 v fr.locals })
      | none => unsupported s!"assign-ident:{lhs.id2}"
    else if lhs.id0 == "." then
      match lhs.lhs with
      | some l =>
        if l.id0 == "-" && l.id2 == "this" then
          match lookup lhs.id2 st.fields with
          | some _ => pure ({ st with fields := update lhs.id2 v st.fields }, fr)
          | none => unsupported s!"assign-field:{lhs.id2}"
        else unsupported "assign-selector"
      | none => unsupported "assign-selector"
    else if lhs.id0 == "index" then
      match lhs.lhs, lhs.rhs with
      | some b, some ie => do
        let base ← evalExpr p fuel st fr b
        let i ← (evalExpr p fuel st fr ie) >>= asInt
        let x ← asInt v
        match base with
        | .arr xs =>
          if 0 ≤ i ∧ i < xs.length then
            assignTo p fuel st fr b (.arr (xs.set i.toNat x))
          else undef s!"index-store:{i}:{xs.length}"
        | _ => unsupported "index-store-base"
      | _, _ => unsupported "index-store"
    else unsupported "assign-target"
end

/-! ## Call histories -/

def initSt (p : Prog) : St := { fields := p.fields.map (fun (n, t) => (n, t.zero)) }

def defaultFuel : Nat := 200000

/-- One call of a history, from the outside. -/
def callPublic (p : Prog) (st : St) (f : Func) (args : Binds) : R (St × Val) :=
  callFunc p defaultFuel st f args

def showVal : Val → String
  | .int i => toString i
  | .arr xs => "[" ++ ",".intercalate (xs.map toString) ++ "]"
  | .unit => "-"
  | .status s => s

def showSt (p : Prog) (st : St) : String :=
  " ".intercalate (p.fields.map (fun (n, _) => match lookup n st.fields with
    | some v => showVal v
    | none => "?"))

end WuffsVerif.WSem
