/-
Executable model of /repo/lib/uncompng/uncompng.go (the not-compressing PNG encoder), function by
function: `Encoder.buf` (65536 bytes), `init`, `updateAdler32`, `flush`, `crc32IEEE`, `Encode` with
its six per-pixel copy loops.  Core Lean only.

Conventions of the model
* `Enc.buf` is an `Array UInt8`; a fresh `Encoder{}` is `Enc.new` (65536 zero bytes).  Every store
  `e.buf[i] = v` goes through `Enc.set`, which sets the sticky flag `oob` instead of storing when
  `i` is not a valid index — this is Go's index-out-of-range panic.  Slice expressions with a bad
  bound (`e.buf[a:b]`, `pix[y*stride:]`, `row[:k*width]`) set the same flag.
* The slice `pix` is the pair (`pix : Array UInt8`, `plen : Nat`): the array holds the `cap(pix)` bytes
  of the backing store from the slice's start, `plen` is `len(pix)` (`≤ pix.size`).  Go checks the low
  bound of `pix[y*stride:]` against the length and the high bound of `row[:k*width]` against the capacity.
* The `io.Writer` is a `Writer`: it records the byte slice of every `Write` call and returns an
  error on call number `failAt` (if any).  `Encode` ignores the returned count, as the Go code does.
* The six unrolled pixel loops of `Encode` differ only in (`n` = bytes stored per pixel, `k` = bytes
  consumed per pixel): gray8 (1,1), RGBX8 (3,4), NRGBA8 (4,4), gray16 (2,2), RGBX16 (6,8),
  NRGBA16 (8,8).  `pixLoop n k` is that loop; `copyN` is the unrolled `e.buf[ej+i] = row[i]`.
* `flush` is one Go function; here it is cut into consecutive pieces so that each has a small
  statement: the `if e.buf[4] == 0x0D {…} else {…}` head stays in `flush`, the rest is
  `flushTail` = `blockHeader`; `updateAdler32`; `appendAdler`; `appendCRC`; `emit`, in source order.
* `eiFirst`, `eiLater`, `ejMax` and the CRC table are regenerated from the Go source
  (`Gen/C19_Tables.lean`); the other offsets are the literals of `init`/`flush`.
* Go `int` is 64-bit.  The only `int` arithmetic of `Encode` that can leave the 64-bit range is
  `y*stride` (`y < 2^24`, `stride` any `int`): it is modelled with Go's wrap-around (`wrapInt64`).
  Everything else is bounded by the buffer size or by `8 * 0xFFFFFF` and uses unbounded `Nat`/`Int`.
-/
import WuffsVerif.Model.Hash
import WuffsVerif.Gen.C19_Tables

namespace WuffsVerif.Png.Uncomp
open WuffsVerif.Hash WuffsVerif.Gen.C19

/-- `type Encoder struct { buf [65536]byte }` plus the panic flag. -/
structure Enc where
  buf : Array UInt8
  oob : Bool

/-- `Encoder{}` -/
def Enc.new : Enc := ⟨Array.replicate 65536 0, false⟩

/-- `e.buf[i] = v` (index-out-of-range ⇒ panic flag). -/
@[inline] def Enc.set (e : Enc) (i : Nat) (v : UInt8) : Enc :=
  if i < e.buf.size then { e with buf := e.buf.set! i v } else { e with oob := true }

/-- consecutive stores `e.buf[i] = l[0]; e.buf[i+1] = l[1]; …` -/
def Enc.blit (e : Enc) (i : Nat) : List UInt8 → Enc
  | [] => e
  | v :: l => (e.set i v).blit (i + 1) l

/-- `byte(n>>24), byte(n>>16), byte(n>>8), byte(n>>0)` -/
def be32 (n : Nat) : List UInt8 :=
  [UInt8.ofNat (n >>> 24), UInt8.ofNat (n >>> 16), UInt8.ofNat (n >>> 8), UInt8.ofNat n]

/-- `ColorType.pngFileFormatEncoding` -/
def pngFileFormatEncoding (c : UInt8) : UInt8 :=
  if c = 1 then 0 else if c = 2 then 2 else if c = 3 then 6 else 0xFF

def pngSignature : List UInt8 := [0x89, 0x50, 0x4E, 0x47, 0x0D, 0x0A, 0x1A, 0x0A]
def tagIHDR : List UInt8 := [0x49, 0x48, 0x44, 0x52]
def tagIDAT : List UInt8 := [0x49, 0x44, 0x41, 0x54]
/-- `const iendChunk = "\x00\x00\x00\x00IEND\xAE\x42\x60\x82"` -/
def iendChunk : List UInt8 := [0, 0, 0, 0, 0x49, 0x45, 0x4E, 0x44, 0xAE, 0x42, 0x60, 0x82]

/-- `crc32IEEE(e.buf[s:t])` with the table of the Go source. -/
def crc32IEEE (buf : Array UInt8) (s t : Nat) : UInt32 := crc32Range crc32IEEETable buf s t

/-- `func (e *Encoder) init(width, height, depth, colorType)` -/
def init (e : Enc) (width height : Nat) (depth colorType : UInt8) : Enc :=
  -- PNG magic signature, IHDR chunk length, type, payload.
  let e := e.blit 0x0000 pngSignature
  let e := e.blit 0x0008 [0, 0, 0, 0x0D]
  let e := e.blit 0x000C tagIHDR
  let e := e.blit 0x0010 (be32 width)
  let e := e.blit 0x0014 (be32 height)
  let e := e.blit 0x0018 [depth, pngFileFormatEncoding colorType, 0, 0, 0]
  -- IHDR CRC-32/IEEE checksum.
  let ihdrCRC32 := crc32IEEE e.buf 0x000C 0x001D
  let e := e.blit 0x001D (be32 ihdrCRC32.toNat)
  -- IDAT chunk length placeholder, type, ZLIB header, DEFLATE block header placeholder.
  let e := e.blit 0x0021 [0, 0, 0, 0]
  let e := e.blit 0x0025 tagIDAT
  let e := e.blit 0x0029 [0x78, 0x01]
  let e := e.blit 0x002B [0, 0, 0, 0, 0]
  -- AdlerB=0, Adler32A=1.
  e.blit 0xFFFC [0, 0, 0, 1]

/-- `func (e *Encoder) updateAdler32(ei, ej)` -/
def updateAdler32 (e : Enc) (ei ej : Nat) : Enc :=
  let b := ((rd e.buf 0xFFFC).toUInt32 <<< 8) ||| (rd e.buf 0xFFFD).toUInt32
  let a := ((rd e.buf 0xFFFE).toUInt32 <<< 8) ||| (rd e.buf 0xFFFF).toUInt32
  let r := adlerOuter e.buf ei ej a b
  e.blit 0xFFFC [(r.2 >>> 8).toUInt8, r.2.toUInt8, (r.1 >>> 8).toUInt8, r.1.toUInt8]

/-- The `io.Writer`: records every `Write`; call number `failAt` returns an error. -/
structure Writer where
  failAt : Option Nat
  writes : Array (Array UInt8)

def Writer.new (failAt : Option Nat := none) : Writer := ⟨failAt, #[]⟩

/-- `_, err := w.Write(data)`; the Bool is `err == nil`. -/
def Writer.write (w : Writer) (data : Array UInt8) : Writer × Bool :=
  ({ w with writes := w.writes.push data }, w.failAt != some w.writes.size)

structure FlushRes where
  e : Enc
  w : Writer
  ok : Bool

def btou8 (a : Bool) : UInt8 := if a then 1 else 0

/-- `flush`, "Update the DEFLATE uncompressed block header placeholder." -/
def blockHeader (e : Enc) (ei ej : Nat) (final : Bool) : Enc :=
  let deflateBlockLen := ej - ei
  e.blit (ei - 5) [btou8 final,
    UInt8.ofNat deflateBlockLen, UInt8.ofNat (deflateBlockLen >>> 8),
    (0xFF : UInt8) ^^^ UInt8.ofNat deflateBlockLen, (0xFF : UInt8) ^^^ UInt8.ofNat (deflateBlockLen >>> 8)]

/-- `flush`, "(and maybe write) the Adler-32 checksum": `if final { e.buf[ej+i] = e.buf[0xFFFC+i]; ej += 4 }`;
returns the encoder and the new `ej`. -/
def appendAdler (e : Enc) (ej : Nat) (final : Bool) : Enc × Nat :=
  if final then
    let e := e.set (ej + 0) (rd e.buf 0xFFFC)
    let e := e.set (ej + 1) (rd e.buf 0xFFFD)
    let e := e.set (ej + 2) (rd e.buf 0xFFFE)
    (e.set (ej + 3) (rd e.buf 0xFFFF), ej + 4)
  else (e, ej)

/-- `flush`, "Write the CRC-32/IEEE checksum." (the slice `e.buf[crc32Start:ej]` needs `ej ≤ len`);
returns the encoder and `ej + 4`. -/
def appendCRC (e : Enc) (crc32Start ej : Nat) : Enc × Nat :=
  let e := if ej > e.buf.size then { e with oob := true } else e
  let idatCRC32 := crc32IEEE e.buf crc32Start ej
  (e.blit ej (be32 idatCRC32.toNat), ej + 4)

/-- `flush`, from `if !final {` to the end: the `Write` calls, re-arming `IDAT`, the `IEND` chunk. -/
def emit (e : Enc) (w : Writer) (ej : Nat) (final : Bool) : FlushRes :=
  if !final then
    let e := if ej > e.buf.size then { e with oob := true } else e
    let r := w.write (e.buf.extract 0 ej)
    if !r.2 then ⟨e, r.1, false⟩ else
    ⟨e.blit 0x0004 tagIDAT, r.1, true⟩
  else
    let writeSeparateIENDChunk := ej + 12 > 65536
    let e := if !writeSeparateIENDChunk then e.blit ej iendChunk else e
    let ej := if !writeSeparateIENDChunk then ej + 12 else ej
    let e := if ej > e.buf.size then { e with oob := true } else e
    let r := w.write (e.buf.extract 0 ej)
    if !r.2 then ⟨e, r.1, false⟩ else
    if writeSeparateIENDChunk then
      let e := e.blit 0 iendChunk
      let r2 := r.1.write (e.buf.extract 0 12)
      ⟨e, r2.1, r2.2⟩
    else ⟨e, r.1, true⟩

/-- The part of `flush` after the `if e.buf[0x0004] == 0x0D { … } else { … }`, which has stored the
big-endian `idatChunkLen` and chosen `crc32Start` and `ei`. -/
def flushTail (e : Enc) (w : Writer) (ej : Nat) (final : Bool) (crc32Start ei : Nat) : FlushRes :=
  let e := blockHeader e ei ej final
  let e := updateAdler32 e ei ej
  let r := appendAdler e ej final
  let r := appendCRC r.1 crc32Start r.2
  emit r.1 w r.2 final

/-- `func (e *Encoder) flush(w, ej, final) error` -/
def flush (e : Enc) (w : Writer) (ej : Nat) (final : Bool) : FlushRes :=
  -- Update the IDAT chunk length placeholder.
  if rd e.buf 0x0004 == 0x0D then -- First IDAT chunk.
    let idatChunkLen := ej - 0x0029 + (if final then 4 else 0)
    flushTail (e.blit 0x0021 (be32 idatChunkLen)) w ej final 0x0025 eiFirst
  else -- Later IDAT chunk.
    let idatChunkLen := ej - 0x0008 + (if final then 4 else 0)
    flushTail (e.blit 0x0000 (be32 idatChunkLen)) w ej final 0x0004 eiLater

/-- State of the loops of `Encode`: encoder, writer, the local `ej`, and `ok = false` once the
loop has stopped early (writer error, or panic when `e.oob`). -/
structure LoopSt where
  e : Enc
  w : Writer
  ej : Nat
  ok : Bool

/-- `if (ej + n) > ejMax { if err := e.flush(w, ej, false); err != nil { return err }; ej = eiLater }` -/
def reserve (s : LoopSt) (n : Nat) : LoopSt :=
  if s.ej + n > ejMax then
    let r := flush s.e s.w s.ej false
    ⟨r.e, r.w, eiLater, r.ok⟩
  else s

/-- `e.buf[ej+0] = row[0]; … ; e.buf[ej+n-1] = row[n-1]` with `row = pix[off:]`. -/
def copyN (pix : Array UInt8) : Nat → Nat → Nat → Enc → Enc
  | 0, _, _, e => e
  | n + 1, off, ej, e => copyN pix n (off + 1) (ej + 1) (e.set ej (rd pix off))

/-- `for x := 0; x < width; x++ { reserve n; copy n bytes; ej += n; row = row[k:] }`,
`cnt` iterations left, `row = pix[off:]`. -/
def pixLoop (pix : Array UInt8) (n k : Nat) : Nat → Nat → LoopSt → LoopSt
  | 0, _, s => s
  | cnt + 1, off, s =>
    let s := reserve s n
    if s.ok then
      pixLoop pix n k cnt (off + k) ⟨copyN pix n off s.ej s.e, s.w, s.ej + n, true⟩
    else s

/-- Go `int` arithmetic is 64-bit two's complement: the value an `int` holds after computing the
mathematical result `v` (Go spec, "Integer overflow": signed overflow wraps, no panic). -/
def wrapInt64 (v : Int) : Int :=
  (v + 9223372036854775808) % 18446744073709551616 - 9223372036854775808

/-- `(n, k)` of the `switch ColorType(depth) | colorType`. No case matches ⇒ no copying. -/
def loopParams (depth colorType : UInt8) : Nat × Nat :=
  let c := depth ||| colorType
  if c = 0x09 then (1, 1) else if c = 0x0A then (3, 4) else if c = 0x0B then (4, 4)
  else if c = 0x11 then (2, 2) else if c = 0x12 then (6, 8) else if c = 0x13 then (8, 8)
  else (0, 0)

/-- `for y := 0; y < height; y++ { … }`, `rows` iterations left. -/
def rowLoop (pix : Array UInt8) (plen width : Nat) (stride : Int) (n k : Nat) : Nat → Nat → LoopSt → LoopSt
  | 0, _, s => s
  | rows + 1, y, s =>
    let s := reserve s 1
    if s.ok then
      -- e.buf[ej+0] = 0 // PNG 'none' filter.
      let e := s.e.set s.ej 0
      -- row := pix[y*stride:]    needs 0 ≤ low ≤ len(pix)
      -- row = row[:k*width]      needs high ≤ cap(row) = cap(pix) - low
      let off : Int := wrapInt64 ((y : Int) * stride)
      if off < 0 ∨ off > (plen : Int) ∨ off + ((k * width : Nat) : Int) > (pix.size : Int) then
        ⟨{ e with oob := true }, s.w, s.ej + 1, false⟩
      else
        let s := pixLoop pix n k width off.toNat ⟨e, s.w, s.ej + 1, true⟩
        if s.ok then rowLoop pix plen width stride n k rows (y + 1) s else s
    else s

inductive Status where
  | ok | invalidArgument | unsupportedSize | writeError | panic
deriving DecidableEq, Repr

structure Result where
  e : Enc
  w : Writer
  status : Status

/-- `func (e *Encoder) Encode(w, pix, width, height, stride, depth, colorType) error` -/
def encode (e : Enc) (w : Writer) (pix : Array UInt8) (plen : Nat) (width height stride : Int)
    (depth colorType : UInt8) : Result :=
  if width < 0 ∨ height < 0 ∨ (depth ≠ 8 ∧ depth ≠ 16) ∨ pngFileFormatEncoding colorType = 0xFF then
    ⟨e, w, .invalidArgument⟩
  else if width > 0xFFFFFF ∨ height > 0xFFFFFF then
    ⟨e, w, .unsupportedSize⟩
  else
    let e := init e width.toNat height.toNat depth colorType
    let p := loopParams depth colorType
    let s := rowLoop pix plen width.toNat stride p.1 p.2 height.toNat 0 ⟨e, w, eiFirst, true⟩
    if s.ok then
      let r := flush s.e s.w s.ej true
      ⟨r.e, r.w, if r.e.oob then .panic else if r.ok then .ok else .writeError⟩
    else
      ⟨s.e, s.w, if s.e.oob then .panic else .writeError⟩

end WuffsVerif.Png.Uncomp
