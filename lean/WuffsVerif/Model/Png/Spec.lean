/-
An independent, strict reference decoder for the subset of PNG that a not-compressing encoder can
produce (PNG 2nd edition §5 datastream structure, RFC 1950 zlib, RFC 1951 §3.2.4 stored blocks):

  signature; chunks (length, type, data, CRC-32 over type+data — checked with the *bit-serial* CRC);
  first chunk IHDR (13 bytes: width, height > 0, bit depth 8|16, colour type 0|2|4|6,
  compression 0, filter 0, interlace 0); then one or more IDAT chunks; then an empty IEND; nothing else;
  concatenated IDAT data = zlib stream: CMF/FLG (CM=8, CINFO≤7, FCHECK, no FDICT), DEFLATE blocks
  all of type 00 (stored: LEN, NLEN = ~LEN, LEN literal bytes) up to the block with BFINAL, then the
  big-endian Adler-32 of the inflated data (checked with the mathematical definition) and nothing more;
  inflated data = height scanlines of 1 + width*channels*depth/8 bytes, each with filter type 0.

Anything outside this subset (other filters, compressed blocks, ancillary chunks, interlacing, palette,
depth < 8) is rejected with `none`; accepting is therefore a stronger statement than "some PNG decoder
accepts".  Written over `List UInt8` with library functions only (`take`, `drop`, `++`), sharing no
code with the encoder model except `Hash`'s *specification* checksums.
-/
import WuffsVerif.Model.Hash

namespace WuffsVerif.Png.Spec
open WuffsVerif.Hash

/-- `n ≤ l.length`, looking at no more than `n` cells (keeps the decoder linear on long inputs). -/
def hasLen : List UInt8 → Nat → Bool
  | _, 0 => true
  | [], _ + 1 => false
  | _ :: t, n + 1 => hasLen t n

theorem hasLen_iff (l : List UInt8) (n : Nat) : hasLen l n = true ↔ n ≤ l.length := by
  induction l generalizing n with
  | nil => cases n <;> simp [hasLen]
  | cons x t ih => cases n <;> simp [hasLen, ih]

/-- big-endian value of a 4-byte list (0 for any other length). -/
def readBE32 : List UInt8 → Nat
  | [a, b, c, d] => ((a.toNat * 256 + b.toNat) * 256 + c.toNat) * 256 + d.toNat
  | _ => 0

structure Chunk where
  typ : List UInt8
  data : List UInt8
deriving DecidableEq, Repr

set_option linter.unusedVariables false in
/-- Split a byte string into chunks, checking lengths and CRCs; `none` on any leftover/short/bad CRC. -/
def parseChunks (bs : List UInt8) : Option (List Chunk) :=
  if bs.isEmpty then some []
  else if h12 : !hasLen bs 12 then none
  else
    let len := readBE32 (bs.take 4)
    if len ≥ 2 ^ 31 ∨ !hasLen bs (12 + len) then none
    else
      let typ := (bs.drop 4).take 4
      let data := (bs.drop 8).take len
      let crc := readBE32 ((bs.drop (8 + len)).take 4)
      if (crc32Spec (typ ++ data)).toNat ≠ crc then none
      else
        match parseChunks (bs.drop (12 + len)) with
        | none => none
        | some cs => some (⟨typ, data⟩ :: cs)
termination_by bs.length
decreasing_by
  have := (hasLen_iff bs 12).mp (by simpa using h12)
  simp only [List.length_drop]
  omega

/-- DEFLATE restricted to stored blocks: returns (inflated bytes, input left after the final block). -/
def inflateStored (bs : List UInt8) : Option (List UInt8 × List UInt8) :=
  match bs with
  | hdr :: l0 :: l1 :: n0 :: n1 :: rest =>
    if hdr &&& 6 ≠ 0 then none   -- BTYPE ≠ 00
    else
      let len := l0.toNat + 256 * l1.toNat
      let nlen := n0.toNat + 256 * n1.toNat
      if len + nlen ≠ 65535 then none   -- NLEN is the one's complement of LEN
      else if !hasLen rest len then none
      else if hdr &&& 1 = 1 then some (rest.take len, rest.drop len)
      else
        match inflateStored (rest.drop len) with
        | none => none
        | some (out, tail) => some (rest.take len ++ out, tail)
  | _ => none
termination_by bs.length
decreasing_by
  simp only [List.length_drop, List.length_cons]
  omega

/-- RFC 1950: header, stored-only DEFLATE, Adler-32 trailer, nothing after it. -/
def zlibDecode (z : List UInt8) : Option (List UInt8) :=
  match z with
  | cmf :: flg :: rest =>
    if cmf &&& 0x0F ≠ 8 ∨ cmf >>> 4 > 7 ∨ (cmf.toNat * 256 + flg.toNat) % 31 ≠ 0 ∨ flg &&& 0x20 ≠ 0 then none
    else
      match inflateStored rest with
      | none => none
      | some (out, tail) =>
        if hasLen tail 4 ∧ !hasLen tail 5 ∧ readBE32 tail = adler32 out then some out else none
  | _ => none

/-- channels per pixel of the PNG colour types without palette -/
def channels : Nat → Option Nat
  | 0 => some 1
  | 2 => some 3
  | 4 => some 2
  | 6 => some 4
  | _ => none

/-- `h` scanlines of `1 + rb` bytes, filter type 0 only; exact length. Accumulates into `acc`. -/
def unfilter (rb : Nat) : Nat → List UInt8 → Array UInt8 → Option (Array UInt8)
  | 0, d, acc => if d.isEmpty then some acc else none
  | h + 1, d, acc =>
    match d with
    | [] => none
    | f :: rest =>
      if f = 0 ∧ hasLen rest rb then unfilter rb h (rest.drop rb) (acc ++ rest.take rb) else none

structure Image where
  width : Nat
  height : Nat
  depth : Nat
  colorType : Nat
  /-- `height` rows of `width * channels * depth/8` bytes, samples big-endian, no padding -/
  pixels : List UInt8
deriving DecidableEq, Repr

def pngSignature : List UInt8 := [137, 80, 78, 71, 13, 10, 26, 10]
def tIHDR : List UInt8 := [73, 72, 68, 82]
def tIDAT : List UInt8 := [73, 68, 65, 84]
def tIEND : List UInt8 := [73, 69, 78, 68]

def decode (bs : List UInt8) : Option Image :=
  if bs.take 8 ≠ pngSignature then none
  else
    match parseChunks (bs.drop 8) with
    | some (ihdr :: rest) =>
      if ihdr.typ ≠ tIHDR ∨ ihdr.data.length ≠ 13 then none
      else
        let w := readBE32 (ihdr.data.take 4)
        let h := readBE32 ((ihdr.data.drop 4).take 4)
        match ihdr.data.drop 8 with
        | [depth, ct, comp, filt, ilace] =>
          if w = 0 ∨ h = 0 ∨ w ≥ 2 ^ 31 ∨ h ≥ 2 ^ 31 then none
          else if comp ≠ 0 ∨ filt ≠ 0 ∨ ilace ≠ 0 then none
          else if depth ≠ 8 ∧ depth ≠ 16 then none
          else
            match channels ct.toNat with
            | none => none
            | some ch =>
              let idats := rest.takeWhile (fun c => c.typ = tIDAT)
              let tail := rest.dropWhile (fun c => c.typ = tIDAT)
              if idats.isEmpty ∨ tail ≠ [⟨tIEND, []⟩] then none
              else
                match zlibDecode (idats.flatMap (·.data)) with
                | none => none
                | some raw =>
                  match unfilter (w * ch * (depth.toNat / 8)) h raw #[] with
                  | none => none
                  | some px => some ⟨w, h, depth.toNat, ct.toNat, px.toList⟩
        | _ => none
    | _ => none

/-! ## What a standard decoder reports for a decoded image

PNG 2nd edition §6.1/§13.12 (and Go's image/png, which the harness compares with on every case):
colour type 0 is greyscale, 2 is truecolour WITHOUT an alpha channel — every pixel fully opaque —,
4 and 6 are the same with an alpha sample.  `Image.rgba` is the (R, G, B, A) tuple of a pixel,
non-premultiplied, in units of the image's own bit depth (0 … 2^depth − 1). -/

/-- sample `c` (0-based) of pixel (x, y) when pixels have `ch` samples: the big-endian value of its
`depth/8` bytes in `pixels` (rows of `width * ch * depth/8` bytes, no padding). -/
def Image.sample (im : Image) (ch x y c : Nat) : Nat :=
  let bps := im.depth / 8
  let i := ((y * im.width + x) * ch + c) * bps
  if bps = 2 then (im.pixels.getD i 0).toNat * 256 + (im.pixels.getD (i + 1) 0).toNat
  else (im.pixels.getD i 0).toNat

/-- the largest sample value, i.e. "fully opaque" when it is the alpha -/
def Image.maxval (im : Image) : Nat := 2 ^ im.depth - 1

/-- (R, G, B, A) of pixel (x, y); `none` outside the image. -/
def Image.rgba (im : Image) (x y : Nat) : Option (Nat × Nat × Nat × Nat) :=
  if x < im.width ∧ y < im.height then
    match im.colorType with
    | 0 => some (im.sample 1 x y 0, im.sample 1 x y 0, im.sample 1 x y 0, im.maxval)
    | 2 => some (im.sample 3 x y 0, im.sample 3 x y 1, im.sample 3 x y 2, im.maxval)
    | 4 => some (im.sample 2 x y 0, im.sample 2 x y 0, im.sample 2 x y 0, im.sample 2 x y 1)
    | 6 => some (im.sample 4 x y 0, im.sample 4 x y 1, im.sample 4 x y 2, im.sample 4 x y 3)
    | _ => none
  else none

/-- the Go type `image/png.Decode` returns for this depth and colour type -/
def Image.goType (im : Image) : String :=
  match im.colorType, im.depth with
  | 0, 8 => "Gray" | 0, 16 => "Gray16"
  | 2, 8 => "RGBA" | 2, 16 => "RGBA64"
  | 4, 8 => "NRGBA" | 4, 16 => "NRGBA64"
  | 6, 8 => "NRGBA" | 6, 16 => "NRGBA64"
  | _, _ => "?"

end WuffsVerif.Png.Spec
