/-
C04 — statement lowering: the control skeleton of a Wuffs function body, the
control skeleton of the C that internal/cgen/statement.go writes for it, a
semantics for each, and `lowerL`, the mirror of

  writeStatement / writeStatementIf / writeStatementWhile / writeStatementJump /
  writeStatementRet (statement.go) and funk.jumpTarget (func.go).

Atomic statements (assignments, call statements), conditions and returned
expressions are opaque indices into an interpretation `Interp` shared by both
sides: what they compute is the subject of the expression theorems
(Props/C04.lean, C04Assign.lean); this file is about CONTROL: if / else-if /
`if true` splicing, while, the `while true { …; break }` → `do { … } while (0)`
rule, innermost `break;` / `continue;`, and non-innermost jumps written as
`goto label__L__break;` / `goto label__L__continue;` with the labels placed
after / before the loop.

The C semantics (`execCS` / `execCL`) is the usual one for structured
statements plus `goto` to a label of an ENCLOSING statement list: a `goto`
travels outwards as an outcome until it reaches a list that contains the label
at its top level, where execution resumes after the label (first occurrence;
a C function with two definitions of one label is not a C program at all — see
`wfL`).  Gotos into a block are not modelled (none is ever written).

Everything is total (fuel) and computable.  Core Lean only.
-/
namespace WuffsVerif.CStmt

/-- what the atomic pieces do: `none` = undefined -/
structure Interp (σ V : Type) where
  act : Nat → σ → Option σ
  cond : Nat → σ → Option Bool
  retv : Nat → σ → Option V

/-- a loop condition; `none` is the literal `true` -/
def Interp.condO {σ V : Type} (I : Interp σ V) (c : Option Nat) (st : σ) : Option Bool :=
  match c with
  | none => some true
  | some c => I.cond c st

/-! ## Wuffs side -/

/-- Control skeleton of a Wuffs statement list (lang/ast: KAssign, KIf, KWhile,
KJump, KRet; KVar and KAssert write nothing and are dropped).  A loop carries
its identity `id` (the `ast.Loop` pointer); a jump carries the identity of its
target (`Jump.JumpTarget()`, resolved by the parser). -/
inductive WStmt where
  | act (a : Nat)
  /-- `if c { t } else { e }`; `elif`: the else part is an `else if` chain
  (`If.ElseIf()`), which only matters for the text. -/
  | ite (c : Nat) (elif : Bool) (t e : List WStmt)
  /-- `if <constant true> { t }` without else: writeStatementIf writes just `t` -/
  | ifTrue (t : List WStmt)
  /-- `while.label c { body }`; `c = none` is `While.IsWhileTrue()` -/
  | while (id : Nat) (c : Option Nat) (body : List WStmt)
  /-- `break` (`brk = true`) or `continue` -/
  | jump (brk : Bool) (target : Nat)
  | ret (e : Nat)
  deriving Inhabited, Repr

inductive WOut (σ V : Type) where
  | next (s : σ)
  | jmp (brk : Bool) (id : Nat) (s : σ)
  | ret (v : V) (s : σ)
  deriving Repr, DecidableEq

/-- what a loop does with the outcome of its body (WSem.execWhile): `again`
runs the loop once more -/
def whileAfterW {σ V : Type} (id : Nat) (again : σ → Option (WOut σ V)) : WOut σ V → Option (WOut σ V)
  | .next st' => again st'
  | .jmp b j st' =>
    if j = id then (if b then some (.next st') else again st') else some (.jmp b j st')
  | .ret v st' => some (.ret v st')

/-- sequencing (WSem.execBlock) -/
def seqAfterW {σ V : Type} (rest : σ → Option (WOut σ V)) : WOut σ V → Option (WOut σ V)
  | .next st' => rest st'
  | o => some o

mutual
/-- one statement (mirror of Model/WSem.lean execStmt / execWhile) -/
def execWS {σ V : Type} (I : Interp σ V) : Nat → WStmt → σ → Option (WOut σ V)
  | 0, _, _ => none
  | fuel + 1, s, st =>
    match s with
    | .act a => (I.act a st).map .next
    | .ite c _ t e =>
      match I.cond c st with
      | none => none
      | some true => execWL I fuel t st
      | some false => execWL I fuel e st
    | .ifTrue t => execWL I fuel t st
    | .jump b j => some (.jmp b j st)
    | .ret e => (I.retv e st).map (fun v => .ret v st)
    | .while id c body =>
      match I.condO c st with
      | none => none
      | some false => some (.next st)
      | some true =>
        (execWL I fuel body st).bind (whileAfterW id (fun st' => execWS I fuel (.while id c body) st'))
/-- a statement list, left to right (WSem.execBlock) -/
def execWL {σ V : Type} (I : Interp σ V) : Nat → List WStmt → σ → Option (WOut σ V)
  | _, [], st => some (.next st)
  | 0, _ :: _, _ => none
  | fuel + 1, s :: r, st =>
    (execWS I fuel s st).bind (seqAfterW (fun st' => execWL I fuel r st'))
end

/-! ## C side -/

structure Label where
  id : Nat
  brk : Bool
  deriving DecidableEq, Repr, Inhabited

inductive CStmt where
  | act (a : Nat)
  | ite (c : Nat) (elif : Bool) (t e : List CStmt)
  /-- statements written without braces of their own (the body of an
  `if true`); they contain no declarations, so `{ S }` and `S` are the same C -/
  | block (b : List CStmt)
  | while (c : Option Nat) (body : List CStmt)
  | doWhile0 (body : List CStmt)
  | brk
  | cont
  | goto (l : Label)
  | label (l : Label)
  | ret (e : Nat)
  deriving Inhabited, Repr

inductive COut (σ V : Type) where
  | normal (s : σ)
  | brk (s : σ)
  | cont (s : σ)
  | goto (l : Label) (s : σ)
  | ret (v : V) (s : σ)
  deriving Repr, DecidableEq

/-- the statements after the first top-level `l:;` of a list -/
def findLabel (l : Label) : List CStmt → Option (List CStmt)
  | [] => none
  | .label l' :: r => if l' = l then some r else findLabel l r
  | _ :: r => findLabel l r

/-- `do { body } while (0)`: `continue` goes to the controlling expression `0`,
so normal completion, `break` and `continue` all leave the loop -/
def doWhileAfterC {σ V : Type} : COut σ V → COut σ V
  | .normal st' | .brk st' | .cont st' => .normal st'
  | o => o

/-- `while (c) { body }` after one run of the body -/
def whileAfterC {σ V : Type} (again : σ → Option (COut σ V)) : COut σ V → Option (COut σ V)
  | .normal st' | .cont st' => again st'
  | .brk st' => some (.normal st')
  | o => some o

/-- a statement list after one statement: a `goto` whose label is a top-level
statement of `whole` resumes there (`resume`), any other abrupt outcome ends
the list -/
def seqAfterC {σ V : Type} (whole : List CStmt) (rest : σ → Option (COut σ V))
    (resume : List CStmt → σ → Option (COut σ V)) : COut σ V → Option (COut σ V)
  | .normal st' => rest st'
  | .goto l st' =>
    match findLabel l whole with
    | some r' => resume r' st'
    | none => some (.goto l st')
  | o => some o

mutual
def execCS {σ V : Type} (I : Interp σ V) : Nat → CStmt → σ → Option (COut σ V)
  | 0, _, _ => none
  | fuel + 1, s, st =>
    match s with
    | .act a => (I.act a st).map .normal
    | .ite c _ t e =>
      match I.cond c st with
      | none => none
      | some true => execCL I fuel t t st
      | some false => execCL I fuel e e st
    | .block b => execCL I fuel b b st
    | .brk => some (.brk st)
    | .cont => some (.cont st)
    | .goto l => some (.goto l st)
    | .label _ => some (.normal st)
    | .ret e => (I.retv e st).map (fun v => .ret v st)
    | .doWhile0 body => (execCL I fuel body body st).map doWhileAfterC
    | .while c body =>
      match I.condO c st with
      | none => none
      | some false => some (.normal st)
      | some true =>
        (execCL I fuel body body st).bind (whileAfterC (fun st' => execCS I fuel (.while c body) st'))
/-- `execCL I fuel whole rest st`: run the suffix `rest` of the statement list `whole` -/
def execCL {σ V : Type} (I : Interp σ V) : Nat → List CStmt → List CStmt → σ → Option (COut σ V)
  | _, _, [], st => some (.normal st)
  | 0, _, _ :: _, _ => none
  | fuel + 1, whole, s :: r, st =>
    (execCS I fuel s st).bind
      (seqAfterC whole (fun st' => execCL I fuel whole r st') (fun r' st' => execCL I fuel whole r' st'))
end

/-! ## Lowering (mirror of internal/cgen/statement.go) -/

mutual
/-- some `break` (`b = true`) / `continue` anywhere in the list targets loop `j`:
`FlagsHasBreak` / `FlagsHasContinue` of loop `j` when the list is its body
(lang/parse parseStatement1: `loop.SetHasBreak(deep)`) -/
def jumpsToS (b : Bool) (j : Nat) : WStmt → Bool
  | .act _ => false
  | .ite _ _ t e => jumpsToL b j t || jumpsToL b j e
  | .ifTrue t => jumpsToL b j t
  | .while _ _ body => jumpsToL b j body
  | .jump b' j' => b' == b && j' == j
  | .ret _ => false
def jumpsToL (b : Bool) (j : Nat) : List WStmt → Bool
  | [] => false
  | s :: r => jumpsToS b j s || jumpsToL b j r
end

mutual
/-- … from inside a loop nested in the list: `FlagsHasDeepBreak` /
`FlagsHasDeepContinue` (`deep := loop != p.loops.Top()`) -/
def deepJumpsToS (b : Bool) (j : Nat) : WStmt → Bool
  | .act _ => false
  | .ite _ _ t e => deepJumpsToL b j t || deepJumpsToL b j e
  | .ifTrue t => deepJumpsToL b j t
  | .while _ _ body => jumpsToL b j body
  | .jump _ _ => false
  | .ret _ => false
def deepJumpsToL (b : Bool) (j : Nat) : List WStmt → Bool
  | [] => false
  | s :: r => deepJumpsToS b j s || deepJumpsToL b j r
end

/-- the last statement is `break` out of loop `id` -/
def lastIsBreakTo (id : Nat) : List WStmt → Bool
  | [] => false
  | [s] => (match s with | .jump true j => j == id | _ => false)
  | _ :: s :: r => lastIsBreakTo id (s :: r)

/-- writeStatementWhile: `n.IsWhileTrue() && !n.HasContinue() && len(body) > 0`
and the final statement is a `break` whose target is `n` -/
def isTrivialLoop (id : Nat) (c : Option Nat) (body : List WStmt) : Bool :=
  c.isNone && !jumpsToL false id body && lastIsBreakTo id body

mutual
/-- writeStatement; `top` is `g.currFunk.activeLoops.Top()` -/
def lowerS (top : Option Nat) : WStmt → List CStmt
  | .act a => [.act a]
  | .ite c elif t e => [.ite c elif (lowerL top t) (lowerL top e)]
  | .ifTrue t => [.block (lowerL top t)]
  | .jump b j =>
    if top = some j then [if b then .brk else .cont] else [.goto ⟨j, b⟩]
  | .ret e => [.ret e]
  | .while id c body =>
    let pre : List CStmt := if deepJumpsToL false id body then [.label ⟨id, false⟩] else []
    let post : List CStmt := if deepJumpsToL true id body then [.label ⟨id, true⟩] else []
    let loop : CStmt :=
      -- `body[:len(body)-1]`: the final `break` is one C statement (`break;`), see
      -- `lowerL_dropLast` in Proof/CStmtLemmas.lean
      if isTrivialLoop id c body then .doWhile0 (lowerL (some id) body).dropLast
      else .while c (lowerL (some id) body)
    pre ++ loop :: post
def lowerL (top : Option Nat) : List WStmt → List CStmt
  | [] => []
  | s :: r => lowerS top s ++ lowerL top r
end

/-! ## Well-formedness: what the parser and funk.jumpTarget guarantee -/

mutual
/-- identities of the loops that are statements of this list (through
`if true` splicing): their labels are top-level statements of the lowered list -/
def topLoopsS : WStmt → List Nat
  | .while id _ _ => [id]
  | _ => []
def topLoopsL : List WStmt → List Nat
  | [] => []
  | s :: r => topLoopsS s ++ topLoopsL r
end

mutual
/-- `encl`: the enclosing loops, innermost first (`p.loops` / `activeLoops`).
* a jump targets an enclosing loop (parseStatement1 looks the label up in `p.loops`);
* a loop's C label differs from those of the enclosing loops (`LoopStack.Push`
  refuses a nested duplicate) …
* … and from those of the other loops of the same statement list
  (`funk.jumpTarget` after fixes/C04-duplicate-jump-label.patch gives every loop
  of a function its own C label; before it, two sibling loops labelled alike
  got the same `label__w__break:;` twice — not a C program). -/
def wfS (encl : List Nat) : WStmt → Bool
  | .act _ => true
  | .ite _ _ t e => wfL encl t && wfL encl e
  | .ifTrue t => wfL encl t
  | .while id _ body => !encl.contains id && wfL (id :: encl) body
  | .jump _ j => encl.contains j
  | .ret _ => true
def wfL (encl : List Nat) : List WStmt → Bool
  | [] => true
  | s :: r => wfS encl s && wfL encl r && (topLoopsS s).all (fun i => !(topLoopsL r).contains i)
end

/-! ## Text of the skeleton (compared with the emitted C by harness/cmd/c04) -/

mutual
def showS : CStmt → List String
  | .act _ => ["A"]
  | .ite _ elif t e => ["I{"] ++ showL t ++ showElse elif e
  | .block b => showL b
  | .while _ body => ["W{"] ++ showL body ++ ["}"]
  | .doWhile0 body => ["D{"] ++ showL body ++ ["}"]
  | .brk => ["B"]
  | .cont => ["C"]
  | .goto l => [s!"G:{l.id}:{if l.brk then "b" else "c"}"]
  | .label l => [s!"L:{l.id}:{if l.brk then "b" else "c"}"]
  | .ret _ => ["R"]
def showL : List CStmt → List String
  | [] => []
  | s :: r => showS s ++ showL r
/-- the else part: nothing, `} else {`, or the `} else if (…) {` chain -/
def showElse : Bool → List CStmt → List String
  | _, [] => ["}"]
  | true, [.ite _ elif t e] => ["}EI{"] ++ showL t ++ showElse elif e
  | _, s :: r => ["}E{"] ++ showS s ++ showL r ++ ["}"]
end

end WuffsVerif.CStmt
