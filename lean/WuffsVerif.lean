import WuffsVerif.Common.Line
