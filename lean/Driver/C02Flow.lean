import WuffsVerif.Common.Line
import WuffsVerif.Model.Flow
import WuffsVerif.Model.FlowWf
import WuffsVerif.Gen.C02_AxiomDefs
/-! Line-protocol part of the C02 driver for the FACTS half (Model/Flow.lean).

  case flow <stmt>   -> accept <npoints> | reject      (checkS [] [] on a function body)
                        `ill-formed` instead, when the body fails `wfProg` (Model/FlowWf.lean): the
                        hypotheses of the facts theorems do not hold for it
  pt <k>             -> <m> <fact>*m | unreachable      (the situation at point k of the current program)

  <stmt> = skip | seq <stmt> <stmt> | assign <e> <e> | opassign <op> <e> <e>
         | assert <e> none | assert <e> via <axiom-index> <n> (<var-index> <e>)*n
         | if <e> <stmt> <stmt> | while <n> (<pre|inv|post> <e>)*n <e> <stmt>
         | jump b <depth> | jump c <depth> | call <n> (<e> <type>)*n | cocall <n> (<e> <type>)*n
         | callassign <lhs> <result type> <n> (<e> <type>)*n
         | yield | ret0 | ret <e> <type>
  <e>, <type>: as in the C01 driver (c / v / u / b / as / a / ix).

Points, in the order the harness probes them: for `seq a b` the point before `a`, the
points inside `a`, then the points of `b`; for the final `skip` of a block the point at
its end; inside `if` the points of the then block, then (if there is an else part) of
the else block; inside `while` the points of the body.
-/
open WuffsVerif WuffsVerif.Line WuffsVerif.Interval WuffsVerif.WCore WuffsVerif.WFlow

namespace C02Flow

def parseBase : String → Option Base
  | "i8" => some .i8 | "i16" => some .i16 | "i32" => some .i32 | "i64" => some .i64
  | "u8" => some .u8 | "u16" => some .u16 | "u32" => some .u32 | "u64" => some .u64
  | "bool" => some .bool | "ideal" => some .ideal
  | _ => none

def parseOptInt (s : String) : Option (Option Int) :=
  if s == "_" then some none else s.toInt?.map some

def parseTy : List String → Option (Ty × List String)
  | b :: lo :: hi :: rest => do
    let b ← parseBase b
    let lo ← parseOptInt lo
    let hi ← parseOptInt hi
    pure (⟨b, lo, hi⟩, rest)
  | _ => none

def parseBOp : String → Option BOp
  | "plus" => some .plus | "minus" => some .minus | "star" => some .star | "slash" => some .slash
  | "percent" => some .percent | "shl" => some .shl | "shr" => some .shr | "amp" => some .amp
  | "pipe" => some .pipe | "hat" => some .hat | "modplus" => some .modplus
  | "modminus" => some .modminus | "modstar" => some .modstar | "modshl" => some .modshl
  | "satplus" => some .satplus | "satminus" => some .satminus
  | "ne" => some .ne | "lt" => some .lt | "le" => some .le | "eq" => some .eq
  | "ge" => some .ge | "gt" => some .gt | "and" => some .and | "or" => some .or
  | "min" => some .bmin | "max" => some .bmax | "lowbits" => some .lowbits | "highbits" => some .highbits
  | _ => none

def parseUOp : String → Option UOp
  | "pos" => some .pos | "neg" => some .neg | "not" => some .not
  | _ => none

mutual
partial def parseExpr : List String → Option (Expr × List String)
  | "c" :: v :: rest => do pure (.const (← v.toInt?), rest)
  | "v" :: n :: rest => do
    let (t, rest) ← parseTy rest
    pure (.var n t, rest)
  | "u" :: op :: rest => do
    let op ← parseUOp op
    let (e, rest) ← parseExpr rest
    pure (.unary op e, rest)
  | "b" :: op :: rest => do
    let op ← parseBOp op
    let (l, rest) ← parseExpr rest
    let (r, rest) ← parseExpr rest
    pure (.binary op l r, rest)
  | "as" :: rest => do
    let (t, rest) ← parseTy rest
    let (e, rest) ← parseExpr rest
    pure (.as t e, rest)
  | "a" :: op :: n :: rest => do
    let op ← parseBOp op
    let n ← n.toNat?
    if n < 2 then none else
    let (a0, rest) ← parseExpr rest
    parseChain op (n - 1) a0 false rest
  | "ix" :: a :: len :: rest => do
    let len ← len.toNat?
    let (t, rest) ← parseTy rest
    let (i, rest) ← parseExpr rest
    pure (.index a len t i, rest)
  | _ => none
partial def parseChain (op : BOp) (k : Nat) (acc : Expr) (pre : Bool) (rest : List String) :
    Option (Expr × List String) :=
  if k == 0 then some (acc, rest) else do
    let (a, rest) ← parseExpr rest
    parseChain op (k - 1) (.assoc op pre acc a) true rest
end

def showTy (t : Ty) : String :=
  let b := match t.base with
    | .i8 => "i8" | .i16 => "i16" | .i32 => "i32" | .i64 => "i64"
    | .u8 => "u8" | .u16 => "u16" | .u32 => "u32" | .u64 => "u64" | .bool => "bool" | .ideal => "ideal"
  let o := fun (x : Option Int) => match x with | some i => toString i | none => "_"
  b ++ " " ++ o t.min ++ " " ++ o t.max

def showBOp : BOp → String
  | .plus => "plus" | .minus => "minus" | .star => "star" | .slash => "slash" | .percent => "percent"
  | .shl => "shl" | .shr => "shr" | .amp => "amp" | .pipe => "pipe" | .hat => "hat"
  | .modplus => "modplus" | .modminus => "modminus" | .modstar => "modstar" | .modshl => "modshl"
  | .satplus => "satplus" | .satminus => "satminus" | .ne => "ne" | .lt => "lt" | .le => "le"
  | .eq => "eq" | .ge => "ge" | .gt => "gt" | .and => "and" | .or => "or"
  | .bmin => "min" | .bmax => "max" | .lowbits => "lowbits" | .highbits => "highbits"

def showUOp : UOp → String
  | .pos => "pos" | .neg => "neg" | .not => "not"

partial def chainArgs : Expr → List Expr
  | .assoc _ true l r => chainArgs l ++ [r]
  | .assoc _ false l r => [l, r]
  | e => [e]

partial def showExpr : Expr → String
  | .const v => "c " ++ toString v
  | .var n t => "v " ++ n ++ " " ++ showTy t
  | .unary op e => "u " ++ showUOp op ++ " " ++ showExpr e
  | .binary op l r => "b " ++ showBOp op ++ " " ++ showExpr l ++ " " ++ showExpr r
  | .as t e => "as " ++ showTy t ++ " " ++ showExpr e
  | .assoc op pre l r =>
    let args := chainArgs (.assoc op pre l r)
    "a " ++ showBOp op ++ " " ++ toString args.length ++ " " ++ " ".intercalate (args.map showExpr)
  | .index a len t i => "ix " ++ a ++ " " ++ toString len ++ " " ++ showTy t ++ " " ++ showExpr i

def parseKind : String → Option AKind
  | "pre" => some .pre | "inv" => some .inv | "post" => some .post
  | _ => none

partial def parseArgs (k : Nat) (toks : List String) (acc : List (Expr × Ty)) :
    Option (List (Expr × Ty) × List String) :=
  if k == 0 then some (acc.reverse, toks) else do
    let (e, rest) ← parseExpr toks
    let (t, rest) ← parseTy rest
    parseArgs (k - 1) rest ((e, t) :: acc)

partial def parseSubst (k : Nat) (toks : List String) (acc : Subst) : Option (Subst × List String) :=
  if k == 0 then some (acc.reverse, toks) else
    match toks with
    | i :: rest => do
      let i ← i.toNat?
      let (e, rest) ← parseExpr rest
      parseSubst (k - 1) rest ((i, e) :: acc)
    | [] => none

partial def parseSpec (k : Nat) (toks : List String) (acc : LoopSpec) : Option (LoopSpec × List String) :=
  if k == 0 then some (acc.reverse, toks) else
    match toks with
    | kd :: rest => do
      let kd ← parseKind kd
      let (e, rest) ← parseExpr rest
      parseSpec (k - 1) rest ((kd, e) :: acc)
    | [] => none

partial def parseStmt : List String → Option (FStmt × List String)
  | "skip" :: rest => some (.skip, rest)
  | "seq" :: rest => do
    let (a, rest) ← parseStmt rest
    let (b, rest) ← parseStmt rest
    pure (.seq a b, rest)
  | "assign" :: rest => do
    let (l, rest) ← parseExpr rest
    let (r, rest) ← parseExpr rest
    pure (.base (.assign l r), rest)
  | "opassign" :: op :: rest => do
    let op ← parseBOp op
    let (l, rest) ← parseExpr rest
    let (r, rest) ← parseExpr rest
    pure (.base (.opAssign op l r), rest)
  | "assert" :: rest => do
    let (c, rest) ← parseExpr rest
    match rest with
    | "none" :: rest => pure (.assert c none, rest)
    | "via" :: i :: n :: rest => do
      let i ← i.toNat?
      let n ← n.toNat?
      let ax ← WuffsVerif.Gen.C02.axioms[i]?
      let (args, rest) ← parseSubst n rest []
      pure (.assert c (some ⟨ax, args⟩), rest)
    | _ => none
  | "if" :: rest => do
    let (c, rest) ← parseExpr rest
    let (t, rest) ← parseStmt rest
    let (e, rest) ← parseStmt rest
    pure (.ite c t e, rest)
  | "while" :: n :: rest => do
    let n ← n.toNat?
    let (sp, rest) ← parseSpec n rest []
    let (c, rest) ← parseExpr rest
    let (b, rest) ← parseStmt rest
    pure (.while sp c b, rest)
  | "jump" :: "b" :: k :: rest => do pure (.jump true (← k.toNat?), rest)
  | "jump" :: "c" :: k :: rest => do pure (.jump false (← k.toNat?), rest)
  | "call" :: n :: rest => do
    let (args, rest) ← parseArgs (← n.toNat?) rest []
    pure (.call args, rest)
  | "callassign" :: rest => do
    let (l, rest) ← parseExpr rest
    let (t, rest) ← parseTy rest
    match rest with
    | n :: rest => do
      let (args, rest) ← parseArgs (← n.toNat?) rest []
      pure (.callAssign l t args, rest)
    | [] => none
  | "cocall" :: n :: rest => do
    let (args, rest) ← parseArgs (← n.toNat?) rest []
    pure (.cocall args, rest)
  | "yield" :: rest => some (.yield, rest)
  | "ret0" :: rest => some (.ret none, rest)
  | "ret" :: rest => do
    let (e, rest) ← parseExpr rest
    let (t, rest) ← parseTy rest
    pure (.ret (some (e, t)), rest)
  | _ => none

def showFacts (fs : List Expr) : String :=
  toString fs.length ++ String.join (fs.map fun f => " " ++ showExpr f)

structure State where
  pts : Array (Option (List Expr)) := #[]

def step (st : State) (l : List String) : Option (State × String) :=
  match l with
  | "case" :: "flow" :: rest =>
    match parseStmt rest with
    | some (s, []) =>
      if !wfProg s then some ({ pts := #[] }, "ill-formed") else
      match checkS [] [] s with
      | none => some ({ pts := #[] }, "reject")
      | some _ =>
        let p := (points [] (some []) s).toArray
        some ({ pts := p }, "accept " ++ toString p.size)
    | _ => some ({ pts := #[] }, "bad-op")
  | ["pt", k] =>
    match k.toNat? with
    | some k =>
      match st.pts[k]? with
      | some (some fs) => some (st, showFacts fs)
      | some none => some (st, "unreachable")
      | none => some (st, "bad-op")
    | none => some (st, "bad-op")
  | _ => none

end C02Flow
