import WuffsVerif.Common.Line
import WuffsVerif.Model.Axioms
import WuffsVerif.Gen.C02_AxiomDefs
import Driver.C02Flow
/-! Line driver for C02.  Facts half: `case flow …` / `pt k` (see Driver/C02Flow.lean).  Axioms half, ops:
  name i                -> md=<axioms.md string> | data=<data.go name> | body=<rule read back from the body>
  ax i v0 v1 …          -> holds | premise-false | VIOLATED   (axiom i of axioms.md; vars in sorted-name order)
  impl i v0 v1 …        -> same, for the rule implemented by data.go's reason function i
  parse <hex of text>   -> ok <canonical text> | <vars> , or err   (Lean model of gen.go's parser)
`ax`/`impl` evaluate BOTH the generated data through `Axiom.check` (the function the theorems are about)
and the generated direct arithmetic `evalAxiom`; they must agree, else `MISMATCH`. Also the Lean parser
applied to the listed string must give the generated data, else `GEN-MISMATCH`.
-/
open WuffsVerif WuffsVerif.Line WuffsVerif.Axioms

def getS (l : List String) (i : Nat) : String := (l[i]?).getD "<missing>"

def evalBoth (axs : List Axiom) (texts : List String) (direct : Nat → List Int → String)
    (i : Nat) (vals : List Int) : String :=
  match axs[i]? with
  | none => "bad-op"
  | some ax =>
    let a := (ax.check vals).toString
    let b := direct i vals
    if a != b then "MISMATCH " ++ a ++ " " ++ b else
    match texts[i]? with
    | none => "GEN-MISMATCH no-text"
    | some t =>
      match parseAxiom t.toList with
      | some (ax', _) => if ax' == ax then a else "GEN-MISMATCH"
      | none => "GEN-MISMATCH unparsable"

def c02Step (l : List String) : String :=
  match l with
  | ["name", i] =>
    match i.toNat? with
    | some i => "md=" ++ getS Gen.C02.axiomsMd i ++ " | data=" ++ getS Gen.C02.dataGo i ++ " | body=" ++ getS Gen.C02.dataGoBodies i
    | none => "bad-op"
  | ["parse", h] =>
    match fromHex h with
    | none => "bad-op"
    | some bs =>
      let cs := bs.map (fun b => Char.ofNat b.toNat)
      match parseAxiom cs with
      | some (ax, vars) => "ok " ++ ax.show vars ++ " | " ++ ",".intercalate (vars.map String.ofList)
      | none => "err"
  | "ax" :: i :: vs =>
    match i.toNat?, vs.mapM String.toInt? with
    | some i, some vals =>
      if i < Gen.C02.axiomsMd.length && Gen.C02.axioms.length == Gen.C02.axiomsMd.length then
        if vs.isEmpty then "unreadable" else evalBoth Gen.C02.axioms Gen.C02.axiomsMd Gen.C02.evalAxiom i vals
      else "bad-op"
    | _, _ => "bad-op"
  | "impl" :: i :: vs =>
    match i.toNat?, vs.mapM String.toInt? with
    | some i, some vals =>
      if i < Gen.C02.dataGoBodies.length && Gen.C02.implAxioms.length == Gen.C02.dataGoBodies.length then
        if vs.isEmpty then "unreadable" else evalBoth Gen.C02.implAxioms Gen.C02.dataGoBodies Gen.C02.evalImpl i vals
      else "bad-op"
    | _, _ => "bad-op"
  | _ => "bad-op"

def main : IO Unit :=
  Line.run ({} : C02Flow.State) (fun st l =>
    match C02Flow.step st l with
    | some r => r
    | none => (st, c02Step l))
